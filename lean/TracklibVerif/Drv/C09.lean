import TracklibVerif.Model.Viterbi
import TracklibVerif.Model.Hmm
import TracklibVerif.Drv.Util
/-! Driver handler for C09 (HMM.estimate / Viterbi decoding). Commands:
  decodeQ log <n> <P> <Q>        exact rationals; the tables hold what the user's P / Q return (logs)
  decodeF log|lik <n> <P> <Q>    IEEE doubles (bit patterns); `lik`: likelihoods, converted by
                                 `-(log (v + 1e-300))` with the C library's `log`
  n = states per epoch `n0,n1,…`; P = observation table flattened epoch-major (`Σ n_k` entries);
  Q = transition table flattened as `for k, for m < n_k, for l < n_{k+1}`.
  reply: `i0,i1,… c0,c1,…` (inferred state index and recorded hmm_cost per epoch), `err:index`, `err:value`.

  sess <N,L,R,YD> <features> <models> <steps> [<coords>]   a history of calls on tracks of `N` epochs (IEEE doubles)
    the user functions are table look-ups: `S(track,k)` = the k-th label list of a model, `Q(s1,s2,k,track)` =
    `QT[k][s1][s2]`, `P(s,y,k,track)` = `PT[k][s][code y]`, `code y` = the digits of the fields of `y` (a number
    `0 ≤ c < R` is the digit `c`, any other number `0`, a state its label mod `R`, a Coords three digits) read as a
    base-`R` number (first field = lowest digit), mod `YD`.  `L` = number of labels.
    features = `name:c,c,…|…` (numbers)   models = `S/P/Q@…`, `S` = `l,l;e;u;l` (`e` = no candidate, `u` = what `S`
    returned has no length: a generator, None, a bare state), `P`, `Q` flat
    models whose user functions READ THE TRACK they are handed or RAISE: `S/P/Q/<depS>!<depQ>!<depP>!<exc>!<S table>!…`;
    `exc` is `-` or `;`-separated `S,k` / `Q,k,s1,s2` / `P,k,s`: the call `S(track,k)` / `Q(s1,s2,k,track)` / `P(s,y,k,track)`
    raises (the status of such a call is `err:UserFunctionError`); a `dep` is `-`
    or `name^off`: the function reads the digit `v` of feature `name` (also `x`, `y`, `z`, `idx`) at epoch `(k + off) % N`
    (`0` when the track has no such feature); `S(track,k)` = row `k` of table number `v % (1 + number of further tables)`,
    `Q(s1,s2,k,track)` = `QT[k][s1][(s2 + v) % L]`, `P(s,y,k,track)` = `PT[k][s][(code y + v) % YD]`
    coords = `<3L numbers>/<3N numbers>`: the coordinates of the state objects by label and of the positions of track 0
    (default: state `l` at `(l,0,0)`, epoch `k` at `(k,0,0)`); `x`, `y`, `z` among the names of `est` read them
    steps = `|`-separated: `new:h:log:mS:mQ:mP` `log:h:b` `setS:h:m` `setQ:h:m` `setP:h:m` `est:h:t:logarg:mode:names`
            `obs:t:name:k:c` `mk:t:name:c,c,…` `copy:t`   (`h`, `t` = object / track numbers; `copy` appends a track)
    reply = `<per est: status/hmm_inference/hmm_cost>|…#<per track: name:cells;…/positions>|…#<log flag per object>`,
    a column is `-` when the track has no such feature, a cell is `n<bits>` or `s<label>`. -/
namespace TV.Drv.C09
open TV.Viterbi TV.Drv

/-- cut a flat list into consecutive chunks of the given sizes; `none` unless it is used up exactly -/
def chunks {β : Type} : List Nat → List β → Option (List (List β))
  | [], [] => some []
  | [], _ :: _ => none
  | s :: ss, xs =>
    if xs.length < s then none
    else (chunks ss (xs.drop s)).map (fun r => xs.take s :: r)

/-- sizes of the transition blocks: `n_k * n_{k+1}` -/
def pairSizes : List Nat → List Nat
  | a :: b :: rest => a * b :: pairSizes (b :: rest)
  | _ => []

def mkTables {β : Type} [LT β] [DecidableLT β] (add : β → β → β) (big : β) (conv : β → β)
    (ns : List Nat) (P : List (List β)) (Q : List (List β)) : Tables β :=
  { n := fun k => ns.getD k 0
    obs := fun k l => conv ((P.getD k []).getD l big)
    trans := fun k m l => conv ((Q.getD k []).getD (m * ns.getD (k+1) 0 + l) big)
    add := add
    big := big }

def showRes {β : Type} (sh : β → String) : Res β → String
  | .ok r => joinWith "," (r.map (fun p => toString p.1)) ++ " " ++ joinWith "," (r.map (fun p => sh p.2))
  | .errIndex => "err:index"
  | .errValue => "err:value"

def run {β : Type} [LT β] [DecidableLT β] [BEq β] (add : β → β → β) (big : β) (conv : β → β) (sh : β → String)
    (ns : List Nat) (pf qf : List β) : String :=
  match chunks ns pf, chunks (pairSizes ns) qf with
  | some P, some Q => showRes sh (decode (mkTables add big conv ns P Q) ns.length)
  | _, _ => "bad-request"

def bigQ : Rat := (10 : Rat) ^ 300
/-- the `1e300` sentinel and the `1e-300` guard (top-level constants: evaluated once) -/
def bigF : Float := 1e300
def epsF : Float := 1e-300

/-! ### histories -/
open TV.Hmm

structure SModel where
  S : List SRet
  P : List Float
  Q : List Float
  alt : List (List SRet) := []              -- further candidate tables: a track-reading `S` chooses among `S :: alt`
  depS : Option (String × Nat) := none      -- the feature and the epoch offset `S(track, k)` reads from the track
  depQ : Option (String × Nat) := none      -- … `Q(s1, s2, k, track)` …
  depP : Option (String × Nat) := none      -- … `P(s, y, k, track)` …
  excS : List Nat := []                     -- epochs `k` at which `S(track, k)` raises
  excQ : List (Nat × Nat × Nat) := []       -- `(k, s1, s2)` at which `Q(s1, s2, k, track)` raises
  excP : List (Nat × Nat) := []             -- `(k, s)` at which `P(s, y, k, track)` raises

structure SObj where
  log : Bool
  mS : Nat
  mQ : Nat
  mP : Nat

structure Sess where
  N : Nat
  L : Nat
  R : Nat
  YD : Nat
  models : Array SModel
  tracks : Array (Trk Float)
  objs : Array (Option SObj)
  outs : Array String
  stc : Array (Float × Float × Float) := #[]     -- coordinates of the state objects by label

def numF : Num Float :=
  { logf := Float.log
    eps := epsF
    big := bigF
    zero := 0.0
    idx := fun i => i.toFloat
    logDom := fun x => x > 0.0 || x.isNaN }
/-- the scalar constants with the session's table of state coordinates -/
def numS (stc : Array (Float × Float × Float)) : Num Float :=
  { numF with stXYZ := fun s => stc.getD s (s.toFloat, 0.0, 0.0) }

/-- the digit the user's `P` reads from one cell -/
def digit (R : Nat) : Cell Float → Nat
  | .num v => if 0.0 ≤ v && v < R.toFloat && v == v.floor then v.toUInt64.toNat else 0
  | .st s => s % R

def digits (R : Nat) : List (ObsItem Float) → List Nat
  | [] => []
  | .cell c :: rest => digit R c :: digits R rest
  | .coords x y z :: rest => digit R x :: digit R y :: digit R z :: digits R rest

def codeOf (R YD : Nat) (y : List (ObsItem Float)) : Nat :=
  ((digits R y).foldr (fun d acc => d + R * acc) 0) % YD

/-- what a track-reading user function sees: the digit of feature `src` at epoch `(k + off) % N` of the track it is handed
(`x`, `y`, `z`: the coordinates of whatever object the position is), `0` when the track has no such feature -/
def readDigit (s : Sess) (tr : Trk Float) (dep : Option (String × Nat)) (k : Nat) : Nat :=
  match dep with
  | none => 0
  | some (src, off) =>
    match tr.getObs (numS s.stc) src ((k + off) % s.N) with
    | .ok c => digit s.R c
    | .error _ => 0

/-- the user functions of an object: table look-ups, the table (`S`) / the column (`Q`, `P`) selected by what the
function reads in the TRACK IT IS HANDED (`estimate` hands every one of them the track as it is when the call is made:
`Model/Hmm.lean` evaluates `h.S tr`, `h.Q … tr`, `h.P … tr` on the argument of the call) -/
def objOf (s : Sess) (o : SObj) : Option (ObjX Float) :=
  match s.models[o.mS]?, s.models[o.mQ]?, s.models[o.mP]? with
  | some ms, some mq, some mp =>
    some { S := fun tr k =>
             if ms.excS.contains k then none else
             match ms.depS with
             | none => some (ms.S.getD k (.sized []))
             | some _ =>
               let tabs := ms.S :: ms.alt
               some ((tabs.getD (readDigit s tr ms.depS k % tabs.length) ms.S).getD k (.sized []))
           Q := fun s1 s2 k tr =>
             if mq.excQ.contains (k, s1, s2) then none else
             some (mq.Q.getD ((k * s.L + s1) * s.L + (s2 + readDigit s tr mq.depQ k) % s.L) 0.0)
           P := fun st y k tr =>
             if mp.excP.contains (k, st) then none else
             some (mp.P.getD ((k * s.L + st) * s.YD + (codeOf s.R s.YD y + readDigit s tr mp.depP k) % s.YD) 0.0)
           log := o.log }
  | _, _, _ => none

def showCell : Cell Float → String
  | .num v => "n" ++ showFloat v
  | .st s => "s" ++ toString s

def showCol (tr : Trk Float) (name : String) : String :=
  match tr.col? name with
  | none => "-"
  | some c => joinWith "," (c.map showCell)

def showErr : Option Err → String
  | none => "ok"
  | some .index => "err:index"
  | some .value => "err:value"
  | some .exit => "err:exit"
  | some .unknownAF => "err:AnalyticalFeatureError"
  | some .reservedAF => "err:AnalyticalFeatureError"
  | some .emptyTrack => "err:AnalyticalFeatureError"
  | some .unsupported => "unsupported"
  | some .type => "err:type"
  | some .user => "err:UserFunctionError"

def showTrk (tr : Trk Float) : String :=
  joinWith ";" (tr.cols.map (fun c => c.1 ++ ":" ++ joinWith "," (c.2.map showCell))) ++ "/" ++
    joinWith "," (tr.pos.map (fun p => match p with | none => "-1" | some s => toString s))

def bool? (s : String) : Option Bool := if s == "1" then some true else if s == "0" then some false else none

def cells? (s : String) : Option (List (Cell Float)) := (floatList? s).map (·.map Cell.num)

/-- one step; `none` = malformed or outside the model -/
def step (s : Sess) (f : List String) : Option Sess :=
  match f with
  | ["new", h, lg, a, b, c] => do
    let h ← h.toNat?; let lg ← bool? lg; let a ← a.toNat?; let b ← b.toNat?; let c ← c.toNat?
    if h != s.objs.size || a ≥ s.models.size || b ≥ s.models.size || c ≥ s.models.size then none
    else some { s with objs := s.objs.push (some { log := lg, mS := a, mQ := b, mP := c }) }
  | ["log", h, lg] => do
    let h ← h.toNat?; let lg ← bool? lg
    let o ← (← s.objs[h]?)
    some { s with objs := s.objs.set! h (some { o with log := lg }) }
  | [cmd, h, m] =>
    if cmd == "setS" || cmd == "setQ" || cmd == "setP" then do
      let h ← h.toNat?; let m ← m.toNat?
      let o ← (← s.objs[h]?)
      if m ≥ s.models.size then none else
      let o' := if cmd == "setS" then { o with mS := m } else if cmd == "setQ" then { o with mQ := m } else { o with mP := m }
      some { s with objs := s.objs.set! h (some o') }
    else none
  | ["est", h, t, lg, mode, names] => do
    let h ← h.toNat?; let t ← t.toNat?; let lg ← bool? lg; let mode ← mode.toNat?
    let o ← (← s.objs[h]?)
    let tr ← s.tracks[t]?
    let ob ← objOf s o
    let r := estimateX (numS s.stc) ob tr (splitTok names ',') lg mode
    if r.2.2 == some Err.unsupported then none else
    let out := showErr r.2.2 ++ "/" ++ showCol r.2.1 "hmm_inference" ++ "/" ++ showCol r.2.1 "hmm_cost"
    some { s with objs := s.objs.set! h (some { o with log := r.1 }), tracks := s.tracks.set! t r.2.1,
                  outs := s.outs.push out }
  | ["obs", t, name, k, c] => do
    let t ← t.toNat?; let k ← k.toNat?; let c ← float? c
    let tr ← s.tracks[t]?
    match tr.setObs name k (.num c) with
    | .ok tr' => some { s with tracks := s.tracks.set! t tr' }
    | .error _ => none
  | ["mk", t, name, cs] => do
    let t ← t.toNat?; let cs ← cells? cs
    let tr ← s.tracks[t]?
    match tr.createL name cs with
    | .ok tr' => some { s with tracks := s.tracks.set! t tr' }
    | .error _ => none
  | ["copy", t] => do
    let t ← t.toNat?
    let tr ← s.tracks[t]?
    some { s with tracks := s.tracks.push tr }
  | _ => none

/-- a candidate table `l,l;e;u;l` of `N` epochs over `L` labels -/
def stab? (N L : Nat) (sS : String) : Option (List SRet) := do
  let S ← (splitTok sS ';').mapM (fun e => if e == "e" then some (SRet.sized []) else if e == "u" then some SRet.unsized
                                             else (natList? e).map SRet.sized)
  if S.length != N || S.any (·.items.any (· ≥ L)) then none else some S

/-- `-` (the function does not look at the track) or `name^off` -/
def dep? (d : String) : Option (Option (String × Nat)) :=
  if d == "-" then some none else
  match d.splitOn "^" with
  | [name, off] => if name ∈ ["t", "timestamp"] || name == "" then none else off.toNat?.map (fun o => some (name, o))
  | _ => none

def model? (N L YD : Nat) (m : String) : Option SModel :=
  let base (sS sP sQ : String) : Option SModel := do
    let S ← stab? N L sS
    let P ← floatList? sP
    let Q ← floatList? sQ
    if P.length != N * L * YD || Q.length != (N - 1) * L * L then none
    else some { S := S, P := P, Q := Q }
  match m.splitOn "/" with
  | [sS, sP, sQ] => base sS sP sQ
  | [sS, sP, sQ, sD] => do
    let b ← base sS sP sQ
    match sD.splitOn "!" with
    | dS :: dQ :: dP :: ex :: alts => do
      let dS ← dep? dS; let dQ ← dep? dQ; let dP ← dep? dP
      let alt ← alts.mapM (stab? N L)
      let ex ← if ex == "-" then some [] else (ex.splitOn ";").mapM (fun e =>
        match e.splitOn "," with
        | f :: args => (args.mapM String.toNat?).map (fun a => (f, a))
        | _ => none)
      let excS ← ex.filterMapM (fun e => match e with
        | ("S", [k]) => some (some k) | ("S", _) => none | _ => some none)
      let excQ ← ex.filterMapM (fun e => match e with
        | ("Q", [k, a, c]) => some (some (k, a, c)) | ("Q", _) => none | _ => some none)
      let excP ← ex.filterMapM (fun e => match e with
        | ("P", [k, a]) => some (some (k, a)) | ("P", _) => none | _ => some none)
      if ex.any (fun e => e.1 != "S" && e.1 != "Q" && e.1 != "P") then none else
      some { b with alt := alt, depS := dS, depQ := dQ, depP := dP, excS := excS, excQ := excQ, excP := excP }
    | _ => none
  | _ => none

def feat? (N : Nat) (f : String) : Option (String × List (Cell Float)) :=
  match f.splitOn ":" with
  | [name, cs] => do
    let cs ← cells? cs
    if cs.length != N || name ∈ reserved then none else some (name, cs)
  | _ => none

def triples : List Float → List (Float × Float × Float)
  | a :: b :: c :: rest => (a, b, c) :: triples rest
  | _ => []

/-- `<3L numbers>/<3N numbers>`; `none` = malformed -/
def coords? (N L : Nat) (c : Option String) : Option (List (Float × Float × Float) × List (Float × Float × Float)) :=
  match c with
  | none => some ((List.range L).map (fun l => (l.toFloat, 0.0, 0.0)), (List.range N).map (fun k => (k.toFloat, 0.0, 0.0)))
  | some c =>
    match c.splitOn "/" with
    | [a, b] => do
      let a ← floatList? a
      let b ← floatList? b
      if a.length != 3 * L || b.length != 3 * N then none else some (triples a, triples b)
    | _ => none

def runSess (dims feats models steps : String) (coords : Option String := none) : String :=
  match natList? dims with
  | some [N, L, R, YD] =>
    if N == 0 || L == 0 || R == 0 || YD == 0 then "bad-request" else
    match (splitTok feats '|').mapM (feat? N), (splitTok models '@').mapM (model? N L YD), coords? N L coords with
    | some fs, some ms, some (stc, pos0) =>
      if (fs.map (·.1)).eraseDups.length != fs.length then "bad-request" else
      let s0 : Sess := { N := N, L := L, R := R, YD := YD, models := ms.toArray,
                         tracks := #[{ size := N, cols := fs, pos := List.replicate N none, xyz := pos0 }], objs := #[], outs := #[],
                         stc := stc.toArray }
      match (splitTok steps '|').foldlM (fun s st => step s (st.splitOn ":")) s0 with
      | none => "bad-request"
      | some s =>
        joinWith "|" s.outs.toList ++ "#" ++ joinWith "|" (s.tracks.toList.map showTrk) ++ "#" ++
          joinWith "," (s.objs.toList.map (fun o => match o with | some o => showBool o.log | none => "x"))
    | _, _, _ => "bad-request"
  | _ => "bad-request"

def handle (cmd : String) (args : List String) : String :=
  match cmd, args with
  | "sess", [dims, feats, models, steps] => runSess dims feats models steps
  | "sess", [dims, feats, models, steps, coords] => runSess dims feats models steps (some coords)
  | "decodeQ", ["log", n, p, q] =>
    match natList? n, ratList? p, ratList? q with
    | some ns, some pf, some qf =>
      run (· + ·) bigQ (costOf (fun x => x) 0 true) showRat ns pf qf
    | _, _, _ => "bad-request"
  | "decodeF", [mode, n, p, q] =>
    if mode != "log" && mode != "lik" then "bad-request" else
    match natList? n, floatList? p, floatList? q with
    | some ns, some pf, some qf =>
      run (· + ·) bigF (costOf Float.log epsF (mode == "log")) showFloat ns pf qf
    | _, _, _ => "bad-request"
  | _, _ => "bad-request"
end TV.Drv.C09
