import TracklibVerif.Model.Viterbi
import TracklibVerif.Drv.Util
/-! Driver handler for C09 (HMM.estimate / Viterbi decoding). Commands:
  decodeQ log <n> <P> <Q>        exact rationals; the tables hold what the user's P / Q return (logs)
  decodeF log|lik <n> <P> <Q>    IEEE doubles (bit patterns); `lik`: likelihoods, converted by
                                 `-(log (v + 1e-300))` with the C library's `log`
  n = states per epoch `n0,n1,…`; P = observation table flattened epoch-major (`Σ n_k` entries);
  Q = transition table flattened as `for k, for m < n_k, for l < n_{k+1}`.
  reply: `i0,i1,… c0,c1,…` (inferred state index and recorded hmm_cost per epoch), `err:index`, `err:value`. -/
namespace TV.Drv.C09
open TV.Viterbi TV.Drv

/-- cut a flat list into consecutive chunks of the given sizes; `none` unless it is used up exactly -/
def chunks {β : Type} : List Nat → List β → Option (List (List β))
  | [], [] => some []
  | [], _ :: _ => none
  | s :: ss, xs =>
    if xs.length < s then none
    else (chunks ss (xs.drop s)).map (fun r => xs.take s :: r)

/-- sizes of the transition blocks: `n_k * n_{k+1}` -/
def pairSizes : List Nat → List Nat
  | a :: b :: rest => a * b :: pairSizes (b :: rest)
  | _ => []

def mkTables {β : Type} [LT β] [DecidableLT β] (add : β → β → β) (big : β) (conv : β → β)
    (ns : List Nat) (P : List (List β)) (Q : List (List β)) : Tables β :=
  { n := fun k => ns.getD k 0
    obs := fun k l => conv ((P.getD k []).getD l big)
    trans := fun k m l => conv ((Q.getD k []).getD (m * ns.getD (k+1) 0 + l) big)
    add := add
    big := big }

def showRes {β : Type} (sh : β → String) : Res β → String
  | .ok r => joinWith "," (r.map (fun p => toString p.1)) ++ " " ++ joinWith "," (r.map (fun p => sh p.2))
  | .errIndex => "err:index"
  | .errValue => "err:value"

def run {β : Type} [LT β] [DecidableLT β] (add : β → β → β) (big : β) (conv : β → β) (sh : β → String)
    (ns : List Nat) (pf qf : List β) : String :=
  match chunks ns pf, chunks (pairSizes ns) qf with
  | some P, some Q => showRes sh (decode (mkTables add big conv ns P Q) ns.length)
  | _, _ => "bad-request"

def bigQ : Rat := (10 : Rat) ^ 300
/-- the `1e300` sentinel and the `1e-300` guard (top-level constants: evaluated once) -/
def bigF : Float := 1e300
def epsF : Float := 1e-300

def handle (cmd : String) (args : List String) : String :=
  match cmd, args with
  | "decodeQ", ["log", n, p, q] =>
    match natList? n, ratList? p, ratList? q with
    | some ns, some pf, some qf =>
      run (· + ·) bigQ (costOf (fun x => x) 0 true) showRat ns pf qf
    | _, _, _ => "bad-request"
  | "decodeF", [mode, n, p, q] =>
    if mode != "log" && mode != "lik" then "bad-request" else
    match natList? n, floatList? p, floatList? q with
    | some ns, some pf, some qf =>
      run (· + ·) bigF (costOf Float.log epsF (mode == "log")) showFloat ns pf qf
    | _, _, _ => "bad-request"
  | _, _ => "bad-request"
end TV.Drv.C09
