import TracklibVerif.Model.Simplify
import TracklibVerif.Drv.Util
/-! Driver handler for C16 (simplification), `Float` instantiation (`sqrt = Float.sqrt`, ARGMIN sentinel
`1e300`). Floats are IEEE bit patterns. Commands:
  dp <eps> <xs> <ys>            → kept indices `i,j,…` of the code's own run, then ` ` and every output
                                  reachable with another choice among equally far fixes (`;`-separated),
                                  or `err:recursion` when the recursion does not terminate
  vw <eps> <xs> <ys>            → kept indices
  dist <x0> <y0> <x1> <y1> <x2> <y2>  → distance_to_segment
  area <x0> <y0> <x1> <y1> <x2> <y2>  → triangle_area
  distq <6 rationals>           → exact squared distance to the closed segment (`distSegSq` on `Rat`) -/
namespace TV.Drv.C16
open TV.Simplify TV.Drv

def mkTrack (xs ys : List Float) : List (Fix Float) :=
  (xs.zip ys).zipIdx.map (fun p => ⟨p.2, p.1.1, p.1.2⟩)

def showIdx (l : List (Fix Float)) : String := showList (fun (p : Fix Float) => toString p.tag) l

def big : Float := 1e300

def handle (cmd : String) (args : List String) : String :=
  match cmd, args with
  | "dp", [e, xs, ys] =>
    match float? e, floatList? xs, floatList? ys with
    | some eps, some xs, some ys =>
      if xs.length != ys.length then "bad-request" else
      let L := mkTrack xs ys
      match douglasPeucker Float.sqrt eps L with
      | none => "err:recursion"
      | some out => showIdx out ++ " " ++ joinWith ";" ((dpAllFuel Float.sqrt eps L.length L).map showIdx)
    | _, _, _ => "bad-request"
  | "vw", [e, xs, ys] =>
    match float? e, floatList? xs, floatList? ys with
    | some eps, some xs, some ys =>
      if xs.length != ys.length || xs.isEmpty then "bad-request" else
      showIdx (visvalingam big eps (mkTrack xs ys))
    | _, _, _ => "bad-request"
  | "dist", _ =>
    match args.mapM float? with
    | some [x0, y0, x1, y1, x2, y2] => showFloat (distanceToSegment Float.sqrt x0 y0 x1 y1 x2 y2)
    | _ => "bad-request"
  | "area", _ =>
    match args.mapM float? with
    | some [x0, y0, x1, y1, x2, y2] => showFloat (triangleArea x0 y0 x1 y1 x2 y2)
    | _ => "bad-request"
  | "distq", _ =>
    match args.mapM rat? with
    | some [x0, y0, x1, y1, x2, y2] => showRat (distSegSq x0 y0 x1 y1 x2 y2)
    | _ => "bad-request"
  | _, _ => "bad-request"
end TV.Drv.C16
