import TracklibVerif.Model.SimplifyTrack
import TracklibVerif.Model.SimplifyTie
import TracklibVerif.Drv.Util
/-! Driver handler for C16 (simplification), `Float` instantiation (`sqrt = Float.sqrt`, ARGMIN sentinel
`+inf`, the code's `float('inf')` since 68863c7). Floats are IEEE bit patterns. Commands:
  dp <eps> <xs> <ys>            → kept indices `i,j,…` of the code's own run, then ` ` and every output
                                  reachable with another choice among equally far fixes (`;`-separated),
                                  or `err:recursion` when the recursion does not terminate
  dpdepth <eps> <xs> <ys>       → depth of the recursion of `douglas_peucker` (`dpDepth`: nested calls below the outermost one), or
                                  `err:recursion`
  vw <eps> <xs> <ys>            → kept indices
  vwall <eps> <xs> <ys> <cap>   → kept indices of the code's own run, then ` ` and every output reachable with another choice among
                                  equally small triangles (`visvalingamAll`, `;`-separated; `Model/SimplifyTie.lean`), or `toomany`
                                  when a level of the enumeration holds more than `cap` states
  dist <x0> <y0> <x1> <y1> <x2> <y2>  → distance_to_segment
  area <x0> <y0> <x1> <y1> <x2> <y2>  → triangle_area
  distq <6 rationals>           → exact squared distance to the closed segment (`distSegSq` on `Rat`)
  trk <mode> <eps> <xs> <ys> <uid> <tid> <base|_> <names> <cols> <rows>
                                → `simplify(track, eps, mode)` on the `Track` object (`Model/SimplifyTrack.lean`): the track has
                                  `uid`, `tid`, `base`, the feature dict `names[i] ↦ cols[i]` and one feature row per fix
                                  (NaN = `nan`). Reply: `<kept tags> <uid> <tid> <base|_> <names> <cols> <rows>` of the result,
                                  or `err:<Python exception>` / `unsupported` (modes 3 … 8)
  trkn <mode> <eps> <xs> <ys> <uid> <tid> <base|_> <names> <cols> <rows> <no_data_value|_>
                                → `simplify` on a track that carries the attribute `no_data_value` (`simplifyN`): the reply of `trk`
                                  followed by the result's `no_data_value` (`_` = None)
  net <mode> <eps> <k> then k × (<xs> <ys> <uid> <tid> <base|_> <names> <cols> <rows> <no_data_value|_>)
                                → `Network.simplify(eps, mode)` on a network whose k edges have these geometries (`netSimplify`):
                                  the k replies of `trkn` separated by ` | `, or the first error
  coll <mode|_> <eps> <k> then k × (<xs> <ys> <uid> <tid> <base|_> <names> <cols> <rows> <no_data_value|_>)
                                → `TrackCollection(tracks).simplify(eps, mode)` (`collSimplify`; mode `_` = the argument is not
                                  given: the default `mode=1`): the k replies of `trkn` separated by ` | `, `_` for an empty
                                  collection, or the first error
  mode <int>                    → which algorithm `simplify` dispatches to -/
namespace TV.Drv.C16
open TV.Simplify TV.Drv

def mkTrack (xs ys : List Float) : List (Fix Float) :=
  (xs.zip ys).zipIdx.map (fun p => ⟨p.2, p.1.1, p.1.2⟩)

def showIdx (l : List (Fix Float)) : String := showList (fun (p : Fix Float) => toString p.tag) l

def big : Float := 1.0 / 0.0

def optF (v : Float) : Option Float := if v.isNaN then none else some v
def showOptF : Option Float → String
  | none => "nan"
  | some v => showFloat v

def showTrk (T : Trk Float) : String :=
  " ".intercalate [showList (fun (o : Ob Float) => toString o.fix.tag) T.pts, toString T.info.uid, toString T.info.tid,
    (match T.info.base with | none => "_" | some b => toString b),
    joinWith "," (T.dico.map (·.1)), showList (fun (p : String × Nat) => toString p.2) T.dico,
    joinWith ";" (T.pts.map (fun o => showList showOptF o.feats))]

def handleTrk (args : List String) : String :=
  match args with
  | [m, e, xs, ys, uid, tid, base, names, cols, rows] =>
    match m.toInt?, float? e, floatList? xs, floatList? ys, uid.toNat?, tid.toNat?, natList? cols, floatListList? rows with
    | some mode, some eps, some xs, some ys, some uid, some tid, some cols, some rows =>
      let names := splitTok names ','
      let base? : Option (Option Nat) := if base == "_" then some none else base.toNat?.map some
      let rows := if rows.isEmpty then List.replicate xs.length [] else rows
      match base? with
      | none => "bad-request"
      | some base =>
        if xs.length != ys.length || rows.length != xs.length || names.length != cols.length then "bad-request" else
        let pts : List (Ob Float) := ((mkTrack xs ys).zip rows).map (fun p => ⟨p.1, p.2.map optF⟩)
        match simplify Float.sqrt big ⟨pts, ⟨uid, tid, base⟩, names.zip cols⟩ eps mode with
        | .ok O => showTrk O
        | .error "unsupported" => "unsupported"
        | .error e => "err:" ++ e
    | _, _, _, _, _, _, _, _ => "bad-request"
  | _ => "bad-request"

/-- a track with its attributes from nine tokens -/
def parseTrkN (args : List String) : Option (TrkN Float) :=
  match args with
  | [xs, ys, uid, tid, base, names, cols, rows, nd] =>
    match floatList? xs, floatList? ys, uid.toNat?, tid.toNat?, natList? cols, floatListList? rows with
    | some xs, some ys, some uid, some tid, some cols, some rows =>
      let names := splitTok names ','
      let base? : Option (Option Nat) := if base == "_" then some none else base.toNat?.map some
      let nd? : Option (Option Float) := if nd == "_" then some none else (float? nd).map some
      let rows := if rows.isEmpty then List.replicate xs.length [] else rows
      match base?, nd? with
      | some base, some nd =>
        if xs.length != ys.length || rows.length != xs.length || names.length != cols.length then none else
        let pts : List (Ob Float) := ((mkTrack xs ys).zip rows).map (fun p => ⟨p.1, p.2.map optF⟩)
        some ⟨⟨pts, ⟨uid, tid, base⟩, names.zip cols⟩, nd⟩
      | _, _ => none
    | _, _, _, _, _, _ => none
  | _ => none

def showTrkN (T : TrkN Float) : String :=
  showTrk T.trk ++ " " ++ (match T.nodata with | none => "_" | some v => showFloat v)

def showErr (e : String) : String := if e == "unsupported" then "unsupported" else "err:" ++ e

def handleTrkN (args : List String) : String :=
  match args with
  | m :: e :: rest =>
    match m.toInt?, float? e, parseTrkN rest with
    | some mode, some eps, some T =>
      match simplifyN Float.sqrt big T eps mode with
      | .ok O => showTrkN O
      | .error e => showErr e
    | _, _, _ => "bad-request"
  | _ => "bad-request"

/-- `k` groups of nine tokens -/
def parseGeoms : Nat → List String → Option (List (TrkN Float))
  | 0, [] => some []
  | 0, _ :: _ => none
  | k + 1, args =>
    match parseTrkN (args.take 9), parseGeoms k (args.drop 9) with
    | some T, some r => some (T :: r)
    | _, _ => none

def handleNet (args : List String) : String :=
  match args with
  | m :: e :: k :: rest =>
    match m.toInt?, float? e, k.toNat? with
    | some mode, some eps, some k =>
      if rest.length != 9 * k then "bad-request" else
      match parseGeoms k rest with
      | some G =>
        match netSimplify Float.sqrt big G eps mode with
        | .ok O => if O.isEmpty then "_" else " | ".intercalate (O.map showTrkN)
        | .error e => showErr e
      | none => "bad-request"
    | _, _, _ => "bad-request"
  | _ => "bad-request"

def handleColl (args : List String) : String :=
  match args with
  | m :: e :: k :: rest =>
    let mode? : Option (Option Int) := if m == "_" then some none else m.toInt?.map some
    match mode?, float? e, k.toNat? with
    | some mode, some eps, some k =>
      if rest.length != 9 * k then "bad-request" else
      match parseGeoms k rest with
      | some C =>
        let r := match mode with
          | none => collSimplify Float.sqrt big C eps          -- `collection.simplify(eps)`: the default mode
          | some m => collSimplify Float.sqrt big C eps m
        match r with
        | .ok O => if O.isEmpty then "_" else " | ".intercalate (O.map showTrkN)
        | .error e => showErr e
      | none => "bad-request"
    | _, _, _ => "bad-request"
  | _ => "bad-request"

def handle (cmd : String) (args : List String) : String :=
  match cmd, args with
  | "trk", _ => handleTrk args
  | "coll", _ => handleColl args
  | "trkn", _ => handleTrkN args
  | "net", _ => handleNet args
  | "mode", [m] =>
    match m.toInt? with
    | some mode => toString (repr (dispatch mode))
    | none => "bad-request"
  | "dp", [e, xs, ys] =>
    match float? e, floatList? xs, floatList? ys with
    | some eps, some xs, some ys =>
      if xs.length != ys.length then "bad-request" else
      let L := mkTrack xs ys
      match douglasPeucker Float.sqrt eps L with
      | none => "err:recursion"
      | some out => showIdx out ++ " " ++ joinWith ";" ((dpAllFuel Float.sqrt eps L.length L).map showIdx)
    | _, _, _ => "bad-request"
  | "dpdepth", [e, xs, ys] =>
    match float? e, floatList? xs, floatList? ys with
    | some eps, some xs, some ys =>
      if xs.length != ys.length then "bad-request" else
      match dpDepth Float.sqrt eps (mkTrack xs ys) with
      | none => "err:recursion"
      | some d => toString d
    | _, _, _ => "bad-request"
  | "vw", [e, xs, ys] =>
    match float? e, floatList? xs, floatList? ys with
    | some eps, some xs, some ys =>
      if xs.length != ys.length || xs.isEmpty then "bad-request" else
      showIdx (visvalingam big eps (mkTrack xs ys))
    | _, _, _ => "bad-request"
  | "vwall", [e, xs, ys, cap] =>
    match float? e, floatList? xs, floatList? ys, cap.toNat? with
    | some eps, some xs, some ys, some cap =>
      if xs.length != ys.length || xs.isEmpty then "bad-request" else
      let L := mkTrack xs ys
      showIdx (visvalingam big eps L) ++ " " ++
        (match visvalingamAll big eps cap L with
         | some R => joinWith ";" (R.map showIdx)
         | none => "toomany")
    | _, _, _, _ => "bad-request"
  | "dist", _ =>
    match args.mapM float? with
    | some [x0, y0, x1, y1, x2, y2] => showFloat (distanceToSegment Float.sqrt x0 y0 x1 y1 x2 y2)
    | _ => "bad-request"
  | "area", _ =>
    match args.mapM float? with
    | some [x0, y0, x1, y1, x2, y2] => showFloat (triangleArea x0 y0 x1 y1 x2 y2)
    | _ => "bad-request"
  | "distq", _ =>
    match args.mapM rat? with
    | some [x0, y0, x1, y1, x2, y2] => showRat (distSegSq x0 y0 x1 y1 x2 y2)
    | _ => "bad-request"
  | _, _ => "bad-request"
end TV.Drv.C16
