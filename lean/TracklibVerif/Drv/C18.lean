import TracklibVerif.Model.DTWTable
import TracklibVerif.Drv.Util
/-! Driver handler for C18 (DTW / FDTW / Frechet matching), scalars = `Float` (IEEE bit patterns).
  match <dtw|fdtw|frechet> <1|2|inf> <dim> <track1> <track2>
      → <score> <S: i,j;i,j;…> <pairs: a,b;c;…> <nb_links> <diff,…> <ex,…> <ey,…>      (or `err:index`)
  compare <dtw|fdtw|frechet> <1|2|inf> <dim> <track1> <track2> → <value>
  table <1|2|inf> <D columns: d,d;d,d;…> → <T columns> <M columns: i:j,i:j;…>
  track = x,y,z;x,y,z;…  (empty track = `_`) -/
namespace TV.Drv.C18
open TV.DTW TV.Drv

def pt? : List Float → Option (Pt Float)
  | [x, y, z] => some ⟨x, y, z⟩
  | _ => none

def track? (s : String) : Option (List (Pt Float)) := do
  let ll ← floatListList? s
  ll.mapM pt?

def mode? : String → Option Mode
  | "dtw" => some .dtw
  | "fdtw" => some .fdtw
  | "frechet" => some .frechet
  | _ => none

def pnorm? : String → Option PNorm
  | "1" => some .one
  | "2" => some .two
  | "inf" => some .inf
  | _ => none

def dim? (s : String) : Option Nat :=
  match s.toNat? with
  | some d => if d = 1 ∨ d = 2 ∨ d = 3 then some d else none
  | none => none

def big : Float := 1e300

def showPairs (l : List (Nat × Nat)) : String := joinWith ";" (l.map (fun p => s!"{p.1},{p.2}"))
def showOptF (o : Option Float) : String := showOpt showFloat o

def showOut (o : Out Float) : String :=
  " ".intercalate [showFloat o.score, showPairs o.S, showListList toString (o.rows.map (·.pair)), toString o.nbLinks,
    showList showOptF (o.rows.map (·.diff)), showList showOptF (o.rows.map (·.ex)), showList showOptF (o.rows.map (·.ey))]

def handle (cmd : String) (args : List String) : String :=
  match cmd, args with
  | "match", [m, p, d, a, b] =>
    match mode? m, pnorm? p, dim? d, track? a, track? b with
    | some m, some p, some d, some t1, some t2 =>
      match matchTracks Float.sqrt big m p d t1 t2 with
      | .ok o => showOut o
      | .error e => e
    | _, _, _, _, _ => "bad-request"
  | "compare", [m, p, d, a, b] =>
    match mode? m, pnorm? p, dim? d, track? a, track? b with
    | some m, some p, some d, some t1, some t2 =>
      match compareTracks Float.sqrt Nat.toFloat big m p d t1 t2 with
      | .ok v => showFloat v
      | .error e => e
    | _, _, _, _, _ => "bad-request"
  | "table", [p, dc] =>
    match pnorm? p, floatListList? dc with
    | some p, some cols =>
      let tab := table (weight p) (0 : Float) cols
      showListList showFloat (tab.map (·.map (·.1))) ++ " " ++
        joinWith ";" (tab.map (fun c => joinWith "," (c.map (fun x => s!"{x.2.1}:{x.2.2}"))))
    | _, _ => "bad-request"
  | _, _ => "bad-request"
end TV.Drv.C18
