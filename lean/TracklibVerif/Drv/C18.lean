import TracklibVerif.Model.DTWTable
import TracklibVerif.Model.DTWReal
import TracklibVerif.Model.DTWInt64
import TracklibVerif.Model.DTWHyp
import TracklibVerif.Drv.Util
/-! Driver handler for C18 (DTW / FDTW / Frechet matching), scalars = `Float` (IEEE bit patterns).
  match <cls> <dtw|fdtw|frechet> <1|2|inf> <dim> <track1> <track2>
      → <score> <S: i,j;i,j;…> <pairs: a,b;c;…> <nb_links> <diff,…> <ex,…> <ey,…>      (or `err:index`, `err:attr`, …)
  compare <cls> <dtw|fdtw|frechet> <1|2|inf> <dim> <track1> <track2> → <value>
  match64 <k> <dim> <track1> <track2> → as match: `match(track1, track2, FDTW, p = k, dim)` on `ENUCoords` tracks whose coordinates are
      `numpy.int64` and a `dim` whose point distance is a `numpy.int64` (1, fn.manh, fn.cheb): `B**k` in int64 (`Model/DTWInt64.lean`,
      `matchFdtw64`; the distance is read back with `Float.toInt64`, the wrapped power added as `Float.ofInt`)
  hyp <cls> <p> <dim> <track1> <track2> → 1 | 0: do the hypotheses under which the fast variant is proved correct hold of these
      tracks (`Model/DTWHyp.lean`, `fastHypCheck` with `big = 1e300`, the accumulation of `p`, `B**x = Float.pow`)? (or `err:…`)
  table <1|2|inf> <D columns: d,d;d,d;…> → <T columns> <M columns: i:j,i:j;…>
  seq <cls> <tracks: track|track|…> <pre: 0,1,…> <steps: step;step;…> → <reply> | <reply> | …
  cls = enu | geo | ecef: the class of the position objects of every track of the request (`ENUCoords`, `GeoCoords`, `ECEFCoords`);
  dim = 1 | 2 | 3 | fn.<name>: a number, or the function form of `dim` with one of the callables the harness passes
      (manh: |dx| + |dy|, cheb: max(|dx|, |dy|), lead: max(x1 - x2, 0) + |dy| — not symmetric)
      a session of calls on shared objects (`Model.DTWTable.runSeq`): object k < #tracks is track k (`pre` = 1: it already
      carries `diff`, `pair`, `ex`, `ey` features with other values), object #tracks + s is what step s returned.
      step = <m|c>:<mode constant>:<str(type(p)) without blanks>:<p as k|inf|->:<callable p computes k|inf|->:<dim>:<a>:<b>
      reply = as for match / compare, or `err:…`
  track = x,y,z;x,y,z;…  (empty track = `_`); p = 0, 1, 2, 3, … or inf, or x<bits> for a number that is neither (`p = 1.5`: the bit
  pattern of the float); the front ends run are those of `Model/DTWReal.lean` (`matchCallX`, `compareCallX`, `runSeqX`), `B**p` for
  such a `p` being `Float.pow` -/
namespace TV.Drv.C18
open TV.DTW TV.Drv

def pt? : List Float → Option (Pt Float)
  | [x, y, z] => some ⟨x, y, z⟩
  | _ => none

def track? (s : String) : Option (List (Pt Float)) := do
  let ll ← floatListList? s
  ll.mapM pt?

def mode? : String → Option Mode
  | "dtw" => some .dtw
  | "fdtw" => some .fdtw
  | "frechet" => some .frechet
  | _ => none

def fabs (x : Float) : Float := if x < 0 then 0 - x else x

/-- the callables the harness hands over as `dim` (on `getX()`, `getY()` of the two positions) -/
def dimFn? : String → Option (Pt Float → Pt Float → Float)
  | "manh" => some (fun p q => fabs (p.x - q.x) + fabs (p.y - q.y))
  | "cheb" => some (fun p q => pmax (fabs (p.x - q.x)) (fabs (p.y - q.y)))
  | "lead" => some (fun p q => pmax (p.x - q.x) 0 + fabs (p.y - q.y))
  | _ => none

def dim? (s : String) : Option (DimArg Float) :=
  if s.startsWith "fn." then (dimFn? (s.drop 3).toString).map DimArg.fn
  else s.toNat?.map DimArg.num

def geom? : String → Option (Geom Float)
  | "enu" => some { cls := .enu, T := TV.Geo.floatTrig }
  | "geo" => some { cls := .geo, T := TV.Geo.floatTrig }
  | "ecef" => some { cls := .ecef, T := TV.Geo.floatTrig }
  | _ => none

def pnorm? (s : String) : Option PNorm :=
  if s == "inf" then some .inf else s.toNat?.map PNorm.nat

/-- `x**(1.0/k)` -/
def root (k : Nat) (x : Float) : Float :=
  if k = 1 then x else if k = 2 then Float.sqrt x else Float.pow x (1.0 / k.toFloat)

/-- the value of `p`: `inf`, a natural number, or `x<bits>` (any other finite number) -/
def pexp? (s : String) : Option (PExp Float) :=
  if s.startsWith "x" then (float? (s.drop 1).toString).map PExp.real else (pnorm? s).map PExp.norm

def optExp? (s : String) : Option (Option (PExp Float)) :=
  if s == "-" then some none else (pexp? s).map some

def step? (s : String) : Option (StepX Float) :=
  match s.splitOn ":" with
  | [f, m, ty, v, fn, d, a, b] => do
    let front ← (if f == "m" then some true else if f == "c" then some false else none)
    let mode ← m.toNat?
    let val ← optExp? v
    let fnw ← optExp? fn
    let dim ← dim? d
    let a ← a.toNat?
    let b ← b.toNat?
    some { front := front, mode := mode, p := { tyname := ty, val := val, fnw := fnw }, dim := dim, a := a, b := b }
  | _ => none

/-- the rows of a track that already has the four features, with values no matching would write -/
def junkRows (t : List (Pt Float)) : List (Row Float) :=
  (List.range t.length).map (fun j => { diff := some 5.0, pair := [9, j], ex := some 6.0, ey := some 7.0 })

def obj? (tr : String) (pre : Nat) : Option (Option (TrackObj Float)) := do
  let t ← track? tr
  if pre = 0 then some (some (TrackObj.fresh t))
  else if pre = 1 then some (some { pts := t, rows := junkRows t })
  else none

def zipObjs? : List String → List Nat → Option (List (Option (TrackObj Float)))
  | [], [] => some []
  | t :: ts, p :: ps => do
    let o ← obj? t p
    let r ← zipObjs? ts ps
    some (o :: r)
  | _, _ => none


def big : Float := 1e300

def showPairs (l : List (Nat × Nat)) : String := joinWith ";" (l.map (fun p => s!"{p.1},{p.2}"))
def showOptF (o : Option Float) : String := showOpt showFloat o

def showOut (o : Out Float) : String :=
  " ".intercalate [showFloat o.score, showPairs o.S, showListList toString (o.rows.map (·.pair)), toString o.nbLinks,
    showList showOptF (o.rows.map (·.diff)), showList showOptF (o.rows.map (·.ex)), showList showOptF (o.rows.map (·.ey))]

def showRes : Res Float → String
  | .matched o => showOut o
  | .value v => showFloat v
  | .err e => e

def handle (cmd : String) (args : List String) : String :=
  match cmd, args with
  | "match", [c, m, p, d, a, b] =>
    match geom? c, mode? m, pexp? p, dim? d, track? a, track? b with
    | some G, some m, some p, some d, some t1, some t2 =>
      match matchTracksX Float.pow G big m p d t1 t2 with
      | .ok o => showOut o
      | .error e => e
    | _, _, _, _, _, _ => "bad-request"
  | "match64", [k, d, a, b] =>
    match k.toNat?, dim? d, track? a, track? b with
    | some k, some d, some t1, some t2 =>
      match matchFdtw64 (fun x : Float => x.toInt64.toInt) Float.ofInt { cls := .enu, T := TV.Geo.floatTrig } big k d
          (TrackObj.fresh t1) t2 with
      | .ok o => showOut o
      | .error e => e
    | _, _, _, _ => "bad-request"
  | "hyp", [c, p, d, a, b] =>
    match geom? c, pexp? p, dim? d, track? a, track? b with
    | some G, some p, some d, some t1, some t2 =>
      match accOf Float.pow p, distanceOf G d with
      | .ok w, .ok dist => if fastHypCheck big w dist t1 t2 then "1" else "0"
      | .error e, _ => e
      | _, .error e => e
    | _, _, _, _, _ => "bad-request"
  | "compare", [c, m, p, d, a, b] =>
    match geom? c, mode? m, pexp? p, dim? d, track? a, track? b with
    | some G, some m, some p, some d, some t1, some t2 =>
      match compareTracksX Float.pow G root Nat.toFloat big m p d t1 t2 with
      | .ok v => showFloat v
      | .error e => e
    | _, _, _, _, _, _ => "bad-request"
  | "seq", [c, ts, pre, steps] =>
    match geom? c, natList? pre, (splitTok steps ';').mapM step? with
    | some G, some pre, some steps =>
      match zipObjs? (splitTok ts '|') pre with
      | some env => " | ".intercalate ((runSeqX Float.pow G root Nat.toFloat big env steps).map showRes)
      | none => "bad-request"
    | _, _, _ => "bad-request"
  | "table", [p, dc] =>
    match pnorm? p, floatListList? dc with
    | some p, some cols =>
      let tab := table (weight p) (0 : Float) cols
      showListList showFloat (tab.map (·.map (·.1))) ++ " " ++
        joinWith ";" (tab.map (fun c => joinWith "," (c.map (fun x => s!"{x.2.1}:{x.2.2}"))))
    | _, _ => "bad-request"
  | _, _ => "bad-request"
end TV.Drv.C18
