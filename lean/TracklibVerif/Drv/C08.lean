import TracklibVerif.Model.Grid
import TracklibVerif.Drv.Util
/-! Driver handler for C08 (grid spatial index). One command, one scenario per line:

  run <rat|flt> <feats> <res> <margin> <late> <queries>

  feats    features separated by `|`, vertices by `;`, coordinates by `,`          (`0,0;4,3|1,5/2;2,5/2`)
  res      `none` (default resolution) or `rx,ry`
  margin   scalar, or `tc:1` / `tc:0`: the index is created by `TrackCollection.createSpatialIndex(res, verbose=True/False)`,
           or `dflt`: the call (`SpatialIndex(...)` / `Network.createSpatialIndex(...)`) leaves the margin out
  late     `_` or `num@x,y;x,y|…`: `addFeature(track, num)` calls made after construction; or `+@x,y;x,y|…` (every
           item with `+`): `Network.addEdge` calls on the indexed network, which number the edges themselves
  queries  separated by `|`, fields by `;`:
     info | grid | getcell;x;y | inter;8 scalars | cross;ax;ay;bx;by (fractional cell indices)
     gcross;x1;y1;x2;y2 (ground coordinates: __cellsCrossSegment(__getCell(a), __getCell(b)), `none`, or `err:<kind>`)
     cell;i;j | pt;x;y | seg;x1;y1;x2;y2 | trk;x1;y1;x2;y2;…
     ncell;i;j;u | npt;x;y;u | nseg;x1;y1;x2;y2;u | ntrk;u;x1;y1;… | units;d
     nd;x;y;d   (neighborhood(coord, unit=groundDistanceToUnits(d)) → `u=<result>`)
Scalars are rationals `p/q` (mode rat) or IEEE bit patterns (mode flt).
Reply: `err:<kind>` if construction raised, else the query results separated by `|`:
  feature lists `1,2` / `_`, `none`, `err:<kind>`, cells `i:j;i:j`, grid `i:j=1,2;…` (non-empty cells). -/
namespace TV.Drv.C08
open TV.Grid TV.Drv

instance : IntCast Float := ⟨Float.ofInt⟩

def flFloat (x : Float) : Int :=
  let f := x.floor
  if f < 0 then -(((-f).toUInt64.toNat : Nat) : Int) else ((f.toUInt64.toNat : Nat) : Int)

def showErr : Err → String
  | .zerodiv => "err:zerodiv" | .index => "err:index" | .type => "err:type" | .exit => "err:exit"

def showRes {β} (f : β → String) : Res β → String
  | .error e => showErr e
  | .ok b => f b

def showNats (l : List Nat) : String := showList toString l
def showCells (l : List (Int × Int)) : String := joinWith ";" (l.map (fun c => s!"{c.1}:{c.2}"))

def showGrid (g : Cells) : String :=
  let rows := (List.range g.length).zip g
  let items := rows.flatMap (fun (i, row) =>
    ((List.range row.length).zip row).filterMap (fun (j, c) =>
      if c.isEmpty then none else some s!"{i}:{j}={showNats c}"))
  joinWith ";" items

section generic
variable {α : Type} [Add α] [Sub α] [Mul α] [Div α] [Neg α] [LT α] [LE α]
  [DecidableLT α] [DecidableLE α] [IntCast α] [OfNat α 0]

def pairs? : List α → Option (List (α × α))
  | [] => some []
  | x :: y :: rest => (pairs? rest).map (fun l => (x, y) :: l)
  | _ => none

def track? (num? : String → Option α) (s : String) : Option (List (α × α)) :=
  (splitTok s ';').mapM (fun v =>
    match (splitTok v ',').mapM num? with
    | some [x, y] => some (x, y)
    | _ => none)

def query (num? : String → Option α) (shw : α → String) (fl : α → Int) (ix : Index α) (q : String) : Option String :=
  match splitTok q ';' with
  | [] => none
  | kind :: fields =>
    match kind, fields with
    | "info", [] =>
      some (",".intercalate [shw ix.xmin, shw ix.xmax, shw ix.ymin, shw ix.ymax, toString ix.csize, toString ix.lsize, shw ix.dX, shw ix.dY])
    | "grid", [] => some (showGrid ix.grid)
    | "cell", [i, j] => do
      let i ← i.toInt?; let j ← j.toInt?
      pure (showRes showNats (requestCell ix i j))
    | "ncell", [i, j, u] => do
      let i ← i.toInt?; let j ← j.toInt?; let u ← u.toInt?
      pure (showRes showNats (neighborhoodCell ix i j u))
    | "ntrk", u :: rest => do
      let u ← u.toInt?
      let ns ← rest.mapM num?
      let t ← pairs? ns
      pure (showRes showNats (neighborhoodTrack fl ix t u))
    | "npt", [x, y, u] => do
      let x ← num? x; let y ← num? y; let u ← u.toInt?
      pure (showRes (showOpt showNats) (neighborhoodPoint fl ix (x, y) u))
    | "nseg", [x1, y1, x2, y2, u] => do
      let x1 ← num? x1; let y1 ← num? y1; let x2 ← num? x2; let y2 ← num? y2; let u ← u.toInt?
      pure (showRes (showOpt showNats) (neighborhoodSeg fl ix (x1, y1) (x2, y2) u))
    | _, _ => do
      let ns ← fields.mapM num?
      match kind, ns with
      | "getcell", [x, y] => pure (showRes (showOpt (fun (c : α × α) => s!"{shw c.1},{shw c.2}")) (getCellR ix (x, y)))
      | "inter", [a, b, c, d, e, f, g, h] => pure (showBool (isSegmentIntersects ⟨a, b, c, d⟩ ⟨e, f, g, h⟩))
      | "cross", [ax, ay, bx, b_y] => pure (showCells (cellsCross fl ix.csize ix.lsize (ax, ay) (bx, b_y)))
      | "gcross", [x1, y1, x2, y2] =>
        match getCellR ix (x1, y1) with
        | .error e => pure (showErr e)
        | .ok o1 =>
          match getCellR ix (x2, y2) with
          | .error e => pure (showErr e)
          | .ok o2 =>
            match o1, o2 with
            | some p1, some p2 => pure (showCells (cellsCross fl ix.csize ix.lsize p1 p2))
            | _, _ => pure "none"
      | "pt", [x, y] => pure (showRes showNats (requestPoint fl ix (x, y)))
      | "seg", [x1, y1, x2, y2] => pure (showRes showNats (requestSeg fl ix (x1, y1) (x2, y2)))
      | "trk", _ => do
        let t ← pairs? ns
        pure (showRes showNats (requestTrack fl ix t))
      | "units", [d] => pure (showRes toString (groundDistanceToUnits fl ix d))
      | "nd", [x, y, d] =>
        match groundDistanceToUnits fl ix d with
        | .error e => pure (showErr e)
        | .ok u => pure s!"{u}={showRes (showOpt showNats) (neighborhoodPoint fl ix (x, y) u)}"
      | _, _ => none

def lateAdds (fl : α → Int) : Index α → List (Nat × List (α × α)) → Res (Index α)
  | ix, [] => .ok ix
  | ix, (num, t) :: rest =>
    match addFeature fl ix t num with
    | .error e => .error e
    | .ok ix' => lateAdds fl ix' rest

def run (num? : String → Option α) (shw : α → String) (fl : α → Int) (args : List String) : String :=
  match args with
  | [feats, res, margin, late, queries] =>
    let parsed : Option (List (List (α × α)) × Option (α × α) × (Option α ⊕ Bool) × List (Option Nat × List (α × α))) := do
      let fs ← (splitTok feats '|').mapM (track? num?)
      let r ← if res == "none" then some none else
        match (splitTok res ',').mapM num? with
        | some [rx, ry] => some (some (rx, ry))
        | _ => none
      let m ← if margin == "tc:1" then some (Sum.inr true) else if margin == "tc:0" then some (Sum.inr false)
        else if margin == "dflt" then some (Sum.inl none)
        else (num? margin).map (fun v => Sum.inl (some v))
      let lt ← (splitTok late '|').mapM (fun s =>
        match s.splitOn "@" with
        | [n, t] => do
          let n ← if n == "+" then some none else n.toNat?.map some
          let t ← track? num? t
          pure (n, t)
        | _ => none)
      pure (fs, r, m, lt)
    match parsed with
    | none => "bad-request"
    | some (fs, r, m, lt) =>
      let built := match m with
        | .inl mv => createIndexArgs fl fs r mv
        | .inr verbose => createIndexTC fl fs r verbose
      -- later additions: all numbered by the caller (addFeature), or all numbered by the network (Network.addEdge)
      let numbered := lt.filterMap (fun (nt : Option Nat × List (α × α)) => nt.1.map (fun n => (n, nt.2)))
      let adds : Option (Index α → Res (Index α)) :=
        if numbered.length == lt.length then some (fun ix0 => lateAdds fl ix0 numbered)
        else if numbered.isEmpty then some (fun ix0 => networkAddEdges fl ix0 fs.length (lt.map (·.2)))
        else none
      match adds, built with
      | none, _ => "bad-request"
      | _, .error e => showErr e
      | some add, .ok ix0 =>
        match add ix0 with
        | .error e => "late:" ++ showErr e
        | .ok ix =>
          match (splitTok queries '|').mapM (query num? shw fl ix) with
          | none => "bad-request"
          | some rs => joinWith "|" rs
  | _ => "bad-request"
end generic

def handle (cmd : String) (args : List String) : String :=
  match cmd, args with
  | "run", "rat" :: rest => run rat? showRat Rat.floor rest
  | "run", "flt" :: rest => run float? showFloat flFloat rest
  | _, _ => "bad-request"
end TV.Drv.C08
