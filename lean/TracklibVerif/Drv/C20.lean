import TracklibVerif.Model.Proj
import TracklibVerif.Model.ProjTrack
import TracklibVerif.Drv.Util
/-! Driver handler for C20 (projection on a segment / polyline), `Float` instance of `Model/Proj`.
Floats are IEEE bit patterns. Commands:
  seg  x1 y1 x2 y2 x y          → `ok d xp yp`            | `err zerodiv`
  poly <X list> <Y list> x y    → `ok d xp yp i`          | `err zerodiv` | `err index` (empty) | `err overflow`
                                  (lists of Python floats and a Python float query: `v ** 2` raises on overflow)
  map  <X list> <Y list> x y    → `ok xp yp d i`          (mapOnTrack with a coordinate)
  mapt <X list> <Y list> <QX list> <QY list> → `ok xp,yp,d,i;…` (mapOnTrack with a track)
  segg np x1 y1 x2 y2 x y       → as `seg`; `np` = `1` when the segment is a numpy array (`-c / b` never raises)
  polyxy np npq <X list> <Y list> x y → as `poly`, the two sequences as given (any lengths) | `err index`; `npq` = `1` when
                                  `x - Xp[0]` is a numpy scalar (numpy container or numpy query: `v ** 2` never raises)
  map3 <X> <Y> <Z> x y z        → `ok xp yp zp d i`       (mapOnTrack with a 3D coordinate on a 3D track)
  mapt3 <X> <Y> <Z> <QX> <QY> <QZ> → `ok xp,yp,zp,d,i;…`  (mapOnTrack with a 3D track of queries)
  mapf <names> <cols> <QX> <QY> <QZ> <QT> <refs> → `ok call …` | `err kind call …`: chained `mapOnTrack(track, track)` on track
       OBJECTS (`Model/ProjTrack.lean` `mapChain`): the track of queries with its feature table (`names`: `,`-list of
       feature names, `cols`: its columns, `;` between columns) and time stamps `QT`, snapped on `refs[0]`, the output track
       on `refs[1]`, … (`refs`: `|` between tracks, each `X;Y;Z`). One `call` per completed call:
       `names/ts/rows` = the output track's feature names, time stamps, and rows `x,y,z,dist,edge` (`;` between rows),
       `dist` / `edge` read from the output's feature table; `err kind` = the exception that stopped the chain.
The `proj_polyligne` requests (`poly`, `polyxy`) are answered with the SENTINEL-FAITHFUL forms of the model
(`projPolyligneS`, `projPolyligneXYS`, sentinel `inf = 1.0 / 0.0`, the double Python reads `1e400` as): the test is
`dist < inf` as in the code, so an input whose distances are all `inf`/NaN keeps nothing and is answered from the first
vertex by `finishS` (`if distmin == 1e400: distmin = math.sqrt((x - xproj) ** 2 + (y - yproj) ** 2)`), with `sqPy`: Python's
float `**` raises `OverflowError` where the square leaves the double range, numpy's returns `inf`
(`Tie/C20.lean` `tie_proj_polyligne_exact` ties the same model with the translator's total `pow`). The `mapOnTrack` requests (`map`, `mapt`, `map3`, `mapt3`,
`mapf`) still go through the `none`-state forms (`projOnTrack`, …), equal to the former whenever a distance met is finite
(the harness sends no `mapOnTrack` request with a non-finite / overflowing coordinate). -/
namespace TV.Drv.C20
open TV.Proj TV.Drv

/-- the literal `1e-16` of `proj_polyligne` (bit pattern of Python's `1e-16`) -/
def eps : Float := Float.ofBits 4367597403136100796

/-- the sentinel `distmin = 1e400` of `proj_polyligne`: Python reads the literal as the double `+inf` -/
def inf : Float := 1.0 / 0.0

def showErr : Err → String
  | .zerodiv => "err zerodiv"
  | .index => "err index"
  | .overflow => "err overflow"

/-- `v ** 2` as Python evaluates it: `float.__pow__` raises `OverflowError` when the result of a finite base is infinite;
with a numpy scalar (`np`) the result is `inf` (and a RuntimeWarning). The value is `v * v` (libm's `pow(v, 2.0)` up to its
rounding; numpy squares by multiplication). -/
def sqPy (np : Bool) (v : Float) : Except Err Float :=
  let r := v * v
  if !np && r.isInf && v.isFinite then .error .overflow else .ok r

def zipPts? (xs ys : List Float) : Option (List (Float × Float)) :=
  if xs.length == ys.length then some (xs.zip ys) else none

def showRow (r : (Float × Float) × Float × Nat) : String :=
  s!"{showFloat r.1.1},{showFloat r.1.2},{showFloat r.2.1},{r.2.2}"

def showErrX : ErrX → String
  | .base e => showErr e
  | .index => "err index"

def bool? (s : String) : Option Bool :=
  if s == "1" then some true else if s == "0" then some false else none

def zip3? (xs ys zs : List Float) : Option (List (Float × Float × Float)) :=
  if xs.length == ys.length && ys.length == zs.length then some (xs.zip (ys.zip zs)) else none

def showRow3 (sep : String) (r : (Float × Float × Float) × Float × Nat) : String :=
  sep.intercalate [showFloat r.1.1, showFloat r.1.2.1, showFloat r.1.2.2, showFloat r.2.1, toString r.2.2]

open TV.ProjTrack in
def showErrT : ErrT → String
  | .proj e => showErrX e
  | .feat .empty => "err af"
  | .feat .index => "err index"
  | .feat _ => "err feat"

/-- columns (one list per feature) → the `features` lists of the `n` observations -/
def rowsOfCols (n : Nat) (cols : List (List Float)) : Option (List (List Float)) :=
  (List.range n).mapM (fun j => cols.mapM (fun c => c[j]?))

/-- one track `X;Y;Z` of the `refs` token, without analytical feature -/
def refTrack? (s : String) : Option (TV.Features.St Float) :=
  match (splitTok s ';').mapM floatList? with
  | some [xs, ys, zs] =>
    if xs.length == ys.length && ys.length == zs.length then
      some { dico := [], rows := xs.map (fun _ => []), xs := xs, ys := ys, zs := zs, ts := xs.map (fun _ => 0.0) }
    else none
  | _ => none

open TV.ProjTrack in
/-- an output track as `names/ts/rows`, `dist` and `edge` read from its feature table -/
def showCall (t : TV.Features.St Float) : Option String :=
  match column t "dist", column t "edge" with
  | some ds, some es =>
    if ds.length == t.xs.length && es.length == t.xs.length && t.ys.length == t.xs.length && t.zs.length == t.xs.length then
      let rows := (t.xs.zip (t.ys.zip (t.zs.zip (ds.zip es)))).map
        (fun r => ",".intercalate [showFloat r.1, showFloat r.2.1, showFloat r.2.2.1, showFloat r.2.2.2.1, showFloat r.2.2.2.2])
      some ("/".intercalate [joinWith "," (t.dico.map (fun p => p.1)), showList showFloat t.ts, joinWith ";" rows])
    else none
  | _, _ => none

open TV.ProjTrack in
def handleMapf (names cols qx qy qz qt refs : String) : String :=
  match floatListList? cols, floatList? qx, floatList? qy, floatList? qz, floatList? qt, (splitTok refs '|').mapM refTrack? with
  | some cols, some qx, some qy, some qz, some qt, some refs =>
    let ns := splitTok names ','
    if ns.length != cols.length || qy.length != qx.length || qz.length != qx.length || qt.length != qx.length
        || cols.any (fun c => c.length != qx.length) then "bad-request" else
    match rowsOfCols qx.length cols with
    | none => "bad-request"
    | some rows =>
      let q : TV.Features.St Float :=
        { dico := ns.zip (List.range ns.length), rows := rows, xs := qx, ys := qy, zs := qz, ts := qt }
      let res := mapChain Float.sqrt eps (fun n => Float.ofNat n) refs q
      match res.1.mapM showCall with
      | none => "bad-model"
      | some calls =>
        let head := match res.2 with
          | none => "ok"
          | some e => showErrT e
        " ".intercalate (head :: calls)
  | _, _, _, _, _, _ => "bad-request"

def handle (cmd : String) (args : List String) : String :=
  match cmd, args with
  | "mapf", [names, cols, qx, qy, qz, qt, refs] => handleMapf names cols qx qy qz qt refs
  | "seg", [a, b, c, d, e, f] =>
    match [a, b, c, d, e, f].mapM float? with
    | some [x1, y1, x2, y2, x, y] =>
      match projSegment Float.sqrt x1 y1 x2 y2 x y with
      | .error e => showErr e
      | .ok r => s!"ok {showFloat r.1} {showFloat r.2.1} {showFloat r.2.2}"
    | _ => "bad-request"
  | "poly", [xs, ys, qx, qy] =>
    match floatList? xs, floatList? ys, float? qx, float? qy with
    | some xs, some ys, some x, some y =>
      match zipPts? xs ys with
      | none => "bad-request"
      | some pts =>
        match projPolyligneS inf Float.sqrt (sqPy false) eps pts x y with
        | .error e => showErr e
        | .ok r => s!"ok {showFloat r.1} {showFloat r.2.1} {showFloat r.2.2.1} {r.2.2.2}"
    | _, _, _, _ => "bad-request"
  | "map", [xs, ys, qx, qy] =>
    match floatList? xs, floatList? ys, float? qx, float? qy with
    | some xs, some ys, some x, some y =>
      match zipPts? xs ys with
      | none => "bad-request"
      | some pts =>
        match projOnTrack Float.sqrt eps pts x y with
        | .error e => showErr e
        | .ok r => s!"ok {showFloat r.1.1} {showFloat r.1.2} {showFloat r.2.1} {r.2.2}"
    | _, _, _, _ => "bad-request"
  | "mapt", [xs, ys, qxs, qys] =>
    match floatList? xs, floatList? ys, floatList? qxs, floatList? qys with
    | some xs, some ys, some qxs, some qys =>
      match zipPts? xs ys, zipPts? qxs qys with
      | some pts, some qs =>
        match mapOnTrackAll Float.sqrt eps pts qs with
        | .error e => showErr e
        | .ok rs => "ok " ++ joinWith ";" (rs.map showRow)
      | _, _ => "bad-request"
    | _, _, _, _ => "bad-request"
  | "segg", [np, a, b, c, d, e, f] =>
    match bool? np, [a, b, c, d, e, f].mapM float? with
    | some np, some [x1, y1, x2, y2, x, y] =>
      match projSegmentG np Float.sqrt x1 y1 x2 y2 x y with
      | .error e => showErr e
      | .ok r => s!"ok {showFloat r.1} {showFloat r.2.1} {showFloat r.2.2}"
    | _, _ => "bad-request"
  | "polyxy", [np, npq, xs, ys, qx, qy] =>
    match bool? np, bool? npq, floatList? xs, floatList? ys, float? qx, float? qy with
    | some np, some npq, some xs, some ys, some x, some y =>
      match projPolyligneXYS np inf Float.sqrt (sqPy npq) eps xs ys x y with
      | .error e => showErrX e
      | .ok r => s!"ok {showFloat r.1} {showFloat r.2.1} {showFloat r.2.2.1} {r.2.2.2}"
    | _, _, _, _, _, _ => "bad-request"
  | "map3", [xs, ys, zs, qx, qy, qz] =>
    match floatList? xs, floatList? ys, floatList? zs, [qx, qy, qz].mapM float? with
    | some xs, some ys, some zs, some [x, y, z] =>
      match zip3? xs ys zs with
      | none => "bad-request"
      | some pts =>
        match mapOnTrack3 Float.sqrt eps pts (.inl (x, y, z)) with
        | .error e => showErrX e
        | .ok (.inl r) => "ok " ++ showRow3 " " r
        | .ok (.inr _) => "bad-request"
    | _, _, _, _ => "bad-request"
  | "mapt3", [xs, ys, zs, qxs, qys, qzs] =>
    match [xs, ys, zs, qxs, qys, qzs].mapM floatList? with
    | some [xs, ys, zs, qxs, qys, qzs] =>
      match zip3? xs ys zs, zip3? qxs qys qzs with
      | some pts, some qs =>
        match mapOnTrack3 Float.sqrt eps pts (.inr qs) with
        | .error e => showErrX e
        | .ok (.inr rs) => "ok " ++ joinWith ";" (rs.map (showRow3 ","))
        | .ok (.inl _) => "bad-request"
      | _, _ => "bad-request"
    | _ => "bad-request"
  | _, _ => "bad-request"
end TV.Drv.C20
