import TracklibVerif.Model.ObsTime
import TracklibVerif.Model.ObsTimeG
import TracklibVerif.Drv.Util
/-! Driver handler for C03 (ObsTime). Commands:
  read <ms>                          → y m d H M S ms
  abs <y> <m> <d> <H> <M> <S> <ms>   → milliseconds since epoch
  cmp <7 fields a> <7 fields b>      → lt gt eq le ge ne  (0/1 each)
  add <7 fields> <nbsec>             → y m d H M S ms
  civil <y> <m> <d>                  → day number (spec)
 float path (`readUnixG`, `toAbsG`, … instantiated at IEEE doubles; floats cross as bit patterns, fields are integers):
  readf <x>                          → y m d H M S ms <bits of its toAbsTime()> | err:nonterm   (readUnixTime(x))
  absf <7 fields>                    → bits of toAbsTime()
  rtf <7 fields>                     → bits of toAbsTime(), then the reply of readf on it
  addf <7 fields> <sec|min|hour|day> <nb>  → addSec/addMin/addHour/addDay(nb), nb a double; reply as readf
  cmpf <x> <y>                       → lt gt eq le ge ne of readUnixTime(x), readUnixTime(y), then bits of their `-`
  subf <7 fields a> <7 fields b>     → bits of a - b
  default                            → fields of ObsTime() -/
namespace TV.Drv.C03
open TV.ObsTime TV.Drv

def showStamp (t : Stamp) : String :=
  s!"{t.d.year} {t.d.month} {t.d.day} {t.d.hour} {t.d.min} {t.d.sec} {t.ms}"

def stamp? : List Nat → Option (Stamp × List Nat)
  | y :: m :: d :: h :: mi :: s :: ms :: rest => some (⟨⟨y, m, d, h, mi, s⟩, ms⟩, rest)
  | _ => none

local instance : IntCast Float := ⟨Float.ofInt⟩

/-- Python's `int(x)` on a double in the range used (|x| < 2^63): truncation toward zero -/
def floatTrunc (f : Float) : Int := f.toInt64.toInt

def showStampZ (t : StampZ) : String :=
  s!"{t.year} {t.month} {t.day} {t.hour} {t.min} {t.sec} {t.ms}"

/-- the fields of a result and the bit pattern of its `toAbsTime()` -/
def showOptZ : Option StampZ → String
  | none => "err:nonterm"
  | some t => showStampZ t ++ " " ++ showFloat (toAbsG t : Float)

/-- `toAbsTime` indexes `__day_per_month[m - 1]` for `m < month`: an IndexError from month 14 on -/
def absErr (ts : List StampZ) (k : String) : String :=
  if ts.any (fun t => (toAbsGE (α := Float) t).isNone) then "err:index" else k

def stampZ? (l : List String) : Option (StampZ × List String) :=
  match l with
  | y :: m :: d :: h :: mi :: s :: ms :: rest =>
    match y.toNat?, m.toNat?, [d, h, mi, s, ms].mapM String.toInt? with
    | some y, some m, some [d, h, mi, s, ms] => some (⟨y, m, d, h, mi, s, ms⟩, rest)
    | _, _, _ => none
  | _ => none

/-- `readUnixTime` on a double. On NaN and on the infinities the Python year loop never ends
(`elapsed_seconds - sec < sec_on_year` stays false): the driver does not start it. -/
def readF (x : Float) : Option StampZ :=
  if x.isNaN || x.isInf then none else readUnixG floatTrunc x

def cmpZ (a b : StampZ) : String :=
  " ".intercalate ([ltZ a b, gtZ a b, eqZ a b, leZ a b, geZ a b, neZ a b].map showBool)

def handleF (cmd : String) (args : List String) : Option String :=
  match cmd, args with
  | "readf", [x] => (float? x).map fun x => showOptZ (readF x)
  | "absf", _ =>
    match stampZ? args with
    | some (t, []) => some (absErr [t] (showFloat (toAbsG t : Float)))
    | _ => none
  | "rtf", _ =>
    match stampZ? args with
    | some (t, []) => let a : Float := toAbsG t; some (absErr [t] (showFloat a ++ " " ++ showOptZ (readF a)))
    | _ => none
  | "addf", _ =>
    match stampZ? args with
    | some (t, [unit, nb]) =>
      match float? nb with
      | none => none
      | some nb =>
        let a : Float := toAbsG t
        match unit with
        | "sec" => some (absErr [t] (showOptZ (readF (a + nb))))
        | "min" => some (absErr [t] (showOptZ (readF (a + nb * ((60 : Int) : Float)))))
        | "hour" => some (absErr [t] (showOptZ (readF (a + nb * ((3600 : Int) : Float)))))
        | "day" => some (absErr [t] (showOptZ (readF (a + nb * ((86400 : Int) : Float)))))
        | _ => none
    | _ => none
  | "cmpf", [x, y] =>
    match float? x, float? y with
    | some x, some y =>
      match readF x, readF y with
      | some a, some b => some (cmpZ a b ++ " " ++ showFloat (subG a b : Float))
      | _, _ => some "err:nonterm"
    | _, _ => none
  | "subf", _ =>
    match stampZ? args with
    | some (a, rest) =>
      match stampZ? rest with
      | some (b, []) => some (absErr [a, b] (showFloat (subG a b : Float)))
      | _ => none
    | none => none
  | "default", [] => some (showStampZ defaultZ)
  | _, _ => none

def isF (cmd : String) : Bool := ["readf", "absf", "rtf", "addf", "cmpf", "subf", "default"].contains cmd

def handle (cmd : String) (args : List String) : String :=
  if isF cmd then (handleF cmd args).getD "bad-request" else
  match args.mapM String.toNat? with
  | none => "bad-request"
  | some ns =>
    match cmd, ns with
    | "read", [t] => showStamp (readUnixMs t)
    | "abs", _ =>
      match stamp? ns with
      | some (t, []) => toString (toAbsMs t)
      | _ => "bad-request"
    | "cmp", _ =>
      match stamp? ns with
      | some (a, rest) =>
        match stamp? rest with
        | some (b, []) =>
          " ".intercalate ([ltS a b, gtS a b, eqS a b, leS a b, geS a b, neS a b].map showBool)
        | _ => "bad-request"
      | none => "bad-request"
    | "add", _ =>
      match stamp? ns with
      | some (t, [nb]) => showStamp (addSec t nb)
      | _ => "bad-request"
    | "civil", [y, m, d] => toString (civilDays y m d)
    | _, _ => "bad-request"
end TV.Drv.C03
