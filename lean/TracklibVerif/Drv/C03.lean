import TracklibVerif.Model.ObsTime
import TracklibVerif.Drv.Util
/-! Driver handler for C03 (ObsTime). Commands:
  read <ms>                          → y m d H M S ms
  abs <y> <m> <d> <H> <M> <S> <ms>   → milliseconds since epoch
  cmp <7 fields a> <7 fields b>      → lt gt eq le ge ne  (0/1 each)
  add <7 fields> <nbsec>             → y m d H M S ms
  civil <y> <m> <d>                  → day number (spec) -/
namespace TV.Drv.C03
open TV.ObsTime TV.Drv

def showStamp (t : Stamp) : String :=
  s!"{t.d.year} {t.d.month} {t.d.day} {t.d.hour} {t.d.min} {t.d.sec} {t.ms}"

def stamp? : List Nat → Option (Stamp × List Nat)
  | y :: m :: d :: h :: mi :: s :: ms :: rest => some (⟨⟨y, m, d, h, mi, s⟩, ms⟩, rest)
  | _ => none

def handle (cmd : String) (args : List String) : String :=
  match args.mapM String.toNat? with
  | none => "bad-request"
  | some ns =>
    match cmd, ns with
    | "read", [t] => showStamp (readUnixMs t)
    | "abs", _ =>
      match stamp? ns with
      | some (t, []) => toString (toAbsMs t)
      | _ => "bad-request"
    | "cmp", _ =>
      match stamp? ns with
      | some (a, rest) =>
        match stamp? rest with
        | some (b, []) =>
          " ".intercalate ([ltS a b, gtS a b, eqS a b, leS a b, geS a b, neS a b].map showBool)
        | _ => "bad-request"
      | none => "bad-request"
    | "add", _ =>
      match stamp? ns with
      | some (t, [nb]) => showStamp (addSec t nb)
      | _ => "bad-request"
    | "civil", [y, m, d] => toString (civilDays y m d)
    | _, _ => "bad-request"
end TV.Drv.C03
