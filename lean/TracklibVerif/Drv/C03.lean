import TracklibVerif.Model.ObsTime
import TracklibVerif.Model.ObsTimeG
import TracklibVerif.Model.ObsTimeZone
import TracklibVerif.Model.ObsTimeOperand
import TracklibVerif.Drv.Util
/-! Driver handler for C03 (ObsTime). Commands:
  read <ms>                          → y m d H M S ms
  abs <y> <m> <d> <H> <M> <S> <ms>   → milliseconds since epoch
  cmp <7 fields a> <7 fields b>      → lt gt eq le ge ne  (0/1 each)
  add <7 fields> <nbsec>             → y m d H M S ms
  civil <y> <m> <d>                  → day number (spec)
  cmpo <7 fields a> <class a> inst <class b> <7 fields b> | cmpo <7 fields a> <class a> other
                                     → a<x a>x a==x a<=x a>=x a!=x x==a x!=a   (0/1, `attr` = AttributeError; `Model/ObsTimeOperand.lean`)
 float path (`readUnixG`, `toAbsG`, … instantiated at IEEE doubles; floats cross as bit patterns, fields are integers):
  readf <x>                          → y m d H M S ms <bits of its toAbsTime()> | err:nonterm   (readUnixTime(x))
  absf <7 fields>                    → bits of toAbsTime()
  rtf <7 fields>                     → bits of toAbsTime(), then the reply of readf on it
  addf <7 fields> <sec|min|hour|day> <nb>  → addSec/addMin/addHour/addDay(nb), nb a double; reply as readf
  cmpf <x> <y>                       → lt gt eq le ge ne of readUnixTime(x), readUnixTime(y), then bits of their `-`
  subf <7 fields a> <7 fields b>     → bits of a - b
  default                            → fields of ObsTime()
 objects and zones (`Model/ObsTimeZone.lean`, at IEEE doubles):
  prog <statement> <statement> …     → the outputs of the statements separated by `|`, then `#`, the final objects of the
                                       store separated by `;` (y m d H M S ms zone), then `#` and the slots of the track.
     statements: new <7 fields> <zone> | read <x> | add <i> <sec|min|hour|day> <nb> | conv <i> <zone> | copy <i> | rt <i>
                 | set <i> <field 0..7> <v> | abs <i> | cmp <i> <j> | sub <i> <j> | pz <i> | tz <i> | dow <i>
                 | trk <i,j,…> | tget | tset <zone> | tconv <zone> | tadd <nb>
     outputs:    o <obj> | r <bits> <obj> | l <obj>;<obj>… (an <obj> here ends with the bits of its toAbsTime()) | x <bits> | f <six 0/1> <bits a> <bits b> | s <text> | i <int> | u | err:<kind> -/
namespace TV.Drv.C03
open TV.ObsTime TV.Drv

def showStamp (t : Stamp) : String :=
  s!"{t.d.year} {t.d.month} {t.d.day} {t.d.hour} {t.d.min} {t.d.sec} {t.ms}"

def stamp? : List Nat → Option (Stamp × List Nat)
  | y :: m :: d :: h :: mi :: s :: ms :: rest => some (⟨⟨y, m, d, h, mi, s⟩, ms⟩, rest)
  | _ => none

local instance : IntCast Float := ⟨Float.ofInt⟩

/-- Python's `int(x)` on a double in the range used (|x| < 2^63): truncation toward zero -/
def floatTrunc (f : Float) : Int := f.toInt64.toInt

def showStampZ (t : StampZ) : String :=
  s!"{t.year} {t.month} {t.day} {t.hour} {t.min} {t.sec} {t.ms}"

/-- the fields of a result and the bit pattern of its `toAbsTime()` -/
def showOptZ : Option StampZ → String
  | none => "err:nonterm"
  | some t => showStampZ t ++ " " ++ showFloat (toAbsG t : Float)

/-- `toAbsTime` indexes `__day_per_month[m - 1]` for `m < month`: an IndexError from month 14 on -/
def absErr (ts : List StampZ) (k : String) : String :=
  if ts.any (fun t => (toAbsGE (α := Float) t).isNone) then "err:index" else k

def stampZ? (l : List String) : Option (StampZ × List String) :=
  match l with
  | y :: m :: d :: h :: mi :: s :: ms :: rest =>
    match y.toNat?, m.toNat?, [d, h, mi, s, ms].mapM String.toInt? with
    | some y, some m, some [d, h, mi, s, ms] => some (⟨y, m, d, h, mi, s, ms⟩, rest)
    | _, _, _ => none
  | _ => none

/-- `readUnixTime` on a double. On NaN and on the infinities the Python year loop never ends
(`elapsed_seconds - sec < sec_on_year` stays false): the driver does not start it. -/
def readF (x : Float) : Option StampZ :=
  if x.isNaN || x.isInf then none else readUnixG floatTrunc x

def cmpZ (a b : StampZ) : String :=
  " ".intercalate ([ltZ a b, gtZ a b, eqZ a b, leZ a b, geZ a b, neZ a b].map showBool)

def handleF (cmd : String) (args : List String) : Option String :=
  match cmd, args with
  | "readf", [x] => (float? x).map fun x => showOptZ (readF x)
  | "absf", _ =>
    match stampZ? args with
    | some (t, []) => some (absErr [t] (showFloat (toAbsG t : Float)))
    | _ => none
  | "rtf", _ =>
    match stampZ? args with
    | some (t, []) => let a : Float := toAbsG t; some (absErr [t] (showFloat a ++ " " ++ showOptZ (readF a)))
    | _ => none
  | "addf", _ =>
    match stampZ? args with
    | some (t, [unit, nb]) =>
      match float? nb with
      | none => none
      | some nb =>
        let a : Float := toAbsG t
        match unit with
        | "sec" => some (absErr [t] (showOptZ (readF (a + nb))))
        | "min" => some (absErr [t] (showOptZ (readF (a + nb * ((60 : Int) : Float)))))
        | "hour" => some (absErr [t] (showOptZ (readF (a + nb * ((3600 : Int) : Float)))))
        | "day" => some (absErr [t] (showOptZ (readF (a + nb * ((86400 : Int) : Float)))))
        | _ => none
    | _ => none
  | "cmpf", [x, y] =>
    match float? x, float? y with
    | some x, some y =>
      match readF x, readF y with
      | some a, some b => some (cmpZ a b ++ " " ++ showFloat (subG a b : Float))
      | _, _ => some "err:nonterm"
    | _, _ => none
  | "subf", _ =>
    match stampZ? args with
    | some (a, rest) =>
      match stampZ? rest with
      | some (b, []) => some (absErr [a, b] (showFloat (subG a b : Float)))
      | _ => none
    | none => none
  | "default", [] => some (showStampZ defaultZ)
  | _, _ => none

def showObsZ (o : ObsZ) : String := showStampZ o.t ++ " " ++ toString o.zone

/-- a new object: fields, zone, and the bits of its `toAbsTime()` (`err:index` from month 14 on) -/
def showObjA (o : ObsZ) : String := showObsZ o ++ " " ++ absErr [o.t] (showFloat (toAbsZ o : Float))

def showOut : Out Float → String
  | .obj o => "o " ++ showObjA o
  | .absobj a o => "r " ++ showFloat a ++ " " ++ showObjA o
  | .objs l => "l " ++ joinWith ";" (l.map showObjA)
  | .scalar x => "x " ++ showFloat x
  | .cmpo l a b => "f " ++ " ".intercalate (l.map showBool) ++ " " ++ showFloat a ++ " " ++ showFloat b
  | .str s => "s " ++ s
  | .int z => "i " ++ toString z
  | .unit => "u"
  | .err e => "err:" ++ e

def unit? : String → Option AddUnit
  | "sec" => some .sec | "min" => some .min | "hour" => some .hour | "day" => some .day | _ => none

/-- the statements of a program; `fuel` bounds the recursion (one statement consumes at least one token) -/
def parseOps : Nat → List String → Option (List (Op Float))
  | _, [] => some []
  | 0, _ => none
  | f+1, "new" :: rest =>
    match stampZ? rest with
    | some (t, z :: rest') => do
      let z ← z.toInt?
      let ops ← parseOps f rest'
      pure (.new t z :: ops)
    | _ => none
  | f+1, "read" :: x :: rest => do let x ← float? x; let ops ← parseOps f rest; pure (.read x :: ops)
  | f+1, "add" :: i :: u :: nb :: rest => do
    let i ← i.toNat?; let u ← unit? u; let nb ← float? nb; let ops ← parseOps f rest; pure (.add i u nb :: ops)
  | f+1, "conv" :: i :: z :: rest => do let i ← i.toNat?; let z ← z.toInt?; let ops ← parseOps f rest; pure (.conv i z :: ops)
  | f+1, "copy" :: i :: rest => do let i ← i.toNat?; let ops ← parseOps f rest; pure (.copy i :: ops)
  | f+1, "rt" :: i :: rest => do let i ← i.toNat?; let ops ← parseOps f rest; pure (.rt i :: ops)
  | f+1, "set" :: i :: fl :: v :: rest => do
    let i ← i.toNat?; let fl ← fl.toNat?; let v ← v.toInt?; let ops ← parseOps f rest
    if fl > 7 then none else pure (.set i fl v :: ops)
  | f+1, "abs" :: i :: rest => do let i ← i.toNat?; let ops ← parseOps f rest; pure (.abs i :: ops)
  | f+1, "cmp" :: i :: j :: rest => do let i ← i.toNat?; let j ← j.toNat?; let ops ← parseOps f rest; pure (.cmp i j :: ops)
  | f+1, "sub" :: i :: j :: rest => do let i ← i.toNat?; let j ← j.toNat?; let ops ← parseOps f rest; pure (.sub i j :: ops)
  | f+1, "pz" :: i :: rest => do let i ← i.toNat?; let ops ← parseOps f rest; pure (.pz i :: ops)
  | f+1, "tz" :: i :: rest => do let i ← i.toNat?; let ops ← parseOps f rest; pure (.tz i :: ops)
  | f+1, "dow" :: i :: rest => do let i ← i.toNat?; let ops ← parseOps f rest; pure (.dow i :: ops)
  | f+1, "trk" :: is :: rest => do let is ← natList? is; let ops ← parseOps f rest; pure (.trk is :: ops)
  | f+1, "tget" :: rest => do let ops ← parseOps f rest; pure (.tget :: ops)
  | f+1, "tset" :: z :: rest => do let z ← z.toInt?; let ops ← parseOps f rest; pure (.tset z :: ops)
  | f+1, "tconv" :: z :: rest => do let z ← z.toInt?; let ops ← parseOps f rest; pure (.tconv z :: ops)
  | f+1, "tadd" :: nb :: rest => do let nb ← float? nb; let ops ← parseOps f rest; pure (.tadd nb :: ops)
  | _, _ => none

/-- NaN and the infinities: the Python year loop does not end; the driver does not start it -/
def finiteOp : Op Float → Bool
  | .read x => !(x.isNaN || x.isInf)
  | .add _ _ nb => !(nb.isNaN || nb.isInf)
  | .tadd nb => !(nb.isNaN || nb.isInf)
  | _ => true

def handleProg (args : List String) : Option String :=
  match parseOps args.length args with
  | none => none
  | some ops =>
    if !ops.all finiteOp then some "err:nonterm" else
    let (σ, outs) := run floatTrunc State.empty ops
    some (joinWith "|" (outs.map showOut) ++ "#" ++ joinWith ";" (σ.store.map showObsZ) ++ "#" ++ showList toString σ.track)

def showOB : Option Bool → String
  | some b => showBool b
  | none => "attr"

/-- `cmpo <7 fields a> <class a> inst <class b> <7 fields b>` / `cmpo <7 fields a> <class a> other`:
`a<x a>x a==x a<=x a>=x a!=x x==a x!=a` (0/1, `attr` = AttributeError). For an `x` that is not a timestamp, `x == a` and
`x != a` are, by Python's reflection rule (`type(x).__eq__/__ne__` answer NotImplemented), `a.__eq__(x)` and `a.__ne__(x)`. -/
def handleO (args : List String) : Option String :=
  match args with
  | y :: m :: d :: h :: mi :: s :: ms :: ca :: rest =>
    match [y, m, d, h, mi, s, ms, ca].mapM String.toNat? with
    | some [y, m, d, h, mi, s, ms, ca] =>
      let a : Stamp := ⟨⟨y, m, d, h, mi, s⟩, ms⟩
      match rest with
      | ["other"] =>
        some (" ".intercalate ((cmpO ca a .other ++ [some (eqO ca a .other), some (neO ca a .other)]).map showOB))
      | "inst" :: more =>
        match more.mapM String.toNat? with
        | some (cb :: fs) =>
          match stamp? fs with
          | some (b, []) =>
            some (" ".intercalate ((cmpO ca a (.inst cb b) ++ [some (eqO cb b (.inst ca a)), some (neO cb b (.inst ca a))]).map showOB))
          | _ => none
        | _ => none
      | _ => none
    | _ => none
  | _ => none

def isF (cmd : String) : Bool := ["readf", "absf", "rtf", "addf", "cmpf", "subf", "default"].contains cmd

def handle (cmd : String) (args : List String) : String :=
  if cmd == "prog" then (handleProg args).getD "bad-request" else
  if cmd == "cmpo" then (handleO args).getD "bad-request" else
  if isF cmd then (handleF cmd args).getD "bad-request" else
  match args.mapM String.toNat? with
  | none => "bad-request"
  | some ns =>
    match cmd, ns with
    | "read", [t] => showStamp (readUnixMs t)
    | "abs", _ =>
      match stamp? ns with
      | some (t, []) => toString (toAbsMs t)
      | _ => "bad-request"
    | "cmp", _ =>
      match stamp? ns with
      | some (a, rest) =>
        match stamp? rest with
        | some (b, []) =>
          " ".intercalate ([ltS a b, gtS a b, eqS a b, leS a b, geS a b, neS a b].map showBool)
        | _ => "bad-request"
      | none => "bad-request"
    | "add", _ =>
      match stamp? ns with
      | some (t, [nb]) => showStamp (addSec t nb)
      | _ => "bad-request"
    | "civil", [y, m, d] => toString (civilDays y m d)
    | _, _ => "bad-request"
end TV.Drv.C03
