import TracklibVerif.Model.Cinematics
import TracklibVerif.Drv.Util
/-! Driver handler for C17. One command:

  run <mode f|q> <xs> <ys> <ts> <feats> <ops>
     mode f : scalars are IEEE bit patterns (model at `Float`, `Float.sqrt`)
     mode q : scalars are exact rationals (model at `Rat`); accepted only when every squared distance between
              two fixes is the square of a rational, so that `sqrt` is exact
     feats  : features present beforehand, `name:v,v,…;name:…` (`_` = none; `nan` allowed as a value)
     ops    : a word over {a, s}: `a` = computeAbsCurv(track), `s` = estimate_speed(track), applied in order
  reply: `<returned column of each op, joined by |> <feature table afterwards> <xs> <ys> <ts>` -/
namespace TV.Drv.C17
open TV.Cinematics TV.Drv

def ratSqrt (r : Rat) : Rat := (Nat.sqrt r.num.toNat : Rat) / (Nat.sqrt r.den : Rat)

def isSquare (r : Rat) : Bool :=
  r.num ≥ 0 && Nat.sqrt r.num.toNat * Nat.sqrt r.num.toNat == r.num.toNat && Nat.sqrt r.den * Nat.sqrt r.den == r.den

def allSquares (xy : List (Rat × Rat)) : Bool :=
  xy.all (fun p => xy.all (fun q => isSquare ((p.1 - q.1) * (p.1 - q.1) + (p.2 - q.2) * (p.2 - q.2))))

section generic
variable {α : Type} [Add α] [Sub α] [Mul α] [Div α] [OfNat α 0] [BEq α]

def optList? (rd : String → Option α) (s : String) : Option (List (Option α)) :=
  (splitTok s ',').mapM (fun w => if w == "nan" then some none else (rd w).map some)

def feats? (rd : String → Option α) (s : String) : Option (List (String × Col α)) :=
  (splitTok s ';').mapM (fun w =>
    match w.splitOn ":" with
    | [name, col] => (optList? rd col).map (fun c => (name, c))
    | _ => none)

def showCol (sh : α → String) (c : Col α) : String := showList (fun v => match v with | none => "nan" | some a => sh a) c

def runOps (sqrt : α → α) : List Char → Track α → List (Option (Col α)) → Option (Track α × List (Option (Col α)))
  | [], t, acc => some (t, acc.reverse)
  | 'a' :: r, t, acc => let (t', c) := computeAbsCurv sqrt t; runOps sqrt r t' (c :: acc)
  | 's' :: r, t, acc => let (t', c) := estimateSpeed sqrt t; runOps sqrt r t' (c :: acc)
  | _ :: _, _, _ => none

def run (sqrt : α → α) (rd : String → Option α) (sh : α → String) (ok : List (α × α) → Bool)
    (xs ys ts feats ops : String) : String :=
  match (splitTok xs ',').mapM rd, (splitTok ys ',').mapM rd, (splitTok ts ',').mapM rd, feats? rd feats with
  | some X, some Y, some T, some F =>
    if X.length != Y.length || X.length != T.length || X.isEmpty || F.any (fun p => p.2.length != X.length) then "bad-request"
    else if !(ok (X.zip Y)) then "bad-request"
    else
      match runOps sqrt ops.toList { xy := X.zip Y, ts := T, feats := F } [] with
      | none => "bad-request"
      | some (t, rets) =>
        let r := joinWith "|" (rets.map (fun c => match c with | none => "none" | some c => showCol sh c))
        let f := joinWith ";" (t.feats.map (fun p => p.1 ++ ":" ++ showCol sh p.2))
        s!"{r} {f} {showList sh (t.xy.map Prod.fst)} {showList sh (t.xy.map Prod.snd)} {showList sh t.ts}"
  | _, _, _, _ => "bad-request"
end generic

def handle (cmd : String) (args : List String) : String :=
  match cmd, args with
  | "run", [mode, xs, ys, ts, feats, ops] =>
    if mode == "f" then run Float.sqrt float? showFloat (fun _ => true) xs ys ts feats ops
    else if mode == "q" then run ratSqrt rat? showRat allSquares xs ys ts feats ops
    else "bad-request"
  | _, _ => "bad-request"
end TV.Drv.C17
