import TracklibVerif.Model.Cinematics
import TracklibVerif.Model.CinematicsTab
import TracklibVerif.Model.CinematicsCoords
import TracklibVerif.Model.CinematicsTabK
import TracklibVerif.Drv.Util
/-! Driver handler for C17. Three commands:

  coords <cls N|G|X> <xs> <ys> <zs> <ts> <feats> <ops>     one track of one coordinate class (`Model/CinematicsCoords.lean`), at `Float`
     cls    : N = ENUCoords (E,N,U), G = GeoCoords (lon°, lat°, hgt), X = ECEFCoords (X,Y,Z)
     ops    : a word over {a computeAbsCurv, s estimate_speed, c computeCurvAbsBetweenTwoPoints, d addAnalyticalFeature(ds,"ds"),
              o [track[i].distance2DTo(track[i+1]) for i in range(n-1)]}
     reply  : `<outcome of each op joined by |> <feature table afterwards>`; outcome = `c<v,…>` | `n<v>` | `none` | `err:refused|attr|index`

  world <mode f|q> <pool> <ops>      a history on observations shared between tracks (`Model/CinematicsTab.lean`)
     pool   : observations `x,y,z,Y,M,D,h,m,s,ms` joined by `;` — they form track 0
     ops    : joined by `;`, fields joined by `:` —
              a:k computeAbsCurv | s:k estimate_speed | f:k addAnalyticalFeature(speed) | d:k addAnalyticalFeature(ds,"ds")
              I:k operate(INTEGRATOR,"ds","abs_curv") | E:k operate("abs_curv=I{ds}") | D:k operate(DIFFERENTIATOR,"abs_curv","dd") | L:k length()
              c:k computeCurvAbsBetweenTwoPoints | g:k:name read | rm:k:name | w:k:name:v,v,… track[name]=list
              q:k:sorted|dur|t | add:i:j | ext:k:a:b | sl:k:a:b | cp:k | ex:k:i:x|y|z:v | et:k:i:field:v
     reply  : one block per op `res~names before~columns before~names after~columns after~heap` (names / columns of
              the track operated on; res = `-` | `n<v>` | `c<v,…>` | `b0|b1` | `i<ids>` | `err:<kind>`; heap = observations
              `x,y,z,Y,M,D,h,m,s,ms,len(features)` joined by `;`), then one block `T<ids>~names~columns` per track.
     mode q : exact rationals; `bad-request` unless every distance a computation takes is the root of a rational square

  worldc <cls N|G|X> <pool> <ops>    the same histories on a pool of observations whose position objects are of class `cls`
     (`Model/CinematicsTabK.lean`, `stepK` with `clsKernel`), at `Float`; pool coordinates are `getX(),getY(),getZ()` of the
     class (E,N,U / lon°,lat°,hgt / X,Y,Z); `L` (Track.length) is not modelled for these pools (`bad-request`); the refusal of
     `Obs.distance2DTo` is printed `err:refused`, the missing `ECEFCoords.distance2DTo` `err:attr`


  run <mode f|q> <xs> <ys> <ts> <feats> <ops>
     mode f : scalars are IEEE bit patterns (model at `Float`, `Float.sqrt`)
     mode q : scalars are exact rationals (model at `Rat`); accepted only when every squared distance between
              two fixes is the square of a rational, so that `sqrt` is exact
     feats  : features present beforehand, `name:v,v,…;name:…` (`_` = none; `nan` allowed as a value)
     ops    : a word over {a, s}: `a` = computeAbsCurv(track), `s` = estimate_speed(track), applied in order
  reply: `<returned column of each op, joined by |> <feature table afterwards> <xs> <ys> <ts>` -/
namespace TV.Drv.C17
open TV.Cinematics TV.Drv

def ratSqrt (r : Rat) : Rat := (Nat.sqrt r.num.toNat : Rat) / (Nat.sqrt r.den : Rat)

def isSquare (r : Rat) : Bool :=
  r.num ≥ 0 && Nat.sqrt r.num.toNat * Nat.sqrt r.num.toNat == r.num.toNat && Nat.sqrt r.den * Nat.sqrt r.den == r.den

def allSquares (xy : List (Rat × Rat)) : Bool :=
  xy.all (fun p => xy.all (fun q => isSquare ((p.1 - q.1) * (p.1 - q.1) + (p.2 - q.2) * (p.2 - q.2))))

section generic
variable {α : Type} [Add α] [Sub α] [Mul α] [Div α] [OfNat α 0] [BEq α]

def optList? (rd : String → Option α) (s : String) : Option (List (Option α)) :=
  (splitTok s ',').mapM (fun w => if w == "nan" then some none else (rd w).map some)

def feats? (rd : String → Option α) (s : String) : Option (List (String × Col α)) :=
  (splitTok s ';').mapM (fun w =>
    match w.splitOn ":" with
    | [name, col] => (optList? rd col).map (fun c => (name, c))
    | _ => none)

def showCol (sh : α → String) (c : Col α) : String := showList (fun v => match v with | none => "nan" | some a => sh a) c

def runOps (sqrt : α → α) : List Char → Track α → List (Option (Col α)) → Option (Track α × List (Option (Col α)))
  | [], t, acc => some (t, acc.reverse)
  | 'a' :: r, t, acc => let (t', c) := computeAbsCurv sqrt t; runOps sqrt r t' (c :: acc)
  | 's' :: r, t, acc => let (t', c) := estimateSpeed sqrt t; runOps sqrt r t' (c :: acc)
  | _ :: _, _, _ => none

def run (sqrt : α → α) (rd : String → Option α) (sh : α → String) (ok : List (α × α) → Bool)
    (xs ys ts feats ops : String) : String :=
  match (splitTok xs ',').mapM rd, (splitTok ys ',').mapM rd, (splitTok ts ',').mapM rd, feats? rd feats with
  | some X, some Y, some T, some F =>
    if X.length != Y.length || X.length != T.length || X.isEmpty || F.any (fun p => p.2.length != X.length) then "bad-request"
    else if !(ok (X.zip Y)) then "bad-request"
    else
      match runOps sqrt ops.toList { xy := X.zip Y, ts := T, feats := F } [] with
      | none => "bad-request"
      | some (t, rets) =>
        let r := joinWith "|" (rets.map (fun c => match c with | none => "none" | some c => showCol sh c))
        let f := joinWith ";" (t.feats.map (fun p => p.1 ++ ":" ++ showCol sh p.2))
        s!"{r} {f} {showList sh (t.xy.map Prod.fst)} {showList sh (t.xy.map Prod.snd)} {showList sh t.ts}"
  | _, _, _, _ => "bad-request"
end generic

/-! ### one track per coordinate class -/
section coords
open TV.CinCoords

def cls? (s : String) : Option Cls :=
  if s == "N" then some .enu else if s == "G" then some .geo else if s == "X" then some .ecef else none

def showGErr : GErr → String
  | .refused => "err:refused" | .attr => "err:attr" | .index => "err:index"

def FT := TV.Geo.floatTrig

def showOutcome : Except GErr (Option (Col Float)) → String
  | .error e => showGErr e
  | .ok none => "none"
  | .ok (some c) => "c" ++ showCol showFloat c

/-- `[track[i].distance2DTo(track[i+1]) for i in range(n-1)]` -/
def obsDists (t : CTrack Float) : List Nat → List Float → Except GErr (List Float)
  | [], acc => .ok acc.reverse
  | i :: is, acc =>
    match obsDistC FT t i (i + 1) with
    | none => .error .index
    | some (.error e) => .error e
    | some (.ok d) => obsDists t is (d :: acc)

def runCoords : List Char → CTrack Float → List String → Option (CTrack Float × List String)
  | [], t, acc => some (t, acc.reverse)
  | 'a' :: r, t, acc => let (o, t') := computeAbsCurvC FT t; runCoords r t' (showOutcome o :: acc)
  | 's' :: r, t, acc => let (o, t') := estimateSpeedC FT t; runCoords r t' (showOutcome o :: acc)
  | 'd' :: r, t, acc => let (o, t') := dsFeatureC FT t; runCoords r t' (showOutcome o :: acc)
  | 'c' :: r, t, acc =>
    runCoords r t ((match curvAbsC FT t with | .error e => showGErr e | .ok v => "n" ++ showFloat v) :: acc)
  | 'o' :: r, t, acc =>
    runCoords r t ((match obsDists t (List.range (t.tr.xy.length - 1)) [] with
      | .error e => showGErr e | .ok l => "c" ++ showList showFloat l) :: acc)
  | _ :: _, _, _ => none

def coords (cls xs ys zs ts feats ops : String) : String :=
  match cls? cls, floatList? xs, floatList? ys, floatList? zs, floatList? ts, feats? float? feats with
  | some c, some X, some Y, some Z, some T, some F =>
    if X.length != Y.length || X.length != Z.length || X.length != T.length || X.isEmpty
        || F.any (fun p => p.2.length != X.length) then "bad-request"
    else
      match runCoords ops.toList { cls := c, zs := Z, tr := { xy := X.zip Y, ts := T, feats := F } } [] with
      | none => "bad-request"
      | some (t, rets) =>
        let f := joinWith ";" (t.tr.feats.map (fun p => p.1 ++ ":" ++ showCol showFloat p.2))
        s!"{joinWith "|" rets} {f}"
  | _, _, _, _, _, _ => "bad-request"
end coords

/-! ### histories on shared observations -/
section world
open TV.CinTab TV.Features TV.ObsTime

variable {α : Type} [Add α] [Sub α] [Mul α] [Div α] [OfNat α 0] [BEq α] [LE α] [DecidableLE α] [IntCast α]

def showV (sh : α → String) : Option α → String
  | none => "nan"
  | some a => sh a

def readV (rd : String → Option α) (w : String) : Option (Option α) := if w == "nan" then some none else (rd w).map some

def obs? (rd : String → Option α) (s : String) : Option (WObs (Option α)) :=
  match s.splitOn "," with
  | [x, y, z, yr, mo, d, h, mi, sc, ms, zone] =>
    match readV rd x, readV rd y, readV rd z, yr.toNat?, mo.toNat?, [d, h, mi, sc, ms, zone].mapM String.toInt? with
    | some x, some y, some z, some yr, some mo, some [d, h, mi, sc, ms, zone] => some ⟨x, y, z, ⟨yr, mo, d, h, mi, sc, ms⟩, [], zone⟩
    | _, _, _, _, _, _ => none
  | _ => none

def wop? (rd : String → Option α) (s : String) : Option (WOp (Option α)) :=
  match s.splitOn ":" with
  | ["a", k] => k.toNat?.map .absCurv
  | ["s", k] => k.toNat?.map .speed
  | ["S", k] => k.toNat?.map .speedMethod
  | ["tz", k, zone] => match k.toNat?, zone.toInt? with | some k, some zone => some (.setZone k zone) | _, _ => none
  | ["f", k] => k.toNat?.map .speedAF
  | ["d", k] => k.toNat?.map .dsAF
  | ["I", k] => k.toNat?.map .integ
  | ["E", k] => k.toNat?.map .integExpr
  | ["D", k] => k.toNat?.map .diff
  | ["L", k] => k.toNat?.map .length
  | ["c", k] => k.toNat?.map .curvAbs
  | ["g", k, name] => k.toNat?.map (.read · name)
  | ["rm", k, name] => k.toNat?.map (.remove · name)
  | ["w", k, name, vals] =>
    match k.toNat?, (splitTok vals ',').mapM (readV rd) with
    | some k, some l => some (.write k name l)
    | _, _ => none
  | ["q", k, what] =>
    match k.toNat? with
    | some k => if what == "sorted" then some (.sorted k) else if what == "dur" then some (.duration k)
                else if what == "t" then some (.times k) else none
    | none => none
  | ["add", i, j] => match i.toNat?, j.toNat? with | some i, some j => some (.add i j) | _, _ => none
  | ["ext", k, a, b] => match k.toNat?, a.toNat?, b.toNat? with | some k, some a, some b => some (.extract k a b) | _, _, _ => none
  | ["sl", k, a, b] => match k.toNat?, a.toNat?, b.toNat? with | some k, some a, some b => some (.slice k a b) | _, _, _ => none
  | ["cp", k] => k.toNat?.map .copy
  | ["ex", k, i, c, v] => match k.toNat?, i.toNat?, readV rd v with | some k, some i, some v => some (.setPos k i c v) | _, _, _ => none
  | ["et", k, i, field, v] => match k.toNat?, i.toNat?, v.toInt? with | some k, some i, some v => some (.setTime k i field v) | _, _, _ => none
  | _ => none

/-- the `Err` values the class pools (`worldc`) use for `raise CoordTypeError` / `AttributeError` (`clsKernel`'s `eRef`, `eAttr`) -/
def eRefused : Err := .type
def eAttr : Err := .key

def showWErr : Err → String
  | .reserved | .empty | .unknown => "err:AnalyticalFeatureError"
  | .key => "err:key" | .index => "err:index" | .value => "err:value" | .type => "err:type" | .exit => "err:exit"
  | .unsupported => "unsupported"

/-- class pools: `eRefused` / `eAttr` are the refusal and the missing method -/
def showCErr (e : Err) : String :=
  if e == eRefused then "err:refused" else if e == eAttr then "err:attr" else showWErr e

def showWRet (she : Err → String) (sh : α → String) : Except Err (WRet (Option α)) → String
  | .error e => she e
  | .ok .none => "-"
  | .ok (.num v) => "n" ++ showV sh v
  | .ok (.col l) => "c" ++ showList (showV sh) l
  | .ok (.bool b) => "b" ++ showBool b
  | .ok (.ids l) => "i" ++ showList toString l

/-- names and columns of the track in focus, read through its own dict -/
def showTable (sh : α → String) (g : GOps (Option α)) (w : World (Option α)) : String :=
  let names := w.trk.dico.map Prod.fst
  joinWith "," names ++ "~" ++ joinWith ";" (names.map fun n =>
    match (getW g.toOps n w).1 with
    | .ok l => showList (showV sh) l
    | .error e => showWErr e)

def showHeap (sh : α → String) (w : World (Option α)) : String :=
  joinWith ";" (w.heap.map fun ob =>
    s!"{showV sh ob.x},{showV sh ob.y},{showV sh ob.z},{ob.t.year},{ob.t.month},{ob.t.day},{ob.t.hour},{ob.t.min},{ob.t.sec},{ob.t.ms},{ob.feats.length},{ob.zone}")

/-- does the operation take square roots of distances between fixes of its track -/
def geometric : WOp (Option α) → Bool
  | .absCurv _ | .speed _ | .speedMethod _ | .speedAF _ | .dsAF _ | .length _ | .curvAbs _ => true
  | _ => false

def runWorld (step : WOp (Option α) → M (World (Option α)) (WRet (Option α))) (she : Err → String)
    (g : GOps (Option α)) (sh : α → String) (ok : World (Option α) → Bool) :
    List (WOp (Option α)) → World (Option α) → List String → Option (World (Option α) × List String)
  | [], w, acc => some (w, acc.reverse)
  | op :: ops, w, acc =>
    let wk := { w with cur := op.track }
    if op.track ≥ w.trks.length then none
    else if geometric op && !(ok wk) then none
    else
      let pre := showTable sh g wk
      match step op w with
      | (.error .unsupported, _) => none
      | (r, w') =>
        let wk' := { w' with cur := op.track }
        runWorld step she g sh ok ops w' (s!"{showWRet she sh r}~{pre}~{showTable sh g wk'}~{showHeap sh w'}" :: acc)

def world (step : WOp (Option α) → M (World (Option α)) (WRet (Option α))) (she : Err → String)
    (g : GOps (Option α)) (rd : String → Option α) (sh : α → String) (ok : World (Option α) → Bool)
    (pool ops : String) : String :=
  match (splitTok pool ';').mapM (obs? rd), (splitTok ops ';').mapM (wop? rd) with
  | some H, some O =>
    if H.isEmpty then "bad-request"
    else
      match runWorld step she g sh ok O { heap := H, trks := [⟨List.range H.length, []⟩], cur := 0 } [] with
      | none => "bad-request"
      | some (w, blocks) =>
        let tracks := (List.range w.trks.length).map fun k =>
          let wk := { w with cur := k }
          "T" ++ showList toString wk.trk.ids ++ "~" ++ showTable sh g wk
        " ".intercalate (blocks ++ tracks)
  | _, _ => "bad-request"
end world

local instance : IntCast Float := ⟨Float.ofInt⟩

/-- mode q: every pair of fixes of the track in focus is at a rational distance, in the plane and in space -/
def squaresOK (w : TV.CinTab.World (Option Rat)) : Bool :=
  let P := w.trk.ids.filterMap (fun id => w.heap[id]?)
  P.all fun p => P.all fun q =>
    match p.x, p.y, p.z, q.x, q.y, q.z with
    | some px, some py, some pz, some qx, some qy, some qz =>
      let d2 := (px - qx) * (px - qx) + (py - qy) * (py - qy)
      isSquare d2 && isSquare (d2 + (pz - qz) * (pz - qz))
    | _, _, _, _, _, _ => false

def handle (cmd : String) (args : List String) : String :=
  match cmd, args with
  | "world", [mode, pool, ops] =>
    if mode == "f" then
      let g := TV.CinTab.optG Float.sqrt Float.ofNat Float.isNaN
      world (TV.CinTab.stepW g) showWErr g float? showFloat (fun _ => true) pool ops
    else if mode == "q" then
      let g := TV.CinTab.optG ratSqrt (fun n => (n : Rat)) (fun _ => false)
      world (TV.CinTab.stepW g) showWErr g rat? showRat squaresOK pool ops
    else "bad-request"
  | "worldc", [cls, pool, ops] =>
    match cls? cls with
    | none => "bad-request"
    | some c =>
      let g := TV.CinTab.optG Float.sqrt Float.ofNat Float.isNaN
      world (TV.CinTabK.stepK g (TV.CinTabK.clsKernel FT eRefused eAttr c)) showCErr g float? showFloat (fun _ => true) pool ops
  | "coords", [cls, xs, ys, zs, ts, feats, ops] => coords cls xs ys zs ts feats ops
  | "run", [mode, xs, ys, ts, feats, ops] =>
    if mode == "f" then run Float.sqrt float? showFloat (fun _ => true) xs ys ts feats ops
    else if mode == "q" then run ratSqrt rat? showRat allSquares xs ys ts feats ops
    else "bad-request"
  | _, _ => "bad-request"
end TV.Drv.C17
