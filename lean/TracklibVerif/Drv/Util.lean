/-! Line-protocol helpers shared by the per-property driver handlers (core Lean only).

Conventions: a request line is `<prop>.<cmd> tok tok …` (single spaces); a list is one token whose
items are separated by `,` (empty list = `_`), a list of lists uses `;` between the inner lists
(and `|` for a third level). Integers are decimal, rationals `p/q`, floats cross the boundary as the
decimal value of their IEEE-754 bit pattern (`Float.toBits`), NaN as `nan`. A handler never defaults:
a malformed request yields `bad-request`. -/
namespace TV.Drv

def splitTok (s : String) (sep : Char) : List String :=
  if s == "_" || s == "" then [] else s.split (· == sep) |>.toList.map (·.toString)

def intList? (s : String) : Option (List Int) := (splitTok s ',').mapM String.toInt?
def natList? (s : String) : Option (List Nat) := (splitTok s ',').mapM String.toNat?
def intListList? (s : String) : Option (List (List Int)) := (splitTok s ';').mapM intList?
def natListList? (s : String) : Option (List (List Nat)) := (splitTok s ';').mapM natList?

def rat? (s : String) : Option Rat :=
  match s.splitOn "/" with
  | [p] => p.toInt?.map (fun n => (n : Rat))
  | [p, q] => do
    let n ← p.toInt?
    let d ← q.toNat?
    if d == 0 then none else some ((n : Rat) / (d : Rat))
  | _ => none
def ratList? (s : String) : Option (List Rat) := (splitTok s ',').mapM rat?
def ratListList? (s : String) : Option (List (List Rat)) := (splitTok s ';').mapM ratList?

def float? (s : String) : Option Float :=
  if s == "nan" then some (0.0 / 0.0) else s.toNat?.map (fun n => Float.ofBits n.toUInt64)
def floatList? (s : String) : Option (List Float) := (splitTok s ',').mapM float?
def floatListList? (s : String) : Option (List (List Float)) := (splitTok s ';').mapM floatList?

def showRat (r : Rat) : String := if r.den == 1 then toString r.num else s!"{r.num}/{r.den}"
def showFloat (f : Float) : String := if f.isNaN then "nan" else toString f.toBits.toNat
def showBool (b : Bool) : String := if b then "1" else "0"

def joinWith (sep : String) (l : List String) : String := if l.isEmpty then "_" else sep.intercalate l
def showList {α} (f : α → String) (l : List α) : String := joinWith "," (l.map f)
def showListList {α} (f : α → String) (l : List (List α)) : String := joinWith ";" (l.map (showList f))
def showOpt {α} (f : α → String) : Option α → String
  | none => "none"
  | some a => f a

end TV.Drv
