import TracklibVerif.Model.Seq
import TracklibVerif.Model.SeqOps
import TracklibVerif.Model.SeqMore
import TracklibVerif.Drv.Util
/-! Driver handler for C04 (sequence operations of `Track`).

An observation is the token `tag:time[:feat…]`, a list of observations is `,`-separated (`_` = empty),
a feature table is a `,`-separated list of `name:column` (`_` = empty; a bare `name` in a request takes its
position as column). A track reply is `<pts> <table>`.
  index <times> <ts>                        → `ok <id>` | `err:index` | `fuel`
  indexj <j> <times> <ts>                   → same, first step 2^j
  ilog2 <lo> <hi>                           → `ilog2 N` for N = lo..hi-1 (`,`-separated)
  insert <pts> <names> <obs>                → track | err:index
  sort <pts> <names>                        → track | err:index
  remove <pts> <idxs>                       → `<pts> <counter | err:index>`
  extract <pts> <names> <a> <b>             → track | err:index
  span <pts> <names> <t1> <t2>              → track
  concat <pts1> <names1> <pts2> <names2>    → track
  step <pts> <names> <n>                    → track | err:value
  pattern <pts> <names> <pattern 0/1 string or _> → track | err:zerodiv
  gt <pts> <names> <n> ,  lt <pts> <names> <n>     → track
  reverse <pts> <names>                     → track | err:value
  makeodd <pts> , makeeven <pts>            → pts | err:index
  setobs <pts> <i> <obs>                    → pts | err:index
  first <pts> , last <pts>                  → tag | err:index
  split <pts> <names> <number>              → the segments `<pts>` separated by `;` (`-` = no segment), then ` <table>` | err:zerodiv
  removets <pts> <times>                    → `<pts> <counter>`
  sliceidx <len> <a|N> <b|N> <c>            → `<start> <stop> <length>` as CPython's slice.indices adjusts them | err:value
  radix <digits of obs 0>;<digits of obs 1>;…      → the positions in their new order | err:index
        (six digits per observation, least significant first: sec*1000+ms, min, hour, day-1, month-1, year)
  session <tracks> <ops>                           → one `out|k|pts|table|reads` per operation, `;`-separated
        tracks: `;`-separated `T<pts>`; ops: `;`-separated, fields separated by `/` (see `op?`);
        k = position in the pool of the track created / modified (`-` = none), followed by that track and, for
        every name of its table, what every observation reads under that name (`v<int>` | `K` | `I`). -/
namespace TV.Drv.C04
open TV.Seq TV.Drv

def obs? (s : String) : Option Obs :=
  match (splitTok s ':').mapM String.toInt? with
  | some (tag :: time :: feats) => if tag < 0 then none else some ⟨tag.toNat, time, feats⟩
  | _ => none

def pts? (s : String) : Option (List Obs) := (splitTok s ',').mapM obs?
def table? (s : String) : Option Table :=
  (splitTok s ',').zipIdx.mapM (fun (e, i) =>
    match e.splitOn ":" with
    | [nm] => some (nm, i)
    | [nm, c] => c.toNat?.map (fun c => (nm, c))
    | _ => none)
def track? (p n : String) : Option Track := do
  let ps ← pts? p
  let tb ← table? n
  some ⟨ps, tb⟩

def showObs (o : Obs) : String := ":".intercalate (toString o.tag :: toString o.time :: o.feats.map toString)
def showPts (l : List Obs) : String := showList showObs l
def showTable (tb : Table) : String := showList (fun p => p.1 ++ ":" ++ toString p.2) tb
def showTrack (t : Track) : String := showPts t.pts ++ " " ++ showTable t.table
def showRes : Res → String
  | .ok id => s!"ok {id}"
  | .indexErr => "err:index"
  | .outOfFuel => "fuel"
def pat? (s : String) : Option (List Bool) :=
  if s == "_" then some [] else s.toList.mapM (fun c => if c == '1' then some true else if c == '0' then some false else none)

def optInt? (s : String) : Option (Option Int) := if s == "N" then some none else s.toInt?.map some
def vals? (s : String) : Option (List (String × Int)) :=
  (splitTok s ',').mapM (fun e => match e.splitOn "=" with
    | [nm, v] => v.toInt?.map (fun v => (nm, v))
    | _ => none)

/-- an operation of a session: fields separated by `/` -/
def op? (s : String) : Option Op :=
  match s.splitOn "/" with
  | ["extract", k, a, b] => do some (.extract (← k.toNat?) (← a.toInt?) (← b.toInt?))
  | ["span", k, a, b] => do some (.span (← k.toNat?) (← a.toInt?) (← b.toInt?))
  | ["spantrack", k, m] => do some (.spanTrack (← k.toNat?) (← m.toNat?))
  | ["add", k, m] => do some (.add (← k.toNat?) (← m.toNat?))
  | ["step", k, n] => do some (.step (← k.toNat?) (← n.toInt?))
  | ["pattern", k, p] => do some (.pattern (← k.toNat?) (← pat? p))
  | ["gt", k, n] => do some (.gt (← k.toNat?) (← n.toInt?))
  | ["lt", k, n] => do some (.lt (← k.toNat?) (← n.toInt?))
  | ["slice", k, a, b, c] => do some (.slice (← k.toNat?) (← optInt? a) (← optInt? b) (← optInt? c))
  | ["sort", k] => do some (.sort (← k.toNat?))
  | ["insert", k, tag, t, vs] => do some (.insert (← k.toNat?) (← tag.toNat?) (← t.toInt?) (← vals? vs))
  | ["insertat", k, i, tag, t, vs] => do some (.insertAt (← k.toNat?) (← i.toInt?) (← tag.toNat?) (← t.toInt?) (← vals? vs))
  | ["addobs", k, tag, t, vs] => do some (.addObs (← k.toNat?) (← tag.toNat?) (← t.toInt?) (← vals? vs))
  | ["remove", k, ix] => do some (.remove (← k.toNat?) (← intList? ix))
  | ["removeobs", k, i] => do some (.removeObs (← k.toNat?) (← i.toInt?))
  | ["removefirst", k] => do some (.removeFirst (← k.toNat?))
  | ["removelast", k] => do some (.removeLast (← k.toNat?))
  | ["pop", k, i] => do some (.pop (← k.toNat?) (← i.toInt?))
  | ["get", k, i] => do some (.get (← k.toNat?) (← i.toInt?))
  | ["read", k, nm, i] => do some (.read (← k.toNat?) nm (← i.toInt?))
  | ["column", k, nm] => do some (.column (← k.toNat?) nm)
  | ["create", k, nm, vs] => do some (.create (← k.toNat?) nm (← intList? vs))
  | ["delete", k, nm] => do some (.delete (← k.toNat?) nm)
  | _ => none

def showRd : Rd → String
  | .val v => "v" ++ toString v
  | .noFeature => "K"
  | .indexErr => "I"
def showOut : Out → String
  | .done => "done"
  | .count n => s!"count={n}"
  | .obs t => s!"obs={t}"
  | .value r => "value=" ++ showRd r
  | .values rs => "values=" ++ showList showRd rs
  | .error k => "err:" ++ k
  | .noTrack => "notrack"
def showReads (t : Track) : String :=
  joinWith "+" (t.names.map (fun nm => nm ++ "=" ++ showList showRd ((List.range t.pts.length).map (fun (i : Nat) => readAF t nm (i : Int)))))

/-- the position of the track an operation creates (the new last one) or modifies -/
def touched (before after : List Track) : Op → Option Nat
  | .extract .. | .span .. | .spanTrack .. | .add .. | .step .. | .pattern .. | .gt .. | .lt .. | .slice .. =>
    if after.length > before.length then some (after.length - 1) else none
  | .sort k | .insert k .. | .insertAt k .. | .addObs k .. | .remove k .. | .removeObs k .. | .removeFirst k
  | .removeLast k | .pop k .. | .create k .. | .delete k .. => some k
  | .get .. | .read .. | .column .. => none

def showStep (before : List Track) (op : Op) (r : List Track × Out) : String :=
  showOut r.2 ++ "|" ++
    (match touched before r.1 op with
     | none => "-|_|_|_"
     | some k => match r.1[k]? with
       | none => "-|_|_|_"
       | some t => toString k ++ "|" ++ showPts t.pts ++ "|" ++ showTable t.table ++ "|" ++ showReads t)

def isError : Out → Bool
  | .error _ => true
  | _ => false

/-- the replies of a session: it stops after the first operation that raises (as the harness does with the real code);
`none` = an operation designates a track that is not in the pool -/
def showRun : List Track → List Op → Option (List String)
  | _, [] => some []
  | pool, op :: rest =>
    let r := applyOp pool op
    if r.2 == .noTrack then none
    else if isError r.2 then some [showStep pool op r]
    else (showRun r.1 rest).map (showStep pool op r :: ·)

def handle (cmd : String) (args : List String) : String :=
  match cmd, args with
  | "session", [ts, os] =>
    match (splitTok ts ';').mapM (fun t => if t.startsWith "T" then (pts? (t.drop 1).toString).map (fun p => (⟨p, []⟩ : Track)) else none),
          (splitTok os ';').mapM op? with
    | some pool, some ops =>
      match showRun pool ops with
      | some l => joinWith ";" l
      | none => "bad-request"
    | _, _ => "bad-request"
  | "radix", [ds] =>
    match intListList? ds with
    | some D =>
      if D.all (fun d => d.length == radixBuckets.length + 1) then
        match sortRadixIds (fun i => D.getD i []) D.length with
        | some ids => showList toString ids
        | none => "err:index"
      else "bad-request"
    | none => "bad-request"
  | "reverse", [p, n] =>
    match track? p n with
    | some tr =>
      match reverseTrack tr with
      | some r => showTrack r
      | none => "err:value"
    | none => "bad-request"
  | "makeodd", [p] =>
    match pts? p with
    | some l => (match makeOdd l with | some r => showPts r | none => "err:index")
    | none => "bad-request"
  | "makeeven", [p] =>
    match pts? p with
    | some l => (match makeEven l with | some r => showPts r | none => "err:index")
    | none => "bad-request"
  | "setobs", [p, i, o] =>
    match pts? p, i.toInt?, obs? o with
    | some l, some i, some o => (match pySet l i o with | some r => showPts r | none => "err:index")
    | _, _, _ => "bad-request"
  | "first", [p] =>
    match pts? p with
    | some l => (match getFirst l with | some o => toString o.tag | none => "err:index")
    | none => "bad-request"
  | "last", [p] =>
    match pts? p with
    | some l => (match getLast l with | some o => toString o.tag | none => "err:index")
    | none => "bad-request"
  | "split", [p, n, k] =>
    match track? p n, k.toInt? with
    | some tr, some k =>
      match splitEven tr k with
      | some segs => (if segs.isEmpty then "-" else joinWith ";" (segs.map (fun t => showPts t.pts))) ++ " " ++ showTable tr.table
      | none => "err:zerodiv"
    | _, _ => "bad-request"
  | "removets", [p, ts] =>
    match pts? p, intList? ts with
    | some l, some tab =>
      let r := removeByTimes l tab
      showPts r.1 ++ " " ++ toString r.2
    | _, _ => "bad-request"
  | "sliceidx", [len, a, b, c] =>
    match len.toNat?, optInt? a, optInt? b, c.toInt? with
    | some len, some a, some b, some c =>
      if c = 0 then "err:value"
      else
        let (s, e) := sliceBounds len a b c
        s!"{s} {e} {sliceLen s e c}"
    | _, _, _, _ => "bad-request"
  | "index", [ts, t] =>
    match intList? ts, t.toInt? with
    | some T, some t => showRes (insertionIndex T t)
    | _, _ => "bad-request"
  | "indexj", [j, ts, t] =>
    match j.toNat?, intList? ts, t.toInt? with
    | some j, some T, some t => showRes (insertionIndexFrom j T t)
    | _, _, _ => "bad-request"
  | "ilog2", [lo, hi] =>
    match lo.toNat?, hi.toNat? with
    | some lo, some hi => showList toString ((List.range (hi - lo)).map (fun i => ilog2 (lo + i)))
    | _, _ => "bad-request"
  | "insert", [p, n, o] =>
    match track? p n, obs? o with
    | some tr, some o =>
      match insertChrono tr o with
      | some r => showTrack r
      | none => "err:index"
    | _, _ => "bad-request"
  | "sort", [p, n] =>
    match track? p n with
    | some tr =>
      match sortByTime tr with
      | some r => showTrack r
      | none => "err:index"
    | none => "bad-request"
  | "remove", [p, ix] =>
    match pts? p, intList? ix with
    | some l, some tab =>
      let (l', r) := removeByIdx l tab
      showPts l' ++ " " ++ (match r with | some c => toString c | none => "err:index")
    | _, _ => "bad-request"
  | "extract", [p, n, a, b] =>
    match track? p n, a.toInt?, b.toInt? with
    | some tr, some a, some b =>
      match extract tr a b with
      | some r => showTrack r
      | none => "err:index"
    | _, _, _ => "bad-request"
  | "span", [p, n, a, b] =>
    match track? p n, a.toInt?, b.toInt? with
    | some tr, some a, some b => showTrack (extractSpanTime tr a b)
    | _, _, _ => "bad-request"
  | "concat", [p1, n1, p2, n2] =>
    match track? p1 n1, track? p2 n2 with
    | some t1, some t2 => showTrack (concat t1 t2)
    | _, _ => "bad-request"
  | "step", [p, n, k] =>
    match track? p n, k.toInt? with
    | some tr, some k =>
      match decimateStep tr k with
      | some r => showTrack r
      | none => "err:value"
    | _, _ => "bad-request"
  | "pattern", [p, n, pt] =>
    match track? p n, pat? pt with
    | some tr, some pat =>
      match decimatePattern tr pat with
      | some r => showTrack r
      | none => "err:zerodiv"
    | _, _ => "bad-request"
  | "gt", [p, n, k] =>
    match track? p n, k.toInt? with
    | some tr, some k => showTrack (dropFirst tr k)
    | _, _ => "bad-request"
  | "lt", [p, n, k] =>
    match track? p n, k.toInt? with
    | some tr, some k => showTrack (dropLast tr k)
    | _, _ => "bad-request"
  | _, _ => "bad-request"
end TV.Drv.C04
