import TracklibVerif.Model.Seq
import TracklibVerif.Drv.Util
/-! Driver handler for C04 (sequence operations of `Track`).

An observation is the token `tag:time[:feat…]`, a list of observations is `,`-separated (`_` = empty),
a name table is a `,`-separated list (`_` = empty). A track reply is `<pts> <names>`.
  index <times> <ts>                        → `ok <id>` | `err:index` | `fuel`
  indexj <j> <times> <ts>                   → same, first step 2^j
  ilog2 <lo> <hi>                           → `ilog2 N` for N = lo..hi-1 (`,`-separated)
  insert <pts> <names> <obs>                → track | err:index
  sort <pts> <names>                        → track | err:index
  remove <pts> <idxs>                       → `<pts> <counter | err:index>`
  extract <pts> <names> <a> <b>             → track | err:index
  span <pts> <names> <t1> <t2>              → track
  concat <pts1> <names1> <pts2> <names2>    → track
  step <pts> <names> <n>                    → track | err:value
  pattern <pts> <names> <pattern 0/1 string or _> → track | err:zerodiv
  gt <pts> <names> <n> ,  lt <pts> <names> <n>     → track -/
namespace TV.Drv.C04
open TV.Seq TV.Drv

def obs? (s : String) : Option Obs :=
  match (splitTok s ':').mapM String.toInt? with
  | some (tag :: time :: feats) => if tag < 0 then none else some ⟨tag.toNat, time, feats⟩
  | _ => none

def pts? (s : String) : Option (List Obs) := (splitTok s ',').mapM obs?
def names? (s : String) : Option (List String) := some (splitTok s ',')
def track? (p n : String) : Option Track := do
  let ps ← pts? p
  let ns ← names? n
  some ⟨ps, ns⟩

def showObs (o : Obs) : String := ":".intercalate (toString o.tag :: toString o.time :: o.feats.map toString)
def showPts (l : List Obs) : String := showList showObs l
def showTrack (t : Track) : String := showPts t.pts ++ " " ++ joinWith "," t.names
def showRes : Res → String
  | .ok id => s!"ok {id}"
  | .indexErr => "err:index"
  | .outOfFuel => "fuel"
def pat? (s : String) : Option (List Bool) :=
  if s == "_" then some [] else s.toList.mapM (fun c => if c == '1' then some true else if c == '0' then some false else none)

def handle (cmd : String) (args : List String) : String :=
  match cmd, args with
  | "index", [ts, t] =>
    match intList? ts, t.toInt? with
    | some T, some t => showRes (insertionIndex T t)
    | _, _ => "bad-request"
  | "indexj", [j, ts, t] =>
    match j.toNat?, intList? ts, t.toInt? with
    | some j, some T, some t => showRes (insertionIndexFrom j T t)
    | _, _, _ => "bad-request"
  | "ilog2", [lo, hi] =>
    match lo.toNat?, hi.toNat? with
    | some lo, some hi => showList toString ((List.range (hi - lo)).map (fun i => ilog2 (lo + i)))
    | _, _ => "bad-request"
  | "insert", [p, n, o] =>
    match track? p n, obs? o with
    | some tr, some o =>
      match insertChrono tr o with
      | some r => showTrack r
      | none => "err:index"
    | _, _ => "bad-request"
  | "sort", [p, n] =>
    match track? p n with
    | some tr =>
      match sortByTime tr with
      | some r => showTrack r
      | none => "err:index"
    | none => "bad-request"
  | "remove", [p, ix] =>
    match pts? p, intList? ix with
    | some l, some tab =>
      let (l', r) := removeByIdx l tab
      showPts l' ++ " " ++ (match r with | some c => toString c | none => "err:index")
    | _, _ => "bad-request"
  | "extract", [p, n, a, b] =>
    match track? p n, a.toInt?, b.toInt? with
    | some tr, some a, some b =>
      match extract tr a b with
      | some r => showTrack r
      | none => "err:index"
    | _, _, _ => "bad-request"
  | "span", [p, n, a, b] =>
    match track? p n, a.toInt?, b.toInt? with
    | some tr, some a, some b => showTrack (extractSpanTime tr a b)
    | _, _, _ => "bad-request"
  | "concat", [p1, n1, p2, n2] =>
    match track? p1 n1, track? p2 n2 with
    | some t1, some t2 => showTrack (concat t1 t2)
    | _, _ => "bad-request"
  | "step", [p, n, k] =>
    match track? p n, k.toInt? with
    | some tr, some k =>
      match decimateStep tr k with
      | some r => showTrack r
      | none => "err:value"
    | _, _ => "bad-request"
  | "pattern", [p, n, pt] =>
    match track? p n, pat? pt with
    | some tr, some pat =>
      match decimatePattern tr pat with
      | some r => showTrack r
      | none => "err:zerodiv"
    | _, _ => "bad-request"
  | "gt", [p, n, k] =>
    match track? p n, k.toInt? with
    | some tr, some k => showTrack (dropFirst tr k)
    | _, _ => "bad-request"
  | "lt", [p, n, k] =>
    match track? p n, k.toInt? with
    | some tr, some k => showTrack (dropLast tr k)
    | _, _ => "bad-request"
  | _, _ => "bad-request"
end TV.Drv.C04
