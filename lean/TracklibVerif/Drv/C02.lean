import TracklibVerif.Model.Expr
import TracklibVerif.Drv.Util
/-! Driver handler for C02 (expression evaluator). Strings cross the boundary as `.`-separated decimal
character codes (`_` = empty string); a list of strings is `,`-separated. A track is the six tokens
`<n> <xs> <ys> <zs> <ts> <names> <cols>` (floats as IEEE bit patterns, columns `;`-separated).

  operate <track> <expr>                    → <status> <vector|none> <names> <cols> <xs> <ys> <zs>
  operatex <track> <names> <values> <expr>  → as `operate`, with the dictionary of externals
  getitem <track> <expr>                    → as `operate` (Track[expr])
  operateseq <track> <expr>,<expr>,…        → as `operate`, for the last statement run (the first failing one)
  rpn <expr>                                → <status> <tokens>        (utils.makeRPN, character level)
  rw special|reflex|unary|funcat|pre <expr> → <status> <string>        (the rewriting steps of __evaluate)
  prime <tokens>                            → ok <tokens>
  opbin|opscal|opscalrev <track> <opchar> <in1> <in2|scalar> <out> → as `operate`
  opfn <track> <f> <in> <out>               → as `operate`
  opagg <track> <f> <in>                    → <status> <scalar>
  denote <track> <tree>                     → <status> <vector>   (tree semantics `denoteM`, broadcast)
      tree = prefix token list: n:<str> | v:<str> | b:<charcode> | c:<str>                         -/
namespace TV.Drv.C02
open TV.Expr TV.Drv

def str? (s : String) : Option Str :=
  if s == "_" then some [] else
    (s.splitOn ".").mapM (fun t => t.toNat?.map Char.ofNat)
def strList? (s : String) : Option (List Str) := (splitTok s ',').mapM str?
def showStr (s : Str) : String := if s.isEmpty then "_" else ".".intercalate (s.map (fun c => toString c.toNat))
def showStrList (l : List Str) : String := joinWith "," (l.map showStr)

def track? : List String → Option (Tr Float × List String)
  | n :: xs :: ys :: zs :: ts :: names :: cols :: rest => do
    let n ← n.toNat?
    let xs ← floatList? xs
    let ys ← floatList? ys
    let zs ← floatList? zs
    let ts ← floatList? ts
    let names ← strList? names
    let cols ← floatListList? cols
    if names.length ≠ cols.length then none
    else if !(xs.length == n && ys.length == n && zs.length == n && ts.length == n && cols.all (·.length == n)) then none
    else some (⟨n, xs, ys, zs, ts, names.zip cols⟩, rest)
  | _ => none

def showTrack (tr : Tr Float) : String :=
  s!"{showStrList (tr.feats.map (·.1))} {showListList showFloat (tr.feats.map (·.2))} {showList showFloat tr.xs} {showList showFloat tr.ys} {showList showFloat tr.zs}"

def showStatus {β} : Except Err β → String
  | .ok _ => "ok"
  | .error e => e

def showRes (r : Res Float (Option (List Float))) : String :=
  let v := match r.1 with
    | .ok (some c) => showList showFloat c
    | _ => "none"
  s!"{showStatus r.1} {v} {showTrack r.2}"

def voidRes (r : Res Float (List Float)) : Res Float (Option (List Float)) :=
  (r.1.map some, r.2)

def char? (s : String) : Option Char := s.toNat?.map Char.ofNat

/-- output name of an operator object: `none` = not given (defaults to the first input) -/
def out? (s : String) (in1 : Str) : Option Str := if s == "none" then some (defaultOut none in1) else (str? s).map (fun o => defaultOut (some o) in1)

/-- prefix token list → tree -/
def tree? : Nat → List String → Option (Ex × List String)
  | 0, _ => none
  | f+1, t :: rest =>
    match t.splitOn ":" with
    | ["n", s] => (str? s).map (fun s => (Ex.num s, rest))
    | ["v", s] => (str? s).map (fun s => (Ex.var s, rest))
    | ["b", c] => do
      let c ← char? c
      let (l, rest) ← tree? f rest
      let (r, rest) ← tree? f rest
      pure (Ex.bin c l r, rest)
    | ["c", s] => do
      let s ← str? s
      let (e, rest) ← tree? f rest
      pure (Ex.call s e, rest)
    | _ => none
  | _, [] => none

def handle (cmd : String) (args : List String) : String :=
  match cmd with
  | "operate" =>
    match track? args with
    | some (tr, [e]) => match str? e with
      | some e => showRes (operate tr e)
      | none => "bad-request"
    | _ => "bad-request"
  | "operatex" =>
    -- operatex <track> <names> <values> <expr> : Track.operate(expr, {name: value, …})
    match track? args with
    | some (tr, [ns, vs, e]) => match strList? ns, floatList? vs, str? e with
      | some ns, some vs, some e => if ns.length == vs.length then showRes (operateX (ns.zip vs) tr e) else "bad-request"
      | _, _, _ => "bad-request"
    | _ => "bad-request"
  | "getitem" =>
    match track? args with
    | some (tr, [e]) => match str? e with
      | some e => showRes (getitemStr tr e)
      | none => "bad-request"
    | _ => "bad-request"
  | "operateseq" =>
    -- several statements run one after the other on the same track (stops at the first error)
    match track? args with
    | some (tr, [es]) => match strList? es with
      | some (e :: rest) =>
        showRes (rest.foldl (fun acc e => match acc.1 with
          | .ok _ => operate acc.2 e
          | .error _ => acc) (operate tr e))
      | _ => "bad-request"
    | _ => "bad-request"
  | "rpn" =>
    match args.mapM str? with
    | some [e] => match makeRPN e with
      | .ok toks => s!"ok {showStrList toks}"
      | .error err => s!"{err} _"
    | _ => "bad-request"
  | "rw" =>
    match args with
    | [which, e] => match str? e with
      | none => "bad-request"
      | some e =>
        match which with
        | "special" => s!"ok {showStr (specialOpChar e)}"
        | "reflex" => s!"ok {showStr (convertReflexOperator e)}"
        | "unary" => match unaryOp e with
          | .ok r => s!"ok {showStr r}"
          | .error err => s!"{err} _"
        | "funcat" => s!"ok {showStr (funcAt e)}"
        | "pre" => match preprocess e with
          | .ok (r, _) => s!"ok {showStr r}"
          | .error err => s!"{err} _"
        | _ => "bad-request"
    | _ => "bad-request"
  | "prime" =>
    match args with
    | [t] => match strList? t with
      | some toks => match prime toks with
        | .ok r => s!"ok {showStrList r}"
        | .error err => s!"{err} _"
      | none => "bad-request"
    | _ => "bad-request"
  | "opbin" =>
    match track? args with
    | some (tr, [o, a, b, out]) => match char? o, str? a, str? b, (str? a).bind (out? out) with
      | some o, some a, some b, some out => showRes (voidRes (opBin tr o a b out))
      | _, _, _, _ => "bad-request"
    | _ => "bad-request"
  | "opscal" =>
    match track? args with
    | some (tr, [o, a, s, out]) => match char? o, str? a, float? s, (str? a).bind (out? out) with
      | some o, some a, some s, some out => showRes (voidRes (opScal tr o a s out))
      | _, _, _, _ => "bad-request"
    | _ => "bad-request"
  | "opscalrev" =>
    match track? args with
    | some (tr, [o, a, s, out]) => match char? o, str? a, float? s, (str? a).bind (out? out) with
      | some o, some a, some s, some out => showRes (voidRes (opScalRev tr o a s out))
      | _, _, _, _ => "bad-request"
    | _ => "bad-request"
  | "opfn" =>
    match track? args with
    | some (tr, [f, a, out]) => match str? f, str? a, (str? a).bind (out? out) with
      | some f, some a, some out =>
        if isVoidFn f then
          -- `Log.execute` returns nothing
          let r := opVoidFn tr f a out
          if f = logName then showRes (r.1.map (fun _ => none), r.2) else showRes (voidRes r)
        else "bad-request"
      | _, _, _ => "bad-request"
    | _ => "bad-request"
  | "opagg" =>
    match track? args with
    | some (tr, [f, a]) => match str? f, str? a with
      | some f, some a =>
        if isAggFn f then
          match opAgg tr f a with
          | .ok v => s!"ok {showFloat v}"
          | .error e => s!"{e} none"
        else "bad-request"
      | _, _ => "bad-request"
    | _ => "bad-request"
  | "denote" =>
    match track? args with
    | some (tr, [t]) =>
      match tree? 10000 (splitTok t ',') with
      | some (e, []) =>
        match denoteM tr e with
        | .ok v => s!"ok {showList showFloat (v.toVec tr.n)}"
        | .error err => s!"{err} none"
      | _ => "bad-request"
    | _ => "bad-request"
  | _ => "bad-request"
end TV.Drv.C02
