import TracklibVerif.Model.MapMatch
import TracklibVerif.Drv.Util
/-! Driver handler for C10 (map-matching candidates and inference), `Float` instance of `Model/MapMatch`.
Floats are IEEE bit patterns.
  match <radius> <edges> <track> <cands> <idx>
     edges : edge geometries separated by `|`, vertices by `;`, `x,y`        (edge number = position)
     track : observations `x,y` separated by `;`
     cands : per observation, separated by `;` : `n` (neighborhood returned None), `_` (empty list), or `e,e,…`
     idx   : decoded state index per epoch `i,i,…` (the decoder is a parameter of the model), or `x` = no decoding
   → `ok <STATES> # <inference>` : per observation (separated by `|`) the states `px,py,edge,d0,d1` separated by `;`
     (inference: one state per observation separated by `;`, `_` when idx = x)
   | `err zerodiv` | `err unbound` | `err index`
  curv <geometry>  → the abs_curv column of a geometry (computeAbsCurv) -/
namespace TV.Drv.C10
open TV.Proj TV.MapMatch TV.Drv

def eps : Float := Float.ofBits 4367597403136100796   -- 1e-16

def showErr : MapMatch.Err → String
  | .proj .zerodiv => "err zerodiv"
  | .proj .unbound => "err unbound"
  | .index => "err index"

def pt? (s : String) : Option (Float × Float) :=
  match (splitTok s ',').mapM float? with
  | some [x, y] => some (x, y)
  | _ => none

def geom? (s : String) : Option (List (Float × Float)) := (splitTok s ';').mapM pt?

def cand? (s : String) : Option (Option (List Nat)) :=
  if s == "n" then some none else (natList? s).map some

def showState (s : State Float) : String :=
  s!"{showFloat s.p.1},{showFloat s.p.2},{s.edge},{showFloat s.d0},{showFloat s.d1}"

def handle (cmd : String) (args : List String) : String :=
  match cmd, args with
  | "curv", [g] =>
    match geom? g with
    | some pts => showList showFloat (absCurv Float.sqrt pts)
    | none => "bad-request"
  | "match", [r, es, tr, cs, ix] =>
    match float? r, (es.splitOn "|").mapM geom?, geom? tr, ((cs.splitOn ";").mapM cand?) with
    | some radius, some geoms, some track, some cands =>
      if cands.length != track.length then "bad-request" else
      let edges := geoms.map (mkEdge Float.sqrt)
      let obs : List (Obs Float) := track.map (fun p => ⟨p, 0⟩)
      if ix == "x" then
        match allStates Float.sqrt eps radius edges obs cands with
        | .error e => showErr e
        | .ok st => "ok " ++ joinWith "|" (st.map (fun l => joinWith ";" (l.map showState))) ++ " # _"
      else
        match natList? ix with
        | none => "bad-request"
        | some idx =>
          if idx.length != track.length then "bad-request" else
          match mapOnNetwork Float.sqrt eps radius edges 1 (fun _ => idx) obs [] cands with
          | .error e => showErr e
          | .ok res =>
            "ok " ++ joinWith "|" (res.states.map (fun l => joinWith ";" (l.map showState))) ++ " # "
              ++ joinWith ";" (res.inference.map showState)
    | _, _, _, _ => "bad-request"
  | _, _ => "bad-request"
end TV.Drv.C10
