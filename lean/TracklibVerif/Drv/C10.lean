import TracklibVerif.Model.MapMatchZ
import TracklibVerif.Drv.Util
/-! Driver handler for C10 (map-matching), `Float` instances of `Model/MapMatch` (command `match`: candidate loop and inference
on candidate lists and decoded indices given by the caller) and of `Model/MapMatchNet` (command `net`: network construction,
spatial index, search unit, candidates, front end; the caller only says which edge the decoder chose).
Floats are IEEE bit patterns.
  match <radius> <edges> <track> <cands> <idx>
     edges : edge geometries separated by `|`, vertices by `;`, `x,y`        (edge number = position)
     track : observations `x,y` separated by `;`
     cands : per observation, separated by `;` : `n` (neighborhood returned None), `_` (empty list), or `e,e,…`
     idx   : decoded state index per epoch `i,i,…` (the decoder is a parameter of the model), or `x` = no decoding
   → `ok <STATES> # <inference>` : per observation (separated by `|`) the states `px,py,edge,d0,d1` separated by `;`
     (inference: one state per observation separated by `;`, `_` when idx = x)
   | `err zerodiv` | `err index`
  curv <geometry>  → the abs_curv column of a geometry (computeAbsCurv)
  net <edges> <late> <res> <margin> <call> <call> …      (`Model/MapMatchNet`: construction path, index of C08, front end)
     edges : `|`-separated `id:s:t:orientation:sx,sy:tx,ty:geometry` — the `Edge` (geometry `x,y;x,y;…`, its abs_curv column is
             computed by the model as `computeAbsCurv` does) and the two `Node(id, coord)` handed to `Network.addEdge`
     late  : number of edges added AFTER `network.spatial_index = SpatialIndex(network, res, margin)`
     res   : `none` or `rx,ry`;   margin : scalar
     call  : `radius:gps_noise:one|many:track/track/…`, track = `names~noise~points~chosen` — feature names before the call,
             content of the obs_noise column (`_` when absent), observations, and the decoder's answer given as the EDGE
             NUMBER of the state chosen at each epoch (-1 = the flag state), `x` = no decoding
   → `err:<kind>` when the construction raises, else
     `ok <geoms> <curvs> <nodes> <ends> <grid> <call> <call> …` : geometries and abs_curv columns by edge number, node table
     `id,x,y;…` in registration order, `source,target;…` by edge number, `xmin,xmax,ymin,ymax,csize,lsize`, and per call the
     tracks `STATES#inference#names#obs_noise#positions` separated by `/`, the first failing track being `E<kind>`.
  match3 / curv3 / net3 : the same three commands on data WITH ALTITUDES (`Model/MapMatchZ`): every point is `x,y,z` (edge
     vertices, node coordinates, observations; a vertex may be written `x,y`: `wktVertex`); a state is `px,py,edge,d0,d1,pz`; positions come back as `x,y,z`; `net3` replies
     one more field after the `abs_curv` columns: the edge weights `Track.length()` (3D) by edge number. -/
namespace TV.Drv.C10
open TV.Proj TV.MapMatch TV.Drv

def eps : Float := Float.ofBits 4367597403136100796   -- 1e-16

def showErr : MapMatch.Err → String
  | .proj .zerodiv => "err zerodiv"
  | .proj .index => "err index"
  | .proj .overflow => "err overflow"
  | .index => "err index"

def pt? (s : String) : Option (Float × Float) :=
  match (splitTok s ',').mapM float? with
  | some [x, y] => some (x, y)
  | _ => none

def geom? (s : String) : Option (List (Float × Float)) := (splitTok s ';').mapM pt?

def cand? (s : String) : Option (Option (List Nat)) :=
  if s == "n" then some none else (natList? s).map some

def showState (s : State Float) : String :=
  s!"{showFloat s.p.1},{showFloat s.p.2},{s.edge},{showFloat s.d0},{showFloat s.d1}"

local instance : IntCast Float := ⟨Float.ofInt⟩

/-- `math.floor` of a finite double as an integer -/
def flFloat (x : Float) : Int :=
  let f := x.floor
  if f < 0 then -(((-f).toUInt64.toNat : Nat) : Int) else ((f.toUInt64.toNat : Nat) : Int)

def showErrN : MapMatch.ErrN → String
  | .mm (.proj .zerodiv) => "Ezerodiv"
  | .mm (.proj .index) => "Eindex"
  | .mm (.proj .overflow) => "Eoverflow"
  | .mm .index => "Eindex"
  | .grid .zerodiv => "Ezerodiv"
  | .grid .index => "Eindex"
  | .grid .type => "Etype"
  | .grid .exit => "Eexit"
  | .zerodiv => "Ezerodiv"
  | .noIndex => "Enoindex"
  | .emptyTrack => "Eempty"

def edgeIn? (s : String) : Option (EdgeIn Float × Node Float × Node Float) :=
  match s.splitOn ":" with
  | [i, a, b, o, ca, cb, g] => do
    let i ← i.toNat?; let a ← a.toNat?; let b ← b.toNat?; let o ← o.toInt?
    let ca ← pt? ca; let cb ← pt? cb; let g ← geom? g
    pure (readerEdge Float.sqrt i g o 0, ⟨a, ca⟩, ⟨b, cb⟩)
  | _ => none

structure TrackReq where
  t : TrackS Float
  chosen : Option (List Int)

/-- the time stamps of a track request: one natural key per observation (the harness' injective encoding of the `ObsTime`
fields), in the order of the track — ANY order, ties included —, or `_` for an empty track -/
def stampList? (s : String) (n : Nat) : Option (List Nat) :=
  if s == "_" then (if n == 0 then some [] else none) else
  match natList? s with
  | some l => if l.length == n then some l else none
  | none => none

def trackReq? (s : String) : Option TrackReq :=
  match s.splitOn "~" with
  | [ns, nz, pts, ch] => do
    let noise ← floatList? nz
    let pts ← geom? pts
    let chosen ← if ch == "x" then some none else (intList? ch).map some
    pure ⟨⟨pts.map (fun p => ⟨p, 0⟩), splitTok ns ',', noise⟩, chosen⟩
  | [ns, nz, pts, ch, tm] => do
    let noise ← floatList? nz
    let pts ← geom? pts
    let tm ← stampList? tm pts.length
    let chosen ← if ch == "x" then some none else (intList? ch).map some
    pure ⟨⟨(pts.zip tm).map (fun (p, t) => ⟨p, t⟩), splitTok ns ',', noise⟩, chosen⟩
  | _ => none

structure CallReq where
  radius : Float
  noise : Float
  one : Bool
  tracks : List TrackReq

def callReq? (s : String) : Option CallReq :=
  match s.splitOn ":" with
  | [r, n, form, ts] => do
    let r ← float? r; let n ← float? n
    let one ← if form == "one" then some true else if form == "many" then some false else none
    let ts ← (ts.splitOn "/").mapM trackReq?
    if one && ts.length != 1 then none else pure ⟨r, n, one, ts⟩
  | _ => none

/-- the decoder of the driver: per epoch the position, in that epoch's candidate list, of the state with the requested
edge number (the real decoder's answer, told independently of the order of the candidates); an epoch without such a state
gets an out-of-range index, which the backward step reports as `IndexError` -/
def chosenDecoder (chosen : List Int) : Decoder Float := fun _ _ states =>
  (states.zip chosen).map (fun (l, c) => (l.findIdx? (fun s => s.edge == c)).getD l.length)

def showStates (st : List (List (State Float))) : String :=
  joinWith "|" (st.map (fun l => joinWith ";" (l.map showState)))

def showResultN (r : ResultN Float) : String :=
  showStates r.states ++ "#" ++ joinWith ";" (r.inference.map showState) ++ "#" ++ joinWith "," r.track.names ++ "#"
    ++ showList showFloat r.track.noise ++ "#" ++ joinWith ";" (r.track.obs.map (fun o => s!"{showFloat o.pos.1},{showFloat o.pos.2}"))
    ++ "#" ++ showList (fun (n : Nat) => toString n) (r.track.obs.map (fun o => o.t))

/-- one call of the front end; every track is decoded with its own chosen edge numbers (a track without decoding only
has its `STATES` computed, as the real call did before it raised) -/
def runCall (net : Net Float) (c : CallReq) : String :=
  let a : Args Float := ⟨c.noise, 10, c.radius, false, false⟩
  let rec go : List TrackReq → List String
    | [] => []
    | tr :: rest =>
      match tr.chosen with
      | none =>
        if tr.t.obs.isEmpty then ["Eempty"] else
        match allStatesNet Float.sqrt flFloat eps c.radius net tr.t.obs with
        | .error e => [showErrN e]
        | .ok st => [showStates st ++ "#_#_#_#_"]
      | some ch =>
        let arg : TracksArg Float := if c.one then .one tr.t else .many [tr.t]
        match mapOnNetworkFront Float.sqrt flFloat eps net (chosenDecoder ch) a arg with
        | ([r], none) => showResultN r :: go rest
        | (_, some e) => [showErrN e]
        | _ => ["Ebad"]
  joinWith "/" (go c.tracks)

def showNet (net : Net Float) : String :=
  let es := (List.range net.edges.length).filterMap (edgeNo net)
  let geoms := joinWith "|" (es.map (fun ne => joinWith ";" (ne.e.geom.map (fun p => s!"{showFloat p.1},{showFloat p.2}"))))
  let curvs := joinWith "|" (es.map (fun ne => showList showFloat ne.e.curv))
  let nodes := joinWith ";" (net.nodes.map (fun n => s!"{n.id},{showFloat n.coord.1},{showFloat n.coord.2}"))
  let ends := joinWith ";" (es.map (fun ne => s!"{ne.source},{ne.target}"))
  let grid := match net.index with
    | none => "none"
    | some ix => s!"{showFloat ix.xmin},{showFloat ix.xmax},{showFloat ix.ymin},{showFloat ix.ymax},{ix.csize},{ix.lsize}"
  s!"{geoms} {curvs} {nodes} {ends} {grid}"

/-! ### data with altitudes (`Model/MapMatchZ`) -/

/-- a point `x,y,z`, or `x,y` as `wktLineStringToObs` reads a 2D vertex (altitude 0) -/
def pt3? (s : String) : Option (P3 Float) :=
  match (splitTok s ',').mapM float? with
  | some l => wktVertex l
  | none => none

def geom3? (s : String) : Option (List (P3 Float)) := (splitTok s ';').mapM pt3?

def showP3 (p : P3 Float) : String := s!"{showFloat p.1},{showFloat p.2.1},{showFloat p.2.2}"

def showState3 (s : State3 Float) : String :=
  s!"{showFloat s.p.1},{showFloat s.p.2.1},{s.edge},{showFloat s.d0},{showFloat s.d1},{showFloat s.p.2.2}"

def showStates3 (st : List (List (State3 Float))) : String :=
  joinWith "|" (st.map (fun l => joinWith ";" (l.map showState3)))

def edgeIn3? (s : String) : Option (EdgeIn3 Float × Node3 Float × Node3 Float) :=
  match s.splitOn ":" with
  | [i, a, b, o, ca, cb, g] => do
    let i ← i.toNat?; let a ← a.toNat?; let b ← b.toNat?; let o ← o.toInt?
    let ca ← pt3? ca; let cb ← pt3? cb; let g ← geom3? g
    pure (readerEdge3 Float.sqrt i g o, ⟨a, ca⟩, ⟨b, cb⟩)
  | _ => none

structure TrackReq3 where
  t : TrackS3 Float
  chosen : Option (List Int)

def trackReq3? (s : String) : Option TrackReq3 :=
  match s.splitOn "~" with
  | [ns, nz, pts, ch] => do
    let noise ← floatList? nz
    let pts ← geom3? pts
    let chosen ← if ch == "x" then some none else (intList? ch).map some
    pure ⟨⟨pts.map (fun p => ⟨p, 0⟩), splitTok ns ',', noise⟩, chosen⟩
  | [ns, nz, pts, ch, tm] => do
    let noise ← floatList? nz
    let pts ← geom3? pts
    let tm ← stampList? tm pts.length
    let chosen ← if ch == "x" then some none else (intList? ch).map some
    pure ⟨⟨(pts.zip tm).map (fun (p, t) => ⟨p, t⟩), splitTok ns ',', noise⟩, chosen⟩
  | _ => none

structure CallReq3 where
  radius : Float
  noise : Float
  one : Bool
  tracks : List TrackReq3

def callReq3? (s : String) : Option CallReq3 :=
  match s.splitOn ":" with
  | [r, n, form, ts] => do
    let r ← float? r; let n ← float? n
    let one ← if form == "one" then some true else if form == "many" then some false else none
    let ts ← (ts.splitOn "/").mapM trackReq3?
    if one && ts.length != 1 then none else pure ⟨r, n, one, ts⟩
  | _ => none

def chosenDecoder3 (chosen : List Int) : Decoder3 Float := fun _ _ states =>
  (states.zip chosen).map (fun (l, c) => (l.findIdx? (fun s => s.edge == c)).getD l.length)

def showResultN3 (r : ResultN3 Float) : String :=
  showStates3 r.states ++ "#" ++ joinWith ";" (r.inference.map showState3) ++ "#" ++ joinWith "," r.track.names ++ "#"
    ++ showList showFloat r.track.noise ++ "#" ++ joinWith ";" (r.track.obs.map (fun o => showP3 o.pos))
    ++ "#" ++ showList (fun (n : Nat) => toString n) (r.track.obs.map (fun o => o.t))

def runCall3 (net : Net3 Float) (c : CallReq3) : String :=
  let a : Args Float := ⟨c.noise, 10, c.radius, false, false⟩
  let rec go : List TrackReq3 → List String
    | [] => []
    | tr :: rest =>
      match tr.chosen with
      | none =>
        if tr.t.obs.isEmpty then ["Eempty"] else
        match allStatesNet3 Float.sqrt flFloat eps c.radius net tr.t.obs with
        | .error e => [showErrN e]
        | .ok st => [showStates3 st ++ "#_#_#_#_"]
      | some ch =>
        let arg : TracksArg3 Float := if c.one then .one tr.t else .many [tr.t]
        match mapOnNetworkFront3 Float.sqrt flFloat eps net (chosenDecoder3 ch) a arg with
        | ([r], none) => showResultN3 r :: go rest
        | (_, some e) => [showErrN e]
        | _ => ["Ebad"]
  joinWith "/" (go c.tracks)

def showNet3 (net : Net3 Float) : String :=
  let es := (List.range net.edges.length).filterMap (edgeNo3 net)
  let geoms := joinWith "|" (es.map (fun ne => joinWith ";" (ne.e.geom.map showP3)))
  let curvs := joinWith "|" (es.map (fun ne => showList showFloat ne.e.curv))
  let weights := showList showFloat (es.map (fun ne => ne.e.weight))
  let nodes := joinWith ";" (net.nodes.map (fun n => s!"{n.id},{showP3 n.coord}"))
  let ends := joinWith ";" (es.map (fun ne => s!"{ne.source},{ne.target}"))
  let grid := match net.index with
    | none => "none"
    | some ix => s!"{showFloat ix.xmin},{showFloat ix.xmax},{showFloat ix.ymin},{showFloat ix.ymax},{ix.csize},{ix.lsize}"
  s!"{geoms} {curvs} {weights} {nodes} {ends} {grid}"

def showGridErr : Grid.Err → String
  | .zerodiv => "err:zerodiv" | .index => "err:index" | .type => "err:type" | .exit => "err:exit"

def handle (cmd : String) (args : List String) : String :=
  match cmd, args with
  | "net", es :: late :: res :: margin :: calls =>
    let res? : Option (Option (Float × Float)) := if res == "none" then some none else (pt? res).map some
    match (es.splitOn "|").mapM edgeIn?, late.toNat?, res?, float? margin, calls.mapM callReq? with
    | some es, some late, some res, some margin, some calls =>
      match buildNet flFloat es late res margin with
      | .error e => showGridErr e
      | .ok net => " ".intercalate (["ok", showNet net] ++ calls.map (runCall net))
    | _, _, _, _, _ => "bad-request"
  | "net3", es :: late :: res :: margin :: calls =>
    let res? : Option (Option (Float × Float)) := if res == "none" then some none else (pt? res).map some
    match (es.splitOn "|").mapM edgeIn3?, late.toNat?, res?, float? margin, calls.mapM callReq3? with
    | some es, some late, some res, some margin, some calls =>
      match buildNet3 flFloat es late res margin with
      | .error e => showGridErr e
      | .ok net => " ".intercalate (["ok", showNet3 net] ++ calls.map (runCall3 net))
    | _, _, _, _, _ => "bad-request"
  | "curv3", [g] =>
    match geom3? g with
    | some pts => showList showFloat (absCurv3 Float.sqrt pts) ++ " " ++ showFloat (trackLength3D Float.sqrt pts)
    | none => "bad-request"
  | "match3", [r, es, tr, cs, ix] =>
    match float? r, (es.splitOn "|").mapM geom3?, geom3? tr, ((cs.splitOn ";").mapM cand?) with
    | some radius, some geoms, some track, some cands =>
      if cands.length != track.length then "bad-request" else
      let edges := geoms.map (mkEdge3 Float.sqrt)
      let obs : List (Obs3 Float) := track.map (fun p => ⟨p, 0⟩)
      if ix == "x" then
        match allStates3 Float.sqrt eps radius edges obs cands with
        | .error e => showErr e
        | .ok st => "ok " ++ showStates3 st ++ " # _"
      else
        match natList? ix with
        | none => "bad-request"
        | some idx =>
          if idx.length != track.length then "bad-request" else
          match mapOnNetwork3 Float.sqrt eps radius edges 1 (fun _ => idx) obs [] cands with
          | .error e => showErr e
          | .ok res => "ok " ++ showStates3 res.states ++ " # " ++ joinWith ";" (res.inference.map showState3)
    | _, _, _, _ => "bad-request"
  | "curv", [g] =>
    match geom? g with
    | some pts => showList showFloat (absCurv Float.sqrt pts)
    | none => "bad-request"
  | "match", [r, es, tr, cs, ix] =>
    match float? r, (es.splitOn "|").mapM geom?, geom? tr, ((cs.splitOn ";").mapM cand?) with
    | some radius, some geoms, some track, some cands =>
      if cands.length != track.length then "bad-request" else
      let edges := geoms.map (mkEdge Float.sqrt)
      let obs : List (Obs Float) := track.map (fun p => ⟨p, 0⟩)
      if ix == "x" then
        match allStates Float.sqrt eps radius edges obs cands with
        | .error e => showErr e
        | .ok st => "ok " ++ joinWith "|" (st.map (fun l => joinWith ";" (l.map showState))) ++ " # _"
      else
        match natList? ix with
        | none => "bad-request"
        | some idx =>
          if idx.length != track.length then "bad-request" else
          match mapOnNetwork Float.sqrt eps radius edges 1 (fun _ => idx) obs [] cands with
          | .error e => showErr e
          | .ok res =>
            "ok " ++ joinWith "|" (res.states.map (fun l => joinWith ";" (l.map showState))) ++ " # "
              ++ joinWith ";" (res.inference.map showState)
    | _, _, _, _ => "bad-request"
  | _, _ => "bad-request"
end TV.Drv.C10
