import TracklibVerif.Model.MapMatchNet
import TracklibVerif.Drv.Util
/-! Driver handler for C10 (map-matching), `Float` instances of `Model/MapMatch` (command `match`: candidate loop and inference
on candidate lists and decoded indices given by the caller) and of `Model/MapMatchNet` (command `net`: network construction,
spatial index, search unit, candidates, front end; the caller only says which edge the decoder chose).
Floats are IEEE bit patterns.
  match <radius> <edges> <track> <cands> <idx>
     edges : edge geometries separated by `|`, vertices by `;`, `x,y`        (edge number = position)
     track : observations `x,y` separated by `;`
     cands : per observation, separated by `;` : `n` (neighborhood returned None), `_` (empty list), or `e,e,…`
     idx   : decoded state index per epoch `i,i,…` (the decoder is a parameter of the model), or `x` = no decoding
   → `ok <STATES> # <inference>` : per observation (separated by `|`) the states `px,py,edge,d0,d1` separated by `;`
     (inference: one state per observation separated by `;`, `_` when idx = x)
   | `err zerodiv` | `err unbound` | `err index`
  curv <geometry>  → the abs_curv column of a geometry (computeAbsCurv)
  net <edges> <late> <res> <margin> <call> <call> …      (`Model/MapMatchNet`: construction path, index of C08, front end)
     edges : `|`-separated `id:s:t:orientation:sx,sy:tx,ty:geometry` — the `Edge` (geometry `x,y;x,y;…`, its abs_curv column is
             computed by the model as `computeAbsCurv` does) and the two `Node(id, coord)` handed to `Network.addEdge`
     late  : number of edges added AFTER `network.spatial_index = SpatialIndex(network, res, margin)`
     res   : `none` or `rx,ry`;   margin : scalar
     call  : `radius:gps_noise:one|many:track/track/…`, track = `names~noise~points~chosen` — feature names before the call,
             content of the obs_noise column (`_` when absent), observations, and the decoder's answer given as the EDGE
             NUMBER of the state chosen at each epoch (-1 = the flag state), `x` = no decoding
   → `err:<kind>` when the construction raises, else
     `ok <geoms> <curvs> <nodes> <ends> <grid> <call> <call> …` : geometries and abs_curv columns by edge number, node table
     `id,x,y;…` in registration order, `source,target;…` by edge number, `xmin,xmax,ymin,ymax,csize,lsize`, and per call the
     tracks `STATES#inference#names#obs_noise#positions` separated by `/`, the first failing track being `E<kind>`. -/
namespace TV.Drv.C10
open TV.Proj TV.MapMatch TV.Drv

def eps : Float := Float.ofBits 4367597403136100796   -- 1e-16

def showErr : MapMatch.Err → String
  | .proj .zerodiv => "err zerodiv"
  | .proj .unbound => "err unbound"
  | .index => "err index"

def pt? (s : String) : Option (Float × Float) :=
  match (splitTok s ',').mapM float? with
  | some [x, y] => some (x, y)
  | _ => none

def geom? (s : String) : Option (List (Float × Float)) := (splitTok s ';').mapM pt?

def cand? (s : String) : Option (Option (List Nat)) :=
  if s == "n" then some none else (natList? s).map some

def showState (s : State Float) : String :=
  s!"{showFloat s.p.1},{showFloat s.p.2},{s.edge},{showFloat s.d0},{showFloat s.d1}"

local instance : IntCast Float := ⟨Float.ofInt⟩

/-- `math.floor` of a finite double as an integer -/
def flFloat (x : Float) : Int :=
  let f := x.floor
  if f < 0 then -(((-f).toUInt64.toNat : Nat) : Int) else ((f.toUInt64.toNat : Nat) : Int)

def showErrN : MapMatch.ErrN → String
  | .mm (.proj .zerodiv) => "Ezerodiv"
  | .mm (.proj .unbound) => "Eunbound"
  | .mm .index => "Eindex"
  | .grid .zerodiv => "Ezerodiv"
  | .grid .index => "Eindex"
  | .grid .type => "Etype"
  | .grid .exit => "Eexit"
  | .zerodiv => "Ezerodiv"
  | .noIndex => "Enoindex"
  | .emptyTrack => "Eempty"

def edgeIn? (s : String) : Option (EdgeIn Float × Node Float × Node Float) :=
  match s.splitOn ":" with
  | [i, a, b, o, ca, cb, g] => do
    let i ← i.toNat?; let a ← a.toNat?; let b ← b.toNat?; let o ← o.toInt?
    let ca ← pt? ca; let cb ← pt? cb; let g ← geom? g
    pure (readerEdge Float.sqrt i g o 0, ⟨a, ca⟩, ⟨b, cb⟩)
  | _ => none

structure TrackReq where
  t : TrackS Float
  chosen : Option (List Int)

def trackReq? (s : String) : Option TrackReq :=
  match s.splitOn "~" with
  | [ns, nz, pts, ch] => do
    let noise ← floatList? nz
    let pts ← geom? pts
    let chosen ← if ch == "x" then some none else (intList? ch).map some
    pure ⟨⟨pts.map (fun p => ⟨p, 0⟩), splitTok ns ',', noise⟩, chosen⟩
  | _ => none

structure CallReq where
  radius : Float
  noise : Float
  one : Bool
  tracks : List TrackReq

def callReq? (s : String) : Option CallReq :=
  match s.splitOn ":" with
  | [r, n, form, ts] => do
    let r ← float? r; let n ← float? n
    let one ← if form == "one" then some true else if form == "many" then some false else none
    let ts ← (ts.splitOn "/").mapM trackReq?
    if one && ts.length != 1 then none else pure ⟨r, n, one, ts⟩
  | _ => none

/-- the decoder of the driver: per epoch the position, in that epoch's candidate list, of the state with the requested
edge number (the real decoder's answer, told independently of the order of the candidates); an epoch without such a state
gets an out-of-range index, which the backward step reports as `IndexError` -/
def chosenDecoder (chosen : List Int) : Decoder Float := fun _ _ states =>
  (states.zip chosen).map (fun (l, c) => (l.findIdx? (fun s => s.edge == c)).getD l.length)

def showStates (st : List (List (State Float))) : String :=
  joinWith "|" (st.map (fun l => joinWith ";" (l.map showState)))

def showResultN (r : ResultN Float) : String :=
  showStates r.states ++ "#" ++ joinWith ";" (r.inference.map showState) ++ "#" ++ joinWith "," r.track.names ++ "#"
    ++ showList showFloat r.track.noise ++ "#" ++ joinWith ";" (r.track.obs.map (fun o => s!"{showFloat o.pos.1},{showFloat o.pos.2}"))

/-- one call of the front end; every track is decoded with its own chosen edge numbers (a track without decoding only
has its `STATES` computed, as the real call did before it raised) -/
def runCall (net : Net Float) (c : CallReq) : String :=
  let a : Args Float := ⟨c.noise, 10, c.radius, false, false⟩
  let rec go : List TrackReq → List String
    | [] => []
    | tr :: rest =>
      match tr.chosen with
      | none =>
        if tr.t.obs.isEmpty then ["Eempty"] else
        match allStatesNet Float.sqrt flFloat eps c.radius net tr.t.obs with
        | .error e => [showErrN e]
        | .ok st => [showStates st ++ "#_#_#_#_"]
      | some ch =>
        let arg : TracksArg Float := if c.one then .one tr.t else .many [tr.t]
        match mapOnNetworkFront Float.sqrt flFloat eps net (chosenDecoder ch) a arg with
        | ([r], none) => showResultN r :: go rest
        | (_, some e) => [showErrN e]
        | _ => ["Ebad"]
  joinWith "/" (go c.tracks)

def showNet (net : Net Float) : String :=
  let es := (List.range net.edges.length).filterMap (edgeNo net)
  let geoms := joinWith "|" (es.map (fun ne => joinWith ";" (ne.e.geom.map (fun p => s!"{showFloat p.1},{showFloat p.2}"))))
  let curvs := joinWith "|" (es.map (fun ne => showList showFloat ne.e.curv))
  let nodes := joinWith ";" (net.nodes.map (fun n => s!"{n.id},{showFloat n.coord.1},{showFloat n.coord.2}"))
  let ends := joinWith ";" (es.map (fun ne => s!"{ne.source},{ne.target}"))
  let grid := match net.index with
    | none => "none"
    | some ix => s!"{showFloat ix.xmin},{showFloat ix.xmax},{showFloat ix.ymin},{showFloat ix.ymax},{ix.csize},{ix.lsize}"
  s!"{geoms} {curvs} {nodes} {ends} {grid}"

def showGridErr : Grid.Err → String
  | .zerodiv => "err:zerodiv" | .index => "err:index" | .type => "err:type" | .exit => "err:exit"

def handle (cmd : String) (args : List String) : String :=
  match cmd, args with
  | "net", es :: late :: res :: margin :: calls =>
    let res? : Option (Option (Float × Float)) := if res == "none" then some none else (pt? res).map some
    match (es.splitOn "|").mapM edgeIn?, late.toNat?, res?, float? margin, calls.mapM callReq? with
    | some es, some late, some res, some margin, some calls =>
      match buildNet flFloat es late res margin with
      | .error e => showGridErr e
      | .ok net => " ".intercalate (["ok", showNet net] ++ calls.map (runCall net))
    | _, _, _, _, _ => "bad-request"
  | "curv", [g] =>
    match geom? g with
    | some pts => showList showFloat (absCurv Float.sqrt pts)
    | none => "bad-request"
  | "match", [r, es, tr, cs, ix] =>
    match float? r, (es.splitOn "|").mapM geom?, geom? tr, ((cs.splitOn ";").mapM cand?) with
    | some radius, some geoms, some track, some cands =>
      if cands.length != track.length then "bad-request" else
      let edges := geoms.map (mkEdge Float.sqrt)
      let obs : List (Obs Float) := track.map (fun p => ⟨p, 0⟩)
      if ix == "x" then
        match allStates Float.sqrt eps radius edges obs cands with
        | .error e => showErr e
        | .ok st => "ok " ++ joinWith "|" (st.map (fun l => joinWith ";" (l.map showState))) ++ " # _"
      else
        match natList? ix with
        | none => "bad-request"
        | some idx =>
          if idx.length != track.length then "bad-request" else
          match mapOnNetwork Float.sqrt eps radius edges 1 (fun _ => idx) obs [] cands with
          | .error e => showErr e
          | .ok res =>
            "ok " ++ joinWith "|" (res.states.map (fun l => joinWith ";" (l.map showState))) ++ " # "
              ++ joinWith ";" (res.inference.map showState)
    | _, _, _, _ => "bad-request"
  | _, _ => "bad-request"
end TV.Drv.C10
