import TracklibVerif.Model.RasterSession
import TracklibVerif.Model.RasterLayout
import TracklibVerif.Drv.Util
/-! Driver handler for C19. Scalars: mode `f` = IEEE bit patterns (model at `Float`), mode `q` = exact rationals
(model at `Rat`). Commands:

  cell <mode> <bx0> <bx1> <by0> <by1> <rx> <ry> <margin> <x> <y>
      the raster built on the bounding box [bx0,bx1]x[by0,by1]
      reply: `xmin xmax ymin ymax ncol nrow <col:line or none>`
  agg <mode> <vals> <ops>
      the cell operators applied to one list of values (`nan` allowed, `_` = empty list)
      reply: one value per operator, `,`-separated, `nan` for NaN
  session <mode> <call> <call> …
      a sequence of calls, each one token (fields separated by `:`), on the current raster object:
        N:<bx0>:<bx1>:<by0>:<by1>:<rx>:<ry>:<margin>:<nodata>   Raster(Bbox, resolution, margin, novalue): new current raster
        S:<afs>:<ops>:<rx>:<ry>:<margin>:<aforder>:<tracks>     summarize(collection, afs, ops, resolution, margin): its result
                                                                 becomes the current raster (none when it raises / returns 0)
        B:<name>  |  B:<name>:<grid>                            addAFMap(name[, grid]); name `v#co_sum`, `_` = the empty name; grid `~` = []
        A:<aforder>:<tracks>                                     addCollectionToRaster; aforder = iteration order of the set of features
        C                                                        computeAggregates
        D:<value>                                                setNoDataValue (`None` allowed, as for <nodata> and the entries of a grid)
      tracks = track|track…, track = uid@xs@ys@name=vals&name=vals (`_` for none), or uid@xs@ys@_@script for a track whose
      analytical features are built by a script on the track's feature table (Model/RasterLayout.lean): steps separated by `&`,
      `+name=vals` createAnalyticalFeature(name, vals), `-name` removeAnalyticalFeature(name), `~name=vals`
      setObsAnalyticalFeature(name, k, vals[k]) for every k (a script that raises is refused); operators are the six co_*
      names or a name starting with `undefined`
      a call other than N / S without a current raster is answered `noraster!none`
      reply: per call `outcome!xmin:xmax:ymin:ymax:ncol:nrow!nodata!bands!values!cells` (`outcome!none` without a current
      raster), outcome = ok | zero | the exception; bands = name=grid&… (grid `E` while every cell is an empty list);
      values = none | feature=rows;…&… with the cells of a row separated by `|`; cells = `col:line` of every
      observation of the collection of an A / S call -/
namespace TV.Drv.C19
open TV.Raster TV.Drv

instance : IntCast Float := ⟨Float.ofInt⟩
instance : NatCast Float := ⟨Float.ofNat⟩

def fFloor (x : Float) : Int := (Float.floor x).toInt64.toInt
def fCeil (x : Float) : Int := (Float.ceil x).toInt64.toInt

def op? : Char → Option Op
  | 'c' => some .count | 's' => some .sum | 'm' => some .min | 'M' => some .max
  | 'a' => some .avg | 'd' => some .median | _ => none

def showCell : Option (Int × Int) → String
  | none => "none"
  | some (c, l) => s!"{c}:{l}"

section generic
variable {α : Type} [Add α] [Sub α] [Mul α] [Div α] [OfNat α 0] [OfNat α 1] [OfNat α 2] [IntCast α] [NatCast α]
  [LT α] [DecidableLT α] [LE α] [DecidableLE α] [BEq α]

def runCell (floor ceil : α → Int) (rd : String → Option α) (sh : α → String) (a : List String) : String :=
  match a.mapM rd with
  | some [bx0, bx1, by0, by1, rx, ry, mg, x, y] =>
    let g := mkGrid ceil bx0 bx1 by0 by1 rx ry mg
    s!"{sh g.xmin} {sh g.xmax} {sh g.ymin} {sh g.ymax} {g.ncol} {g.nrow} {showCell (getCell floor g x y)}"
  | _ => "bad-request"

def runAgg (rd : String → Option α) (sh : α → String) (vals ops : String) : String :=
  match (splitTok vals ',').mapM (fun w => if w == "nan" then some none else (rd w).map some), ops.toList.mapM op? with
  | some V, some O => showList (fun op => match cellValue op V with | none => "nan" | some a => sh a) O
  | _, _ => "bad-request"

def vals? (rd : String → Option α) (s : String) : Option (List (Option α)) :=
  (splitTok s ',').mapM (fun w => if w == "nan" then some none else (rd w).map some)

def feat? (rd : String → Option α) (s : String) : Option (String × List (Option α)) :=
  match s.splitOn "=" with
  | [n, vs] => (vals? rd vs).map (fun v => (n, v))
  | _ => none

def reservedFeat (n : String) : Bool := ["uid", "x", "y", "idx", "z", "t", "timestamp", ""].contains n

def lstep? (rd : String → Option α) (n : Nat) (s : String) : Option (LStep α) :=
  let named (body : String) (mk : String → List (Option α) → LStep α) : Option (LStep α) :=
    match feat? rd body with
    | some (nm, vs) => if vs.length != n || reservedFeat nm then none else some (mk nm vs)
    | none => none
  if s.startsWith "+" then named ((s.drop 1).toString) LStep.create
  else if s.startsWith "~" then named ((s.drop 1).toString) LStep.write
  else if s.startsWith "-" then (if reservedFeat ((s.drop 1).toString) then none else some (LStep.remove ((s.drop 1).toString)))
  else none

def trk? (rd : String → Option α) (s : String) : Option (Trk α) :=
  match s.splitOn "@" with
  | [uid, xs, ys, "_", sc] => do
    let u ← rd uid
    let X ← (splitTok xs ',').mapM rd
    let Y ← (splitTok ys ',').mapM rd
    if X.length != Y.length then none
    else
      let steps ← (splitTok sc '&').mapM (lstep? rd X.length)
      trkOfScript u (X.zip Y) steps
  | [uid, xs, ys, fs] => do
    let u ← rd uid
    let X ← (splitTok xs ',').mapM rd
    let Y ← (splitTok ys ',').mapM rd
    let F ← (splitTok fs '&').mapM (feat? rd)
    if X.length != Y.length || F.any (fun f => f.2.length != X.length || reservedFeat f.1)
        || (F.map (·.1)).eraseDups.length != F.length then none
    else some { uid := u, pts := X.zip Y, feats := F }
  | _ => none

def trks? (rd : String → Option α) (s : String) : Option (List (Trk α)) := (splitTok s '|').mapM (trk? rd)

def knownOp (o : String) : Bool := (opOf o).isSome || o.startsWith "undefined"

/-- a band name as the list of its `#`-separated parts; refused: unmodelled features and operators -/
def name? (s : String) : Option (List String) :=
  if s == "_" then some [""]
  else
    let parts := s.splitOn "#"
    match parts with
    | af :: rest =>
      if ["z", "t", "timestamp"].contains af then none
      else match rest with
        | o :: _ => if knownOp o then some parts else none
        | [] => some parts
    | [] => none

def showErr : Option Err → String
  | none => "ok" | some .attr => "attr" | some .key => "key" | some .index => "index" | some .type => "type"
  | some .name => "name" | some .wrongArg => "WrongArgumentError" | some .afError => "AnalyticalFeatureError"
  | some .order => "order"

/-- a scalar or Python's `None` -/
def rdO (rd : String → Option α) (w : String) : Option (Option α) := if w == "None" then some none else (rd w).map some
def shO (sh : α → String) : Option α → String
  | none => "None"
  | some a => sh a

def showCells (sh : α → String) (c : Cells (Option α)) : String :=
  joinWith ";" (c.map (fun row => joinWith "|" (row.map (fun cell => showList (fun v => match v with | none => "nan" | some a => sh a) cell))))

def showState (sh : α → String) (s : RState α) : String :=
  let g := s.g
  let bands := joinWith "&" (s.bands.map (fun b => "#".intercalate b.name ++ "=" ++
    (match b.grid with | none => "E" | some gr => showListList (shO sh) gr)))
  let vals := match s.values with
    | none => "none"
    | some V => joinWith "&" (V.map (fun (e : String × Cells (Option α)) => e.1 ++ "=" ++ showCells sh e.2))
  s!"{sh g.xmin}:{sh g.xmax}:{sh g.ymin}:{sh g.ymax}:{g.ncol}:{g.nrow}!{shO sh s.noData}!{bands}!{vals}"

def showObsCells (floor : α → Int) (g : Grid α) (tracks : List (Trk α)) : String :=
  showList (fun p : α × α => showCell (getCell floor g p.1 p.2)) (tracks.flatMap (·.pts))

/-- one call of a session: new current raster and the reply, `none` = malformed -/
def sessionStep (floor ceil : α → Int) (wr : α) (rd : String → Option α) (sh : α → String)
    (cur : Option (RState α)) (tok : String) : Option (Option (RState α) × String) :=
  let reply (e : String) (s : Option (RState α)) (cells : String) : Option (Option (RState α) × String) :=
    match s with
    | none => some (none, e ++ "!none")
    | some st => some (some st, e ++ "!" ++ showState sh st ++ "!" ++ cells)
  match tok.splitOn ":" with
  | ["N", bx0, bx1, by0, by1, rx, ry, mg, nd] =>
    match [bx0, bx1, by0, by1, rx, ry, mg].mapM rd, rdO rd nd with
    | some [bx0, bx1, by0, by1, rx, ry, mg], some nd => reply "ok" (some (initState (mkGrid ceil bx0 bx1 by0 by1 rx ry mg) nd)) "_"
    | _, _ => none
  | ["S", afs, ops, rx, ry, mg, afo, tr] =>
    match rd rx, rd ry, rd mg, trks? rd tr with
    | some rx, some ry, some mg, some T =>
      let afs := splitTok afs ','
      let ops := splitTok ops ','
      if ops.any (fun o => !knownOp o) || afs.any (fun a => ["z", "t", "timestamp", ""].contains a) then none
      else match summarizeS floor ceil wr T afs ops rx ry mg (splitTok afo ',') with
        | .raised .order => none
        | .raised e => reply (showErr (some e)) none "_"
        | .zero => reply "zero" none "_"
        | .ok s => reply "ok" (some s) (showObsCells floor s.g T)
    | _, _, _, _ => none
  | _ =>
    match cur with
    | none => if ["B", "A", "C", "D"].contains ((tok.splitOn ":").headD "") then some (none, "noraster!none") else none
    | some s =>
      let fin (r : RState α × Option Err) (cells : String) : Option (Option (RState α) × String) :=
        if r.2 == some .order then none else reply (showErr r.2) (some r.1) cells
      match tok.splitOn ":" with
      | ["B", nm] => (name? nm).bind (fun n => fin (step floor s (.band n none)) "_")
      | ["B", nm, gr] =>
        match name? nm, (if gr == "~" then some [] else (gr.splitOn ";").mapM (fun r => (splitTok r ',').mapM (rdO rd))) with
        | some n, some G =>
          if G.any (fun r => r.length != (G.headD []).length) then none     -- rectangular grids only
          else fin (step floor s (.band n (some G))) "_"
        | _, _ => none
      | ["A", afo, tr] => (trks? rd tr).bind (fun T => fin (step floor s (.add (splitTok afo ',') T)) (showObsCells floor s.g T))
      | ["C"] => fin (step floor s .compute) "_"
      | ["D", v] => (rdO rd v).bind (fun v => fin (step floor s (.setNoData v)) "_")
      | _ => none

def runSession (floor ceil : α → Int) (wr : α) (rd : String → Option α) (sh : α → String) (toks : List String) : String :=
  let rec go (cur : Option (RState α)) (toks : List String) (acc : List String) : Option (List String) :=
    match toks with
    | [] => some acc.reverse
    | t :: rest =>
      match sessionStep floor ceil wr rd sh cur t with
      | none => none
      | some (cur', r) => go cur' rest (r :: acc)
  match go none toks [] with
  | none => "bad-request"
  | some rs => if rs.isEmpty then "bad-request" else " ".intercalate rs

end generic

def handle (cmd : String) (args : List String) : String :=
  match cmd, args with
  | "session", mode :: toks =>
    if mode == "f" then runSession fFloor fCeil (-99999.0 : Float) float? showFloat toks
    else if mode == "q" then runSession Rat.floor Rat.ceil (-99999 : Rat) rat? showRat toks
    else "bad-request"
  | "agg", [mode, vals, ops] =>
    if mode == "f" then runAgg float? showFloat vals ops
    else if mode == "q" then runAgg rat? showRat vals ops
    else "bad-request"
  | "cell", mode :: rest =>
    if mode == "f" then runCell fFloor fCeil float? showFloat rest
    else if mode == "q" then runCell Rat.floor Rat.ceil rat? showRat rest
    else "bad-request"
  | _, _ => "bad-request"
end TV.Drv.C19
