import TracklibVerif.Model.Raster
import TracklibVerif.Drv.Util
/-! Driver handler for C19. Scalars: mode `f` = IEEE bit patterns (model at `Float`), mode `q` = exact rationals
(model at `Rat`). Commands:

  sum <mode> <xs> <ys> <vals> <rx> <ry> <margin> <ops>
      observations (x, y, value) in track order (`nan` allowed as a value), ops a word over
      {c,s,m,M,a,d} = count, sum, min, max, avg, median
      reply: `xmin xmax ymin ymax ncol nrow <col:line of every observation> <grids>` with grids = per operator
      the rows joined by `;`, operators joined by `|` ; or `err:raised` when Python would raise
  cell <mode> <bx0> <bx1> <by0> <by1> <rx> <ry> <margin> <x> <y>
      the raster built on the bounding box [bx0,bx1]x[by0,by1]
      reply: `xmin xmax ymin ymax ncol nrow <col:line or none>`
  agg <mode> <vals> <ops>
      the cell operators applied to one list of values (`nan` allowed, `_` = empty list)
      reply: one value per operator, `,`-separated, `nan` for NaN -/
namespace TV.Drv.C19
open TV.Raster TV.Drv

instance : IntCast Float := ⟨Float.ofInt⟩
instance : NatCast Float := ⟨Float.ofNat⟩

def fFloor (x : Float) : Int := (Float.floor x).toInt64.toInt
def fCeil (x : Float) : Int := (Float.ceil x).toInt64.toInt

def op? : Char → Option Op
  | 'c' => some .count | 's' => some .sum | 'm' => some .min | 'M' => some .max
  | 'a' => some .avg | 'd' => some .median | _ => none

def showCell : Option (Int × Int) → String
  | none => "none"
  | some (c, l) => s!"{c}:{l}"

section generic
variable {α : Type} [Add α] [Sub α] [Mul α] [Div α] [OfNat α 0] [OfNat α 1] [OfNat α 2] [IntCast α] [NatCast α]
  [LT α] [DecidableLT α] [LE α] [DecidableLE α] [BEq α]

def runSum (floor ceil : α → Int) (noData : α) (rd : String → Option α) (sh : α → String)
    (xs ys vals rx ry margin ops : String) : String :=
  match (splitTok xs ',').mapM rd, (splitTok ys ',').mapM rd,
        (splitTok vals ',').mapM (fun w => if w == "nan" then some none else (rd w).map some),
        rd rx, rd ry, rd margin, ops.toList.mapM op? with
  | some X, some Y, some V, some rx, some ry, some mg, some O =>
    if X.length != Y.length || X.length != V.length || X.isEmpty then "bad-request"
    else
      let obs := X.zip (Y.zip V)
      match summarize floor ceil noData obs rx ry mg O with
      | none => "err:raised"
      | some (g, grids) =>
        let cells := showList (fun o : α × α × Option α => showCell (getCell floor g o.1 o.2.1)) obs
        let gs := joinWith "|" (grids.map (showListList sh))
        s!"{sh g.xmin} {sh g.xmax} {sh g.ymin} {sh g.ymax} {g.ncol} {g.nrow} {cells} {gs}"
  | _, _, _, _, _, _, _ => "bad-request"

def runCell (floor ceil : α → Int) (rd : String → Option α) (sh : α → String) (a : List String) : String :=
  match a.mapM rd with
  | some [bx0, bx1, by0, by1, rx, ry, mg, x, y] =>
    let g := mkGrid ceil bx0 bx1 by0 by1 rx ry mg
    s!"{sh g.xmin} {sh g.xmax} {sh g.ymin} {sh g.ymax} {g.ncol} {g.nrow} {showCell (getCell floor g x y)}"
  | _ => "bad-request"

def runAgg (rd : String → Option α) (sh : α → String) (vals ops : String) : String :=
  match (splitTok vals ',').mapM (fun w => if w == "nan" then some none else (rd w).map some), ops.toList.mapM op? with
  | some V, some O => showList (fun op => match cellValue op V with | none => "nan" | some a => sh a) O
  | _, _ => "bad-request"
end generic

def handle (cmd : String) (args : List String) : String :=
  match cmd, args with
  | "sum", [mode, xs, ys, vals, rx, ry, margin, ops] =>
    if mode == "f" then runSum fFloor fCeil (-99999.0 : Float) float? showFloat xs ys vals rx ry margin ops
    else if mode == "q" then runSum Rat.floor Rat.ceil (-99999 : Rat) rat? showRat xs ys vals rx ry margin ops
    else "bad-request"
  | "agg", [mode, vals, ops] =>
    if mode == "f" then runAgg float? showFloat vals ops
    else if mode == "q" then runAgg rat? showRat vals ops
    else "bad-request"
  | "cell", mode :: rest =>
    if mode == "f" then runCell fFloor fCeil float? showFloat rest
    else if mode == "q" then runCell Rat.floor Rat.ceil rat? showRat rest
    else "bad-request"
  | _, _ => "bad-request"
end TV.Drv.C19
