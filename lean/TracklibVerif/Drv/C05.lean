import TracklibVerif.Model.Resample
import TracklibVerif.Model.ObsTime
import TracklibVerif.Drv.Util
/-! Driver handler for C05 (linear resampling). One command:

  resample <q|f> <pts> <mode> <delta> <npts> <factor> <g>
     pts    : `x,y,z,t;x,y,z,t;…`   (t = toAbsTime() in seconds)
     mode   : 1 spatial, 2 temporal (any other number: no resampling)
     delta  : `none` | `num:<δ>` | `list:<t,t,…>` (a reference track is sent as the list of its instants)
     npts   : `none` | n ;  factor : n ;  g : the guard constant 1+1e-8
  reply  : `ok <points>|<features>` with points `x,y,z,t,Y,M,D,h,m,s,ms;…` (stamp = C03 model applied to
           ⌊1000·t⌋) or `err:index` / `err:zerodiv` / `err:nonterm`.
  `q`: scalars are rationals `p/q`, square roots must be exact (else `inexact`); `f`: IEEE doubles as bit patterns. -/
namespace TV.Drv.C05
open TV.Resample TV.Drv

instance : NatCast Float := ⟨Float.ofNat⟩

def ratTrunc (r : Rat) : Int := if r < 0 then -((-r).floor) else r.floor
def floatTrunc (f : Float) : Int := f.toInt64.toInt

def natSqrt? (n : Nat) : Option Nat := let r := Nat.sqrt n; if r * r = n then some r else none
def ratSqrt? (r : Rat) : Option Rat :=
  if r < 0 then none else
  match natSqrt? r.num.toNat, natSqrt? r.den with
  | some a, some b => some ((a : Rat) / (b : Rat))
  | _, _ => none

def fixes? {α} (num? : String → Option α) (s : String) : Option (List (Fix α)) :=
  (splitTok s ';').mapM fun tok =>
    match (splitTok tok ',').mapM num? with
    | some [x, y, z, t] => some ⟨x, y, z, t⟩
    | _ => none

def optNat? (s : String) : Option (Option Nat) :=
  if s == "none" then some none else s.toNat?.map some

def delta? {α} (num? : String → Option α) (s : String) : Option (Option (Step α)) :=
  if s == "none" then some none
  else match s.splitOn ":" with
    | ["num", v] => (num? v).map (fun d => some (.number d))
    | ["list", l] => ((splitTok l ',').mapM num?).map (fun l => some (.instants l))
    | _ => none

def showErr : Err → String
  | .index => "err:index" | .zerodiv => "err:zerodiv" | .nonterm => "err:nonterm"

def showStamp (ms : Int) : String :=
  if ms < 0 then "neg" else
  let t := TV.ObsTime.readUnixMs ms.toNat
  s!"{t.d.year},{t.d.month},{t.d.day},{t.d.hour},{t.d.min},{t.d.sec},{t.ms}"

def showOut {α} (sh : α → String) (ms : α → Int) : Except Err (List (Fix α) × List String) → String
  | .error e => showErr e
  | .ok (pts, feats) =>
    "ok " ++ joinWith ";" (pts.map fun p => s!"{sh p.x},{sh p.y},{sh p.z},{sh p.t},{showStamp (ms p.t)}")
      ++ "|" ++ joinWith "," feats

def run {α} [Add α] [Sub α] [Mul α] [Div α] [LT α] [LE α] [DecidableLT α] [DecidableLE α]
    [OfNat α 0] [NatCast α] (num? : String → Option α) (sh : α → String) (ms : α → Int)
    (sqrt : α → α) (trunc : α → Int) (args : List String) : String :=
  match args with
  | [pts, mode, delta, npts, factor, g] =>
    match fixes? num? pts, mode.toNat?, delta? num? delta, optNat? npts, factor.toNat?, num? g with
    | some P, some mode, some d, some n, some f, some g =>
      showOut sh ms (resample sqrt trunc g P [] ⟨mode, d, n, f⟩)
    | _, _, _, _, _, _ => "bad-request"
  | _ => "bad-request"

/-- radicands the rational run will take square roots of -/
def radicands (P : List (Fix Rat)) (need3D : Bool) : List Rat :=
  legs2D id P ++ (if need3D then legs3D id P else [])

def handle (cmd : String) (args : List String) : String :=
  match cmd, args with
  | "resample", "q" :: rest =>
    match rest with
    | pts :: mode :: delta :: _ =>
      match fixes? rat? pts with
      | some P =>
        if (radicands P (mode == "1" && delta == "none")).all (fun r => (ratSqrt? r).isSome) then
          run rat? showRat (fun t => (t * 1000).floor) (fun r => (ratSqrt? r).getD 0) ratTrunc rest
        else "inexact"
      | none => "bad-request"
    | _ => "bad-request"
  | "resample", "f" :: rest =>
    run float? showFloat (fun t => floatTrunc (t * 1000)) Float.sqrt floatTrunc rest
  | _, _ => "bad-request"
end TV.Drv.C05
