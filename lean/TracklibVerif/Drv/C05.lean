import TracklibVerif.Model.Resample
import TracklibVerif.Model.ObsTime
import TracklibVerif.Model.ObsTimeG
import TracklibVerif.Drv.Util
/-! Driver handler for C05 (linear resampling). One command:

  call <q|f> <via> <g> <tracks> <mode> <delta> <npts> <factor>
     via    : `resample` (Track.resample) | `interp` (interpolation.resample) | `floordiv` (track // ref, delta = `track:…`)
              | `pow` (track ** npts) | `mul` (track * factor) | `sample` (interpolation.sample, delta = `list:t`)
              | `sync` (synchronize of the two tracks) | `syncself` (synchronize(track, track))
              | `coll` (TrackCollection.resample) | `collfloordiv` (collection // ref, delta = `track:…`)
     g      : the guard constant 1+1e-8
     tracks : `<track>|<track>|…`, a track is `<pts>^<features>` with pts `x,y,z,t;x,y,z,t;…` (t = toAbsTime() in seconds)
              and features `name,name,…`
     mode   : 1 spatial, 2 temporal (any other number: no resampling)
     delta  : `none` | `num:<δ>` | `list:<t,t,…>` | `track:<t,t,…>` (a reference track, given by its stamps) | `other`
     npts   : `none` | n ;  factor : n
  reply  : `ok <track>#<track>…`, a track being `<points>|<features>` with points `x,y,z,t,<stampOf>,<stampG>;…`
           (`<stampOf>` = `Y,M,D,h,m,s,ms`: the C03 integer model applied to ⌊1000·t⌋, `neg` before 1970;
            `<stampG>` = `Y,M,D,h,m,s,ms`: `ObsTime.readUnixTime(t)` mirrored operation for operation on the scalar `t` -- C03's
            `readUnixG` at ℚ / at IEEE doubles, `nofuel` for NaN / infinity) or `err:index` / `err:zerodiv` /
           `err:nonterm` / `err:type`.
  `q`: scalars are rationals `p/q`, square roots must be exact (else `inexact`); `f`: IEEE doubles as bit patterns. -/
namespace TV.Drv.C05
open TV.Resample TV.Drv

instance : NatCast Float := ⟨Float.ofNat⟩
local instance : IntCast Float := ⟨Float.ofInt⟩

def ratTrunc (r : Rat) : Int := if r < 0 then -((-r).floor) else r.floor
def floatTrunc (f : Float) : Int := f.toInt64.toInt

def natSqrt? (n : Nat) : Option Nat := let r := Nat.sqrt n; if r * r = n then some r else none
def ratSqrt? (r : Rat) : Option Rat :=
  if r < 0 then none else
  match natSqrt? r.num.toNat, natSqrt? r.den with
  | some a, some b => some ((a : Rat) / (b : Rat))
  | _, _ => none

def fixes? {α} (num? : String → Option α) (s : String) : Option (List (Fix α)) :=
  (splitTok s ';').mapM fun tok =>
    match (splitTok tok ',').mapM num? with
    | some [x, y, z, t] => some ⟨x, y, z, t⟩
    | _ => none

def optNat? (s : String) : Option (Option Nat) :=
  if s == "none" then some none else s.toNat?.map some

def delta? {α} [OfNat α 0] (num? : String → Option α) (s : String) : Option (Option (Step α)) :=
  if s == "none" then some none
  else if s == "other" then some (some .other)
  else match s.splitOn ":" with
    | ["num", v] => (num? v).map (fun d => some (.number d))
    | ["list", l] => ((splitTok l ',').mapM num?).map (fun l => some (.instants l))
    | ["track", l] => ((splitTok l ',').mapM num?).map (fun l => some (.track (l.map fun t => ⟨0, 0, 0, t⟩)))
    | _ => none

def track? {α} (num? : String → Option α) (s : String) : Option (List (Fix α) × List String) :=
  match s.splitOn "^" with
  | [pts, feats] => (fixes? num? pts).map (fun P => (P, splitTok feats ','))
  | _ => none

def tracks? {α} (num? : String → Option α) (s : String) : Option (List (List (Fix α) × List String)) :=
  (splitTok s '|').mapM (track? num?)

def showErr : Err → String
  | .index => "err:index" | .zerodiv => "err:zerodiv" | .nonterm => "err:nonterm" | .type => "err:type"

def showStamp : Option TV.ObsTime.Stamp → String
  | none => "neg"
  | some t => s!"{t.d.year},{t.d.month},{t.d.day},{t.d.hour},{t.d.min},{t.d.sec},{t.ms}"

def showStampG : Option TV.ObsTime.StampZ → String
  | none => "nofuel"
  | some t => s!"{t.year},{t.month},{t.day},{t.hour},{t.min},{t.sec},{t.ms}"

/-- the two printers of a scalar's stamp: `stampOf` (⌊1000·t⌋ through the integer reader) and `stampG` (the mirrored reader) -/
structure Stamper (α : Type) where
  ms : α → Int
  g : α → Option TV.ObsTime.StampZ

def showTrack {α} (sh : α → String) (st : Stamper α) (r : List (Fix α) × List String) : String :=
  joinWith ";" (r.1.map fun p =>
      s!"{sh p.x},{sh p.y},{sh p.z},{sh p.t},{showStamp (stampOf st.ms p.t)},{showStampG (st.g p.t)}")
    ++ "|" ++ joinWith "," r.2

def showOut {α} (sh : α → String) (ms : Stamper α) : Except Err (List (List (Fix α) × List String)) → String
  | .error e => showErr e
  | .ok rs => "ok " ++ "#".intercalate (rs.map (showTrack sh ms))

def one {α} (r : Except Err (List (Fix α) × List String)) : Except Err (List (List (Fix α) × List String)) :=
  match r with
  | .ok t => .ok [t]
  | .error e => .error e

def run {α} [Add α] [Sub α] [Mul α] [Div α] [LT α] [LE α] [DecidableLT α] [DecidableLE α]
    [OfNat α 0] [NatCast α] (num? : String → Option α) (sh : α → String) (ms : Stamper α)
    (sqrt : α → α) (trunc : α → Int) (args : List String) : String :=
  match args with
  | [via, g, tracks, mode, delta, npts, factor] =>
    match num? g, tracks? num? tracks, mode.toNat?, delta? num? delta, optNat? npts, factor.toNat? with
    | some g, some trs, some mode, some d, some n, some f =>
      match via, trs, d, n with
      | "resample", [(P, ft)], d, n => showOut sh ms (one (resample sqrt trunc g P ft ⟨mode, d, n, f⟩))
      | "interp", [(P, ft)], some d, _ => showOut sh ms (one (interpResample sqrt trunc P ft mode d))
      | "floordiv", [(P, ft)], some (.track Q), _ => showOut sh ms (one (floordiv sqrt trunc g P ft Q))
      | "pow", [(P, ft)], _, some n => showOut sh ms (one (pow sqrt trunc g P ft n))
      | "mul", [(P, ft)], _, _ => showOut sh ms (one (mulNumber sqrt trunc g P ft f))
      | "sample", [(P, _)], some (.instants [t]), _ =>
        showOut sh ms (match sample sqrt trunc P t with | .ok o => .ok [([o], [])] | .error e => .error e)
      | "sync", [(P1, f1), (P2, f2)], _, _ =>
        showOut sh ms (match synchronize sqrt trunc g P1 P2 f1 f2 with
          | .ok (r1, r2) => .ok [r1, r2] | .error e => .error e)
      | "syncself", [(P, ft)], _, _ => showOut sh ms (one (synchronizeSelf sqrt trunc g P ft))
      | "coll", trs, some d, _ => showOut sh ms (collResample sqrt trunc g trs mode d)
      | "collfloordiv", trs, some (.track Q), _ => showOut sh ms (collFloordiv sqrt trunc g trs Q)
      | _, _, _, _ => "bad-request"
    | _, _, _, _, _, _ => "bad-request"
  | _ => "bad-request"

def handle (cmd : String) (args : List String) : String :=
  match cmd, args with
  | "call", "q" :: rest =>
    match rest with
    | [via, _, tracks, mode, delta, _, _] =>
      match tracks? rat? tracks with
      | some trs =>
        -- the 3D legs are needed only where `Track.length()` is called: spatial mode without a step
        let need3D := mode == "1" && delta == "none" || via == "mul"
        let rads := trs.flatMap fun tr => legs2D id tr.1 ++ (if need3D then legs3D id tr.1 else [])
        if rads.all (fun r => (ratSqrt? r).isSome) then
          run rat? showRat ⟨fun t => (t * 1000).floor, stampG ratTrunc⟩ (fun r => (ratSqrt? r).getD 0) ratTrunc rest
        else "inexact"
      | none => "bad-request"
    | _ => "bad-request"
  | "call", "f" :: rest =>
    run float? showFloat
      ⟨fun t => floatTrunc (t * 1000), fun t => if t.isNaN || t.isInf then none else stampG floatTrunc t⟩ Float.sqrt floatTrunc rest
  | _, _ => "bad-request"
end TV.Drv.C05
