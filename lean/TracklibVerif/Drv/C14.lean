import TracklibVerif.Model.GeoHeap
import TracklibVerif.Drv.Util
/-! Driver handler for C14 (coordinate conversions), the model instantiated at `Float`.
Floats are IEEE bit patterns. A point is three tokens; a base is four tokens `G|E x y z`.
  const                              → pi Re Fe lambE lambXp lambYp lambN lambC lambLambda0   (literals as the model reads them)
  pt <p:3> <base:4> <base2:4>        → 27 floats: ecef, geo(ecef), enu(p,base), geo(enu,base), enu(ecef,base),
                                        ecef(enu(ecef,base),base), enu(base,base), enu→enu(base,base2), geo(that, base2)
  g2e|e2g|l93|il93 <p:3>             → 3 floats
  e2n|n2e|g2n|n2g <p:3> <base:4>     → 3 floats
  n2n <p:3> <base:4> <base2:4>       → 3 floats
  lamb <p:3>                         → 9 floats: L93(p), inverse of it, L93 of that
  resid <lat0> <dlat> <n> <h0> <dh> <m>   the residual of Geo → ECEF → Geo in the meridian plane (`meridianRoundTrip`) on the grid
                                     lat0 + i·dlat (i < n) × h0 + j·dh (j < m) → 6 floats: max |lat' − lat| and where (lat, h),
                                     max |h' − h| and where (lat, h)
  track <G|N|E> <x,y,z;…> <barg> <op:barg>…   with barg = _ | G,x,y,z | E,x,y,z | S,n and op ∈ ENU GEO ECEF PROJ
                                     → per op `<kind> <pts> <barg>`; the first error ends the reply with `err:<kind>`
  hist <op>…                         a history on the object heap of `Model/GeoHeap.lean`. Values: `_` (None) | `S<n>` (int) |
                                     `o<k>` (the k-th object created by a `new`/`call`/`tif` op) | `t<k>p<i>` (the object that is now
                                     the i-th position of track k) | `t<k>b` (what `Track.base` of track k is now).
                                     Ops: `new:<G|N|E>:x,y,z` | `set:<val>:<0|1|2>:x` | `call:<val>:<ECEF|ENU|GEO|PROJ>:<val>/…|-`
                                     | `mk:<val>/…|-:<val>` | `tc:<k>:<ECEF|ENU|GEO|PROJ>:<val>` | `tif:<k>` (toENUCoordsIfNeeded;
                                     the result index is the returned base, `_` for None)
                                     → per op `<result index|_>|<new objects K,x,y,z;…|_>|<changed old objects i,x,y,z;…|_>|
                                     <track: p1,p2,…|-~base|_>` with base = `_` | `S,n` | `R,index`; the first error ends the
                                     reply with `err:<kind>` -/
namespace TV.Drv.C14
open TV.Geo TV.Drv

def FT := floatTrig

def showV (v : V3 Float) : String := s!"{showFloat v.x} {showFloat v.y} {showFloat v.z}"

def v3? : List Float → Option (V3 Float × List Float)
  | x :: y :: z :: rest => some (⟨x, y, z⟩, rest)
  | _ => none

def base? : List String → Option (Base Float × List String)
  | k :: x :: y :: z :: rest => do
    let x ← float? x
    let y ← float? y
    let z ← float? z
    if k == "G" then some (.geo ⟨x, y, z⟩, rest)
    else if k == "E" then some (.ecef ⟨x, y, z⟩, rest)
    else none
  | _ => none

def pt? (args : List String) : Option (V3 Float × List String) :=
  match args with
  | x :: y :: z :: rest => do
    let x ← float? x
    let y ← float? y
    let z ← float? z
    some (⟨x, y, z⟩, rest)
  | _ => none

/-- `_` (Python None) | `G,x,y,z` | `E,x,y,z` | `S,n` -/
def barg? (s : String) : Option (Option (BaseArg Float)) :=
  if s == "_" then some none
  else match splitTok s ',' with
    | ["S", n] => n.toNat?.map (fun n => some (.srid n))
    | l =>
      match base? l with
      | some (b, []) => some (some (.pt b))
      | _ => none

def showBarg : Option (BaseArg Float) → String
  | none => "_"
  | some (.srid n) => s!"S,{n}"
  | some (.pt (.geo c)) => s!"G,{showFloat c.x},{showFloat c.y},{showFloat c.z}"
  | some (.pt (.ecef c)) => s!"E,{showFloat c.x},{showFloat c.y},{showFloat c.z}"

def kind? (s : String) : Option Kind :=
  if s == "G" then some .geo else if s == "N" then some .enu else if s == "E" then some .ecef else none
def showKind : Kind → String
  | .geo => "G" | .enu => "N" | .ecef => "E"

def showErr : Err → String
  | .exit => "err:exit" | .attr => "err:attr" | .index => "err:index" | .unmodelled => "err:unmodelled"
  | .type => "err:type" | .dangling => "bad-request"

def pts? (s : String) : Option (List (V3 Float)) := do
  let rows ← floatListList? s
  rows.mapM (fun r => match r with | [x, y, z] => some ⟨x, y, z⟩ | _ => none)

def showPts (l : List (V3 Float)) : String :=
  joinWith ";" (l.map (fun v => s!"{showFloat v.x},{showFloat v.y},{showFloat v.z}"))

def showTrack (t : Track Float) : String := s!"{showKind t.kind} {showPts t.pts} {showBarg t.base}"

def applyOp (t : Track Float) (op : String) : Option (Except Err (Track Float)) :=
  match op.splitOn ":" with
  | [name, b] =>
    if name == "PROJ" then
      match splitTok b ',' with
      | ["S", n] => n.toNat?.map (fun n => t.toProj FT n)
      | _ => none
    else do
      let arg ← barg? b
      if name == "ENU" then some (t.toENU FT arg)
      else if name == "GEO" then some (t.toGeo FT arg)
      else if name == "ECEF" then some (t.toECEF FT arg)
      else none
  | _ => none

def runOps : Track Float → List String → List String → String
  | _, [], acc => " ".intercalate acc.reverse
  | t, op :: ops, acc =>
    match applyOp t op with
    | none => "bad-request"
    | some (.error e) => " ".intercalate (showErr e :: acc).reverse
    | some (.ok t') => runOps t' ops (showTrack t' :: acc)


/-! ### histories on the object heap -/

/-- driver state: the world, and the heap indices of the objects created by `new`/`call` ops, in order -/
structure HState where
  w : World Float
  named : List Nat

def natAfter? (s : String) (pre : String) : Option Nat :=
  if s.startsWith pre then (s.drop pre.length).toString.toNat? else none

/-- `_` | `S<n>` | `o<k>` | `t<k>p<i>` | `t<k>b` -/
def val? (st : HState) (s : String) : Option Val :=
  if s == "_" then some .none
  else if s.startsWith "S" then (natAfter? s "S").map .int
  else if s.startsWith "o" then do
    let k ← natAfter? s "o"
    let i ← st.named[k]?
    some (.ref i)
  else if s.startsWith "t" then
    if s.endsWith "b" then do
      let k ← ((s.drop 1).toString.dropEnd 1).toString.toNat?
      let t ← st.w.tracks[k]?
      some t.base
    else
      match (s.drop 1).toString.splitOn "p" with
      | [a, b] => do
        let k ← a.toNat?
        let i ← b.toNat?
        let t ← st.w.tracks[k]?
        let r ← t.pts[i]?
        some (.ref r)
      | _ => none
  else none

def ref? (st : HState) (s : String) : Option Nat :=
  match val? st s with
  | some (.ref i) => some i
  | _ => none

def vals? (st : HState) (s : String) : Option (List Val) :=
  if s == "-" then some [] else (s.splitOn "/").mapM (val? st)

def meth? (s : String) : Option Meth :=
  if s == "ECEF" then some .ecef else if s == "ENU" then some .enu else if s == "GEO" then some .geo
  else if s == "PROJ" then some .proj else none

def showObj (o : Obj Float) : String := s!"{showKind o.kind},{showFloat o.v.x},{showFloat o.v.y},{showFloat o.v.z}"

def showVal : Val → String
  | .none => "_" | .int n => s!"S,{n}" | .ref i => s!"R,{i}"

def showHTrack (t : HTrack) : String :=
  (if t.pts.isEmpty then "-" else ",".intercalate (t.pts.map toString)) ++ "~" ++ showVal t.base

/-- the objects of the old heap whose class or attributes differ in the new one -/
def changedObjs : Nat → List (Obj Float) → List (Obj Float) → List String
  | i, o :: os, n :: ns =>
    let rest := changedObjs (i + 1) os ns
    if showObj o == showObj n then rest else s!"{i},{showFloat n.v.x},{showFloat n.v.y},{showFloat n.v.z}" :: rest
  | _, _, _ => []

def showStep (old new : World Float) (res : Option Nat) (trk : Option Nat) : String :=
  let r := match res with | some i => toString i | none => "_"
  let nw := joinWith ";" ((new.heap.drop old.heap.length).map showObj)
  let ch := joinWith ";" (changedObjs 0 old.heap new.heap)
  let t := match trk with
    | some k => (match new.tracks[k]? with | some t => showHTrack t | none => "_")
    | none => "_"
  s!"{r}|{nw}|{ch}|{t}"

/-- parse one op against the current state; `none` = malformed -/
def op? (st : HState) (tok : String) : Option (Op Float) :=
  match tok.splitOn ":" with
  | ["new", k, v] => do
    let k ← kind? k
    match ← floatList? v with
    | [x, y, z] => some (.new k ⟨x, y, z⟩)
    | _ => none
  | ["set", r, c, x] => do
    let i ← ref? st r
    let c ← c.toNat?
    let x ← float? x
    if c < 3 then some (.set i c x) else none
  | ["call", r, m, a] => do
    let i ← ref? st r
    let m ← meth? m
    let a ← vals? st a
    some (.call i m a)
  | ["mk", ps, b] => do
    let ps ← if ps == "-" then some [] else (ps.splitOn "/").mapM (ref? st)
    let b ← val? st b
    some (.mkTrack ps b)
  | ["tc", k, m, a] => do
    let k ← k.toNat?
    let m ← meth? m
    let a ← val? st a
    if m == .proj then (match a with | .int _ => some (.trackConv k m a) | _ => none)
    else some (.trackConv k m a)
  | ["tif", k] => k.toNat?.map .trackENUIf
  | _ => none

def runHist : HState → List String → List String → String
  | _, [], acc => " ".intercalate acc.reverse
  | st, tok :: toks, acc =>
    match op? st tok with
    | none => "bad-request"
    | some op =>
      match st.w.step FT op with
      | .error .dangling => "bad-request"
      | .error e => " ".intercalate (showErr e :: acc).reverse
      | .ok w' =>
        let n := st.w.heap.length
        let (res, trk, named) : Option Nat × Option Nat × List Nat := match op with
          | .new _ _ => (some n, none, st.named ++ [n])
          | .call _ _ _ => (some n, none, st.named ++ [n])
          | .set _ _ _ => (none, none, st.named)
          | .mkTrack _ _ => (none, some st.w.tracks.length, st.named)
          | .trackConv k _ _ => (none, some k, st.named)
          -- the returned base counts as a created object (`o<k>`); when the method returns None the entry designates nothing
          | .trackENUIf k => (if w'.heap.length > n then some n else none, some k, st.named ++ [if w'.heap.length > n then n else w'.heap.length])
        runHist ⟨w', named⟩ toks (showStep st.w w' res trk :: acc)

/-! ### the residual of Geo → ECEF → Geo on a (latitude, height) grid -/

structure ResidAcc where
  dlat : Float := 0.0
  latAt : Float := 0.0
  hAt : Float := 0.0
  dh : Float := 0.0
  latAt2 : Float := 0.0
  hAt2 : Float := 0.0

def residStep (acc : ResidAcc) (lat h : Float) : ResidAcc :=
  let (lat', h') := meridianRoundTrip FT lat h
  let e1 := (lat' - lat).abs
  let e2 := (h' - h).abs
  -- `not (e <= max)`: a NaN residual is kept as the maximum
  let acc := if !(e1 <= acc.dlat) then { acc with dlat := e1, latAt := lat, hAt := h } else acc
  if !(e2 <= acc.dh) then { acc with dh := e2, latAt2 := lat, hAt2 := h } else acc

def residGrid (lat0 dlat : Float) (n : Nat) (h0 dh : Float) (m : Nat) : ResidAcc := Id.run do
  let mut acc : ResidAcc := {}
  for i in [0:n] do
    let lat := lat0 + i.toFloat * dlat
    for j in [0:m] do
      acc := residStep acc lat (h0 + j.toFloat * dh)
  return acc

def handle (cmd : String) (args : List String) : String :=
  match cmd, args with
  | "const", [] =>
    " ".intercalate ([FT.pi, (Re : Float), (Fe : Float), (lambE : Float), (lambXp : Float), (lambYp : Float),
      (lambN : Float), (lambC : Float), (lambLambda0 : Float)].map showFloat)
  | "track", k :: p :: b :: ops =>
    match kind? k, pts? p, barg? b with
    | some k, some p, some b => runOps ⟨k, p, b⟩ ops []
    | _, _, _ => "bad-request"
  | "resid", [lat0, dlat, n, h0, dh, m] =>
    match float? lat0, float? dlat, n.toNat?, float? h0, float? dh, m.toNat? with
    | some lat0, some dlat, some n, some h0, some dh, some m =>
      let a := residGrid lat0 dlat n h0 dh m
      " ".intercalate ([a.dlat, a.latAt, a.hAt, a.dh, a.latAt2, a.hAt2].map showFloat)
    | _, _, _, _, _, _ => "bad-request"
  | "hist", ops => runHist ⟨⟨[], []⟩, []⟩ ops []
  | "pt", _ =>
    match pt? args with
    | some (g, rest) =>
      match base? rest with
      | some (b, rest) =>
        match base? rest with
        | some (b2, []) =>
          let ecef := geoToEcef FT g
          let geo2 := ecefToGeo FT ecef
          let enu := geoToEnu FT g b
          let geo3 := enuToGeo FT enu b
          let enuE := ecefToEnu FT ecef b
          let ecef2 := enuToEcef FT enuE b
          let baseEnu := match b with
            | .geo c => geoToEnu FT c b
            | .ecef c => ecefToEnu FT c b
          let enu2 := enuToEnu FT enu b b2
          let geo4 := enuToGeo FT enu2 b2
          " ".intercalate ([ecef, geo2, enu, geo3, enuE, ecef2, baseEnu, enu2, geo4].map showV)
        | _ => "bad-request"
      | none => "bad-request"
    | none => "bad-request"
  | "lamb", _ =>
    match pt? args with
    | some (g, []) =>
      let f := toLambert93 FT g
      let i := fromLambert93 FT f
      let f2 := toLambert93 FT i
      " ".intercalate ([f, i, f2].map showV)
    | _ => "bad-request"
  | _, _ =>
    match pt? args with
    | none => "bad-request"
    | some (p, rest) =>
      if cmd == "g2e" && rest.isEmpty then showV (geoToEcef FT p)
      else if cmd == "e2g" && rest.isEmpty then showV (ecefToGeo FT p)
      else if cmd == "l93" && rest.isEmpty then showV (toLambert93 FT p)
      else if cmd == "il93" && rest.isEmpty then showV (fromLambert93 FT p)
      else
        match base? rest with
        | none => "bad-request"
        | some (b, rest) =>
          if cmd == "e2n" && rest.isEmpty then showV (ecefToEnu FT p b)
          else if cmd == "n2e" && rest.isEmpty then showV (enuToEcef FT p b)
          else if cmd == "g2n" && rest.isEmpty then showV (geoToEnu FT p b)
          else if cmd == "n2g" && rest.isEmpty then showV (enuToGeo FT p b)
          else
            match base? rest with
            | some (b2, []) => if cmd == "n2n" then showV (enuToEnu FT p b b2) else "bad-request"
            | _ => "bad-request"
end TV.Drv.C14
