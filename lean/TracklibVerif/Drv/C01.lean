import TracklibVerif.Model.Features
import TracklibVerif.Drv.Util
/-! Driver handler for C01 (feature table). Commands:

  run  <xs> <ys> <zs> <ts> <op> <op> …   the model of the code (`St`: dict + rows)
  arun <xs> <ys> <zs> <ts> <op> <op> …   the specification (`ATab`: name ↦ column)

The track starts without features. Floats are IEEE bit patterns / `nan`. One op is one token, fields
separated by `:` (an empty last field = argument not given):
  create:N:s:V | create:N:l:V,V,…    update:…   setitem:…    remove:N    setobs:N:I:V
  addaf:N:const:V | addaf:N:affine:K:C | addaf:N:nextx | addaf:N:feat:SRC:K
  uvoid:int|dif:IN:OUT   bvoid:add|sub|mul:IN1:IN2:OUT   svoid:add|sub|rsub|mul:IN:V:OUT   sum:IN
  opq:COLS:CELLS:OUT:V,V,…   (operator with opaque values: column reads, cell reads, output, values written)
  rev:IN:OUT   probe:COLS:CELLS   (non-void operator: reads only)
  expr:tok,tok,…   (RPN of the expression)
Reply: one block per op, blocks separated by a space:
  outcome~ret~names~columns~rowlens~xs~ys~zs~ts
with outcome `ok` or `err:<kind>`, ret `-` | `n<v>` | `c<v,…>`, names `,`-separated in dict order,
columns `;`-separated in the same order (read through the name), rowlens = len(obs.features). -/
namespace TV.Drv.C01
open TV.Features TV.Drv

def fops : Ops Float where
  zero := 0.0
  nan := 0.0 / 0.0
  add := (· + ·)
  sub := (· - ·)
  mul := (· * ·)
  ofNat := Float.ofNat
  isNaN := Float.isNaN
  parse := fun s => s.toInt?.map Float.ofInt

def showErr : Err → String
  | .reserved => "err:reserved" | .empty => "err:empty" | .unknown => "err:unknown" | .key => "err:key"
  | .index => "err:index" | .value => "err:value" | .type => "err:type" | .exit => "err:exit"
  | .unsupported => "unsupported"

def showRet : Ret Float → String
  | .none => "-"
  | .num v => "n" ++ showFloat v
  | .col l => "c" ++ showList showFloat l

def showCol (r : Except Err (List Float)) : String :=
  match r with
  | .ok l => showList showFloat l
  | .error e => showErr e

def showOutcome (r : Except Err (Ret Float)) : String × String :=
  match r with
  | .ok v => ("ok", showRet v)
  | .error e => (showErr e, "-")

def showSt (r : Except Err (Ret Float)) (st : St Float) : String :=
  let (a, b) := showOutcome r
  let names := st.dico.map Prod.fst
  "~".intercalate [a, b, joinWith "," names,
    joinWith ";" (names.map fun n => showCol (getC fops n st).1),
    showList toString (st.rows.map List.length),
    showList showFloat st.xs, showList showFloat st.ys, showList showFloat st.zs, showList showFloat st.ts]

def showATab (r : Except Err (Ret Float)) (t : ATab Float) : String :=
  let (a, b) := showOutcome r
  let names := t.cols.map Prod.fst
  "~".intercalate [a, b, joinWith "," names,
    joinWith ";" (names.map fun n => showCol (getA fops n t).1),
    showList toString (t.xs.map fun _ => t.cols.length),
    showList showFloat t.xs, showList showFloat t.ys, showList showFloat t.zs, showList showFloat t.ts]

def name? (s : String) : Option String := if s.isEmpty then none else some s
def optName? (s : String) : Option (Option String) := some (if s.isEmpty then none else some s)

def init? (k v : String) : Option (Init Float) :=
  if k == "s" then (float? v).map .scalar
  else if k == "l" then (floatList? v).map .list
  else none

def op? (tok : String) : Option (Op Float) :=
  match tok.splitOn ":" with
  | ["create", n, k, v] => do some (.create (← name? n) (← init? k v))
  | ["update", n, k, v] => do some (.update (← name? n) (← init? k v))
  | ["setitem", n, k, v] => do some (.setItem (← name? n) (← init? k v))
  | ["remove", n] => do some (.remove (← name? n))
  | ["setobs", n, i, v] => do some (.setObs (← name? n) (← i.toNat?) (← float? v))
  | ["addaf", n, "const", v] => do some (.addAF (.const (← float? v)) (← name? n))
  | ["addaf", n, "affine", k, c] => do some (.addAF (.affine (← float? k) (← float? c)) (← name? n))
  | ["addaf", n, "nextx"] => do some (.addAF .nextX (← name? n))
  | ["addaf", n, "feat", src, k] => do some (.addAF (.feat (← name? src) (← float? k)) (← name? n))
  | ["uvoid", k, inp, out] => do
    let k ← (if k == "int" then some UOp.integrator else if k == "dif" then some UOp.differentiator else none)
    some (.unaryVoid k (← name? inp) (← optName? out))
  | ["bvoid", k, in1, in2, out] => do
    let k ← (if k == "add" then some BOp.adder else if k == "sub" then some BOp.substracter
             else if k == "mul" then some BOp.multiplier else none)
    some (.binaryVoid k (← name? in1) (← name? in2) (← optName? out))
  | ["svoid", k, inp, v, out] => do
    let k ← (if k == "add" then some SOp.adder else if k == "sub" then some SOp.substracter
             else if k == "rsub" then some SOp.revSubstracter else if k == "mul" then some SOp.multiplier else none)
    some (.scalarVoid k (← name? inp) (← float? v) (← optName? out))
  | ["sum", inp] => do some (.sum (← name? inp))
  | ["opq", cols, cells, out, vals] => do
    let cs := splitTok cols ','
    let ce := splitTok cells ','
    if cs.any String.isEmpty || ce.any String.isEmpty then none
    else some (.opaqueVoid cs ce (← name? out) (← floatList? vals))
  | ["rev", inp, out] => do some (.reverser (← name? inp) (← optName? out))
  | ["probe", cols, cells] =>
    let cs := splitTok cols ','
    let ce := splitTok cells ','
    if cs.any String.isEmpty || ce.any String.isEmpty then none else some (.probe cs ce)
  | ["expr", toks] =>
    let l := splitTok toks ','
    if l.isEmpty || l.any String.isEmpty then none else some (.expr l)
  | _ => none

def handle (cmd : String) (args : List String) : String :=
  match args with
  | xs :: ys :: zs :: ts :: ops =>
    match floatList? xs, floatList? ys, floatList? zs, floatList? ts, ops.mapM op? with
    | some xs, some ys, some zs, some ts, some ops =>
      if ys.length != xs.length || zs.length != xs.length || ts.length != xs.length then "bad-request"
      else if cmd == "run" then
        let st : St Float := { dico := [], rows := xs.map (fun _ => []), xs := xs, ys := ys, zs := zs, ts := ts }
        joinWith " " ((trace fops ops st).map fun r => showSt r.1 r.2)
      else if cmd == "arun" then
        let t : ATab Float := { cols := [], xs := xs, ys := ys, zs := zs, ts := ts }
        joinWith " " ((trace fops ops t).map fun r => showATab r.1 r.2)
      else "bad-request"
    | _, _, _, _, _ => "bad-request"
  | _ => "bad-request"
end TV.Drv.C01
