import TracklibVerif.Model.Features
import TracklibVerif.Model.FeaturesWorld
import TracklibVerif.Model.FeaturesCall
import TracklibVerif.Model.FeaturesFront
import TracklibVerif.Model.Expr
import TracklibVerif.Drv.Util
/-! Driver handler for C01 (feature table). Commands:

  run   <xs> <ys> <zs> <ts> <op> <op> …                 the model of the code (`St`: dict + rows), fresh track
  arun  <xs> <ys> <zs> <ts> <op> <op> …                 the specification (`ATab`: name ↦ column), fresh track
  runi  <xs> <ys> <zs> <ts> <names> <cols> <op> …       the same on a track that already carries a table
  aruni <xs> <ys> <zs> <ts> <names> <cols> <op> …       (names `,`-separated, columns `;`-separated, `_` = none)

  world <step> <step> …                                  several tracks on one heap of Obs objects (`Model/FeaturesWorld.lean`):
        new:XS:YS:ZS:TS         a new track of new observations (tracks are numbered 0, 1, … in order of creation)
        on:K                    the following steps are addressed to track K (no reply block)
        d:copy | d:extract:I:J | d:slice:I:J | d:span:I:J | d:loop | d:addcopy:I:POS | d:plus:K2
                                a track made from the track in focus (POS empty = addObs); `loop` / `addcopy` change the track
                                itself, the others make a new last track
        <op>                    an API call on the track in focus
    reply: one group per step (`on` excepted), groups separated by a space; a group = the blocks of ALL tracks, in order,
    separated by `^`, each carrying the outcome / returned value of the step

  vrun  <xs> <ys> <zs> <ts> <vop> <vop> …               the model of the code at V := String: every cell value is an opaque TOKEN standing for
  varun <xs> <ys> <zs> <ts> <vop> <vop> …               a Python object (None, bool, int, float, str, numpy scalar …), front ends of `Model/FeaturesFront.lean` included
        value tokens: `n<p>` | `n<p>/<q>` | `nnan` | `ninf` | `n-inf` (a number, by value), `s<hex>` (a str), `o<hex>` (any other object)
        create:N:s:V | create:N:l:V,V,… | create:N:d (no second argument) ; N = `!` is `name=None`
        setitem:N:s:V | setitem:N:l:…   (`track[N] = obs`: the token of the str "#DELETE" deletes)
        update:N:s|l:…  remove:N  setobs:N:I:V  addaf:N:const:V  rev:IN:OUT  expr:LHS,RHS,=   (calls that only MOVE values)
    reply blocks as below with tokens in place of the floats

Floats are IEEE bit patterns / `nan`. A NAME made of `[A-Za-z0-9#]+` is written as it is, any other name
(empty, blanks, operator or protocol characters, non-ASCII) as `|` followed by the hexadecimal UTF-8 bytes.
One op is one token, fields separated by `:` (an empty last field = argument not given):
  create:N:s:V | create:N:l:V,V,…    update:…   setitem:…    remove:N    setobs:N:I:V
  addaf:N:const:V | addaf:N:affine:K:C | addaf:N:nextx | addaf:N:feat:SRC:K
  uvoid:int|dif:IN:OUT   sum:IN
  bvoid:add|sub|mul|div|pow|mod|above|below:IN1:IN2:OUT
  svoid:add|sub|rsub|mul|pow|rpow|mod|rmod|above|below|rabove|rbelow:IN:V:OUT
  sk:div|rdiv|shift|shiftr:IN:V:OUT        (SCALAR_DIVIDER, SCALAR_REV_DIVIDER, SHIFT_CIRCULAR, SHIFT_CIRCULAR_REV)
  ufn:F:IN:OUT                             (unary void operator by its expression name: I D LOG ABS SQRT DIODE SIGN EXP COS SIN TAN)
  aggf:F:IN                                (SUM AVG MIN MAX ARGMIN ARGMAX, value modelled)
  abscurv | estspeed | seg:IN:OUT:THRESHOLD (computeAbsCurv, estimate_speed, segmentation with one feature and one threshold)
  opq:COLS:CELLS:OUT:V,V,…   (operator with opaque values: column reads, cell reads, output, values written)
  rev:IN:OUT   probe:COLS:CELLS   (non-void operator: reads only)
  expr:tok,tok,…   (RPN of the expression; name tokens encoded as above)
  seq;<op>;<op>;…  (list form of a void operator family, `Model/FeaturesCall.lean`: the single calls, one per position)
  refused          (list form of a value-returning unary / binary operator: TypeError)
Reply: one block per op, blocks separated by a space:
  outcome~ret~names~columns~rowlens~xs~ys~zs~ts
with outcome `ok` or `err:<kind>`, ret `-` | `n<v>` | `c<v,…>`, names `,`-separated in dict order (encoded),
columns `;`-separated in the same order (read through the name), rowlens = len(obs.features). -/
namespace TV.Drv.C01
open TV.Features TV.Drv

/-! ### Python's float arithmetic where it is not an IEEE primitive -/

def fnan : Float := 0.0 / 0.0

/-- `|x| = m · 2^e` for a finite `x` -/
def decode (x : Float) : Nat × Int :=
  let bits : Nat := x.toBits.toNat
  let frac : Nat := bits % 2 ^ 52
  let ex : Nat := (bits / 2 ^ 52) % 2048
  if ex == 0 then (frac, -1074) else (frac + 2 ^ 52, (ex : Int) - 1075)

/-- C `fmod` (exact): integer arithmetic on the decoded operands -/
def cFmod (a b : Float) : Float :=
  if a.isNaN || b.isNaN || a.isInf || b == 0.0 then fnan
  else if b.isInf then a
  else
    let (ma, ea) := decode a
    let (mb, eb) := decode b
    let e := min ea eb
    let A := ma * 2 ^ (ea - e).toNat
    let B := mb * 2 ^ (eb - e).toNat
    let r := (Float.ofNat (A % B)).scaleB e
    if a < 0.0 then -r else r

/-- CPython `float_rem` -/
def pyMod (a b : Float) : Except Err Float :=
  if b == 0.0 then .error .value
  else
    let m := cFmod a b
    if m != 0.0 then .ok (if (b < 0.0) != (m < 0.0) then m + b else m)
    else .ok (if b < 0.0 then -0.0 else 0.0)

def pyPow (a b : Float) : Except Err Float :=
  match TV.Expr.floatPow a b with
  | .ok v => .ok v
  | .error e => .error (if e == "err:zerodiv" then .value else if e == "err:OverflowError" then .value else .unsupported)

def b2f (b : Bool) : Float := if b then 1.0 else 0.0

def pyFn (f : String) (x : Float) : Except Err Float :=
  if f == "ABS" then .ok x.abs                                          -- Rectifier: `f = abs` (fix 8378be5)
  else if f == "SQRT" then (if x < 0.0 then .error .value else .ok x.sqrt)
  else if f == "DIODE" then .ok (x * b2f (x > 0.0))
  else if f == "SIGN" then .ok (b2f (x >= 0.0) - b2f (x < 0.0))
  else if f == "EXP" then
    let r := x.exp
    if r.isInf && x.isFinite then .error .value else .ok r
  else if f == "COS" then (if x.isInf then .error .value else .ok x.cos)
  else if f == "SIN" then (if x.isInf then .error .value else .ok x.sin)
  else if f == "TAN" then (if x.isInf then .error .value else .ok x.tan)
  else if f == "LOG" then .ok (if x > 0.0 then x.log else 0.0)
  else .error .unsupported

/-- start value of Min / Max / Argmin / Argmax: `float('inf')` (fix 68863c7) -/
def big : Float := 1.0 / 0.0

def argBest (better : Float → Float → Bool) (init : Float) (l : List Float) : Nat :=
  ((l.zipIdx 0).foldl (fun (acc : Float × Nat) p => if better p.1 acc.1 then (p.1, p.2) else acc) (init, 0)).2

def pyAgg (f : String) (l : List Float) : Except Err Float :=
  let v := l.filter (fun x => !x.isNaN)
  if f == "SUM" then .ok (v.foldl (· + ·) 0.0)
  else if f == "AVG" then (if v.isEmpty then .error .value else .ok (v.foldl (· + ·) 0.0 / Float.ofNat v.length))
  else if f == "MIN" then .ok (l.foldl (fun m x => if x < m then x else m) big)
  else if f == "MAX" then .ok (l.foldl (fun m x => if x > m then x else m) (-big))
  else if f == "ARGMIN" then .ok (Float.ofNat (argBest (fun x m => x < m) big l))
  else if f == "ARGMAX" then .ok (Float.ofNat (argBest (fun x m => x > m) (-big) l))
  else .error .unsupported

/-- `int((i - number) % n)` -/
def pyShiftIdx (number : Float) (i n : Nat) : Except Err Nat :=
  match pyMod (Float.ofNat i - number) (Float.ofNat n) with
  | .error e => .error e
  | .ok m => if m.isNaN then .error .value else if m.isInf then .error .value else .ok m.floor.toUInt64.toNat

def fops : Ops Float where
  zero := 0.0
  nan := fnan
  add := (· + ·)
  sub := (· - ·)
  mul := (· * ·)
  ofNat := Float.ofNat
  isNaN := Float.isNaN
  parse := fun s => s.toInt?.map Float.ofInt
  one := 1.0
  divide := (· / ·)
  eqZero := fun x => x == 0.0
  pow := pyPow
  mod := pyMod
  lt := fun a b => a < b
  fn := pyFn
  agg := pyAgg
  shiftIdx := pyShiftIdx

/-! ### names across the protocol -/

def hexDigit (n : Nat) : Char := if n < 10 then Char.ofNat (48 + n) else Char.ofNat (87 + n)
def hexVal (c : Char) : Option Nat :=
  if c.isDigit then some (c.toNat - 48) else if 'a' ≤ c ∧ c ≤ 'f' then some (c.toNat - 87) else none

def plainName (s : String) : Bool := !s.isEmpty && s.all (fun c => c.isAlphanum || c == '#')

def encName (s : String) : String :=
  if plainName s then s
  else "|" ++ String.ofList (s.toUTF8.toList.flatMap (fun b => [hexDigit (b.toNat / 16), hexDigit (b.toNat % 16)]))

def hexBytes : List Char → Option (List UInt8)
  | [] => some []
  | [_] => none
  | a :: b :: rest => do
    let x ← hexVal a
    let y ← hexVal b
    let t ← hexBytes rest
    some (UInt8.ofNat (x * 16 + y) :: t)

/-- a name field (never empty as a field: the empty name is `|`) -/
def name? (s : String) : Option String :=
  if s.isEmpty then none
  else if s.front == '|' then do
    let bytes ← hexBytes (s.drop 1).toString.toList
    String.fromUTF8? (ByteArray.mk bytes.toArray)
  else some s
def optName? (s : String) : Option (Option String) := if s.isEmpty then some none else (name? s).map some
def nameList? (s : String) : Option (List String) := (splitTok s ',').mapM name?

def showErr : Err → String
  | .reserved => "err:reserved" | .empty => "err:empty" | .unknown => "err:unknown" | .key => "err:key"
  | .index => "err:index" | .value => "err:value" | .type => "err:type" | .exit => "err:exit"
  | .unsupported => "unsupported"

def showRet : Ret Float → String
  | .none => "-"
  | .num v => "n" ++ showFloat v
  | .col l => "c" ++ showList showFloat l

def showCol (r : Except Err (List Float)) : String :=
  match r with
  | .ok l => showList showFloat l
  | .error e => showErr e

def showOutcome (r : Except Err (Ret Float)) : String × String :=
  match r with
  | .ok v => ("ok", showRet v)
  | .error e => (showErr e, "-")

def showSt (r : Except Err (Ret Float)) (st : St Float) : String :=
  let (a, b) := showOutcome r
  let names := st.dico.map Prod.fst
  "~".intercalate [a, b, joinWith "," (names.map encName),
    joinWith ";" (names.map fun n => showCol (getC fops n st).1),
    showList toString (st.rows.map List.length),
    showList showFloat st.xs, showList showFloat st.ys, showList showFloat st.zs, showList showFloat st.ts]

def showATab (r : Except Err (Ret Float)) (t : ATab Float) : String :=
  let (a, b) := showOutcome r
  let names := t.cols.map Prod.fst
  "~".intercalate [a, b, joinWith "," (names.map encName),
    joinWith ";" (names.map fun n => showCol (getA fops n t).1),
    showList toString (t.xs.map fun _ => t.cols.length),
    showList showFloat t.xs, showList showFloat t.ys, showList showFloat t.zs, showList showFloat t.ts]

def init? (k v : String) : Option (Init Float) :=
  if k == "s" then (float? v).map .scalar
  else if k == "l" then (floatList? v).map .list
  else none

def bop? (k : String) : Option BOp :=
  if k == "add" then some .adder else if k == "sub" then some .substracter else if k == "mul" then some .multiplier
  else if k == "div" then some .divider else if k == "pow" then some .power else if k == "mod" then some .modulo
  else if k == "above" then some .above else if k == "below" then some .below else none

def sop? (k : String) : Option SOp :=
  if k == "add" then some .adder else if k == "sub" then some .substracter else if k == "rsub" then some .revSubstracter
  else if k == "mul" then some .multiplier else if k == "pow" then some .power else if k == "rpow" then some .revPower
  else if k == "mod" then some .modulo else if k == "rmod" then some .revModulo else if k == "above" then some .above
  else if k == "below" then some .below else if k == "rabove" then some .revAbove else if k == "rbelow" then some .revBelow
  else none

def skind? (k : String) : Option SKind :=
  if k == "div" then some .divider else if k == "rdiv" then some .revDivider else if k == "shift" then some .shift
  else if k == "shiftr" then some .shiftRev else none

def op? (tok : String) : Option (Op Float) :=
  match tok.splitOn ":" with
  | ["create", n, k, v] => do some (.create (← name? n) (← init? k v))
  | ["update", n, k, v] => do some (.update (← name? n) (← init? k v))
  | ["setitem", n, k, v] => do some (.setItem (← name? n) (← init? k v))
  | ["remove", n] => do some (.remove (← name? n))
  | ["setobs", n, i, v] => do some (.setObs (← name? n) (← i.toNat?) (← float? v))
  | ["addaf", n, "const", v] => do some (.addAF (.const (← float? v)) (← name? n))
  | ["addaf", n, "affine", k, c] => do some (.addAF (.affine (← float? k) (← float? c)) (← name? n))
  | ["addaf", n, "nextx"] => do some (.addAF .nextX (← name? n))
  | ["addaf", n, "feat", src, k] => do some (.addAF (.feat (← name? src) (← float? k)) (← name? n))
  | ["uvoid", k, inp, out] => do
    let k ← (if k == "int" then some UOp.integrator else if k == "dif" then some UOp.differentiator else none)
    some (.unaryVoid k (← name? inp) (← optName? out))
  | ["bvoid", k, in1, in2, out] => do some (.binaryVoid (← bop? k) (← name? in1) (← name? in2) (← optName? out))
  | ["svoid", k, inp, v, out] => do some (.scalarVoid (← sop? k) (← name? inp) (← float? v) (← optName? out))
  | ["sk", k, inp, v, out] => do some (.scalarK (← skind? k) (← name? inp) (← float? v) (← optName? out))
  | ["ufn", f, inp, out] => do some (.fnVoid f (← name? inp) (← optName? out))
  | ["aggf", f, inp] => do some (.aggFn f (← name? inp))
  | ["sum", inp] => do some (.sum (← name? inp))
  | ["abscurv"] => some .absCurv
  | ["estspeed"] => some .estSpeed
  | ["seg", inp, out, thr] => do some (.segment (← name? inp) (← name? out) (← float? thr))
  | ["opq", cols, cells, out, vals] => do
    some (.opaqueVoid (← nameList? cols) (← nameList? cells) (← name? out) (← floatList? vals))
  | ["rev", inp, out] => do some (.reverser (← name? inp) (← optName? out))
  | ["probe", cols, cells] => do some (.probe (← nameList? cols) (← nameList? cells))
  | ["expr", toks] => do
    let l ← nameList? toks
    if l.isEmpty then none else some (.expr l)
  | _ => none

def call? (tok : String) : Option (Call Float) :=
  if tok == "refused" then some .refused
  else match tok.splitOn ";" with
    | "seq" :: toks => (toks.mapM op?).map .list
    | _ => (op? tok).map .one

def runFrom (cmd : String) (xs ys zs ts : List Float) (cols : List (String × List Float)) (ops : List (Call Float)) : String :=
  if ys.length != xs.length || zs.length != xs.length || ts.length != xs.length then "bad-request"
  else if cols.any (fun p => p.2.length != xs.length) || !(cols.map Prod.fst).Nodup then "bad-request"
  else if cmd == "run" || cmd == "runi" then
    joinWith " " ((traceC fops ops (mkSt cols xs ys zs ts)).map fun r => showSt r.1 r.2)
  else if cmd == "arun" || cmd == "aruni" then
    let t : ATab Float := { cols := cols, xs := xs, ys := ys, zs := zs, ts := ts }
    joinWith " " ((traceC fops ops t).map fun r => showATab r.1 r.2)
  else "bad-request"


/-! ### the instance at opaque values: V := String, one token per Python object -/

/-- a value token: `n…` (number), `s…` (str), `o…` (other object) -/
def vtok? (s : String) : Option String :=
  if s.isEmpty then none
  else if (s.front == 'n' && s.length > 1) || s.front == 's' || (s.front == 'o' && s.length > 1) then some s else none
def vtokList? (s : String) : Option (List String) := (splitTok s ',').mapM vtok?

/-- `Ops` on tokens. The calls admitted by `vop?` only move values (create / update / bracket / setObs / remove / a constant
algorithm / REVERSER / the copy `lhs=rhs`): `add sub mul` are never reached; their value `?` is not a value token. -/
def vops : Ops String where
  zero := "n0"
  nan := "nnan"
  add := fun _ _ => "?"
  sub := fun _ _ => "?"
  mul := fun _ _ => "?"
  ofNat := fun i => "n" ++ toString i
  isNaN := fun v => v == "nnan"
  parse := fun s => s.toInt?.map (fun i => "n" ++ toString i)

/-- the token of the str `"#DELETE"` (`s` + hex of its UTF-8 bytes) -/
def deleteTok : String := "s2344454c455445"
def isDeleteTok (v : String) : Bool := v == deleteTok

def vinit? (k v : String) : Option (Init String) :=
  if k == "s" then (vtok? v).map .scalar
  else if k == "l" then (vtokList? v).map .list
  else none

/-- `!` = the Python `None` given as a name -/
def nameOrNone? (s : String) : Option (Option String) := if s == "!" then some none else (name? s).map some

def vop? (tok : String) : Option (FCall String) :=
  match tok.splitOn ":" with
  | ["create", n, "d"] => do some (.create (← nameOrNone? n) none)
  | ["create", n, k, v] => do some (.create (← nameOrNone? n) (some (← vinit? k v)))
  | ["setitem", n, k, v] => do some (.bracket (← name? n) (← vinit? k v))
  | ["update", n, k, v] => do some (.api (.one (.update (← name? n) (← vinit? k v))))
  | ["remove", n] => do some (.api (.one (.remove (← name? n))))
  | ["setobs", n, i, v] => do some (.api (.one (.setObs (← name? n) (← i.toNat?) (← vtok? v))))
  | ["addaf", n, "const", v] => do some (.api (.one (.addAF (.const (← vtok? v)) (← name? n))))
  | ["rev", inp, out] => do some (.api (.one (.reverser (← name? inp) (← optName? out))))
  | ["expr", toks] => do
    let l ← nameList? toks
    match l with
    | [_, _, "="] => some (.api (.one (.expr l)))
    | _ => none
  | _ => none

def showRetV : Ret String → String
  | .none => "-"
  | .num v => "n" ++ v
  | .col l => "c" ++ showList id l

def showColV (r : Except Err (List String)) : String :=
  match r with
  | .ok l => showList id l
  | .error e => showErr e

def showOutcomeV (r : Except Err (Ret String)) : String × String :=
  match r with
  | .ok v => ("ok", showRetV v)
  | .error e => (showErr e, "-")

def showStV (r : Except Err (Ret String)) (st : St String) : String :=
  let (a, b) := showOutcomeV r
  let names := st.dico.map Prod.fst
  "~".intercalate [a, b, joinWith "," (names.map encName),
    joinWith ";" (names.map fun n => showColV (getC vops n st).1),
    showList toString (st.rows.map List.length),
    showList id st.xs, showList id st.ys, showList id st.zs, showList id st.ts]

def showATabV (r : Except Err (Ret String)) (t : ATab String) : String :=
  let (a, b) := showOutcomeV r
  let names := t.cols.map Prod.fst
  "~".intercalate [a, b, joinWith "," (names.map encName),
    joinWith ";" (names.map fun n => showColV (getA vops n t).1),
    showList toString (t.xs.map fun _ => t.cols.length),
    showList id t.xs, showList id t.ys, showList id t.zs, showList id t.ts]

def runV (cmd : String) (xs ys zs ts : List String) (ops : List (FCall String)) : String :=
  if ys.length != xs.length || zs.length != xs.length || ts.length != xs.length then "bad-request"
  else if cmd == "vrun" then
    joinWith " " ((traceF vops isDeleteTok ops (mkSt [] xs ys zs ts)).map fun r => showStV r.1 r.2)
  else
    let t : ATab String := { cols := [], xs := xs, ys := ys, zs := zs, ts := ts }
    joinWith " " ((traceF vops isDeleteTok ops t).map fun r => showATabV r.1 r.2)

def showSys (r : Except Err (Ret Float)) (s : Sys Float) : String :=
  "^".intercalate ((List.range s.trks.length).map fun k =>
    match s.focus k with
    | some w => showSt r (view w)
    | none => "?")

def derive? (f : List String) : Option Derive :=
  match f with
  | ["copy"] => some .copy
  | ["extract", i, j] => do some (.extract (← i.toNat?) (← j.toNat?))
  | ["slice", i, j] => do some (.slice (← i.toNat?) (← j.toNat?))
  | ["span", i, j] => do some (.span (← i.toNat?) (← j.toNat?))
  | ["loop"] => some .loopAdd
  | ["addcopy", i, pos] => do some (.addCopy (← i.toNat?) (← (if pos.isEmpty then some none else pos.toNat?.map some)))
  | ["plus", k] => do some (.plus (← k.toNat?))
  | _ => none

/-- one step of a `world` session: the system, the track in focus and the reply groups so far (in reverse) -/
def worldStep (acc : Sys Float × Nat × List String) (tok : String) : Option (Sys Float × Nat × List String) :=
  let (s, cur, out) := acc
  match tok.splitOn ":" with
  | ["new", xs, ys, zs, ts] => do
    let xs ← floatList? xs
    let ys ← floatList? ys
    let zs ← floatList? zs
    let ts ← floatList? ts
    if ys.length != xs.length || zs.length != xs.length || ts.length != xs.length then none
    else
      let s' := s.newTrack xs ys zs ts
      some (s', cur, showSys (.ok .none) s' :: out)
  | ["on", k] => do
    let k ← k.toNat?
    if k < s.trks.length then some (s, k, out) else none
  | "d" :: f => do
    let d ← derive? f
    match s.derive fops d cur with
    | .ok (s', _) => some (s', cur, showSys (.ok .none) s' :: out)
    | .error e => some (s, cur, showSys (.error e) s :: out)
  | _ => do
    let c ← call? tok
    let w ← s.focus cur
    let r := call fops c w
    let s' := s.store cur r.2
    some (s', cur, showSys r.1 s' :: out)

def handle (cmd : String) (args : List String) : String :=
  if cmd == "world" then
    match args.foldlM worldStep (({ heap := [], trks := [] } : Sys Float), 0, []) with
    | some (_, _, out) => joinWith " " out.reverse
    | none => "bad-request"
  else if cmd == "vrun" || cmd == "varun" then
    match args with
    | xs :: ys :: zs :: ts :: ops =>
      match vtokList? xs, vtokList? ys, vtokList? zs, vtokList? ts, ops.mapM vop? with
      | some xs, some ys, some zs, some ts, some ops => runV cmd xs ys zs ts ops
      | _, _, _, _, _ => "bad-request"
    | _ => "bad-request"
  else
  if cmd == "run" || cmd == "arun" then
    match args with
    | xs :: ys :: zs :: ts :: ops =>
      match floatList? xs, floatList? ys, floatList? zs, floatList? ts, ops.mapM call? with
      | some xs, some ys, some zs, some ts, some ops => runFrom cmd xs ys zs ts [] ops
      | _, _, _, _, _ => "bad-request"
    | _ => "bad-request"
  else if cmd == "runi" || cmd == "aruni" then
    match args with
    | xs :: ys :: zs :: ts :: names :: cols :: ops =>
      match floatList? xs, floatList? ys, floatList? zs, floatList? ts, nameList? names, floatListList? cols, ops.mapM call? with
      | some xs, some ys, some zs, some ts, some names, some cols, some ops =>
        if names.length != cols.length then "bad-request" else runFrom cmd xs ys zs ts (names.zip cols) ops
      | _, _, _, _, _, _, _ => "bad-request"
    | _ => "bad-request"
  else "bad-request"
end TV.Drv.C01
