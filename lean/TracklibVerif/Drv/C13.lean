import TracklibVerif.Model.TextIO
import TracklibVerif.Model.TextIOSession
import TracklibVerif.Drv.Util
/-! Driver handler for C13 (text writers / readers). Strings cross the boundary as lower-case hex of
their character codes (`_` = empty string); a separator as its character code.

  fix  <w> <d> <n>                      → hex("{:w.df}")  m/d of float(strip(...))
  time <pfmt> <rfmt> Y M D h m s ms     → hex(str(t))  then `Y M D h m s ms` read back, or `none`
  csv  <geo> <idE> <idN> <idU> <idT> <sep> <h> <hdrR> <pfmt> <rfmt> <naf> <rows> <srid> <names> [<readAll>]
       rows: `x,y,z,Y,M,D,h,m,s,ms[,af…];…`   af: `<int>` | `D<n>:<d>` (float n/10^d) | `S<hex>` (str) | `nan` | `inf` | `-inf`
                                        → W:<hex text>|werr:<kind>   R:ok <rows>|err:<kind>
                                          with readAll = 1:  R:ok <rows> A:<names>|<values> (or R:err:<kind>)
                                          with readAll = 2:  written through the front end TrackWriter.writeToCsv
                                          with readAll = 3:  written by writeToFile(track, path) with default arguments
  csvdir <geo> <idE> <idN> <idU> <idT> <sep> <h> <hdrR> <pfmt> <rfmt> <tracks> <srid>    tracks: `<rows>|<rows>…` (`_` = no row)
       writeToCsv(collection, dir, format) then readFromCsv(dir, …) with the files listed in the order written
                                        → W:<hex>|<hex>… R:ok <rows>|<rows>… (or werr:/err:)
  wktfile <sep> <hdr> <hdrR> <quoted> <dq> <blank> <pw> <pu> <pt> <iu> <it> <d> <tracks>   tracks: `uid,tid,x:y|x:y…;…` (ids in hex)
       the file a user writes with sep.join([...track.toWKT()...]) read by readFromWkt(path, pw, iu, it, sep, hdrR, doublequote=dq)
                                        → W:<hex> R:ok uid,tid,x:y:z|…;… (uid / tid `-` when not read) | R:err:<kind>
  gpxc <geo> <rfmt> <names> <tracks>    writeToGpx(collection, file): names `<hex>,…`, tracks `<rows>|<rows>…` → as `gpx`
       read rows: `xm/xd,ym/yd,zm/zd,Y,M,D,h,m,s,ms;…`
       names `<hex>,…`; values `v,…;…` per observation, v: `m/d` | `nan` | `inf` | `-inf` | `S<hex>`
  net  <sep> <h> <hdrR> <d> <posDir> <edges>     edges: `id,src,tgt,orient,x:y|x:y…;…` (ids in hex)
                                        → W:<hex> R:ok <edges> N:<nodes> | R:err:<kind>
  wkt  <d> <pts>   pts: `x:y|x:y…` (x, y: `[-]mag`, `-0` the negative zero; the floats ±mag/10^d of any magnitude)
                                        → W:<hex> R:ok x:y:z|… | R:err:<kind>
  gpx  <geo> <rfmt> <name> <rows>       → W:<hex> R:ok <track>|<track> | R:err:<kind>
  wktparse <hex text>                   → ok x:y:z|… | err:<kind>        (TrackReader.parseWkt on any text)
  gpxaf <geo> <rfmt> <name> <naf> <names> <rows>   the same with `af=True`: names `<hex>,…`, rows with af tokens
  sess <op>~<op>…   a session on the class-level state of ObsTime (Model/TextIOSession.lean), from the state of the class body.
       ops: `R:<hex>` setReadFormat  `P:<hex>` setPrintFormat  `p:<Y,M,D,h,m,s,ms>` str(t)  `r:<hex>` readTimestamp(text)
            `l:` readTimestamp(last printed text)  `z:<stamp>` timeWithZone
            `c:<geo>/<idE>/<idN>/<idU>/<idT>/<sep>/<h>/<hdrR>/<hex srid>/<rows>` writeToFile then readFromCsv (rows `;`-joined)
            `g:<hex name>/<rows>` writeToGpx(track)
                                        → per op `<out> @ <hex read fmt>,<hex print fmt>,<precompiled list>` joined by ` ## `;
                                          out: `-` | `T<hex>` | `F<hex>` | `S<stamp>` | `Snone` | the reply of `csv` -/
namespace TV.Drv.C13
open TV.TextIO TV.ObsTime TV.Drv

def hexDigit (n : Nat) : Char := if n < 10 then Char.ofNat (48 + n) else Char.ofNat (87 + n)
def toHex (s : Str) : String :=
  if s.isEmpty then "_" else String.ofList (s.flatMap (fun c => [hexDigit (c.toNat / 16 % 16), hexDigit (c.toNat % 16)]))

def hexVal? (c : Char) : Option Nat :=
  if '0' ≤ c ∧ c ≤ '9' then some (c.toNat - 48)
  else if 'a' ≤ c ∧ c ≤ 'f' then some (c.toNat - 87) else none
def unhexL : List Char → Option Str
  | [] => some []
  | [_] => none
  | a :: b :: r => do
    let x ← hexVal? a
    let y ← hexVal? b
    let rest ← unhexL r
    pure (Char.ofNat (x * 16 + y) :: rest)
def unhex? (s : String) : Option Str := if s == "_" then some [] else unhexL s.toList

def showDec (v : Dec) : String := s!"{v.1}/{v.2}"
def showStampC (t : Stamp) : String :=
  s!"{t.d.year},{t.d.month},{t.d.day},{t.d.hour},{t.d.min},{t.d.sec},{t.ms}"
def showRRow (r : RRow) : String := s!"{showDec r.x},{showDec r.y},{showDec r.z},{showStampC r.t}"
def showV3 (p : Dec × Dec × Dec) : String := s!"{showDec p.1}:{showDec p.2.1}:{showDec p.2.2}"

def stampOf? : List Int → Option Stamp
  | [y, m, d, h, mi, s, ms] =>
    if 0 ≤ y ∧ 0 ≤ m ∧ 0 ≤ d ∧ 0 ≤ h ∧ 0 ≤ mi ∧ 0 ≤ s ∧ 0 ≤ ms then
      some ⟨⟨y.toNat, m.toNat, d.toNat, h.toNat, mi.toNat, s.toNat⟩, ms.toNat⟩
    else none
  | _ => none

/-- `-0` is the negative zero -/
def snum? (s : String) : Option SNum :=
  match s.toList with
  | '-' :: r => (String.ofList r).toNat?.map (fun m => ⟨true, m⟩)
  | _ => s.toNat?.map (fun m => ⟨false, m⟩)

def afOf? (s : String) : Option AFVal :=
  match s.toList with
  | 'D' :: r =>
    match splitTok (String.ofList r) ':' with
    | [n, d] => do
      let n ← n.toInt?
      let d ← d.toNat?
      pure (.dec d n)
    | _ => none
  | 'S' :: r => (unhex? (String.ofList r)).map AFVal.str
  | _ => if s == "nan" then some .nan else if s == "inf" then some (.inf false) else if s == "-inf" then some (.inf true)
         else s.toInt?.map AFVal.int

def showAF : AFRead → String
  | .num v => showDec v
  | .nan => "nan"
  | .inf neg => if neg then "-inf" else "inf"
  | .str s => "S" ++ toHex s

def rowOf? (naf : Nat) (s : String) : Option (Row × List AFVal) :=
  match splitTok s ',' with
  | x :: y :: z :: rest =>
    if rest.length = 7 + naf then do
      let x ← snum? x
      let y ← snum? y
      let z ← snum? z
      let r ← (rest.take 7).mapM String.toInt?
      let t ← stampOf? r
      let afs ← (rest.drop 7).mapM afOf?
      pure (⟨x, y, z, t⟩, afs)
    else none
  | _ => none

def sepOf? (s : String) : Option Char := s.toNat?.bind (fun n => if n < 128 ∧ n ≠ 10 then some (Char.ofNat n) else none)

def ptOf? (s : String) : Option Pt :=
  match (splitTok s ':').mapM snum? with
  | some [x, y] => some (x, y)
  | _ => none

def edgeOf? (s : String) : Option NEdge :=
  match splitTok s ',' with
  | [i, a, b, o, g] => do
    let i ← unhex? i
    let a ← unhex? a
    let b ← unhex? b
    let o ← o.toInt?
    let g ← (splitTok g '|').mapM ptOf?
    pure ⟨i, a, b, o, g⟩
  | _ => none

def showREdge (e : REdge) : String :=
  s!"{toHex e.id},{toHex e.src},{toHex e.tgt},{e.orient},{joinWith "|" (e.geom.map showV3)}"

def handleCsv (geo ie iN iu it sep h hr pf rf naf rows srid names ra : String) : String :=
  match geo.toNat?, ie.toInt?, iN.toInt?, iu.toInt?, it.toInt?, sepOf? sep, h.toNat?, hr.toNat? with
  | some geo, some ie, some iN, some iu, some it, some sep, some h, some hr =>
    match unhex? pf, unhex? rf, naf.toNat?, unhex? srid, (splitTok names ',').mapM unhex? with
    | some pf, some rf, some naf, some srid, some names =>
      match (splitTok rows ';').mapM (rowOf? naf) with
      | some rws =>
        if ie < -1 ∨ iN < -1 ∨ iu < -1 ∨ it < -1 then "bad-request" else
        let f : CsvFmt := ⟨ie, iN, iu, it, sep⟩
        match (if ra == "2" then writeToCsv f (geo == 1) (tokenize pf) h (rws.map (fun x => x.1)) srid
                 else if ra == "3" then writeToFileDefault (geo == 1) (tokenize pf) (rws.map (fun x => x.1)) srid
                 else writeToFile f (geo == 1) (tokenize pf) h naf rws srid names) with
        | .error e => s!"werr:{e} R:none"
        | .ok text =>
          let r := if ra == "1" then
              match readCsvAll f (tokenize rf) hr text with
              | .ok (rs, nms, fs) => "ok " ++ joinWith ";" (rs.map showRRow) ++ " A:" ++ joinWith "," (nms.map toHex) ++ "|"
                  ++ joinWith ";" (fs.map (fun (l : List AFRead) => joinWith "," (l.map showAF)))
              | .error e => s!"err:{e}"
            else match readCsv f (tokenize rf) hr text with
              | .ok rs => "ok " ++ joinWith ";" (rs.map showRRow)
              | .error e => s!"err:{e}"
          s!"W:{toHex text} R:{r}"
      | none => "bad-request"
    | _, _, _, _, _ => "bad-request"
  | _, _, _, _, _, _, _, _ => "bad-request"

def trackOf? (s : String) : Option (List Row) :=
  if s == "_" then some [] else ((splitTok s ';').mapM (rowOf? 0)).map (fun l => l.map (fun x => x.1))

def handleCsvDir (geo ie iN iu it sep h hr pf rf tracks srid : String) : String :=
  match geo.toNat?, ie.toInt?, iN.toInt?, iu.toInt?, it.toInt?, sepOf? sep, h.toNat?, hr.toNat? with
  | some geo, some ie, some iN, some iu, some it, some sep, some h, some hr =>
    match unhex? pf, unhex? rf, unhex? srid, (splitTok tracks '|').mapM trackOf? with
    | some pf, some rf, some srid, some trks =>
      if ie < -1 ∨ iN < -1 ∨ iu < -1 ∨ it < -1 then "bad-request" else
      let f : CsvFmt := ⟨ie, iN, iu, it, sep⟩
      match writeToCsvColl f (geo == 1) (tokenize pf) h trks srid with
      | .error e => s!"werr:{e} R:none"
      | .ok texts =>
        let r := match readCsvDir f (tokenize rf) hr texts with
          | .ok ts => "ok " ++ joinWith "|" (ts.map (fun (t : List RRow) => if t.isEmpty then "_" else joinWith ";" (t.map showRRow)))
          | .error e => s!"err:{e}"
        s!"W:{joinWith "|" (texts.map toHex)} R:{r}"
    | _, _, _, _ => "bad-request"
  | _, _, _, _, _, _, _, _ => "bad-request"

def wtrackOf? (s : String) : Option (Str × Str × List Pt) :=
  match splitTok s ',' with
  | [u, t, g] => do
    let u ← unhex? u
    let t ← unhex? t
    let g ← (splitTok g '|').mapM ptOf?
    pure (u, t, g)
  | _ => none

def showOptStr : Option Str → String
  | none => "-"
  | some s => toHex s

def stampTok? (s : String) : Option Stamp := (intList? s).bind stampOf?

def sopOf? (s : String) : Option SOp :=
  match splitTok s ':' with
  | [k, a] =>
    if k == "R" then (unhex? a).map SOp.setRead
    else if k == "P" then (unhex? a).map SOp.setPrint
    else if k == "p" then (stampTok? a).map SOp.print
    else if k == "r" then (unhex? a).map SOp.read
    else if k == "l" then some SOp.readLast
    else if k == "z" then (stampTok? a).map SOp.tz
    else if k == "c" then
      match splitTok a '/' with
      | [geo, ie, iN, iu, it, sep, h, hr, srid, rows] => do
        let geo ← geo.toNat?
        let ie ← ie.toInt?
        let iN ← iN.toInt?
        let iu ← iu.toInt?
        let it ← it.toInt?
        let sep ← sepOf? sep
        let h ← h.toNat?
        let hr ← hr.toNat?
        let srid ← unhex? srid
        let rws ← trackOf? rows
        if ie < -1 ∨ iN < -1 ∨ iu < -1 ∨ it < -1 then none
        else pure (SOp.csv ⟨ie, iN, iu, it, sep⟩ (geo == 1) h hr srid rws)
      | _ => none
    else if k == "g" then
      match splitTok a '/' with
      | [name, rows] => do
        let name ← unhex? name
        let rws ← trackOf? rows
        pure (SOp.gpxw name (rws.map (fun r => (⟨r.x, r.y, r.z, r.t⟩ : GRow))))
      | _ => none
    else none
  | _ => none

def showSOut : SOut → String
  | .none => "-"
  | .text s => "T" ++ toHex s
  | .file s => "F" ++ toHex s
  | .stamp none => "Snone"
  | .stamp (some t) => "S" ++ showStampC t
  | .csv (.error e) _ => s!"werr:{e} R:none"
  | .csv (.ok text) (.error e) => s!"W:{toHex text} R:err:{e}"
  | .csv (.ok text) (.ok rs) => s!"W:{toHex text} R:ok " ++ joinWith ";" (rs.map showRRow)

def showTState (st : TState) : String :=
  s!"{toHex st.readFmt},{toHex st.printFmt}," ++ joinWith "." (st.pre.map (fun (x : (Nat × Char) × Nat) => s!"{x.1.1}{x.1.2}:{x.2}"))

def handleSess (ops : String) : String :=
  match (splitTok ops '~').mapM sopOf? with
  | some ops => " ## ".intercalate ((runOuts TState.init [] ops).map (fun (x : SOut × TState) => s!"{showSOut x.1} @ {showTState x.2}"))
  | none => "bad-request"

def handle (cmd : String) (args : List String) : String :=
  match cmd, args with
  | "sess", [ops] => handleSess ops
  | "wktfile", [sep, hdr, hr, quoted, dq, blank, pw, pu, pt, iu, it, d, tracks] =>
    match sepOf? sep, hdr.toNat?, hr.toNat?, quoted.toNat?, dq.toNat?, blank.toNat?, pw.toNat?, pu.toNat? with
    | some sep, some hdr, some hr, some quoted, some dq, some blank, some pw, some pu =>
      match pt.toNat?, iu.toInt?, it.toInt?, d.toNat?, (splitTok tracks ';').mapM wtrackOf? with
      | some pt, some iu, some it, some d, some trks =>
        if iu < -1 ∨ it < -1 then "bad-request" else
        let text := wktFile sep (hdr == 1) (quoted == 1) (blank == 1) pw pu pt d trks
        let r := match readWktFile ⟨pw, iu, it, sep, hr, dq == 1⟩ text with
          | .ok ts => "ok " ++ joinWith ";" (ts.map (fun (t : WTrack) => s!"{showOptStr t.uid},{showOptStr t.tid},{joinWith "|" (t.pts.map showV3)}"))
          | .error e => s!"err:{e}"
        s!"W:{toHex text} R:{r}"
      | _, _, _, _, _ => "bad-request"
    | _, _, _, _, _, _, _, _ => "bad-request"
  | "csvdir", [geo, ie, iN, iu, it, sep, h, hr, pf, rf, tracks, srid] => handleCsvDir geo ie iN iu it sep h hr pf rf tracks srid
  | "gpxc", [geo, rf, names, tracks] =>
    match geo.toNat?, unhex? rf, (splitTok names ',').mapM unhex?, (splitTok tracks '|').mapM trackOf? with
    | some geo, some rf, some names, some trks =>
      if names.length ≠ trks.length then "bad-request" else
      let text := gpxBodyColl (names.zip (trks.map (fun (t : List Row) => t.map (fun r => (⟨r.x, r.y, r.z, r.t⟩ : GRow)))))
      let r := match readGpx (tokenize rf) (geo == 1) text with
        | .ok ts => "ok " ++ joinWith "|" (ts.map (fun (t : List RRow) => if t.isEmpty then "_" else joinWith ";" (t.map showRRow)))
        | .error e => s!"err:{e}"
      s!"W:{toHex text} R:{r}"
    | _, _, _, _ => "bad-request"
  | "fix", [w, d, n] =>
    match w.toNat?, d.toNat?, snum? n with
    | some w, some d, some n =>
      let back := match parseDec? (renderFixedS w d n) with
        | some v => showDec v
        | none => "none"
      s!"{toHex (fixedWS w d n)} {back}"
    | _, _, _ => "bad-request"
  | "time", pf :: rf :: rest =>
    match unhex? pf, unhex? rf, (rest.mapM String.toInt?).bind stampOf? with
    | some pf, some rf, some t =>
      let s := printTime (tokenize pf) t
      let back := match readTimestamp (tokenize rf) s with
        | some t' => showStampC t'
        | none => "none"
      s!"{toHex s} {back}"
    | _, _, _ => "bad-request"
  | "csv", [geo, ie, iN, iu, it, sep, h, hr, pf, rf, naf, rows, srid, names] =>
    handleCsv geo ie iN iu it sep h hr pf rf naf rows srid names "0"
  | "csv", [geo, ie, iN, iu, it, sep, h, hr, pf, rf, naf, rows, srid, names, ra] =>
    handleCsv geo ie iN iu it sep h hr pf rf naf rows srid names ra
  | "net", [sep, h, hr, d, pd, edges] =>
    match sepOf? sep, h.toNat?, hr.toNat?, d.toNat?, pd.toInt?, (splitTok edges ';').mapM edgeOf? with
    | some sep, some h, some hr, some d, some pd, some es =>
      let text := netWrite sep h d es
      let f : NetFmt := ⟨0, 1, 2, pd, 4, sep, hr⟩
      let r := match netRead f text with
        | .ok res => s!"ok {joinWith ";" (res.map showREdge)} N:{joinWith ";" ((nodesOf res).map (fun (n : Str × (Dec × Dec × Dec)) => s!"{toHex n.1},{showV3 n.2}"))}"
        | .error e => s!"err:{e}"
      s!"W:{toHex text} R:{r}"
    | _, _, _, _, _, _ => "bad-request"
  | "wkt", [d, pts] =>
    match d.toNat?, (splitTok pts '|').mapM ptOf? with
    | some d, some ps =>
      let text := toWKT d ps
      let r := match parseWkt text with
        | .ok vs => "ok " ++ joinWith "|" (vs.map showV3)
        | .error e => s!"err:{e}"
      s!"W:{toHex text} R:{r}"
    | _, _ => "bad-request"
  | "gpx", [geo, rf, name, rows] =>
    match geo.toNat?, unhex? rf, unhex? name, (splitTok rows ';').mapM (rowOf? 0) with
    | some geo, some rf, some name, some rws =>
      let text := gpxBody name (rws.map (fun ra => ⟨ra.1.x, ra.1.y, ra.1.z, ra.1.t⟩))
      let r := match readGpx (tokenize rf) (geo == 1) text with
        | .ok ts => "ok " ++ joinWith "|" (ts.map (fun (t : List RRow) => joinWith ";" (t.map showRRow)))
        | .error e => s!"err:{e}"
      s!"W:{toHex text} R:{r}"
    | _, _, _, _ => "bad-request"
  | "wktparse", [text] =>
    match unhex? text with
    | some t =>
      match parseWkt t with
      | .ok vs => "ok " ++ joinWith "|" (vs.map showV3)
      | .error e => s!"err:{e}"
    | none => "bad-request"
  | "gpxaf", [geo, rf, name, naf, names, rows] =>
    match geo.toNat?, unhex? rf, unhex? name, naf.toNat?, (splitTok names ',').mapM unhex? with
    | some geo, some rf, some name, some naf, some names =>
      match (splitTok rows ';').mapM (rowOf? naf) with
      | some rws =>
        if names.length ≠ naf then "bad-request" else
        let text := gpxBodyAF name (rws.map (fun ra => (⟨ra.1.x, ra.1.y, ra.1.z, ra.1.t⟩, names.zip ra.2)))
        let r := match readGpx (tokenize rf) (geo == 1) text with
          | .ok ts => "ok " ++ joinWith "|" (ts.map (fun (t : List RRow) => joinWith ";" (t.map showRRow)))
          | .error e => s!"err:{e}"
        s!"W:{toHex text} R:{r}"
      | none => "bad-request"
    | _, _, _, _, _ => "bad-request"
  | _, _ => "bad-request"
end TV.Drv.C13
