import TracklibVerif.Model.Filter
import TracklibVerif.Model.FilterExt
import TracklibVerif.Model.FilterColl
import TracklibVerif.Drv.Util
/-! Driver handler for C15 (kernel smoothing). `<sc>` is the scalar: `r` (Rat, tokens `p/q`) or
`f` (Float, IEEE bit patterns); NaN is `nan` in signals.

Kernel specification `<kspec>` (one or more tokens); `<fb>` is `filterBoundary()` as 0/1, or `d` when
`setFilterBoundary` was never called on the object (the class attribute of `Globals.initial`):
  list <weights>                      a Python list of weights
  dirac <fb>                          DiracKernel
  uni <fb> <size> | tri <fb> <size> | epa <fb> <size> | cub <fb> <size> | sph <fb> <size>
                                      Uniform / Triangular / Epanechnikov / Cubic / Spheric kernel, function and
                                      support computed by the model
  gau <fb> <sigma> | expo <fb> <sigma>
                                      (floats only) Gaussian / Exponential kernel computed by the model with
                                      `Float.exp` / `Float.sqrt` (the C library's, as `math.exp` / `math.sqrt`)
  user <fb> <support> <values>        a user-defined kernel (`Kernel` + `setFunction`) whose function is
                                      `values[|x|]` at the integers `|x| < len(values)` and 0 elsewhere
  fn <fb> <support> <x:fx,x:fx,…>     any other Kernel object: its function as a table evaluated by
                                      Python at the half-integers (the model computes its own sample
                                      points; a point missing from the table is a bad request)
  int <n>                             (seq / session only) an integer kernel
  feat <name>                         (op / seq / session only) a kernel given as the name of a feature
  num                                 (op / seq / session only) a float given as kernel (refused with a TypeError)
`int(support)` is computed here (floor; support ≥ 1 or the model reports the error first).

`<dim>`: `D` (argument omitted), `C:<FILTER_…>` (module constant), `L:<names>` (list), `S:<chars>` (a str).
`<globals>`: the module-level state after the call, `FILTER_X=x|…|FILTER_XYZ=x.y.z;<Kernel.__filter_boundary>`.

Commands:
  exec <sc> <signal> <kspec>               → ok <weight list after the call | none> <output signal> | err:<kind>
  sw <sc> <kspec>                          → ok <sliding window> | err:<kind>
  op <sc> <af_in> <af_out> <names> <signals ;> <kspec>
                                           → ok <weight list after the call | none> <output> <names> <signals ;> | err:<kind>
  opa <sc> one <af_in> <af_out | -> <names> <signals ;> <kspec>
  opa <sc> many <ins ,> <outs , | -> <names> <signals ;> <kspec>
                                           the argument forms of `Track.operate` (`-`: third argument omitted)
                                           → ok <weight list after the call | none> <returned list | none> <names> <signals ;> | err:<kind>
  opx <sc> <af_in> <kernel name> <af_out | -> <names> <signals ;>
                                           the algebraic form `track.operate("af_out = af_in ! kname")` (`-`: no left-hand side, the
                                           values are returned); both names must be signals of the track, `af_out` not t / timestamp / idx
                                           → ok none <returned list | none> <names> <signals ;> | err:<kind>
  seq <sc> <dim> <names> <signals ;> <kspec> → ok <names> <signals ;> <globals> | err:<kind> <globals>
  seqn <sc> <n> <dim> <names> <signals ;> <kspec>
                                           `filter_seq` called n times on the same track with the same kernel object
                                           → the replies of `seq` after every call, separated by ` # ` (stops at a failure)
  session <sc> <n> { <dim> <names> <signals ;> <m> <kspec of m tokens> }*n
                                           → n replies of `seq` separated by ` # `
  coll <sc> <n> { <names> <signals ;> }*n <kspec>
                                           `TrackCollection.smooth` on n tracks (`<kspec>` describes `GaussianKernel(constraint)`)
                                           → (ok | err:<kind>@<position of the failing track>) # <names> <signals ;> # … (n tracks) # <globals>
  seqx r <dim names ,> <names> <signals ;> <weights>
                                           `filter_seq(track, weights, dim)` for a weight list over Python's numbers (`filterSeqListX`)
                                           → ok <weight list after the call> <names> <signals ;> | err:<kind>
  execx r <signal> <kspec>                 `Filter.execute` over Python's numbers (`Model/FilterExt.lean`, scalar `Ext Rat`): the signal and
                                           the weights of a `list` may hold `nan`, `inf`, `-inf`; any total of the weights
                                           → ok <weight list after the call | none> <output signal> | err:<kind> -/
namespace TV.Drv.C15
open TV.Filter TV.Drv

local instance : NatCast Float := ⟨Float.ofNat⟩

structure Sc (α : Type) where
  parse : String → Option α
  shw : α → String
  floorNat : α → Nat
  /-- `math.exp` and `math.sqrt(2 * math.pi)` (floats only) -/
  expF : Option (α → α)
  sqrt2pi : Option α

def scRat : Sc Rat := ⟨rat?, showRat, fun r => r.floor.toNat, none, none⟩
def scFloat : Sc Float := ⟨fun s => if s == "nan" then none else float? s, showFloat, fun f => f.floor.toUInt64.toNat,
  some Float.exp, some (Float.sqrt (2 * 3.141592653589793))⟩

def showErr : Err → String
  | .evenKernel => "err:even-kernel"
  | .zeroDiv => "err:zerodiv"
  | .index => "err:index"
  | .support => "err:support"
  | .feature => "err:feature"
  | .emptyTrack => "err:empty-track"
  | .nanKernel => "err:nan-kernel"
  | .operands => "err:operands"
  | .kernelType => "err:kernel-type"

section
variable {α : Type} [Add α] [Sub α] [Mul α] [Div α] [Neg α] [LT α] [LE α] [DecidableLT α] [DecidableLE α]
  [OfNat α 0] [OfNat α 1] [NatCast α] [BEq α]

def signal? (sc : Sc α) (s : String) : Option (List (Option α)) :=
  (splitTok s ',').mapM (fun t => if t == "nan" then some none else (sc.parse t).map some)

def showSignal (sc : Sc α) (l : List (Option α)) : String :=
  showList (fun o => match o with | none => "nan" | some a => sc.shw a) l

def bool? (s : String) : Option Bool := if s == "1" then some true else if s == "0" then some false else none

def table? (sc : Sc α) (s : String) : Option (List (α × α)) :=
  (splitTok s ',').mapM (fun t => match t.splitOn ":" with
    | [a, b] => do
      let x ← sc.parse a
      let y ← sc.parse b
      pure (x, y)
    | _ => none)

def lookup (tbl : List (α × α)) (x : α) : Option α := (tbl.find? (fun p => p.1 == x)).map (·.2)

def fb? (s : String) : Option Bool :=
  if s == "d" then some Globals.initial.kernelFilterBoundary else bool? s

def kspec? (sc : Sc α) : List String → Option (KArg α)
  | ["list", ws] => ((splitTok ws ',').mapM sc.parse).map KArg.list
  | ["dirac", fb] => (fb? fb).map (fun b => KArg.obj true b (fun _ => 0) ((500 : Nat) : α) 500)
  | ["uni", fb, size] => do
    let b ← fb? fb
    let s ← sc.parse size
    pure (KArg.obj false b (uniformF s) (uniformSupport s) (sc.floorNat (uniformSupport s)))
  | ["tri", fb, size] => do
    let b ← fb? fb
    let s ← sc.parse size
    pure (KArg.obj false b (triangularF s) (triangularSupport s) (sc.floorNat (triangularSupport s)))
  | ["epa", fb, size] => do
    let b ← fb? fb
    let s ← sc.parse size
    pure (KArg.obj false b (epanechnikovF s) (epanechnikovSupport s) (sc.floorNat (epanechnikovSupport s)))
  | ["cub", fb, size] => do
    let b ← fb? fb
    let s ← sc.parse size
    pure (KArg.obj false b (cubicF s) (cubicSupport s) (sc.floorNat (cubicSupport s)))
  | ["sph", fb, size] => do
    let b ← fb? fb
    let s ← sc.parse size
    pure (KArg.obj false b (sphericF s) (sphericSupport s) (sc.floorNat (sphericSupport s)))
  | ["gau", fb, size] => do
    let b ← fb? fb
    let s ← sc.parse size
    let e ← sc.expF
    let c ← sc.sqrt2pi
    pure (KArg.obj false b (gaussianF e c s) (gaussianSupport s) (sc.floorNat (gaussianSupport s)))
  | ["expo", fb, size] => do
    let b ← fb? fb
    let s ← sc.parse size
    let e ← sc.expF
    pure (KArg.obj false b (exponentialF e s) (exponentialSupport s) (sc.floorNat (exponentialSupport s)))
  | ["user", fb, support, vals] => do
    let b ← fb? fb
    let sup ← sc.parse support
    let tbl ← (splitTok vals ',').mapM sc.parse
    pure (KArg.obj false b (tableF tbl) sup (sc.floorNat sup))
  | ["fn", fb, support, tbl] => do
    let b ← fb? fb
    let sup ← sc.parse support
    let t ← table? sc tbl
    let S := sc.floorNat sup
    -- every sample point the model will ask for must be in the table
    if (List.range (2 * S + 1)).all (fun i => (lookup t (samplePoint (2 * S + 1) i : α)).isSome) then
      pure (KArg.obj false b (fun x => (lookup t x).getD 0) sup S)
    else none
  | _ => none

def seqArg? (sc : Sc α) : List String → Option (SeqArg α)
  | ["int", n] => n.toInt?.map SeqArg.int
  | ["num"] => some SeqArg.num
  | ["feat", n] => if n == "t" || n == "timestamp" || n == "idx" then none else some (SeqArg.feat n)
  | ks => (kspec? sc ks).map SeqArg.k

def dim? (s : String) : Option DimArg :=
  if s == "D" then some .default
  else if s.startsWith "C:" then some (.const (s.drop 2).toString)
  else if s.startsWith "L:" then some (.list (splitTok (s.drop 2).toString ','))
  else if s.startsWith "S:" then some (.str (s.drop 2).toString)
  else none

def showGlobals (g : Globals) : String :=
  joinWith "|" (g.filterConsts.map (fun p => p.1 ++ "=" ++ joinWith "." p.2)) ++ ";" ++ showBool g.kernelFilterBoundary

def track? (sc : Sc α) (names sigs : String) : Option (Sigs α) :=
  let ns := splitTok names ','
  match (splitTok sigs ';').mapM (signal? sc) with
  | some ss => if ns.length ≠ ss.length then none else some (ns.zip ss)
  | none => none

def showTrack (sc : Sc α) (t : Sigs α) : String :=
  s!"{joinWith "," (t.map (·.1))} {joinWith ";" (t.map (fun p => showSignal sc p.2))}"

def showCall (sc : Sc α) : Option (Except Err (Sigs α) × Globals) → String
  | none => "bad-request"
  | some (.ok t, g) => s!"ok {showTrack sc t} {showGlobals g}"
  | some (.error e, g) => s!"{showErr e} {showGlobals g}"

/-- the steps of a `session` request -/
def calls? (sc : Sc α) : Nat → List String → Option (List (Call α))
  | 0, [] => some []
  | 0, _ => none
  | n + 1, dim :: names :: sigs :: m :: rest => do
    let d ← dim? dim
    let t ← track? sc names sigs
    let m ← m.toNat?
    if rest.length < m then none
    let k ← seqArg? sc (rest.take m)
    let cs ← calls? sc n (rest.drop m)
    pure (⟨t, k, d⟩ :: cs)
  | _, _ => none

def handleSc (sc : Sc α) (cmd : String) (args : List String) : String :=
  match cmd, args with
  | "exec", sig :: ks =>
    match signal? sc sig, kspec? sc ks with
    | some v, some k =>
      match execute v k with
      | .ok (k', out) =>
        s!"ok {match k' with | none => "none" | some l => showList sc.shw l} {showSignal sc out}"
      | .error e => showErr e
    | _, _ => "bad-request"
  | "sw", ks =>
    match kspec? sc ks with
    | some (KArg.obj false _ f sup S) =>
      match slidingWindow f sup S with
      | .ok w => s!"ok {showList sc.shw w}"
      | .error e => showErr e
    | _ => "bad-request"
  | "op", afIn :: afOut :: names :: sigs :: ks =>
    match seqArg? sc ks, track? sc names sigs with
    | some k, some t =>
      let src : Option (KSrc α) := match k with
        | .k a => some (.arg a)
        | .feat n => some (.feat n)
        | .num => some .num
        | .int _ => none
      match src with
      | none => "bad-request"
      | some src =>
        match operate t afIn src afOut with
        | .ok (k', out, t') =>
          let kafter := match k' with
            | .arg (.list l) => showList sc.shw l
            | _ => "none"
          s!"ok {kafter} {showSignal sc out} {showTrack sc t'}"
        | .error e => showErr e
    | _, _ => "bad-request"
  | "opa", form :: a1 :: a3 :: names :: sigs :: ks =>
    match seqArg? sc ks, track? sc names sigs with
    | some k, some t =>
      let src : Option (KSrc α) := match k with
        | .k a => some (.arg a)
        | .feat n => some (.feat n)
        | .num => some .num
        | .int _ => none
      let nm : Option OpNames :=
        if form == "one" then some (.one a1 (if a3 == "-" then none else some a3))
        else if form == "many" then some (.many (splitTok a1 ',') (if a3 == "-" then none else some (splitTok a3 ',')))
        else none
      match src, nm with
      | some src, some nm =>
        match operateArgs t src nm with
        | .ok (k', ret, t') =>
          let kafter := match k' with
            | .arg (.list l) => showList sc.shw l
            | _ => "none"
          let r := match ret with
            | some out => showSignal sc out
            | none => "none"
          s!"ok {kafter} {r} {showTrack sc t'}"
        | .error e => showErr e
      | _, _ => "bad-request"
    | _, _ => "bad-request"
  | "opx", [afIn, kname, afOut, names, sigs] =>
    match track? sc names sigs with
    | some t =>
      if (getSig t afIn).isNone || (getSig t kname).isNone || afOut == "t" || afOut == "timestamp" || afOut == "idx" then "bad-request"
      else
        match operateAlgebraic t (if afOut == "-" then none else some afOut) afIn kname with
        | .ok (ret, t') =>
          let r := match ret with
            | some out => showSignal sc out
            | none => "none"
          s!"ok none {r} {showTrack sc t'}"
        | .error e => showErr e
    | none => "bad-request"
  | "seq", dim :: names :: sigs :: ks =>
    match seqArg? sc ks, track? sc names sigs, dim? dim with
    | some k, some t, some d => showCall sc (filterSeqCall Globals.initial t k d)
    | _, _, _ => "bad-request"
  | "seqn", n :: dim :: names :: sigs :: ks =>
    match n.toNat?, seqArg? sc ks, track? sc names sigs, dim? dim with
    | some n, some k, some t, some d => joinWith " # " ((filterSeqRepeat Globals.initial t k d n).map (showCall sc))
    | _, _, _, _ => "bad-request"
  | "smooth", names :: sigs :: ks =>
    match kspec? sc ks, track? sc names sigs with
    | some (KArg.obj false _ f sup S), some t => showCall sc (smooth Globals.initial t f sup S)
    | _, _ => "bad-request"
  | "coll", n :: rest =>
    match n.toNat? with
    | none => "bad-request"
    | some n =>
      if rest.length < 2 * n then "bad-request"
      else
        let rec tracks? : Nat → List String → Option (List (Sigs α))
          | 0, _ => some []
          | m + 1, names :: sigs :: more => do
            let t ← track? sc names sigs
            let ts ← tracks? m more
            pure (t :: ts)
          | _, _ => none
        match tracks? n (rest.take (2 * n)), kspec? sc (rest.drop (2 * n)) with
        | some ts, some (KArg.obj false _ f sup S) =>
          match collectionSmooth f sup S Globals.initial ts with
          | none => "bad-request"
          | some (ts', err, g) =>
            let st := match err with
              | none => "ok"
              | some (i, e) => s!"{showErr e}@{i}"
            joinWith " # " ([st] ++ ts'.map (showTrack sc) ++ [showGlobals g])
        | _, _ => "bad-request"
  | "session", n :: rest =>
    match n.toNat? with
    | none => "bad-request"
    | some n =>
      match calls? sc n rest with
      | none => "bad-request"
      | some cs => joinWith " # " ((session Globals.initial cs).map (showCall sc))
  | _, _ => "bad-request"
end

def ext? (s : String) : Option (Ext Rat) :=
  if s == "nan" then some .nan else if s == "inf" then some .pinf else if s == "-inf" then some .ninf else (rat? s).map .fin

def showExt : Ext Rat → String
  | .fin a => showRat a
  | .pinf => "inf"
  | .ninf => "-inf"
  | .nan => "nan"

def handleX (args : List String) : String :=
  match args with
  | sig :: "list" :: [ws] =>
    match (splitTok sig ',').mapM ext?, (splitTok ws ',').mapM ext? with
    | some v, some k =>
      match executeListX v k with
      | .ok (k', out) => s!"ok {showList showExt k'} {showList showExt out}"
      | .error e => showErr e
    | _, _ => "bad-request"
  | sig :: ks =>
    match (splitTok sig ',').mapM ext?, kspec? scRat ks with
    | some v, some (KArg.obj dirac b f sup S) =>
      match prepare (KArg.obj dirac b f sup S) with
      | .ok (_, w, boundary, _) =>
        match executeObjX v w boundary with
        | .ok out => s!"ok none {showList showExt out}"
        | .error e => showErr e
      | .error e => showErr e
    | _, _ => "bad-request"
  | _ => "bad-request"

def sigX? (s : String) : Option (List (Option (Ext Rat))) :=
  (splitTok s ',').mapM (fun t => (ext? t).map toOpt)

def showSigX (l : List (Option (Ext Rat))) : String := showList (fun o => showExt (ofOpt o)) l

def handleSeqX (args : List String) : String :=
  match args with
  | [dims, names, sigs, ws] =>
    let ns := splitTok names ','
    match (splitTok sigs ';').mapM sigX?, (splitTok ws ',').mapM ext? with
    | some ss, some k =>
      if ns.length ≠ ss.length then "bad-request"
      else
        match filterSeqListX (ns.zip ss) k (splitTok dims ',') with
        | .ok (k', t') => s!"ok {showList showExt k'} {joinWith "," (t'.map (·.1))} {joinWith ";" (t'.map (fun p => showSigX p.2))}"
        | .error e => showErr e
    | _, _ => "bad-request"
  | _ => "bad-request"

def handle (cmd : String) (args : List String) : String :=
  match cmd, args with
  | "execx", "r" :: rest => handleX rest
  | "seqx", "r" :: rest => handleSeqX rest
  | _, _ =>
  match args with
  | "r" :: rest => handleSc scRat cmd rest
  | "f" :: rest => handleSc scFloat cmd rest
  | _ => "bad-request"
end TV.Drv.C15
