import TracklibVerif.Model.Filter
import TracklibVerif.Drv.Util
/-! Driver handler for C15 (kernel smoothing). `<sc>` is the scalar: `r` (Rat, tokens `p/q`) or
`f` (Float, IEEE bit patterns); NaN is `nan` in signals.

Kernel specification `<kspec>` (one or more tokens):
  list <weights>                      a Python list of weights
  dirac <fb>                          DiracKernel, fb = filterBoundary() as 0/1
  uni <fb> <size> | tri <fb> <size> | epa <fb> <size>
                                      Uniform / Triangular / Epanechnikov kernel, function and support
                                      computed by the model
  fn <fb> <support> <x:fx,x:fx,…>     any other Kernel object: its function as a table evaluated by
                                      Python at the half-integers (the model computes its own sample
                                      points; a point missing from the table is a bad request)
  int <n>                             (seq only) an integer kernel
`int(support)` is computed here (floor; support ≥ 1 or the model reports the error first).

Commands:
  exec <sc> <signal> <kspec>               → ok <weight list after the call | none> <output signal> | err:<kind>
  sw <sc> <kspec>                          → ok <sliding window> | err:<kind>
  seq <sc> <dims> <names> <signals ;> <kspec> → ok <names> <signals ;> | err:<kind> -/
namespace TV.Drv.C15
open TV.Filter TV.Drv

local instance : NatCast Float := ⟨Float.ofNat⟩

structure Sc (α : Type) where
  parse : String → Option α
  shw : α → String
  floorNat : α → Nat

def scRat : Sc Rat := ⟨rat?, showRat, fun r => r.floor.toNat⟩
def scFloat : Sc Float := ⟨fun s => if s == "nan" then none else float? s, showFloat, fun f => f.floor.toUInt64.toNat⟩

def showErr : Err → String
  | .evenKernel => "err:even-kernel"
  | .zeroDiv => "err:zerodiv"
  | .index => "err:index"
  | .support => "err:support"
  | .feature => "err:feature"

section
variable {α : Type} [Add α] [Sub α] [Mul α] [Div α] [Neg α] [LT α] [LE α] [DecidableLT α] [DecidableLE α]
  [OfNat α 0] [OfNat α 1] [NatCast α] [BEq α]

def signal? (sc : Sc α) (s : String) : Option (List (Option α)) :=
  (splitTok s ',').mapM (fun t => if t == "nan" then some none else (sc.parse t).map some)

def showSignal (sc : Sc α) (l : List (Option α)) : String :=
  showList (fun o => match o with | none => "nan" | some a => sc.shw a) l

def bool? (s : String) : Option Bool := if s == "1" then some true else if s == "0" then some false else none

def table? (sc : Sc α) (s : String) : Option (List (α × α)) :=
  (splitTok s ',').mapM (fun t => match t.splitOn ":" with
    | [a, b] => do
      let x ← sc.parse a
      let y ← sc.parse b
      pure (x, y)
    | _ => none)

def lookup (tbl : List (α × α)) (x : α) : Option α := (tbl.find? (fun p => p.1 == x)).map (·.2)

def kspec? (sc : Sc α) : List String → Option (KArg α)
  | ["list", ws] => ((splitTok ws ',').mapM sc.parse).map KArg.list
  | ["dirac", fb] => (bool? fb).map (fun b => KArg.obj true b (fun _ => 0) ((500 : Nat) : α) 500)
  | ["uni", fb, size] => do
    let b ← bool? fb
    let s ← sc.parse size
    pure (KArg.obj false b (uniformF s) (uniformSupport s) (sc.floorNat (uniformSupport s)))
  | ["tri", fb, size] => do
    let b ← bool? fb
    let s ← sc.parse size
    pure (KArg.obj false b (triangularF s) (triangularSupport s) (sc.floorNat (triangularSupport s)))
  | ["epa", fb, size] => do
    let b ← bool? fb
    let s ← sc.parse size
    pure (KArg.obj false b (epanechnikovF s) (epanechnikovSupport s) (sc.floorNat (epanechnikovSupport s)))
  | ["fn", fb, support, tbl] => do
    let b ← bool? fb
    let sup ← sc.parse support
    let t ← table? sc tbl
    let S := sc.floorNat sup
    -- every sample point the model will ask for must be in the table
    if (List.range (2 * S + 1)).all (fun i => (lookup t (samplePoint (2 * S + 1) i : α)).isSome) then
      pure (KArg.obj false b (fun x => (lookup t x).getD 0) sup S)
    else none
  | _ => none

def handleSc (sc : Sc α) (cmd : String) (args : List String) : String :=
  match cmd, args with
  | "exec", sig :: ks =>
    match signal? sc sig, kspec? sc ks with
    | some v, some k =>
      match execute v k with
      | .ok (k', out) =>
        s!"ok {match k' with | none => "none" | some l => showList sc.shw l} {showSignal sc out}"
      | .error e => showErr e
    | _, _ => "bad-request"
  | "sw", ks =>
    match kspec? sc ks with
    | some (KArg.obj false _ f sup S) =>
      match slidingWindow f sup S with
      | .ok w => s!"ok {showList sc.shw w}"
      | .error e => showErr e
    | _ => "bad-request"
  | "seq", dims :: names :: sigs :: ks =>
    let karg : Option (SeqArg α) := match ks with
      | ["int", n] => n.toInt?.map SeqArg.int
      | _ => (kspec? sc ks).map SeqArg.k
    let ns := splitTok names ','
    match karg, (splitTok sigs ';').mapM (signal? sc) with
    | some k, some ss =>
      if ns.length ≠ ss.length then "bad-request"
      else
        match filterSeq (ns.zip ss) k (splitTok dims ',') with
        | .ok t => s!"ok {joinWith "," (t.map (·.1))} {joinWith ";" (t.map (fun p => showSignal sc p.2))}"
        | .error e => showErr e
    | _, _ => "bad-request"
  | _, _ => "bad-request"
end

def handle (cmd : String) (args : List String) : String :=
  match args with
  | "r" :: rest => handleSc scRat cmd rest
  | "f" :: rest => handleSc scFloat cmd rest
  | _ => "bad-request"
end TV.Drv.C15
