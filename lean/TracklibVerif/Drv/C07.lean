import TracklibVerif.Model.Graph
import TracklibVerif.Drv.Util
import TracklibVerif.Drv.C06
/-! Driver handler for C07 (shortest path reconstruction), weights in `Rat`, points on the integer lattice.
  paths <n> <edges> <pos> <lines> <cut>
     edges as for C06; `<pos>` = `x,y` per node (`;`), `<lines>` = one flat list `x,y,x,y,…` per edge (`;`, same
     order as the edges; an edge without vertices is `e`)
     → for every ordered pair (s,t), s-major, joined by `|`:  `none` | `diverge` | `<nodes>:<x,y,x,y,…>` -/
namespace TV.Drv.C07
open TV.Graph TV.Drv

def pts? : List Int → Option (List (Int × Int))
  | [] => some []
  | x :: y :: r => (pts? r).map (fun l => (x, y) :: l)
  | _ => none

def line? (s : String) : Option (List (Int × Int)) :=
  if s == "e" then some [] else (intList? s).bind pts?

def showPts (l : List (Int × Int)) : String :=
  joinWith "," (l.map (fun p => s!"{p.1},{p.2}"))

def showBack : Back (Int × Int) → String
  | .none => "none"
  | .diverge => "diverge"
  | .path nodes g => joinWith "," (nodes.map toString) ++ ":" ++ showPts g

def handle (cmd : String) (args : List String) : String :=
  match cmd, args with
  | "paths", [n, es, pos, lines, c] =>
    match C06.net? n es, C06.cut? c, (splitTok pos ';').mapM line?, (splitTok lines ';').mapM line? with
    | some net, some cut, some ps, some ls =>
      if ps.length == net.n && ps.all (·.length == 1) && ls.length == net.edges.length then
        let posl := ps.map (fun l => l.headD (0, 0))
        let tbl := (net.edges.map (·.id)).zip ls
        let geo : Geo (Int × Int) :=
          { pos := fun v => posl.getD v (0, 0),
            line := fun i => ((tbl.find? (fun p => p.1 == i)).map (·.2)).getD [] }
        let res := (List.range net.n).flatMap (fun s => (List.range net.n).map (fun t =>
          showBack (shortestPath net geo s t cut)))
        if res.isEmpty then "_" else "|".intercalate res
      else "bad-request"
    | _, _, _, _ => "bad-request"
  | _, _ => "bad-request"
end TV.Drv.C07
