import TracklibVerif.Model.Graph
import TracklibVerif.Model.GraphPathExt
import TracklibVerif.Model.GraphMut
import TracklibVerif.Model.GraphAStarPath
import TracklibVerif.Model.GraphSharedPath
import TracklibVerif.Drv.Util
import TracklibVerif.Drv.C06
/-! Driver handler for C07 (shortest path reconstruction), weights in `Rat` (or `Float`, commands prefixed with `f`), points on the integer lattice.
The backward pass is run through the TRACK operators of the C04 model (`TV.GraphExt.runBackwardT`): every vertex
occurrence (node positions first, then the vertices of the edge polylines in order) is an observation with its own
tag; the reply gives the coordinates of the observations of the returned track.

  paths <n> <edges> <pos> <lines> <cut>
     edges as for C06; `<pos>` = `x,y` per node (`;`), `<lines>` = one flat list `x,y,x,y,…` per edge (`;`, same
     order as the edges; an edge without vertices is `e`)
     → for every ordered pair (s,t), s-major, joined by `|`:  `<path>@<label>` where `<path>` is
       `none` | `diverge` | `<nodes>:<x,y,x,y,…>` (`shortest_path(s,t,cut)` on a fresh network) and `<label>` is
       `NODES[t].poids` after the call (`none` = -1)
  session <n> <order> <edges> <pos> <lines> <af> <ops>
     a sequence of calls on ONE network. `<af>` = 1: every edge geometry with at least one vertex carries an
     analytical feature (`speed`), 0: none does. `<ops>` = `;`-separated, fields separated by `:`; a node is `<id>` (given by
     id) or `o<id>` (given as a Node object); `<d>` = 1 when the session's `output_dict` is passed:
        `P:<s>:<t>:<cut>:<d>`     shortest_path            → `<path>@<label>`
        `D:<s>:<t|->:<cut>:<d>`   shortest_distance        → `d=<label>` | `l=<labels in insertion order>`
        `F:<s>:<t|->:<cut>:<d>`   run_routing_forward      → `ok`
        `B:<t>`                   run_routing_backward     → `<path>@<label>` | `attr` (no search yet: AttributeError)
     → the outputs joined by `|` (`_` when there is no op), then `#`, then the entries `s,v,d` (`;`) of the session's
       `output_dict`
  build <n> <pre> <edges> <ends> <post>
     the network as `addNode` / `addEdge` fill it: `<pre>` / `<post>` = `addNode` calls before / after the edges, each `v,x,y`
     (`;`); `<ends>` = per edge `sx,sy,tx,ty`, the coordinates of the two Node objects given to `addEdge`
     → `NEXT_EDGES` of the nodes 0..n-1 (edge ids `,`, lists `;`, an empty list is `e`) `#` the stored position `x,y` of
       every node (`-` = not registered) `#` the node ids in insertion order
  msession <n> <ops>
     ONE network object (`Model/GraphMut.lean`), built and MODIFIED by the calls themselves, node ids `< n`. `<ops>` as for
     `session`, plus (a point is `x,y`, a polyline a flat list `x,y,x,y,…` or `e`; `<af>` = 1: the geometry carries an
     analytical feature):
        `N:<v>:<x,y>`                              addNode(Node(v, coord))              → `ok` | `err`
        `E:<id,s,t,w,o>:<sx,sy,tx,ty>:<line>:<af>` addEdge(edge, Node(s,…), Node(t,…)) → `ok` | `err`
        `W:<id>:<w>`                               getEdge(id).weight = w               → `ok` | `key` | `err`
        `O:<id>:<o>`                               getEdge(id).orientation = o          → `ok` | `key`
        `G:<id>:<line>:<af>`                       getEdge(id).geom = track             → `ok` | `key`
        `C:<v>:<x,y>`                              getNode(v).coord = coord             → `ok` | `key`
     a routing call that names an unregistered node → `key` (KeyError)
     → outputs (`|`) `#` the `output_dict` entries `#` the final content: NEXT_EDGES per node 0..n-1 `!` stored position per
       node (`-` = not registered) `!` node ids in insertion order `!` the edges `id,s,t,w,o` in insertion order `!` their
       polylines
  asession <n> <order> <edges> <pos> <lines> <af> <hpos> <ops>
     `session` on an object WITH ITS ROUTING SETTINGS (`Model/GraphAStarPath.lean`): `<hpos>` = `e,n,u` per node (`;`, weights'
     format): the coordinates `Node.distanceTo` reads for the A* heuristic; `<ops>` as for `session` plus
        `M:<mode>`   setRoutingMethod(mode)    → `ok`
        `A:<w>`      setAStarWeight(w)         → `ok`
     (exact stream: refused when a distance between two nodes is not rational)
  fampaths <n> <edges> <pos> <lines> <af> <ops>
     a PROGRAM over a family of networks that share their Node / Edge objects (`Model/GraphShared.lean`,
     `Model/GraphSharedPath.lean`: one common flag store, `__resetFlags` over a network's own nodes only). `<edges>` / `<pos>` /
     `<lines>`: every Edge object of the program with its geometry, the coordinates of the Node objects (as for `session`).
     `<ops>` = `;`-separated `<k>:<op>`, `<k>` the network addressed:
        `c`  Network() (becomes the next network) · `n,<v>` addNode · `e,<id>,<s>,<t>,<w>,<o>` addEdge ·
        `r,<s>,<t|_>,<cut>,<d>` run_routing_forward · `d,<s>,<t>,<cut>,<d>` / `l,<s>,<cut>,<d>` shortest_distance ·
        `x,<s>,<cut>` nets.append(nets[k].sub_network(s, cut)) → `s:<node ids>/<edge ids>` ·
        `W,<id>,<w>` the weight of that Edge object · `P,<s>,<t>,<cut>` shortest_path → `<path>@<label>`
     → the outputs joined by `|` (`ok`, `err`, or as above)
  fpaths / fsession / fmsession / fasession: the same with weights, cut-offs and labels as IEEE-754 bit patterns (model instantiated at `Float`) -/
namespace TV.Drv.C07
open TV.Graph TV.GraphExt TV.Drv

def pts? : List Int → Option (List (Int × Int))
  | [] => some []
  | x :: y :: r => (pts? r).map (fun l => (x, y) :: l)
  | _ => none

def line? (s : String) : Option (List (Int × Int)) :=
  if s == "e" then some [] else (intList? s).bind pts?

def showPts (l : List (Int × Int)) : String :=
  joinWith "," (l.map (fun p => s!"{p.1},{p.2}"))

/-- observations tagged `start, start+1, …` -/
def tagged (af : Bool) (start : Nat) (k : Nat) : List Seq.Obs :=
  (List.range k).map (fun j => { tag := start + j, time := 0, feats := if af then [1] else [] })

/-- the tracks of the edges (by position), given the number of vertices of each, tags from `start` on -/
def edgeTracks (af : Bool) : Nat → List Nat → List Seq.Track
  | _, [] => []
  | start, k :: ks => ⟨tagged af start k, if af && k != 0 then [("speed", 0)] else []⟩ :: edgeTracks af (start + k) ks

structure Scene where
  geo : GeoT
  coords : Array (Int × Int)

section generic
variable {W : Type} (pw : String → Option W) (sw : W → String)

def scene (net : Net W) (af : Bool) (posl : List (Int × Int)) (ls : List (List (Int × Int))) : Scene :=
  let trs := (net.edges.map (·.id)).zip (edgeTracks af net.n (ls.map (·.length)))
  { geo := { pos := fun v => { tag := v, time := 0, feats := [] },
             geom := fun i => ((trs.find? (fun p => p.1 == i)).map (·.2)).getD emptyT },
    coords := (posl ++ ls.flatten).toArray }

def showBackT (sc : Scene) : BackT → String
  | .none => "none"
  | .diverge => "diverge"
  | .path nodes trk =>
    if trk.table.isEmpty then
      joinWith "," (nodes.map toString) ++ ":" ++ showPts (trk.pts.map (fun o => sc.coords.getD o.tag (0, 0)))
    else "features"

def showLabel : Option W → String := showOpt sw

def nodeArg? (n : Nat) (s : String) : Option NodeArg :=
  if s.startsWith "o" then
    (s.drop 1).toString.toNat?.bind (fun i => if i < n then some (NodeArg.obj i) else none)
  else s.toNat?.bind (fun i => if i < n then some (NodeArg.id i) else none)

def optNodeArg? (n : Nat) (s : String) : Option (Option NodeArg) :=
  if s == "-" then some none else (nodeArg? n s).map some

def flag? (s : String) : Option Bool :=
  if s == "1" then some true else if s == "0" then some false else none

def op? (n : Nat) (s : String) : Option (GraphExt.Op W) :=
  match splitTok s ':' with
  | ["P", a, b, c, d] => do
    let a ← nodeArg? n a
    let b ← nodeArg? n b
    let c ← C06.cutW? pw c
    let d ← flag? d
    pure (GraphExt.Op.path a b c d)
  | ["D", a, b, c, d] => do
    let a ← nodeArg? n a
    let b ← optNodeArg? n b
    let c ← C06.cutW? pw c
    let d ← flag? d
    pure (GraphExt.Op.dist a b c d)
  | ["F", a, b, c, d] => do
    let a ← nodeArg? n a
    let b ← optNodeArg? n b
    let c ← C06.cutW? pw c
    let d ← flag? d
    pure (GraphExt.Op.fwd a b c d)
  | ["B", b] => (nodeArg? n b).map GraphExt.Op.back
  | _ => none

def showOut (sc : Scene) : GraphExt.Out W → String
  | .path b label => showBackT sc b ++ "@" ++ showLabel sw label
  | .dist d => "d=" ++ showLabel sw d
  | .dists l => "l=" ++ joinWith "," (l.map (showLabel sw))
  | .done => "ok"
  | .attrErr => "attr"

def showDict (n : Nat) (tb : Table W) : String :=
  joinWith ";" ((List.range n).flatMap (fun s => (List.range n).filterMap (fun v =>
    (tb (s, v)).map (fun d => s!"{s},{v},{sw d}"))))

def geometry? (net : Net W) (af : Bool) (pos lines : String) : Option Scene :=
  match (splitTok pos ';').mapM line?, (splitTok lines ';').mapM line? with
  | some ps, some ls =>
    if ps.length == net.n && ps.all (·.length == 1) && ls.length == net.edges.length then
      some (scene net af (ps.map (fun l => l.headD (0, 0))) ls)
    else none
  | _, _ => none

def nodeCall? (n : Nat) (s : String) : Option (Nat × (Int × Int)) :=
  match (intList? s) with
  | some [v, x, y] => if 0 ≤ v ∧ v.toNat < n then some (v.toNat, (x, y)) else none
  | _ => none

def ends? (s : String) : Option ((Int × Int) × (Int × Int)) :=
  match (intList? s) with
  | some [a, b, c, d] => some ((a, b), (c, d))
  | _ => none

def showBuilt (n : Nat) (nb : GraphExt.NetObj W (Int × Int)) : String :=
  joinWith ";" ((List.range n).map (fun u => if (nb.next u).isEmpty then "e" else joinWith "," ((nb.next u).map toString)))
    ++ "#" ++ joinWith ";" ((List.range n).map (fun v => match GraphExt.posOf nb v with | some p => s!"{p.1},{p.2}" | none => "-"))
    ++ "#" ++ joinWith "," (nb.nodes.map (fun p => toString p.1))


/-! ### `msession`: the network is built and modified by the calls themselves -/

/-- fresh observations for the points `pts`: tags = their indices in the (growing) coordinate table -/
def freshObs (af : Bool) (coords : Array (Int × Int)) (pts : List (Int × Int)) : List Seq.Obs × Array (Int × Int) :=
  pts.foldl (fun acc p => (acc.1 ++ [{ tag := acc.2.size, time := 0, feats := if af then [1] else [] }], acc.2.push p)) ([], coords)

def freshTrack (af : Bool) (coords : Array (Int × Int)) (pts : List (Int × Int)) : Seq.Track × Array (Int × Int) :=
  let r := freshObs af coords pts
  (⟨r.1, if af && !pts.isEmpty then [("speed", 0)] else []⟩, r.2)

def point? (s : String) : Option (Int × Int) :=
  match intList? s with
  | some [x, y] => some (x, y)
  | _ => none

def mop? (n : Nat) (coords : Array (Int × Int)) (s : String) : Option (GraphMut.Op W × Array (Int × Int)) :=
  match splitTok s ':' with
  | ["N", v, p] => do
    let v ← v.toNat?
    let p ← point? p
    let r := freshObs false coords [p]
    pure (GraphMut.Op.addNode v (r.1.headD ⟨0, 0, []⟩), r.2)
  | ["E", e, ends, line, af] => do
    let e ← C06.edgeW? pw n e
    let ends ← ends? ends
    let line ← line? line
    let af ← flag? af
    let r := freshObs false coords [ends.1, ends.2]
    let g := freshTrack af r.2 line
    match r.1 with
    | [sc, tc] => pure (GraphMut.Op.addEdge e sc tc g.1, g.2)
    | _ => none
  | ["W", i, w] => do
    let i ← i.toNat?
    let w ← pw w
    pure (GraphMut.Op.setWeight i w, coords)
  | ["O", i, x] => do
    let i ← i.toNat?
    let x ← x.toInt?
    pure (GraphMut.Op.setOri i x, coords)
  | ["G", i, line, af] => do
    let i ← i.toNat?
    let line ← line? line
    let af ← flag? af
    let g := freshTrack af coords line
    pure (GraphMut.Op.setGeom i g.1, g.2)
  | ["C", v, p] => do
    let v ← v.toNat?
    let p ← point? p
    let r := freshObs false coords [p]
    pure (GraphMut.Op.setCoord v (r.1.headD ⟨0, 0, []⟩), r.2)
  | _ =>
    match (op? pw n s : Option (GraphExt.Op W)) with
    | some (.path a b c d) => some (GraphMut.Op.path a b c d, coords)
    | some (.dist a b c d) => some (GraphMut.Op.dist a b c d, coords)
    | some (.fwd a b c d) => some (GraphMut.Op.fwd a b c d, coords)
    | some (.back b) => some (GraphMut.Op.back b, coords)
    | none => none

def mops? (n : Nat) : Array (Int × Int) → List String → Option (List (GraphMut.Op W) × Array (Int × Int))
  | coords, [] => some ([], coords)
  | coords, s :: r =>
    match mop? pw n coords s with
    | some (op, coords') => (mops? n coords' r).map (fun q => (op :: q.1, q.2))
    | none => none

def showMOut (sc : Scene) : GraphMut.Out W → String
  | .unit => "ok"
  | .done => "ok"
  | .err => "err"
  | .keyErr => "key"
  | .attrErr => "attr"
  | .path b label => showBackT sc b ++ "@" ++ showLabel sw label
  | .dist d => "d=" ++ showLabel sw d
  | .dists l => "l=" ++ joinWith "," (l.map (showLabel sw))

def showContent (coords : Array (Int × Int)) (o : GraphMut.Obj W) : String :=
  let at_ := fun (ob : Seq.Obs) => coords.getD ob.tag (0, 0)
  joinWith ";" ((List.range o.n).map (fun u => if (o.nb.next u).isEmpty then "e" else joinWith "," ((o.nb.next u).map toString)))
    ++ "!" ++ joinWith ";" ((List.range o.n).map (fun v => match GraphExt.posOf o.nb v with | some p => s!"{(at_ p).1},{(at_ p).2}" | none => "-"))
    ++ "!" ++ joinWith "," (o.nb.nodes.map (fun p => toString p.1))
    ++ "!" ++ joinWith ";" (o.nb.edges.map (fun e => s!"{e.id},{e.src},{e.tgt},{sw e.w},{e.ori}"))
    ++ "!" ++ joinWith ";" (o.nb.edges.map (fun e => if (o.geom e.id).pts.isEmpty then "e" else showPts ((o.geom e.id).pts.map at_)))

variable [LT W] [DecidableLT W] [Add W] [OfNat W 0]

def handleW (cmd : String) (args : List String) : String :=
  match cmd, args with
  | "paths", [n, es, pos, lines, c] =>
    match C06.netW? pw n es, C06.cutW? pw c with
    | some net, some cut =>
      match geometry? net false pos lines with
      | some sc =>
        let res := (List.range net.n).flatMap (fun s => (List.range net.n).map (fun t =>
          showBackT sc (GraphExt.shortestPathT net sc.geo s t cut) ++ "@" ++ showLabel sw (shortestDistance net s t cut)))
        if res.isEmpty then "_" else "|".intercalate res
      | none => "bad-request"
    | _, _ => "bad-request"
  | "build", [n, pre, es, ends, post] =>
    match C06.netW? pw n es with
    | some net =>
      match (splitTok pre ';').mapM (nodeCall? net.n), (splitTok ends ';').mapM ends?, (splitTok post ';').mapM (nodeCall? net.n) with
      | some pre, some ends, some post =>
        if ends.length == net.edges.length then
          let nb0 : GraphExt.NetObj W (Int × Int) := pre.foldl (fun nb c => GraphExt.addNode nb c.1 c.2) GraphExt.NetObj.empty
          let nb1 := GraphExt.build nb0 ((net.edges.zip ends).map (fun p => (p.1, p.2.1, p.2.2)))
          showBuilt net.n (post.foldl (fun nb c => GraphExt.addNode nb c.1 c.2) nb1)
        else "bad-request"
      | _, _, _ => "bad-request"
    | none => "bad-request"
  | "session", [n, order, es, pos, lines, af, ops] =>
    match C06.netW? pw n es, flag? af with
    | some net, some af =>
      match C06.order? net.n order, geometry? net af pos lines, (splitTok ops ';').mapM (op? pw net.n) with
      | some order, some sc, some ops =>
        let r := GraphExt.runSession net sc.geo order GraphExt.Sess.start ops
        joinWith "|" (r.1.map (showOut sw sc)) ++ "#" ++ showDict sw net.n r.2.dict
      | _, _, _ => "bad-request"
    | _, _ => "bad-request"
  | "msession", [n, ops] =>
    match n.toNat? with
    | some n =>
      match mops? pw n #[] (splitTok ops ';') with
      | some (ops, coords) =>
        let r := GraphMut.runOps (GraphMut.Obj.new n : GraphMut.Obj W) ops
        let sc : Scene := { geo := GraphMut.geoOf r.2, coords := coords }
        joinWith "|" (r.1.map (showMOut sw sc)) ++ "#" ++ showDict sw n r.2.dict ++ "#" ++ showContent sw coords r.2
      | none => "bad-request"
    | none => "bad-request"
  | _, _ => "bad-request"
end generic


section astar
variable {W : Type} (pw : String → Option W) (sw : W → String) (sqrt : W → W) (okPos : List (Pos W) → Bool)
variable [LT W] [DecidableLT W] [Add W] [OfNat W 0] [OfNat W 1] [Sub W] [Mul W]

def hpos? (s : String) : Option (Pos W) :=
  match (splitTok s ',').mapM pw with
  | some [e, n, u] => some ⟨e, n, u⟩
  | _ => none

def opA? (n : Nat) (s : String) : Option (GraphExt.OpA W) :=
  match splitTok s ':' with
  | ["M", m] => m.toNat?.map GraphExt.OpA.setMethod
  | ["A", w] => (pw w).map GraphExt.OpA.setWeight
  | _ => (op? pw n s).map GraphExt.OpA.call

def handleA (args : List String) : String :=
  match args with
  | [n, order, es, pos, lines, af, hpos, ops] =>
    match C06.netW? pw n es, flag? af with
    | some net, some af =>
      match C06.order? net.n order, geometry? net af pos lines, (splitTok hpos ';').mapM (hpos? pw), (splitTok ops ';').mapM (opA? pw net.n) with
      | some order, some sc, some hp, some ops =>
        if hp.length == net.n && okPos hp then
          match hp with
          | [] => "bad-request"
          | p0 :: _ =>
            let r := GraphExt.runSessionA sqrt net sc.geo (fun v => hp[v]?.getD p0) order GraphExt.SessA.start ops
            joinWith "|" (r.1.map (showOut sw sc)) ++ "#" ++ showDict sw net.n r.2.sess.dict
        else "bad-request"
      | _, _, _, _ => "bad-request"
    | _, _ => "bad-request"
  | _ => "bad-request"
end astar

/-! ### `fampaths`: a program over networks that share their `Node` / `Edge` objects -/
section fam
open TV.Graph

def showFamPOut (sc : Scene) : GraphExt.FamPOut Rat → String
  | .out (.subnet ns es) => "s:" ++ joinWith "," (ns.map toString) ++ "/" ++ joinWith "," (es.map toString)
  | .out .err => "err"
  | .out _ => "ok"
  | .path b l => showBackT sc b ++ "@" ++ showLabel showRat l
  | .err => "err"

def famPRun (sc : Scene) (F : Fam Rat) : List String → Option (List String)
  | [] => some []
  | tokn :: rest =>
    match tokn.splitOn ":" with
    | [k, op] =>
      match k.toNat? with
      | none => none
      | some k =>
        if op == "c" then (famPRun sc (GraphExt.execFamP sc.geo F (.fam .create)).1 rest).map ("ok" :: ·)
        else
          match splitTok op ',' with
          | ["x", a, c] =>
            match a.toNat?, C06.cutW? rat? c with
            | some a, some c =>
              let r := GraphExt.execFamP sc.geo F (.fam (.extract k a c))
              (famPRun sc r.1 rest).map (showFamPOut sc r.2 :: ·)
            | _, _ => none
          | ["W", i, w] =>
            match i.toNat?, rat? w with
            | some i, some w =>
              let r := GraphExt.execFamP sc.geo F (.fam (.setWeight i w))
              (famPRun sc r.1 rest).map (showFamPOut sc r.2 :: ·)
            | _, _ => none
          | ["P", a, b, c] =>
            match a.toNat?, b.toNat?, C06.cutW? rat? c with
            | some a, some b, some c =>
              let r := GraphExt.execFamP sc.geo F (.path k a b c)
              (famPRun sc r.1 rest).map (showFamPOut sc r.2 :: ·)
            | _, _, _ => none
          | _ =>
            match C06.opW? rat? op with
            | none => none
            | some o =>
              let r := GraphExt.execFamP sc.geo F (.fam (.on k o))
              (famPRun sc r.1 rest).map (showFamPOut sc r.2 :: ·)
    | _ => none

def handleFam (args : List String) : String :=
  match args with
  | [n, es, pos, lines, af, ops] =>
    match C06.netW? rat? n es, flag? af with
    | some net, some af =>
      match geometry? net af pos lines with
      | some sc =>
        match famPRun sc (Fam.new net.n) (splitTok ops ';') with
        | some out => joinWith "|" out
        | none => "bad-request"
      | none => "bad-request"
    | _, _ => "bad-request"
  | _ => "bad-request"
end fam

/-- `paths` / `session`: weights, cut-offs and labels are rationals; `fpaths` / `fsession`: IEEE-754 bit patterns, the
same model definitions instantiated at `Float` -/
def handle (cmd : String) (args : List String) : String :=
  if cmd == "fampaths" then handleFam args
  else if cmd == "asession" then handleA rat? showRat sqrtRat C06.okPosRat args
  else if cmd == "fasession" then handleA C06.fl? showFloat Float.sqrt C06.okPosFloat args
  else if cmd.startsWith "f" then handleW C06.fl? showFloat (cmd.drop 1).toString args
  else handleW rat? showRat cmd args
end TV.Drv.C07
