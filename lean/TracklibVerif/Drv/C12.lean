import TracklibVerif.Model.PartitionArr
import TracklibVerif.Drv.Util
/-! Driver handler for C12. A matrix is `;`-separated rows of `,`-separated scalars; `<s>` selects the scalar:
`q` = exact rationals `p/q`, `f` = IEEE doubles as bit patterns.
  part <s> <mode> <matrix>      → `<index list> <D[0,N-1]>`   (`optimalPartitionA`: D and M as real arrays; N = rows − 1)
  opt <s> <mode> <matrix>       → `<D[0,N-1]>`                (function form `opt`, for cross-checking the two forms)
  seg <s> <mode> <W>            → index list of `optimalSegmentation` on a track of `rows(W)` observations with
                                  `cost(track, i, j-1) = W[i][j]`
  simp <s> <mode> <W>           → indices of the observations kept by `optimalSimplification(track, cost, eps, mode)`
  simplify <s> <7|8> <W>        → same through `simplify(track, cost, MODE_SIMPLIFY_FREE[_MAXIMIZE])`, or `err:type`
errors: `err:index` (one row: `backward` indexes an empty table), `err:value` (no row: negative dimension). -/
namespace TV.Drv.C12
open TV.Partition TV.Drv

def square {α} (m : List (List α)) : Bool := m.all (fun r => r.length == m.length)

def fn {α} (zero : α) (m : List (List α)) : Nat → Nat → α :=
  let a := (m.map List.toArray).toArray
  fun i j => ((a[i]?).bind (·[j]?)).getD zero

def run {α} [Add α] [LT α] [DecidableLT α] (zero : α) (shw : α → String) (cmd : String) (mode : Nat)
    (m : List (List α)) : String :=
  if !square m then "bad-request"
  else if m.length == 0 then "err:value"
  else if m.length == 1 then "err:index"
  else
    let rows := m.length
    let C := fn zero m
    match cmd with
    | "part" =>
      let t := tablesA zero rows C mode
      s!"{showList toString (backward (mget 0 t.M) (rows - 1))} {shw (mget zero t.D 0 (rows - 2))}"
    | "opt" => shw (opt (better mode) (· + ·) C (rows - 1) 0 (rows - 2)).1
    | "seg" => showList toString (optimalSegmentation zero rows (fun i e => C i (e + 1).toNat) mode)
    | "simp" => showList toString (optimalSimplification zero (List.range rows) (fun i e => C i (e + 1).toNat) mode)
    | "simplify" =>
      match simplifyFree zero (List.range rows) (fun i e => C i (e + 1).toNat) mode with
      | some l => showList toString l
      | none => "err:type"
    | _ => "bad-request"

def handle (cmd : String) (args : List String) : String :=
  match args with
  | [s, mode, mat] =>
    match mode.toNat? with
    | none => "bad-request"
    | some md =>
      if s == "q" then
        match ratListList? mat with
        | some m => run (0 : Rat) showRat cmd md m
        | none => "bad-request"
      else if s == "f" then
        match floatListList? mat with
        | some m => run (0.0 : Float) showFloat cmd md m
        | none => "bad-request"
      else "bad-request"
  | _ => "bad-request"
end TV.Drv.C12
