import TracklibVerif.Model.PartitionArr
import TracklibVerif.Model.MinCircle
import TracklibVerif.Drv.Util
/-! Driver handler for C12. A matrix is `;`-separated rows of `,`-separated scalars; `<s>` selects the scalar:
`q` = exact rationals `p/q`, `f` = IEEE doubles as bit patterns.
  part <s> <mode> <matrix>      → `<index list> <D[0,N-1]>`   (`optimalPartitionA`: D and M as real arrays; N = rows − 1)
  opt <s> <mode> <matrix>       → `<D[0,N-1]>`                (function form `opt`, for cross-checking the two forms)
  seg <s> <mode> <W>            → index list of `optimalSegmentation` on a track of `rows(W)` observations with
                                  `cost(track, i, j-1) = W[i][j]` (cost as a total function)
  segpy <s> <mode> <sig> <glob> <WD> <WG>
                                → `optimalSegmentationPy`: `<sig>` = `3` (def cost(track,i,j)), `4` (…, p), `4d` (…, p=d),
                                  `nc` (not callable); `<glob>` = `none` | `some`; `WD[i][e+1]` = value of the call WITHOUT a
                                  fourth argument (function of three parameters / default `d`), `WG[i][e+1]` = value of the call
                                  with the parameter that was passed. Reply: index list, `_`, or `err:type|index|value`.
                                  The track has `rows(WD)` observations (`_` = empty track).
  simppy <s> <mode> <sig> <glob> <WD> <WG>   → indices of the observations kept by `optimalSimplificationPy`
  simplify <s> <smode> <sig> <glob> <WD> <WG> → `simplifyFree` (smode 7, 8: `<sig>`/`WD` describe the function given as
                                  `tolerance`) or `simplifyBuiltin` (smode 4, 5, 6: `WG` is the built-in cost at the tolerance given,
                                  `<glob>` says whether the tolerance is `None`); other smode: `bad-request`
  simplifyc <s> <smode> <sig> <glob> <WD> <WG> → `collectionSimplifyFree` (smode 7, 8) on a collection of two such tracks: the two
                                  index lists joined by `|`, or the first error
  matrix <s> <W>                → `segMatrixL` (loop form) of `optimalSegmentation` for `cost(track,i,j-1) = W[i][j]`, all rows
  stops <s> <far> <short> <small> <keep>
                                → `<reward matrix> <segmentation> <stops>`: `stopsMatrix` (loop form with the `break`),
                                  `stopsSegmentation`, `stopsReported` as `a-e` pairs; the four arguments are `size × size`
                                  tables indexed `[i][e]`: far/short/keep 0|1, small 0|1|2 (2 = `minCircle` returned `None`)
  stopsg <s> <diameter> <duration> <dist> <dur> <circ> <keep>
                                → the same for `findStopsGlobal` with ITS three tests (`stopPredGlobal`): `dist[i][e]`, `dur[i][e]`,
                                  `circ[i][e]` (a negative entry = `minCircle` returned `None`) are scalars compared by the model with
                                  `<diameter>` and `<duration>` (the harness passes squared lengths against the squared diameter)
  stopsd q <diameter> <duration> <downsampling> <track> <resampled> <circ2> <circA> <cx> <cy>
                                → `findStopsGlobalPyA` (= `findStopsGlobalPy`, theorem `find_stops_array_form`), from the caller's arguments
                                  (`<downsampling>` = `v1` / `v0`: the dispatcher `findStopsPy` called with `verbose` True / False — `dispatchDs`: downsampling is 1 either way): `<track>` and `<resampled>` (`_` when not asked for)
                                  are rows `x,y,z,t`; the model chooses the track (`downsampling > 1`), computes the squared planimetric
                                  distances and the durations itself and applies the three tests and the final filter;
                                  `circ2[i][e]` / `circA[i][e]` = squared `2 * radius` of `minCircle` in the row loops / in the final
                                  filter (negative = `None`); `cx[i][e]`, `cy[i][e]` = centre of the circle of `circ2[i][e]`. Reply
                                  `<reward matrix> <segmentation> <stops> <enc>`, a stop being `a-e:id_ini:id_end:nb_points`, `<enc>` = 1
                                  iff every circle of `circ2` encloses the observations of its segment in the plane (`enclosedB`: the
                                  hypothesis of `stops_criterion` / `find_stops_global`, checked here); exact rationals only.
  mincircle q <eps> <points> <draws>
                                → `minCircleOfPoints` (`Model/MinCircle.lean`): `<points>` rows `x,y,z`, `<draws>` the values behind
                                  the successive `random.randint` calls (`draws[k % len]`, reduced modulo `len(P)` by the model).
                                  Reply `none` | `random` | `stuck` | `<cx> <cy> <r²> <draws made> <enc>` (`enc` = 1 iff the circle
                                  encloses every point, `≤`); exact rationals only.
errors: `err:index` (one row: `backward` indexes an empty table), `err:value` (no row: negative dimension). -/
namespace TV.Drv.C12
open TV.Partition TV.Drv

def square {α} (m : List (List α)) : Bool := m.all (fun r => r.length == m.length)

def fn {α} (zero : α) (m : List (List α)) : Nat → Nat → α :=
  let a := (m.map List.toArray).toArray
  fun i j => ((a[i]?).bind (·[j]?)).getD zero

def showErr : Err → String
  | .type => "err:type"
  | .index => "err:index"
  | .value => "err:value"

def showRes (r : Except Err (List Nat)) : String :=
  match r with
  | .ok l => showList toString l
  | .error e => showErr e

/-- the cost function described by `<sig> <WD> <WG>`; the global parameter is abstract (`Nat`: `0` = the default value,
`1` = the value that was passed) -/
def costFn {α} (zero : α) (sig : String) (wd wg : List (List α)) : Option (CostFn Nat α) :=
  let D := fn zero wd
  let G := fn zero wg
  let f : Nat → Int → Nat → α := fun i e p => if p = 0 then D i (e + 1).toNat else G i (e + 1).toNat
  match sig with
  | "3" => some (.three (fun i e => D i (e + 1).toNat))
  | "4" => some (.four f)
  | "4d" => some (.fourD f 0)
  | "nc" => some .notCallable
  | _ => none

def glob? (g : String) : Option (Option Nat) :=
  if g == "none" then some none else if g == "some" then some (some 1) else none

def run {α} [Add α] [LT α] [DecidableLT α] (zero : α) (shw : α → String) (cmd : String) (mode : Nat)
    (m : List (List α)) : String :=
  if !square m then "bad-request"
  else if cmd == "matrix" then
    let C := segMatrixL zero m.length (fun i e => fn zero m i (e + 1).toNat)
    showListList shw ((List.range m.length).map (fun i => (List.range m.length).map (fun j => C i j)))
  else if m.length == 0 then "err:value"
  else if m.length == 1 then "err:index"
  else
    let rows := m.length
    let C := fn zero m
    match cmd with
    | "part" =>
      let t := tablesA zero rows C mode
      s!"{showList toString (backward (mget 0 t.M) (rows - 1))} {shw (mget zero t.D 0 (rows - 2))}"
    | "opt" => shw (opt (better mode) (· + ·) C (rows - 1) 0 (rows - 2)).1
    | "seg" => showList toString (optimalSegmentation zero rows (fun i e => C i (e + 1).toNat) mode)
    | _ => "bad-request"

def runPy {α} [Add α] [LT α] [DecidableLT α] (zero : α) (cmd : String) (mode : Nat) (sig glob : String)
    (wd wg : List (List α)) : String :=
  if !square wd || !square wg || wd.length != wg.length then "bad-request"
  else
    match costFn zero sig wd wg, glob? glob with
    | some c, some g =>
      let size := wd.length
      match cmd with
      | "segpy" => showRes (optimalSegmentationPy zero size c g mode)
      | "simppy" => showRes (optimalSimplificationPy zero (List.range size) c g mode)
      | "simplify" =>
        let r := if mode == 7 || mode == 8 then simplifyFree zero (List.range size) c mode
                 else simplifyBuiltin zero (List.range size) (fun _ i e (p : Nat) => if p = 0 then fn zero wd i (e + 1).toNat else fn zero wg i (e + 1).toNat) g mode
        match r with
        | some r => showRes r
        | none => "bad-request"
      | "simplifyc" =>
        -- `TrackCollection([track, track']).simplify(cost, smode)` on two tracks of the same `size` observations
        if mode == 7 || mode == 8 then
          match collectionSimplifyFree zero c mode [List.range size, List.range size] with
          | some (.ok rs) => joinWith "|" (rs.map (showList toString))
          | some (.error e) => showErr e
          | none => "bad-request"
        else "bad-request"
      | _ => "bad-request"
    | _, _ => "bad-request"

def bool01? (m : List (List Nat)) : Bool := m.all (fun r => r.all (· ≤ 1))

def runStops {α} [Add α] [LT α] [DecidableLT α] (zero : α) (shw : α → String) (sq : Nat → α)
    (far short small keep : List (List Nat)) : String :=
  let size := far.length
  if !(square far && square short && square small && square keep && short.length == size && small.length == size
        && keep.length == size && bool01? far && bool01? short && bool01? keep && small.all (fun r => r.all (· ≤ 2))) then "bad-request"
  else if size == 0 then "err:value"
  else if size == 1 then "err:index"
  else
    let p : StopPred := {
      far := fun i e => fn 0 far i e == 1
      short := fun i e => fn 0 short i e == 1
      small := fun i e => match fn 2 small i e with | 0 => some false | 1 => some true | _ => none }
    let C := stopsMatrix zero sq p size
    let mat := (List.range size).map (fun i => (List.range size).map (fun j => C i j))
    let st := stopsReported zero sq p (fun a e => fn 0 keep a e == 1) size
    s!"{showListList shw mat} {showList toString (stopsSegmentation zero sq p size)} {joinWith "," (st.map (fun ae => s!"{ae.1}-{ae.2}"))}"

def runStopsG {α} [Add α] [LT α] [DecidableLT α] (zero : α) (shw : α → String) (sq : Nat → α) (diameter duration : α)
    (dist dur circ : List (List α)) (keep : List (List Nat)) : String :=
  let size := dist.length
  if !(square dist && square dur && square circ && square keep && dur.length == size && circ.length == size
        && keep.length == size && bool01? keep) then "bad-request"
  else if size == 0 then "err:value"
  else if size == 1 then "err:index"
  else
    let p : StopPred := stopPredGlobal (fn zero dist) (fn zero dur)
      (fun i e => let v := fn zero circ i e; if v < zero then none else some v) diameter duration
    let C := stopsMatrix zero sq p size
    let mat := (List.range size).map (fun i => (List.range size).map (fun j => C i j))
    let st := stopsReported zero sq p (fun a e => fn 0 keep a e == 1) size
    s!"{showListList shw mat} {showList toString (stopsSegmentation zero sq p size)} {joinWith "," (st.map (fun ae => s!"{ae.1}-{ae.2}"))}"

def fix? {α} (r : List α) : Option (Fix α) :=
  match r with
  | [x, y, z, t] => some ⟨x, y, z, t⟩
  | _ => none

def runStopsD (diameter duration ds : Rat) (track resampled circ circA cxs cys : List (List Rat)) : String :=
  match track.mapM fix?, resampled.mapM fix? with
  | some tr0, some rs =>
    let tr := stopsTrack (1 : Rat) ds tr0 rs
    let size := tr.length
    if !(square circ && square circA && circ.length == size && circA.length == size
          && square cxs && square cys && cxs.length == size && cys.length == size) then "bad-request"
    else
      let sq : Nat → Rat := fun n => ((n * n : Nat) : Rat)
      let opt : List (List Rat) → Nat → Nat → Option Rat := fun m i e => let v := fn 0 m i e; if v < 0 then none else some v
      match findStopsGlobalPyA (0 : Rat) 1 sq (fun n => (n : Rat)) tr0 rs (opt circ) (opt circA) diameter duration ds with
      | .error e => showErr e
      | .ok (seg, st, ids) =>
        let f := getFix (0 : Rat) tr
        let p := stopPredTrack (0 : Rat) f (opt circ) diameter duration
        let C := stopsMatrix (0 : Rat) sq p size
        let mat := (List.range size).map (fun i => (List.range size).map (fun j => C i j))
        let items := (st.zip ids).map (fun x => s!"{x.1.1}-{x.1.2}:{showRat x.2.1}:{showRat x.2.2.1}:{x.2.2.2}")
        let enc := enclosedB (4 : Rat) f (opt circ) (fn 0 cxs) (fn 0 cys) size
        s!"{showListList showRat mat} {showList toString seg} {joinWith "," items} {showBool enc}"
  | _, _ => "bad-request"

def mincircle (args : List String) : String :=
  match args with
  | [s, eps, pts, draws] =>
    if s != "q" then "bad-request"
    else match rat? eps, ratListList? pts, natList? draws with
      | some e, some rows, some dr =>
        if dr.isEmpty then "bad-request" else
        match rows.mapM (fun r => match r with | [x, y, z] => some (TV.MinCircle.Pt.mk x y z) | _ => none) with
        | none => "bad-request"
        | some P =>
          let a := dr.toArray
          match TV.MinCircle.minCircleOfPoints e (fun k => a[k % a.size]!) P with
          | (.none, _) => "none"
          | (.random, _) => "random"
          | (.stuck, _) => "stuck"
          | (.circ c, k) => s!"{showRat c.cx} {showRat c.cy} {showRat c.r2} {k} {showBool (TV.MinCircle.encloses c P)}"
      | _, _, _ => "bad-request"
  | _ => "bad-request"

def handle (cmd : String) (args : List String) : String :=
  if cmd == "mincircle" then mincircle args else
  match args with
  | [s, mat] =>
    if cmd != "matrix" then "bad-request"
    else if s == "q" then
      match ratListList? mat with
      | some m => run (0 : Rat) showRat cmd 0 m
      | none => "bad-request"
    else if s == "f" then
      match floatListList? mat with
      | some m => run (0.0 : Float) showFloat cmd 0 m
      | none => "bad-request"
    else "bad-request"
  | [s, mode, mat] =>
    match mode.toNat? with
    | none => "bad-request"
    | some md =>
      if cmd == "matrix" then "bad-request"
      else if s == "q" then
        match ratListList? mat with
        | some m => run (0 : Rat) showRat cmd md m
        | none => "bad-request"
      else if s == "f" then
        match floatListList? mat with
        | some m => run (0.0 : Float) showFloat cmd md m
        | none => "bad-request"
      else "bad-request"
  | [s, far, short, small, keep] =>
    if cmd != "stops" then "bad-request"
    else
      match natListList? far, natListList? short, natListList? small, natListList? keep with
      | some a, some b, some c, some d =>
        if s == "q" then runStops (0 : Rat) showRat (fun n => ((n * n : Nat) : Rat)) a b c d
        else if s == "f" then runStops (0.0 : Float) showFloat (fun n => (n * n).toFloat) a b c d
        else "bad-request"
      | _, _, _, _ => "bad-request"
  | [s, dia, du, dist, dur, circ, keep] =>
    if cmd != "stopsg" then "bad-request"
    else if s == "q" then
      match rat? dia, rat? du, ratListList? dist, ratListList? dur, ratListList? circ, natListList? keep with
      | some a, some b, some c, some d, some e, some k =>
        runStopsG (0 : Rat) showRat (fun n => ((n * n : Nat) : Rat)) a b c d e k
      | _, _, _, _, _, _ => "bad-request"
    else if s == "f" then
      match float? dia, float? du, floatListList? dist, floatListList? dur, floatListList? circ, natListList? keep with
      | some a, some b, some c, some d, some e, some k =>
        runStopsG (0.0 : Float) showFloat (fun n => (n * n).toFloat) a b c d e k
      | _, _, _, _, _, _ => "bad-request"
    else "bad-request"
  | [s, dia, du, ds, track, resampled, circ, circA, cxs, cys] =>
    if cmd != "stopsd" || s != "q" then "bad-request"
    else
      match rat? dia, rat? du, (if ds == "v1" then some (dispatchDs (1 : Rat) true) else if ds == "v0" then some (dispatchDs (1 : Rat) false)
          else rat? ds), ratListList? track, ratListList? resampled, ratListList? circ, ratListList? circA,
        ratListList? cxs, ratListList? cys with
      | some a, some b, some c, some t, some r, some e, some k, some x, some y => runStopsD a b c t r e k x y
      | _, _, _, _, _, _, _, _, _ => "bad-request"
  | [s, mode, sig, glob, wd, wg] =>
    match mode.toNat? with
    | none => "bad-request"
    | some md =>
      if s == "q" then
        match ratListList? wd, ratListList? wg with
        | some a, some b => runPy (0 : Rat) cmd md sig glob a b
        | _, _ => "bad-request"
      else if s == "f" then
        match floatListList? wd, floatListList? wg with
        | some a, some b => runPy (0.0 : Float) cmd md sig glob a b
        | _, _ => "bad-request"
      else "bad-request"
  | _ => "bad-request"
end TV.Drv.C12
