import TracklibVerif.Lemmas.RasterLayout
/-! # C19 — the feature table of the tracks (property theorems; continuation of `Props/C19.lean`)

"Each cell's aggregate … equals that aggregate computed over exactly the feature values of the observations located in the
cell": the feature value of an observation is what `Track.getObsAnalyticalFeature(name, i)` returns, i.e.
`Obs.features[rank]` with the rank of `name` looked up in the dictionary of THAT track. Tracks of one collection may hold
the same features at different ranks. The theorems of `Props/C19.lean` speak of the values by name (`Trk.feats`,
`featVals`); the ones below justify that view:

* `add_collection_by_name` — `addCollectionToRaster` (`addColl`) depends on the tracks only through their positions and
  their values by name for the features of the bands;
* `track_layout_sound` — a track whose features are built by ANY script of `createAnalyticalFeature` /
  `removeAnalyticalFeature` / `setObsAnalyticalFeature` calls on the concrete table (dictionary of ranks + one value list per
  observation; `Model/RasterLayout.lean`, on the model of `core/track.py` of C01): what the raster reads through the ranks is the
  content of the table BY NAME after the same script (`runScriptA`, in which no rank occurs), and every feature has one value
  per observation;
* `add_collection_layout_independent` — hence two collections whose tracks were built by different scripts (another creation
  order, extra features, temporary features removed, features re-created) with the same content by name are scattered alike.

These statements hold for any scalar type (no arithmetic is used): for Python's floats too. -/
set_option linter.unusedSectionVars false
namespace TV.C19
open TV.Raster TV.Features

section byName
variable {α : Type} [Add α] [Sub α] [Mul α] [Div α] [OfNat α 0] [OfNat α 1] [OfNat α 2] [IntCast α] [NatCast α]
  [LT α] [DecidableLT α] [LE α] [DecidableLE α] [BEq α]

/-- `addCollectionToRaster` sees a collection only through the positions of its tracks and, for the features `afo` of the
    bands, their values BY NAME (`featVals`: `uid`, `x`, `y`, `idx`, or the track's own feature of that name): two
    collections that agree on those, track by track, leave the raster in the same state with the same outcome — on a
    raster in any state, failing calls included. -/
theorem add_collection_by_name (floor : α → Int) (s : RState α) (afo : List String) (ts ts' : List (Trk α))
    (h : SameColl afo ts ts') : addColl floor s afo ts = addColl floor s afo ts' :=
  addColl_congr floor s afo ts ts' h

/-- the content by name of the feature table of a track of `pts.length` observations after the script: the script run on
    the specification table of C01 (`ATab`: name ↦ column, no ranks) -/
def byNameAfter (pts : List (α × α)) (steps : List (LStep α)) : List (String × List (Option α)) :=
  (runScriptA steps (abs (tab0 pts))).2.cols

/-- A track built by a script that does not raise, whatever the ranks the script leaves in the dictionary: its positions
    and uid are those given; the features the raster model sees are the table's content by name after the script; the value
    list read for a feature name (other than the built-in `uid`, `x`, `y`, `idx`) is the column of that name; every feature
    has exactly one value per observation (so `addColl`'s scatter pairs positions and values one to one) and no name occurs
    twice. -/
theorem track_layout_sound (uid : α) (pts : List (α × α)) (steps : List (LStep α)) (t : Trk α)
    (h : trkOfScript uid pts steps = some t) :
    t.uid = uid ∧ t.pts = pts ∧ t.feats = byNameAfter pts steps
      ∧ (∀ af, af ≠ "uid" → af ≠ "x" → af ≠ "y" → af ≠ "idx" → featVals t af = Features.lookup (byNameAfter pts steps) af)
      ∧ (∀ f ∈ t.feats, f.2.length = pts.length) ∧ (t.feats.map Prod.fst).Nodup := by
  unfold trkOfScript at h
  obtain ⟨hinv, hsim, _⟩ := sim_script pts.length steps (tab0 pts) (inv_tab0 pts)
  cases hr : runScript steps (tab0 pts) with
  | mk r st =>
    rw [hr] at h hinv hsim
    cases r with
    | error e => simp at h
    | ok u =>
      simp only [Option.some.injEq] at h
      subst h
      have hfe : featsOfTab st = byNameAfter pts steps := by
        unfold byNameAfter
        rw [hsim]
        rfl
      refine ⟨rfl, rfl, hfe, ?_, ?_, ?_⟩
      · intro af h1 h2 h3 h4
        unfold featVals
        simp only [h1, h2, h3, h4, if_false]
        rw [← hfe]
        exact list_lookup_eq _ af
      · intro f hf
        simp only [featsOfTab, List.mem_map] at hf
        obtain ⟨p, _, rfl⟩ := hf
        simp [hinv.size]
      · have : (featsOfTab st).map Prod.fst = names st := by
          simp [featsOfTab, names, List.map_map, Function.comp_def]
        show ((featsOfTab st).map Prod.fst).Nodup
        rw [this]
        exact hinv.nodup

/-- Layout independence. Two collections of tracks built by scripts (track by track: same uid, same positions, ANY two
    scripts that do not raise and leave the same content by name for the features `afo` of the bands — another creation
    order, extra or temporary features, features removed and created again) are scattered alike by
    `addCollectionToRaster`: same state, same outcome. `afo` is assumed free of the names `uid`, `x`, `y`, `idx`
    only to keep the hypothesis about the tables; those four are read from uid and positions, which are equal. -/
theorem add_collection_layout_independent (floor : α → Int) (s : RState α) (afo : List String)
    (specs : List (α × List (α × α) × List (LStep α) × List (LStep α))) (ts ts' : List (Trk α))
    (h1 : specs.map (fun q => trkOfScript q.1 q.2.1 q.2.2.1) = ts.map some)
    (h2 : specs.map (fun q => trkOfScript q.1 q.2.1 q.2.2.2) = ts'.map some)
    (hsame : ∀ q ∈ specs, ∀ af ∈ afo, Features.lookup (byNameAfter q.2.1 q.2.2.1) af = Features.lookup (byNameAfter q.2.1 q.2.2.2) af) :
    addColl floor s afo ts = addColl floor s afo ts' := by
  apply add_collection_by_name
  induction specs generalizing ts ts' with
  | nil =>
    cases ts <;> cases ts' <;> simp at h1 h2
    exact SameColl.nil
  | cons q rest ih =>
    cases ts with
    | nil => simp at h1
    | cons t ts =>
      cases ts' with
      | nil => simp at h2
      | cons t' ts' =>
        simp only [List.map_cons, List.cons.injEq] at h1 h2
        obtain ⟨u1, p1, _, l1, _, _⟩ := track_layout_sound _ _ _ t h1.1
        obtain ⟨u2, p2, _, l2, _, _⟩ := track_layout_sound _ _ _ t' h2.1
        refine SameColl.cons ⟨p1.trans p2.symm, ?_⟩ (ih ts ts' h1.2 h2.2 (fun q' hq' => hsame q' (by simp [hq'])))
        intro af haf
        by_cases a1 : af = "uid"
        · subst a1; simp [featVals, u1, u2, p1, p2]
        by_cases a2 : af = "x"
        · subst a2; simp [featVals, p1, p2]
        by_cases a3 : af = "y"
        · subst a3; simp [featVals, p1, p2]
        by_cases a4 : af = "idx"
        · subst a4; simp [featVals, p1, p2]
        rw [l1 af a1 a2 a3 a4, l2 af a1 a2 a3 a4]
        exact hsame q (by simp) af haf

end byName

/-! Non-vacuity: two scripts with different final ranks and the same content by name. -/
section examples
def scriptA : List (LStep Int) := [.create "v" [some 3, none], .create "w" [some 5, some 6]]
def scriptB : List (LStep Int) :=
  [.create "tmp" [none, none], .create "w" [some 0, some 0], .remove "tmp", .create "v" [some 3, some 9],
   .write "w" [some 5, some 6], .write "v" [some 3, none]]

/-- ranks after the scripts: v ↦ 0, w ↦ 1 and w ↦ 0, v ↦ 1 -/
example : (runScript scriptA (tab0 [((0 : Int), (0 : Int)), (1, 1)])).2.dico = [("v", 0), ("w", 1)]
    ∧ (runScript scriptB (tab0 [((0 : Int), (0 : Int)), (1, 1)])).2.dico = [("w", 0), ("v", 1)] := by decide +kernel

example : (trkOfScript (7 : Int) [(0, 0), (1, 1)] scriptA).map (fun t => (featVals t "v", featVals t "w"))
      = some (some [some 3, none], some [some 5, some 6])
    ∧ (trkOfScript (7 : Int) [(0, 0), (1, 1)] scriptB).map (fun t => (featVals t "v", featVals t "w"))
      = some (some [some 3, none], some [some 5, some 6]) := by decide +kernel
end examples

end TV.C19
