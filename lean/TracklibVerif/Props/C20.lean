import TracklibVerif.Lemmas.Proj
import TracklibVerif.Lemmas.ProjExt
import TracklibVerif.Lemmas.ProjTrack
import TracklibVerif.Lemmas.ProjNear
import Mathlib.Analysis.Real.Sqrt
/-! # C20 — projecting a point on a polyline returns its nearest point

Property theorems only (helpers in `Lemmas/Proj.lean`), about the model `Model/Proj.lean` of
`geometry.cartesienne / projection_droite / proj_segment / proj_polyligne` and
`mapping.__projOnTrack / mapOnTrack`, over any linearly ordered field (ℚ, ℝ), for a `sqrt` parameter with
`0 ≤ v → 0 ≤ sqrt v ∧ sqrt v * sqrt v = v`. Distances are compared squared:
`d2 x y px py = (x-px)² + (y-py)²`, and `OnSeg x1 y1 x2 y2 px py` says `(px,py) = (x1,y1) + t·((x2,y2)-(x1,y1))`
for some `0 ≤ t ≤ 1`.

What is and is not proved. T1 and T2 hold for every segment. Minimality (T3, T4) is proved for
**non-vertical** segments only: for a vertical segment the code (as it is, pinned by
`test_geometry.py::testProjSegment`) returns the nearest END point or raises — see `vertical_as_coded`
and the counter-examples, which are evaluated on the model. For every non-vertical orientation the statement
is proved at the strength of the property: `proj_segment_nearest_partial` (one segment: point on it, distance
to it, minimal), `proj_segment_horizontal` (closed form for horizontal segments), `proj_polyline_vertices` and
`proj_polyline_nearest_partial` (polyline: index of the carrying segment, point on it, distance to it, minimal
over every point of every segment, the skipped zero-length segments included — and, since the `fix:` commit 563eeba, also
when NO segment is kept: all the vertices coincide), `proj_polyline_skipped_partial` (a skipped
segment of non-zero length `< 1e-16` touching a kept one is covered up to `1e-16`), `proj_polyline_skipped_run` /
`proj_polyline_skipped_run_back` (a run of `k` consecutive skipped segments from a kept end: up to `k · 1e-16`),
`proj_polyline_all_skipped` (EVERY segment skipped — the case the fix repaired; before it the code raised
`UnboundLocalError` —: the first vertex is returned with the distance to it, and the polyline is that point up to
(number of segments) × `1e-16`), `proj_polyline_on` (what any answer guarantees on any polyline), `projPolyligne_vs_old`
(the repair changes nothing where the old code returned). An empty polyline raises `IndexError`. IEEE rounding is outside these
statements (the horizontal-segment defect D17 and its near-vertical counterpart exist only in floating point).

Front ends (second half of the file): the argument forms of `proj_segment` / `proj_polyligne` (lists vs numpy
arrays, two sequences of unequal lengths), `Track.getX()/getY()` on 3D positions, `__projOnTrack` and both
branches of `mapOnTrack` are in the model; `projOnTrack3_planimetric` says that the projection is planimetric
(no altitude is read, the returned point has third coordinate 0), so that every theorem about `projPolyligne`
applies to `mapOnTrack` on 3D data through `mapOnTrack3_coord` / `mapOnTrack3_track`.

Track objects (last part of the file, model `Model/ProjTrack.lean`): the Track branch of `mapOnTrack` on tracks that carry
STATE — a table of analytical features (possibly with features called `dist` / `edge`: the output of an earlier
`mapOnTrack`), time stamps. `mapOnTrackT_rows`: the output is a fresh track with exactly the features `dist`, `edge`,
whose columns are the distance and the segment index of THIS projection of every query, whatever the track of queries
carried (`mapOnTrackT_ignores_state`); `mapChain_calls`: in chained snapping every call is such a projection of the
positions of the previous output; `mapOnTrackT_nearest_partial`: the property at full strength through the track
form; `mapOnTrackT_empty`: a track of queries without observation raises.

The listed finding as a case (end of the file): `vertical_zerodiv_iff` (which queries raise on a vertical segment) and
`proj_polyline_vertical_case` (what an answer on a polyline WITH kept vertical segments still guarantees: the reported
segment is vertical and the point is one of its ends, or the answer is right w.r.t. the non-vertical segments) — the model's
side of the class `vertical-segment` by which the harness excuses failing answers (recognised from the geometry of the
input, whatever the failure looks like). -/
namespace TV.C20
open TV.Proj
variable {α : Type} [Field α] [LinearOrder α] [IsStrictOrderedRing α]

/-- the contract of the `sqrt` parameter is inhabited: `Real.sqrt` -/
example : SqrtSpec Real.sqrt := fun v hv => ⟨Real.sqrt_nonneg v, Real.mul_self_sqrt hv⟩

/-- T1 `proj_on_segment`: whenever `proj_segment` returns, the returned point lies on the segment —
for every segment, vertical ones included (foot accepted by the inclusion test, or an end point). -/
theorem proj_on_segment {sqrt : α → α} (hs : SqrtSpec sqrt) (x1 y1 x2 y2 x y d px py : α)
    (h : projSegment sqrt x1 y1 x2 y2 x y = .ok (d, px, py)) : OnSeg x1 y1 x2 y2 px py := by
  have ends : ∀ r : α × α × α, ((r.2.1 = x1 ∧ r.2.2 = y1) ∨ (r.2.1 = x2 ∧ r.2.2 = y2)) →
      r = (d, px, py) → OnSeg x1 y1 x2 y2 px py := by
    intro r hr e
    subst e
    rcases hr with ⟨e1, e2⟩ | ⟨e1, e2⟩
    · exact ⟨0, le_refl _, zero_le_one, by simp at e1; rw [e1]; ring, by simp at e2; rw [e2]; ring⟩
    · exact ⟨1, zero_le_one, le_refl _, by simp at e1; rw [e1]; ring, by simp at e2; rw [e2]; ring⟩
  by_cases hx : x1 = x2
  · subst hx
    by_cases hy : y1 = y2
    · subst hy; rw [projSegment_degenerate hs] at h; cases h
    · rw [projSegment_vertical hs _ _ _ _ _ hy] at h
      split at h
      · cases h
      · exact ends _ (nearestEnd_spec hs x1 y1 x1 y2 x y).2.2.2.2 (by injection h)
  · rw [projSegment_nonvertical hs _ _ _ _ _ _ hx] at h
    split at h
    · rename_i hin
      rw [footX_param _ _ _ _ _ _ hx, footY_param _ _ _ _ _ _ hx] at hin h
      obtain ⟨t0, t1⟩ := included_param _ _ _ _ _ hx hin
      injection h with h; injection h with _ h; injection h with h1 h2
      exact ⟨_, t0, t1, h1.symm, h2.symm⟩
    · exact ends _ (nearestEnd_spec hs x1 y1 x2 y2 x y).2.2.2.2 (by injection h)

/-- T2 `proj_dist_consistent`: the returned distance is the distance from the query to the returned
point (`0 ≤ d` and `d² = (x-px)² + (y-py)²`), for every segment on which `proj_segment` returns. (In the
foot branch `b ≠ 0` necessarily: with `b = 0` that branch raises `ZeroDivisionError`.) -/
theorem proj_dist_consistent {sqrt : α → α} (hs : SqrtSpec sqrt) (x1 y1 x2 y2 x y d px py : α)
    (h : projSegment sqrt x1 y1 x2 y2 x y = .ok (d, px, py)) : 0 ≤ d ∧ d * d = d2 x y px py := by
  have ends : ∀ r : α × α × α, (0 ≤ r.1 ∧ r.1 * r.1 = d2 x y r.2.1 r.2.2) →
      r = (d, px, py) → 0 ≤ d ∧ d * d = d2 x y px py := by
    intro r hr e; subst e; exact hr
  by_cases hx : x1 = x2
  · subst hx
    by_cases hy : y1 = y2
    · subst hy; rw [projSegment_degenerate hs] at h; cases h
    · rw [projSegment_vertical hs _ _ _ _ _ hy] at h
      split at h
      · cases h
      · have s := nearestEnd_spec hs x1 y1 x1 y2 x y
        exact ends _ ⟨s.1, s.2.1⟩ (by injection h)
  · rw [projSegment_nonvertical hs _ _ _ _ _ _ hx] at h
    split at h
    · have hb : cB x1 x2 ≠ 0 := by unfold cB; intro h'; apply hx; linear_combination h'
      have hN := norm_pos (cA y1 y2) (cB x1 x2) hb
      have hn := sqrt_pos hs _ hN
      obtain ⟨_, hnn⟩ := hs _ (le_of_lt hN)
      injection h with h; injection h with hd h; injection h with h1 h2
      subst hd h1 h2
      refine ⟨div_nonneg (fabs_nonneg _) (le_of_lt hn), ?_⟩
      rw [foot_d2 _ _ _ _ _ hb, div_mul_div_comm, fabs_mul_self, hnn]
    · have s := nearestEnd_spec hs x1 y1 x2 y2 x y
      exact ends _ ⟨s.1, s.2.1⟩ (by injection h)

/-- T3 `proj_segment_min_partial`: on a **non-vertical** segment (`x1 ≠ x2`; horizontal and oblique ones)
`proj_segment` always returns, and the returned distance is at most the distance from the query to every
point of the segment. With T1 and T2: the returned point is a nearest point of the segment.
Missing w.r.t. the property: vertical segments (false there, see below). -/
theorem proj_segment_min_partial {sqrt : α → α} (hs : SqrtSpec sqrt) (x1 y1 x2 y2 x y : α) (hx : x1 ≠ x2) :
    ∃ d px py, projSegment sqrt x1 y1 x2 y2 x y = .ok (d, px, py) ∧
      ∀ qx qy, OnSeg x1 y1 x2 y2 qx qy → d * d ≤ d2 x y qx qy := by
  have hb : cB x1 x2 ≠ 0 := by unfold cB; intro h'; apply hx; linear_combination h'
  have hN := norm_pos (cA y1 y2) (cB x1 x2) hb
  rw [projSegment_nonvertical hs _ _ _ _ _ _ hx]
  split
  · refine ⟨_, _, _, rfl, ?_⟩
    intro qx qy ⟨t, _, _, e1, e2⟩
    have hn := sqrt_pos hs _ hN
    obtain ⟨_, hnn⟩ := hs _ (le_of_lt hN)
    rw [div_mul_div_comm, fabs_mul_self, hnn]
    apply line_dist_le _ _ _ _ _ _ _ hb
    rw [e1, e2]; unfold cA cB cC; ring
  · rename_i hin
    refine ⟨(nearestEnd sqrt x1 y1 x2 y2 x y).1, (nearestEnd sqrt x1 y1 x2 y2 x y).2.1,
      (nearestEnd sqrt x1 y1 x2 y2 x y).2.2, rfl, ?_⟩
    intro qx qy ⟨t, t0, t1, e1, e2⟩
    obtain ⟨_, _, le1, le2, _⟩ := nearestEnd_spec hs x1 y1 x2 y2 x y
    generalize (nearestEnd sqrt x1 y1 x2 y2 x y).1 = r at *
    rw [footX_param _ _ _ _ _ _ hx, footY_param _ _ _ _ _ _ hx] at hin
    have hS := seg_norm_pos x1 y1 x2 y2 hx
    have out : tstar x1 y1 x2 y2 x y < 0 ∨ 1 < tstar x1 y1 x2 y2 x y := by
      by_contra hc
      rw [not_or] at hc
      exact hin (param_included _ _ _ _ _ (le_of_not_gt hc.1) (le_of_not_gt hc.2))
    have q1 : d2 x y x2 y2 = d2 x y x1 y1 +
        ((x2 - x1) * (x2 - x1) + (y2 - y1) * (y2 - y1)) * (1 - 2 * tstar x1 y1 x2 y2 x y) := by
      have h1 := d2_param x1 y1 x2 y2 x y 1 hx
      rw [show x1 + 1 * (x2 - x1) = x2 by ring, show y1 + 1 * (y2 - y1) = y2 by ring] at h1
      rw [h1]; ring
    rw [e1, e2, d2_param _ _ _ _ _ _ _ hx]
    generalize tstar x1 y1 x2 y2 x y = T at *
    generalize (x2 - x1) * (x2 - x1) + (y2 - y1) * (y2 - y1) = S at *
    generalize d2 x y x1 y1 = D1 at *
    generalize d2 x y x2 y2 = D2 at *
    rcases out with ho | ho
    · have h1 : 0 ≤ t * (t - 2 * T) := mul_nonneg t0 (by linarith)
      have h2 := mul_nonneg (le_of_lt hS) h1
      linarith
    · have h1 : 0 ≤ (1 - t) * (2 * T - 1 - t) := mul_nonneg (by linarith) (by linarith)
      have h2 := mul_nonneg (le_of_lt hS) h1
      have e : S * ((1 - t) * (2 * T - 1 - t)) = S * (t * (t - 2 * T)) - S * (1 - 2 * T) := by ring
      rw [q1] at le2
      linarith

/-- The behaviour on a vertical segment, exactly as coded (defect D16): either `ZeroDivisionError`
(when the query has the segment's abscissa and `y2 - y1` lies between `y1` and `y2`) or the nearer of
the two END points — never the foot of the perpendicular. -/
theorem vertical_as_coded {sqrt : α → α} (hs : SqrtSpec sqrt) (x1 y1 y2 x y : α) (hy : y1 ≠ y2) :
    projSegment sqrt x1 y1 x1 y2 x y = .error .zerodiv ∨
    ∃ d, (projSegment sqrt x1 y1 x1 y2 x y = .ok (d, x1, y1) ∨ projSegment sqrt x1 y1 x1 y2 x y = .ok (d, x1, y2))
      ∧ d * d ≤ d2 x y x1 y1 ∧ d * d ≤ d2 x y x1 y2 := by
  rw [projSegment_vertical hs _ _ _ _ _ hy]
  split
  · exact Or.inl rfl
  · right
    obtain ⟨_, _, le1, le2, hp⟩ := nearestEnd_spec hs x1 y1 x1 y2 x y
    refine ⟨(nearestEnd sqrt x1 y1 x1 y2 x y).1, ?_, le1, le2⟩
    rcases hp with ⟨e1, e2⟩ | ⟨e1, e2⟩
    · left; congr 1; ext <;> simp [e1, e2]
    · right; congr 1; ext <;> simp [e1, e2]

/-- T4 `proj_polyline_min_partial`: when `proj_polyligne` returns `(d, (px,py), i)` on a polyline with at least one
segment that is not skipped (`hex`; the other case — every segment skipped, the polyline is a point up to `1e-16` per
segment — is `proj_polyline_all_skipped`):
* `i` is the index of a segment of the polyline that was not skipped as (near-)zero-length, and `(px,py)` lies on it;
* `d` is the distance from the query to `(px,py)`;
* `d` is at most the distance to both end points of every non-skipped segment of any orientation, and at most
  the distance to **every point of every non-vertical** non-skipped segment.
Hence on a polyline without vertical segments the result is a nearest point and its carrying segment.
Missing w.r.t. the property: interior points of vertical segments (false there: D16). -/
theorem proj_polyline_min_partial {sqrt : α → α} (hs : SqrtSpec sqrt) (eps : α) (pts : List (α × α))
    (x y d px py : α) (i : Nat) (h : projPolyligne sqrt eps pts x y = .ok (d, px, py, i))
    (hex : ∃ j p1 p2, pts[j]? = some p1 ∧ pts[j + 1]? = some p2 ∧ skipped eps p1.1 p1.2 p2.1 p2.2 = false) :
    (∃ p1 p2, pts[i]? = some p1 ∧ pts[i + 1]? = some p2 ∧ skipped eps p1.1 p1.2 p2.1 p2.2 = false ∧
        OnSeg p1.1 p1.2 p2.1 p2.2 px py) ∧
    0 ≤ d ∧ d * d = d2 x y px py ∧
    (∀ j p1 p2, pts[j]? = some p1 → pts[j + 1]? = some p2 → skipped eps p1.1 p1.2 p2.1 p2.2 = false →
        (d * d ≤ d2 x y p1.1 p1.2 ∧ d * d ≤ d2 x y p2.1 p2.2) ∧
        (p1.1 ≠ p2.1 → ∀ qx qy, OnSeg p1.1 p1.2 p2.1 p2.2 qx qy → d * d ≤ d2 x y qx qy)) := by
  have hl := projPolyligne_kept sqrt eps pts x y _ hex h
  obtain ⟨o1, _, o3⟩ := polyLoop_spec sqrt eps x y pts 0 none _ hl
  have hfrom : FromSeg sqrt eps x y pts 0 (d, px, py, i) := by
    rcases o1 with e | ⟨r, e, f⟩
    · cases e
    · injection e with e; rw [e]; exact f
  obtain ⟨k, p1, p2, ⟨s1, s2⟩, hi, hk, hp⟩ := hfrom
  simp only [Nat.zero_add] at hi
  subst hi
  obtain ⟨d0, dd⟩ := proj_dist_consistent hs _ _ _ _ _ _ _ _ _ hp
  refine ⟨⟨p1, p2, s1, s2, hk, proj_on_segment hs _ _ _ _ _ _ _ _ _ hp⟩, d0, dd, ?_⟩
  intro j q1 q2 t1 t2 hj
  obtain ⟨r, rk, er, hrk, le⟩ := o3 j q1 q2 ⟨t1, t2⟩ hj
  injection er with er
  subst er
  simp only at le
  have sq : d * d ≤ rk.1 * rk.1 := mul_self_le_mul_self d0 le
  by_cases hx : q1.1 = q2.1
  · refine ⟨?_, fun hne => absurd hx hne⟩
    rw [← hx] at hrk
    by_cases hy : q1.2 = q2.2
    · rw [← hy, projSegment_degenerate hs] at hrk; cases hrk
    · rw [projSegment_vertical hs _ _ _ _ _ hy] at hrk
      split at hrk
      · cases hrk
      · injection hrk with hrk
        obtain ⟨_, _, le1, le2, _⟩ := nearestEnd_spec hs q1.1 q1.2 q1.1 q2.2 x y
        rw [hrk] at le1 le2
        rw [← hx]
        exact ⟨le_trans sq le1, le_trans sq le2⟩
  · obtain ⟨d', px', py', e', hmin⟩ := proj_segment_min_partial hs q1.1 q1.2 q2.1 q2.2 x y hx
    rw [hrk] at e'
    injection e' with e'
    have e1 : rk.1 = d' := by rw [e']
    rw [e1] at sq
    have all : ∀ qx qy, OnSeg q1.1 q1.2 q2.1 q2.2 qx qy → d * d ≤ d2 x y qx qy :=
      fun qx qy hq => le_trans sq (hmin qx qy hq)
    exact ⟨⟨all _ _ ⟨0, le_refl _, zero_le_one, by ring, by ring⟩,
            all _ _ ⟨1, zero_le_one, le_refl _, by ring, by ring⟩⟩, fun _ => all⟩

/-- T4b `proj_polyline_total`: on a polyline with at least one vertex and no non-skipped vertical segment,
`proj_polyligne` returns (no `ZeroDivisionError`, no `IndexError`) — whether or not a segment is kept (since the
`fix:` commit 563eeba a polyline all of whose segments are skipped is answered with its first vertex). -/
theorem proj_polyline_total {sqrt : α → α} (hs : SqrtSpec sqrt) (eps : α) (pts : List (α × α)) (x y : α)
    (hnv : ∀ j p1 p2, pts[j]? = some p1 → pts[j + 1]? = some p2 → skipped eps p1.1 p1.2 p2.1 p2.2 = false → p1.1 ≠ p2.1)
    (hne : pts ≠ []) :
    ∃ r, projPolyligne sqrt eps pts x y = .ok r := by
  have hall : ∀ k p1 p2, SegAt pts k p1 p2 → skipped eps p1.1 p1.2 p2.1 p2.2 = false →
      ∃ r, projSegment sqrt p1.1 p1.2 p2.1 p2.2 x y = .ok r := by
    intro k p1 p2 hs' hk
    obtain ⟨d, px, py, e, _⟩ := proj_segment_min_partial hs p1.1 p1.2 p2.1 p2.2 x y (hnv k p1 p2 hs'.1 hs'.2 hk)
    exact ⟨_, e⟩
  obtain ⟨res, e, _⟩ := polyLoop_total sqrt eps x y pts hall 0 none
  unfold projPolyligne
  match pts, hne, e with
  | p0 :: rest, _, e =>
    simp only [e]
    cases res with
    | some r => exact ⟨r, rfl⟩
    | none => exact ⟨_, rfl⟩

/-- `proj_polyline_all_skipped` (the case the `fix:` commit 563eeba repaired): a polyline ALL of whose segments are skipped by
the `abs(dx) + abs(dy) < eps` test (`1e-16`) — all the vertices coincide, exactly or up to the threshold per segment; a single
vertex. `proj_polyligne` returns its FIRST vertex `p0`, index `0`, and the distance `d` from the query to `p0`
(`0 ≤ d`, `d² = |q - p0|²`); the polyline IS that point up to (number of segments) × `eps`: every point `(qx, qy)` of its
`(t+1)`-th segment is within `(t + 1) * eps` of `p0` (in the `|dx| + |dy|` sense of the test), hence
`d ≤ |q - (qx, qy)| + (t + 1) * eps` and `|q - (qx, qy)| ≤ d + (t + 1) * eps`: the returned distance is the minimum distance to
the polyline up to that bound, and exactly when the vertices coincide exactly (`eps`-free form: `proj_polyline_nearest_partial`).
Every orientation (a skipped segment is never handed to `proj_segment`): no exception. Exact arithmetic. -/
theorem proj_polyline_all_skipped {sqrt : α → α} (hs : SqrtSpec sqrt) (eps : α) (p0 : α × α) (rest : List (α × α)) (x y : α)
    (hall : ∀ j p1 p2, (p0 :: rest)[j]? = some p1 → (p0 :: rest)[j + 1]? = some p2 → skipped eps p1.1 p1.2 p2.1 p2.2 = true) :
    ∃ d, projPolyligne sqrt eps (p0 :: rest) x y = .ok (d, p0.1, p0.2, 0) ∧ 0 ≤ d ∧ d * d = d2 x y p0.1 p0.2 ∧
      ∀ t a b, (p0 :: rest)[t]? = some a → (p0 :: rest)[t + 1]? = some b → ∀ qx qy, OnSeg a.1 a.2 b.1 b.2 qx qy →
        |qx - p0.1| + |qy - p0.2| ≤ ((t + 1 : Nat) : α) * eps ∧
        d ≤ sqrt (d2 x y qx qy) + ((t + 1 : Nat) : α) * eps ∧ sqrt (d2 x y qx qy) ≤ d + ((t + 1 : Nat) : α) * eps := by
  obtain ⟨d0, dd⟩ := hs _ (d2_nonneg x y p0.1 p0.2)
  refine ⟨sqrt (d2 x y p0.1 p0.2), projPolyligne_all_skipped sqrt eps p0 rest x y (fun k p1 p2 hk => hall k p1 p2 hk.1 hk.2),
    d0, dd, ?_⟩
  intro t a b ha hb qx qy hq
  have hlt : fabs (a.1 - b.1) + fabs (a.2 - b.2) < eps := by
    simpa [skipped] using hall t a b ha hb
  obtain ⟨n1, _⟩ := onSeg_near_ends _ _ _ _ _ _ hq
  obtain ⟨e0, ee⟩ := hs _ (d2_nonneg x y qx qy)
  have hr := run_near eps (p0 :: rest) 0 t p0 a rfl (by rw [Nat.zero_add]; exact ha)
    (fun s' hs' a' b' ha' hb' => hall s' a' b' (by rw [Nat.zero_add] at ha'; exact ha') (by rw [Nat.zero_add] at hb'; exact hb'))
  have t1 : |qx - p0.1| ≤ |qx - a.1| + |a.1 - p0.1| := abs_sub_le _ _ _
  have t2 : |qy - p0.2| ≤ |qy - a.2| + |a.2 - p0.2| := abs_sub_le _ _ _
  have hnear : |qx - p0.1| + |qy - p0.2| ≤ ((t + 1 : Nat) : α) * eps := by
    push_cast
    linarith
  have hnear' : |p0.1 - qx| + |p0.2 - qy| ≤ ((t + 1 : Nat) : α) * eps := by
    rw [abs_sub_comm p0.1 qx, abs_sub_comm p0.2 qy]; exact hnear
  exact ⟨hnear, near_vertex_bound x y p0.1 p0.2 qx qy _ _ _ d0 e0 (le_of_eq dd) ee hnear,
    near_vertex_bound x y qx qy p0.1 p0.2 _ _ _ e0 d0 (le_of_eq ee) dd hnear'⟩

/-- `proj_polyline_on`: what an answer `(d, (px,py), i)` of `proj_polyligne` guarantees on ANY polyline, with or without a kept
segment, of any orientation: vertex `i` exists; `d` is the distance from the query to `(px,py)`; when the polyline has at
least two vertices, segment `i` exists and `(px,py)` lies on it (a kept segment, or — every segment skipped — segment 0, of
which it is the first end); on a single-vertex polyline `i = 0` and `(px,py)` is that vertex. This is what C10's candidate
loop uses (position on an existing edge geometry, distance within the radius). -/
theorem proj_polyline_on {sqrt : α → α} (hs : SqrtSpec sqrt) (eps : α) (pts : List (α × α))
    (x y d px py : α) (i : Nat) (h : projPolyligne sqrt eps pts x y = .ok (d, px, py, i)) :
    0 ≤ d ∧ d * d = d2 x y px py ∧ ∃ p1, pts[i]? = some p1 ∧
      (2 ≤ pts.length → ∃ p2, pts[i + 1]? = some p2 ∧ OnSeg p1.1 p1.2 p2.1 p2.2 px py) ∧
      (pts.length = 1 → i = 0 ∧ (px, py) = p1) := by
  by_cases hex : ∃ j p1 p2, pts[j]? = some p1 ∧ pts[j + 1]? = some p2 ∧ skipped eps p1.1 p1.2 p2.1 p2.2 = false
  · obtain ⟨⟨p1, p2, s1, s2, _, hon⟩, d0, dd, _⟩ := proj_polyline_min_partial hs eps pts x y d px py i h hex
    refine ⟨d0, dd, p1, s1, fun _ => ⟨p2, s2, hon⟩, fun h1 => ?_⟩
    have := (List.getElem?_eq_some_iff.mp s2).1
    omega
  · have hsk : ∀ j p1 p2, pts[j]? = some p1 → pts[j + 1]? = some p2 → skipped eps p1.1 p1.2 p2.1 p2.2 = true := by
      intro j p1 p2 t1 t2
      cases hk : skipped eps p1.1 p1.2 p2.1 p2.2 with
      | true => rfl
      | false => exact absurd ⟨j, p1, p2, t1, t2, hk⟩ hex
    match pts, h, hsk with
    | [], h, _ => simp [projPolyligne] at h
    | p0 :: rest, h, hsk =>
      obtain ⟨d', e', d0, dd, _⟩ := proj_polyline_all_skipped hs eps p0 rest x y hsk
      rw [e'] at h
      injection h with h
      simp only [Prod.mk.injEq] at h
      obtain ⟨rfl, rfl, rfl, rfl⟩ := h
      refine ⟨d0, dd, p0, rfl, ?_, fun _ => ⟨rfl, rfl⟩⟩
      intro h2
      match rest, h2 with
      | p1 :: rest', _ => exact ⟨p1, rfl, ⟨0, le_refl _, zero_le_one, by ring, by ring⟩⟩

/-- the repair is conservative: whenever the pre-fix function (`projPolyligneOld`, kept only as the documented old variant:
`none` = its `UnboundLocalError`) returned an answer, the current one returns the same; where it raised
`UnboundLocalError` on a non-empty polyline the current one returns the first vertex -/
theorem projPolyligne_vs_old (sqrt : α → α) (eps : α) (pts : List (α × α)) (x y : α) :
    (∀ r, projPolyligneOld sqrt eps pts x y = .ok (some r) → projPolyligne sqrt eps pts x y = .ok r) ∧
    (∀ p0 rest, pts = p0 :: rest → projPolyligneOld sqrt eps pts x y = .ok none →
      projPolyligne sqrt eps pts x y = .ok (firstVertex sqrt x y p0.1 p0.2)) ∧
    (∀ e, projPolyligneOld sqrt eps pts x y = .error e → pts ≠ [] → projPolyligne sqrt eps pts x y = .error e) := by
  unfold projPolyligneOld projPolyligne
  refine ⟨?_, ?_, ?_⟩
  · intro r h
    match pts, h with
    | [], h => simp [polyLoop] at h
    | p0 :: rest, h => simp only [h]
  · intro p0 rest e h
    subst e
    simp only [h]
  · intro e h hne
    match pts, hne, h with
    | p0 :: rest, _, h => simp only [h]

/-- T5 `projOnTrack_spec`: the map-matching wrapper `__projOnTrack` / `mapOnTrack(coord, track)` returns the same
point, distance and segment index as `proj_polyligne`, reordered as `(point, distance, index)`. -/
theorem projOnTrack_spec (sqrt : α → α) (eps : α) (pts : List (α × α)) (x y d px py : α) (i : Nat) :
    projOnTrack sqrt eps pts x y = .ok ((px, py), d, i) ↔ projPolyligne sqrt eps pts x y = .ok (d, px, py, i) := by
  unfold projOnTrack
  cases projPolyligne sqrt eps pts x y with
  | error e => simp
  | ok r =>
    obtain ⟨a, b, c, n⟩ := r
    simp only [Except.ok.injEq, Prod.mk.injEq]
    constructor
    · rintro ⟨⟨h1, h2⟩, h3, h4⟩; exact ⟨h3, h1, h2, h4⟩
    · rintro ⟨h3, h1, h2, h4⟩; exact ⟨⟨h1, h2⟩, h3, h4⟩

/-- T6 `mapOnTrack_rows`: `mapOnTrack(track_of_queries, track)` yields one row per query, in order, row `j` being
the projection of query `j`. -/
theorem mapOnTrack_rows (sqrt : α → α) (eps : α) (pts : List (α × α)) (qs : List (α × α))
    (rows : List ((α × α) × α × Nat)) (h : mapOnTrackAll sqrt eps pts qs = .ok rows) :
    rows.length = qs.length ∧
    ∀ (j : Nat) (q : α × α), qs[j]? = some q → ∃ row, rows[j]? = some row ∧ projOnTrack sqrt eps pts q.1 q.2 = .ok row := by
  induction qs generalizing rows with
  | nil =>
    simp only [mapOnTrackAll] at h; injection h with h; subst h
    exact ⟨rfl, fun j q hq => by simp at hq⟩
  | cons q0 qs ih =>
    rw [mapOnTrackAll] at h
    split at h
    · cases h
    · rename_i r0 hr0
      split at h
      · cases h
      · rename_i rs hrs
        injection h with h; subst h
        obtain ⟨l, f⟩ := ih rs hrs
        refine ⟨by simp [l], ?_⟩
        intro j q hq
        cases j with
        | zero => simp at hq; subst hq; exact ⟨r0, by simp, hr0⟩
        | succ j => simp at hq; obtain ⟨row, e1, e2⟩ := f j q hq; exact ⟨row, by simp [e1], e2⟩

/-! ## The full statement, and why it is not a theorem

```
theorem proj_segment_min (hs : SqrtSpec sqrt) (x1 y1 x2 y2 x y : α) (h : x1 ≠ x2 ∨ y1 ≠ y2) :
    ∃ d px py, projSegment sqrt x1 y1 x2 y2 x y = .ok (d, px, py) ∧
      ∀ qx qy, OnSeg x1 y1 x2 y2 qx qy → d * d ≤ d2 x y qx qy
```
is FALSE of the code as it is (defect D16, vertical segments): refuted below for every ordered field, and
evaluated on the model over `Rat`. -/

/-- refutation of the full statement: segment `(0,0)-(0,8)`, query `(3,4)` — whatever is returned is at squared
distance 25 (an end point) while the point `(0,4)` of the segment is at squared distance 9. -/
theorem proj_segment_min_fails_on_vertical {sqrt : α → α} (hs : SqrtSpec sqrt) :
    ¬ ∃ d px py, projSegment sqrt 0 0 0 8 3 4 = .ok (d, px, py) ∧
        ∀ qx qy, OnSeg (0 : α) 0 0 8 qx qy → d * d ≤ d2 3 4 qx qy := by
  rintro ⟨d, px, py, e, hmin⟩
  have h9 := hmin 0 4 ⟨1 / 2, by norm_num, by norm_num, by norm_num, by norm_num⟩
  obtain ⟨_, dd⟩ := proj_dist_consistent hs _ _ _ _ _ _ _ _ _ e
  rcases vertical_as_coded hs (0 : α) 0 8 3 4 (by norm_num) with ez | ⟨d', e', _, _⟩
  · rw [ez] at e; cases e
  · rcases e' with e' | e' <;>
    · rw [e'] at e
      injection e with e
      simp only [Prod.mk.injEq] at e
      obtain ⟨rfl, rfl, rfl⟩ := e
      unfold d2 at dd h9
      norm_num at dd h9
      linarith

/-- a `sqrt` table sufficient for the evaluated examples -/
def sqTable : Rat → Rat := fun v => if v = 64 then 8 else if v = 25 then 5 else if v = 36 then 6 else 0

/-- evaluated on the model: vertical segment `(0,0)-(0,8)`, query `(3,4)` → the end point `(0,0)` at distance 5,
although `(0,4)` is at distance 3 -/
example : (projSegment sqTable 0 0 0 8 3 4).toOption = some (5, 0, 0) := by decide +kernel
/-- evaluated on the model: a query ON the vertical segment raises `ZeroDivisionError` -/
example : (match projSegment sqTable 0 0 0 8 0 4 with | .error .zerodiv => true | _ => false) = true := by
  decide +kernel
/-- non-vacuity of T3/T4: a horizontal segment `(0,0)-(8,0)`, query `(3,4)` → the foot `(3,0)` at distance 4 -/
example : (projSegment sqTable 0 0 8 0 3 4).toOption = some (4, 3, 0) := by decide +kernel
/-- non-vacuity of T4: polyline `(-4,3),(4,3),(4,3),(4,-3)` (horizontal, zero-length, vertical; on the integer
lattice `eps = 1` skips exactly the zero-length segments), query `(0,0)` → segment 0, foot `(0,3)`, distance 3 -/
example : (projPolyligne sqTable 1 [(-4, 3), (4, 3), (4, 3), (4, -3)] 0 0).toOption
    = some (3, 0, 3, 0) := by decide +kernel

/-- non-vacuity of `proj_polyline_all_skipped`, evaluated on the model (`eps = 1`): the polyline `(4,3),(4,3),(4,3)` (the
witness of the repaired defect: all vertices equal) and `(4,3),(4,13/4),(4,7/2)` (two segments of length `1/4`, both
skipped), query `(0,0)` → the first vertex `(4,3)` at distance 5, index 0; a single vertex too; an empty polyline raises
`IndexError` (`Xp[0]`) -/
example : (projPolyligne sqTable 1 [(4, 3), (4, 3), (4, 3)] 0 0).toOption = some (5, 4, 3, 0)
    ∧ (projPolyligne sqTable 1 [(4, 3), (4, 13 / 4), (4, 7 / 2)] 0 0).toOption = some (5, 4, 3, 0)
    ∧ (projPolyligne sqTable 1 [(4, 3)] 0 0).toOption = some (5, 4, 3, 0)
    ∧ (match projPolyligne sqTable 1 [] 0 0 with | .error .index => true | _ => false) = true := by decide +kernel

/-! ## The statement at the strength of the property, for every non-vertical orientation

Exact arithmetic (an ordered field): the floating-point defect D17 of horizontal segments (`yb = -c / b` not
reproducing the ordinate) does not exist here. -/

/-- T3' `proj_segment_nearest_partial`: on every **non-vertical** segment (oblique or horizontal, either direction)
`proj_segment` returns `(d, (px,py))` with: `(px,py)` on the segment, `d` = distance from the query to `(px,py)`,
and `d` ≤ the distance from the query to every point of the segment — the three clauses of the property together.
Missing w.r.t. the property: vertical segments (false there: `proj_segment_min_fails_on_vertical`). -/
theorem proj_segment_nearest_partial {sqrt : α → α} (hs : SqrtSpec sqrt) (x1 y1 x2 y2 x y : α) (hx : x1 ≠ x2) :
    ∃ d px py, projSegment sqrt x1 y1 x2 y2 x y = .ok (d, px, py) ∧ OnSeg x1 y1 x2 y2 px py ∧
      0 ≤ d ∧ d * d = d2 x y px py ∧ ∀ qx qy, OnSeg x1 y1 x2 y2 qx qy → d * d ≤ d2 x y qx qy := by
  obtain ⟨d, px, py, e, hmin⟩ := proj_segment_min_partial hs x1 y1 x2 y2 x y hx
  obtain ⟨d0, dd⟩ := proj_dist_consistent hs _ _ _ _ _ _ _ _ _ e
  exact ⟨d, px, py, e, proj_on_segment hs _ _ _ _ _ _ _ _ _ e, d0, dd, hmin⟩

/-- `proj_segment_horizontal`: a horizontal segment `(x1,y1)-(x2,y1)` in exact arithmetic. The returned point has the
segment's ordinate and lies on it; when the query abscissa is between `x1` and `x2` (either order) the returned point
is the foot `(x, y1)` and the distance is `|y - y1|`; in every case the distance is the distance to the returned
point and is minimal. (In double arithmetic this fails for the ordinates listed under the finding
`horizontal-segment-fp`: needs exact arithmetic.) -/
theorem proj_segment_horizontal {sqrt : α → α} (hs : SqrtSpec sqrt) (x1 x2 y1 x y : α) (hx : x1 ≠ x2) :
    ∃ d px, projSegment sqrt x1 y1 x2 y1 x y = .ok (d, px, y1) ∧ OnSeg x1 y1 x2 y1 px y1 ∧
      0 ≤ d ∧ d * d = d2 x y px y1 ∧
      (((x1 ≤ x ∧ x ≤ x2) ∨ (x2 ≤ x ∧ x ≤ x1)) → px = x ∧ d * d = (y - y1) * (y - y1)) ∧
      ∀ qx qy, OnSeg x1 y1 x2 y1 qx qy → d * d ≤ d2 x y qx qy := by
  obtain ⟨d, px, py, e, hon, d0, dd, hmin⟩ := proj_segment_nearest_partial hs x1 y1 x2 y1 x y hx
  have hpy : py = y1 := by
    obtain ⟨t, _, _, _, e2⟩ := hon
    rw [e2]; ring
  subst hpy
  refine ⟨d, px, e, hon, d0, dd, ?_, hmin⟩
  intro hin
  have hne : x2 - x1 ≠ 0 := sub_ne_zero.mpr (Ne.symm hx)
  have hfoot : OnSeg x1 py x2 py x py := by
    refine ⟨(x - x1) / (x2 - x1), ?_, ?_, by field_simp; ring, by ring⟩
    · rcases hin with ⟨a, b⟩ | ⟨a, b⟩
      · exact div_nonneg (by linarith) (by linarith)
      · exact div_nonneg_of_nonpos (by linarith) (by linarith)
    · rcases hin with ⟨a, b⟩ | ⟨a, b⟩
      · have : 0 < x2 - x1 := lt_of_le_of_ne (by linarith) (Ne.symm hne)
        rw [div_le_one this]; linarith
      · have : x2 - x1 < 0 := lt_of_le_of_ne (by linarith) hne
        rw [div_le_one_of_neg this]; linarith
  have hle := hmin x py hfoot
  rw [dd] at hle
  unfold d2 at hle dd
  have hsq : (x - px) * (x - px) ≤ 0 := by nlinarith
  have hx0 : x - px = 0 := by
    have := mul_self_nonneg (x - px)
    exact mul_self_eq_zero.mp (le_antisymm hsq this)
  have hpx : px = x := by linarith
  refine ⟨hpx, ?_⟩
  rw [dd, hpx]; ring

/-- T4' `proj_polyline_vertices`: when every skipped segment is a true zero-length one (two equal vertices: what the
`< 1e-16` test of `proj_polyligne` is there for), the returned distance is at most the distance from the query to
**every vertex** of the polyline — the vertices of the skipped segments included, although `proj_segment` was never
called on them (each one is an end point of a neighbouring segment that was not skipped). -/
theorem proj_polyline_vertices {sqrt : α → α} (hs : SqrtSpec sqrt) (eps : α) (pts : List (α × α))
    (x y d px py : α) (i : Nat) (h : projPolyligne sqrt eps pts x y = .ok (d, px, py, i))
    (hz : ∀ j p1 p2, pts[j]? = some p1 → pts[j + 1]? = some p2 → skipped eps p1.1 p1.2 p2.1 p2.2 = true → p1 = p2) :
    ∀ (v : Nat) (p : α × α), pts[v]? = some p → d * d ≤ d2 x y p.1 p.2 := by
  by_cases hex : ∃ j p1 p2, pts[j]? = some p1 ∧ pts[j + 1]? = some p2 ∧ skipped eps p1.1 p1.2 p2.1 p2.2 = false
  · obtain ⟨⟨p1, p2, s1, s2, hk, _⟩, _, _, hall⟩ := proj_polyline_min_partial hs eps pts x y d px py i h hex
    exact vertices_of_live eps pts (fun p => d * d ≤ d2 x y p.1 p.2) i p1 hz
      (fun j q1 q2 t1 t2 hj => (hall j q1 q2 t1 t2 hj).1) s1 (hall i p1 p2 s1 s2 hk).1.1
  · -- every segment is skipped, hence (hz) all the vertices are the first one, which is what is returned
    have hsk : ∀ j p1 p2, pts[j]? = some p1 → pts[j + 1]? = some p2 → skipped eps p1.1 p1.2 p2.1 p2.2 = true := by
      intro j p1 p2 t1 t2
      cases hk : skipped eps p1.1 p1.2 p2.1 p2.2 with
      | true => rfl
      | false => exact absurd ⟨j, p1, p2, t1, t2, hk⟩ hex
    match pts, h, hz, hsk with
    | [], h, _, _ => simp [projPolyligne] at h
    | p0 :: rest, h, hz, hsk =>
      rw [projPolyligne_all_skipped sqrt eps p0 rest x y (fun k p1 p2 hk => hsk k p1 p2 hk.1 hk.2)] at h
      injection h with h
      simp only [firstVertex, Prod.mk.injEq] at h
      obtain ⟨hd, _, _, _⟩ := h
      obtain ⟨_, dd⟩ := hs _ (d2_nonneg x y p0.1 p0.2)
      have hall : ∀ (v : Nat) (p : α × α), (p0 :: rest)[v]? = some p → p = p0 :=
        vertices_of_live eps (p0 :: rest) (fun p => p = p0) 0 p0 hz
          (fun j q1 q2 t1 t2 hj => by rw [hsk j q1 q2 t1 t2] at hj; cases hj) rfl rfl
      intro v p hp
      rw [hall v p hp, ← hd]
      exact le_of_eq dd

/-- T4'' `proj_polyline_nearest_partial`: the property at full strength for every polyline without vertical segment.
Hypotheses: no segment kept by the `< 1e-16` test is vertical; every segment skipped by it has two equal vertices; the
polyline has at least two vertices (NO segment need be kept: a polyline all of whose vertices coincide is covered since the
`fix:` commit 563eeba — the returned point is then that vertex, on segment 0). Then `proj_polyligne` returns `(d, (px,py), i)` with: `i` the index of a segment of the
polyline, `(px,py)` on that segment, `d` = distance from the query to `(px,py)`, and `d` ≤ the distance from the query
to **every point of every segment** of the polyline (skipped ones included): `(px,py)` is a nearest point of the
polyline. Segments may be oblique or horizontal, run in any direction, repeat vertices, be collinear.
Missing w.r.t. the property: polylines with a vertical segment (false there: D16); a skipped segment of non-zero
length `< 1e-16` (its points are nearer than `1e-16` to a vertex). -/
theorem proj_polyline_nearest_partial {sqrt : α → α} (hs : SqrtSpec sqrt) (eps : α) (pts : List (α × α)) (x y : α)
    (hnv : ∀ j p1 p2, pts[j]? = some p1 → pts[j + 1]? = some p2 → skipped eps p1.1 p1.2 p2.1 p2.2 = false → p1.1 ≠ p2.1)
    (hz : ∀ j p1 p2, pts[j]? = some p1 → pts[j + 1]? = some p2 → skipped eps p1.1 p1.2 p2.1 p2.2 = true → p1 = p2)
    (h2 : 2 ≤ pts.length) :
    ∃ d px py i, projPolyligne sqrt eps pts x y = .ok (d, px, py, i) ∧
      (∃ p1 p2, pts[i]? = some p1 ∧ pts[i + 1]? = some p2 ∧ OnSeg p1.1 p1.2 p2.1 p2.2 px py) ∧
      0 ≤ d ∧ d * d = d2 x y px py ∧
      ∀ j p1 p2, pts[j]? = some p1 → pts[j + 1]? = some p2 →
        ∀ qx qy, OnSeg p1.1 p1.2 p2.1 p2.2 qx qy → d * d ≤ d2 x y qx qy := by
  have hne : pts ≠ [] := by intro e; subst e; simp at h2
  obtain ⟨⟨d, px, py, i⟩, h⟩ := proj_polyline_total hs eps pts x y hnv hne
  -- minimality over every point of every segment, from the vertices (skipped segments) and T4 (kept ones)
  have hmin : (∀ j p1 p2, pts[j]? = some p1 → pts[j + 1]? = some p2 → skipped eps p1.1 p1.2 p2.1 p2.2 = false →
        p1.1 ≠ p2.1 → ∀ qx qy, OnSeg p1.1 p1.2 p2.1 p2.2 qx qy → d * d ≤ d2 x y qx qy) →
      ∀ j p1 p2, pts[j]? = some p1 → pts[j + 1]? = some p2 →
        ∀ qx qy, OnSeg p1.1 p1.2 p2.1 p2.2 qx qy → d * d ≤ d2 x y qx qy := by
    intro hall j q1 q2 t1 t2 qx qy hq
    cases hsk : skipped eps q1.1 q1.2 q2.1 q2.2 with
    | false => exact hall j q1 q2 t1 t2 hsk (hnv j q1 q2 t1 t2 hsk) qx qy hq
    | true =>
      have e := hz j q1 q2 t1 t2 hsk
      subst e
      obtain ⟨t, _, _, e1, e2⟩ := hq
      have ex : qx = q1.1 := by rw [e1]; ring
      have ey : qy = q1.2 := by rw [e2]; ring
      rw [ex, ey]
      exact proj_polyline_vertices hs eps pts x y d px py i h hz j q1 t1
  by_cases hex : ∃ j p1 p2, pts[j]? = some p1 ∧ pts[j + 1]? = some p2 ∧ skipped eps p1.1 p1.2 p2.1 p2.2 = false
  · obtain ⟨⟨p1, p2, s1, s2, _, hon⟩, d0, dd, hall⟩ := proj_polyline_min_partial hs eps pts x y d px py i h hex
    exact ⟨d, px, py, i, h, ⟨p1, p2, s1, s2, hon⟩, d0, dd,
      hmin (fun j q1 q2 t1 t2 hsk hne' => (hall j q1 q2 t1 t2 hsk).2 hne')⟩
  · -- every segment is skipped: the first vertex, which lies on segment 0
    have hsk : ∀ j p1 p2, pts[j]? = some p1 → pts[j + 1]? = some p2 → skipped eps p1.1 p1.2 p2.1 p2.2 = true := by
      intro j p1 p2 t1 t2
      cases hk : skipped eps p1.1 p1.2 p2.1 p2.2 with
      | true => rfl
      | false => exact absurd ⟨j, p1, p2, t1, t2, hk⟩ hex
    match pts, h2, h, hsk, hmin with
    | p0 :: p1 :: rest, _, h, hsk, hmin =>
      obtain ⟨d', e', d0, dd, _⟩ := proj_polyline_all_skipped hs eps p0 (p1 :: rest) x y hsk
      rw [e'] at h
      injection h with h
      simp only [Prod.mk.injEq] at h
      obtain ⟨rfl, rfl, rfl, rfl⟩ := h
      refine ⟨d', p0.1, p0.2, 0, e', ⟨p0, p1, rfl, rfl, ⟨0, le_refl _, zero_le_one, by ring, by ring⟩⟩, d0, dd, ?_⟩
      exact hmin (fun j q1 q2 t1 t2 hk => by rw [hsk j q1 q2 t1 t2] at hk; cases hk)

/-- `proj_polyline_skipped_partial`: the error made by skipping a segment of NON-zero length `< eps` (`1e-16`) is at most
`eps`. If `proj_polyligne` returns `(d, …)` and segment `j` is skipped by the `abs(dx) + abs(dy) < eps` test while one of
its two ends is also an end of a segment that is kept (the usual case: an isolated tiny segment between two ordinary
ones), then for every point `(qx, qy)` of the skipped segment `d ≤ |query - (qx, qy)| + eps` (the distance written with
the `sqrt` parameter). Together with `proj_polyline_min_partial` (kept segments): on a polyline without kept vertical
segment whose skipped segments each touch a kept one, the returned distance exceeds the true minimum by less than `eps`.
A run of several consecutive skipped segments: `proj_polyline_skipped_run` / `proj_polyline_skipped_run_back` below (the
bound is then the number of skipped segments up to the nearest kept end, times `eps`). Exact arithmetic. -/
theorem proj_polyline_skipped_partial {sqrt : α → α} (hs : SqrtSpec sqrt) (eps : α) (pts : List (α × α))
    (x y d px py : α) (i : Nat) (h : projPolyligne sqrt eps pts x y = .ok (d, px, py, i))
    (j : Nat) (p1 p2 : α × α) (h1 : pts[j]? = some p1) (h2 : pts[j + 1]? = some p2)
    (hsk : skipped eps p1.1 p1.2 p2.1 p2.2 = true)
    (hadj : ∃ k q1 q2, pts[k]? = some q1 ∧ pts[k + 1]? = some q2 ∧ skipped eps q1.1 q1.2 q2.1 q2.2 = false ∧
      (q1 = p1 ∨ q2 = p1 ∨ q1 = p2 ∨ q2 = p2)) :
    ∀ qx qy, OnSeg p1.1 p1.2 p2.1 p2.2 qx qy → d ≤ sqrt (d2 x y qx qy) + eps := by
  obtain ⟨k, q1, q2, k1, k2, hk, hends⟩ := hadj
  obtain ⟨_, d0, _, hall⟩ := proj_polyline_min_partial hs eps pts x y d px py i h ⟨k, q1, q2, k1, k2, hk⟩
  obtain ⟨⟨b1, b2⟩, _⟩ := hall k q1 q2 k1 k2 hk
  have hlt : fabs (p1.1 - p2.1) + fabs (p1.2 - p2.2) < eps := by
    simpa [skipped] using hsk
  intro qx qy hq
  obtain ⟨n1, n2⟩ := onSeg_near_ends _ _ _ _ _ _ hq
  obtain ⟨e0, ee⟩ := hs _ (d2_nonneg x y qx qy)
  have hend : d * d ≤ d2 x y p1.1 p1.2 ∨ d * d ≤ d2 x y p2.1 p2.2 := by
    rcases hends with e | e | e | e
    · left; rw [← e]; exact b1
    · left; rw [← e]; exact b2
    · right; rw [← e]; exact b1
    · right; rw [← e]; exact b2
  rcases hend with hv | hv
  · exact near_vertex_bound x y p1.1 p1.2 qx qy d _ eps d0 e0 hv ee (le_of_lt (lt_of_le_of_lt n1 hlt))
  · exact near_vertex_bound x y p2.1 p2.2 qx qy d _ eps d0 e0 hv ee (le_of_lt (lt_of_le_of_lt n2 hlt))

/-- non-vacuity of `proj_polyline_skipped_partial`: polyline `(-4,3),(4,3),(4,7/2)` with `eps = 1` skips the segment
`(4,3)-(4,7/2)` of length `1/2`, whose first end is the end of the kept horizontal segment; query `(0,0)` → segment 0 at
distance 3 (every point of the skipped segment is farther than 3 anyway: the bound `d ≤ |q - p| + eps` holds with room) -/
example : (projPolyligne sqTable 1 [(-4, 3), (4, 3), (4, 7 / 2)] 0 0).toOption = some (3, 0, 3, 0)
    ∧ skipped (1 : Rat) 4 3 4 (7 / 2) = true ∧ skipped (1 : Rat) (-4) 3 4 3 = false := by decide +kernel

/-- `proj_polyline_skipped_run`: a RUN of consecutive skipped segments of non-zero length (each `abs(dx) + abs(dy) < eps`,
`1e-16`), going FORWARD from a vertex `v` that is an end of a kept segment: if `proj_polyligne` returns `(d, …)`, every point
`(qx, qy)` of the `(t+1)`-th segment of the run satisfies `d ≤ |query - (qx, qy)| + (t + 1) * eps` — the error made by skipping
the run is at most the number of skipped segments walked from the nearest kept end, times the threshold. With
`proj_polyline_skipped_run_back` (runs going backward to a kept end) and `proj_polyline_min_partial` this covers every point of a
polyline that has a kept segment (a maximal run of skipped segments always touches a kept segment at one of its ends, unless
every segment is skipped — then `proj_polyline_all_skipped` applies: the first vertex is returned and every point is covered up
to (number of segments) × `eps`): without kept vertical segment the returned distance exceeds the true
minimum by at most (longest run) × `eps`. `proj_polyline_skipped_partial` is the case `r = 1`. Exact arithmetic. -/
theorem proj_polyline_skipped_run {sqrt : α → α} (hs : SqrtSpec sqrt) (eps : α) (pts : List (α × α))
    (x y d px py : α) (i : Nat) (h : projPolyligne sqrt eps pts x y = .ok (d, px, py, i))
    (v r : Nat) (pv : α × α) (hv : pts[v]? = some pv)
    (hadj : ∃ k q1 q2, pts[k]? = some q1 ∧ pts[k + 1]? = some q2 ∧ skipped eps q1.1 q1.2 q2.1 q2.2 = false ∧
      (q1 = pv ∨ q2 = pv))
    (hrun : ∀ t, t < r → ∀ a b, pts[v + t]? = some a → pts[v + t + 1]? = some b → skipped eps a.1 a.2 b.1 b.2 = true) :
    ∀ t, t < r → ∀ a b, pts[v + t]? = some a → pts[v + t + 1]? = some b →
      ∀ qx qy, OnSeg a.1 a.2 b.1 b.2 qx qy → d ≤ sqrt (d2 x y qx qy) + ((t + 1 : Nat) : α) * eps := by
  obtain ⟨k, q1, q2, k1, k2, hk, hends⟩ := hadj
  obtain ⟨_, d0, _, hall⟩ := proj_polyline_min_partial hs eps pts x y d px py i h ⟨k, q1, q2, k1, k2, hk⟩
  obtain ⟨⟨b1, b2⟩, _⟩ := hall k q1 q2 k1 k2 hk
  have hvd : d * d ≤ d2 x y pv.1 pv.2 := by
    rcases hends with e | e
    · rw [← e]; exact b1
    · rw [← e]; exact b2
  intro t ht a b ha hb qx qy hq
  have hlt : fabs (a.1 - b.1) + fabs (a.2 - b.2) < eps := by
    simpa [skipped] using hrun t ht a b ha hb
  obtain ⟨n1, _⟩ := onSeg_near_ends _ _ _ _ _ _ hq
  obtain ⟨e0, ee⟩ := hs _ (d2_nonneg x y qx qy)
  have hr := run_near eps pts v t pv a hv ha (fun s hs' a' b' ha' hb' => hrun s (Nat.lt_trans hs' ht) a' b' ha' hb')
  have t1 : |qx - pv.1| ≤ |qx - a.1| + |a.1 - pv.1| := abs_sub_le _ _ _
  have t2 : |qy - pv.2| ≤ |qy - a.2| + |a.2 - pv.2| := abs_sub_le _ _ _
  refine near_vertex_bound x y pv.1 pv.2 qx qy d _ _ d0 e0 hvd ee ?_
  push_cast
  linarith

/-- `proj_polyline_skipped_run_back`: the same for a run of skipped segments `w, …, w + r - 1` going BACKWARD from the vertex
`w + r`, an end of a kept segment: every point of segment `w + t` of the run satisfies
`d ≤ |query - (qx, qy)| + (r - t) * eps`. Exact arithmetic. -/
theorem proj_polyline_skipped_run_back {sqrt : α → α} (hs : SqrtSpec sqrt) (eps : α) (pts : List (α × α))
    (x y d px py : α) (i : Nat) (h : projPolyligne sqrt eps pts x y = .ok (d, px, py, i))
    (w r : Nat) (pv : α × α) (hv : pts[w + r]? = some pv)
    (hadj : ∃ k q1 q2, pts[k]? = some q1 ∧ pts[k + 1]? = some q2 ∧ skipped eps q1.1 q1.2 q2.1 q2.2 = false ∧
      (q1 = pv ∨ q2 = pv))
    (hrun : ∀ t, t < r → ∀ a b, pts[w + t]? = some a → pts[w + t + 1]? = some b → skipped eps a.1 a.2 b.1 b.2 = true) :
    ∀ t, t < r → ∀ a b, pts[w + t]? = some a → pts[w + t + 1]? = some b →
      ∀ qx qy, OnSeg a.1 a.2 b.1 b.2 qx qy → d ≤ sqrt (d2 x y qx qy) + ((r - t : Nat) : α) * eps := by
  obtain ⟨k, q1, q2, k1, k2, hk, hends⟩ := hadj
  obtain ⟨_, d0, _, hall⟩ := proj_polyline_min_partial hs eps pts x y d px py i h ⟨k, q1, q2, k1, k2, hk⟩
  obtain ⟨⟨b1, b2⟩, _⟩ := hall k q1 q2 k1 k2 hk
  have hvd : d * d ≤ d2 x y pv.1 pv.2 := by
    rcases hends with e | e
    · rw [← e]; exact b1
    · rw [← e]; exact b2
  intro t ht a b ha hb qx qy hq
  have hlt : fabs (a.1 - b.1) + fabs (a.2 - b.2) < eps := by
    simpa [skipped] using hrun t ht a b ha hb
  obtain ⟨_, n2⟩ := onSeg_near_ends _ _ _ _ _ _ hq
  obtain ⟨e0, ee⟩ := hs _ (d2_nonneg x y qx qy)
  have hidx : w + t + 1 + (r - t - 1) = w + r := by omega
  have hr := run_near eps pts (w + t + 1) (r - t - 1) b pv hb (by rw [hidx]; exact hv)
    (fun s hs' a' b' ha' hb' => hrun (t + 1 + s) (by omega) a' b'
      (by rw [show w + (t + 1 + s) = w + t + 1 + s by omega]; exact ha')
      (by rw [show w + (t + 1 + s) + 1 = w + t + 1 + s + 1 by omega]; exact hb'))
  have t1 : |qx - pv.1| ≤ |qx - b.1| + |b.1 - pv.1| := abs_sub_le _ _ _
  have t2 : |qy - pv.2| ≤ |qy - b.2| + |b.2 - pv.2| := abs_sub_le _ _ _
  rw [abs_sub_comm b.1 pv.1] at t1
  rw [abs_sub_comm b.2 pv.2] at t2
  refine near_vertex_bound x y pv.1 pv.2 qx qy d _ _ d0 e0 hvd ee ?_
  have hc : ((r - t : Nat) : α) = ((r - t - 1 : Nat) : α) + 1 := by
    have : r - t = (r - t - 1) + 1 := by omega
    rw [this]; push_cast; simp
  rw [hc]
  linarith

/-- non-vacuity of the two run theorems, evaluated on the model (`eps = 1`): `(-4,3),(4,3),(4,13/4),(4,7/2)` — the two last
segments (length `1/4` each) are skipped, a forward run from the end `(4,3)` of the kept segment 0; the query `(0,0)` →
segment 0 at distance 3. Reversed polyline: a backward run ending at vertex 2, the answer is carried by segment 2 -/
example : (projPolyligne sqTable 1 [(-4, 3), (4, 3), (4, 13 / 4), (4, 7 / 2)] 0 0).toOption = some (3, 0, 3, 0)
    ∧ skipped (1 : Rat) 4 3 4 (13 / 4) = true ∧ skipped (1 : Rat) 4 (13 / 4) 4 (7 / 2) = true
    ∧ (projPolyligne sqTable 1 [(4, 7 / 2), (4, 13 / 4), (4, 3), (-4, 3)] 0 0).toOption = some (3, 0, 3, 2) := by decide +kernel


/-! ## Argument forms and front ends -/

/-- `projSegmentG_lists`: with a `list` / `tuple` of Python numbers the parametrised model of `proj_segment` is the
kernel `projSegment` all the theorems above are about. -/
theorem projSegmentG_lists (sqrt : α → α) (x1 y1 x2 y2 x y : α) :
    projSegmentG false sqrt x1 y1 x2 y2 x y = projSegment sqrt x1 y1 x2 y2 x y :=
  projSegmentG_false sqrt x1 y1 x2 y2 x y

/-- `projSegmentG_numpy_nonvertical`: with numpy scalars (`-c / b` never raises) the result is the same on every
non-vertical segment. (On a vertical one numpy yields `inf` / `nan` where Python floats raise `ZeroDivisionError`:
IEEE semantics, outside an ordered field; compared bit for bit by the correspondence check.) -/
theorem projSegmentG_numpy_nonvertical (np : Bool) (sqrt : α → α) (x1 y1 x2 y2 x y : α) (hx : x1 ≠ x2) :
    projSegmentG np sqrt x1 y1 x2 y2 x y = projSegment sqrt x1 y1 x2 y2 x y :=
  projSegmentG_of_ne np sqrt x1 y1 x2 y2 x y hx

/-- `projPolyligneXY_spec`: `proj_polyligne(Xp, Yp, x, y)` with `len(Yp) >= len(Xp)` is the kernel `projPolyligne` on the
vertices `zip(Xp, Yp)` (extra ordinates are ignored) — for lists, and for numpy arrays when no segment kept by the
`< 1e-16` test is vertical. -/
theorem projPolyligneXY_spec (np : Bool) (sqrt : α → α) (eps : α) (X Y : List α) (x y : α) (hl : X.length ≤ Y.length)
    (hnp : np = false ∨ ∀ j p1 p2, (X.zip Y)[j]? = some p1 → (X.zip Y)[j + 1]? = some p2 →
      skipped eps p1.1 p1.2 p2.1 p2.2 = false → p1.1 ≠ p2.1) :
    projPolyligneXY np sqrt eps X Y x y = (projPolyligne sqrt eps (X.zip Y) x y).mapError ErrX.base := by
  have hseg : ∀ k p1 p2, SegAt (X.zip Y) k p1 p2 → skipped eps p1.1 p1.2 p2.1 p2.2 = false →
      projSegmentG np sqrt p1.1 p1.2 p2.1 p2.2 x y = projSegment sqrt p1.1 p1.2 p2.1 p2.2 x y := by
    intro k p1 p2 hs hk
    rcases hnp with e | hnv
    · subst e; exact projSegmentG_false ..
    · exact projSegmentG_of_ne np sqrt _ _ _ _ _ _ (hnv k p1 p2 hs.1 hs.2 hk)
  unfold projPolyligneXY projPolyligne
  rw [polyLoopXY_zip np sqrt eps x y X Y 0 none hl hseg]
  match X, Y, hl with
  | [], _, _ => rfl
  | x0 :: xs, [], hl => simp at hl
  | x0 :: xs, y0 :: ys, _ =>
    simp only [List.zip_cons_cons]
    cases polyLoop sqrt eps x y ((x0, y0) :: xs.zip ys) 0 none with
    | error e => rfl
    | ok r => cases r <;> rfl

/-- `projPolyligneXY_short`: with `len(Yp) < len(Xp)` `proj_polyligne` never returns a value (`IndexError` — at `Yp[0]` when
`Yp` is empty, else in the loop at `Yp[i]` / `Yp[i + 1]` —, or an earlier `ZeroDivisionError`). -/
theorem projPolyligneXY_short (np : Bool) (sqrt : α → α) (eps : α) (X Y : List α) (x y : α) (hl : Y.length < X.length)
    (r : α × α × α × Nat) : projPolyligneXY np sqrt eps X Y x y ≠ .ok r := by
  unfold projPolyligneXY
  match X, Y, hl with
  | [], _, hl => simp at hl
  | _ :: _, [], _ => simp
  | [_], _ :: _, hl => simp at hl
  | x0 :: x1 :: xs, y0 :: ys, hl =>
    simp only []
    cases hres : polyLoopXY np sqrt eps x y (x0 :: x1 :: xs) (y0 :: ys) 0 none with
    | error e => simp
    | ok res => exact absurd hres (polyLoopXY_short np sqrt eps x y _ _ 0 none res (by simp) hl)

/-- the planimetric vertices of a list of 3D positions -/
def xy (pts : List (α × α × α)) : List (α × α) := pts.map (fun p => (p.1, p.2.1))

/-- `projOnTrack3_planimetric`: `__projOnTrack(point, track)` on 3D positions **is planimetric**: it returns exactly the
point, distance and index of `proj_polyligne` on the `(X, Y)` of the track and of the query, with the third coordinate
of the returned point set to `0`; no altitude (of the query or of the track, `NaN` included) is ever read. -/
theorem projOnTrack3_planimetric (sqrt : α → α) (eps : α) (pts : List (α × α × α)) (q : α × α × α)
    (px py pz d : α) (i : Nat) :
    projOnTrack3 sqrt eps pts q = .ok ((px, py, pz), d, i) ↔
      (pz = 0 ∧ projPolyligne sqrt eps (xy pts) q.1 q.2.1 = .ok (d, px, py, i)) := by
  have hl : (getXs pts).length ≤ (getYs pts).length := by simp [getXs, getYs]
  have hzip : (getXs pts).zip (getYs pts) = xy pts := by
    simp [getXs, getYs, xy, List.zip_map']
  unfold projOnTrack3
  rw [projPolyligneXY_spec false sqrt eps _ _ _ _ hl (Or.inl rfl), hzip]
  cases projPolyligne sqrt eps (xy pts) q.1 q.2.1 with
  | error e => simp [Except.mapError]
  | ok r =>
    obtain ⟨a, b, c, n⟩ := r
    simp only [Except.mapError, Except.ok.injEq, Prod.mk.injEq]
    constructor
    · rintro ⟨⟨h1, h2, h3⟩, h4, h5⟩; exact ⟨h3.symm, h4, h1, h2, h5⟩
    · rintro ⟨h3, h4, h1, h2, h5⟩; exact ⟨⟨h1, h2, h3.symm⟩, h4, h5⟩

/-- `mapOnTrack3_coord`: `mapOnTrack(coord, track)` (first argument not a `Track`) returns a single
`(ENUCoords(px, py, 0), d, i)` which is the planimetric projection of the coordinate: with
`proj_polyline_min_partial` / `proj_polyline_nearest_partial` on `xy pts` this gives all clauses of the property. -/
theorem mapOnTrack3_coord (sqrt : α → α) (eps : α) (pts : List (α × α × α)) (q : α × α × α)
    (out : ((α × α × α) × α × Nat) ⊕ List ((α × α × α) × α × Nat))
    (h : mapOnTrack3 sqrt eps pts (.inl q) = .ok out) :
    ∃ px py d i, out = .inl ((px, py, 0), d, i) ∧ projPolyligne sqrt eps (xy pts) q.1 q.2.1 = .ok (d, px, py, i) := by
  simp only [mapOnTrack3] at h
  cases hp : projOnTrack3 sqrt eps pts q with
  | error e => rw [hp] at h; cases h
  | ok r =>
    rw [hp] at h
    obtain ⟨⟨px, py, pz⟩, d, i⟩ := r
    obtain ⟨hz, hproj⟩ := (projOnTrack3_planimetric sqrt eps pts q px py pz d i).mp hp
    subst hz
    injection h with h
    exact ⟨px, py, d, i, h.symm, hproj⟩

/-- `mapOnTrack3_track`: `mapOnTrack(track_of_queries, track)` returns one row per query, in order; row `j` is
`(ENUCoords(px, py, 0), d, i)`, the planimetric projection of query `j` (its `dist` and `edge` features are `d`, `i`). -/
theorem mapOnTrack3_track (sqrt : α → α) (eps : α) (pts : List (α × α × α)) (qs : List (α × α × α))
    (out : ((α × α × α) × α × Nat) ⊕ List ((α × α × α) × α × Nat))
    (h : mapOnTrack3 sqrt eps pts (.inr qs) = .ok out) :
    ∃ rows, out = .inr rows ∧ rows.length = qs.length ∧
      ∀ (j : Nat) (q : α × α × α), qs[j]? = some q → ∃ px py d i, rows[j]? = some ((px, py, 0), d, i) ∧
        projPolyligne sqrt eps (xy pts) q.1 q.2.1 = .ok (d, px, py, i) := by
  have key : ∀ (qs : List (α × α × α)) (rows : List ((α × α × α) × α × Nat)),
      mapOnTrack3All sqrt eps pts qs = .ok rows → rows.length = qs.length ∧
      ∀ (j : Nat) (q : α × α × α), qs[j]? = some q → ∃ px py d i, rows[j]? = some ((px, py, 0), d, i) ∧
        projPolyligne sqrt eps (xy pts) q.1 q.2.1 = .ok (d, px, py, i) := by
    intro qs
    induction qs with
    | nil =>
      intro rows h
      simp only [mapOnTrack3All] at h; injection h with h; subst h
      exact ⟨rfl, fun j q hq => by simp at hq⟩
    | cons q0 qs ih =>
      intro rows h
      rw [mapOnTrack3All] at h
      split at h
      · cases h
      · rename_i r0 hr0
        split at h
        · cases h
        · rename_i rs hrs
          injection h with h; subst h
          obtain ⟨l, f⟩ := ih rs hrs
          refine ⟨by simp [l], ?_⟩
          intro j q hq
          cases j with
          | zero =>
            simp at hq; subst hq
            obtain ⟨⟨px, py, pz⟩, d, i⟩ := r0
            obtain ⟨hz, hproj⟩ := (projOnTrack3_planimetric sqrt eps pts q0 px py pz d i).mp hr0
            subst hz
            exact ⟨px, py, d, i, by simp, hproj⟩
          | succ j =>
            simp at hq
            obtain ⟨px, py, d, i, e1, e2⟩ := f j q hq
            exact ⟨px, py, d, i, by simp [e1], e2⟩
  simp only [mapOnTrack3] at h
  cases hp : mapOnTrack3All sqrt eps pts qs with
  | error e => rw [hp] at h; cases h
  | ok rows =>
    rw [hp] at h
    injection h with h
    exact ⟨rows, h.symm, key qs rows hp⟩

/-! ## The Track branch of `mapOnTrack` on track objects with state (`Model/ProjTrack.lean`) -/
open TV.ProjTrack TV.Features

/-- `mapOnTrackT_rows`: `mapOnTrack(track_of_queries, track)` on two track OBJECTS (feature tables, time stamps). When it
returns, the output track has **exactly the features `dist`, `edge`** (in that order), default time stamps, and there
are rows `(point, d, i)`, one per observation of the track of queries, in order, such that: the positions of the output
are the points, `output["dist"]` is the column of the `d`, `output["edge"]` the column of the `i`, and row `j` is
`(ENUCoords(px, py, 0), d, i)` with `(d, px, py, i) = proj_polyligne` of query `j` on the planimetric vertices of the
reference track. Nothing in the statement depends on the features / time stamps the two input tracks carry: a feature
called `dist` or `edge` on the track of queries (the output of an earlier `mapOnTrack`) is NOT what the output holds. -/
theorem mapOnTrackT_rows (sqrt : α → α) (eps : α) (ofNat : Nat → α) (ref q out : St α)
    (h : mapOnTrackT sqrt eps ofNat ref q = .ok out) :
    out.dico.map Prod.fst = ["dist", "edge"] ∧
    ∃ rows : List ((α × α × α) × α × Nat),
      rows.length = (positions q).length ∧ rows ≠ [] ∧
      positions out = rows.map (fun r => r.1) ∧
      column out "dist" = some (rows.map (fun r => r.2.1)) ∧
      column out "edge" = some (rows.map (fun r => ofNat r.2.2)) ∧
      out.ts = rows.map (fun _ => (0 : α)) ∧
      ∀ (j : Nat) (qj : α × α × α), (positions q)[j]? = some qj → ∃ px py d i, rows[j]? = some ((px, py, 0), d, i) ∧
        projPolyligne sqrt eps (xy (positions ref)) qj.1 qj.2.1 = .ok (d, px, py, i) := by
  rw [mapOnTrackT_eq] at h
  cases hall : mapOnTrack3All sqrt eps (positions ref) (positions q) with
  | error e => rw [hall] at h; cases h
  | ok rows =>
    rw [hall] at h
    cases rows with
    | nil => cases h
    | cons r rs =>
      simp only at h
      injection h with h
      subst h
      have h3 : mapOnTrack3 sqrt eps (positions ref) (.inr (positions q)) = .ok (.inr (r :: rs)) := by
        simp [mapOnTrack3, hall, Except.map]
      obtain ⟨rows', e', l', f'⟩ := mapOnTrack3_track sqrt eps (positions ref) (positions q) _ h3
      injection e' with e'
      subst e'
      exact ⟨rfl, r :: rs, l', by simp, positions_outputOf ofNat _, column_dist ofNat _, column_edge ofNat _, rfl, f'⟩

/-- `mapOnTrackT_ignores_state`: the result of `mapOnTrack(track_of_queries, track)` depends on the POSITIONS of the two
tracks only: two tracks of queries (two reference tracks) with the same positions and any analytical features, any
time stamps, give the same output track — or the same exception. -/
theorem mapOnTrackT_ignores_state (sqrt : α → α) (eps : α) (ofNat : Nat → α) (ref ref' q q' : St α)
    (hr : positions ref = positions ref') (hq : positions q = positions q') :
    mapOnTrackT sqrt eps ofNat ref q = mapOnTrackT sqrt eps ofNat ref' q' := by
  unfold mapOnTrackT
  rw [hr, hq]

/-- `mapOnTrackT_empty`: a track of queries without observation: `createAnalyticalFeature("dist", [])` on the empty
output raises `AnalyticalFeatureError` ("there is no observation in track"), whatever the reference track. -/
theorem mapOnTrackT_empty (sqrt : α → α) (eps : α) (ofNat : Nat → α) (ref q : St α) (hq : positions q = []) :
    mapOnTrackT sqrt eps ofNat ref q = .error (.feat .empty) := by
  rw [mapOnTrackT_eq, hq]
  simp [mapOnTrack3All]

/-- `mapChain_calls`: chained snapping `mapOnTrack(… mapOnTrack(mapOnTrack(q, ref₀), ref₁) …)` that runs to its end: one
output per reference track, and output `k` is `mapOnTrack(track of queries of call k, refₖ)` where the track of queries of
call `0` is `q` and that of call `k + 1` is output `k` — so that by `mapOnTrackT_rows` the `dist` / `edge` of output
`k + 1` are those of the projection of the positions of output `k` on `refₖ₊₁`, not the `dist` / `edge` output `k` carries. -/
theorem mapChain_calls (sqrt : α → α) (eps : α) (ofNat : Nat → α) (refs : List (St α)) (q : St α) (outs : List (St α))
    (h : mapChain sqrt eps ofNat refs q = (outs, none)) :
    outs.length = refs.length ∧
    ∀ (k : Nat) (r : St α), refs[k]? = some r → ∃ o, outs[k]? = some o ∧
      mapOnTrackT sqrt eps ofNat r ((q :: outs)[k]?.getD q) = .ok o := by
  induction refs generalizing q outs with
  | nil =>
    simp only [mapChain, Prod.mk.injEq] at h
    obtain ⟨rfl, _⟩ := h
    exact ⟨rfl, fun k r hk => by simp at hk⟩
  | cons r0 rs ih =>
    rw [mapChain] at h
    split at h
    · simp at h
    · rename_i o ho
      simp only [Prod.mk.injEq] at h
      obtain ⟨h1, h2⟩ := h
      subst h1
      obtain ⟨l, f⟩ := ih o (mapChain sqrt eps ofNat rs o).1 (by rw [← h2])
      refine ⟨by simp [l], ?_⟩
      intro k r hk
      cases k with
      | zero =>
        simp only [List.getElem?_cons_zero, Option.some.injEq] at hk
        subst hk
        exact ⟨o, by simp, by simpa using ho⟩
      | succ k =>
        simp only [List.getElem?_cons_succ] at hk
        obtain ⟨o', e1, e2⟩ := f k r hk
        refine ⟨o', by simpa using e1, ?_⟩
        cases k with
        | zero => simpa using e2
        | succ k =>
          simp only [List.getElem?_cons_succ] at e2 ⊢
          cases hk' : (mapChain sqrt eps ofNat rs o).1[k]? with
          | none =>
            obtain ⟨hlt, _⟩ := List.getElem?_eq_some_iff.mp e1
            have := List.getElem?_eq_none_iff.mp hk'
            omega
          | some v => simpa [hk'] using e2

/-- `mapOnTrackT_nearest_partial`: the property at full strength **through the track form**, on track objects with any
state. Hypotheses on the reference polyline as in `proj_polyline_nearest_partial` (no kept vertical segment, skipped
segments zero-length, at least two vertices — a reference track all of whose positions coincide included), and a track of queries with at least one observation. Then `mapOnTrack(track, track)`
returns an output track, with rows `(point, d, i)` one per query in order such that the output's positions are the
points, its `dist` feature the `d`, its `edge` feature the `i`, and for every query `j`: the point is
`ENUCoords(px, py, 0)` lying on segment `i` of the reference polyline, `d` is the distance from the query to it, and `d` is
at most the distance from the query to every point of every segment — whatever features (`dist` / `edge` included) and
time stamps the track of queries and the reference track carry.
Missing w.r.t. the property: as `proj_polyline_nearest_partial` (vertical segments: D16; exact arithmetic). -/
theorem mapOnTrackT_nearest_partial {sqrt : α → α} (hs : SqrtSpec sqrt) (eps : α) (ofNat : Nat → α) (ref q : St α)
    (hq : positions q ≠ [])
    (hnv : ∀ j p1 p2, (xy (positions ref))[j]? = some p1 → (xy (positions ref))[j + 1]? = some p2 →
      skipped eps p1.1 p1.2 p2.1 p2.2 = false → p1.1 ≠ p2.1)
    (hz : ∀ j p1 p2, (xy (positions ref))[j]? = some p1 → (xy (positions ref))[j + 1]? = some p2 →
      skipped eps p1.1 p1.2 p2.1 p2.2 = true → p1 = p2)
    (h2 : 2 ≤ (xy (positions ref)).length) :
    ∃ (out : St α) (rows : List ((α × α × α) × α × Nat)),
      mapOnTrackT sqrt eps ofNat ref q = .ok out ∧ out.dico.map Prod.fst = ["dist", "edge"] ∧
      rows.length = (positions q).length ∧ positions out = rows.map (fun r => r.1) ∧
      column out "dist" = some (rows.map (fun r => r.2.1)) ∧ column out "edge" = some (rows.map (fun r => ofNat r.2.2)) ∧
      ∀ (j : Nat) (qj : α × α × α), (positions q)[j]? = some qj → ∃ px py d i, rows[j]? = some ((px, py, 0), d, i) ∧
        (∃ p1 p2, (xy (positions ref))[i]? = some p1 ∧ (xy (positions ref))[i + 1]? = some p2 ∧
          OnSeg p1.1 p1.2 p2.1 p2.2 px py) ∧
        0 ≤ d ∧ d * d = d2 qj.1 qj.2.1 px py ∧
        ∀ j' p1 p2, (xy (positions ref))[j']? = some p1 → (xy (positions ref))[j' + 1]? = some p2 →
          ∀ qx qy, OnSeg p1.1 p1.2 p2.1 p2.2 qx qy → d * d ≤ d2 qj.1 qj.2.1 qx qy := by
  -- every query projects
  have hone : ∀ qj : α × α × α, ∃ r, projOnTrack3 sqrt eps (positions ref) qj = .ok r := by
    intro qj
    obtain ⟨d, px, py, i, e, _⟩ := proj_polyline_nearest_partial hs eps (xy (positions ref)) qj.1 qj.2.1 hnv hz h2
    exact ⟨_, (projOnTrack3_planimetric sqrt eps (positions ref) qj px py 0 d i).mpr ⟨rfl, e⟩⟩
  have hall : ∀ qs : List (α × α × α), ∃ rows, mapOnTrack3All sqrt eps (positions ref) qs = .ok rows := by
    intro qs
    induction qs with
    | nil => exact ⟨[], rfl⟩
    | cons q0 qs ih =>
      obtain ⟨r0, e0⟩ := hone q0
      obtain ⟨rs, es⟩ := ih
      exact ⟨r0 :: rs, by rw [mapOnTrack3All, e0]; simp only; rw [es]⟩
  obtain ⟨rows0, e0⟩ := hall (positions q)
  have hlen := mapOnTrack3All_length sqrt eps _ _ _ e0
  have hout : ∃ out, mapOnTrackT sqrt eps ofNat ref q = .ok out := by
    rw [mapOnTrackT_eq, e0]
    cases rows0 with
    | nil => exact absurd (List.length_eq_zero_iff.mp hlen.symm) hq
    | cons r rs => exact ⟨_, rfl⟩
  obtain ⟨out, eout⟩ := hout
  obtain ⟨hd, rows, l, _, hp, hdist, hedge, _, f⟩ := mapOnTrackT_rows sqrt eps ofNat ref q out eout
  refine ⟨out, rows, eout, hd, l, hp, hdist, hedge, ?_⟩
  intro j qj hj
  obtain ⟨px, py, d, i, er, ep⟩ := f j qj hj
  obtain ⟨d', px', py', i', e', hon, d0, dd, hmin⟩ :=
    proj_polyline_nearest_partial hs eps (xy (positions ref)) qj.1 qj.2.1 hnv hz h2
  rw [ep] at e'
  injection e' with e'
  simp only [Prod.mk.injEq] at e'
  obtain ⟨rfl, rfl, rfl, rfl⟩ := e'
  exact ⟨px, py, d, i, er, hon, d0, dd, hmin⟩

/-- a track of queries that was snapped before: one observation at `(3, 4, 5)` carrying `dist = 99`, `edge = 7` -/
def snapped : St Rat :=
  { dico := [("dist", 0), ("edge", 1)], rows := [[99, 7]], xs := [3], ys := [4], zs := [5], ts := [1000] }
/-- a reference track `(0,0,35)-(8,0,40)` carrying a feature of its own -/
def refTrack : St Rat :=
  { dico := [("abs_curv", 0)], rows := [[0], [8]], xs := [0, 8], ys := [0, 0], zs := [35, 40], ts := [0, 1] }

/-- evaluated on the model: snapping `snapped` on `refTrack` gives `dist = [4]`, `edge = [0]` (NOT the `99`, `7` it
carried), the features `dist`, `edge` only, the point `(3, 0, 0)`, the default time stamp -/
example : (match mapOnTrackT sqTable 1 (fun n => (n : Rat)) refTrack snapped with
    | .ok o => column o "dist" == some [4] && column o "edge" == some [0] && o.dico.map Prod.fst == ["dist", "edge"]
        && positions o == [(3, 0, 0)] && o.ts == [0]
    | .error _ => false) = true := by decide +kernel
/-- evaluated on the model: two-step snapping, first on `(0,0)-(8,0)` then on `(0,-3)-(8,-3)`: the second output holds
the distance 3 from the first output `(3,0)` to the second line -/
example : (match mapChain sqTable 1 (fun n => (n : Rat)) [refTrack, { refTrack with ys := [-3, -3] }] snapped with
    | ([o1, o2], none) => column o1 "dist" == some [4] && column o2 "dist" == some [3] && positions o2 == [(3, -3, 0)]
    | _ => false) = true := by decide +kernel
/-- evaluated on the model: a track of queries without observation raises `AnalyticalFeatureError` -/
example : (match mapOnTrackT sqTable 1 (fun n => (n : Rat)) refTrack { snapped with rows := [], xs := [], ys := [], zs := [], ts := [] } with
    | .error (.feat .empty) => true | _ => false) = true := by decide +kernel

/-- non-vacuity of `proj_polyline_nearest_partial` (horizontal, zero-length, then oblique south-west-bound; `eps = 1`
skips exactly the zero-length segments on the integer lattice): query `(0,0)` → segment 2 (the index counts the
skipped segment), foot `(28/25, -21/25)`, distance `7/5` (segment 0 is at distance 3) -/
example : (projPolyligne sqTable 1 [(-4, 3), (4, 3), (4, 3), (1, -1)] 0 0).toOption
    = some (7 / 5, 28 / 25, -21 / 25, 2) := by decide +kernel
/-- a west-bound horizontal segment `(8,0)-(0,0)`, query `(3,4)` → the foot `(3,0)` at distance 4 -/
example : (projSegment sqTable 8 0 0 0 3 4).toOption = some (4, 3, 0) := by decide +kernel
/-- evaluated on the model: `__projOnTrack` with altitudes (track at 35 and 40, query at 100) → the planimetric foot
`(3, 0, 0)` at planimetric distance 4 -/
example : (match projOnTrack3 sqTable 1 [(0, 0, 35), (8, 0, 40)] (3, 4, 100) with
    | .ok r => r == ((3, 0, 0), 4, 0) | .error _ => false) = true := by decide +kernel
/-- evaluated on the model: a `Yp` shorter than `Xp` raises `IndexError` -/
example : (match projPolyligneXY false sqTable 1 [0, 8, 9] [0, 0] 3 4 with
    | .error .index => true | _ => false) = true := by decide +kernel

/-! ## The listed finding `vertical-segment` as a CASE

The harness excuses a failing answer only inside the class of the listed finding D16, and recognises that class from the
geometry of the input (a kept, exactly vertical segment that the answer depends on), not from one failure pattern. The two
theorems below are the model's side of that class: which queries raise on a vertical segment, and what an answer of
`proj_polyligne` on a polyline WITH vertical segments still guarantees. -/

/-- `vertical_zerodiv_iff`: on a vertical segment `(x1,y1)-(x1,y2)` `proj_segment` raises `ZeroDivisionError` exactly when
the query has the segment's abscissa and the pseudo-foot ordinate `a = y2 - y1` lies between `y1` and `y2` — the
predicate `zerodiv_vertical` of the harness (exact arithmetic; the numpy form returns inf / nan there instead). In every
other case it returns an end point (`vertical_as_coded`). -/
theorem vertical_zerodiv_iff {sqrt : α → α} (hs : SqrtSpec sqrt) (x1 y1 y2 x y : α) (hy : y1 ≠ y2) :
    projSegment sqrt x1 y1 x1 y2 x y = .error .zerodiv ↔
      (x = x1 ∧ ((y1 ≤ y2 - y1 ∧ y2 - y1 ≤ y2) ∨ (y2 - y1 ≤ y1 ∧ y2 ≤ y2 - y1))) := by
  rw [projSegment_vertical hs _ _ _ _ _ hy]
  constructor
  · intro h
    split at h
    · rename_i hin
      unfold included at hin
      simp only [Bool.and_eq_true, Bool.or_eq_true, decide_eq_true_eq] at hin
      refine ⟨?_, hin.2⟩
      rcases hin.1 with ⟨a, b⟩ | ⟨a, b⟩
      · exact le_antisymm b a
      · exact le_antisymm a b
    · cases h
  · rintro ⟨rfl, h⟩
    have : included x y1 x y2 x (y2 - y1) = true := by
      unfold included
      simp only [Bool.and_eq_true, Bool.or_eq_true, decide_eq_true_eq, or_self, le_refl, and_self, true_and]
      exact h
    rw [this]; rfl

/-- a `sqrt` that is right on the squares met by the examples of this section -/
def sqT2 : Rat → Rat := fun v => if v = 1 then 1 else if v = 9 then 3 else if v = 16 then 4 else if v = 25 then 5
  else if v = 36 then 6 else if v = 64 then 8 else if v = 169 then 13 else if v = 196 then 14 else if v = 225 then 15
  else if v = 400 then 20 else 0

/-- non-vacuity of `vertical_zerodiv_iff`, both directions, evaluated on the model. Segment `(0,0)-(0,8)`: the query `(0,4)`
raises (`a = 8` lies in `[0,8]`), the query `(3,4)` does not (its abscissa is not the segment's). Segment `(0,2)-(0,8)`,
query `(0,4)`: raises (`a = 6` lies in `[2,8]`). Segment `(0,5)-(0,8)`, query `(0,4)`: returns the end point `(0,5)` at
distance 1 (`a = 3` is outside `[5,8]`) -/
example : (match projSegment sqT2 0 0 0 8 0 4 with | .error .zerodiv => true | _ => false) = true
    ∧ (match projSegment sqT2 0 0 0 8 3 4 with | .error .zerodiv => true | _ => false) = false
    ∧ (match projSegment sqT2 0 2 0 8 0 4 with | .error .zerodiv => true | _ => false) = true
    ∧ (projSegment sqT2 0 5 0 8 0 4).toOption = some (1, 0, 5) := by decide +kernel

/-- `proj_polyline_vertical_case`: what an answer `(d, (px,py), i)` of `proj_polyligne` guarantees on ANY polyline, kept
vertical segments included (a polyline with a kept vertical segment has a kept segment: `hex`; without any kept segment
there is no vertical one to speak of and `proj_polyline_all_skipped` gives the answer) — the formal counterpart of the class
`vertical-segment` of the harness. Segment `i` is a kept segment and
* either it is exactly vertical, and then the returned point is one of its two END points (never an interior point:
  the defect D16) — the answer was built by the defective branch;
* or it is not vertical, and then the answer is right once the kept vertical segments are left out: the point lies on
  segment `i`, `d` is its distance to the query, and `d` is at most the distance to every point of segment `i` and of
  every other kept non-vertical segment.
Hence every failure of the property on the model involves a kept vertical segment in one of these two ways; a failing
answer of the real code that is in neither is not an instance of the listed finding. -/
theorem proj_polyline_vertical_case {sqrt : α → α} (hs : SqrtSpec sqrt) (eps : α) (pts : List (α × α))
    (x y d px py : α) (i : Nat) (h : projPolyligne sqrt eps pts x y = .ok (d, px, py, i))
    (hex : ∃ j p1 p2, pts[j]? = some p1 ∧ pts[j + 1]? = some p2 ∧ skipped eps p1.1 p1.2 p2.1 p2.2 = false) :
    ∃ p1 p2, pts[i]? = some p1 ∧ pts[i + 1]? = some p2 ∧ skipped eps p1.1 p1.2 p2.1 p2.2 = false ∧
      ((p1.1 = p2.1 ∧ p1.2 ≠ p2.2 ∧ ((px, py) = p1 ∨ (px, py) = p2)) ∨
       (p1.1 ≠ p2.1 ∧ OnSeg p1.1 p1.2 p2.1 p2.2 px py ∧ 0 ≤ d ∧ d * d = d2 x y px py ∧
        (∀ qx qy, OnSeg p1.1 p1.2 p2.1 p2.2 qx qy → d * d ≤ d2 x y qx qy) ∧
        ∀ j q1 q2, pts[j]? = some q1 → pts[j + 1]? = some q2 → skipped eps q1.1 q1.2 q2.1 q2.2 = false →
          q1.1 ≠ q2.1 → ∀ qx qy, OnSeg q1.1 q1.2 q2.1 q2.2 qx qy → d * d ≤ d2 x y qx qy)) := by
  have T4 := proj_polyline_min_partial hs eps pts x y d px py i h hex
  have hl := projPolyligne_kept sqrt eps pts x y _ hex h
  obtain ⟨o1, _, _⟩ := polyLoop_spec sqrt eps x y pts 0 none _ hl
  have hfrom : FromSeg sqrt eps x y pts 0 (d, px, py, i) := by
    rcases o1 with e | ⟨r, e, f⟩
    · cases e
    · injection e with e; rw [e]; exact f
  obtain ⟨k, p1, p2, ⟨s1, s2⟩, hi, hk, hp⟩ := hfrom
  simp only [Nat.zero_add] at hi
  subst hi
  refine ⟨p1, p2, s1, s2, hk, ?_⟩
  obtain ⟨⟨a1, a2, t1, t2, _, hon⟩, d0, dd, hall⟩ := T4
  rw [s1] at t1; rw [s2] at t2
  injection t1 with t1; injection t2 with t2
  subst t1; subst t2
  by_cases hx : p1.1 = p2.1
  · left
    simp only at hp
    by_cases hyy : p1.2 = p2.2
    · rw [← hx, ← hyy, projSegment_degenerate hs] at hp; cases hp
    · refine ⟨hx, hyy, ?_⟩
      rw [← hx, projSegment_vertical hs _ _ _ _ _ hyy] at hp
      split at hp
      · cases hp
      · injection hp with hp
        obtain ⟨_, _, _, _, he⟩ := nearestEnd_spec hs p1.1 p1.2 p1.1 p2.2 x y
        rw [hp] at he
        simp only at he
        rcases he with ⟨e1, e2⟩ | ⟨e1, e2⟩
        · left; ext <;> simp [e1, e2]
        · right; ext <;> simp [e1, e2, hx]
  · right
    refine ⟨hx, hon, d0, dd, (hall _ p1 p2 s1 s2 hk).2 hx, ?_⟩
    intro j q1 q2 u1 u2 hj hne
    exact (hall j q1 q2 u1 u2 hj).2 hne


/-- non-vacuity of `proj_polyline_vertical_case`, both branches, evaluated on the model (`eps = 1` skips exactly the
zero-length segments on the integer lattice), query `(12,5)`. First branch: `(0,0),(0,14),(-4,17)` → segment 0 (vertical),
its END point `(0,0)` at distance 13, although the foot `(0,5)` is at distance 12 (the other segment is at distance 15).
Second branch: `(0,0),(0,14),(20,14)` → segment 1 (horizontal), the foot `(12,14)` at distance 9 -/
example : (projPolyligne sqT2 1 [(0, 0), (0, 14), (-4, 17)] 12 5).toOption = some (13, 0, 0, 0)
    ∧ (projPolyligne sqT2 1 [(0, 0), (0, 14), (20, 14)] 12 5).toOption = some (9, 12, 14, 1) := by decide +kernel

end TV.C20
