import TracklibVerif.Props.C10
import TracklibVerif.Lemmas.MapMatchReach
/-! # C10, completeness of the candidates — what `neighborhood(p, unit=newunit)` with the unit `__mapOnNetwork` derives is
complete for (the hypothesis of T14 `near_edge_is_candidate` turned into proved statements)

`__mapOnNetwork` computes `newunit = math.ceil(search_radius / min(csize, lsize))` where `csize` / `lsize` are the NUMBERS of
columns / rows of the index, not the sides `dX` / `dY` of a cell. Through C08's `neighborhood_unit_complete` /
`built_index_good` / `build_registers`:

* T22 `edge_within_unit_reach_is_candidate` — the candidates are complete for the ground distance `U · min(dX, dY)`, `U` the
  unit the code derives (characterised as a ceiling);
* T23 `edge_within_radius_is_candidate_on_coarse_index` — hence for the search radius itself whenever the smaller number of
  cells is at most the smaller cell side;
* `edge_within_radius_missed` — and NOT in general: a witness in the model (replayed on the real code by
  `corpus/C10/edge_within_radius_not_candidate.json`) of an edge 3 from the observation, search radius 5, that is not a candidate.

Over a linearly ordered field with an exact `floor` (exact arithmetic: on floats the boundary cases `distance = U · min(dX, dY)`
and `search_radius / cells` within an ulp of an integer may fall on either side). The property C10 itself does not claim
completeness; nothing here is demanded by the oracle. -/
namespace TV.C10
open TV.Proj TV.MapMatch TV.Grid
variable {α : Type} [Field α] [LinearOrder α] [IsStrictOrderedRing α]

/-- T22 `edge_within_unit_reach_is_candidate` (T14 without its hypothesis on the unit). For a network whose index was built by the
constructor on the network's geometries (`margin ≥ 0`, positive or default cell size), a search radius `≥ 0` and an observation
`q` of the closed extent: `newunit = math.ceil(search_radius / min(csize, lsize))` does not raise and is the integer `U ≥ 0` with
`(U - 1) · min(csize, lsize) < search_radius ≤ U · min(csize, lsize)` (NUMBERS of cells); `neighborhood(q, unit=U)` returns a
list, and EVERY edge number `k` that has a point (on one of its segments) within Euclidean distance `U · min(dX, dY)` of `q` is
among the candidates — then (T9) `q` is matched as soon as `k` projects strictly within the radius. -/
theorem edge_within_unit_reach_is_candidate {fl : α → Int} (hf : IsFloor fl) (net : Net α) (res : Option (α × α)) (margin : α)
    (ix : Index α) (hm : 0 ≤ margin) (hres : ∀ r, res = some r → 0 < r.1 ∧ 0 < r.2)
    (hb : build fl (netFeatures net) res margin = .ok ix) (hix : net.index = some ix)
    (radius : α) (hr : 0 ≤ radius) (q : α × α) (hq : getCell ix q ≠ none) :
    ∃ (U : Int) (l : List Nat), searchUnit fl radius ix = .ok U ∧ 0 ≤ U ∧
      radius ≤ ((U : Int) : α) * ((min ix.csize ix.lsize : Int) : α) ∧
      (((U : Int) : α) - 1) * ((min ix.csize ix.lsize : Int) : α) < radius ∧
      candidatesOf fl radius net q = .ok (some l) ∧
      ∀ (k : Nat) (g : List (α × α)), (netFeatures net)[k]? = some g → ∀ A B, (A, B) ∈ Consec g → ∀ s : α, 0 ≤ s → s ≤ 1 →
        (q.1 - (lerp A B s).1) ^ 2 + (q.2 - (lerp A B s).2) ^ 2 ≤ (((U : Int) : α) * min ix.dX ix.dY) ^ 2 → k ∈ l := by
  obtain ⟨cq, hcq⟩ := Option.ne_none_iff_exists'.mp hq
  have hg := TV.C08.built_index_good hf (netFeatures net) res margin ix hm hres hb
  obtain ⟨U, l, hU, hU0, hle, hlt, hc, hall⟩ := candidates_cover_unit_reach hf net ix hg hix radius hr q cq hcq
  refine ⟨U, l, hU, hU0, hle, hlt, hc, ?_⟩
  intro k g hk A B hAB s hs0 hs1 hd
  obtain ⟨cP, hP, hH⟩ := build_registers hf (netFeatures net) res margin ix hm hres hb k g hk A B hAB s hs0 hs1
  exact hall k _ cP hP hH hd

/-- T23 `edge_within_radius_is_candidate_on_coarse_index`: completeness of the candidates in terms of the SEARCH RADIUS, under
a condition on the index alone. Same network, radius and observation as T22; if the smaller NUMBER of cells is at most the
smaller cell SIDE (`min(csize, lsize) ≤ min(dX, dY)`: a coarse index — e.g. a 10 × 8 grid of cells of side ≥ 8), every edge
number with a point within the search radius of `q` is among the candidates of `q`: no edge within the radius is missed, and
(T9) `q` is flagged unmatched only if no candidate projects strictly within the radius. Without the condition:
`edge_within_radius_missed`. -/
theorem edge_within_radius_is_candidate_on_coarse_index {fl : α → Int} (hf : IsFloor fl) (net : Net α) (res : Option (α × α))
    (margin : α) (ix : Index α) (hm : 0 ≤ margin) (hres : ∀ r, res = some r → 0 < r.1 ∧ 0 < r.2)
    (hb : build fl (netFeatures net) res margin = .ok ix) (hix : net.index = some ix)
    (radius : α) (hr : 0 ≤ radius) (q : α × α) (hq : getCell ix q ≠ none)
    (hcoarse : ((min ix.csize ix.lsize : Int) : α) ≤ min ix.dX ix.dY) :
    ∃ l : List Nat, candidatesOf fl radius net q = .ok (some l) ∧
      ∀ (k : Nat) (g : List (α × α)), (netFeatures net)[k]? = some g → ∀ A B, (A, B) ∈ Consec g → ∀ s : α, 0 ≤ s → s ≤ 1 →
        (q.1 - (lerp A B s).1) ^ 2 + (q.2 - (lerp A B s).2) ^ 2 ≤ radius ^ 2 → k ∈ l := by
  obtain ⟨U, l, _, hU0, hle, _, hc, hall⟩ :=
    edge_within_unit_reach_is_candidate hf net res margin ix hm hres hb hix radius hr q hq
  refine ⟨l, hc, ?_⟩
  intro k g hk A B hAB s hs0 hs1 hd
  apply hall k g hk A B hAB s hs0 hs1
  have hUα : (0 : α) ≤ ((U : Int) : α) := by exact_mod_cast hU0
  have h1 : radius ≤ ((U : Int) : α) * min ix.dX ix.dY := le_trans hle (mul_le_mul_of_nonneg_left hcoarse hUα)
  have h2 : radius ^ 2 ≤ (((U : Int) : α) * min ix.dX ix.dY) ^ 2 := pow_le_pow_left₀ hr h1 2
  exact le_trans hd h2

/-- T24 `edge_within_unit_reach_is_candidate_3d` (T22 with altitudes): the index reads `getX()`, `getY()` only; whatever the
altitudes of the edges and of the observation, the candidates of an observation whose planimetric position is in the extent
contain every edge number with a planimetric point within `U · min(dX, dY)` of it, `U` the unit derived by the code. -/
theorem edge_within_unit_reach_is_candidate_3d {fl : α → Int} (hf : IsFloor fl) (net : Net3 α) (res : Option (α × α)) (margin : α)
    (ix : Index α) (hm : 0 ≤ margin) (hres : ∀ r, res = some r → 0 < r.1 ∧ 0 < r.2)
    (hb : build fl (netFeatures3 net) res margin = .ok ix) (hix : net.index = some ix)
    (radius : α) (hr : 0 ≤ radius) (q : P3 α) (hq : getCell ix (xy q) ≠ none) :
    ∃ (U : Int) (l : List Nat), searchUnit fl radius ix = .ok U ∧ 0 ≤ U ∧
      radius ≤ ((U : Int) : α) * ((min ix.csize ix.lsize : Int) : α) ∧
      (((U : Int) : α) - 1) * ((min ix.csize ix.lsize : Int) : α) < radius ∧
      candidatesOf3 fl radius net q = .ok (some l) ∧
      ∀ (k : Nat) (g : List (α × α)), (netFeatures3 net)[k]? = some g → ∀ A B, (A, B) ∈ Consec g → ∀ s : α, 0 ≤ s → s ≤ 1 →
        ((xy q).1 - (lerp A B s).1) ^ 2 + ((xy q).2 - (lerp A B s).2) ^ 2 ≤ (((U : Int) : α) * min ix.dX ix.dY) ^ 2 → k ∈ l := by
  rw [candidatesOf3_flat]
  obtain ⟨U, l, hU, hU0, hle, hlt, hc, hall⟩ := edge_within_unit_reach_is_candidate hf (flatNet net) res margin ix hm hres
    (by rw [netFeatures3_flat]; exact hb) hix radius hr (xy q) hq
  exact ⟨U, l, hU, hU0, hle, hlt, hc, fun k g hk => hall k g (by rw [netFeatures3_flat]; exact hk)⟩

/-! Non-vacuity, and the witness that the condition of T23 cannot be dropped. Two parallel streets `y = 0` (edge number 0) and
`y = 12` (edge number 1), `x` from 0 to 12, index of resolution `(1, 1)` with margin 1/4: extent `[-3, 15]²`, 18 × 18 cells of
side 1; search radius 5, so `newunit = ceil(5 / 18) = 1` and the reach of T22 is 1 ground unit. -/
def missEdges : List (EdgeIn Rat × Node Rat × Node Rat) :=
  [(readerEdge sqExact 1 [(0, 0), (12, 0)] 0 12, ⟨1, (0, 0)⟩, ⟨2, (12, 0)⟩),
   (readerEdge sqExact 2 [(0, 12), (12, 12)] 0 12, ⟨3, (0, 12)⟩, ⟨4, (12, 12)⟩)]

/-- `edge_within_radius_missed`: the candidates are NOT complete for the search radius in general. On the network above the
observation `(6, 3)` is at distance 3 `< search_radius = 5` from edge number 0 (its projection on that geometry is `(6, 0)` at
distance 3), yet the unit derived from the numbers of cells is 1, the candidate list of `(6, 3)` is empty, and the observation is
flagged unmatched `((6, 3), -1, -1, -1)`; the observation `(6, 1)`, within the reach `U · min(dX, dY) = 1` of T22, has edge 0
as a candidate and is matched at `(6, 0)`. The real code answers the same (`corpus/C10/edge_within_radius_not_candidate.json`). -/
theorem edge_within_radius_missed :
    (match buildNet Rat.floor missEdges 0 (some (1, 1)) (1/4) with
     | .ok net =>
       (match net.index with
        | some ix => decide (ix.csize = 18 ∧ ix.lsize = 18 ∧ ix.dX = 1 ∧ ix.dY = 1 ∧ searchUnit Rat.floor 5 ix = .ok 1)
        | none => false) &&
       decide (candidatesOf Rat.floor 5 net (6, 3) = .ok (some [])) &&
       decide (projOnTrack sqExact 1 [(0, 0), (12, 0)] 6 3 = .ok ((6, 0), 3, 0)) &&
       (match obsStatesNet sqExact Rat.floor 1 5 net (6, 3) with
        | .ok [s] => decide (s.p = (6, 3) ∧ s.edge = -1)
        | _ => false) &&
       decide (candidatesOf Rat.floor 5 net (6, 1) = .ok (some [0])) &&
       (match obsStatesNet sqExact Rat.floor 1 5 net (6, 1) with
        | .ok [s] => decide (s.p = (6, 0) ∧ s.edge = 0 ∧ s.d0 = 6 ∧ s.d1 = 6)
        | _ => false)
     | .error _ => false) = true := by decide +kernel

/-- T23's condition is satisfiable on a real construction: the same streets with resolution `(6, 6)` give 3 × 3 cells of side
6 (`3 ≤ 6`), `newunit = ceil(5 / 3) = 2`, and `(6, 3)` has both edges as candidates and is matched on edge 0 at `(6, 0)`. -/
example : (match buildNet Rat.floor missEdges 0 (some (6, 6)) (1/4) with
    | .ok net =>
      (match net.index with
       | some ix => decide (ix.csize = 3 ∧ ix.lsize = 3 ∧ ix.dX = 6 ∧ ix.dY = 6 ∧ searchUnit Rat.floor 5 ix = .ok 2)
       | none => false) &&
      (match candidatesOf Rat.floor 5 net (6, 3) with
       | .ok (some l) => decide (0 ∈ l ∧ 1 ∈ l)
       | _ => false) &&
      (match obsStatesNet sqExact Rat.floor 1 5 net (6, 3) with
       | .ok [s] => decide (s.p = (6, 0) ∧ s.edge = 0)
       | _ => false)
    | .error _ => false) = true := by decide +kernel

end TV.C10
