import TracklibVerif.Props.C15Ext
import TracklibVerif.Lemmas.Filter
namespace TV.C15
open TV.Filter
set_option linter.unusedSectionVars false

section gen
variable {β : Type}

/-- `anySample` does not look at the weights, only at their number -/
theorem anySample_congr (s : List (Option β)) (D i : Nat) (k : List β) :
    ∀ (k' : List β) (j : Nat), k.length = k'.length → anySample s D i k j = anySample s D i k' j := by
  induction k with
  | nil =>
    intro k' j h
    cases k' with
    | nil => rfl
    | cons a b => simp at h
  | cons a ks ih =>
    intro k' j h
    cases k' with
    | nil => simp at h
    | cons b ks' =>
      simp only [anySample]
      rw [ih ks' (j + 1) (by simpa using h)]

theorem anySample_of_sample (s : List (Option β)) (D i : Nat) (k : List β) :
    ∀ (j m : Nat), m < k.length → (sample s D i (j + m)).isSome = true → anySample s D i k j = true := by
  induction k with
  | nil => intro j m hm; simp at hm
  | cons a ks ih =>
    intro j m hm hs
    simp only [anySample, Bool.or_eq_true]
    rcases m with _ | m'
    · left; simpa using hs
    · right
      apply ih (j + 1) m' (by simp only [List.length_cons] at hm; omega)
      rw [show j + 1 + m' = j + (m' + 1) by omega]; exact hs

/-- the centre of the window reads the sample of the output index -/
theorem sample_centre (s : List (Option β)) (D i : Nat) (x : β) (h : s[i]? = some (some x)) : sample s D i D = some x := by
  have hi : i < s.length := by
    rcases Nat.lt_or_ge i s.length with h' | h'
    · exact h'
    · rw [List.getElem?_eq_none h'] at h; cases h
  unfold sample
  have e : ((i : Int) - (D : Int) + (D : Int)) = (i : Int) := by omega
  simp only [e]
  rw [if_neg (by omega), if_neg (by omega)]
  simp [h]

end gen

section frontX
variable {α : Type} [Add α] [Mul α] [Div α] [OfNat α 0] [LT α] [DecidableLT α]

theorem getSig_createAF_other' (t : Sigs (Ext α)) (n m : String) (hne : m ≠ n) :
    getSig (createAF t n) m = getSig t m := by
  unfold createAF
  split
  · rfl
  · rw [getSig_append_single]
    have : ¬ n = m := fun h => hne h.symm
    cases getSig t m <;> simp [this]

theorem getSig_step_same (t : Sigs (Ext α)) (af : String) (o : List (Option (Ext α))) :
    getSig (setSig (setSig (createAF t "temp") "temp" o) af o) af = some o := getSig_setSig_same _ _ _

theorem getSig_step_other (t : Sigs (Ext α)) (af m : String) (o : List (Option (Ext α))) (h1 : m ≠ af) (h2 : m ≠ "temp") :
    getSig (setSig (setSig (createAF t "temp") "temp" o) af o) m = getSig t m := by
  rw [getSig_setSig_other _ _ _ _ h1, getSig_setSig_other _ _ _ _ h2, getSig_createAF_other' _ _ _ h2]

theorem toOpt_ofOpt (o : Option (Ext α)) (h : o ≠ some Ext.nan) : toOpt (ofOpt o) = o := by
  cases o with
  | none => rfl
  | some y => cases y <;> first | rfl | exact absurd rfl h

/-- a signal without NaN: every window of at most `2 D + 1 …` positions whose centre exists reads a sample (its centre) -/
theorem anySample_nanfree (v : List (Option (Ext α))) (hv : ∀ o ∈ v, o ≠ none ∧ o ≠ some Ext.nan) (k : List (Ext α)) (D : Nat)
    (hD : D < k.length) (i : Nat) (hi : i < v.length) : anySample (toSamples (v.map ofOpt)) D i k 0 = true := by
  apply anySample_of_sample _ _ _ _ 0 D hD
  rw [Nat.zero_add]
  have hmem := hv v[i] (List.getElem_mem _)
  cases hvi : v[i] with
  | none => exact absurd hvi hmem.1
  | some y =>
    have hy : y ≠ Ext.nan := fun h => hmem.2 (by rw [hvi, h])
    have : (toSamples (v.map ofOpt))[i]? = some (some y) := by
      unfold toSamples
      rw [List.map_map, List.getElem?_map, List.getElem?_eq_getElem hi, hvi]
      cases y <;> first | rfl | exact absurd rfl hy
    rw [sample_centre _ _ _ y this]; rfl

/-- S1: a non-empty list of non-finite weights has a non-finite total, and `kernel[i] /= norm` leaves only NaN -/
theorem normalise_nonfin_all_nan (k : List (Ext α)) (hne : k ≠ []) (hk : ∀ w ∈ k, w.isFin = false) :
    ∀ w ∈ normalise k, w = Ext.nan := by
  have htot : (k.foldl (· + ·) (0 : Ext α)).isFin = false := by
    cases k with
    | nil => exact absurd rfl hne
    | cons a ks =>
      rw [List.foldl_cons]
      exact foldl_add_nonfin ks _ (Ext.add_nonfin _ _ (hk a (List.mem_cons_self ..)))
  intro w hw
  rw [normalise_eq, List.mem_map] at hw
  obtain ⟨x, hx, rfl⟩ := hw
  exact Ext.div_nonfin _ _ (hk x hx) htot

/-- S3: one call `track.operate(FILTER, af, weights, "temp")` with weights that normalise to non-finite values -/
theorem operateListX_nonfin (t : Sigs (Ext α)) (afIn : String) (k : List (Ext α)) (hin : afIn ≠ "temp")
    (hnf : ∀ w ∈ normalise k, w.isFin = false) (hodd : k.length % 2 = 1) (hts : trackSize t ≠ 0)
    (v : List (Option (Ext α))) (hget : getSig t afIn = some v) (hD : k.length / 2 ≤ v.length)
    (hall : ∀ i, i < v.length → anySample (toSamples (v.map ofOpt)) (k.length / 2) i k 0 = true) :
    ∃ out, operateListX t afIn k "temp" = .ok (normalise k, out, setSig (createAF t "temp") "temp" (out.map toOpt)) ∧
      out.length = v.length ∧
      ∀ i, i < v.length →
        ((k.length / 2 ≤ i ∧ i < v.length - k.length / 2) → out[i]? = some .nan) ∧
        ((i < k.length / 2 ∨ v.length - k.length / 2 ≤ i) → out[i]? = (v.map ofOpt)[i]?) := by
  obtain ⟨_, h2⟩ := nonfinite_weights_nan (v.map ofOpt) (normalise k) false true (by rw [normalise_length]; exact hodd) hnf
  rw [normalise_length, List.length_map] at h2
  have hall' : ∀ i, i < v.length → anySample (toSamples (v.map ofOpt)) (k.length / 2) i (normalise k) 0 = true := by
    intro i hi
    rw [anySample_congr _ _ _ (normalise k) k 0 (normalise_length k)]
    exact hall i hi
  obtain ⟨out, ho, hl, hi⟩ := (h2 hall').2 (Or.inr hD)
  refine ⟨out, ?_, hl, ?_⟩
  · unfold operateListX
    have e1 : ((normalise k).length % 2 == 0) = false := by rw [normalise_length]; simp [hodd]
    have e2 : reservedName "temp" = false := by decide
    have e3 : (trackSize t == 0) = false := by simpa using hts
    have hget' : getSig (createAF t "temp") afIn = some v := by rw [getSig_createAF_other' _ _ _ hin]; exact hget
    simp only [e1, e2, e3, Bool.false_eq_true, if_false, hget', ho]
  · intro i hi'
    obtain ⟨a, b⟩ := hi i hi'
    exact ⟨fun h => a (Or.inr h), b rfl⟩

/-- one turn of the loop of `filter_seq` on a coordinate, with weights that normalise to non-finite values, over a NaN-free signal -/
theorem seqLoopListX_step (t : Sigs (Ext α)) (af : String) (rest : List String) (k : List (Ext α))
    (haf : af = "x" ∨ af = "y" ∨ af = "z")
    (hnf : ∀ w ∈ normalise k, w.isFin = false) (hodd : k.length % 2 = 1) (hts : trackSize t ≠ 0)
    (v : List (Option (Ext α))) (hget : getSig t af = some v) (hD : k.length / 2 ≤ v.length)
    (hv : ∀ o ∈ v, o ≠ none ∧ o ≠ some Ext.nan) :
    ∃ o : List (Option (Ext α)),
      seqLoopListX (af :: rest) k t = seqLoopListX rest (normalise k) (setSig (setSig (createAF t "temp") "temp" o) af o) ∧
      o.length = v.length ∧
      ∀ i, i < v.length →
        ((k.length / 2 ≤ i ∧ i < v.length - k.length / 2) → o[i]? = some none) ∧
        ((i < k.length / 2 ∨ v.length - k.length / 2 ≤ i) → o[i]? = v[i]?) := by
  have hin : af ≠ "temp" := by rcases haf with h | h | h <;> subst h <;> decide
  obtain ⟨out, hop, hl, hi⟩ := operateListX_nonfin t af k hin hnf hodd hts v hget hD
    (fun i hi => anySample_nanfree v hv k _ (by omega) i hi)
  refine ⟨out.map toOpt, ?_, by rw [List.length_map]; exact hl, ?_⟩
  · rw [seqLoopListX, if_pos (by simpa using haf)]
    simp only [hop]
  · intro i hi'
    obtain ⟨a, b⟩ := hi i hi'
    refine ⟨fun h => ?_, fun h => ?_⟩
    · rw [List.getElem?_map, a h]; rfl
    · rw [List.getElem?_map, b h, List.getElem?_map, List.getElem?_eq_getElem hi']
      simp only [Option.map_some]
      rw [toOpt_ofOpt _ (hv _ (List.getElem_mem _)).2]

theorem trackSize_of_getSig (t : Sigs (Ext α)) (v : List (Option (Ext α))) (h : getSig t "x" = some v) : trackSize t = v.length := by
  unfold trackSize; rw [h]

theorem nan_nonfin_of_all_nan (k : List (Ext α)) (h : ∀ w ∈ k, w = Ext.nan) : ∀ w ∈ k, w.isFin = false := by
  intro w hw; rw [h w hw]; rfl

/-- **`filter_seq(track, weights)` with a weight list whose total is 0 or NaN** — e.g. the derivative kernel `[1, 0, -1]` — on a track of at least
`D` points whose coordinates hold no NaN: the call succeeds; the caller's list is left as `[nan, …, nan]` (it is divided by its total at every
dimension: `[inf, nan, -inf]` after x, all NaN after y); and EVERY coordinate has become NaN at every filtered index, its first and last `D`
values being kept. Nothing is raised: the user gets a track of NaN. -/
theorem filterSeq_zero_total_list (t : Sigs (Ext α)) (k : List (Ext α)) (hodd : k.length % 2 = 1) (h1 : k.length ≠ 1)
    (htot : (∃ z, k.foldl (· + ·) 0 = Ext.fin z ∧ ¬ 0 < z ∧ ¬ z < 0) ∨ k.foldl (· + ·) 0 = Ext.nan)
    (vx vy vz : List (Option (Ext α))) (hx : getSig t "x" = some vx) (hy : getSig t "y" = some vy) (hz : getSig t "z" = some vz)
    (hly : vy.length = vx.length) (hlz : vz.length = vx.length) (hlen : k.length / 2 ≤ vx.length) (hne : vx.length ≠ 0)
    (hnan : ∀ v ∈ [vx, vy, vz], ∀ o ∈ v, o ≠ none ∧ o ≠ some Ext.nan) :
    ∃ t', filterSeqListX t k ["x", "y", "z"] = .ok (List.replicate k.length Ext.nan, t') ∧
      ∀ d v, (d, v) ∈ [("x", vx), ("y", vy), ("z", vz)] →
        ∃ out, getSig t' d = some out ∧ out.length = v.length ∧
          ∀ i, i < v.length →
            ((k.length / 2 ≤ i ∧ i < v.length - k.length / 2) → out[i]? = some none) ∧
            ((i < k.length / 2 ∨ v.length - k.length / 2 ≤ i) → out[i]? = v[i]?) := by
  have hnf1 : ∀ w ∈ normalise k, w.isFin = false := (list_zero_or_nan_total [] k hodd htot).1
  have hne1 : normalise k ≠ [] := by
    intro h; have := normalise_length k; rw [h] at this; simp at this; omega
  have hnan2 : ∀ w ∈ normalise (normalise k), w = Ext.nan := normalise_nonfin_all_nan _ hne1 hnf1
  have hnf2 := nan_nonfin_of_all_nan _ hnan2
  have hne2 : normalise (normalise k) ≠ [] := by
    intro h; have := normalise_length (normalise k); rw [h, normalise_length] at this; simp at this; omega
  have hnan3 : ∀ w ∈ normalise (normalise (normalise k)), w = Ext.nan := normalise_nonfin_all_nan _ hne2 hnf2
  have hl3 : (normalise (normalise (normalise k))).length = k.length := by
    rw [normalise_length, normalise_length, normalise_length]
  have hk3 : normalise (normalise (normalise k)) = List.replicate k.length Ext.nan := by
    rw [List.eq_replicate_iff]; exact ⟨hl3, hnan3⟩
  have hvx := hnan vx (by simp)
  have hvy := hnan vy (by simp)
  have hvz := hnan vz (by simp)
  -- x
  obtain ⟨ox, e1, lx, px⟩ := seqLoopListX_step t "x" ["y", "z"] k (Or.inl rfl) hnf1 hodd
    (by rw [trackSize_of_getSig t vx hx]; exact hne) vx hx hlen hvx
  have gx1 := getSig_step_same t "x" ox
  have gy1 : getSig _ "y" = some vy := (getSig_step_other t "x" "y" ox (by decide) (by decide)).trans hy
  have gz1 : getSig _ "z" = some vz := (getSig_step_other t "x" "z" ox (by decide) (by decide)).trans hz
  generalize setSig (setSig (createAF t "temp") "temp" ox) "x" ox = T1 at e1 gx1 gy1 gz1
  -- y
  obtain ⟨oy, e2, ly, py⟩ := seqLoopListX_step T1 "y" ["z"] (normalise k) (Or.inr (Or.inl rfl)) hnf2
    (by rw [normalise_length]; exact hodd)
    (by rw [trackSize_of_getSig T1 ox gx1, lx]; exact hne) vy gy1 (by rw [normalise_length, hly]; exact hlen) hvy
  have gx2 : getSig _ "x" = some ox := (getSig_step_other T1 "y" "x" oy (by decide) (by decide)).trans gx1
  have gy2 := getSig_step_same T1 "y" oy
  have gz2 : getSig _ "z" = some vz := (getSig_step_other T1 "y" "z" oy (by decide) (by decide)).trans gz1
  generalize setSig (setSig (createAF T1 "temp") "temp" oy) "y" oy = T2 at e2 gx2 gy2 gz2
  -- z
  obtain ⟨oz, e3, lz, pz⟩ := seqLoopListX_step T2 "z" [] (normalise (normalise k)) (Or.inr (Or.inr rfl)) (nan_nonfin_of_all_nan _ hnan3)
    (by rw [normalise_length, normalise_length]; exact hodd)
    (by rw [trackSize_of_getSig T2 ox gx2, lx]; exact hne) vz gz2 (by rw [normalise_length, normalise_length, hlz]; exact hlen) hvz
  have gx3 : getSig _ "x" = some ox := (getSig_step_other T2 "z" "x" oz (by decide) (by decide)).trans gx2
  have gy3 : getSig _ "y" = some oy := (getSig_step_other T2 "z" "y" oz (by decide) (by decide)).trans gy2
  have gz3 := getSig_step_same T2 "z" oz
  generalize setSig (setSig (createAF T2 "temp") "temp" oz) "z" oz = T3 at e3 gx3 gy3 gz3
  simp only [normalise_length] at py pz
  refine ⟨T3, ?_, ?_⟩
  · unfold filterSeqListX
    have : (k.length == 1) = false := by simpa using h1
    simp only [this, Bool.false_eq_true, if_false]
    rw [e1, e2, e3, hk3]
    rfl
  · intro d v hmem
    simp only [List.mem_cons, Prod.mk.injEq, List.mem_nil_iff, or_false] at hmem
    rcases hmem with ⟨rfl, rfl⟩ | ⟨rfl, rfl⟩ | ⟨rfl, rfl⟩
    · exact ⟨ox, gx3, lx, px⟩
    · exact ⟨oy, gy3, ly, py⟩
    · exact ⟨oz, gz3, lz, pz⟩

/-- the derivative kernel `[1, 0, -1]` on a track of five points: the three coordinates are NaN at the filtered indices, the list is `[nan, nan, nan]` -/
example : (filterSeqListX (α := Int)
      [("x", [some (.fin 1), some (.fin 2), some (.fin 3), some (.fin 4), some (.fin 5)]),
       ("y", [some (.fin 1), some (.fin 4), some (.fin 9), some (.fin 16), some (.fin 25)]),
       ("z", [some (.fin 0), some (.fin 0), some (.fin 0), some (.fin 0), some (.fin 0)])]
      [.fin 1, .fin 0, .fin (-1)] ["x", "y", "z"]) =
    .ok ([.nan, .nan, .nan],
      [("x", [some (.fin 1), none, none, none, some (.fin 5)]),
       ("y", [some (.fin 1), none, none, none, some (.fin 25)]),
       ("z", [some (.fin 0), none, none, none, some (.fin 0)]),
       ("temp", [some (.fin 0), none, none, none, some (.fin 0)])]) := by rfl

end frontX
end TV.C15
