import TracklibVerif.Props.C19
/-! C19, the exception path of `addCollectionToRaster`: WHICH cells of WHICH grids have been written when the `TypeError`
of an observation outside the extent leaves the call, and what a later `computeAggregates` aggregates.

The loops are `for trace in collection: for afname in AFs: for i in range(trace.size()):`, the values are appended one at a
time, and the first `getCell` that returns `None` ends everything. Every track has every feature with one value per
observation (the `AnalyticalFeatureError` test before the loops), so the observation that raises is met in the pass of
the FIRST feature `a0` of the set's iteration order, on the first track `t` that has an observation outside. What has been
written is therefore a prefix of the (track, feature, observation) order:

* every feature of every track before `t` (all their observations), and
* for `t`, the feature `a0` only, up to the observation before the first one outside the extent;

nothing of `t` for the other features, nothing of the tracks after `t` (`writtenObs`). `add_collection_partial` states it
cell by cell (`add_collection_partial_total`: every collection with an observation outside splits that way); `partial_conservation` is the conservation law on that path (the cell sizes of a feature add up to the number
of observations WRITTEN for it, so the features of one raster disagree by the part of `t` that only `a0` received);
`partial_then_compute` says that a later `computeAggregates` — after any calls other than `addCollectionToRaster` —
aggregates exactly those values, band by band. -/
namespace TV.C19
open TV.Raster
set_option linter.unusedSectionVars false
variable {α : Type} [Field α] [LinearOrder α] [IsStrictOrderedRing α] [FloorRing α]

/-- `(x, y)` lies in the extent, as a test -/
def insideB (g : Grid α) (o : α × α × Option α) : Bool :=
  decide ((g.xmin ≤ o.1 ∧ o.1 ≤ g.xmax) ∧ (g.ymin ≤ o.2.1 ∧ o.2.1 ≤ g.ymax))

theorem insideB_iff (g : Grid α) (o : α × α × Option α) : insideB g o = true ↔ Inside g o.1 o.2.1 := by
  unfold insideB Inside; exact decide_eq_true_iff

/-- the observations whose values are in the grid of feature `af` when the `TypeError` leaves `addCollectionToRaster`:
`Tpre` the tracks before the one that raises, `t` that track, `a0` the first feature of the iteration order -/
def writtenObs (g : Grid α) (a0 : String) (Tpre : List (Trk α)) (t : Trk α) (af : String) : List (α × α × Option α) :=
  Tpre.flatMap (fun t' => obsOf t' af) ++ (if af = a0 then (obsOf t a0).takeWhile (insideB g) else [])

/-- the loop over the tracks, once the tracks `A` have passed without exception, goes on from the values reached -/
theorem addTracks_append (floor : α → Int) (g : Grid α) (B : List (Trk α)) : ∀ (A : List (Trk α)) (V V' : Vals α),
    addTracks floor g A V = (V', none) → addTracks floor g (A ++ B) V = addTracks floor g B V' := by
  intro A
  induction A with
  | nil => intro V V' h; simp only [addTracks, Prod.mk.injEq, and_true] at h; simp [h]
  | cons t rest ih =>
    intro V V' h
    simp only [addTracks, List.cons_append] at h ⊢
    cases hx : (addTrack floor g t V).2 with
    | some x =>
      have hpair : addTrack floor g t V = ((addTrack floor g t V).1, some x) := by rw [← hx]
      rw [hpair] at h; simp at h
    | none =>
      have hpair : addTrack floor g t V = ((addTrack floor g t V).1, none) := by rw [← hx]
      rw [hpair] at h ⊢
      exact ih _ _ h

/-- a list with an element failing the test: the part before the first such element passes it, that element does not -/
theorem split_first_outside {O : Type} (q : O → Bool) : ∀ (l : List O), (∃ o ∈ l, q o = false) →
    ∃ o post, l = l.takeWhile q ++ o :: post ∧ q o = false := by
  intro l
  induction l with
  | nil => intro h; obtain ⟨o, ho, _⟩ := h; simp at ho
  | cons a rest ih =>
    intro h
    cases ha : q a with
    | false => exact ⟨a, rest, by simp [List.takeWhile, ha], ha⟩
    | true =>
      obtain ⟨o, ho, hq⟩ := h
      have hrest : ∃ o ∈ rest, q o = false := by
        rcases List.mem_cons.1 ho with e | e
        · subst e; rw [ha] at hq; exact absurd hq (by simp)
        · exact ⟨o, e, hq⟩
      obtain ⟨o', post, h1, h2⟩ := ih hrest
      refine ⟨o', post, ?_, h2⟩
      simp only [List.takeWhile, ha, List.cons_append]
      rw [← h1]

theorem takeWhile_all {O : Type} (q : O → Bool) : ∀ (l : List O), ∀ o ∈ l.takeWhile q, q o = true := by
  intro l
  induction l with
  | nil => intro o ho; simp at ho
  | cons a rest ih =>
    intro o ho
    cases ha : q a with
    | false => simp [List.takeWhile, ha] at ho
    | true =>
      simp only [List.takeWhile, ha, List.mem_cons] at ho
      rcases ho with e | e
      · rw [e]; exact ha
      · exact ih o e

/-- WHAT HAS BEEN WRITTEN when the `TypeError` leaves `addCollectionToRaster`. A raster in any state with a well-formed grid
and at least one band (`a0 :: arest` the iteration order of the set of features); the tracks `Tpre` all inside the extent,
then a track `t` with an observation outside, then any tracks `Tpost`; every track has every feature, one value per
observation. Then the call raises `TypeError`, bands / geometry / no-data value are untouched, the dictionary — replaced, as
always — has exactly the features of the bands in that order, and the cell (line `i`, column `j`) of feature `af` holds exactly
the values of `af` of the observations `writtenObs` located there, in order: all of `Tpre`, and — for `a0` only — those of `t`
before its first observation outside. -/
theorem add_collection_partial (s : RState α) (hg : WF s.g) (a0 : String) (arest : List String) (Tpre Tpost : List (Trk α)) (t : Trk α)
    (hperm : (a0 :: arest).isPerm (afsOf s.bands) = true)
    (hfeat : ∀ t' ∈ Tpre ++ t :: Tpost, ∀ af ∈ a0 :: arest, HasFeat t' af)
    (hpre : ∀ t' ∈ Tpre, InExtent s.g t') (hout : ∃ p ∈ t.pts, ¬ Inside s.g p.1 p.2) :
    ∃ V : Vals α, addColl Int.floor s (a0 :: arest) (Tpre ++ t :: Tpost) = ({ s with values := some V }, some .type)
      ∧ V.map (·.1) = a0 :: arest
      ∧ ∀ af ∈ a0 :: arest, ∃ c, V.lookup af = some c ∧ Rect c s.g.nrow.toNat s.g.ncol.toNat
          ∧ ∀ i j, cellAt c i j = located (fun o : α × α × Option α => getCell Int.floor s.g o.1 o.2.1) (fun o => o.2.2) j i
              (writtenObs s.g a0 Tpre t af) := by
  let E : String → String × Cells (Option α) := fun af => (af, emptyCells s.g.nrow.toNat s.g.ncol.toNat)
  let G : String → String × Cells (Option α) := fun af => growAll Int.floor s.g Tpre (E af)
  have hsome : ∀ t' ∈ Tpre ++ t :: Tpost, ∀ af ∈ a0 :: arest, (featVals t' af).isSome = true := by
    intro t' ht' af haf
    obtain ⟨vs, hvs, _⟩ := hfeat t' ht' af haf
    rw [hvs]; rfl
  -- what the tracks before `t` leave, per feature
  have hG : ∀ af ∈ a0 :: arest, (G af).1 = af ∧ Rect (G af).2 s.g.nrow.toNat s.g.ncol.toNat
      ∧ ∀ i j, cellAt (G af).2 i j = located (fun o : α × α × Option α => getCell Int.floor s.g o.1 o.2.1) (fun o => o.2.2) j i
          (Tpre.flatMap (fun t' => obsOf t' af)) := by
    intro af haf
    obtain ⟨hR, hc⟩ := growAll_spec s.g hg Tpre (E af) (rect_empty _ _)
      (fun t' ht' => ⟨hsome t' (List.mem_append_left _ ht') af haf, hpre t' ht'⟩)
    refine ⟨growAll_key _ _ _ _, hR, fun i j => ?_⟩
    rw [hc i j, cellAt_empty]; simp [E]
  have hpreOK : addTracks Int.floor s.g Tpre ((a0 :: arest).map E) = (((a0 :: arest).map E).map (growAll Int.floor s.g Tpre), none) := by
    apply addTracks_ok s.g hg Tpre _ ?_ hpre
    intro e he
    obtain ⟨af, haf, rfl⟩ := List.mem_map.1 he
    exact ⟨rect_empty _ _, fun t' ht' => hsome t' (List.mem_append_left _ ht') af haf⟩
  -- the pass of `a0` on `t`
  obtain ⟨vs, hvs, hl⟩ := hfeat t (List.mem_append_right _ List.mem_cons_self) a0 List.mem_cons_self
  have hex : ∃ o ∈ obsOf t a0, insideB s.g o = false := by
    obtain ⟨p, hp, hpo⟩ := hout
    rw [← obsOf_points t a0 vs hvs hl] at hp
    obtain ⟨o, ho, rfl⟩ := List.mem_map.1 hp
    refine ⟨o, ho, ?_⟩
    rw [← Bool.not_eq_true, insideB_iff]; exact hpo
  obtain ⟨o, post, hsplit, hofalse⟩ := split_first_outside (insideB s.g) (obsOf t a0) hex
  have hoOut : ¬ Inside s.g o.1 o.2.1 := by rw [← insideB_iff, hofalse]; simp
  have hpreIn : ∀ p ∈ (obsOf t a0).takeWhile (insideB s.g), Inside s.g p.1 p.2.1 := fun p hp =>
    (insideB_iff s.g p).1 (takeWhile_all _ _ p hp)
  obtain ⟨hk0, hR0, hc0⟩ := hG a0 List.mem_cons_self
  obtain ⟨c', hstop, _, hR', hc'⟩ := scatter_stops_at_outside s.g hg ((obsOf t a0).takeWhile (insideB s.g)) post o (G a0).2 hR0 hpreIn hoOut
  rw [← hsplit] at hstop
  have hgrow : growE Int.floor s.g t (G a0) = ((a0, c'), some .type) := by
    unfold growE
    rw [hk0, hvs]
    simp only [hstop]
  have hrun : addTracks Int.floor s.g (Tpre ++ t :: Tpost) ((a0 :: arest).map E) = ((a0, c') :: arest.map G, some .type) := by
    rw [addTracks_append Int.floor s.g (t :: Tpost) Tpre _ _ hpreOK]
    simp only [List.map_cons, List.map_map, addTracks, addTrack]
    have : growAll Int.floor s.g Tpre (E a0) = G a0 := rfl
    rw [this, hgrow]
    rfl
  have hadd : addColl Int.floor s (a0 :: arest) (Tpre ++ t :: Tpost) = ({ s with values := some ((a0, c') :: arest.map G) }, some .type) := by
    unfold addColl
    have h1 : (!((a0 :: arest).isPerm (afsOf s.bands))) = false := by rw [hperm]; rfl
    have h2 : ((Tpre ++ t :: Tpost).any (fun t => (a0 :: arest).any (fun af => (featVals t af).isNone))) = false := by
      rw [List.any_eq_false]
      intro t' ht'
      rw [Bool.not_eq_true, List.any_eq_false]
      intro af haf
      have := hsome t' ht' af haf
      cases hfv : featVals t' af with
      | none => rw [hfv] at this; simp at this
      | some v => simp
    rw [h1, h2]
    simp only [Bool.false_eq_true, ↓reduceIte]
    rw [hrun]
  refine ⟨_, hadd, ?_, ?_⟩
  · simp only [List.map_cons, List.map_map, List.cons.injEq, true_and]
    have : ((fun x : String × Cells (Option α) => x.1) ∘ G) = id := by
      funext af; exact growAll_key _ _ _ _
    rw [this]; simp
  · intro af haf
    by_cases e : af = a0
    · subst e
      refine ⟨c', by simp [List.lookup], hR', fun i j => ?_⟩
      rw [hc' i j, hc0 i j, ← located_append]
      simp [writtenObs]
    · have hmem : af ∈ arest := by
        rcases List.mem_cons.1 haf with h | h
        · exact absurd h e
        · exact h
      obtain ⟨_, hR, hc⟩ := hG af haf
      refine ⟨(G af).2, ?_, hR, fun i j => ?_⟩
      · have hne : (af == a0) = false := by simpa using e
        rw [List.lookup_cons, hne]
        exact lookup_map_key G (fun a => growAll_key _ _ _ _) arest af hmem
      · rw [hc i j]; simp [writtenObs, e]

/-- every collection with an observation outside the extent has a FIRST track with one: the tracks before it lie inside -/
theorem first_outside_track (g : Grid α) (T : List (Trk α)) (hout : ∃ t ∈ T, ∃ p ∈ t.pts, ¬ Inside g p.1 p.2) :
    ∃ (Tpre : List (Trk α)) (t : Trk α) (Tpost : List (Trk α)), T = Tpre ++ t :: Tpost
      ∧ (∀ t' ∈ Tpre, InExtent g t') ∧ ∃ p ∈ t.pts, ¬ Inside g p.1 p.2 := by
  let q : Trk α → Bool := fun t => t.pts.all (fun p => decide ((g.xmin ≤ p.1 ∧ p.1 ≤ g.xmax) ∧ (g.ymin ≤ p.2 ∧ p.2 ≤ g.ymax)))
  have hq : ∀ t, q t = true ↔ InExtent g t := by
    intro t
    simp only [q, List.all_eq_true, decide_eq_true_eq, InExtent]
  have hex : ∃ t ∈ T, q t = false := by
    obtain ⟨t, ht, p, hp, hpo⟩ := hout
    refine ⟨t, ht, ?_⟩
    rw [← Bool.not_eq_true, hq]
    intro h
    exact hpo (h p hp)
  obtain ⟨t, Tpost, hsplit, hfalse⟩ := split_first_outside q T hex
  refine ⟨T.takeWhile q, t, Tpost, hsplit, fun t' ht' => (hq t').1 (takeWhile_all q T t' ht'), ?_⟩
  have hn : ¬ InExtent g t := by rw [← hq, hfalse]; simp
  by_contra hno
  apply hn
  intro p hp
  by_contra hin
  exact hno ⟨p, hp, hin⟩

/-- `add_collection_partial` covers EVERY `TypeError` of `add_collection_outside`: whenever some observation of the collection
lies outside the extent (at least one band, every track having every feature), the collection splits at its first track with
such an observation and the values left behind are those of `writtenObs` for that split. -/
theorem add_collection_partial_total (s : RState α) (hg : WF s.g) (a0 : String) (arest : List String) (T : List (Trk α))
    (hperm : (a0 :: arest).isPerm (afsOf s.bands) = true)
    (hfeat : ∀ t' ∈ T, ∀ af ∈ a0 :: arest, HasFeat t' af) (hout : ∃ t ∈ T, ∃ p ∈ t.pts, ¬ Inside s.g p.1 p.2) :
    ∃ (Tpre : List (Trk α)) (t : Trk α) (Tpost : List (Trk α)) (V : Vals α), T = Tpre ++ t :: Tpost
      ∧ (∀ t' ∈ Tpre, InExtent s.g t') ∧ (∃ p ∈ t.pts, ¬ Inside s.g p.1 p.2)
      ∧ addColl Int.floor s (a0 :: arest) T = ({ s with values := some V }, some .type)
      ∧ V.map (·.1) = a0 :: arest
      ∧ ∀ af ∈ a0 :: arest, ∃ c, V.lookup af = some c ∧ Rect c s.g.nrow.toNat s.g.ncol.toNat
          ∧ ∀ i j, cellAt c i j = located (fun o : α × α × Option α => getCell Int.floor s.g o.1 o.2.1) (fun o => o.2.2) j i
              (writtenObs s.g a0 Tpre t af) := by
  obtain ⟨Tpre, t, Tpost, hT, hpre, houtt⟩ := first_outside_track s.g T hout
  subst hT
  obtain ⟨V, h1, h2, h3⟩ := add_collection_partial s hg a0 arest Tpre Tpost t hperm hfeat hpre houtt
  exact ⟨Tpre, t, Tpost, V, rfl, hpre, houtt, h1, h2, h3⟩

/-- every observation that has been written lies in the extent (so it has a cell of the grid) -/
theorem writtenObs_inside (g : Grid α) (a0 : String) (Tpre : List (Trk α)) (t : Trk α) (af : String)
    (hpre : ∀ t' ∈ Tpre, InExtent g t') : ∀ o ∈ writtenObs g a0 Tpre t af, Inside g o.1 o.2.1 := by
  intro o ho
  unfold writtenObs at ho
  rcases List.mem_append.1 ho with h | h
  · obtain ⟨t', ht', hot⟩ := List.mem_flatMap.1 h
    exact hpre t' ht' _ (obsOf_mem t' af o hot)
  · by_cases e : af = a0
    · rw [if_pos e] at h
      exact (insideB_iff g o).1 (takeWhile_all _ _ o h)
    · rw [if_neg e] at h; simp at h

/-- 'Conserves observations' on the exception path: after the failing `addCollectionToRaster` (hypotheses of
`add_collection_partial`), for every feature of the bands the cell sizes add up to the number of observations WRITTEN for it
— all those of the tracks before the failing one, plus, for the first feature only, those of the failing track before its
first observation outside —, and any per-value weight (non-NaN: the `co_count` total) is conserved on them. Nothing is
written twice, nothing written is lost; the observation outside and everything after it in the loop order is absent. -/
theorem partial_conservation (s : RState α) (hg : WF s.g) (a0 : String) (arest : List String) (Tpre Tpost : List (Trk α)) (t : Trk α)
    (hperm : (a0 :: arest).isPerm (afsOf s.bands) = true)
    (hfeat : ∀ t' ∈ Tpre ++ t :: Tpost, ∀ af ∈ a0 :: arest, HasFeat t' af)
    (hpre : ∀ t' ∈ Tpre, InExtent s.g t') (hout : ∃ p ∈ t.pts, ¬ Inside s.g p.1 p.2)
    (af : String) (haf : af ∈ a0 :: arest) :
    ∃ (V : Vals α) (c : Cells (Option α)),
      addColl Int.floor s (a0 :: arest) (Tpre ++ t :: Tpost) = ({ s with values := some V }, some .type) ∧ V.lookup af = some c
      ∧ (∑ i ∈ Finset.range s.g.nrow.toNat, ∑ j ∈ Finset.range s.g.ncol.toNat, (cellAt c i j).length)
          = (writtenObs s.g a0 Tpre t af).length
      ∧ ∀ w : Option α → ℕ, (∑ i ∈ Finset.range s.g.nrow.toNat, ∑ j ∈ Finset.range s.g.ncol.toNat, ((cellAt c i j).map w).sum)
          = ((writtenObs s.g a0 Tpre t af).map (fun o => w o.2.2)).sum := by
  obtain ⟨V, hV, _, hspec⟩ := add_collection_partial s hg a0 arest Tpre Tpost t hperm hfeat hpre hout
  obtain ⟨c, hl, _, hc⟩ := hspec af haf
  have hrange : ∀ o ∈ writtenObs s.g a0 Tpre t af, ∃ col line : Int, getCell Int.floor s.g o.1 o.2.1 = some (col, line)
      ∧ 0 ≤ col ∧ col < (s.g.ncol.toNat : ℤ) ∧ 0 ≤ line ∧ line < (s.g.nrow.toNat : ℤ) := by
    intro o ho
    have hp := writtenObs_inside s.g a0 Tpre t af hpre o ho
    obtain ⟨cc, r, h, c0, c1, r0, r1, _⟩ := getCell_footprint s.g hg o.1 o.2.1 hp.1 hp.2
    refine ⟨cc, r, h, c0, ?_, r0, ?_⟩
    · rw [Int.toNat_of_nonneg hg.ncol_pos.le]; exact c1
    · rw [Int.toNat_of_nonneg hg.nrow_pos.le]; exact r1
  have hw := located_weight_sum (fun o : α × α × Option α => getCell Int.floor s.g o.1 o.2.1) (fun o => o.2.2)
  refine ⟨V, c, hV, hl, ?_, ?_⟩
  · have := hw (fun _ => 1) s.g.nrow.toNat s.g.ncol.toNat _ hrange
    simp only [hc]
    simpa using this
  · intro w
    simp only [hc]
    exact hw w s.g.nrow.toNat s.g.ncol.toNat _ hrange

/-- A LATER `computeAggregates` AGGREGATES EXACTLY WHAT WAS WRITTEN. After the failing `addCollectionToRaster` of
`add_collection_partial` (the exception caught), then any calls `post` other than `addCollectionToRaster` (`setNoDataValue`,
bands added, other `computeAggregates`), then `computeAggregates`, every band being `<feature>#<operator>` with a feature of
the scattered set and one of the six operators: that `computeAggregates` does not raise, and EVERY band holds, in (line `i`,
column `j`), its operator over exactly the values of its feature of the observations `writtenObs` located there — a
`co_count` band of the first feature counts the part of the failing track before its first observation outside, a band of
another feature does not —, a cell without value holding the raster's no-data value as it is at that call. -/
theorem partial_then_compute (s : RState α) (hg : WF s.g) (a0 : String) (arest : List String) (Tpre Tpost : List (Trk α)) (t : Trk α)
    (post : List (Cmd α)) (hpost : ∀ c ∈ post, c.isAdd = false)
    (hperm : (a0 :: arest).isPerm (afsOf s.bands) = true)
    (hfeat : ∀ t' ∈ Tpre ++ t :: Tpost, ∀ af ∈ a0 :: arest, HasFeat t' af)
    (hpre : ∀ t' ∈ Tpre, InExtent s.g t') (hout : ∃ p ∈ t.pts, ¬ Inside s.g p.1 p.2)
    (hbands : ∀ b ∈ (run Int.floor s ([.add (a0 :: arest) (Tpre ++ t :: Tpost)] ++ post)).1.bands,
        ∃ af opn rest, b.name = af :: opn :: rest ∧ af ∈ a0 :: arest ∧ (opOf opn).isSome = true) :
    ∃ (s3 : RState α) (outs : List (Option Err)),
      run Int.floor s ([.add (a0 :: arest) (Tpre ++ t :: Tpost)] ++ post ++ [.compute]) = (s3, outs)
      ∧ outs.head? = some (some .type) ∧ outs.getLast? = some none
      ∧ s3.g = s.g ∧ s3.noData = (run Int.floor s ([.add (a0 :: arest) (Tpre ++ t :: Tpost)] ++ post)).1.noData
      ∧ s3.bands.map (·.name) = (run Int.floor s ([.add (a0 :: arest) (Tpre ++ t :: Tpost)] ++ post)).1.bands.map (·.name)
      ∧ ∀ b ∈ s3.bands, ∀ af opn rest op, b.name = af :: opn :: rest → opOf opn = some op →
          ∃ c : Cells (Option α), Rect c s.g.nrow.toNat s.g.ncol.toNat
            ∧ (∀ i j, cellAt c i j = located (fun o : α × α × Option α => getCell Int.floor s.g o.1 o.2.1) (fun o => o.2.2) j i
                (writtenObs s.g a0 Tpre t af))
            ∧ b.grid = some (aggregatesN s3.noData op c) := by
  obtain ⟨V, hV, _, hspec⟩ := add_collection_partial s hg a0 arest Tpre Tpost t hperm hfeat hpre hout
  set s1 : RState α := { s with values := some V } with hs1
  set s2 : RState α := (run Int.floor s1 post).1 with hs2
  have hmid : (run Int.floor s ([.add (a0 :: arest) (Tpre ++ t :: Tpost)] ++ post)).1 = s2 := by
    rw [run_append]; simp only [run_cons, run_nil, step, hV]; rfl
  rw [hmid] at hbands ⊢
  have hvals : s2.values = some V := run_values _ post s1 hpost
  have hcb : ∀ b ∈ s2.bands, ∃ af opn rest op c, b.name = af :: opn :: rest ∧ opOf opn = some op ∧ V.lookup af = some c
      ∧ Rect c s.g.nrow.toNat s.g.ncol.toNat
      ∧ (∀ i j, cellAt c i j = located (fun o : α × α × Option α => getCell Int.floor s.g o.1 o.2.1) (fun o => o.2.2) j i
          (writtenObs s.g a0 Tpre t af))
      ∧ computeBand s2.noData (some V) b = ({ b with grid := some (aggregatesN s2.noData op c) }, none) := by
    intro b hb
    obtain ⟨af, opn, rest, hn, haf, hop⟩ := hbands b hb
    obtain ⟨op, hop⟩ := Option.isSome_iff_exists.1 hop
    obtain ⟨c, hl, hR, hc⟩ := hspec af haf
    exact ⟨af, opn, rest, op, c, hn, hop, hl, hR, hc, computeBand_ok _ _ b af opn rest op c hn hl hop⟩
  have hall : ∀ b ∈ s2.bands, (computeBand s2.noData (some V) b).2 = none := by
    intro b hb
    obtain ⟨_, _, _, _, _, _, _, _, _, _, h⟩ := hcb b hb
    rw [h]
  have hrun : run Int.floor s ([.add (a0 :: arest) (Tpre ++ t :: Tpost)] ++ post ++ [.compute])
      = ({ s2 with bands := s2.bands.map (fun b => (computeBand s2.noData (some V) b).1) },
         [some .type] ++ (run Int.floor s1 post).2 ++ [none]) := by
    rw [run_append, run_append]
    simp only [run_cons, run_nil, step, hV, ← hs2, hvals, computeAll_ok _ _ _ hall]
  refine ⟨_, _, hrun, by simp, ?_, ?_, rfl, ?_, ?_⟩
  · rw [List.getLast?_concat]
  · simp only
    rw [hs2, run_g]
  · simp [computeBand_name]
  · intro b hb af opn rest op hn hop
    simp only [List.mem_map] at hb
    obtain ⟨b0, hb0, rfl⟩ := hb
    rw [computeBand_name] at hn
    obtain ⟨af', opn', rest', op', c, hn', hop', _, hR, hc, hcomp⟩ := hcb b0 hb0
    rw [hn'] at hn
    simp only [List.cons.injEq] at hn
    obtain ⟨rfl, rfl, rfl⟩ := hn
    rw [hop'] at hop
    simp only [Option.some.injEq] at hop
    subst hop
    exact ⟨c, hR, hc, by rw [hcomp]⟩

/-! ### non-vacuity: two tracks, two features, on the 2 × 2 demo grid `[0,2] × [0,2]` (line 0 is the top row)

Track 1 `(1/2,1/2) (3/2,1/2)` with `v = 1, 2`, `w = 10, 20`; track 2 `(1/2,3/2) (3,3) (3/2,3/2)` with `v = 3, 4, 5`,
`w = 30, 40, 50`: its second observation is outside. Iteration order `v, w`: the grid of `v` has received track 1 and the
first observation of track 2, the grid of `w` track 1 only; with the order `w, v` it is the other way round. -/
def partT : List (Trk ℚ) :=
  [{ uid := 1, pts := [(1/2, 1/2), (3/2, 1/2)], feats := [("v", [some 1, some 2]), ("w", [some 10, some 20])] },
   { uid := 2, pts := [(1/2, 3/2), (3, 3), (3/2, 3/2)], feats := [("v", [some 3, some 4, some 5]), ("w", [some 30, some 40, some 50])] }]

/-- `collectionValuesGrid`: the feature names, and the grids in the same order -/
def valNames (s : RState ℚ) : List String := (s.values.getD []).map (·.1)
def valGrids (s : RState ℚ) : List (Cells (Option ℚ)) := (s.values.getD []).map (·.2)
def partRun (afo : List String) : RState ℚ :=
  (run Rat.floor (initState demoGrid (some (-99999 : ℚ)))
    [.band ["v", "co_count"] none, .band ["w", "co_count"] none, .add afo partT]).1
example :
    valNames (partRun ["v", "w"]) = ["v", "w"]
    ∧ valGrids (partRun ["v", "w"]) = [[[[some 3], []], [[some 1], [some 2]]], [[[], []], [[some 10], [some 20]]]]
    ∧ valNames (partRun ["w", "v"]) = ["w", "v"]
    ∧ valGrids (partRun ["w", "v"]) = [[[[some 30], []], [[some 10], [some 20]]], [[[], []], [[some 1], [some 2]]]] := by
  decide +kernel

/-- … and the `computeAggregates` that follows (the `TypeError` caught) aggregates exactly that: the counts of `v` add up to
3, those of `w` to 2, the sum band of `w` is `10, 20`; a `setNoDataValue` in between decides the marker of the empty cells -/
example :
    (run Rat.floor (initState demoGrid (some (-99999 : ℚ)))
        [.band ["v", "co_count"] none, .band ["w", "co_count"] none, .band ["w", "co_max"] none, .add ["v", "w"] partT,
         .setNoData (some (-1)), .compute]).1.bands.map (·.grid)
      = [some [[some 1, some 0], [some 1, some 1]], some [[some 0, some 0], [some 1, some 1]],
         some [[some (-1), some (-1)], [some 10, some 20]]]
    ∧ (run Rat.floor (initState demoGrid (some (-99999 : ℚ)))
        [.band ["v", "co_count"] none, .band ["w", "co_count"] none, .band ["w", "co_max"] none, .add ["v", "w"] partT,
         .setNoData (some (-1)), .compute]).2 = [none, none, none, some .type, none, none] := by decide +kernel

/-- the written observations of the example, as `writtenObs` names them -/
example : writtenObs demoGrid "v" (partT.take 1) (partT.getD 1 ⟨0, [], []⟩) "v" = [(1/2, 1/2, some 1), (3/2, 1/2, some 2), (1/2, 3/2, some 3)]
    ∧ writtenObs demoGrid "v" (partT.take 1) (partT.getD 1 ⟨0, [], []⟩) "w" = [(1/2, 1/2, some 10), (3/2, 1/2, some 20)] := by
  decide +kernel

end TV.C19
