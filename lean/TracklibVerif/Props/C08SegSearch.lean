import TracklibVerif.Props.C08Search
import TracklibVerif.Lemmas.GridSegSearch
import TracklibVerif.Model.GridCall
/-! # C08, third part — the `unit = -1` search of the segment and track forms of `neighborhood`, and the argument
handling of `neighborhood(obj, j=None, unit=0)` (`Model/GridCall.lean`)

Property theorems only (helper lemmas: `Lemmas/GridSegSearch.lean`; model `Model/Grid.lean`). `AroundHolds ix cells U k`
says that some cell at most `U` units (columns and rows) from a cell of `cells` lists `k`. -/
namespace TV.C08
open TV.Grid
variable {α : Type} [Field α] [LinearOrder α] [IsStrictOrderedRing α]

/-- `segment_search_complete`: `neighborhood([Q1, Q2], None, -1)`, both ends inside the closed extent of an index on which
nothing raises. The call returns; with `CELLS = __cellsCrossSegment(__getCell(Q1), __getCell(Q2))`:
* it returns `None` exactly when nothing was found up to the last radius, and then NO cell of the grid lists anything;
* otherwise it returns a non-empty list `l` and there is a radius `U ≥ 1` such that `l` is EXACTLY what the cells at most
  `U` units from a crossed cell list, `U - 1` is the first radius at which something is listed (the loop adds one
  "safety" radius), and — no false negative in ground distance — every feature listed in the cell of a point `P` of the
  extent within Euclidean distance `U · min(dX, dY)` of some point of the query segment is in `l`. -/
theorem segment_search_complete {fl : α → Int} (hf : IsFloor fl) (ix : Index α) (hg : Good ix) (Q1 Q2 : α × α)
    (h1 : getCell ix Q1 ≠ none) (h2 : getCell ix Q2 ≠ none) :
    ∃ p1 p2 r, getCell ix Q1 = some p1 ∧ getCell ix Q2 = some p2 ∧ neighborhoodSeg fl ix Q1 Q2 (-1) = .ok r ∧
      (r = none → ∀ i j k, 0 ≤ i → i < ix.csize → 0 ≤ j → j < ix.lsize → ¬ Holds ix.grid i j k) ∧
      (∀ l, r = some l → l ≠ [] ∧ ∃ U : Int, 1 ≤ U ∧
        (∀ k, k ∈ l ↔ AroundHolds ix (cellsCross fl ix.csize ix.lsize p1 p2) U k) ∧
        (∃ k, AroundHolds ix (cellsCross fl ix.csize ix.lsize p1 p2) (U - 1) k) ∧
        (∀ u' k, 0 ≤ u' → u' < U - 1 → ¬ AroundHolds ix (cellsCross fl ix.csize ix.lsize p1 p2) u' k) ∧
        (∀ (k : Nat) (P cP : α × α) (s : α), getCell ix P = some cP →
          Holds ix.grid (cellOf fl ix cP).1 (cellOf fl ix cP).2 k → 0 ≤ s → s ≤ 1 →
          ((lerp Q1 Q2 s).1 - P.1) ^ 2 + ((lerp Q1 Q2 s).2 - P.2) ^ 2 ≤ (((U : Int) : α) * min ix.dX ix.dY) ^ 2 → k ∈ l)) := by
  obtain ⟨p1, hp1⟩ := Option.ne_none_iff_exists'.mp h1
  obtain ⟨p2, hp2⟩ := Option.ne_none_iff_exists'.mp h2
  obtain ⟨r, hr, r1, r2⟩ := searchSegLoop_spec ix hg.1.2 (cellsCross fl ix.csize ix.lsize p1 p2)
    ((max ix.csize ix.lsize).toNat + 2) 0 (by push_cast; omega)
  have hrun : neighborhoodSeg fl ix Q1 Q2 (-1) = .ok r := by
    unfold neighborhoodSeg
    simp only [getCellR_of_nz ix hg.nz hg.bounded, hp1, hp2]
    rw [if_neg (by decide)]
    exact hr
  -- the cell of a point of the query segment is a crossed cell
  have hcrossed : ∀ s : α, 0 ≤ s → s ≤ 1 → ∃ cQ, getCell ix (lerp Q1 Q2 s) = some cQ ∧
      ((cellOf fl ix cQ).1, (cellOf fl ix cQ).2) ∈ cellsCross fl ix.csize ix.lsize p1 p2 := by
    intro s hs0 hs1
    have hQ := getCell_lerp ix Q1 Q2 p1 p2 s hs0 hs1 hp1 hp2
    obtain ⟨q1, q2⟩ := getCell_range_of_good ix hg _ _ hQ
    exact ⟨_, hQ, cellsCross_complete hf ix.csize ix.lsize p1 p2 s hs0 hs1 q1.2 q2.2⟩
  refine ⟨p1, p2, r, hp1, hp2, hrun, ?_, ?_⟩
  · intro hn i j k a b c e hH
    obtain ⟨cQ, hQ, hmem⟩ := hcrossed 0 (le_refl _) zero_le_one
    obtain ⟨hi, hj⟩ := cellOf_inGrid hf ix hg _ cQ hQ
    have hM : 0 ≤ max ix.csize ix.lsize := by have := hg.2.1; omega
    apply r1 hn (max ix.csize ix.lsize) hM (le_refl _) k
    exact ⟨_, hmem, (i, j), (sq_full ix _ _ _ hi hj (by omega) (i, j)).mpr ⟨⟨a, b⟩, c, e⟩, hH⟩
  · intro l hl
    obtain ⟨U, a, _, c, e, f, g⟩ := r2 l hl
    refine ⟨e, U, by omega, c, f, fun u' k p q => g u' p q k, ?_⟩
    intro k P cP s hP hH hs0 hs1 hd
    obtain ⟨cQ, hQ, hmem⟩ := hcrossed s hs0 hs1
    have hR : (0 : α) ≤ ((U : Int) : α) * min ix.dX ix.dY :=
      mul_nonneg (by exact_mod_cast (by omega : (0 : Int) ≤ U)) (le_of_lt (lt_min hg.2.2.2.1 hg.2.2.2.2.1))
    obtain ⟨hx, hy⟩ := coord_le_of_dist hR hd
    exact (c k).mpr ⟨_, hmem, _, cell_within_units hf ix hg P (lerp Q1 Q2 s) cP cQ U (by omega) hP hQ hx hy, hH⟩

/-- `track_search_returns`: `neighborhood(track, None, -1)`, every vertex inside the closed extent, on an index on which
nothing raises and in which SOME cell lists something (a built index over a collection with a segment): the call
returns a list containing, for every segment of the query track, the whole answer of the segment search
(`segment_search_complete`). (On an index that lists nothing the segment search gives `None` and the track form raises
TypeError — `for cell in None`: `track_search_on_empty_index`.) -/
theorem track_search_returns {fl : α → Int} (hf : IsFloor fl) (ix : Index α) (hg : Good ix) (track : List (α × α))
    (hin : ∀ p ∈ track, getCell ix p ≠ none)
    (hne : ∃ i j k, (0 ≤ i ∧ i < ix.csize) ∧ (0 ≤ j ∧ j < ix.lsize) ∧ Holds ix.grid i j k) :
    ∃ l, neighborhoodTrack fl ix track (-1) = .ok l ∧
      ∀ Q1 Q2, (Q1, Q2) ∈ Consec track → ∃ lseg, neighborhoodSeg fl ix Q1 Q2 (-1) = .ok (some lseg) ∧ ∀ x ∈ lseg, x ∈ l := by
  have key : ∀ (track : List (α × α)) (prev : Option (α × α)) (tab : List Nat),
      (∀ p ∈ prev.toList ++ track, getCell ix p ≠ none) →
      ∃ l, neighborhoodTrackLoop fl ix (-1) tab prev track = .ok l ∧ (∀ x ∈ tab, x ∈ l) ∧
        ∀ Q1 Q2, (Q1, Q2) ∈ Consec (prev.toList ++ track) →
          ∃ lseg, neighborhoodSeg fl ix Q1 Q2 (-1) = .ok (some lseg) ∧ ∀ x ∈ lseg, x ∈ l := by
    intro track
    induction track with
    | nil => intro prev tab _; cases prev <;> exact ⟨tab, rfl, fun _ h => h, by simp [Consec]⟩
    | cons p2 rest ih =>
      intro prev tab hin'
      cases prev with
      | none =>
        obtain ⟨l, h, r1, r2⟩ := ih (some p2) tab (by simpa using hin')
        exact ⟨l, by simpa [neighborhoodTrackLoop] using h, r1, by simpa using r2⟩
      | some p1 =>
        obtain ⟨q1, q2, r, _, _, hrun, rn, _⟩ := segment_search_complete hf ix hg p1 p2 (hin' p1 (by simp)) (hin' p2 (by simp))
        cases r with
        | none =>
          exfalso
          obtain ⟨i, j, k, ⟨a, b⟩, ⟨c, e⟩, hH⟩ := hne
          exact rn rfl i j k a b c e hH
        | some lseg =>
          obtain ⟨l, h, r1, r2⟩ := ih (some p2) (addAll tab lseg) (by
            intro p hp
            apply hin'
            simp only [Option.toList_some, List.singleton_append, List.mem_cons] at hp ⊢
            exact Or.inr hp)
          refine ⟨l, by simp only [neighborhoodTrackLoop, hrun, h], fun x hx => r1 x ((mem_addAll _ _ _).mpr (Or.inl hx)), ?_⟩
          intro A B hAB
          simp only [Option.toList_some, List.singleton_append, Consec, List.mem_cons, Prod.mk.injEq] at hAB
          rcases hAB with ⟨rfl, rfl⟩ | hAB
          · exact ⟨lseg, hrun, fun x hx => r1 x ((mem_addAll _ _ _).mpr (Or.inr hx))⟩
          · exact r2 A B (by simpa using hAB)
  obtain ⟨l, h, _, r⟩ := key track none [] (by simpa using hin)
  exact ⟨l, h, fun Q1 Q2 hQ => r Q1 Q2 (by simpa using hQ)⟩

/-- `track_search_on_empty_index`: on an index in which no cell lists anything (e.g. built over one-vertex tracks only),
`neighborhood(track, None, -1)` for a track with a segment inside the extent raises TypeError: the segment search
returns `None` and the loop iterates over it. Outside the property (nothing can be omitted from an empty index); stated
because the model mirrors it and the correspondence compares it. -/
theorem track_search_on_empty_index {fl : α → Int} (hf : IsFloor fl) (ix : Index α) (hg : Good ix) (Q1 Q2 : α × α)
    (rest : List (α × α)) (h1 : getCell ix Q1 ≠ none) (h2 : getCell ix Q2 ≠ none)
    (hempty : ∀ i j k, 0 ≤ i → i < ix.csize → 0 ≤ j → j < ix.lsize → ¬ Holds ix.grid i j k) :
    neighborhoodTrack fl ix (Q1 :: Q2 :: rest) (-1) = .error .type := by
  obtain ⟨p1, p2, r, _, _, hrun, _, rs⟩ := segment_search_complete hf ix hg Q1 Q2 h1 h2
  cases r with
  | some l =>
    exfalso
    obtain ⟨hl, U, hU, hex, _, _, _⟩ := rs l rfl
    obtain ⟨k0, hk0⟩ := List.exists_mem_of_ne_nil l hl
    obtain ⟨cell, _, c', hc', hH⟩ := (hex k0).mp hk0
    obtain ⟨⟨a, b⟩, c, e⟩ := neighboringCells_inGrid ix cell.1 cell.2 U c' hc'
    exact hempty c'.1 c'.2 k0 a b c e hH
  | none =>
    unfold neighborhoodTrack
    simp only [neighborhoodTrackLoop, hrun]

/-! ### the call `neighborhood(obj, j=None, unit=0)` -/

omit [IsStrictOrderedRing α] in
/-- `neighborhood_call_keyword`: with the radius passed BY KEYWORD — `neighborhood(coord, unit=u)`,
`neighborhood([c1, c2], unit=u)`, `neighborhood(track, unit=u)`, as every caller inside tracklib does — or as third
positional argument after any `j`, the call is the point / segment / track neighbourhood of radius `u` the other
theorems speak about (`j` is never read by these forms); `neighborhood(i, j, u)` is the cell form. -/
theorem neighborhood_call_keyword (fl : α → Int) (ix : Index α) (p a b : α × α) (t : List (α × α)) (i j' : Int)
    (j : Option Int) (u : Int) :
    neighborhoodCall fl ix (.point p) j (some u) = neighborhoodPoint fl ix p u ∧
    neighborhoodCall fl ix (.seg a b) j (some u) = neighborhoodSeg fl ix a b u ∧
    neighborhoodCall fl ix (.track t) j (some u) = (neighborhoodTrack fl ix t u).map some ∧
    neighborhoodCall fl ix (.cell i) (some j') (some u) = (neighborhoodCell ix i j' u).map some := by
  refine ⟨rfl, rfl, ?_, ?_⟩
  · unfold neighborhoodCall; dsimp only; cases neighborhoodTrack fl ix t u <;> rfl
  · unfold neighborhoodCall; dsimp only; cases neighborhoodCell ix i j' u <;> rfl

omit [IsStrictOrderedRing α] in
/-- `neighborhood_call_positional_unit_ignored`: the second POSITIONAL parameter of `neighborhood` is `j`, the row of
the cell form. `neighborhood(coord, 2)` — the form the comment above the method advertises ("neighborhood(coord, unit)
returns data registered in a cells located at less than 'unit' distance") — is `neighborhood(coord, unit=0)`: the number
is bound to `j`, which the coordinate / segment / track forms never read, and only the cell(s) of the query are read.
Likewise a call that leaves both out. (And the cell form without `j` raises TypeError.) -/
theorem neighborhood_call_positional_unit_ignored (fl : α → Int) (ix : Index α) (p a b : α × α) (t : List (α × α)) (i : Int)
    (j : Option Int) (u : Option Int) :
    neighborhoodCall fl ix (.point p) j none = neighborhoodPoint fl ix p 0 ∧
    neighborhoodCall fl ix (.seg a b) j none = neighborhoodSeg fl ix a b 0 ∧
    neighborhoodCall fl ix (.track t) j none = (neighborhoodTrack fl ix t 0).map some ∧
    neighborhoodCall fl ix (.cell i) none u = .error .type := by
  refine ⟨rfl, rfl, ?_, rfl⟩
  unfold neighborhoodCall; dsimp only; cases neighborhoodTrack fl ix t 0 <;> rfl

/-- `neighborhood_call_complete`: the completeness of the neighbourhood query (`neighborhood_finds_registered`) at the
level of the CALL: for every value of the unused parameter `j`, `neighborhood(q, j, unit=groundDistanceToUnits(d))`
returns every feature listed in the cell of a point of the extent within distance `d` of `q`. -/
theorem neighborhood_call_complete {fl : α → Int} (hf : IsFloor fl) (ix : Index α) (hg : Good ix)
    (k : Nat) (P cP : α × α) (hP : getCell ix P = some cP) (hHolds : Holds ix.grid (cellOf fl ix cP).1 (cellOf fl ix cP).2 k)
    (q : α × α) (hq : getCell ix q ≠ none) (d : α) (hd : 0 ≤ d)
    (hdist : (q.1 - P.1) ^ 2 + (q.2 - P.2) ^ 2 ≤ d ^ 2) (j : Option Int) :
    ∃ u l, groundDistanceToUnits fl ix d = .ok u ∧ neighborhoodCall fl ix (.point q) j (some u) = .ok (some l) ∧ k ∈ l :=
  neighborhood_finds_registered hf ix hg k P cP hP hHolds q hq d hd hdist

/-- witness of `neighborhood_call_positional_unit_ignored` (the index of the `late_feature_complete` example: edge 2 =
(58,58)-(62,62) crosses cells next to that of (50,50)): `neighborhood(coord, unit=2)` finds edge 2,
`neighborhood(coord, 2)` returns the empty list -/
theorem neighborhood_positional_unit_witness :
    (match build Rat.floor [[((0 : ℚ), (0 : ℚ)), (100, 0)], [(0, 100), (100, 100)]] (some (10, 10)) (1/20) with
      | .ok ix =>
        (match addFeature Rat.floor ix [(58, 58), (62, 62)] 2 with
         | .ok ix' => (neighborhoodCall Rat.floor ix' (.point (50, 50)) none (some 2),
                       neighborhoodCall Rat.floor ix' (.point (50, 50)) (some 2) none)
         | .error _ => (.error .exit, .error .exit))
      | .error _ => (.error .exit, .error .exit)) = (.ok (some [2]), .ok (some [])) := by
  decide +kernel

/-! ### non-vacuity -/

/-- the index of corpus case 21 (10 x 10 unit cells): the search around the segment (5,5)-(7,5) finds track 1 at radius 1
and returns what lies within 2 units (tracks 1 and 0); the track form adds the search around (7,5)-(7,9) -/
example : (match build Rat.floor [[((129/16 : ℚ), (11/2 : ℚ)), (65/8, 11/2)], [(33/8, 65/16), (33/8, 17/4)], [(0, 0), (0, 1/2)],
      [(10, 10), (10, 19/2)]] (some (1, 1)) 0 with
    | .ok ix => (neighborhoodSeg Rat.floor ix (5, 5) (7, 5) (-1), neighborhoodTrack Rat.floor ix [(5, 5), (7, 5), (7, 9)] (-1))
    | .error _ => (.error .exit, .error .exit)) = (.ok (some [1, 0]), .ok [1, 0, 3]) := by
  decide +kernel

/-- an index that lists nothing: one-vertex tracks only (bounding box [0,4]²); the segment search returns `None`, the
track form raises TypeError -/
example : (match build Rat.floor [[((0 : ℚ), (0 : ℚ))], [(4, 4)]] (some (1, 1)) 0 with
    | .ok ix => (neighborhoodSeg Rat.floor ix (1, 1) (2, 2) (-1), neighborhoodTrack Rat.floor ix [(1, 1), (2, 2)] (-1))
    | .error _ => (.error .exit, .error .exit)) = (.ok none, .error .type) := by
  decide +kernel

end TV.C08
