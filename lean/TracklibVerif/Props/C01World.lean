import TracklibVerif.Lemmas.FeaturesWorldDerive
import TracklibVerif.Props.C01
/-! # C01 on a heap of `Obs` objects — tracks that share, or copy, their observations

Property theorems only. `Props/C01.lean` is about one track seen as one table (`St`). In Python a track holds references
to `Obs` objects; `Model/FeaturesWorld.lean` runs the same Track API (`step`, every operator, `operate(str)` …) on a heap
of objects (`Wd`: the heap, and the references and the dict of the track the call is addressed to), each loop acting on
the object found at each position, one position after the other. `view w` is the table the track shows.

* `heap_step_refines`, `heap_history_refines`, `heap_step_spec`: as long as the objects of the track are PAIRWISE
  DISTINCT (and the table it shows is aligned), every API call does on the heap exactly what it does on `view w`
  (hence, by `Props/C01.lean`, what the name ↦ column specification does), and the track stays such a track: all
  theorems of `Props/C01.lean` hold for tracks living on a heap.
* `heap_step_frame`, `other_track_unchanged`: an API call touches no object outside the track it is addressed to; a track
  that shares no object with it shows exactly the same table afterwards, whatever the call and its outcome.
* `copies_are_fresh`, `span_track_independent`, `ring_track_good`: the derivations that COPY observations
  (`Obs.copy()` = deepcopy: `extractSpanTime`, `loop(add=True)`, `t.addObs(o.copy())`, `t.insertObs(o.copy(), p)`) make
  new objects: the piece shares nothing with any existing track (so neither disturbs the other), the ring is again a track
  of pairwise distinct objects showing the old table with one row repeated.
* `shared_object_misaligns`: distinctness is needed — a track that refers to one object at two positions (what a shallow
  `Obs.copy()` produces for the ring) is misaligned by the first `createAnalyticalFeature`; and `extract` / slices / `+`
  share objects by design (finding derived-track-shares-observations): the model shows the effect, the theorems do not
  cover it. -/
set_option linter.unusedSectionVars false
namespace TV.C01
open TV.Features
variable {V : Type} [Inhabited V] {n : Nat}

/-- the track in focus refers to pairwise distinct existing objects and shows an aligned table of `n` observations -/
structure GoodTrack (n : Nat) (w : Wd V) : Prop where
  nodup : w.ids.Nodup
  valid : ∀ id ∈ w.ids, id < w.heap.length
  inv : Inv n (view w)

theorem GoodTrack.wgood {w : Wd V} (h : GoodTrack n w) : WGood n w.heap w.ids w :=
  ⟨h.nodup, h.valid, h.inv, rfl, rfl, fun _ _ => rfl⟩

/-- W1: on a heap, for a track of pairwise distinct objects showing an aligned table, every API call (any operator, any
expression, returning or raising) does exactly what it does on the table the track shows: same outcome, and the track
shows the resulting table; the track is again such a track (same objects), no object is added or dropped, and every
object OUTSIDE the track is left exactly as it was. -/
theorem heap_step_refines (o : Ops V) (op : Op V) (w : Wd V) (h : GoodTrack n w) :
    GoodTrack n (step o op w).2 ∧
    step o op (view w) = ((step o op w).1, view (step o op w).2) ∧
    (step o op w).2.ids = w.ids ∧ (step o op w).2.heap.length = w.heap.length ∧
    ∀ id, id ∉ w.ids → (step o op w).2.heap[id]? = w.heap[id]? := by
  obtain ⟨hg, he, _⟩ := gsim_step (I := WGood n w.heap w.ids) (ab := view) o op w h.wgood
  exact ⟨⟨hg.nodup, hg.valid, hg.inv⟩, he, hg.ids, hg.length, hg.other⟩

/-- W1 with the specification: the call does on the heap what it does on the name ↦ column table. -/
theorem heap_step_spec (o : Ops V) (op : Op V) (w : Wd V) (h : GoodTrack n w) :
    step o op (abs (view w)) = ((step o op w).1, abs (view (step o op w).2)) := by
  have h1 := (heap_step_refines o op w h).2.1
  have h2 := step_refines o op (view w) h.inv
  rw [h1] at h2
  exact h2

/-- W2: along every finite history on such a track, outcomes and shown tables are those of the same history on the
table the track showed at the start. -/
theorem heap_history_refines (o : Ops V) (ops : List (Op V)) (w : Wd V) (h : GoodTrack n w) :
    trace o ops (view w) = (trace o ops w).map (fun r => (r.1, view r.2)) ∧ ∀ r ∈ trace o ops w, GoodTrack n r.2 := by
  induction ops generalizing w with
  | nil => exact ⟨rfl, fun r hr => by simp [trace] at hr⟩
  | cons op rest ih =>
    obtain ⟨hg, he, _⟩ := heap_step_refines o op w h
    obtain ⟨i1, i2⟩ := ih _ hg
    refine ⟨?_, ?_⟩
    · simp only [trace, List.map_cons]
      rw [he]
      simp only
      rw [i1]
    · intro r hr
      simp only [trace, List.mem_cons] at hr
      rcases hr with rfl | hr
      · exact hg
      · exact i2 r hr

/-- W3 (frame): an API call touches no object outside the track it is addressed to — along a whole history. -/
theorem heap_history_frame (o : Ops V) (ops : List (Op V)) (w : Wd V) (h : GoodTrack n w) :
    GoodTrack n (runOps o ops w) ∧ (runOps o ops w).ids = w.ids ∧ (runOps o ops w).heap.length = w.heap.length ∧
    ∀ id, id ∉ w.ids → (runOps o ops w).heap[id]? = w.heap[id]? := by
  induction ops generalizing w with
  | nil => exact ⟨h, rfl, rfl, fun _ _ => rfl⟩
  | cons op rest ih =>
    obtain ⟨hg, _, e1, e2, e3⟩ := heap_step_refines o op w h
    obtain ⟨j0, j1, j2, j3⟩ := ih _ hg
    simp only [runOps, List.foldl_cons] at j0 j1 j2 j3 ⊢
    refine ⟨j0, by rw [j1, e1], by rw [j2, e2], ?_⟩
    intro id hni
    rw [j3 id (by rw [e1]; exact hni), e3 id hni]

/-- W4: a track that shares no object with the track a history is run on shows exactly the same table after it —
names, every column, every row, coordinates and timestamps —, whatever the calls and their outcomes. -/
theorem other_track_unchanged (o : Ops V) (ops : List (Op V)) (w : Wd V) (h : GoodTrack n w)
    (ids' : List Nat) (dico' : List (String × Nat)) (hdis : ∀ id ∈ ids', id ∉ w.ids) :
    view { heap := (runOps o ops w).heap, ids := ids', dico := dico' } = view { heap := w.heap, ids := ids', dico := dico' } :=
  view_congr _ _ _ _ (fun id hm => (heap_history_frame o ops w h).2.2.2 id (hdis id hm))

/-! ## tracks made of copies of observations -/

/-- a track on a longer heap that still holds its objects shows the same table and is as good as before -/
theorem GoodTrack.extend {w : Wd V} (h : GoodTrack n w) (heap' : List (HObs V))
    (hext : ∀ id, id < w.heap.length → heap'[id]? = w.heap[id]?) (hlen : w.heap.length ≤ heap'.length) :
    view { heap := heap', ids := w.ids, dico := w.dico } = view w ∧
    GoodTrack n { heap := heap', ids := w.ids, dico := w.dico } := by
  have hv : view { heap := heap', ids := w.ids, dico := w.dico } = view w :=
    view_congr _ _ _ _ (fun id hm => hext id (h.valid id hm))
  exact ⟨hv, h.nodup, fun id hm => Nat.lt_of_lt_of_le (h.valid id hm) hlen, by rw [hv]; exact h.inv⟩

/-- D1: `[o.copy() for o in …]` over positions of a track (what `extractSpanTime` does with the observations it keeps;
`Obs.copy()` is a deepcopy) makes NEW objects, one per position: the track made of them refers to pairwise distinct
objects none of which belongs to any track that existed before, shows exactly the rows / coordinates of the positions
copied under the transmitted dict, is aligned, and the old objects are untouched. -/
theorem copies_are_fresh (w : Wd V) (h : GoodTrack n w) (sel : List Nat) (hsub : ∀ id ∈ sel, id ∈ w.ids) :
    ∃ heap', copyEach sel w.heap = some (List.range' w.heap.length sel.length, heap') ∧
      GoodTrack sel.length { heap := heap', ids := List.range' w.heap.length sel.length, dico := w.dico } ∧
      view { heap := heap', ids := List.range' w.heap.length sel.length, dico := w.dico } =
        view { heap := w.heap, ids := sel, dico := w.dico } ∧
      (∀ id, id < w.heap.length → heap'[id]? = w.heap[id]?) ∧ w.heap.length ≤ heap'.length ∧
      (∀ id ∈ List.range' w.heap.length sel.length, w.heap.length ≤ id) := by
  obtain ⟨heap', h1, h2, h3, h4⟩ := copyEach_spec sel w.heap (fun id hm => h.valid id (hsub id hm))
  have hv : view { heap := heap', ids := List.range' w.heap.length sel.length, dico := w.dico } =
      view { heap := w.heap, ids := sel, dico := w.dico } :=
    view_eq_of_maps _ _ _ _ _ (fun q => copies_maps h4 q)
  refine ⟨heap', h1, ⟨List.nodup_range', ?_, ?_⟩, hv, h3, by omega, ?_⟩
  · intro id hm
    have := List.mem_range'_1.mp hm
    show id < heap'.length
    omega
  · rw [hv]
    exact inv_select (heap := w.heap) (ids := w.ids) (dico := w.dico) h.inv sel hsub
  · intro id hm
    exact (List.mem_range'_1.mp hm).1

/-- D2: the piece and its parent are independent. After `piece = [o.copy() for o in <positions of the parent>]` with the
parent's dict transmitted (`extractSpanTime`), ANY history of API calls on the piece leaves the table the parent shows
exactly as it was, and ANY history on the parent leaves the table the piece shows exactly as it was — names, columns,
rows, coordinates, timestamps. -/
theorem span_track_independent (o : Ops V) (w : Wd V) (h : GoodTrack n w) (sel : List Nat) (hsub : ∀ id ∈ sel, id ∈ w.ids)
    (ops : List (Op V)) :
    ∃ heap', copyEach sel w.heap = some (List.range' w.heap.length sel.length, heap') ∧
      view { heap := (runOps o ops ({ heap := heap', ids := List.range' w.heap.length sel.length, dico := w.dico } : Wd V)).heap,
             ids := w.ids, dico := w.dico } = view w ∧
      view { heap := (runOps o ops ({ heap := heap', ids := w.ids, dico := w.dico } : Wd V)).heap,
             ids := List.range' w.heap.length sel.length, dico := w.dico } =
        view { heap := w.heap, ids := sel, dico := w.dico } := by
  obtain ⟨heap', h1, hg, hv, hext, hlen, hfresh⟩ := copies_are_fresh w h sel hsub
  obtain ⟨hpv, hpg⟩ := h.extend heap' hext hlen
  refine ⟨heap', h1, ?_, ?_⟩
  · rw [other_track_unchanged o ops _ hg w.ids w.dico ?_, hpv]
    intro id hm hm'
    have := hfresh id hm'
    have := h.valid id hm
    omega
  · rw [other_track_unchanged o ops _ hpg (List.range' w.heap.length sel.length) w.dico ?_, hv]
    intro id hm hm'
    have := hfresh id hm
    have := h.valid id hm'
    omega

/-- D3: the ring. `t.addObs(t[i].copy())`, `t.insertObs(t[i].copy(), p)` and `t.loop(add=True)` (= `addObs(self[0].copy())`)
put a NEW object, equal to the object at position `i`, at position `p` (`p = len` appends): the track is again a track of
pairwise distinct objects, one observation longer, aligned, and shows the old table with row `i` repeated at `p` — so
every theorem about histories applies to the ring. -/
theorem ring_track_good (w : Wd V) (h : GoodTrack n w) (i id p : Nat) (hi : w.ids[i]? = some id) :
    ∃ heap', allocCopy w.heap id = some (w.heap.length, heap') ∧
      GoodTrack (n + 1) { heap := heap', ids := pyInsert w.ids p w.heap.length, dico := w.dico } ∧
      view { heap := heap', ids := pyInsert w.ids p w.heap.length, dico := w.dico } =
        view { heap := w.heap, ids := pyInsert w.ids p id, dico := w.dico } := by
  have hm : id ∈ w.ids := List.mem_of_getElem? hi
  have hid : id < w.heap.length := h.valid id hm
  have hob : w.heap[id]? = some w.heap[id] := List.getElem?_eq_getElem hid
  have hold : ∀ id', id' < w.heap.length → (w.heap ++ [w.heap[id]])[id']? = w.heap[id']? :=
    fun id' hlt => List.getElem?_append_left hlt
  have hnew : (w.heap ++ [w.heap[id]])[w.heap.length]? = w.heap[id]? := by
    rw [hob, List.getElem?_append_right (Nat.le_refl _)]; simp
  have hv : view { heap := w.heap ++ [w.heap[id]], ids := pyInsert w.ids p w.heap.length, dico := w.dico } =
      view { heap := w.heap, ids := pyInsert w.ids p id, dico := w.dico } := by
    apply view_eq_of_maps
    intro β q
    unfold pyInsert
    simp only [List.map_append, List.map_cons, hnew]
    congr 1
    · exact List.map_congr_left (fun id' hm' => by rw [hold id' (h.valid id' (List.mem_of_mem_take hm'))])
    · congr 1
      exact List.map_congr_left (fun id' hm' => by rw [hold id' (h.valid id' (List.mem_of_mem_drop hm'))])
  have hn : w.ids.length = n := by have := h.inv.size; simpa [view] using this
  refine ⟨w.heap ++ [w.heap[id]], by simp [allocCopy, hob], ⟨?_, ?_, ?_⟩, hv⟩
  · exact nodup_pyInsert _ _ _ h.nodup (fun hm' => Nat.lt_irrefl _ (h.valid _ hm'))
  · intro id' hm'
    show id' < (w.heap ++ [w.heap[id]]).length
    rw [List.length_append]
    rcases mem_pyInsert hm' with e | hm''
    · subst e; simp
    · have := h.valid id' hm''; simp; omega
  · rw [hv]
    have := inv_select (heap := w.heap) (ids := w.ids) (dico := w.dico) h.inv (pyInsert w.ids p id)
      (fun a ha => by rcases mem_pyInsert ha with e | ha'; exact e ▸ hm; exact ha')
    rwa [length_pyInsert, hn] at this

/-- D4: what `Sys.derive` (the model of the derivation functions) does for `extractSpanTime`: the new last track is made
by `copyEach` over positions of the source track, with the source's dict — so D1 and D2 are about it. -/
theorem derive_span_is_copies (o : Ops V) (s : Sys V) (k i j : Nat) (s' : Sys V) (k' : Nat)
    (h : s.derive o (.span i j) k = .ok (s', k')) :
    ∃ t sel ids' heap', s.trks[k]? = some t ∧ (∀ id ∈ sel, id ∈ t.ids) ∧ copyEach sel s.heap = some (ids', heap') ∧
      s' = { heap := heap', trks := s.trks ++ [{ ids := ids', dico := t.dico }] } ∧ k' = s.trks.length := by
  unfold Sys.derive at h
  split at h
  · cases h
  · rename_i t ht
    simp only at h
    split at h
    · rename_i oi oj _ _
      split at h
      · cases h
      · rename_i ids' heap' hc
        simp only [Except.ok.injEq, Prod.mk.injEq] at h
        exact ⟨t, _, ids', heap', ht, fun id hm => (List.mem_filter.mp hm).1, hc, h.1.symm, h.2.symm⟩
    · cases h

/-- D5: and for `loop(add=True)` / `addObs(o.copy())` / `insertObs(o.copy(), p)`: the track itself, with the new object
`allocCopy` made inserted by `pyInsert` — so D3 is about it. -/
theorem derive_addCopy_is_insert (o : Ops V) (s : Sys V) (k i : Nat) (pos : Option Nat) (s' : Sys V) (k' : Nat)
    (h : s.derive o (.addCopy i pos) k = .ok (s', k')) :
    ∃ t id heap', s.trks[k]? = some t ∧ t.ids[i]? = some id ∧ allocCopy s.heap id = some (s.heap.length, heap') ∧
      s' = { heap := heap', trks := s.trks.set k { t with ids := pyInsert t.ids (pos.getD t.ids.length) s.heap.length } } ∧ k' = k := by
  unfold Sys.derive at h
  split at h
  · cases h
  · rename_i t ht
    simp only at h
    split at h
    · cases h
    · rename_i id hid
      split at h
      · cases h
      · rename_i nid heap' hc
        have hnid : nid = s.heap.length := by
          unfold allocCopy at hc
          cases hh : s.heap[id]? with
          | none => rw [hh] at hc; cases hc
          | some ob => rw [hh] at hc; simp only [Option.map_some, Option.some.injEq, Prod.mk.injEq] at hc; exact hc.1.symm
        subst hnid
        simp only [Except.ok.injEq, Prod.mk.injEq] at h
        refine ⟨t, id, heap', ht, hid, hc, ?_, h.2.symm⟩
        rw [← h.1]
        cases pos with
        | none => simp [pyInsert]
        | some p => rfl

theorem derive_loopAdd_is_addCopy (o : Ops V) (s : Sys V) (k : Nat) :
    s.derive o .loopAdd k = s.derive o (.addCopy 0 none) k := by
  unfold Sys.derive
  rfl

/-- D6: `Track.copy()` (`copy.deepcopy` of the track) of a track of pairwise distinct objects makes one new object per
position, like `[o.copy() for o in track]` over all positions — so D1 and D2 are about the copy as well. -/
theorem derive_copy_is_copies (o : Ops V) (s : Sys V) (k : Nat) (t : HTrk) (ht : s.trks[k]? = some t) (hnd : t.ids.Nodup) :
    s.derive o .copy k = match copyEach t.ids s.heap with
      | none => .error .unsupported
      | some (ids', heap') => .ok ({ heap := heap', trks := s.trks ++ [{ ids := ids', dico := t.dico }] }, s.trks.length) := by
  unfold Sys.derive
  simp only [ht]
  rw [copyMemo_eq_copyEach t.ids [] s.heap hnd (fun _ _ => rfl)]
  cases copyEach t.ids s.heap <;> rfl

/-! ## Non-vacuity, and what happens without distinct objects -/

def mkOb (x : Int) (fs : List Int) : HObs Int := { x := x, y := 2 * x, z := 3 * x, t := 1000 + x, feats := fs }

/-- one track of three observations carrying the features `a`, `b` -/
def s0 : Sys Int :=
  { heap := [mkOb 10 [1, 7], mkOb 11 [2, 7], mkOb 12 [3, 7]], trks := [{ ids := [0, 1, 2], dico := [("a", 0), ("b", 1)] }] }

def w0 : Wd Int := { heap := s0.heap, ids := [0, 1, 2], dico := [("a", 0), ("b", 1)] }

example : s0.focus 0 = some w0 := rfl
example : GoodTrack 3 w0 :=
  ⟨by decide, by decide, ⟨by decide +kernel, by decide +kernel, by decide, rfl, rfl, rfl, rfl, rfl⟩⟩

/-- the rows and the names of track `k` of a system -/
def shows (s : Sys Int) (k : Nat) : Option (List String × List (List Int)) :=
  (s.focus k).map fun w => ((view w).dico.map Prod.fst, (view w).rows)

/-- `loop(add=True)`, then `createAnalyticalFeature("c", 5)` and `track["a", 0] = -7` on the ring: the new observation is
a new object — four observations with one value per listed name, the cell write changes one cell -/
example : (do
    let (s1, k) ← (s0.derive iops .loopAdd 0).toOption
    let (_, s2) ← s1.api iops k (.create "c" (.scalar 5))
    let (_, s3) ← s2.api iops k (.setObs "a" 0 (-7))
    shows s3 k) = some (["a", "b", "c"], [[-7, 7, 5], [2, 7, 5], [3, 7, 5], [1, 7, 5]]) := by decide +kernel

/-- `shared_object_misaligns`: the same ring closed WITHOUT a copy (the track refers to object 0 at both ends — what a
shallow `Obs.copy()` sharing the `features` list amounts to): `createAnalyticalFeature` appends twice to that object, the
track lists three names and two of its four observations carry four values; the hypothesis "pairwise distinct objects"
of the theorems above cannot be dropped -/
example : ((step iops (.create "c" (.scalar 5)) ({ w0 with ids := [0, 1, 2, 0] } : Wd Int)).2 |> view).rows
    = [[1, 7, 5, 5], [2, 7, 5], [3, 7, 5], [1, 7, 5, 5]] := by decide +kernel

/-- `extractSpanTime` over the observations 1..2, then a history on the piece (`create`, a cell write, `a = a*2`): the
parent shows exactly what it showed; and a call on the parent does not move the piece -/
example : (do
    let (s1, k) ← (s0.derive iops (.span 1 2) 0).toOption
    let (_, s2) ← s1.api iops k (.create "w" (.scalar 1))
    let (_, s3) ← s2.api iops k (.setObs "a" 0 99)
    let (_, s4) ← s3.api iops k (.expr ["a", "a", "2", "*", "="])
    let (_, s5) ← s4.api iops 0 (.remove "a")
    some [shows s4 0, shows s5 0, shows s4 k, shows s5 k]) =
    some [some (["a", "b"], [[1, 7], [2, 7], [3, 7]]), some (["b"], [[7], [7], [7]]),
          some (["b", "w", "a"], [[7, 1, 198], [7, 1, 6]]), some (["b", "w", "a"], [[7, 1, 198], [7, 1, 6]])] := by decide +kernel

/-- `extract(1, 2)` hands over the objects themselves (finding derived-track-shares-observations): a feature created on
the piece is appended to the parent's observations 1..2, the parent lists two names and shows rows of 2, 3, 3 values.
The model exhibits it; the theorems (which need disjoint tracks) do not cover it. -/
example : (do
    let (s1, k) ← (s0.derive iops (.extract 1 2) 0).toOption
    let (_, s2) ← s1.api iops k (.create "w" (.scalar 1))
    shows s2 0) = some (["a", "b"], [[1, 7], [2, 7, 1], [3, 7, 1]]) := by decide +kernel

end TV.C01
