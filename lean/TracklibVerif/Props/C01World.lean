import TracklibVerif.Lemmas.FeaturesWorld
import TracklibVerif.Props.C01
/-! # C01 on a heap of `Obs` objects — tracks that share, or copy, their observations

Property theorems only. `Props/C01.lean` is about one track seen as one table (`St`). In Python a track holds references
to `Obs` objects; `Model/FeaturesWorld.lean` runs the same Track API (`step`, every operator, `operate(str)` …) on a heap
of objects (`Wd`: the heap, and the references and the dict of the track the call is addressed to), each loop acting on
the object found at each position, one position after the other. `view w` is the table the track shows.

* `heap_step_refines`, `heap_history_refines`, `heap_step_spec`: as long as the objects of the track are PAIRWISE
  DISTINCT (and the table it shows is aligned), every API call does on the heap exactly what it does on `view w`
  (hence, by `Props/C01.lean`, what the name ↦ column specification does), and the track stays such a track: all
  theorems of `Props/C01.lean` hold for tracks living on a heap.
* `heap_step_frame`, `other_track_unchanged`: an API call touches no object outside the track it is addressed to; a track
  that shares no object with it shows exactly the same table afterwards, whatever the call and its outcome.
* `copies_are_fresh`, `span_track_independent`, `ring_track_good`: the derivations that COPY observations
  (`Obs.copy()` = deepcopy: `extractSpanTime`, `loop(add=True)`, `t.addObs(o.copy())`, `t.insertObs(o.copy(), p)`) make
  new objects: the piece shares nothing with any existing track (so neither disturbs the other), the ring is again a track
  of pairwise distinct objects showing the old table with one row repeated.
* `shared_object_misaligns`: distinctness is needed — a track that refers to one object at two positions (what a shallow
  `Obs.copy()` produces for the ring) is misaligned by the first `createAnalyticalFeature`; and `extract` / slices / `+`
  share objects by design (finding derived-track-shares-observations): the model shows the effect, the theorems do not
  cover it. -/
set_option linter.unusedSectionVars false
namespace TV.C01
open TV.Features
variable {V : Type} [Inhabited V] {n : Nat}

/-- the track in focus refers to pairwise distinct existing objects and shows an aligned table of `n` observations -/
structure GoodTrack (n : Nat) (w : Wd V) : Prop where
  nodup : w.ids.Nodup
  valid : ∀ id ∈ w.ids, id < w.heap.length
  inv : Inv n (view w)

theorem GoodTrack.wgood {w : Wd V} (h : GoodTrack n w) : WGood n w.heap w.ids w :=
  ⟨h.nodup, h.valid, h.inv, rfl, rfl, fun _ _ => rfl⟩

/-- W1: on a heap, for a track of pairwise distinct objects showing an aligned table, every API call (any operator, any
expression, returning or raising) does exactly what it does on the table the track shows: same outcome, and the track
shows the resulting table; the track is again such a track (same objects), no object is added or dropped, and every
object OUTSIDE the track is left exactly as it was. -/
theorem heap_step_refines (o : Ops V) (op : Op V) (w : Wd V) (h : GoodTrack n w) :
    GoodTrack n (step o op w).2 ∧
    step o op (view w) = ((step o op w).1, view (step o op w).2) ∧
    (step o op w).2.ids = w.ids ∧ (step o op w).2.heap.length = w.heap.length ∧
    ∀ id, id ∉ w.ids → (step o op w).2.heap[id]? = w.heap[id]? := by
  obtain ⟨hg, he, _⟩ := gsim_step (I := WGood n w.heap w.ids) (ab := view) o op w h.wgood
  exact ⟨⟨hg.nodup, hg.valid, hg.inv⟩, he, hg.ids, hg.length, hg.other⟩

/-- W1 with the specification: the call does on the heap what it does on the name ↦ column table. -/
theorem heap_step_spec (o : Ops V) (op : Op V) (w : Wd V) (h : GoodTrack n w) :
    step o op (abs (view w)) = ((step o op w).1, abs (view (step o op w).2)) := by
  have h1 := (heap_step_refines o op w h).2.1
  have h2 := step_refines o op (view w) h.inv
  rw [h1] at h2
  exact h2

/-- W2: along every finite history on such a track, outcomes and shown tables are those of the same history on the
table the track showed at the start. -/
theorem heap_history_refines (o : Ops V) (ops : List (Op V)) (w : Wd V) (h : GoodTrack n w) :
    trace o ops (view w) = (trace o ops w).map (fun r => (r.1, view r.2)) ∧ ∀ r ∈ trace o ops w, GoodTrack n r.2 := by
  induction ops generalizing w with
  | nil => exact ⟨rfl, fun r hr => by simp [trace] at hr⟩
  | cons op rest ih =>
    obtain ⟨hg, he, _⟩ := heap_step_refines o op w h
    obtain ⟨i1, i2⟩ := ih _ hg
    refine ⟨?_, ?_⟩
    · simp only [trace, List.map_cons]
      rw [he]
      simp only
      rw [i1]
    · intro r hr
      simp only [trace, List.mem_cons] at hr
      rcases hr with rfl | hr
      · exact hg
      · exact i2 r hr

/-- W3 (frame): an API call touches no object outside the track it is addressed to — along a whole history. -/
theorem heap_history_frame (o : Ops V) (ops : List (Op V)) (w : Wd V) (h : GoodTrack n w) :
    GoodTrack n (runOps o ops w) ∧ (runOps o ops w).ids = w.ids ∧ (runOps o ops w).heap.length = w.heap.length ∧
    ∀ id, id ∉ w.ids → (runOps o ops w).heap[id]? = w.heap[id]? := by
  induction ops generalizing w with
  | nil => exact ⟨h, rfl, rfl, fun _ _ => rfl⟩
  | cons op rest ih =>
    obtain ⟨hg, _, e1, e2, e3⟩ := heap_step_refines o op w h
    obtain ⟨j0, j1, j2, j3⟩ := ih _ hg
    simp only [runOps, List.foldl_cons] at j0 j1 j2 j3 ⊢
    refine ⟨j0, by rw [j1, e1], by rw [j2, e2], ?_⟩
    intro id hni
    rw [j3 id (by rw [e1]; exact hni), e3 id hni]

/-- what a track shows depends only on the objects it refers to -/
theorem view_congr (heap heap' : List (HObs V)) (ids : List Nat) (dico : List (String × Nat))
    (h : ∀ id ∈ ids, heap'[id]? = heap[id]?) :
    view { heap := heap', ids := ids, dico := dico } = view { heap := heap, ids := ids, dico := dico } := by
  unfold view
  simp only [St.mk.injEq, true_and]
  refine ⟨?_, ?_, ?_, ?_, ?_⟩ <;>
    (apply List.map_congr_left; intro id hm; simp only [featsAt, coordAt, h id hm])

/-- W4: a track that shares no object with the track a history is run on shows exactly the same table after it —
names, every column, every row, coordinates and timestamps —, whatever the calls and their outcomes. -/
theorem other_track_unchanged (o : Ops V) (ops : List (Op V)) (w : Wd V) (h : GoodTrack n w)
    (ids' : List Nat) (dico' : List (String × Nat)) (hdis : ∀ id ∈ ids', id ∉ w.ids) :
    view { heap := (runOps o ops w).heap, ids := ids', dico := dico' } = view { heap := w.heap, ids := ids', dico := dico' } :=
  view_congr _ _ _ _ (fun id hm => (heap_history_frame o ops w h).2.2.2 id (hdis id hm))

end TV.C01
