import TracklibVerif.Lemmas.FeaturesSpec
/-! # C01 — the feature table stays aligned with the observations under any operation history

Property theorems only. `St` is the model of the code (`Model/Features.lean`: the dict name → column index and
the per-observation `features` lists, every operation with the partial effects Python leaves when it raises);
`ATab` is the specification: an association list name ↦ column without any index. `Inv n st` says that `st`
is aligned (the dict enumerates its distinct names, every observation carries exactly one value per listed
name, `n` observations); `abs` forgets the indices. `Op` covers create / update / remove / bracket
assignment / setObs / addAnalyticalFeature / unary, binary, scalar void operators / a non-void aggregate /
`operate(str)` on an arbitrary RPN token list over `= + - *`. All statements are for every scalar type `V`
and every interpretation `o : Ops V` of the arithmetic (the driver runs them at `Float`). -/
set_option linter.unusedSectionVars false
namespace TV.C01
open TV.Features
variable {V : Type} [Inhabited V] {n : Nat}

/-- a fresh track: `xs.length` observations, no feature -/
def fresh (xs ys zs ts : List V) : St V :=
  { dico := [], rows := xs.map (fun _ => []), xs := xs, ys := ys, zs := zs, ts := ts }

/-- T1a: a fresh track is aligned. -/
theorem inv_fresh (xs ys zs ts : List V) (hy : ys.length = xs.length) (hz : zs.length = xs.length)
    (ht : ts.length = xs.length) : Inv xs.length (fresh xs ys zs ts) := by
  refine ⟨rfl, by simp [names, fresh], ?_, by simp [fresh], rfl, hy, hz, ht⟩
  intro r hr
  simp only [fresh, List.mem_map] at hr
  obtain ⟨_, _, rfl⟩ := hr
  rfl

/-- T1b: every API call keeps the table aligned, whether it returns or raises (list initialisers must cover
the track: `OpOK`). After the call every observation still carries exactly one value per listed name. -/
theorem inv_step (o : Ops V) (op : Op V) (st : St V) (h : Inv n st) (hok : OpOK n op) :
    Inv n (step o op st).2 := (sim_step o op hok st h).1

/-- T2: refinement. On an aligned table every API call of the code does exactly what the same call does on the
name ↦ column table: same outcome (value returned or exception kind) and corresponding resulting tables.
Everything observable through names (listed names in order, every column, coordinates) therefore evolves as
in the specification, where "reading a name returns what was last written under it", "delete does not touch
the other names" and "nothing else changes" hold by construction. -/
theorem step_refines (o : Ops V) (op : Op V) (st : St V) (h : Inv n st) (hok : OpOK n op) :
    step o op (abs st) = ((step o op st).1, abs (step o op st).2) := (sim_step o op hok st h).2.1

/-- T3a: every state reached along any finite history is aligned. -/
theorem history_aligned (o : Ops V) (ops : List (Op V)) (st : St V) (h : Inv n st)
    (hok : ∀ op ∈ ops, OpOK n op) : ∀ r ∈ trace o ops st, Inv n r.2 := by
  induction ops generalizing st with
  | nil => intro r hr; simp [trace] at hr
  | cons op rest ih =>
    intro r hr
    have h1 := inv_step o op st h (hok op (by simp))
    simp only [trace, List.mem_cons] at hr
    rcases hr with rfl | hr
    · exact h1
    · exact ih _ h1 (fun op' h' => hok op' (by simp [h'])) r hr

/-- T3b: along any finite history the code and the specification produce the same outcomes, and the tables
correspond after every call. -/
theorem history_refines (o : Ops V) (ops : List (Op V)) (st : St V) (h : Inv n st)
    (hok : ∀ op ∈ ops, OpOK n op) :
    trace o ops (abs st) = (trace o ops st).map (fun r => (r.1, abs r.2)) := by
  induction ops generalizing st with
  | nil => rfl
  | cons op rest ih =>
    have h1 := inv_step o op st h (hok op (by simp))
    have h2 := step_refines o op st h (hok op (by simp))
    simp only [trace, List.map_cons]
    rw [h2]
    simp only
    rw [ih _ h1 (fun op' h' => hok op' (by simp [h']))]

/-- T3c: the same for the final state. -/
theorem run_refines (o : Ops V) (ops : List (Op V)) (st : St V) (h : Inv n st)
    (hok : ∀ op ∈ ops, OpOK n op) :
    Inv n (runOps o ops st) ∧ abs (runOps o ops st) = runOps o ops (abs st) := by
  induction ops generalizing st with
  | nil => exact ⟨h, rfl⟩
  | cons op rest ih =>
    have h1 := inv_step o op st h (hok op (by simp))
    have h2 := step_refines o op st h (hok op (by simp))
    have := ih _ h1 (fun op' h' => hok op' (by simp [h']))
    simp only [runOps, List.foldl_cons] at this ⊢
    rw [h2]
    exact this

/-- T4: after `operate(str)` no listed name starts with `#`, for every RPN token list, whether the
evaluation returned or raised (the purge sits in a `finally`), including `#` names listed before the call. -/
theorem no_temporaries (o : Ops V) (rpn : List String) (st : St V) (h : Inv n st) :
    ∀ nm ∈ names (step o (.expr rpn) st).2, isHash nm = false := by
  have hsim := sim_step (n := n) o (.expr rpn) trivial st h
  -- the state after evaluation (before the purge) is aligned, hence has distinct names
  have hev := sim_evaluate (n := n) o rpn st h
  have hst : (step o (Op.expr rpn) st).2 = (purge (σ := St V) (evaluate o rpn st).2).2 := tryFinally_snd _ _ _
  have habs : abs (step o (Op.expr rpn) st).2 = (purge (σ := ATab V) (abs (evaluate o rpn st).2)).2 := by
    have e1 := hsim.2.1
    have e2 : (step (σ := ATab V) o (Op.expr rpn) (abs st)).2
        = (purge (σ := ATab V) (evaluate (σ := ATab V) o rpn (abs st)).2).2 := tryFinally_snd _ _ _
    rw [e1] at e2
    simp only at e2
    rw [e2, hev.2.1]
  have hnd : (anames (abs (evaluate o rpn st).2)).Nodup := by rw [names_abs]; exact hev.1.nodup
  rw [purge_spec _ hnd] at habs
  intro nm hnm
  rw [← names_abs, habs] at hnm
  simp only [anames, List.mem_map, List.mem_filter] at hnm
  obtain ⟨p, ⟨_, hp⟩, rfl⟩ := hnm
  simpa using hp

end TV.C01
