import TracklibVerif.Lemmas.FeaturesInit
/-! # C01 — the feature table stays aligned with the observations under any operation history

Property theorems only. `St` is the model of the code (`Model/Features.lean`: the dict name → column index and
the per-observation `features` lists, every operation with the partial effects Python leaves when it raises);
`ATab` is the specification: an association list name ↦ column without any index. `Inv n st` says that `st`
is aligned (the dict enumerates its distinct names, every observation carries exactly one value per listed
name, `n` observations); `abs` forgets the indices. `Op` covers create / update / remove / bracket
assignment / setObs / addAnalyticalFeature / unary, binary, scalar void operators of every family (those whose
arithmetic raises mid-way included) / value-returning aggregates / `computeAbsCurv`, `estimate_speed`,
`segmentation` / `operate(str)` on an arbitrary RPN token list over `= + - * / ^ % < > & $ @`. All statements
are for every scalar type `V`, every feature name (any string) and every interpretation `o : Ops V` of the
arithmetic, exceptions included (the driver runs them at `Float`).

Continued in `Props/C01World.lean` (the same API on a heap of `Obs` objects: tracks that share or copy their
observations — `extract`, slices, `+`, `copy`, `extractSpanTime`, `loop(add=True)`, `addObs(o.copy())`) and in
`Props/C01Call.lean` (the list forms of `Track.operate`; `call_keeps_listed`: a call that is not a deleting call unlists
nothing, returning or raising) and in `Props/C01Front.lean` (the argument handling of `createAnalyticalFeature` and
`track[name] = obs`: whatever object is given — `None`, a bool, a str … — is the value read back; the driver runs the
model at `V := String`, one token per Python object, next to the `Float` instance). -/
set_option linter.unusedSectionVars false
namespace TV.C01
open TV.Features
variable {V : Type} [Inhabited V] {n : Nat}

/-- a fresh track: `xs.length` observations, no feature -/
def fresh (xs ys zs ts : List V) : St V :=
  { dico := [], rows := xs.map (fun _ => []), xs := xs, ys := ys, zs := zs, ts := ts }

/-- T1a: a fresh track is aligned. -/
theorem inv_fresh (xs ys zs ts : List V) (hy : ys.length = xs.length) (hz : zs.length = xs.length)
    (ht : ts.length = xs.length) : Inv xs.length (fresh xs ys zs ts) := by
  refine ⟨rfl, by simp [names, fresh], ?_, by simp [fresh], rfl, hy, hz, ht⟩
  intro r hr
  simp only [fresh, List.mem_map] at hr
  obtain ⟨_, _, rfl⟩ := hr
  rfl

/-- T1b: every API call keeps the table aligned, whether it returns or raises (a list initialiser
shorter than the track included: since fix 2976f2b it is refused before anything is written). After the call every observation still carries exactly one value per listed name. -/
theorem inv_step (o : Ops V) (op : Op V) (st : St V) (h : Inv n st) :
    Inv n (step o op st).2 := (sim_step o op st h).1

/-- T2: refinement. On an aligned table every API call of the code does exactly what the same call does on the
name ↦ column table: same outcome (value returned or exception kind) and corresponding resulting tables.
Everything observable through names (listed names in order, every column, coordinates) therefore evolves as
in the specification, where "reading a name returns what was last written under it", "delete does not touch
the other names" and "nothing else changes" hold by construction. -/
theorem step_refines (o : Ops V) (op : Op V) (st : St V) (h : Inv n st) :
    step o op (abs st) = ((step o op st).1, abs (step o op st).2) := (sim_step o op st h).2.1

/-- T3a: every state reached along any finite history is aligned. -/
theorem history_aligned (o : Ops V) (ops : List (Op V)) (st : St V) (h : Inv n st): ∀ r ∈ trace o ops st, Inv n r.2 := by
  induction ops generalizing st with
  | nil => intro r hr; simp [trace] at hr
  | cons op rest ih =>
    intro r hr
    have h1 := inv_step o op st h
    simp only [trace, List.mem_cons] at hr
    rcases hr with rfl | hr
    · exact h1
    · exact ih _ h1 r hr

/-- T3b: along any finite history the code and the specification produce the same outcomes, and the tables
correspond after every call. -/
theorem history_refines (o : Ops V) (ops : List (Op V)) (st : St V) (h : Inv n st):
    trace o ops (abs st) = (trace o ops st).map (fun r => (r.1, abs r.2)) := by
  induction ops generalizing st with
  | nil => rfl
  | cons op rest ih =>
    have h1 := inv_step o op st h
    have h2 := step_refines o op st h
    simp only [trace, List.map_cons]
    rw [h2]
    simp only
    rw [ih _ h1]

/-- T3c: the same for the final state. -/
theorem run_refines (o : Ops V) (ops : List (Op V)) (st : St V) (h : Inv n st):
    Inv n (runOps o ops st) ∧ abs (runOps o ops st) = runOps o ops (abs st) := by
  induction ops generalizing st with
  | nil => exact ⟨h, rfl⟩
  | cons op rest ih =>
    have h1 := inv_step o op st h
    have h2 := step_refines o op st h
    have := ih _ h1
    simp only [runOps, List.foldl_cons] at this ⊢
    rw [h2]
    exact this

/-- the empty string is not a `#` name -/
theorem isHash_empty : isHash "" = false := by decide +kernel

/-- a name that is neither listed before `operate(str)` nor a token of the expression is not listed after the
evaluation (before the purge) either — used for the empty name -/
theorem evaluate_no_new_name (o : Ops V) (rpn : List String) (st : St V) (h : Inv n st) (m : String)
    (hm : m ∉ names st) (hrpn : m ∉ rpn) (hh : isHash m = false) : m ∉ names (evaluate o rpn st).2 := by
  have hev := sim_evaluate (n := n) o rpn st h
  have hsame := (frame_evaluate o rpn (abs st)).1
  rw [hev.2.1] at hsame
  simp only at hsame
  have hT : ¬ exprT rpn m := by
    intro ht
    rcases ht with ⟨h1, _⟩ | h2
    · exact hrpn h1
    · rw [hh] at h2; cases h2
  have hl := hsame.cols m hT
  intro hmem
  have h1 : (lookup (abs (evaluate o rpn st).2).cols m).isSome = true := by
    apply lookup_isSome_of_mem
    have := names_abs (evaluate o rpn st).2
    unfold anames at this
    rw [this]; exact hmem
  rw [hl, abs_lookup, find_none_of_not_mem _ _ hm] at h1
  cases h1

/-- T4: after `operate(str)` no listed name starts with `#`, for every RPN token list and every table — the empty
string as a feature name or a token included (fix 06982f0: `af.startswith("#")`) —, whether the evaluation returned
or raised (the purge sits in a `finally`; an operator failing mid-way included), including `#` names listed before the call. -/
theorem no_temporaries (o : Ops V) (rpn : List String) (st : St V) (h : Inv n st) :
    ∀ nm ∈ names (step o (.expr rpn) st).2, isHash nm = false := by
  have hsim := sim_step (n := n) o (.expr rpn) st h
  -- the state after evaluation (before the purge) is aligned, hence has distinct names
  have hev := sim_evaluate (n := n) o rpn st h
  have habs : abs (step o (Op.expr rpn) st).2 = (purge (σ := ATab V) (abs (evaluate o rpn st).2)).2 := by
    have e1 := hsim.2.1
    have e2 : (step (σ := ATab V) o (Op.expr rpn) (abs st)).2
        = (purge (σ := ATab V) (evaluate (σ := ATab V) o rpn (abs st)).2).2 := tryFinally_snd _ _ _
    rw [e1] at e2
    simp only at e2
    rw [e2, hev.2.1]
  have hnd : (anames (abs (evaluate o rpn st).2)).Nodup := by rw [names_abs]; exact hev.1.nodup
  rw [purge_spec _ hnd] at habs
  intro nm hnm
  rw [← names_abs, habs] at hnm
  simp only [anames, List.mem_map, List.mem_filter] at hnm
  obtain ⟨p, ⟨_, hp⟩, rfl⟩ := hnm
  simpa using hp

/-- a list initialiser shorter than the track with a new name (fix 2976f2b): `createAnalyticalFeature(nm, l)` raises
IndexError and the track is exactly as it was — nothing registered, no observation extended. -/
theorem short_list_refused (st : St V) (h : Inv n st) (nm : String) (l : List V)
    (hr : reserved nm = false) (hn : n ≠ 0) (hnew : nm ∉ names st) (hl : l.length < n) :
    createC nm (.list l) st = (.error .index, st) := by
  unfold createC
  have h1 : st.rows.isEmpty = false := by rw [isEmpty_rows h]; simpa using hn
  have h2 : hasC st nm = false := by
    simp [hasC, find_none_of_not_mem st.dico nm hnew, hr]
  have h3 : l.length < st.rows.length := by rw [h.size]; exact hl
  simp [hr, h1, h2, h3]

/-! ## Consequences read on the code's table: `read o st m` is what `getAnalyticalFeature(m)` returns -/

/-- every observation carries exactly one value per listed name, and a listed (non-virtual) name reads as a
full column: one value per observation -/
theorem aligned_reads (o : Ops V) (st : St V) (h : Inv n st) :
    (∀ r ∈ st.rows, r.length = (names st).length) ∧ (names st).Nodup ∧
    ∀ nm ∈ names st, reserved nm = false → ∃ col, read o st nm = .ok col ∧ col.length = n := by
  refine ⟨fun r hr => by rw [h.rows r hr, h.dico_length], h.nodup, ?_⟩
  intro nm hnm hr
  have hs := find_isSome_of_mem st.dico nm hnm
  rw [read_abs o h, aread_feature o _ hr, abs_lookup]
  cases hf : find st.dico nm with
  | none => rw [hf] at hs; cases hs
  | some idx => exact ⟨_, rfl, by rw [colAt_length, h.size]⟩

/-- create of a new name: it returns, the new name reads as the initial values, every other name
(feature or virtual) reads as before. -/
theorem read_after_create (o : Ops V) (st : St V) (h : Inv n st) (nm : String) (init : Init V)
    (hr : reserved nm = false) (hn : n ≠ 0) (hnew : nm ∉ names st)
    (hok' : match init with | .scalar _ => True | .list l => n ≤ l.length) :
    (createC nm init st).1 = .ok () ∧ read o (createC nm init st).2 nm = .ok (initCol n init) ∧
    ∀ m, m ≠ nm → read o (createC nm init st).2 m = read o st m := by
  have hs := sim_create (n := n) nm init
  obtain ⟨e1, e2⟩ := sim_snd hs h
  have hi := (hs st h).1
  have hl : lookup (abs st).cols nm = none := by
    rw [abs_lookup, find_none_of_not_mem _ _ hnew]; rfl
  have hA := createA_new (abs st) nm init hr (by rw [abs_size h]; exact hn) hl (by rw [abs_size h]; exact hok')
  rw [hA] at e1 e2
  simp only at e1 e2
  refine ⟨e1.symm, ?_, ?_⟩
  · rw [read_abs o hi, ← e2, aread_feature o _ hr]
    simp only [lookup_append_new _ _ _ _ hl, if_true, abs_size h]
  · intro m hm
    rw [read_abs o hi, read_abs o h, ← e2]
    apply aread_congr <;> try rfl
    simp only [lookup_append_new _ _ _ _ hl, hm, if_false]

/-- creating a name that is already listed writes nothing at all -/
theorem create_existing_noop (st : St V) (h : Inv n st) (nm : String) (init : Init V)
    (hex : nm ∈ names st) (hr : reserved nm = false) (hn : n ≠ 0) : createC nm init st = (.ok (), st) := by
  unfold createC
  have h1 : st.rows.isEmpty = false := by rw [isEmpty_rows h]; simpa using hn
  have h2 : hasC st nm = true := by simp [hasC, find_isSome_of_mem st.dico nm hex]
  simp [hr, h1, h2]

/-- update / bracket assignment of a listed name: it returns, the name reads as the new values (a scalar is
broadcast), every other name reads as before. -/
theorem read_after_update (o : Ops V) (st : St V) (h : Inv n st) (nm : String) (init : Init V)
    (hr : reserved nm = false) (hn : n ≠ 0) (hex : nm ∈ names st)
    (hok : match init with | .scalar _ => True | .list l => n ≤ l.length) :
    (updateC nm init st).1 = .ok () ∧ read o (updateC nm init st).2 nm = .ok (initCol n init) ∧
    ∀ m, m ≠ nm → read o (updateC nm init st).2 m = read o st m := by
  have hs := sim_update (n := n) nm init
  obtain ⟨e1, e2⟩ := sim_snd hs h
  have hi := (hs st h).1
  have hsome := find_isSome_of_mem st.dico nm hex
  cases hf : find st.dico nm with
  | none => rw [hf] at hsome; cases hsome
  | some idx =>
    have hl : lookup (abs st).cols nm = some (colAt st.rows idx) := by rw [abs_lookup, hf]; rfl
    have hA := updateA_ok (abs st) nm init _ (by rw [abs_size h]; exact hn) hl (by rw [abs_size h]; exact hok)
    rw [hA] at e1 e2
    simp only at e1 e2
    refine ⟨e1.symm, ?_, ?_⟩
    · rw [read_abs o hi, ← e2, aread_feature o _ hr]
      simp only [lookup_replaceCol, if_true, hl, Option.map_some]
      congr 1
      cases init with
      | scalar v => simp [updCol, initCol, colAt_length, h.size]
      | list l =>
        simp only at hok
        simp only [updCol, initCol, overwrite, colAt_length, h.size]
        rw [List.drop_eq_nil_of_le (by rw [colAt_length, h.size]; exact hok)]
        simp
    · intro m hm
      rw [read_abs o hi, read_abs o h, ← e2]
      apply aread_congr <;> try rfl
      simp only [lookup_replaceCol, hm, if_false]

/-- writing one cell of a listed feature: that cell changes, every other cell of every name reads as before -/
theorem read_after_setObs (o : Ops V) (st : St V) (h : Inv n st) (nm : String) (i : Nat) (v : V)
    (hr : reserved nm = false) (hi : i < n) (hex : nm ∈ names st) :
    (setObsC nm i v st).1 = .ok () ∧
    (∃ col, read o st nm = .ok col ∧ read o (setObsC nm i v st).2 nm = .ok (col.set i v)) ∧
    ∀ m, m ≠ nm → read o (setObsC nm i v st).2 m = read o st m := by
  have hs := sim_setObs (n := n) nm i v
  obtain ⟨e1, e2⟩ := sim_snd hs h
  have hinv := (hs st h).1
  have hsome := find_isSome_of_mem st.dico nm hex
  cases hf : find st.dico nm with
  | none => rw [hf] at hsome; cases hsome
  | some idx =>
    have hl : lookup (abs st).cols nm = some (colAt st.rows idx) := by rw [abs_lookup, hf]; rfl
    have hA := setObsA_ok (abs st) nm i v _ hr hl (by rw [colAt_length, h.size]; exact hi)
    rw [hA] at e1 e2
    simp only at e1 e2
    refine ⟨e1.symm, ⟨colAt st.rows idx, ?_, ?_⟩, ?_⟩
    · rw [read_abs o h, aread_feature o _ hr, hl]
    · rw [read_abs o hinv, ← e2, aread_feature o _ hr]
      simp only [lookup_replaceCol, if_true, hl, Option.map_some]
    · intro m hm
      rw [read_abs o hinv, read_abs o h, ← e2]
      apply aread_congr <;> try rfl
      simp only [lookup_replaceCol, hm, if_false]

/-- deleting a listed feature: it returns, the name is no longer a feature, and what is read under every
other name is unchanged — whatever the position of the deleted column. -/
theorem read_after_remove (o : Ops V) (st : St V) (h : Inv n st) (nm : String)
    (hr : reserved nm = false) (hex : nm ∈ names st) :
    (removeC nm st).1 = .ok () ∧ read o (removeC nm st).2 nm = .error .unknown ∧
    nm ∉ names (removeC nm st).2 ∧
    ∀ m, m ≠ nm → read o (removeC nm st).2 m = read o st m := by
  have hs := sim_remove (V := V) (n := n) nm
  obtain ⟨e1, e2⟩ := sim_snd hs h
  have hinv := (hs st h).1
  have hsome : (lookup (abs st).cols nm).isSome = true := by
    rw [abs_lookup]; simpa using find_isSome_of_mem st.dico nm hex
  have hA := removeA_ok (abs st) nm hsome
  rw [hA] at e1 e2
  simp only at e1 e2
  refine ⟨e1.symm, ?_, ?_, ?_⟩
  · rw [read_abs o hinv, ← e2, aread_feature o _ hr]
    simp only [lookup_filter_self]
  · rw [← names_abs, ← e2]
    simp only [anames, List.mem_map, List.mem_filter, not_exists, not_and]
    intro p hp e
    simp [e] at hp
  · intro m hm
    rw [read_abs o hinv, read_abs o h, ← e2]
    apply aread_congr <;> try rfl
    simp only [lookup_filter_ne _ _ _ hm]

/-- the four table primitives never touch a coordinate or a timestamp (only `setObs` on `x`/`y`/`z` does) -/
theorem prims_keep_coords (st : St V) (nm : String) (init : Init V) (i : Nat) (v : V) (hr : reserved nm = false) :
    (∀ c, (createC nm init st).2.coord c = st.coord c) ∧ (∀ c, (updateC nm init st).2.coord c = st.coord c) ∧
    (∀ c, (removeC nm st).2.coord c = st.coord c) ∧ (∀ c, (setObsC nm i v st).2.coord c = st.coord c) := by
  unfold reserved at hr
  simp only [Bool.or_eq_false_iff] at hr
  obtain ⟨⟨⟨⟨⟨hx, hy⟩, hz⟩, _⟩, _⟩, _⟩ := hr
  refine ⟨?_, ?_, ?_, ?_⟩ <;> intro c
  · unfold createC
    split <;> (try rfl)
    split <;> (try rfl)
    split <;> (try rfl)
    split
    · cases c <;> rfl
    · simp only
      split <;> cases c <;> rfl
  · unfold updateC
    split <;> (try rfl)
    split <;> (try rfl)
    split <;> (try rfl)
    split <;> cases c <;> rfl
  · unfold removeC
    split <;> (try rfl)
    split <;> cases c <;> rfl
  · unfold setObsC
    simp only [hx, hy, hz, Bool.or_false, Bool.false_eq_true, if_false]
    split <;> (try rfl)
    split <;> (try rfl)
    split <;> cases c <;> rfl

/-- T5: no side effects. For every API call — operators and `operate(str)` on any RPN included, returning or
raising — a name the call does not designate (`touched`: the written name; for an expression its non-operator
tokens and the `#` names) reads exactly as before, whether it is a feature, a coordinate `x y z`, the
timestamps `t` or `idx`; and it is listed afterwards iff it was listed before. -/
theorem step_frame (o : Ops V) (op : Op V) (st : St V) (h : Inv n st) (m : String)
    (hm : ¬ touched op m) :
    read o (step o op st).2 m = read o st m ∧ (m ∈ names (step o op st).2 ↔ m ∈ names st) := by
  have hi := inv_step o op st h
  have href := step_refines o op st h
  have hsame := (frame_step o op (abs st)).1
  rw [href] at hsame
  simp only at hsame
  refine ⟨?_, ?_⟩
  · rw [read_abs o hi, read_abs o h]
    exact aread_same o hsame m hm
  · rw [← names_abs, ← names_abs]
    unfold anames
    rw [← lookup_isSome_iff, ← lookup_isSome_iff, hsame.cols m hm]

/-- T5 for the aggregate `SUM` (a non-void operator): the table is left exactly as it was. -/
theorem sum_keeps_table (o : Ops V) (inp : String) (st : St V) (h : Inv n st) (m : String) :
    read o (step o (.sum inp) st).2 m = read o st m :=
  (step_frame o (.sum inp) st h m (fun hf => hf)).1

/-- reading `out` after a void operator that returned `temp`, from the corresponding fact on the specification -/
theorem read_of_lookup (o : Ops V) (st' : St V) (h' : Inv n st') (out : String) (temp : List V)
    (hr : reserved out = false) (hl : lookup (abs st').cols out = some temp) : read o st' out = .ok temp := by
  rw [read_abs o h', aread_feature o _ hr, hl]

/-- T6a: when a binary void operator (ADDER, SUBSTRACTER, MULTIPLIER) returns the list `temp`, the output
feature reads exactly `temp` (whether it was created by the call or overwritten, and even if it is also an input). -/
theorem binaryVoid_read_back (o : Ops V) (k : BOp) (in1 in2 : String) (out : Option String) (st : St V)
    (h : Inv n st) (temp : List V) (hres : (step o (.binaryVoid k in1 in2 out) st).1 = .ok (.col temp)) :
    read o (step o (.binaryVoid k in1 in2 out) st).2 (out.getD in1) = .ok temp := by
  have href := step_refines o (.binaryVoid k in1 in2 out) st h
  rw [hres] at href
  obtain ⟨l, a1, h1, h2⟩ := bind_ok href
  have : ((Except.ok (Ret.col l) : Except Err (Ret V)), a1) = (Except.ok (Ret.col temp), abs (step o (.binaryVoid k in1 in2 out) st).2) := h2
  cases this
  obtain ⟨hr, hl⟩ := binaryVoid_result o k in1 in2 _ _ _ _ (ainv_abs h) h1
  exact read_of_lookup o _ (inv_step o (.binaryVoid k in1 in2 out) st h) _ _ hr hl

/-- T6b: the same for the scalar void operators (SCALAR_ADDER, SCALAR_SUBSTRACTER, SCALAR_REV_SUBSTRACTER, SCALAR_MULTIPLIER). -/
theorem scalarVoid_read_back (o : Ops V) (k : SOp) (inp : String) (arg : V) (out : Option String) (st : St V)
    (h : Inv n st) (temp : List V) (hres : (step o (.scalarVoid k inp arg out) st).1 = .ok (.col temp)) :
    read o (step o (.scalarVoid k inp arg out) st).2 (out.getD inp) = .ok temp := by
  have href := step_refines o (.scalarVoid k inp arg out) st h
  rw [hres] at href
  obtain ⟨l, a1, h1, h2⟩ := bind_ok href
  have : ((Except.ok (Ret.col l) : Except Err (Ret V)), a1) = (Except.ok (Ret.col temp), abs (step o (.scalarVoid k inp arg out) st).2) := h2
  cases this
  obtain ⟨hr, hl⟩ := scalarVoid_result o k inp arg _ _ _ _ (ainv_abs h) h1
  exact read_of_lookup o _ (inv_step o (.scalarVoid k inp arg out) st h) _ _ hr hl

/-- T6c: the same for the unary void operators (INTEGRATOR, DIFFERENTIATOR). -/
theorem unaryVoid_read_back (o : Ops V) (k : UOp) (inp : String) (out : Option String) (st : St V)
    (h : Inv n st) (temp : List V) (hres : (step o (.unaryVoid k inp out) st).1 = .ok (.col temp)) :
    read o (step o (.unaryVoid k inp out) st).2 (out.getD inp) = .ok temp := by
  have href := step_refines o (.unaryVoid k inp out) st h
  rw [hres] at href
  obtain ⟨l, a1, h1, h2⟩ := bind_ok href
  have : ((Except.ok (Ret.col l) : Except Err (Ret V)), a1) = (Except.ok (Ret.col temp), abs (step o (.unaryVoid k inp out) st).2) := h2
  cases this
  obtain ⟨hr, hl⟩ := unaryVoid_result o k inp _ _ _ _ (ainv_abs h) h1
  exact read_of_lookup o _ (inv_step o (.unaryVoid k inp out) st h) _ _ hr hl

/-- T6d: the same for every APPLY-based unary void operator (RECTIFIER, SQRT, DIODE, SIGN, EXP, COS, SIN, TAN, INVERSER … —
any cell function `f`, which may raise mid-way: then nothing is returned and the statement is about returning calls). -/
theorem applyVoid_read_back (o : Ops V) (f : V → Except Err V) (inp out : String) (st : St V)
    (h : Inv n st) (temp : List V) (hres : (applyVoid o f inp out st).1 = .ok temp) :
    read o (applyVoid o f inp out st).2 out = .ok temp := by
  obtain ⟨hi, href, _⟩ := sim_applyVoid (n := n) o f inp out st h
  rw [hres] at href
  obtain ⟨hr, hl⟩ := applyVoid_result o f inp out _ _ _ (ainv_abs h) href
  exact read_of_lookup o _ hi _ _ hr hl

/-- a successful `m >>= f` on the code's table: `m` succeeded and the whole is `f` run on `m`'s result and state -/
theorem bind_fst_ok {σ α β : Type} {m : M σ α} {f : α → M σ β} {s : σ} {x : β}
    (h : ((m >>= f) s).1 = .ok x) : ∃ y, (m s).1 = .ok y ∧ (m >>= f) s = f y (m s).2 := by
  have h' : (M.bind m f s).1 = .ok x := h
  show ∃ y, (m s).1 = .ok y ∧ M.bind m f s = f y (m s).2
  unfold M.bind at h' ⊢
  cases hm : m s with
  | mk r s1 =>
    rw [hm] at h'
    cases r with
    | error e => cases h'
    | ok y => exact ⟨y, rfl, rfl⟩

theorem scalarVoid_fn_read_back (o : Ops V) (k : SOp) (inp : String) (arg : V) (out : String) (st : St V)
    (h : Inv n st) (temp : List V) (hres : (scalarVoid o k inp arg out st).1 = .ok temp) :
    Features.read o (scalarVoid o k inp arg out st).2 out = .ok temp := by
  obtain ⟨hi, href, _⟩ := sim_scalarVoid (n := n) o k inp arg out st h
  rw [hres] at href
  obtain ⟨hr, hl⟩ := scalarVoid_result o k inp arg out _ _ _ (ainv_abs h) href
  exact read_of_lookup o _ hi _ _ hr hl

theorem shiftCircular_fn_read_back (o : Ops V) (inp : String) (arg : V) (out : String) (st : St V)
    (h : Inv n st) (temp : List V) (hres : (shiftCircular o inp arg out st).1 = .ok temp) :
    Features.read o (shiftCircular o inp arg out st).2 out = .ok temp := by
  obtain ⟨hi, href, _⟩ := sim_shiftCircular (n := n) o inp arg out st h
  rw [hres] at href
  obtain ⟨hr, hl⟩ := shiftCircular_result o inp arg out _ _ _ (ainv_abs h) href
  exact read_of_lookup o _ hi _ _ hr hl

/-- T6e: the same for SCALAR_DIVIDER, SCALAR_REV_DIVIDER (single divisions in the create / loop / addListToAF form since
fixes 5676890 / 2dd86ce, which may raise mid-way on a zero),
SHIFT_CIRCULAR, SHIFT_CIRCULAR_REV and the twelve plain scalar operators (`scalarKind`): when the call returns `temp`,
the output feature reads `temp`. -/
theorem scalarKind_read_back (o : Ops V) (k : SKind) (inp : String) (arg : V) (out : String) (st : St V)
    (h : Inv n st) (temp : List V) (hres : (scalarKind o k inp arg out st).1 = .ok temp) :
    Features.read o (scalarKind o k inp arg out st).2 out = .ok temp := by
  cases k with
  | plain s => exact scalarVoid_fn_read_back o s inp arg out st h temp hres
  | divider => exact applyVoid_read_back o (divCell o arg) inp out st h temp hres
  | revDivider => exact applyVoid_read_back o (revDivCell o arg) inp out st h temp hres
  | shift => exact shiftCircular_fn_read_back o inp arg out st h temp hres
  | shiftRev => exact shiftCircular_fn_read_back o inp _ out st h temp hres

/-- T5 for the value-returning aggregates SUM AVG MIN MAX ARGMIN ARGMAX (`aggFn`, any aggregate function, raising or
not): the table is left exactly as it was. -/
theorem agg_keeps_table (o : Ops V) (f inp : String) (st : St V) (h : Inv n st) (m : String) :
    read o (step o (.aggFn f inp) st).2 m = read o st m :=
  (step_frame o (.aggFn f inp) st h m (fun hf => hf)).1

/-- T7: every read path returns the same values. On an aligned table, whatever `getAnalyticalFeature(m)` returns as
column — for a feature name (any string: `X`, `E`, `N`, `idx2`, the empty string …), a coordinate `x y z`, `t` or
`idx` — `getObsAnalyticalFeature(m, i)` (= `track[m, i]`, and the read every operator and `setX/Y/ZFromAnalyticalFeature`
makes) returns its `i`-th element and changes nothing. -/
theorem cell_read_agrees (o : Ops V) (st : St V) (h : Inv n st) (m : String) (col : List V)
    (hc : read o st m = .ok col) (i : Nat) (hi : i < col.length) :
    (getObsC o m i st).1 = .ok (col[i]'hi) ∧ (getObsC o m i st).2 = st := by
  refine ⟨?_, getObsC_state o m i st⟩
  have hs := (sim_getObs (n := n) o m i st h).2.1
  have ha : (getA o m (abs st)).1 = .ok col := by
    have := read_abs o h m
    unfold Features.read Features.aread at this
    rw [← this]; exact hc
  rw [acell_agrees o (abs st) m col ha i hi] at hs
  exact (congrArg Prod.fst hs).symm

/-- T8: a track that is handed a table — what `copy()`, `extract`, a slice and `+` build (`__transmitAF` copies the
dict, the observations keep their `features`) — is aligned and carries exactly that table, provided the names are
distinct and every column has one value per observation; every theorem above then applies to the histories that start
from it. -/
theorem carried_table_aligned (cols : List (String × List V)) (xs ys zs ts : List V)
    (hnd : (cols.map Prod.fst).Nodup) (hlen : ∀ p ∈ cols, p.2.length = xs.length)
    (hy : ys.length = xs.length) (hz : zs.length = xs.length) (ht : ts.length = xs.length) :
    Inv xs.length (mkSt cols xs ys zs ts) ∧
    abs (mkSt cols xs ys zs ts) = { cols := cols, xs := xs, ys := ys, zs := zs, ts := ts } :=
  ⟨inv_mkSt cols xs ys zs ts hnd hy hz ht, abs_mkSt cols xs ys zs ts hlen⟩

/-! ## Non-vacuity: an explicit history with delete-then-recreate, over the integers -/

/-- integer arithmetic, `-1000` standing for NaN; only the literals `2` and `3` parse -/
def iops : Ops Int :=
  { zero := 0, nan := -1000, add := (· + ·), sub := (· - ·), mul := (· * ·), ofNat := Int.ofNat,
    isNaN := fun v => v == -1000, parse := fun s => if s == "2" then some 2 else if s == "3" then some 3 else none,
    one := 1, divide := (· / ·), eqZero := fun v => v == 0,
    pow := fun a b => if b < 0 then (if a == 0 then .error .value else .ok 0) else .ok (a ^ b.toNat),
    mod := fun a b => if b == 0 then .error .value else .ok (a % b),
    lt := fun a b => decide (a < b),
    fn := fun f v => if f == "SQRT" && v < 0 then .error .value else .ok (if f == "ABS" then Int.ofNat v.natAbs else v),
    agg := fun f l => if f == "AVG" && l.isEmpty then .error .value else .ok (l.foldl (· + ·) 0),
    shiftIdx := fun k i m => if m == 0 then .error .value else .ok ((((i : Int) - k) % (m : Int)).toNat) }

def t0 : St Int := fresh [10, 11, 12] [20, 22, 24] [30, 33, 36] [1000, 1001, 1002]

/-- create a, create b, `track["c"] = [4,5,6]`, delete a (a non-last column), recreate a, `b = c*2 + a` -/
def hist : List (Op Int) :=
  [.create "a" (.list [1, 2, 3]), .create "b" (.scalar 7), .setItem "c" (.list [4, 5, 6]),
   .remove "a", .create "a" (.scalar 0), .expr ["b", "c", "2", "*", "a", "+", "="]]

example : Inv 3 t0 := inv_fresh [10, 11, 12] _ _ _ rfl rfl rfl
example : (runOps iops hist t0).dico = [("c", 0), ("a", 1), ("b", 2)] := by decide +kernel
example : (runOps iops hist t0).rows = [[4, 0, 8], [5, 0, 10], [6, 0, 12]] := by decide +kernel
example : (runOps iops hist (abs t0)).cols = [("c", [4, 5, 6]), ("a", [0, 0, 0]), ("b", [8, 10, 12])] := by decide +kernel
/-- an expression that raises after its first temporary exists: `c = a*2 + nosuch` -/
example : ((trace iops [.create "a" (.scalar 5), .expr ["c", "a", "2", "*", "nosuch", "+", "="]] t0).map
    (fun r => (r.1.toOption.isSome, r.2.dico))) = [(true, [("a", 0)]), (false, [("a", 0)])] := by decide +kernel

/-- `y = 3` (fix 144a468): the number is written to the coordinate of every observation, the call returns,
the table and the other coordinates are untouched — on the code's table and on the specification table alike -/
example : ((trace iops [.create "a" (.scalar 5), .expr ["y", "3", "="]] t0).map
    (fun r => (r.1.toOption.isSome, r.2.dico, r.2.rows, r.2.ys))) =
    [(true, [("a", 0)], [[5], [5], [5]], [20, 22, 24]), (true, [("a", 0)], [[5], [5], [5]], [3, 3, 3])] := by decide +kernel
example : ((trace iops [.create "a" (.scalar 5), .expr ["y", "3", "="]] t0).map (fun r => (r.2.xs, r.2.zs, r.2.ts))) =
    [([10, 11, 12], [30, 33, 36], [1000, 1001, 1002]), ([10, 11, 12], [30, 33, 36], [1000, 1001, 1002])] := by decide +kernel
example : ((trace iops [.create "a" (.scalar 5), .expr ["y", "3", "="]] (abs t0)).map
    (fun r => (r.1.toOption.isSome, r.2.cols, r.2.ys))) =
    [(true, [("a", [5, 5, 5])], [20, 22, 24]), (true, [("a", [5, 5, 5])], [3, 3, 3])] := by decide +kernel
/-- `x = 2*3`: a right-hand side that folds to a number; `t = 3` still raises (KeyError: `t` is not writable) -/
example : ((trace iops [.expr ["x", "2", "3", "*", "="], .expr ["t", "3", "="]] t0).map
    (fun r => (r.1.toOption.isSome, r.2.xs, r.2.ts))) =
    [(true, [6, 6, 6], [1000, 1001, 1002]), (false, [6, 6, 6], [1000, 1001, 1002])] := by decide +kernel

/-- an operator that raises mid-way: `c = 2/a` with a zero in `a`. SCALAR_REV_DIVIDER has already created its output `#0` when
`2 / 0` raises at the second observation; the call raises, the temporary is purged, `c` is not created, `a` and
the coordinates are as before, every observation carries one value -/
example : ((trace iops [.create "a" (.list [1, 0, 3]), .expr ["c", "2", "a", "/", "="]] t0).map
    (fun r => (r.1.toOption.isSome, r.2.dico, r.2.rows, r.2.xs))) =
    [(true, [("a", 0)], [[1], [0], [3]], [10, 11, 12]), (false, [("a", 0)], [[1], [0], [3]], [10, 11, 12])] := by decide +kernel
/-- the same expression when no value is zero: `c` reads `2 / a` as SCALAR_REV_DIVIDER computes it since fix 5676890 (integer
division here; it used to be `(1 / a) * 2`), no temporary is left -/
example : ((runOps iops [.create "a" (.list [1, 2, 3]), .expr ["c", "2", "a", "/", "="]] t0).dico,
    (runOps iops [.create "a" (.list [1, 2, 3]), .expr ["c", "2", "a", "/", "="]] t0).rows) =
    ([("a", 0), ("c", 1)], [[1, 2 / 1], [2, 2 / 2], [3, 2 / 3]]) := by decide +kernel
/-- operators `% ^ <`, a shift and a function call in one expression: `c = ABS{a} % 3 + (a ^ 2) + (a < 2) + (a >> 2)` -/
example : (runOps iops [.create "a" (.list [1, 2, 3]),
    .expr ["c", "ABS", "a", "@", "3", "%", "a", "2", "^", "+", "a", "2", "<", "+", "a", "2", "&", "+", "="]] t0).rows =
    [[1, 1 + 1 + 1 + 2], [2, 2 + 4 + 0 + 3], [3, 0 + 9 + 0 + 1]] := by decide +kernel
/-- with a feature whose name is the empty string the purge works like for any other name (fix 06982f0; `af[0]` used
to raise IndexError there and `#0` stayed listed) -/
example : ((trace iops [.create "" (.scalar 5), .create "a" (.scalar 1), .expr ["c", "a", "2", "+", "="]] t0).map
    (fun r => (r.1.toOption.isSome, r.2.dico.map Prod.fst))) =
    [(true, [""]), (true, ["", "a"]), (true, ["", "a", "c"])] := by decide +kernel
/-- a short list initialiser (fix 2976f2b): refused, the track as it was; the next call works on an aligned table -/
example : ((trace iops [.create "a" (.list [1, 2]), .setItem "b" (.list [7]), .create "a" (.list [1, 2, 3])] t0).map
    (fun r => (r.1.toOption.isSome, r.2.dico, r.2.rows))) =
    [(false, [], [[], [], []]), (false, [], [[], [], []]), (true, [("a", 0)], [[1], [2], [3]])] := by decide +kernel
/-- a carried table: the track built by `extract` / `copy` / `+` from columns `a`, `N` is aligned -/
example : Inv 2 (mkSt [("a", [1, 2]), ("N", [3, 4])] [10, 11] [20, 22] [30, 33] [1000, 1001] : St Int) :=
  (carried_table_aligned [("a", [1, 2]), ("N", [3, 4])] [10, 11] [20, 22] [30, 33] [1000, 1001]
    (by decide) (by decide) rfl rfl rfl).1
/-- a feature named `N` is read through every path as what was written under it, not as a coordinate -/
example : (getObsC iops "N" 1 (mkSt [("a", [1, 2]), ("N", [3, 4])] [10, 11] [20, 22] [30, 33] [1000, 1001] : St Int)).1.toOption
    = some 4 := by decide +kernel

end TV.C01
