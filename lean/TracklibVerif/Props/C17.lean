import TracklibVerif.Lemmas.Cinematics
import Mathlib.Analysis.Real.Sqrt
/-! # C17 — curvilinear abscissa and speed features match their geometric definitions

Property theorems only (helper lemmas: `Lemmas/Cinematics.lean`; model: `Model/Cinematics.lean`).
`computeAbsCurv` / `estimateSpeed` are the models of `algo/cinematics.py computeAbsCurv / estimate_speed`
(with `analytics.ds`, `analytics.speed`, `Integrator.execute`, `ENUCoords.distance2DTo`). A feature value
`none` is NaN. All statements hold for tracks of any length. -/
namespace TV.C17
open TV.Cinematics
variable {α : Type}

section anyScalar
variable [Add α] [Sub α] [Mul α] [Div α] [OfNat α 0] [BEq α]

/-- T1. On a track without `ds` / `abs_curv` features, `computeAbsCurv` returns the column
`[s 0, …, s (n-1)]` (no NaN) where `s = absc` satisfies `s 0 = 0` and
`s (i+1) = s i + distance2D(P[i+1], P[i])`: the abscissa starts at 0 and grows between consecutive
fixes by exactly their planimetric distance. Holds over any scalar type and any `sqrt` — in
particular for the `Float` operations, in the order Python performs them. -/
theorem abscurv_prefix (sqrt : α → α) (t : Track α)
    (hds : t.has "ds" = false) (hac : t.has "abs_curv" = false) :
    (computeAbsCurv sqrt t).2 = some ((List.range t.xy.length).map (fun i => some (absc sqrt t.xy i)))
    ∧ absc sqrt t.xy 0 = 0
    ∧ ∀ i (h : i + 1 < t.xy.length),
        absc sqrt t.xy (i + 1) = absc sqrt t.xy i + dist2D sqrt (t.xy[i + 1]'h) (t.xy[i]'(Nat.lt_of_succ_lt h)) := by
  refine ⟨?_, rfl, fun i h => absc_succ sqrt t.xy i h⟩
  rw [computeAbsCurv_fresh sqrt t hds hac, integrator_dsCol]

/-- T2. On a track of `n ≥ 2` fixes without a `speed` feature, `estimate_speed` returns a column `v`
of length `n` with
* `v[0]`   = speed between fixes 1 and 0,
* `v[n-1]` = speed between fixes n-1 and n-2,
* `v[i]`   = speed between fixes i+1 and i-1 for `0 < i < n-1`,
where the speed between a later fix `a` and an earlier fix `b` is NaN (`none`) when the elapsed time
`ts[a] - ts[b]` is zero and otherwise `distance2D(P[a], P[b]) / (ts[a] - ts[b])`. -/
theorem speed_def [LawfulBEq α] (sqrt : α → α) (t : Track α) (hsp : t.has "speed" = false)
    (hn : 2 ≤ t.xy.length) (hts : t.ts.length = t.xy.length) :
    ∃ v : Col α, (estimateSpeed sqrt t).2 = some v ∧ v.length = t.xy.length ∧
      ∀ (i a b : Nat) (hi : i < t.xy.length),
        ((i = 0 ∧ a = 1 ∧ b = 0) ∨ (i = t.xy.length - 1 ∧ a = t.xy.length - 1 ∧ b = t.xy.length - 2)
          ∨ (0 < i ∧ i < t.xy.length - 1 ∧ a = i + 1 ∧ b = i - 1)) →
        ∀ (ha : a < t.xy.length) (hb : b < t.xy.length),
          (t.ts[a]'(hts ▸ ha) - t.ts[b]'(hts ▸ hb) = 0 → v[i]? = some none) ∧
          (t.ts[a]'(hts ▸ ha) - t.ts[b]'(hts ▸ hb) ≠ 0 →
            v[i]? = some (some (dist2D sqrt t.xy[a] t.xy[b] / (t.ts[a]'(hts ▸ ha) - t.ts[b]'(hts ▸ hb))))) := by
  refine ⟨speedCol sqrt t.xy t.ts, ?_, by simp [speedCol], ?_⟩
  · rw [estimateSpeed_fresh sqrt t hsp]
  · intro i a b hi hcase ha hb
    have ha' : a < t.ts.length := hts ▸ ha
    have hb' : b < t.ts.length := hts ▸ hb
    have key : speedAt sqrt t.xy t.ts i = quot (dist2D sqrt t.xy[a] t.xy[b]) (t.ts[a] - t.ts[b]) := by
      rw [← speedBetween_eq sqrt t.xy t.ts a b ha hb ha' hb']
      unfold speedAt
      rcases hcase with ⟨h0, h1, h2⟩ | ⟨h0, h1, h2⟩ | ⟨h0, h1, h2, h3⟩
      · subst h0 h1 h2; simp
      · subst h1 h2
        have hz : ¬ (t.xy.length - 1 = 0) := by omega
        subst h0
        simp [hz]
      · subst h2 h3
        have hz : i ≠ 0 := by omega
        have hl : i ≠ t.xy.length - 1 := by omega
        simp [hz, hl]
    rw [speedCol_getElem? sqrt t.xy t.ts i hi, key]
    exact ⟨fun h => by rw [quot_zero _ _ h], fun h => by rw [quot_ne _ _ h]⟩

/-- T3a. Computing either feature leaves positions, timestamps and every other feature untouched
(only `abs_curv` — and the temporary `ds` — resp. `speed` are written). -/
theorem pure (sqrt : α → α) (t : Track α) :
    ((computeAbsCurv sqrt t).1.xy = t.xy ∧ (computeAbsCurv sqrt t).1.ts = t.ts
      ∧ ∀ m, m ≠ "ds" → m ≠ "abs_curv" → (computeAbsCurv sqrt t).1.get m = t.get m)
    ∧ ((estimateSpeed sqrt t).1.xy = t.xy ∧ (estimateSpeed sqrt t).1.ts = t.ts
      ∧ ∀ m, m ≠ "speed" → (estimateSpeed sqrt t).1.get m = t.get m) :=
  ⟨⟨(computeAbsCurv_frame sqrt t).1, (computeAbsCurv_frame sqrt t).2, computeAbsCurv_get_other sqrt t⟩,
   ⟨(estimateSpeed_frame sqrt t).1, (estimateSpeed_frame sqrt t).2, estimateSpeed_get_other sqrt t⟩⟩

/-- T3b. Recomputation is idempotent, for every track (whatever features it had): calling the function
again on the resulting track returns the same column and leaves that track exactly as it was; after
`computeAbsCurv` the track has `abs_curv` and no `ds`. -/
theorem idempotent (sqrt : α → α) (t : Track α) :
    computeAbsCurv sqrt (computeAbsCurv sqrt t).1 = computeAbsCurv sqrt t
    ∧ estimateSpeed sqrt (estimateSpeed sqrt t).1 = estimateSpeed sqrt t
    ∧ (computeAbsCurv sqrt t).1.has "ds" = false ∧ (computeAbsCurv sqrt t).1.has "abs_curv" = true
    ∧ (estimateSpeed sqrt t).1.has "speed" = true :=
  ⟨computeAbsCurv_idem sqrt t, estimateSpeed_idem sqrt t, (computeAbsCurv_has sqrt t).1,
   (computeAbsCurv_has sqrt t).2, estimateSpeed_has sqrt t⟩

/-- T3c. On a track without `ds` / `abs_curv` (resp. `speed`) the only change to the feature table is one
appended column, `abs_curv` (resp. `speed`): the temporary `ds` is gone. -/
theorem only_adds (sqrt : α → α) (t : Track α) :
    (t.has "ds" = false → t.has "abs_curv" = false →
      (computeAbsCurv sqrt t).1.feats
        = t.feats ++ [("abs_curv", (List.range t.xy.length).map (fun i => some (absc sqrt t.xy i)))])
    ∧ (t.has "speed" = false →
      (estimateSpeed sqrt t).1.feats = t.feats ++ [("speed", speedCol sqrt t.xy t.ts)]) := by
  constructor
  · intro hds hac
    rw [computeAbsCurv_fresh sqrt t hds hac, integrator_dsCol]
    simp [Track.set, hac]
  · intro hsp
    rw [estimateSpeed_fresh sqrt t hsp]
    simp [Track.set, hsp]

end anyScalar

section field
variable [Field α] [LinearOrder α] [IsStrictOrderedRing α]

/-- T1 (geometric reading). Over an ordered field with a genuine square root
(`0 ≤ x → 0 ≤ sqrt x ∧ sqrt x * sqrt x = x`): every increment `s (i+1) - s i` is the non-negative number
whose square is `Δx² + Δy²` (the planimetric distance of the two fixes), the abscissa never decreases,
and its last value is the planimetric length of the track (the sum of all legs). -/
theorem abscurv_geometric (sqrt : α → α) (hs : SqrtSpec sqrt) (xy : List (α × α)) :
    (∀ i (h : i + 1 < xy.length),
        0 ≤ absc sqrt xy (i + 1) - absc sqrt xy i ∧
        (absc sqrt xy (i + 1) - absc sqrt xy i) * (absc sqrt xy (i + 1) - absc sqrt xy i)
          = ((xy[i + 1]'h).1 - (xy[i]'(Nat.lt_of_succ_lt h)).1) ^ 2 + ((xy[i + 1]'h).2 - (xy[i]'(Nat.lt_of_succ_lt h)).2) ^ 2)
    ∧ (∀ i j, i ≤ j → absc sqrt xy i ≤ absc sqrt xy j)
    ∧ (0 < xy.length → absc sqrt xy (xy.length - 1) = (legs sqrt xy).sum) := by
  refine ⟨fun i h => ?_, fun i j h => absc_mono sqrt hs xy h, absc_last sqrt xy⟩
  rw [absc_succ sqrt xy i h]
  obtain ⟨h0, h1⟩ := dist2D_spec sqrt hs (xy[i + 1]'h) (xy[i]'(Nat.lt_of_succ_lt h))
  have e : absc sqrt xy i + dist2D sqrt (xy[i + 1]'h) (xy[i]'(Nat.lt_of_succ_lt h)) - absc sqrt xy i
      = dist2D sqrt (xy[i + 1]'h) (xy[i]'(Nat.lt_of_succ_lt h)) := by ring
  rw [e]
  exact ⟨h0, by rw [h1]; ring⟩

end field

/-! ### non-vacuity -/

/-- the square-root contract is inhabited (by `Real.sqrt`) -/
example : SqrtSpec Real.sqrt := fun x hx => ⟨Real.sqrt_nonneg x, Real.mul_self_sqrt hx⟩

/-- a 4-fix track with a repeated position and a repeated timestamp satisfies the hypotheses of T1/T2 -/
def demo : Track Rat := { xy := [(0, 0), (3, 4), (3, 4), (6, 8)], ts := [0, 2, 2, 5], feats := [("w", [some 1, none, some 2, some 3])] }
example : demo.has "ds" = false ∧ demo.has "abs_curv" = false ∧ demo.has "speed" = false
    ∧ 2 ≤ demo.xy.length ∧ demo.ts.length = demo.xy.length := by decide
/-- with the exact square root on these legs the model returns 0,5,5,10 and 5/2, 5/2, 5/3, 5/3 -/
example : (computeAbsCurv (fun x => if x = 25 then 5 else 0) demo).2 = some [some 0, some 5, some 5, some 10] := by
  decide +kernel
example : (estimateSpeed (fun x => if x = 25 then 5 else if x = 100 then 10 else 0) demo).2
    = some [some (5 / 2), some (5 / 2), some (5 / 3), some (5 / 3)] := by
  decide +kernel
/-- the NaN rule: two fixes with the same timestamp -/
example : (estimateSpeed (fun x => if x = 25 then 5 else 0)
    ({ xy := [(0, 0), (3, 4)], ts := [7, 7], feats := [] } : Track Rat)).2 = some [none, none] := by
  decide +kernel

end TV.C17
