import TracklibVerif.Lemmas.Cinematics
import TracklibVerif.Lemmas.CinTabOpt
import TracklibVerif.Lemmas.CinTabATab
import TracklibVerif.Lemmas.CinTabWorld
import TracklibVerif.Lemmas.CinTabGeom
import TracklibVerif.Lemmas.CinCoords
import TracklibVerif.Lemmas.CinTabMore
import TracklibVerif.Lemmas.CinTabZone
import TracklibVerif.Lemmas.CinTabSt
import TracklibVerif.Lemmas.CinTabKOpt
import TracklibVerif.Lemmas.CinTabKErr
import Mathlib.Analysis.Real.Sqrt
/-! # C17 — curvilinear abscissa and speed features match their geometric definitions

Property theorems only (helper lemmas: `Lemmas/Cinematics.lean`; model: `Model/Cinematics.lean`).
`computeAbsCurv` / `estimateSpeed` are the models of `algo/cinematics.py computeAbsCurv / estimate_speed`
(with `analytics.ds`, `analytics.speed`, `Integrator.execute`, `ENUCoords.distance2DTo`). A feature value
`none` is NaN. All statements hold for tracks of any length.

Two layers. The first part states the properties on the list model (`Model/Cinematics.lean`: a track is a list of
positions, a list of times and an association list of columns). The second part ("on the feature table") states them
on the programs as the Python runs them — through the Track API, `Model/CinematicsTab.lean` — for EVERY
representation of the feature table that satisfies the laws `CinTab.Laws`, and shows that the specification table
of C01, C01's dict-and-rows table of a single track (`dict_rows_table_lawful`) and the world of observation objects
shared between tracks are such representations. On the world every observation object carries the eight fields of its
`ObsTime` (seven calendar fields and `zone`): no operation on features — the method `track.estimate_speed()` included,
`speed_method_is_function` — writes one of them (`positions_and_stamps_unchanged`) and none reads the zone
(`zone_not_read`): elapsed times are differences of clock readings.

Third part ("per coordinate class", model `Model/CinematicsCoords.lean`): the same Python run on tracks whose positions
are `ENUCoords`, `GeoCoords` or `ECEFCoords` — which `distance2DTo` each feature dispatches to, the statement for every
class that defines a planimetric distance, what the Geo distance is geometrically, and what happens on ECEF tracks.

Fourth part ("on the feature table, for every coordinate class", model `Model/CinematicsTabK.lean`): the dispatch of the
third part put behind the Track API as a KERNEL (`Obs.__check_call_geom1` + the class's `distance2DTo`), the programs
written once for any kernel, and the table theorems of the second part for every class that defines a planimetric
distance (`abscurv_table_class`, `speed_table_class`, `curvabs_table_class`, on shared observations
`abscurv_shared_class` / `speed_shared_class`), the exception path of ECEF tracks from the table laws
(`ecef_refused_table`), purity and zone-blindness for EVERY kernel (`positions_and_stamps_unchanged_class`,
`zone_not_read_class`). The ENU programs of the second part are instances of the generic ones by `rfl`
(`enu_programs_are_instances`). -/
namespace TV.C17
open TV.Cinematics
variable {α : Type}

section anyScalar
variable [Add α] [Sub α] [Mul α] [Div α] [OfNat α 0] [BEq α]

/-- T1. On a track without `ds` / `abs_curv` features, `computeAbsCurv` returns the column
`[s 0, …, s (n-1)]` (no NaN) where `s = absc` satisfies `s 0 = 0` and
`s (i+1) = s i + distance2D(P[i+1], P[i])`: the abscissa starts at 0 and grows between consecutive
fixes by exactly their planimetric distance. Holds over any scalar type and any `sqrt` — in
particular for the `Float` operations, in the order Python performs them. -/
theorem abscurv_prefix (sqrt : α → α) (t : Track α)
    (hds : t.has "ds" = false) (hac : t.has "abs_curv" = false) :
    (computeAbsCurv sqrt t).2 = some ((List.range t.xy.length).map (fun i => some (absc sqrt t.xy i)))
    ∧ absc sqrt t.xy 0 = 0
    ∧ ∀ i (h : i + 1 < t.xy.length),
        absc sqrt t.xy (i + 1) = absc sqrt t.xy i + dist2D sqrt (t.xy[i + 1]'h) (t.xy[i]'(Nat.lt_of_succ_lt h)) := by
  refine ⟨?_, rfl, fun i h => absc_succ sqrt t.xy i h⟩
  rw [computeAbsCurv_fresh sqrt t hds hac, integrator_dsCol]

/-- T2. On a track of `n ≥ 2` fixes without a `speed` feature, `estimate_speed` returns a column `v`
of length `n` with
* `v[0]`   = speed between fixes 1 and 0,
* `v[n-1]` = speed between fixes n-1 and n-2,
* `v[i]`   = speed between fixes i+1 and i-1 for `0 < i < n-1`,
where the speed between a later fix `a` and an earlier fix `b` is NaN (`none`) when the elapsed time
`ts[a] - ts[b]` is zero and otherwise `distance2D(P[a], P[b]) / (ts[a] - ts[b])`. -/
theorem speed_def [LawfulBEq α] (sqrt : α → α) (t : Track α) (hsp : t.has "speed" = false)
    (hn : 2 ≤ t.xy.length) (hts : t.ts.length = t.xy.length) :
    ∃ v : Col α, (estimateSpeed sqrt t).2 = some v ∧ v.length = t.xy.length ∧
      ∀ (i a b : Nat) (hi : i < t.xy.length),
        ((i = 0 ∧ a = 1 ∧ b = 0) ∨ (i = t.xy.length - 1 ∧ a = t.xy.length - 1 ∧ b = t.xy.length - 2)
          ∨ (0 < i ∧ i < t.xy.length - 1 ∧ a = i + 1 ∧ b = i - 1)) →
        ∀ (ha : a < t.xy.length) (hb : b < t.xy.length),
          (t.ts[a]'(hts ▸ ha) - t.ts[b]'(hts ▸ hb) = 0 → v[i]? = some none) ∧
          (t.ts[a]'(hts ▸ ha) - t.ts[b]'(hts ▸ hb) ≠ 0 →
            v[i]? = some (some (dist2D sqrt t.xy[a] t.xy[b] / (t.ts[a]'(hts ▸ ha) - t.ts[b]'(hts ▸ hb))))) := by
  refine ⟨speedCol sqrt t.xy t.ts, ?_, by simp [speedCol], ?_⟩
  · rw [estimateSpeed_fresh sqrt t hsp]
  · intro i a b hi hcase ha hb
    have ha' : a < t.ts.length := hts ▸ ha
    have hb' : b < t.ts.length := hts ▸ hb
    have key : speedAt sqrt t.xy t.ts i = quot (dist2D sqrt t.xy[a] t.xy[b]) (t.ts[a] - t.ts[b]) := by
      rw [← speedBetween_eq sqrt t.xy t.ts a b ha hb ha' hb']
      unfold speedAt
      rcases hcase with ⟨h0, h1, h2⟩ | ⟨h0, h1, h2⟩ | ⟨h0, h1, h2, h3⟩
      · subst h0 h1 h2; simp
      · subst h1 h2
        have hz : ¬ (t.xy.length - 1 = 0) := by omega
        subst h0
        simp [hz]
      · subst h2 h3
        have hz : i ≠ 0 := by omega
        have hl : i ≠ t.xy.length - 1 := by omega
        simp [hz, hl]
    rw [speedCol_getElem? sqrt t.xy t.ts i hi, key]
    exact ⟨fun h => by rw [quot_zero _ _ h], fun h => by rw [quot_ne _ _ h]⟩

/-- T3a. Computing either feature leaves positions, timestamps and every other feature untouched
(only `abs_curv` — and the temporary `ds` — resp. `speed` are written). -/
theorem pure (sqrt : α → α) (t : Track α) :
    ((computeAbsCurv sqrt t).1.xy = t.xy ∧ (computeAbsCurv sqrt t).1.ts = t.ts
      ∧ ∀ m, m ≠ "ds" → m ≠ "abs_curv" → (computeAbsCurv sqrt t).1.get m = t.get m)
    ∧ ((estimateSpeed sqrt t).1.xy = t.xy ∧ (estimateSpeed sqrt t).1.ts = t.ts
      ∧ ∀ m, m ≠ "speed" → (estimateSpeed sqrt t).1.get m = t.get m) :=
  ⟨⟨(computeAbsCurv_frame sqrt t).1, (computeAbsCurv_frame sqrt t).2, computeAbsCurv_get_other sqrt t⟩,
   ⟨(estimateSpeed_frame sqrt t).1, (estimateSpeed_frame sqrt t).2, estimateSpeed_get_other sqrt t⟩⟩

/-- T3b. Recomputation is idempotent, for every track (whatever features it had): calling the function
again on the resulting track returns the same column and leaves that track exactly as it was; after
`computeAbsCurv` the track has `abs_curv` and no `ds`. -/
theorem idempotent (sqrt : α → α) (t : Track α) :
    computeAbsCurv sqrt (computeAbsCurv sqrt t).1 = computeAbsCurv sqrt t
    ∧ estimateSpeed sqrt (estimateSpeed sqrt t).1 = estimateSpeed sqrt t
    ∧ (computeAbsCurv sqrt t).1.has "ds" = false ∧ (computeAbsCurv sqrt t).1.has "abs_curv" = true
    ∧ (estimateSpeed sqrt t).1.has "speed" = true :=
  ⟨computeAbsCurv_idem sqrt t, estimateSpeed_idem sqrt t, (computeAbsCurv_has sqrt t).1,
   (computeAbsCurv_has sqrt t).2, estimateSpeed_has sqrt t⟩

/-- T3c. On a track without `ds` / `abs_curv` (resp. `speed`) the only change to the feature table is one
appended column, `abs_curv` (resp. `speed`): the temporary `ds` is gone. -/
theorem only_adds (sqrt : α → α) (t : Track α) :
    (t.has "ds" = false → t.has "abs_curv" = false →
      (computeAbsCurv sqrt t).1.feats
        = t.feats ++ [("abs_curv", (List.range t.xy.length).map (fun i => some (absc sqrt t.xy i)))])
    ∧ (t.has "speed" = false →
      (estimateSpeed sqrt t).1.feats = t.feats ++ [("speed", speedCol sqrt t.xy t.ts)]) := by
  constructor
  · intro hds hac
    rw [computeAbsCurv_fresh sqrt t hds hac, integrator_dsCol]
    simp [Track.set, hac]
  · intro hsp
    rw [estimateSpeed_fresh sqrt t hsp]
    simp [Track.set, hsp]

end anyScalar

section field
variable [Field α] [LinearOrder α] [IsStrictOrderedRing α]

/-- T1 (geometric reading). Over an ordered field with a genuine square root
(`0 ≤ x → 0 ≤ sqrt x ∧ sqrt x * sqrt x = x`): every increment `s (i+1) - s i` is the non-negative number
whose square is `Δx² + Δy²` (the planimetric distance of the two fixes), the abscissa never decreases,
and its last value is the planimetric length of the track (the sum of all legs). -/
theorem abscurv_geometric (sqrt : α → α) (hs : SqrtSpec sqrt) (xy : List (α × α)) :
    (∀ i (h : i + 1 < xy.length),
        0 ≤ absc sqrt xy (i + 1) - absc sqrt xy i ∧
        (absc sqrt xy (i + 1) - absc sqrt xy i) * (absc sqrt xy (i + 1) - absc sqrt xy i)
          = ((xy[i + 1]'h).1 - (xy[i]'(Nat.lt_of_succ_lt h)).1) ^ 2 + ((xy[i + 1]'h).2 - (xy[i]'(Nat.lt_of_succ_lt h)).2) ^ 2)
    ∧ (∀ i j, i ≤ j → absc sqrt xy i ≤ absc sqrt xy j)
    ∧ (0 < xy.length → absc sqrt xy (xy.length - 1) = (legs sqrt xy).sum) := by
  refine ⟨fun i h => ?_, fun i j h => absc_mono sqrt hs xy h, absc_last sqrt xy⟩
  rw [absc_succ sqrt xy i h]
  obtain ⟨h0, h1⟩ := dist2D_spec sqrt hs (xy[i + 1]'h) (xy[i]'(Nat.lt_of_succ_lt h))
  have e : absc sqrt xy i + dist2D sqrt (xy[i + 1]'h) (xy[i]'(Nat.lt_of_succ_lt h)) - absc sqrt xy i
      = dist2D sqrt (xy[i + 1]'h) (xy[i]'(Nat.lt_of_succ_lt h)) := by ring
  rw [e]
  exact ⟨h0, by rw [h1]; ring⟩

end field

section rounded
variable [Add α] [Sub α] [Mul α] [OfNat α 0] [Preorder α]

/-- T1, "never decreases", WITHOUT exact arithmetic. Let the scalars carry any preorder, and assume only
* `0 ≤ sqrt x` for every `x`, and
* `a ≤ a + d` whenever `0 ≤ d` (adding a non-negative number does not decrease — true of every correctly rounded
  floating-point addition, because rounding is monotone and `a` is representable).
Then the abscissa `s = absc` never decreases: `i ≤ j → s i ≤ s j`. No commutativity, associativity or exactness of
`+`, `-`, `*`, `sqrt` is used, so the statement applies to IEEE doubles with the operations in Python's order (the two
assumptions are facts about IEEE-754, taken as hypotheses here). -/
theorem abscurv_monotone_rounded (sqrt : α → α) (hsqrt : ∀ x, 0 ≤ sqrt x) (hadd : ∀ a d : α, 0 ≤ d → a ≤ a + d)
    (xy : List (α × α)) : ∀ i j, i ≤ j → absc sqrt xy i ≤ absc sqrt xy j := by
  have step : ∀ i, absc sqrt xy i ≤ absc sqrt xy (i + 1) := by
    intro i
    show absc sqrt xy i ≤ absc sqrt xy i + _
    apply hadd
    cases xy[i + 1]? with
    | none => exact le_refl _
    | some p =>
      cases xy[i]? with
      | none => exact le_refl _
      | some q => exact hsqrt _
  intro i j hij
  induction hij with
  | refl => exact le_refl _
  | step _ ih => exact le_trans ih (step _)

end rounded

/-! ## on the feature table -/

section table
open TV.Features TV.CinTab
variable [Add α] [Sub α] [Mul α] [Div α] [OfNat α 0] [BEq α] [LE α] [DecidableLE α]
variable {σ : Type} [Tbl σ (Option α)]
variable {I : σ → Prop} {n : σ → Nat} {rd : σ → String → Option (List (Option α))} {co : σ → Coord → List (Option α)}

/-- T1 on the table. Let a feature table satisfy the laws (`L`), hold `xy.length ≥ 1` fixes at the finite positions
`xy`, and list neither `ds` nor `abs_curv`. Then `computeAbsCurv` — `addAnalyticalFeature(ds, "ds")`,
`operate(INTEGRATOR, "ds", "abs_curv")`, `removeAnalyticalFeature("ds")`, `getAnalyticalFeature("abs_curv")`, all
through the Track API — terminates without an exception and
* returns `[s 0, …, s (n-1)]`, `s = absc` (so `s 0 = 0`, `s (i+1) = s i + distance2D(P[i+1], P[i])`: `abscurv_prefix`,
  `abscurv_geometric`), computed from the positions the table holds NOW;
* `abs_curv` reads exactly that column afterwards, `ds` is not listed, every other name reads what it read before;
* the coordinate and time columns, the number of fixes and the representation invariant are unchanged.
Any scalar type, any `sqrt`. -/
theorem abscurv_table (L : Laws I n rd co) (sqrt : α → α) (ofNat : Nat → α) (isNaN : α → Bool) (xy : List (α × α)) (s : σ)
    (hI : I s) (hn : n s = xy.length) (hpos : 0 < xy.length) (hx : co s .x = xsOf xy) (hy : co s .y = ysOf xy)
    (hds : rd s "ds" = none) (hac : rd s "abs_curv" = none) :
    ∃ s', (computeAbsCurvT (optG sqrt ofNat isNaN) : M σ _) s
        = (.ok ((List.range xy.length).map (fun i => some (absc sqrt xy i))), s')
      ∧ I s' ∧ n s' = n s ∧ co s' = co s
      ∧ rd s' "abs_curv" = some ((List.range xy.length).map (fun i => some (absc sqrt xy i)))
      ∧ ∀ m, m ≠ "abs_curv" → rd s' m = rd s m := by
  obtain ⟨r, s', e, hr, hI', hn', hco', hrd', hoth⟩ :=
    computeAbsCurvT_fresh L (optG sqrt ofNat isNaN) xy.length hpos (co s) (rd s) hds hac s ⟨hI, hn, rfl, fun _ => rfl⟩
  have hcol : r = (List.range xy.length).map (fun i => some (absc sqrt xy i)) := by
    rw [hr, hx, hy, dsCol_opt, integG_opt, integrator_dsCol]
  rw [hcol] at e hrd'
  exact ⟨s', e, hI', by rw [hn', hn], hco', hrd', hoth⟩

/-- T3 on the table (repetition). On a table that lists `abs_curv` (and no `ds`), `computeAbsCurv` returns the listed
column as it is and every name, the coordinates and the times read afterwards what they read before — the temporary
`ds` is created from the current positions and removed again. In particular a second `computeAbsCurv` right after the
first returns the same column. -/
theorem abscurv_table_again (L : Laws I n rd co) (sqrt : α → α) (ofNat : Nat → α) (isNaN : α → Bool) (s : σ)
    (hI : I s) (hpos : 0 < n s) (hds : rd s "ds" = none) (col : List (Option α)) (hac : rd s "abs_curv" = some col) :
    ∃ s', (computeAbsCurvT (optG sqrt ofNat isNaN) : M σ _) s = (.ok col, s')
      ∧ I s' ∧ n s' = n s ∧ co s' = co s ∧ ∀ m, rd s' m = rd s m := by
  obtain ⟨r, s', e, hr, hI', hn', hco', hoth⟩ :=
    computeAbsCurvT_again L (optG sqrt ofNat isNaN) (n s) hpos (co s) (rd s) hds col hac s ⟨hI, rfl, rfl, fun _ => rfl⟩
  rw [hr] at e
  exact ⟨s', e, hI', hn', hco', hoth⟩

/-- T2 on the table. On a lawful table of `n ≥ 2` fixes at the finite positions `xy` and finite times `ts` that does
not list `speed`, `estimate_speed` (= `addAnalyticalFeature(speed)`) terminates without an exception, returns the
column `speedCol sqrt xy ts` of the CURRENT positions and times — entry by entry the one-sided / centred quotient or
NaN of `speedCol_def` —, `speed` reads exactly that column afterwards, every other name, the coordinates, the times and
the invariant are unchanged. -/
theorem speed_table (L : Laws I n rd co) (sqrt : α → α) (ofNat : Nat → α) (isNaN : α → Bool) (xy : List (α × α)) (ts : List α)
    (s : σ) (hI : I s) (hn : n s = xy.length) (h2 : 2 ≤ xy.length) (hx : co s .x = xsOf xy) (hy : co s .y = ysOf xy)
    (ht : co s .t = tsOf ts) (hsp : rd s "speed" = none) :
    ∃ s', (estimateSpeedT (optG sqrt ofNat isNaN) : M σ _) s = (.ok (speedCol sqrt xy ts), s')
      ∧ I s' ∧ n s' = n s ∧ co s' = co s ∧ rd s' "speed" = some (speedCol sqrt xy ts)
      ∧ ∀ m, m ≠ "speed" → rd s' m = rd s m := by
  obtain ⟨r, s', e, hr, hI', hn', hco', hrd', hoth⟩ :=
    estimateSpeedT_fresh L (optG sqrt ofNat isNaN) xy.length h2 (co s) (rd s) hsp s ⟨hI, hn, rfl, fun _ => rfl⟩
  have hcol : r = speedCol sqrt xy ts := by rw [hr, hx, hy, ht, speedCol_opt]
  rw [hcol] at e hrd'
  exact ⟨s', e, hI', by rw [hn', hn], hco', hrd', hoth⟩

/-- T3 on the table (repetition). On a table that lists `speed`, `estimate_speed` returns the listed column and does
not change the state at all. -/
theorem speed_table_again (L : Laws I n rd co) (sqrt : α → α) (ofNat : Nat → α) (isNaN : α → Bool) (s : σ) (hI : I s)
    (col : List (Option α)) (hsp : rd s "speed" = some col) :
    (estimateSpeedT (optG sqrt ofNat isNaN) : M σ _) s = (.ok col, s) :=
  estimateSpeedT_again L (optG sqrt ofNat isNaN) s hI col hsp

end table

section speedcol
variable [Add α] [Sub α] [Mul α] [Div α] [OfNat α 0] [BEq α] [LawfulBEq α]
open TV.CinTab

/-- The entries of the speed column (what `speed_table` returns), for `n ≥ 2` fixes: `v[0]` from fixes (1,0), `v[n-1]`
from fixes (n-1,n-2), `v[i]` from fixes (i+1,i-1) otherwise; NaN exactly when the elapsed time is zero, else planimetric
distance over elapsed time. -/
theorem speedCol_def (sqrt : α → α) (xy : List (α × α)) (ts : List α) (hn : 2 ≤ xy.length) (hts : ts.length = xy.length) :
    (speedCol sqrt xy ts).length = xy.length ∧
    ∀ (i a b : Nat) (_hi : i < xy.length),
      ((i = 0 ∧ a = 1 ∧ b = 0) ∨ (i = xy.length - 1 ∧ a = xy.length - 1 ∧ b = xy.length - 2)
        ∨ (0 < i ∧ i < xy.length - 1 ∧ a = i + 1 ∧ b = i - 1)) →
      ∀ (ha : a < xy.length) (hb : b < xy.length),
        (ts[a]'(hts ▸ ha) - ts[b]'(hts ▸ hb) = 0 → (speedCol sqrt xy ts)[i]? = some none) ∧
        (ts[a]'(hts ▸ ha) - ts[b]'(hts ▸ hb) ≠ 0 →
          (speedCol sqrt xy ts)[i]? = some (some (dist2D sqrt xy[a] xy[b] / (ts[a]'(hts ▸ ha) - ts[b]'(hts ▸ hb))))) := by
  refine ⟨by simp [speedCol], ?_⟩
  intro i a b hi hcase ha hb
  have ha' : a < ts.length := hts ▸ ha
  have hb' : b < ts.length := hts ▸ hb
  have key : speedAt sqrt xy ts i = quot (dist2D sqrt xy[a] xy[b]) (ts[a] - ts[b]) := by
    rw [← speedBetween_eq sqrt xy ts a b ha hb ha' hb']
    unfold speedAt
    rcases hcase with ⟨h0, h1, h2⟩ | ⟨h0, h1, h2⟩ | ⟨h0, h1, h2, h3⟩
    · subst h0 h1 h2; simp
    · subst h1 h2
      have hz : ¬ (xy.length - 1 = 0) := by omega
      subst h0
      simp [hz]
    · subst h2 h3
      have hz : i ≠ 0 := by omega
      have hl : i ≠ xy.length - 1 := by omega
      simp [hz, hl]
  rw [speedCol_getElem? sqrt xy ts i hi, key]
  exact ⟨fun h => by rw [quot_zero _ _ h], fun h => by rw [quot_ne _ _ h]⟩

end speedcol

section representations
open TV.Features TV.CinTab

/-- The specification table of C01 (`Features.ATab`: name ↦ column, coordinate columns) satisfies the laws of a
feature table; so `abscurv_table`, `speed_table`, … hold on it (and, through C01's simulation theorems, on the
dict-and-rows table `Features.St` of a single track). -/
theorem spec_table_lawful {V : Type} [Inhabited V] : Laws (σ := ATab V) (V := V) aI ATab.size aRd ATab.coord := laws_ATab

/-- The dict-and-rows table of a single track (`Features.St`, C01's concrete model: `__analyticalFeaturesDico` as a
name → index list, one `features` row per observation) satisfies the laws of a feature table under C01's alignment
invariant `Features.Inv` (the dict enumerates distinct names, every row carries exactly one value per listed name, the
coordinate columns have one value per observation); a name reads the column of the index the dict designates. Each law
is carried over from the specification table by C01's simulation lemma of the primitive. Hence `abscurv_table`,
`speed_table`, `curvabs_table`, `length_table`, … hold on the table as Python lays it out. -/
theorem dict_rows_table_lawful {V : Type} [Inhabited V] : Laws (σ := St V) (V := V) sI sN sRd St.coord := laws_St

/-- **Shared observations.** The world of observation OBJECTS referenced by several tracks (`+`, extract, slicing share
them; each object carries one `features` list, each track its own name → index dict) satisfies the laws of a feature
table for the track in focus, under `WInv`: its references are distinct and valid, its dict enumerates distinct names
with distinct indices below its length, and every one of its objects carries AT LEAST as many slots as the dict lists —
objects that went through another track's computations carry more. `createAnalyticalFeature` appends a slot and
registers index `len(dico)`; reads, writes and deletions go through `features[dico[name]]`. Hence every table
theorem holds for a track whose observations are shared. -/
theorem shared_world_lawful {V : Type} [Inhabited V] [AbsTime V] : Laws (σ := World V) (V := V) WInv wN wRd wCo := laws_World

variable [Add α] [Sub α] [Mul α] [Div α] [OfNat α 0] [BEq α] [LE α] [DecidableLE α] [IntCast α]

/-- T1 for a track whose observations are shared with other tracks, as a statement about one operation of a history
(`stepW`, what the driver runs): if track `k` of the world satisfies `WInv`, holds `≥ 1` fixes at the finite positions
`xy` and lists neither `ds` nor `abs_curv`, then `computeAbsCurv(track k)` returns `[absc 0, …]` of the CURRENT
positions, track `k` reads it under `abs_curv` afterwards and reads every other name as before — whatever extra slots
its observation objects carry from computations made on other tracks. -/
theorem abscurv_shared (sqrt : α → α) (ofNat : Nat → α) (isNaN : α → Bool) (w : World (Option α)) (k : Nat)
    (xy : List (α × α)) (hw : WInv { w with cur := k }) (hn : wN { w with cur := k } = xy.length) (hpos : 0 < xy.length)
    (hx : wCo { w with cur := k } .x = xsOf xy) (hy : wCo { w with cur := k } .y = ysOf xy)
    (hds : wRd { w with cur := k } "ds" = none) (hac : wRd { w with cur := k } "abs_curv" = none) :
    ∃ w', stepW (optG sqrt ofNat isNaN) (.absCurv k) w
        = (.ok (.col ((List.range xy.length).map (fun i => some (absc sqrt xy i)))), w')
      ∧ WInv w' ∧ wCo w' = wCo { w with cur := k }
      ∧ wRd w' "abs_curv" = some ((List.range xy.length).map (fun i => some (absc sqrt xy i)))
      ∧ ∀ m, m ≠ "abs_curv" → wRd w' m = wRd { w with cur := k } m := by
  obtain ⟨w', e, hI', _, hco', hrd', hoth⟩ :=
    abscurv_table laws_World sqrt ofNat isNaN xy { w with cur := k } hw hn hpos hx hy hds hac
  refine ⟨w', ?_, hI', hco', hrd', hoth⟩
  have hk : ¬ (k ≥ w.trks.length) := Nat.not_le.mpr hw.cur
  unfold stepW
  simp only [WOp.track, hk, if_false, e]
  rfl

/-- T2 for a track whose observations are shared: `estimate_speed(track k)` on a track of `≥ 2` fixes that does not list
`speed` returns the speed column of the CURRENT positions and of the absolute times computed from the CURRENT timestamp
fields (`ts`), and track `k` reads it under `speed` afterwards. -/
theorem speed_shared (sqrt : α → α) (ofNat : Nat → α) (isNaN : α → Bool) (w : World (Option α)) (k : Nat)
    (xy : List (α × α)) (ts : List α) (hw : WInv { w with cur := k }) (hn : wN { w with cur := k } = xy.length)
    (h2 : 2 ≤ xy.length) (hx : wCo { w with cur := k } .x = xsOf xy) (hy : wCo { w with cur := k } .y = ysOf xy)
    (ht : wCo { w with cur := k } .t = tsOf ts) (hsp : wRd { w with cur := k } "speed" = none) :
    ∃ w', stepW (optG sqrt ofNat isNaN) (.speed k) w = (.ok (.col (speedCol sqrt xy ts)), w')
      ∧ WInv w' ∧ wCo w' = wCo { w with cur := k } ∧ wRd w' "speed" = some (speedCol sqrt xy ts)
      ∧ ∀ m, m ≠ "speed" → wRd w' m = wRd { w with cur := k } m := by
  obtain ⟨w', e, hI', _, hco', hrd', hoth⟩ :=
    speed_table laws_World sqrt ofNat isNaN xy ts { w with cur := k } hw hn h2 hx hy ht hsp
  refine ⟨w', ?_, hI', hco', hrd', hoth⟩
  have hk : ¬ (k ≥ w.trks.length) := Nat.not_le.mpr hw.cur
  unfold stepW
  simp only [WOp.track, hk, if_false, e]
  rfl

/-- **Purity, for every observation of every track.** Whatever the world looks like — aligned or not, whatever the
tracks share — and also when the operation ends in an exception: after computing, reading, removing or writing
features through any entry point (`computeAbsCurv`, `estimate_speed`, `addAnalyticalFeature(speed | ds)`,
`operate(INTEGRATOR | DIFFERENTIATOR)`, `length`, `computeCurvAbsBetweenTwoPoints`, reads, `removeAnalyticalFeature`,
`track[name] = list`, `isSorted`, `duration`, `getT`, and the METHOD `track.estimate_speed()`) the position and the stamp
— the seven calendar fields and the `zone` field (`geom` lists `(x, y, z, t, zone)` per object) — of EVERY observation
object and the reference list of EVERY track are what they were. -/
theorem positions_and_stamps_unchanged {V : Type} [AbsTime V] (g : GOps V) (op : WOp V) (hop : op.onFeatures = true) (w : World V) :
    geom (stepW g op w).2 = geom w ∧ (stepW g op w).2.trks.map (·.ids) = w.trks.map (·.ids) :=
  stepW_frame g op hop w

/-- `Track.estimate_speed()` — the method of core/track.py, called without a kernel — is `estimate_speed(track)` of
algo/cinematics.py: same result, same final world, on every world. With `positions_and_stamps_unchanged` (the method is an
operation on features): it rewrites no stamp, whatever zones the stamps of the track carry. -/
theorem speed_method_is_function {V : Type} [AbsTime V] (g : GOps V) (k : Nat) (w : World V) :
    stepW g (.speedMethod k) w = stepW g (.speed k) w := rfl

/-- **No feature operation reads the zone of a stamp.** For every operation on features (`computeAbsCurv`,
`estimate_speed` as a function and as a method, `addAnalyticalFeature(speed | ds)`, `operate`, `length`,
`computeCurvAbsBetweenTwoPoints`, reads, `isSorted`, `duration`, `getT`, …), every world and every rewriting `f` of the
zone fields of the stamps: on the rewritten world the operation returns the same value (or raises the same exception) and
ends in the rewritten final world. So "the time elapsed between" two fixes that `speed` divides by is a function of the
seven calendar fields of their stamps (the difference of the clock readings), whatever zones the stamps carry. -/
theorem zone_not_read {V : Type} [AbsTime V] (g : GOps V) (op : WOp V) (hop : op.onFeatures = true) (f : Int → Int) (w : World V) :
    stepW g op (w.zmap f) = ((stepW g op w).1, (stepW g op w).2.zmap f) :=
  stepW_blind g op hop f w

/-- Corollary: two worlds that differ in the zone fields only (they agree once every zone is set to 0) give the same
result of every operation on features, and final worlds that again differ in the zones only. -/
theorem same_result_whatever_zones {V : Type} [AbsTime V] (g : GOps V) (op : WOp V) (hop : op.onFeatures = true) (w w' : World V)
    (h : w.zmap (fun _ => 0) = w'.zmap (fun _ => 0)) :
    (stepW g op w).1 = (stepW g op w').1 ∧ (stepW g op w).2.zmap (fun _ => 0) = (stepW g op w').2.zmap (fun _ => 0) := by
  have e1 := zone_not_read g op hop (fun _ => 0) w
  have e2 := zone_not_read g op hop (fun _ => 0) w'
  rw [h] at e1
  rw [e1] at e2
  exact ⟨(Prod.mk.inj e2).1, (Prod.mk.inj e2).2⟩

end representations

section otherEntry
open TV.Features TV.CinTab
variable [Field α] [LinearOrder α] [IsStrictOrderedRing α]
variable {σ : Type} [Tbl σ (Option α)]
variable {I : σ → Prop} {n : σ → Nat} {rd : σ → String → Option (List (Option α))} {co : σ → Coord → List (Option α)}

/-- Another entry point of "the planimetric length of the track": `computeCurvAbsBetweenTwoPoints(track)` on a lawful
table holding `≥ 1` fixes at the finite positions `xy` only reads, and (in exact arithmetic: it subtracts the
coordinates in the other order than `ds`) returns `absc (n-1)` — the value `abs_curv` ends at, the sum of the legs
(`abscurv_geometric`). -/
theorem curvabs_table (L : Laws I n rd co) (sqrt : α → α) (ofNat : Nat → α) (isNaN : α → Bool) (xy : List (α × α)) (s : σ)
    (hI : I s) (hn : n s = xy.length) (hpos : 0 < xy.length) (hx : co s .x = xsOf xy) (hy : co s .y = ysOf xy) :
    (curvAbsT (optG sqrt ofNat isNaN) : M σ _) s = (.ok (some (absc sqrt xy (xy.length - 1))), s) := by
  rw [curvAbsT_read L (optG sqrt ofNat isNaN) s hI, hx, hy, hn, curvF_absc sqrt ofNat isNaN xy _ (by omega)]

end otherEntry

section readEntry
open TV.Features TV.CinTab
variable [Add α] [Sub α] [Mul α] [Div α] [OfNat α 0] [BEq α] [LE α] [DecidableLE α]
variable {σ : Type} [Tbl σ (Option α)]
variable {I : σ → Prop} {n : σ → Nat} {rd : σ → String → Option (List (Option α))} {co : σ → Coord → List (Option α)}

/-- The VALUE of `Track.length()` on a lawful table holding `≥ 1` fixes at the finite positions `(xy, zs)`: the call only
reads and returns `len3D (n-1)`, where `len3D 0 = 0` and `len3D (k+1) = len3D k + sqrt(dx² + dy² + dz²)` of
`P[k+1] - P[k]` — the 3D legs accumulated in Python's order. Any scalar type, any `sqrt`. (On a track of constant height
every leg is the planimetric one.) -/
theorem length_table (L : Laws I n rd co) (sqrt : α → α) (ofNat : Nat → α) (isNaN : α → Bool) (xy : List (α × α)) (zs : List α)
    (s : σ) (hI : I s) (hn : n s = xy.length) (hpos : 0 < xy.length) (hzl : zs.length = xy.length)
    (hx : co s .x = xsOf xy) (hy : co s .y = ysOf xy) (hz : co s .z = zsOf zs) :
    (lengthT (optG sqrt ofNat isNaN) : M σ _) s = (.ok (some (len3D sqrt xy zs (xy.length - 1))), s) := by
  rw [lengthT_read L (optG sqrt ofNat isNaN) s hI, hx, hy, hz, hn, lenF_opt sqrt ofNat isNaN xy zs hzl _ (by omega)]

/-- The VALUE of `Track.duration()` on a lawful table holding `≥ 1` fixes at the finite times `ts` (absolute times of
the CURRENT timestamp fields): the call only reads and returns `ts[n-1] - ts[0]`. -/
theorem duration_table (L : Laws I n rd co) (sqrt : α → α) (ofNat : Nat → α) (isNaN : α → Bool) (ts : List α)
    (s : σ) (hI : I s) (hn : n s = ts.length) (hpos : 0 < ts.length) (ht : co s .t = tsOf ts) :
    (durationT (optG sqrt ofNat isNaN) : M σ _) s = (.ok (some (ts[ts.length - 1]'(by omega) - ts[0]'hpos)), s) := by
  rw [durationT_read L (optG sqrt ofNat isNaN) s hI (by omega), ht, hn, durF_opt sqrt ofNat isNaN ts hpos]

/-- The VALUE of `Track.isSorted()` on a lawful table holding `≥ 1` fixes at the finite times `ts`: the call only reads
and returns `true` exactly when no consecutive difference `ts[i+1] - ts[i]` is `≤ 0` — STRICTLY increasing times; two
fixes with the same timestamp make a track "not sorted" (noted: the statement of C17 allows repeated timestamps). -/
theorem sorted_table (L : Laws I n rd co) (sqrt : α → α) (ofNat : Nat → α) (isNaN : α → Bool) (ts : List α)
    (s : σ) (hI : I s) (hn : n s = ts.length) (hpos : 0 < ts.length) (ht : co s .t = tsOf ts) :
    ∃ b, (isSortedT (optG sqrt ofNat isNaN) : M σ _) s = (.ok b, s)
      ∧ (b = true ↔ ∀ i (h : i + 1 < ts.length), ¬ (ts[i + 1]'h - ts[i]'(Nat.lt_of_succ_lt h) ≤ 0)) := by
  refine ⟨_, isSortedT_read L (optG sqrt ofNat isNaN) s hI, ?_⟩
  rw [ht, hn, sortedF_opt sqrt ofNat isNaN ts (ts.length - 1) (by omega)]
  constructor
  · intro h i hi; exact h i (by omega)
  · intro h i hi; exact h i (by omega)

end readEntry

/-! ## per coordinate class -/

section coordsAny
open TV.CinCoords
open TV.Geo (Trig V3 geoToEnu)
variable [Add α] [Sub α] [Mul α] [Div α] [Neg α] [OfScientific α] [OfNat α 0] [BEq α]

/-- **Which distance the features use, class by class.** `Obs.distance2DTo` (the path of `ds`, hence of `abs_curv`) and
`position.distance2DTo` (the path of `speed` and of `computeCurvAbsBetweenTwoPoints`) give
* for `ENUCoords` the Euclidean distance of the (E, N) pairs — the `dist2D` of the first two parts;
* for `GeoCoords` `norm2D` of `self.toENUCoords(point)`: East / North components of `self` in the local frame at `point`;
* for `ECEFCoords` an exception: the refusal of `Obs.__check_call_geom1`, resp. `AttributeError` (no such method). -/
theorem class_distance (T : Trig α) (p q : V3 α) :
    obsDist2D T .enu p q = .ok (dist2D T.sqrt (p.x, p.y) (q.x, q.y))
    ∧ posDist2D T .enu p q = .ok (dist2D T.sqrt (p.x, p.y) (q.x, q.y))
    ∧ obsDist2D T .geo p q = .ok (norm2DP T (geoToEnu T p (.geo q)))
    ∧ posDist2D T .geo p q = .ok (norm2DP T (geoToEnu T p (.geo q)))
    ∧ obsDist2D T .ecef p q = .error .refused
    ∧ posDist2D T .ecef p q = .error .attr := ⟨rfl, rfl, rfl, rfl, rfl, rfl⟩

/-- **The ENU class is the model of the first part.** On a track of `ENUCoords` the class-dispatching programs raise
nothing and are `computeAbsCurv` / `estimateSpeed` of `Model/Cinematics.lean` (the third coordinates are not read), so
every theorem of the first part is a theorem about them. -/
theorem enu_class_is_cinematics (T : Trig α) (zs : List α) (tr : Track α) (hz : zs.length = tr.xy.length) :
    computeAbsCurvC T ⟨.enu, zs, tr⟩ = (.ok (computeAbsCurv T.sqrt tr).2, ⟨.enu, zs, (computeAbsCurv T.sqrt tr).1⟩)
    ∧ estimateSpeedC T ⟨.enu, zs, tr⟩ = (.ok (estimateSpeed T.sqrt tr).2, ⟨.enu, zs, (estimateSpeed T.sqrt tr).1⟩) :=
  ⟨computeAbsCurvC_enu T zs tr hz, estimateSpeedC_enu T zs tr hz⟩

/-- T1 for every class that defines a planimetric distance (ENU, Geo). On a track listing neither `ds` nor `abs_curv`,
`computeAbsCurv` raises nothing and returns `[s 0, …, s (n-1)]` (no NaN) with `s 0 = 0` and
`s (i+1) = s i + d(P[i+1], P[i])`, `d` being THE DISTANCE OF THE CLASS (`class_distance`; for Geo the frame is the one at
the earlier fix `P[i]`); `abs_curv` is stored, `ds` is gone, nothing else changes. Any scalar type — in particular
`Float` with the libm functions, in Python's order. -/
theorem abscurv_prefix_coords (T : Trig α) (t : CTrack α) (hc : t.cls ≠ .ecef) (hz : t.zs.length = t.tr.xy.length)
    (hds : t.tr.has "ds" = false) (hac : t.tr.has "abs_curv" = false) :
    computeAbsCurvC T t
      = (.ok (some ((List.range t.tr.xy.length).map (fun i => some (abscC T t i)))),
         { t with tr := t.tr.set "abs_curv" ((List.range t.tr.xy.length).map (fun i => some (abscC T t i))) })
    ∧ abscC T t 0 = 0
    ∧ ∀ i, i + 1 < t.tr.xy.length → ∃ p q, t.pt (i + 1) = some p ∧ t.pt i = some q
        ∧ abscC T t (i + 1) = abscC T t i + dist2C T t.cls p q := by
  refine ⟨computeAbsCurvC_fresh T t hc hz hds hac, rfl, fun i h => ?_⟩
  refine ⟨_, _, pt_of_lt t hz (i + 1) h, pt_of_lt t hz i (Nat.lt_of_succ_lt h), ?_⟩
  rw [abscC_succ]
  simp only [legC, Nat.add_sub_cancel, pt_of_lt t hz (i + 1) h, pt_of_lt t hz i (Nat.lt_of_succ_lt h)]

/-- T2 for every class that defines a planimetric distance. On a track of `n ≥ 2` fixes without a `speed` feature,
`estimate_speed` raises nothing and returns a column `v` of length `n` whose entry `i` is computed from the fixes
(1,0) / (n-1,n-2) / (i+1,i-1): NaN when the elapsed time is zero, otherwise `d(P[a], P[b]) / (ts[a] - ts[b])` with the
distance of the class (for Geo: in the frame at the earlier fix `P[b]`). -/
theorem speed_def_coords [LawfulBEq α] (T : Trig α) (t : CTrack α) (hc : t.cls ≠ .ecef) (hz : t.zs.length = t.tr.xy.length)
    (hsp : t.tr.has "speed" = false) (hn : 2 ≤ t.tr.xy.length) (hts : t.tr.ts.length = t.tr.xy.length) :
    ∃ v : Col α, (estimateSpeedC T t).1 = .ok (some v) ∧ v.length = t.tr.xy.length ∧
      ∀ (i a b : Nat), i < t.tr.xy.length →
        ((i = 0 ∧ a = 1 ∧ b = 0) ∨ (i = t.tr.xy.length - 1 ∧ a = t.tr.xy.length - 1 ∧ b = t.tr.xy.length - 2)
          ∨ (0 < i ∧ i < t.tr.xy.length - 1 ∧ a = i + 1 ∧ b = i - 1)) →
        ∀ (ha : a < t.tr.xy.length) (hb : b < t.tr.xy.length), ∃ pa pb, t.pt a = some pa ∧ t.pt b = some pb ∧
          (t.tr.ts[a]'(hts ▸ ha) - t.tr.ts[b]'(hts ▸ hb) = 0 → v[i]? = some none) ∧
          (t.tr.ts[a]'(hts ▸ ha) - t.tr.ts[b]'(hts ▸ hb) ≠ 0 →
            v[i]? = some (some (dist2C T t.cls pa pb / (t.tr.ts[a]'(hts ▸ ha) - t.tr.ts[b]'(hts ▸ hb))))) := by
  refine ⟨(List.range t.tr.xy.length).map (speedValC T t), ?_, by simp, ?_⟩
  · rw [estimateSpeedC_fresh T t hc hsp]
  · intro i a b hi hcase ha hb
    refine ⟨_, _, pt_of_lt t hz a ha, pt_of_lt t hz b hb, ?_⟩
    have key : speedValC T t i = quot (dist2C T t.cls ⟨(t.tr.xy[a]).1, (t.tr.xy[a]).2, t.zs[a]'(hz ▸ ha)⟩
        ⟨(t.tr.xy[b]).1, (t.tr.xy[b]).2, t.zs[b]'(hz ▸ hb)⟩) (t.tr.ts[a]'(hts ▸ ha) - t.tr.ts[b]'(hts ▸ hb)) := by
      rw [← betweenValC_eq T t a b _ _ (pt_of_lt t hz a ha) (pt_of_lt t hz b hb) (hts ▸ ha) (hts ▸ hb)]
      unfold speedValC
      rcases hcase with ⟨h0, h1, h2⟩ | ⟨h0, h1, h2⟩ | ⟨h0, h1, h2, h3⟩
      · subst h0 h1 h2; simp
      · subst h1 h2
        have hzz : ¬ (t.tr.xy.length - 1 = 0) := by omega
        subst h0
        simp [hzz]
      · subst h2 h3
        have hzz : i ≠ 0 := by omega
        have hl : i ≠ t.tr.xy.length - 1 := by omega
        simp [hzz, hl]
    have hget : ((List.range t.tr.xy.length).map (speedValC T t))[i]? = some (speedValC T t i) := by
      simp [hi]
    rw [hget, key]
    exact ⟨fun h => by rw [quot_zero _ _ h], fun h => by rw [quot_ne _ _ h]⟩

/-- T3 for every class, exceptions included: `computeAbsCurv` / `estimate_speed` leave the class of the positions, the
three coordinates of every fix and the timestamps as they were, and every feature other than `ds` / `abs_curv`
(resp. `speed`) reads what it read before — also when the computation is refused half-way. -/
theorem pure_coords (T : Trig α) (t : CTrack α) :
    ((computeAbsCurvC T t).2.cls = t.cls ∧ (computeAbsCurvC T t).2.zs = t.zs
      ∧ (computeAbsCurvC T t).2.tr.xy = t.tr.xy ∧ (computeAbsCurvC T t).2.tr.ts = t.tr.ts
      ∧ ∀ m, m ≠ "ds" → m ≠ "abs_curv" → (computeAbsCurvC T t).2.tr.get m = t.tr.get m)
    ∧ ((estimateSpeedC T t).2.cls = t.cls ∧ (estimateSpeedC T t).2.zs = t.zs
      ∧ (estimateSpeedC T t).2.tr.xy = t.tr.xy ∧ (estimateSpeedC T t).2.tr.ts = t.tr.ts
      ∧ ∀ m, m ≠ "speed" → (estimateSpeedC T t).2.tr.get m = t.tr.get m) :=
  ⟨computeAbsCurvC_frame T t, estimateSpeedC_frame T t⟩

/-- **ECEF tracks** (`n ≥ 2` fixes, no `ds` / `speed` listed): `computeAbsCurv` is REFUSED (`Obs.__check_call_geom1`),
`estimate_speed` and `computeCurvAbsBetweenTwoPoints` end in `AttributeError` (`ECEFCoords` has no `distance2DTo`). The
refusal comes after `createAnalyticalFeature`: a `ds` (resp. `speed`) column of zeros STAYS on the track — noted: a second
`computeAbsCurv` then finds `ds`, integrates the zeros and returns an all-zero `abs_curv`, a second `estimate_speed`
returns the zeros (see the `example`s below; outside the statement, which is about tracks with a planimetric distance). -/
theorem ecef_refused (T : Trig α) (t : CTrack α) (hc : t.cls = .ecef) (hz : t.zs.length = t.tr.xy.length)
    (h2 : 2 ≤ t.tr.xy.length) :
    (t.tr.has "ds" = false → computeAbsCurvC T t
        = (.error .refused, { t with tr := t.tr.set "ds" (List.replicate t.tr.xy.length (some 0)) }))
    ∧ (t.tr.has "speed" = false → estimateSpeedC T t
        = (.error .attr, { t with tr := t.tr.set "speed" (List.replicate t.tr.xy.length (some 0)) }))
    ∧ curvAbsC T t = .error .attr :=
  ⟨computeAbsCurvC_ecef T t hc hz h2, estimateSpeedC_ecef T t hc hz h2, curvAbsC_ecef T t hc hz h2⟩

end coordsAny

section coordsRounded
open TV.CinCoords
open TV.Geo (Trig V3)
variable [Add α] [Sub α] [Mul α] [Div α] [Neg α] [OfScientific α] [OfNat α 0] [Preorder α]

/-- T1, "never decreases", for every class and WITHOUT exact arithmetic: under the two facts of correctly rounded IEEE
arithmetic of `abscurv_monotone_rounded` (`0 ≤ sqrt x`; `0 ≤ d → a ≤ a + d`) the abscissa of a Geo track never decreases
either — whatever `sin`, `cos`, `atan2`, `pow` return: the leg is a square root. -/
theorem abscurv_monotone_coords (T : Trig α) (hsqrt : ∀ x, 0 ≤ T.sqrt x) (hadd : ∀ a d : α, 0 ≤ d → a ≤ a + d)
    (t : CTrack α) : ∀ i j, i ≤ j → abscC T t i ≤ abscC T t j := by
  have hd : ∀ p q, 0 ≤ dist2C T t.cls p q := by
    intro p q
    cases t.cls with
    | enu => exact hsqrt _
    | geo => exact hsqrt _
    | ecef => exact le_refl _
  have step : ∀ i, abscC T t i ≤ abscC T t (i + 1) := by
    intro i
    show abscC T t i ≤ abscC T t i + _
    apply hadd
    cases t.pt (i + 1) with
    | none => exact le_refl _
    | some p =>
      cases t.pt i with
      | none => exact le_refl _
      | some q => exact hd p q
  intro i j hij
  induction hij with
  | refl => exact le_refl _
  | step _ ih => exact le_trans ih (step _)

end coordsRounded

section coordsReal
open TV.CinCoords
open TV.Geo (Trig V3 geoToEnu geoToEcef Pyth)

/-- **What the Geo distance is.** Over the reals, for any `sin`/`cos` with `sin² + cos² = 1`, `x ** 2 = x²` and a genuine
square root: `GeoCoords.distance2DTo` is the non-negative `d` with `d² + U² = |chord|²`, where the chord is the
straight segment between the two positions in ECEF coordinates and `U` its component along the third axis of the local
frame at `point` — the horizontal part of the chord. Hence `d ≤ |chord|`, and `d = 0` for a repeated position. (Whatever
angles the base's ECEF → geodetic step recovers: the local frame is a rotation.) -/
theorem geo_distance_horizontal (T : Trig ℝ) (hT : Pyth T) (hpow : ∀ x, T.pow x 2.0 = x ^ 2) (hs : SqrtSpec T.sqrt)
    (p q : V3 ℝ) :
    0 ≤ geoDist2D T p q
    ∧ geoDist2D T p q ^ 2 + (geoToEnu T p (.geo q)).z ^ 2
        = ((geoToEcef T p).x - (geoToEcef T q).x) ^ 2 + ((geoToEcef T p).y - (geoToEcef T q).y) ^ 2
          + ((geoToEcef T p).z - (geoToEcef T q).z) ^ 2
    ∧ geoDist2D T p p = 0 := by
  have hnn : ∀ v : V3 ℝ, 0 ≤ v.x ^ 2 + v.y ^ 2 := fun v => by positivity
  have hd : ∀ v : V3 ℝ, 0 ≤ norm2DP T v ∧ norm2DP T v ^ 2 = v.x ^ 2 + v.y ^ 2 := by
    intro v
    unfold norm2DP
    rw [hpow, hpow]
    obtain ⟨h0, h1⟩ := hs _ (hnn v)
    exact ⟨h0, by rw [pow_two, h1]⟩
  refine ⟨(hd _).1, ?_, ?_⟩
  · unfold geoDist2D
    rw [(hd _).2]
    exact ecefToEnu_norm T hT (geoToEcef T p) (.ecef (geoToEcef T q))
  · unfold geoDist2D
    have h0 := (hd (geoToEnu T p (.geo p))).2
    rw [TV.Geo.geoToEnu_self'] at h0 ⊢
    have : norm2DP T ⟨0, 0, 0⟩ ^ 2 = 0 := by rw [h0]; norm_num
    exact pow_eq_zero_iff (two_ne_zero) |>.1 this

end coordsReal

/-! ## on the feature table, for every coordinate class -/

section tableClass
open TV.Features TV.CinTab TV.CinTabK TV.CinCoords
open TV.Geo (Trig V3)
variable [Add α] [Sub α] [Mul α] [Div α] [Neg α] [OfScientific α] [OfNat α 0] [BEq α] [LE α] [DecidableLE α]
variable {σ : Type} [Tbl σ (Option α)]
variable {I : σ → Prop} {n : σ → Nat} {rd : σ → String → Option (List (Option α))} {co : σ → Coord → List (Option α)}

/-- The kernel of a class that defines a planimetric distance (`ENUCoords`, `GeoCoords`): `Obs.distance2DTo` does not
refuse, `position.distance2DTo` never raises, and both compute `CinCoords.dist2C` — the distance of `class_distance` — on
the coordinates of the two position objects. (Whatever `Err` stands for the refusal / the missing method of ECEF.) -/
theorem class_kernel_defines (T : Trig α) (eRef eAttr : Err) (c : Cls) (hc : c ≠ .ecef) :
    Defines (clsKernel T eRef eAttr c) (onPtsV (dist2C T c)) := by
  cases c with
  | enu => exact ⟨rfl, fun _ _ _ _ _ _ => rfl⟩
  | geo => exact ⟨rfl, fun _ _ _ _ _ _ => rfl⟩
  | ecef => exact absurd rfl hc

/-- The ENU programs of the table model are the instances of the class-generic ones at `analytics.ds` / `analytics.speed`
with the `ENUCoords` distance built in: `abscurv_table`, `speed_table`, … are statements about the same program text. -/
theorem enu_programs_are_instances {V : Type} [Tbl σ V] (g : GOps V) :
    (computeAbsCurvT g : M σ (List V)) = computeAbsCurvG g (dsAlgT g)
    ∧ (estimateSpeedT g : M σ (List V)) = estimateSpeedG g (speedAlgT g) := ⟨rfl, rfl⟩

/-- **T1 on the table, for every class with a planimetric distance.** Let a feature table satisfy the laws, hold
`≥ 1` fixes whose position objects are of class `c` (ENU or Geo) with the finite coordinates `P` (`getX/getY/getZ`), and
list neither `ds` nor `abs_curv`. Then `computeAbsCurv` — through the Track API, `ds` going through `Obs.distance2DTo` and
the class's `distance2DTo` — terminates without an exception and returns `[s 0, …, s (n-1)]` with `s 0 = 0`,
`s (i+1) = s i + d_class(P[i+1], P[i])` (`abscD`; `dist2C`: for Geo the East/North part of the chord in the tangent frame
at fix `i`) of the positions the table holds NOW; `abs_curv` reads exactly that column afterwards, `ds` is not listed,
every other name, the coordinate and time columns, the number of fixes and the invariant are unchanged. Any scalar type
(Float with libm's sin / cos / atan2 / pow / sqrt included). -/
theorem abscurv_table_class (L : Laws I n rd co) (T : Trig α) (eRef eAttr : Err) (c : Cls) (hc : c ≠ .ecef)
    (sqrt : α → α) (ofNat : Nat → α) (isNaN : α → Bool) (P : List (V3 α)) (s : σ)
    (hI : I s) (hn : n s = P.length) (hpos : 0 < P.length)
    (hx : co s .x = xsP P) (hy : co s .y = ysP P) (hz : co s .z = zsP P)
    (hds : rd s "ds" = none) (hac : rd s "abs_curv" = none) :
    ∃ s', (computeAbsCurvK (optG sqrt ofNat isNaN) (clsKernel T eRef eAttr c) : M σ _) s
        = (.ok ((List.range P.length).map (fun i => some (abscD (dist2C T c) P i))), s')
      ∧ I s' ∧ n s' = n s ∧ co s' = co s
      ∧ rd s' "abs_curv" = some ((List.range P.length).map (fun i => some (abscD (dist2C T c) P i)))
      ∧ ∀ m, m ≠ "abs_curv" → rd s' m = rd s m := by
  have hK := class_kernel_defines T eRef eAttr c hc
  obtain ⟨r, s', e, hr, hI', hn', hco', hrd', hoth⟩ :=
    computeAbsCurvG_fresh L (optG sqrt ofNat isNaN) P.length hpos (co s) (rd s) hds hac
      (dsAlgK (optG sqrt ofNat isNaN) (clsKernel T eRef eAttr c))
      (dsFK (optG sqrt ofNat isNaN) (onPtsV (dist2C T c)) (co s .x) (co s .y) (co s .z))
      (fun i hi s1 hc1 => by
        have := dsAlgK_read L (optG sqrt ofNat isNaN) hK s1 hc1.1 i (by rw [hc1.2.1]; exact hi)
        rw [hc1.2.2.1] at this
        exact this)
      s ⟨hI, hn, rfl, fun _ => rfl⟩
  have hf : dsFK (optG sqrt ofNat isNaN) (onPtsV (dist2C T c)) (xsP P) (ysP P) (zsP P) = dsAtD (dist2C T c) P :=
    funext (dsFK_opt sqrt ofNat isNaN (dist2C T c) P)
  have hcol : r = (List.range P.length).map (fun i => some (abscD (dist2C T c) P i)) := by
    rw [hr, hx, hy, hz, hf, integG_opt, integrator_dsD]
  rw [hcol] at e hrd'
  exact ⟨s', e, hI', by rw [hn', hn], hco', hrd', hoth⟩

/-- T3 on the table for every class with a planimetric distance (repetition): on a table that lists `abs_curv` (and no
`ds`), `computeAbsCurv` returns the listed column as it is and every name, the coordinates and the times read afterwards
what they read before (the temporary `ds` is created from the current positions and removed again). -/
theorem abscurv_table_class_again (L : Laws I n rd co) (T : Trig α) (eRef eAttr : Err) (c : Cls) (hc : c ≠ .ecef)
    (sqrt : α → α) (ofNat : Nat → α) (isNaN : α → Bool) (s : σ)
    (hI : I s) (hpos : 0 < n s) (hds : rd s "ds" = none) (col : List (Option α)) (hac : rd s "abs_curv" = some col) :
    ∃ s', (computeAbsCurvK (optG sqrt ofNat isNaN) (clsKernel T eRef eAttr c) : M σ _) s = (.ok col, s')
      ∧ I s' ∧ n s' = n s ∧ co s' = co s ∧ ∀ m, rd s' m = rd s m := by
  have hK := class_kernel_defines T eRef eAttr c hc
  obtain ⟨r, s', e, hr, hI', hn', hco', hoth⟩ :=
    computeAbsCurvG_again L (optG sqrt ofNat isNaN) (n s) hpos (co s) (rd s) hds col hac
      (dsAlgK (optG sqrt ofNat isNaN) (clsKernel T eRef eAttr c))
      (dsFK (optG sqrt ofNat isNaN) (onPtsV (dist2C T c)) (co s .x) (co s .y) (co s .z))
      (fun i hi s1 hc1 => by
        have := dsAlgK_read L (optG sqrt ofNat isNaN) hK s1 hc1.1 i (by rw [hc1.2.1]; exact hi)
        rw [hc1.2.2.1] at this
        exact this)
      s ⟨hI, rfl, rfl, fun _ => rfl⟩
  rw [hr] at e
  exact ⟨s', e, hI', hn', hco', hoth⟩

/-- **T2 on the table, for every class with a planimetric distance.** On a lawful table of `n ≥ 2` fixes of class `c`
(ENU or Geo) at the finite coordinates `P` and finite times `ts` that does not list `speed`, `estimate_speed` (function
or method) terminates without an exception and returns `speedColD d_class P ts` of the CURRENT positions and times:
entry `i` from fixes (1,0) / (n-1,n-2) / (i+1,i-1), NaN when the elapsed time is zero, else `d_class(P[a], P[b])` /
elapsed (`speedAtD`, `speedBetweenD`; for Geo in the tangent frame at the EARLIER fix `b`); `speed` reads exactly that
column afterwards, every other name, the coordinates, the times and the invariant are unchanged. -/
theorem speed_table_class (L : Laws I n rd co) (T : Trig α) (eRef eAttr : Err) (c : Cls) (hc : c ≠ .ecef)
    (sqrt : α → α) (ofNat : Nat → α) (isNaN : α → Bool) (P : List (V3 α)) (ts : List α) (s : σ)
    (hI : I s) (hn : n s = P.length) (h2 : 2 ≤ P.length)
    (hx : co s .x = xsP P) (hy : co s .y = ysP P) (hz : co s .z = zsP P) (ht : co s .t = tsOf ts)
    (hsp : rd s "speed" = none) :
    ∃ s', (estimateSpeedK (optG sqrt ofNat isNaN) (clsKernel T eRef eAttr c) : M σ _) s
        = (.ok (speedColD (dist2C T c) P ts), s')
      ∧ I s' ∧ n s' = n s ∧ co s' = co s ∧ rd s' "speed" = some (speedColD (dist2C T c) P ts)
      ∧ ∀ m, m ≠ "speed" → rd s' m = rd s m := by
  have hK := class_kernel_defines T eRef eAttr c hc
  obtain ⟨r, s', e, hr, hI', hn', hco', hrd', hoth⟩ :=
    estimateSpeedG_fresh L (optG sqrt ofNat isNaN) P.length (by omega) (co s) (rd s) hsp
      (speedAlgK (optG sqrt ofNat isNaN) (clsKernel T eRef eAttr c))
      (speedFK (optG sqrt ofNat isNaN) (onPtsV (dist2C T c)) (co s .x) (co s .y) (co s .z) (co s .t) P.length)
      (fun i hi s1 hc1 => by
        have := speedAlgK_read L (optG sqrt ofNat isNaN) hK s1 hc1.1 (by rw [hc1.2.1]; exact h2) i (by rw [hc1.2.1]; exact hi)
        rw [hc1.2.2.1, hc1.2.1] at this
        exact this)
      s ⟨hI, hn, rfl, fun _ => rfl⟩
  have hcol : r = speedColD (dist2C T c) P ts := by rw [hr, hx, hy, hz, ht, speedColD_opt]
  rw [hcol] at e hrd'
  exact ⟨s', e, hI', by rw [hn', hn], hco', hrd', hoth⟩

/-- T3 on the table (repetition), any class — ECEF included: on a table that lists `speed`, `estimate_speed` returns the
listed column and does not change the state at all (no distance is taken). -/
theorem speed_table_class_again (L : Laws I n rd co) (K : Kernel (Option α)) (sqrt : α → α) (ofNat : Nat → α) (isNaN : α → Bool)
    (s : σ) (hI : I s) (col : List (Option α)) (hsp : rd s "speed" = some col) :
    (estimateSpeedK (optG sqrt ofNat isNaN) K : M σ _) s = (.ok col, s) :=
  estimateSpeedG_again L (optG sqrt ofNat isNaN) _ s hI col hsp

/-- `computeCurvAbsBetweenTwoPoints(track)` on a lawful table of `≥ 1` fixes of a class with a planimetric distance only
reads and returns `curvD d_class P (n-1)`: `0` plus the legs `d_class(P[k], P[k+1])` accumulated in Python's order (for
Geo: in the tangent frame at the LATER fix `k+1` — the other end than `ds`; the two differ by about leg × height
difference / Earth radius, which is why the oracle accepts either). Any scalar type. -/
theorem curvabs_table_class (L : Laws I n rd co) (T : Trig α) (eRef eAttr : Err) (c : Cls) (hc : c ≠ .ecef)
    (sqrt : α → α) (ofNat : Nat → α) (isNaN : α → Bool) (P : List (V3 α)) (s : σ)
    (hI : I s) (hn : n s = P.length) (hpos : 0 < P.length)
    (hx : co s .x = xsP P) (hy : co s .y = ysP P) (hz : co s .z = zsP P) :
    (curvAbsK (optG sqrt ofNat isNaN) (clsKernel T eRef eAttr c) : M σ _) s
      = (.ok (some (curvD (dist2C T c) P (P.length - 1))), s) := by
  have hK := class_kernel_defines T eRef eAttr c hc
  rw [curvAbsK_read L (optG sqrt ofNat isNaN) hK s hI, hx, hy, hz, hn,
    curvFK_opt sqrt ofNat isNaN (dist2C T c) P _ (by omega)]

/-- **ECEF tracks on the feature table** (any lawful table — shared observations included — of `n ≥ 2` fixes; `eRef` /
`eAttr` are whatever `Err` stands for `raise CoordTypeError` / `AttributeError`, not an `IndexError`):
* no `ds` listed: `computeAbsCurv` ends in the refusal of `Obs.distance2DTo` raised at fix 1; afterwards a `ds` column IS
  listed (created before the loop of `addAnalyticalFeature`) whose value at fix 0 is the `0` computed there, `abs_curv` is
  not created, every other name reads as before;
* no `speed` listed: `estimate_speed` ends in the `AttributeError` of `position.distance2DTo` at fix 0; a `speed` column
  stays listed, every other name reads as before;
in both cases the coordinates, the times, the number of fixes and the invariant are unchanged. (The statement of C17 does
not apply to ECEF tracks — they define no planimetric distance; noted: a SECOND call finds the column and returns it.) -/
theorem ecef_refused_table (L : Laws I n rd co) (T : Trig α) (eRef eAttr : Err) (hr : eRef ≠ .index) (ha : eAttr ≠ .index)
    (sqrt : α → α) (ofNat : Nat → α) (isNaN : α → Bool) (s : σ) (hI : I s) (h2 : 2 ≤ n s) :
    (rd s "ds" = none → ∃ s' col, (computeAbsCurvK (optG sqrt ofNat isNaN) (clsKernel T eRef eAttr .ecef) : M σ _) s = (.error eRef, s')
        ∧ I s' ∧ n s' = n s ∧ co s' = co s ∧ rd s' "ds" = some col ∧ col[0]? = some (some 0) ∧ ∀ m, m ≠ "ds" → rd s' m = rd s m)
    ∧ (rd s "speed" = none → ∃ s' col, (estimateSpeedK (optG sqrt ofNat isNaN) (clsKernel T eRef eAttr .ecef) : M σ _) s = (.error eAttr, s')
        ∧ I s' ∧ n s' = n s ∧ co s' = co s ∧ rd s' "speed" = some col ∧ ∀ m, m ≠ "speed" → rd s' m = rd s m) :=
  ⟨fun hds => computeAbsCurvK_refused L (optG sqrt ofNat isNaN) (clsKernel T eRef eAttr .ecef) eRef rfl hr s hI h2 hds,
   fun hsp => estimateSpeedK_attr L (optG sqrt ofNat isNaN) (clsKernel T eRef eAttr .ecef) eAttr (fun _ _ _ _ _ _ => rfl) ha s hI h2 hsp⟩

variable [IntCast α]

/-- T1 for a Geo (or ENU) track whose observations are SHARED with other tracks, as one operation of a history on the world
of observation objects (`stepK`, what the driver runs for class G / X pools): if track `k` satisfies `WInv`, holds `≥ 1`
fixes at the finite coordinates `P` and lists neither `ds` nor `abs_curv`, then `computeAbsCurv(track k)` returns the prefix
sums of the class distance of the CURRENT positions, track `k` reads them under `abs_curv` afterwards and reads every other
name as before — whatever extra slots its observation objects carry from computations made on other tracks. -/
theorem abscurv_shared_class (T : Trig α) (eRef eAttr : Err) (c : Cls) (hc : c ≠ .ecef)
    (sqrt : α → α) (ofNat : Nat → α) (isNaN : α → Bool) (w : World (Option α)) (k : Nat)
    (P : List (V3 α)) (hw : WInv { w with cur := k }) (hn : wN { w with cur := k } = P.length) (hpos : 0 < P.length)
    (hx : wCo { w with cur := k } .x = xsP P) (hy : wCo { w with cur := k } .y = ysP P) (hz : wCo { w with cur := k } .z = zsP P)
    (hds : wRd { w with cur := k } "ds" = none) (hac : wRd { w with cur := k } "abs_curv" = none) :
    ∃ w', stepK (optG sqrt ofNat isNaN) (clsKernel T eRef eAttr c) (.absCurv k) w
        = (.ok (.col ((List.range P.length).map (fun i => some (abscD (dist2C T c) P i)))), w')
      ∧ WInv w' ∧ wCo w' = wCo { w with cur := k }
      ∧ wRd w' "abs_curv" = some ((List.range P.length).map (fun i => some (abscD (dist2C T c) P i)))
      ∧ ∀ m, m ≠ "abs_curv" → wRd w' m = wRd { w with cur := k } m := by
  obtain ⟨w', e, hI', _, hco', hrd', hoth⟩ :=
    abscurv_table_class laws_World T eRef eAttr c hc sqrt ofNat isNaN P { w with cur := k } hw hn hpos hx hy hz hds hac
  refine ⟨w', ?_, hI', hco', hrd', hoth⟩
  exact runCol_ok k _ w w' _ hw.cur e

/-- T2 for a Geo (or ENU) track whose observations are shared: `estimate_speed(track k)` on `≥ 2` fixes without `speed`
returns the speed column of the class distance of the CURRENT positions and of the absolute times of the CURRENT timestamp
fields, and track `k` reads it under `speed` afterwards. -/
theorem speed_shared_class (T : Trig α) (eRef eAttr : Err) (c : Cls) (hc : c ≠ .ecef)
    (sqrt : α → α) (ofNat : Nat → α) (isNaN : α → Bool) (w : World (Option α)) (k : Nat)
    (P : List (V3 α)) (ts : List α) (hw : WInv { w with cur := k }) (hn : wN { w with cur := k } = P.length) (h2 : 2 ≤ P.length)
    (hx : wCo { w with cur := k } .x = xsP P) (hy : wCo { w with cur := k } .y = ysP P) (hz : wCo { w with cur := k } .z = zsP P)
    (ht : wCo { w with cur := k } .t = tsOf ts) (hsp : wRd { w with cur := k } "speed" = none) :
    ∃ w', stepK (optG sqrt ofNat isNaN) (clsKernel T eRef eAttr c) (.speed k) w
        = (.ok (.col (speedColD (dist2C T c) P ts)), w')
      ∧ WInv w' ∧ wCo w' = wCo { w with cur := k } ∧ wRd w' "speed" = some (speedColD (dist2C T c) P ts)
      ∧ ∀ m, m ≠ "speed" → wRd w' m = wRd { w with cur := k } m := by
  obtain ⟨w', e, hI', _, hco', hrd', hoth⟩ :=
    speed_table_class laws_World T eRef eAttr c hc sqrt ofNat isNaN P ts { w with cur := k } hw hn h2 hx hy hz ht hsp
  refine ⟨w', ?_, hI', hco', hrd', hoth⟩
  exact runCol_ok k _ w w' _ hw.cur e

/-- **Purity for every coordinate class, on every world.** Whatever the class of the position objects (the kernel `K` is
arbitrary: ENU, Geo, ECEF with its refusal and its `AttributeError`, or anything else), whatever the tracks share, aligned
or not, and also when the operation ends in an exception: after any operation on features the position and the stamp —
seven calendar fields and `zone` — of EVERY observation object and the reference list of EVERY track are what they were. -/
theorem positions_and_stamps_unchanged_class {V : Type} [AbsTime V] (g : GOps V) (K : Kernel V) (op : WOp V)
    (hop : op.onFeatures = true) (w : World V) :
    geom (stepK g K op w).2 = geom w ∧ (stepK g K op w).2.trks.map (·.ids) = w.trks.map (·.ids) :=
  stepK_frame g K op hop w

/-- No operation on features reads the zone field of a stamp, for every coordinate class: on a world whose zones were
rewritten by any function it returns the same value / raises the same exception and ends in the rewritten final world. -/
theorem zone_not_read_class {V : Type} [AbsTime V] (g : GOps V) (K : Kernel V) (op : WOp V) (hop : op.onFeatures = true)
    (f : Int → Int) (w : World V) :
    stepK g K op (w.zmap f) = ((stepK g K op w).1, (stepK g K op w).2.zmap f) :=
  stepK_blind g K op hop f w

end tableClass

section tableClassRounded
open TV.CinTabK TV.CinCoords
open TV.Geo (Trig V3)
variable [Add α] [Sub α] [Mul α] [Div α] [Neg α] [OfScientific α] [OfNat α 0] [Preorder α]

/-- "Never decreases" for the column `abscurv_table_class` returns, for every class and WITHOUT exact arithmetic: under the
two facts of correctly rounded IEEE arithmetic (`0 ≤ sqrt x`; `0 ≤ d → a ≤ a + d`) the prefix sums `abscD` of the class
distance never decrease — whatever `sin`, `cos`, `atan2`, `pow` return: every leg is a square root. -/
theorem abscurv_monotone_class (T : Trig α) (hsqrt : ∀ x, 0 ≤ T.sqrt x) (hadd : ∀ a d : α, 0 ≤ d → a ≤ a + d)
    (c : Cls) (P : List (V3 α)) : ∀ i j, i ≤ j → abscD (dist2C T c) P i ≤ abscD (dist2C T c) P j := by
  have hd : ∀ p q, 0 ≤ dist2C T c p q := by
    intro p q
    cases c with
    | enu => exact hsqrt _
    | geo => exact hsqrt _
    | ecef => exact le_refl _
  have step : ∀ i, abscD (dist2C T c) P i ≤ abscD (dist2C T c) P (i + 1) := by
    intro i
    show abscD (dist2C T c) P i ≤ abscD (dist2C T c) P i + _
    apply hadd
    cases P[i + 1]? with
    | none => exact le_refl _
    | some p =>
      cases P[i]? with
      | none => exact le_refl _
      | some q => exact hd p q
  intro i j hij
  induction hij with
  | refl => exact le_refl _
  | step _ ih => exact le_trans ih (step _)

end tableClassRounded

section tableClassEntries
open TV.CinTabK
open TV.Geo (V3)
variable [Add α] [Sub α] [Mul α] [Div α] [OfNat α 0] [BEq α] [LawfulBEq α]

/-- The entries of the columns `abscurv_table_class` / `speed_table_class` return, for ANY distance `d` (`d self point` =
`self.distance2DTo(point)`): the abscissa starts at `0` and grows by `d(P[i+1], P[i])`; the speed column has one value per
fix, `v[0]` from fixes (1,0), `v[n-1]` from fixes (n-1,n-2), `v[i]` from fixes (i+1,i-1) otherwise, NaN exactly when the
elapsed time is zero, else `d(P[a], P[b])` over the elapsed time. -/
theorem class_columns_def (d : V3 α → V3 α → α) (P : List (V3 α)) (ts : List α) (hn : 2 ≤ P.length) (hts : ts.length = P.length) :
    abscD d P 0 = 0
    ∧ (∀ i (h : i + 1 < P.length), abscD d P (i + 1) = abscD d P i + d (P[i + 1]'h) (P[i]'(Nat.lt_of_succ_lt h)))
    ∧ (speedColD d P ts).length = P.length
    ∧ ∀ (i a b : Nat) (_hi : i < P.length),
      ((i = 0 ∧ a = 1 ∧ b = 0) ∨ (i = P.length - 1 ∧ a = P.length - 1 ∧ b = P.length - 2)
        ∨ (0 < i ∧ i < P.length - 1 ∧ a = i + 1 ∧ b = i - 1)) →
      ∀ (ha : a < P.length) (hb : b < P.length),
        (ts[a]'(hts ▸ ha) - ts[b]'(hts ▸ hb) = 0 → (speedColD d P ts)[i]? = some none) ∧
        (ts[a]'(hts ▸ ha) - ts[b]'(hts ▸ hb) ≠ 0 →
          (speedColD d P ts)[i]? = some (some (d P[a] P[b] / (ts[a]'(hts ▸ ha) - ts[b]'(hts ▸ hb))))) := by
  refine ⟨rfl, fun i h => abscD_succ d P i h, by simp [speedColD], ?_⟩
  intro i a b hi hcase ha hb
  have ha' : a < ts.length := hts ▸ ha
  have hb' : b < ts.length := hts ▸ hb
  have hbetween : speedBetweenD d P ts a b = quot (d P[a] P[b]) (ts[a] - ts[b]) := by
    unfold speedBetweenD
    rw [List.getElem?_eq_getElem ha, List.getElem?_eq_getElem hb, List.getElem?_eq_getElem ha', List.getElem?_eq_getElem hb']
  have key : speedAtD d P ts i = quot (d P[a] P[b]) (ts[a] - ts[b]) := by
    rw [← hbetween]
    unfold speedAtD
    rcases hcase with ⟨h0, h1, h2⟩ | ⟨h0, h1, h2⟩ | ⟨h0, h1, h2, h3⟩
    · subst h0 h1 h2; simp
    · subst h1 h2
      have hz : ¬ (P.length - 1 = 0) := by omega
      subst h0
      simp [hz]
    · subst h2 h3
      have hz : i ≠ 0 := by omega
      have hl : i ≠ P.length - 1 := by omega
      simp [hz, hl]
  have hget : (speedColD d P ts)[i]? = some (speedAtD d P ts i) := by
    unfold speedColD
    simp [hi]
  rw [hget, key]
  exact ⟨fun h => by rw [quot_zero _ _ h], fun h => by rw [quot_ne _ _ h]⟩

end tableClassEntries

/-! ### non-vacuity -/

/-- the square-root contract is inhabited (by `Real.sqrt`) -/
example : SqrtSpec Real.sqrt := fun x hx => ⟨Real.sqrt_nonneg x, Real.mul_self_sqrt hx⟩

/-- a 4-fix track with a repeated position and a repeated timestamp satisfies the hypotheses of T1/T2 -/
def demo : Track Rat := { xy := [(0, 0), (3, 4), (3, 4), (6, 8)], ts := [0, 2, 2, 5], feats := [("w", [some 1, none, some 2, some 3])] }
example : demo.has "ds" = false ∧ demo.has "abs_curv" = false ∧ demo.has "speed" = false
    ∧ 2 ≤ demo.xy.length ∧ demo.ts.length = demo.xy.length := by decide
/-- with the exact square root on these legs the model returns 0,5,5,10 and 5/2, 5/2, 5/3, 5/3 -/
example : (computeAbsCurv (fun x => if x = 25 then 5 else 0) demo).2 = some [some 0, some 5, some 5, some 10] := by
  decide +kernel
example : (estimateSpeed (fun x => if x = 25 then 5 else if x = 100 then 10 else 0) demo).2
    = some [some (5 / 2), some (5 / 2), some (5 / 3), some (5 / 3)] := by
  decide +kernel
/-- the NaN rule: two fixes with the same timestamp -/
example : (estimateSpeed (fun x => if x = 25 then 5 else 0)
    ({ xy := [(0, 0), (3, 4)], ts := [7, 7], feats := [] } : Track Rat)).2 = some [none, none] := by
  decide +kernel

/-- the hypotheses of `abscurv_monotone_rounded` are satisfiable by an arithmetic whose square root is NOT exact: the
integers with the floor square root -/
example : (∀ x : Int, 0 ≤ ((Nat.sqrt x.toNat : Nat) : Int)) ∧ (∀ a d : Int, 0 ≤ d → a ≤ a + d) :=
  ⟨fun _ => Int.natCast_nonneg _, fun a d h => by omega⟩
example : absc (fun x : Int => ((Nat.sqrt x.toNat : Nat) : Int)) [(0, 0), (1, 1), (3, 2), (3, 2)] 3 = 3 := by decide +kernel

/-! ### non-vacuity of the table theorems: a world whose observations are shared -/
section demoWorld
open TV.Features TV.CinTab TV.ObsTime

/-- four observation objects; the two middle ones already carry a slot (value 7) because they also belong to track 1,
on which `speed` was computed; track 0 references all four and lists no feature. The stamps of the first two were written by
a logger set to zone 0, those of the last two by a logger set to zone +2 (the sixth component) -/
def demoW : World (Option Rat) :=
  { heap := [⟨some 0, some 0, some 0, ⟨1970, 1, 1, 0, 0, 0, 0⟩, [], 0⟩, ⟨some 3, some 4, some 0, ⟨1970, 1, 1, 0, 0, 2, 0⟩, [some 7], 0⟩,
             ⟨some 3, some 4, some 1, ⟨1970, 1, 1, 0, 0, 2, 0⟩, [some 7], 2⟩, ⟨some 6, some 8, some 0, ⟨1970, 1, 1, 0, 0, 5, 0⟩, [], 2⟩],
    trks := [⟨[0, 1, 2, 3], []⟩, ⟨[1, 2], [("speed", 0)]⟩], cur := 0 }

def demoG : GOps (Option Rat) := optG (fun x => if x = 25 then 5 else if x = 100 then 10 else 0) (fun n => (n : Rat)) (fun _ => false)

/-- the hypotheses of `abscurv_shared` / `speed_shared` hold for track 0 of `demoW` (with `xy = demo.xy`, `ts = demo.ts`) -/
example : WInv { demoW with cur := 0 } :=
  ⟨by decide, by decide, by decide, ⟨by decide, by decide, by decide⟩, fun _ _ _ _ => Nat.zero_le _⟩
example : wN { demoW with cur := 0 } = demo.xy.length ∧ wCo { demoW with cur := 0 } .x = xsOf demo.xy
    ∧ wCo { demoW with cur := 0 } .y = ysOf demo.xy ∧ wCo { demoW with cur := 0 } .t = tsOf demo.ts
    ∧ wRd { demoW with cur := 0 } "ds" = none ∧ wRd { demoW with cur := 0 } "abs_curv" = none
    ∧ wRd { demoW with cur := 0 } "speed" = none := by decide +kernel
/-- … and for track 1 (two fixes, one listed feature, one slot per object) -/
example : WInv { demoW with cur := 1 } :=
  ⟨by decide, by decide, by decide, ⟨by decide, by decide, by decide⟩, by
    intro id hid ob hob
    have : id = 1 ∨ id = 2 := by simpa [World.trk, demoW] using hid
    rcases this with rfl | rfl <;> (simp [demoW] at hob; subst hob; decide)⟩

/-- the model run: abs_curv of track 0 is 0,5,5,10 although objects 1 and 2 carried a foreign slot; afterwards they carry
`[5, 0]` — the abscissa sits in the slot track 0's dict designates (index 0), the appended slot is behind it -/
example : (match (stepW demoG (.absCurv 0) demoW).1 with | .ok (.col l) => l | _ => []) = [some 0, some 5, some 5, some 10] := by
  decide +kernel
example : (stepW demoG (.absCurv 0) demoW).2.heap.map (·.feats)
    = [[some 0], [some 5, some 0], [some 5, some 0], [some 10]] := by decide +kernel
example : wRd { (stepW demoG (.absCurv 0) demoW).2 with cur := 0 } "abs_curv" = some [some 0, some 5, some 5, some 10] := by
  decide +kernel
example : (match (stepW demoG (.speed 0) demoW).1 with | .ok (.col l) => l | _ => [])
    = [some (5 / 2), some (5 / 2), some (5 / 3), some (5 / 3)] := by decide +kernel
/-- the METHOD `track.estimate_speed()` on the same track (stamps of two zones): the same column, and the `zone` fields —
like every other field of every stamp — are what they were -/
example : (match (stepW demoG (.speedMethod 0) demoW).1 with | .ok (.col l) => l | _ => [])
    = [some (5 / 2), some (5 / 2), some (5 / 3), some (5 / 3)] := by decide +kernel
example : (stepW demoG (.speedMethod 0) demoW).2.heap.map (·.zone) = [0, 0, 2, 2] := by decide +kernel
/-- `demoW` is a non-trivial instance of `zone_not_read` / `same_result_whatever_zones`: its zones are not all 0 -/
example : (demoW.zmap (fun _ => 0)).heap.map (·.zone) = [0, 0, 0, 0] ∧ demoW.heap.map (·.zone) ≠ [0, 0, 0, 0] := by decide +kernel
/-- `track.setTimeZone(1)` on the section (track 1) writes the zone of the two shared objects and nothing else; the speeds
computed afterwards are the same -/
example : (stepW demoG (.setZone 1 1) demoW).2.heap.map (·.zone) = [0, 1, 1, 2] := by decide +kernel
example : (match (stepW demoG (.speed 0) (stepW demoG (.setZone 1 1) demoW).2).1 with | .ok (.col l) => l | _ => [])
    = [some (5 / 2), some (5 / 2), some (5 / 3), some (5 / 3)] := by decide +kernel
/-- an in-place edit of a timestamp FIELD is seen by the next computation: fix 1 moved from second 2 to second 0 -/
example : (match (stepW demoG (.speed 0) (stepW demoG (.setTime 0 1 "sec" 0) demoW).2).1 with | .ok (.col l) => l | _ => [])
    = [none, some (5 / 2), some (5 / 5), some (5 / 3)] := by decide +kernel
/-- the further hypotheses of `length_table` / `duration_table` / `sorted_table` hold for track 0 of `demoW`, and the
model runs: duration 5 s, not sorted (fixes 1 and 2 carry the same stamp), 3D length 5 + 1 + sqrt 26 (here with a square
root that answers 51/10 for 26) -/
example : wCo { demoW with cur := 0 } .z = zsOf [0, 0, 1, 0] ∧ ([0, 0, 1, 0] : List Rat).length = demo.xy.length := by decide +kernel
example : (match (stepW demoG (.duration 0) demoW).1 with | .ok (.num v) => v | _ => none) = some 5 := by decide +kernel
example : (match (stepW demoG (.sorted 0) demoW).1 with | .ok (.bool b) => some b | _ => none) = some false := by decide +kernel
example : (match (stepW (optG (fun x => if x = 25 then 5 else if x = 1 then 1 else if x = 26 then 51 / 10 else 0)
      (fun n => (n : Rat)) (fun _ => false)) (.length 0) demoW).1 with | .ok (.num v) => v | _ => none) = some (111 / 10) := by
  decide +kernel
example : len3D (fun x : Rat => if x = 25 then 5 else if x = 1 then 1 else if x = 26 then 51 / 10 else 0) demo.xy [0, 0, 1, 0] 3
    = 111 / 10 := by decide +kernel
end demoWorld

/-! ### non-vacuity of `dict_rows_table_lawful`: an aligned dict-and-rows table -/
section demoSt
open TV.Features TV.CinTab

/-- four fixes, two listed features (`w` at index 0, `speed` at index 1), one row of two values per observation -/
def demoSt : St (Option Rat) :=
  { dico := [("w", 0), ("speed", 1)], rows := [[some 1, some 7], [some 2, some 7], [some 3, some 7], [some 4, some 7]],
    xs := [some 0, some 3, some 3, some 6], ys := [some 0, some 4, some 4, some 8], zs := [some 0, some 0, some 1, some 0],
    ts := [some 0, some 2, some 2, some 5] }

example : sI demoSt := ⟨by decide, by decide, by decide, by decide, by decide, by decide, by decide, by decide⟩
example : sN demoSt = 4 ∧ sRd demoSt "w" = some [some 1, some 2, some 3, some 4] ∧ sRd demoSt "abs_curv" = none
    ∧ sRd demoSt "ds" = none := by decide +kernel
/-- the run on that table: abs_curv 0, 5, 5, 10 is appended as a third name, `w` and `speed` read as before -/
example : ((computeAbsCurvT demoG : M (St (Option Rat)) _) demoSt).1 = .ok [some 0, some 5, some 5, some 10] := by decide +kernel
example : sRd ((computeAbsCurvT demoG : M (St (Option Rat)) _) demoSt).2 "w" = some [some 1, some 2, some 3, some 4]
    ∧ sRd ((computeAbsCurvT demoG : M (St (Option Rat)) _) demoSt).2 "abs_curv" = some [some 0, some 5, some 5, some 10] := by
  decide +kernel
end demoSt

/-! ### non-vacuity of the per-class theorems -/
section demoCoords
open TV.CinCoords
open TV.Geo (Trig V3 Pyth realTrig)

/-- the hypotheses of `geo_distance_horizontal` are satisfied by the real functions -/
example : Pyth realTrig ∧ (∀ x, realTrig.pow x 2.0 = x ^ 2) ∧ SqrtSpec realTrig.sqrt :=
  ⟨TV.Geo.pyth_real, TV.Geo.rt_pow2, fun x hx => ⟨Real.sqrt_nonneg x, Real.mul_self_sqrt hx⟩⟩

/-- a `Trig` on the rationals whose square root is exact on the squares that occur below; the other functions are not
reached by the runs of the examples -/
def demoT : Trig Rat :=
  { pi := 3, sin := id, cos := id, tan := id, atan := id, atan2 := fun _ _ => 0,
    sqrt := fun x => if x = 25 then 5 else if x = 100 then 10 else 0, log := id, exp := id, pow := fun x _ => x * x }

/-- a Geo track and an ECEF track satisfying the hypotheses of `abscurv_prefix_coords` / `speed_def_coords` /
`ecef_refused` -/
def demoGeo : CTrack Rat :=
  { cls := .geo, zs := [35, 35, 36], tr := { xy := [(2.34, 48.85), (2.341, 48.85), (2.341, 48.851)], ts := [0, 10, 10], feats := [] } }
def demoEcef : CTrack Rat :=
  { cls := .ecef, zs := [4779000, 4779000, 4779100], tr := { xy := [(4201000, 171000), (4201003, 171004), (4201003, 171004)], ts := [0, 10, 20], feats := [] } }
example : demoGeo.cls ≠ .ecef ∧ demoGeo.zs.length = demoGeo.tr.xy.length ∧ demoGeo.tr.has "ds" = false
    ∧ demoGeo.tr.has "abs_curv" = false ∧ demoGeo.tr.has "speed" = false ∧ 2 ≤ demoGeo.tr.xy.length
    ∧ demoGeo.tr.ts.length = demoGeo.tr.xy.length := by decide
example : demoEcef.cls = .ecef ∧ demoEcef.zs.length = demoEcef.tr.xy.length ∧ 2 ≤ demoEcef.tr.xy.length
    ∧ demoEcef.tr.has "ds" = false ∧ demoEcef.tr.has "speed" = false := by decide

/-- the same three (x, y) pairs read as ENU positions: 0, 5, 5 … the class decides the distance -/
example : (match (computeAbsCurvC demoT { cls := .enu, zs := [0, 0, 0], tr := { xy := [(0, 0), (3, 4), (3, 4)], ts := [0, 1, 2], feats := [] } }).1 with
    | .ok (some c) => c | _ => []) = [some 0, some 5, some 5] := by decide +kernel

/-- noted: on the ECEF track the first `computeAbsCurv` is refused, the SECOND returns zeros although the track moves
(5 m between the first two fixes); likewise `estimate_speed` -/
example : (match (computeAbsCurvC demoT demoEcef).1 with | .error e => some e | _ => none) = some .refused := by decide +kernel
example : (match (computeAbsCurvC demoT (computeAbsCurvC demoT demoEcef).2).1 with
    | .ok (some c) => c | _ => []) = [some 0, some 0, some 0] := by decide +kernel
example : (match (estimateSpeedC demoT (estimateSpeedC demoT demoEcef).2).1 with
    | .ok (some c) => c | _ => []) = [some 0, some 0, some 0] := by decide +kernel
end demoCoords

/-! ### non-vacuity of the class theorems on the table: the world `demoW` read as a pool of each class -/
section demoClassWorld
open TV.Features TV.CinTab TV.CinTabK TV.CinCoords
open TV.Geo (V3)

/-- the positions of track 0 of `demoW` -/
def demoP : List (V3 Rat) := [⟨0, 0, 0⟩, ⟨3, 4, 0⟩, ⟨3, 4, 1⟩, ⟨6, 8, 0⟩]

/-- the hypotheses of `abscurv_shared_class` / `speed_shared_class` hold for track 0 of `demoW` (`WInv`: above) -/
example : wN { demoW with cur := 0 } = demoP.length ∧ 2 ≤ demoP.length ∧ wCo { demoW with cur := 0 } .x = xsP demoP
    ∧ wCo { demoW with cur := 0 } .y = ysP demoP ∧ wCo { demoW with cur := 0 } .z = zsP demoP
    ∧ wCo { demoW with cur := 0 } .t = tsOf demo.ts := by decide +kernel
/-- as ENUCoords the class-generic step computes what `stepW` computes: 0, 5, 5, 10, foreign slots notwithstanding -/
example : (match (stepK demoG (clsKernel demoT .type .key .enu) (.absCurv 0) demoW).1 with | .ok (.col l) => l | _ => [])
    = [some 0, some 5, some 5, some 10] := by decide +kernel
example : (match (stepK demoG (clsKernel demoT .type .key .enu) (.speed 0) demoW).1 with | .ok (.col l) => l | _ => [])
    = [some (5 / 2), some (5 / 2), some (5 / 3), some (5 / 3)] := by decide +kernel
/-- as GeoCoords (with the toy trigonometry of `demoT`): a column of four finite values starting at 0, stored under abs_curv -/
example : (match (stepK demoG (clsKernel demoT .type .key .geo) (.absCurv 0) demoW).1 with
    | .ok (.col l) => (l.length, l.head?, l.all Option.isSome) | _ => (0, none, false)) = (4, some (some 0), true) := by decide +kernel
/-- as ECEFCoords: computeAbsCurv is refused, a `ds` column stays on track 0 (value 0 at fix 0), no abs_curv; estimate_speed
raises the AttributeError; positions and stamps are what they were -/
example : (match (stepK demoG (clsKernel demoT .type .key .ecef) (.absCurv 0) demoW).1 with | .error e => some e | _ => none)
    = some .type := by decide +kernel
example : (stepK demoG (clsKernel demoT .type .key .ecef) (.absCurv 0) demoW).2.trks.map (·.dico) = [[("ds", 0)], [("speed", 0)]] := by
  decide +kernel
example : (match (stepK demoG (clsKernel demoT .type .key .ecef) (.speed 0) demoW).1 with | .error e => some e | _ => none)
    = some .key := by decide +kernel
example : geom (stepK demoG (clsKernel demoT .type .key .ecef) (.absCurv 0) demoW).2 = geom demoW := by decide +kernel
example : (Err.type ≠ Err.index) ∧ (Err.key ≠ Err.index) := by decide
end demoClassWorld

end TV.C17
