import TracklibVerif.Model.FilterExt
import Mathlib.Algebra.Order.Field.Basic
namespace TV.C15
open TV.Filter
set_option linter.unusedSectionVars false

section ops
variable {α : Type} [Add α] [Mul α] [Div α] [OfNat α 0] [LT α] [DecidableLT α]

theorem Ext.add_def (x y : Ext α) : x + y = Ext.add x y := rfl
theorem Ext.mul_def (x y : Ext α) : x * y = Ext.mul x y := rfl
theorem Ext.div_def (x y : Ext α) : x / y = Ext.div x y := rfl
theorem Ext.zero_def : (0 : Ext α) = Ext.fin 0 := rfl

/-- `a * ±inf` is never a number -/
theorem Ext.mulInf_nonfin (a : α) (pos : Bool) : (Ext.mulInf a pos).isFin = false := by
  unfold Ext.mulInf Ext.sgnInf
  by_cases h1 : 0 < a <;> by_cases h2 : a < 0 <;> cases pos <;> simp [h1, h2, Ext.isFin]

/-- adding a non-finite value gives a non-finite value -/
theorem Ext.add_nonfin (x y : Ext α) (hy : y.isFin = false) : (x + y).isFin = false := by
  cases x <;> cases y <;> simp_all [Ext.add_def, Ext.add, Ext.isFin]

/-- adding to a non-finite value gives a non-finite value -/
theorem Ext.nonfin_add (x y : Ext α) (hx : x.isFin = false) : (x + y).isFin = false := by
  cases x <;> cases y <;> simp_all [Ext.add_def, Ext.add, Ext.isFin]

/-- multiplying by a non-finite value gives a non-finite value (`0 * inf` is `nan`) -/
theorem Ext.mul_nonfin (x y : Ext α) (hy : y.isFin = false) : (x * y).isFin = false := by
  cases x <;> cases y <;> first | exact Ext.mulInf_nonfin _ _ | rfl | (simp [Ext.isFin] at hy)

/-- a non-finite value divided by a non-finite value is `nan` -/
theorem Ext.div_nonfin (x y : Ext α) (hx : x.isFin = false) (hy : y.isFin = false) : x / y = .nan := by
  cases x <;> cases y <;> simp_all [Ext.div_def, Ext.div, Ext.isFin]

theorem Ext.isZero_nonfin (x : Ext α) (hx : x.isFin = false) : x.isZero = false := by
  cases x <;> simp_all [Ext.isZero, Ext.isFin]

end ops

section loops
variable {β : Type} [Add β] [Mul β]

/-- a window that reads no sample leaves the state untouched (any weights) -/
theorem inner_noSample (s : List (Option β)) (D i : Nat) (k : List β) :
    ∀ (j : Nat) (st : β × β), anySample s D i k j = false → inner s D i k j st = st := by
  induction k with
  | nil => intro j st _; rfl
  | cons kj ks ih =>
    intro j st h
    obtain ⟨t, n⟩ := st
    simp only [anySample, Bool.or_eq_false_iff] at h
    obtain ⟨h1, h2⟩ := h
    cases hs : sample s D i j with
    | none => simp only [inner, hs]; exact ih _ _ h2
    | some val => rw [hs] at h1; simp at h1

theorem cells_getElem? (s : List (Option β)) (k : List β) (D i : Nat) [OfNat β 0] :
    (cells s k D)[i]? = if i < s.length then some (inner s D i k 0 (0, 0)) else none := by
  unfold cells
  by_cases h : i < s.length
  · simp [h]
  · simp [h]

theorem mem_cells_zipIdx [OfNat β 0] (s : List (Option β)) (k : List β) (D : Nat) (c : (β × β) × Nat) :
    c ∈ (cells s k D).zipIdx ↔ c.2 < s.length ∧ c.1 = inner s D c.2 k 0 (0, 0) := by
  rw [List.mem_zipIdx_iff_getElem?, cells_getElem?]
  by_cases h : c.2 < s.length
  · simp [h, eq_comm]
  · simp [h]

theorem cells_length [OfNat β 0] (s : List (Option β)) (k : List β) (D : Nat) : (cells s k D).length = s.length := by
  simp [cells]

end loops

section filterX
variable {α : Type} [Add α] [Mul α] [Div α] [OfNat α 0] [LT α] [DecidableLT α]

theorem toSamples_length (v : List (Ext α)) : (toSamples v).length = v.length := by simp [toSamples]

/-- the loop with non-finite weights: once a sample was read, or from a non-finite state, both accumulators are non-finite -/
theorem inner_nonfin (s : List (Option (Ext α))) (D i : Nat) (k : List (Ext α)) (hk : ∀ w ∈ k, w.isFin = false) :
    ∀ (j : Nat) (t n : Ext α), (anySample s D i k j = true ∨ (t.isFin = false ∧ n.isFin = false)) →
      (inner s D i k j (t, n)).1.isFin = false ∧ (inner s D i k j (t, n)).2.isFin = false := by
  induction k with
  | nil =>
    intro j t n h
    rcases h with h | h
    · simp [anySample] at h
    · exact h
  | cons kj ks ih =>
    intro j t n h
    have hkj : kj.isFin = false := hk kj (List.mem_cons_self ..)
    have ih' := ih (fun w hw => hk w (List.mem_cons_of_mem _ hw))
    cases hs : sample s D i j with
    | none =>
      simp only [inner, hs]
      apply ih'
      rcases h with h | h
      · left; simpa [anySample, hs] using h
      · right; exact h
    | some val =>
      simp only [inner, hs]
      apply ih'
      right
      exact ⟨Ext.add_nonfin _ _ (Ext.mul_nonfin _ _ hkj), Ext.add_nonfin _ _ hkj⟩

theorem filterWindowX_eq (v k : List (Ext α)) (boundary np : Bool) :
    filterWindowX v k boundary np =
      if k.length % 2 == 0 then .error .evenKernel
      else if (cells (toSamples v) k (k.length / 2)).zipIdx.any
          (fun c => (c.1.2.isZero && !np) || !anySample (toSamples v) (k.length / 2) c.2 k 0) then .error .zeroDiv
      else if boundary then .ok ((cells (toSamples v) k (k.length / 2)).map (fun c => c.1 / c.2))
      else if v.length < k.length / 2 then .error .index
      else .ok ((List.range v.length).map (fun i =>
        if i < k.length / 2 ∨ v.length - k.length / 2 ≤ i then (v[i]?).getD .nan
        else ((((cells (toSamples v) k (k.length / 2)).map (fun c => c.1 / c.2)))[i]?).getD .nan)) := rfl

/-- **Weights that are all `inf` / `-inf` / `nan`** (what `kernel[i] /= norm` leaves when the total is 0 or NaN): every window that reads
at least one sample yields NaN (`±inf·x`, `nan·x` summed, divided by a sum of such weights: `inf/inf`, `nan/…`); a window that reads no
sample divides the untouched ints `0 / 0`: ZeroDivisionError. No law of arithmetic is used. -/
theorem nonfinite_weights_nan (v k : List (Ext α)) (boundary np : Bool) (hodd : k.length % 2 = 1) (hk : ∀ w ∈ k, w.isFin = false) :
    ((∃ i, i < v.length ∧ anySample (toSamples v) (k.length / 2) i k 0 = false) → filterWindowX v k boundary np = .error .zeroDiv) ∧
    ((∀ i, i < v.length → anySample (toSamples v) (k.length / 2) i k 0 = true) →
      (boundary = false → v.length < k.length / 2 → filterWindowX v k boundary np = .error .index) ∧
      ((boundary = true ∨ k.length / 2 ≤ v.length) →
        ∃ out, filterWindowX v k boundary np = .ok out ∧ out.length = v.length ∧
          ∀ i, i < v.length →
            ((boundary = true ∨ (k.length / 2 ≤ i ∧ i < v.length - k.length / 2)) → out[i]? = some .nan) ∧
            (boundary = false → (i < k.length / 2 ∨ v.length - k.length / 2 ≤ i) → out[i]? = v[i]?))) := by
  have hodd' : ¬ ((k.length % 2 == 0) = true) := by simp [hodd]
  refine ⟨?_, ?_⟩
  · rintro ⟨i, hi, hf⟩
    rw [filterWindowX_eq, if_neg hodd', if_pos]
    rw [List.any_eq_true]
    refine ⟨(inner (toSamples v) (k.length / 2) i k 0 (0, 0), i), ?_, ?_⟩
    · rw [mem_cells_zipIdx]; exact ⟨by rw [toSamples_length]; exact hi, rfl⟩
    · simp [hf]
  · intro hall
    have hany : ¬ ((cells (toSamples v) k (k.length / 2)).zipIdx.any
          (fun c => (c.1.2.isZero && !np) || !anySample (toSamples v) (k.length / 2) c.2 k 0) = true) := by
      rw [List.any_eq_true]
      rintro ⟨c, hc, hp⟩
      rw [mem_cells_zipIdx, toSamples_length] at hc
      obtain ⟨hc1, hc2⟩ := hc
      have hnf := inner_nonfin (toSamples v) (k.length / 2) c.2 k hk 0 0 0 (Or.inl (hall _ hc1))
      rw [← hc2] at hnf
      simp [hall _ hc1, Ext.isZero_nonfin _ hnf.2] at hp
    have htemp : ∀ i, i < v.length →
        ((cells (toSamples v) k (k.length / 2)).map (fun c => c.1 / c.2))[i]? = some .nan := by
      intro i hi
      rw [List.getElem?_map, cells_getElem?, toSamples_length, if_pos hi]
      have hnf := inner_nonfin (toSamples v) (k.length / 2) i k hk 0 0 0 (Or.inl (hall _ hi))
      simp only [Option.map_some]
      rw [Ext.div_nonfin _ _ hnf.1 hnf.2]
    refine ⟨?_, ?_⟩
    · intro hb hlt
      rw [filterWindowX_eq, if_neg hodd', if_neg hany, hb, if_neg (by simp), if_pos hlt]
    · intro hor
      cases boundary with
      | true =>
        refine ⟨_, by rw [filterWindowX_eq, if_neg hodd', if_neg hany, if_pos rfl], ?_, ?_⟩
        · simp [cells_length, toSamples_length]
        · intro i hi
          exact ⟨fun _ => htemp i hi, fun h => by simp at h⟩
      | false =>
        have hD : k.length / 2 ≤ v.length := by
          rcases hor with h | h
          · simp at h
          · exact h
        refine ⟨_, by rw [filterWindowX_eq, if_neg hodd', if_neg hany, if_neg (by simp), if_neg (by omega)], ?_, ?_⟩
        · simp
        · intro i hi
          refine ⟨?_, ?_⟩
          · intro h
            rcases h with h | h
            · simp at h
            · rw [List.getElem?_map, List.getElem?_range hi]
              simp only [Option.map_some]
              rw [if_neg (by omega), htemp i hi]; rfl
          · intro _ h
            rw [List.getElem?_map, List.getElem?_range hi]
            simp only [Option.map_some]
            rw [if_pos h]
            simp [hi]

theorem Ext.nan_add (y : Ext α) : Ext.nan + y = .nan := by cases y <;> rfl
theorem Ext.add_nan (x : Ext α) : x + Ext.nan = .nan := by cases x <;> rfl

theorem foldl_add_nonfin (k : List (Ext α)) : ∀ x : Ext α, x.isFin = false → (k.foldl (· + ·) x).isFin = false := by
  induction k with
  | nil => intro x hx; exact hx
  | cons w ks ih => intro x hx; exact ih _ (Ext.nonfin_add _ _ hx)

/-- a finite total means that every weight is finite (in `Ext.add` only `fin + fin` is `fin`) -/
theorem foldl_add_fin (k : List (Ext α)) : ∀ (a s : α), k.foldl (· + ·) (Ext.fin a) = Ext.fin s → ∀ w ∈ k, w.isFin = true := by
  induction k with
  | nil => intro a s _ w hw; simp at hw
  | cons w ks ih =>
    intro a s h w' hw'
    rw [List.foldl_cons] at h
    cases hw : w with
    | fin b =>
      rw [hw] at h
      rcases List.mem_cons.1 hw' with h1 | h1
      · rw [h1, hw]; rfl
      · exact ih (a + b) s h w' h1
    | pinf | ninf | nan =>
      have h2 := foldl_add_nonfin ks (Ext.fin a + w) (Ext.add_nonfin _ _ (by rw [hw]; rfl))
      rw [h] at h2
      simp [Ext.isFin] at h2

theorem foldl_add_nan_start (k : List (Ext α)) : k.foldl (· + ·) Ext.nan = Ext.nan := by
  induction k with
  | nil => rfl
  | cons w ks ih => rw [List.foldl_cons, Ext.nan_add]; exact ih

/-- `nan` is absorbing: a list holding a NaN has total NaN, from any start -/
theorem foldl_add_nan (k : List (Ext α)) (hk : Ext.nan ∈ k) : ∀ x : Ext α, k.foldl (· + ·) x = Ext.nan := by
  induction k with
  | nil => simp at hk
  | cons w ks ih =>
    intro x
    rw [List.foldl_cons]
    rcases List.mem_cons.1 hk with h | h
    · rw [← h, Ext.add_nan]; exact foldl_add_nan_start ks
    · exact ih h _

theorem normalise_eq (k : List (Ext α)) : normalise k = k.map (· / k.foldl (· + ·) 0) := rfl

theorem normalise_length (k : List (Ext α)) : (normalise k).length = k.length := by simp [normalise]

/-- a total equal to 0: every `a / 0` is `inf`, `-inf` or `nan` -/
theorem normalise_zero_total (k : List (Ext α)) (z : α) (h : k.foldl (· + ·) 0 = Ext.fin z) (h1 : ¬ 0 < z) (h2 : ¬ z < 0) :
    ∀ w ∈ normalise k, w.isFin = false := by
  intro w hw
  rw [normalise_eq, h, List.mem_map] at hw
  obtain ⟨x, hx, rfl⟩ := hw
  have hfin := foldl_add_fin k 0 z h x hx
  cases x with
  | fin a =>
    have : (Ext.fin a / Ext.fin z : Ext α) = Ext.mulInf a true := by
      simp [Ext.div_def, Ext.div, h1, h2]
    rw [this]; exact Ext.mulInf_nonfin _ _
  | pinf | ninf | nan => simp [Ext.isFin] at hfin

/-- a NaN total: every weight becomes NaN -/
theorem normalise_nan_total (k : List (Ext α)) (h : k.foldl (· + ·) 0 = Ext.nan) : ∀ w ∈ normalise k, w = .nan := by
  intro w hw
  rw [normalise_eq, h, List.mem_map] at hw
  obtain ⟨x, _, rfl⟩ := hw
  cases x <;> rfl

/-- **A weight list whose total is 0** (e.g. `[1,-1,0]`, `[0,0,0]`) **or NaN** (a NaN among the weights: a kernel given as the name of a feature
holding a NaN): `kernel[i] /= np.sum(np.array(kernel))` does not raise (numpy scalars); the caller's list is left holding only `inf`, `-inf`,
`nan`; the call fails with a ZeroDivisionError iff some window reads no sample at all (and with an IndexError below the half window);
otherwise it returns the copied boundary values and NaN at every filtered index — never a number. The property (a weighted mean) demands nothing
there: no renormalisation exists. -/
theorem list_zero_or_nan_total (v k : List (Ext α)) (hodd : k.length % 2 = 1)
    (htot : (∃ z, k.foldl (· + ·) 0 = Ext.fin z ∧ ¬ 0 < z ∧ ¬ z < 0) ∨ k.foldl (· + ·) 0 = Ext.nan) :
    (∀ w ∈ normalise k, w.isFin = false) ∧
    ((∃ i, i < v.length ∧ anySample (toSamples v) (k.length / 2) i (normalise k) 0 = false) → executeListX v k = .error .zeroDiv) ∧
    ((∀ i, i < v.length → anySample (toSamples v) (k.length / 2) i (normalise k) 0 = true) → k.length / 2 ≤ v.length →
        ∃ out, executeListX v k = .ok (normalise k, out) ∧ out.length = v.length ∧
          ∀ i, i < v.length →
            ((k.length / 2 ≤ i ∧ i < v.length - k.length / 2) → out[i]? = some .nan) ∧
            ((i < k.length / 2 ∨ v.length - k.length / 2 ≤ i) → out[i]? = v[i]?)) := by
  have hnf : ∀ w ∈ normalise k, w.isFin = false := by
    rcases htot with ⟨z, h, h1, h2⟩ | h
    · exact normalise_zero_total k z h h1 h2
    · intro w hw; rw [normalise_nan_total k h w hw]; rfl
  obtain ⟨h1, h2⟩ := nonfinite_weights_nan v (normalise k) false true (by rw [normalise_length]; exact hodd) hnf
  rw [normalise_length] at h1 h2
  refine ⟨hnf, ?_, ?_⟩
  · intro h
    unfold executeListX
    simp only [h1 h]
  · intro hall hD
    obtain ⟨out, ho, hl, hi⟩ := (h2 hall).2 (Or.inr hD)
    refine ⟨out, ?_, hl, ?_⟩
    · unfold executeListX
      simp only [ho]
    · intro i hi'
      obtain ⟨a, b⟩ := hi i hi'
      exact ⟨fun h => a (Or.inr h), b rfl⟩

example : executeListX (α := Int) [.fin 1, .fin 2, .fin 3, .fin 4, .fin 5] [.fin 1, .fin (-1), .fin 0]
    = .ok ([.pinf, .ninf, .nan], [.fin 1, .nan, .nan, .nan, .fin 5]) := by rfl

example : executeListX (α := Int) [.fin 1, .fin 2, .fin 3] [.fin 1, .nan, .fin 0]
    = .ok ([.nan, .nan, .nan], [.fin 1, .nan, .fin 3]) := by rfl

end filterX
section ordered
variable {α : Type} [Field α] [LinearOrder α] [IsStrictOrderedRing α]

/-- `isnan(val)` → skipped: the loop never reads a NaN -/
theorem sample_toSamples_ne_nan (v : List (Ext α)) (D i j : Nat) : sample (toSamples v) D i j ≠ some .nan := by
  unfold sample
  simp only
  split
  · simp
  · split
    · simp
    · unfold toSamples
      rw [List.getElem?_map]
      cases v[((i : Int) - j + D).toNat]? with
      | none => simp
      | some x => cases x <;> simp

theorem Ext.ok_add (t x : Ext α) (ht1 : t ≠ .ninf) (ht2 : t ≠ .nan) (hx1 : x ≠ .ninf) (hx2 : x ≠ .nan) :
    t + x ≠ .ninf ∧ t + x ≠ .nan ∧ ((t = .pinf ∨ x = .pinf) → t + x = .pinf) := by
  cases t <;> cases x <;> simp_all [Ext.add_def, Ext.add]

theorem Ext.ok_mul_pos (x : Ext α) (w : α) (hw : 0 < w) (hx1 : x ≠ .ninf) (hx2 : x ≠ .nan) :
    x * Ext.fin w ≠ .ninf ∧ x * Ext.fin w ≠ .nan ∧ (x = .pinf → x * Ext.fin w = .pinf) := by
  cases x <;> simp_all [Ext.mul_def, Ext.mul, Ext.mulInf, Ext.sgnInf]

/-- positive finite weights: the collected norm stays finite, does not decrease, and increases once a sample is read -/
theorem inner_norm_pos (s : List (Option (Ext α))) (D i : Nat) (ws : List α) (hpos : ∀ w ∈ ws, 0 < w) :
    ∀ (j : Nat) (t : Ext α) (n : α), ∃ n', (inner s D i (ws.map Ext.fin) j (t, Ext.fin n)).2 = Ext.fin n' ∧ n ≤ n' ∧
      ((∃ j', j ≤ j' ∧ j' < j + ws.length ∧ (sample s D i j').isSome) → n < n') := by
  induction ws with
  | nil =>
    intro j t n
    refine ⟨n, rfl, le_refl _, ?_⟩
    rintro ⟨j', h1, h2, _⟩
    simp at h2; omega
  | cons w ws' ih =>
    intro j t n
    have hw : 0 < w := hpos w (List.mem_cons_self ..)
    have ih' := ih (fun x hx => hpos x (List.mem_cons_of_mem _ hx))
    cases hs : sample s D i j with
    | none =>
      simp only [List.map_cons, inner, hs]
      obtain ⟨n', h1, h2, h3⟩ := ih' (j + 1) t n
      refine ⟨n', h1, h2, ?_⟩
      rintro ⟨j', hj1, hj2, hj3⟩
      apply h3
      have hne : j' ≠ j := by
        intro h; rw [h, hs] at hj3; simp at hj3
      simp only [List.length_cons] at hj2
      exact ⟨j', by omega, by omega, hj3⟩
    | some val =>
      simp only [List.map_cons, inner, hs]
      obtain ⟨n', h1, h2, _⟩ := ih' (j + 1) (t + val * Ext.fin w) (n + w)
      have hlt : n < n' := lt_of_lt_of_le (lt_add_of_pos_right n hw) h2
      exact ⟨n', h1, le_of_lt hlt, fun _ => hlt⟩

/-- positive finite weights, no `-inf` / NaN sample: the sum of products stays a number or `+inf`, and is `+inf` once a `+inf` sample is read -/
theorem inner_temp_pinf (s : List (Option (Ext α))) (D i : Nat) (ws : List α) (hpos : ∀ w ∈ ws, 0 < w) :
    ∀ (j : Nat) (t n : Ext α),
      (∀ j', j ≤ j' → j' < j + ws.length → sample s D i j' ≠ some .ninf ∧ sample s D i j' ≠ some .nan) →
      t ≠ .ninf → t ≠ .nan →
      (inner s D i (ws.map Ext.fin) j (t, n)).1 ≠ .ninf ∧ (inner s D i (ws.map Ext.fin) j (t, n)).1 ≠ .nan ∧
      ((t = .pinf ∨ ∃ j', j ≤ j' ∧ j' < j + ws.length ∧ sample s D i j' = some .pinf) →
        (inner s D i (ws.map Ext.fin) j (t, n)).1 = .pinf) := by
  induction ws with
  | nil =>
    intro j t n _ h1 h2
    refine ⟨h1, h2, ?_⟩
    rintro (h | ⟨j', h3, h4, _⟩)
    · exact h
    · simp at h4; omega
  | cons w ws' ih =>
    intro j t n hs' ht1 ht2
    have hw : 0 < w := hpos w (List.mem_cons_self ..)
    have ih' := ih (fun x hx => hpos x (List.mem_cons_of_mem _ hx))
    simp only [List.length_cons] at hs'
    have hrange : ∀ j', j + 1 ≤ j' → j' < j + 1 + ws'.length →
        sample s D i j' ≠ some .ninf ∧ sample s D i j' ≠ some .nan :=
      fun j' a b => hs' j' (by omega) (by omega)
    cases hs : sample s D i j with
    | none =>
      simp only [List.map_cons, inner, hs]
      obtain ⟨a, b, c⟩ := ih' (j + 1) t n hrange ht1 ht2
      refine ⟨a, b, ?_⟩
      rintro (h | ⟨j', h3, h4, h5⟩)
      · exact c (Or.inl h)
      · have hne : j' ≠ j := by
          intro h; rw [h, hs] at h5; simp at h5
        simp only [List.length_cons] at h4
        exact c (Or.inr ⟨j', by omega, by omega, h5⟩)
    | some val =>
      simp only [List.map_cons, inner, hs]
      have hv := hs' j (le_refl _) (by omega)
      rw [hs] at hv
      have hv1 : val ≠ .ninf := fun h => hv.1 (by rw [h])
      have hv2 : val ≠ .nan := fun h => hv.2 (by rw [h])
      obtain ⟨m1, m2, m3⟩ := Ext.ok_mul_pos val w hw hv1 hv2
      obtain ⟨a1, a2, a3⟩ := Ext.ok_add t (val * Ext.fin w) ht1 ht2 m1 m2
      obtain ⟨a, b, c⟩ := ih' (j + 1) (t + val * Ext.fin w) (n + Ext.fin w) hrange a1 a2
      refine ⟨a, b, ?_⟩
      rintro (h | ⟨j', h3, h4, h5⟩)
      · exact c (Or.inl (a3 (Or.inl h)))
      · by_cases hj : j' = j
        · rw [hj, hs] at h5
          have : val = .pinf := by simpa using h5
          exact c (Or.inl (a3 (Or.inr (m3 this))))
        · simp only [List.length_cons] at h4
          exact c (Or.inr ⟨j', by omega, by omega, h5⟩)

/-- **A window holding `+inf` samples and no `-inf`, all weights positive**: the output is `+inf` (`w·inf = inf`, `inf + x = inf`, `inf / Σw = inf`).
With Python floats or numpy scalars alike. -/
theorem inf_sample_pinf (v : List (Ext α)) (ws : List α) (boundary np : Bool) (hpos : ∀ w ∈ ws, 0 < w) (out : List (Ext α))
    (h : filterWindowX v (ws.map .fin) boundary np = .ok out) (i : Nat) (hi : i < v.length)
    (hfilt : boundary = true ∨ (ws.length / 2 ≤ i ∧ i < v.length - ws.length / 2))
    (hp : ∃ j, j < ws.length ∧ sample (toSamples v) (ws.length / 2) i j = some .pinf)
    (hn : ∀ j, j < ws.length → sample (toSamples v) (ws.length / 2) i j ≠ some .ninf) :
    out[i]? = some .pinf := by
  obtain ⟨jp, hjp1, hjp2⟩ := hp
  have hcell : ((cells (toSamples v) (ws.map Ext.fin) (ws.length / 2)).map (fun c => c.1 / c.2))[i]? = some .pinf := by
    rw [List.getElem?_map, cells_getElem?, toSamples_length, if_pos hi]
    simp only [Option.map_some]
    obtain ⟨n', hA1, _, hA3⟩ := inner_norm_pos (toSamples v) (ws.length / 2) i ws hpos 0 0 0
    have hn' : 0 < n' := hA3 ⟨jp, Nat.zero_le _, by omega, by rw [hjp2]; rfl⟩
    obtain ⟨_, _, hB⟩ := inner_temp_pinf (toSamples v) (ws.length / 2) i ws hpos 0 0 0
      (fun j' _ hj' => ⟨hn j' (by omega), sample_toSamples_ne_nan v _ _ _⟩) (by intro h; cases h) (by intro h; cases h)
    have hB' := hB (Or.inr ⟨jp, Nat.zero_le _, by omega, hjp2⟩)
    have hA1' : (inner (toSamples v) (ws.length / 2) i (ws.map Ext.fin) 0 (0, 0)).2 = Ext.fin n' := hA1
    rw [hB', hA1']
    have : ¬ n' < 0 := not_lt_of_gt hn'
    simp [Ext.div_def, Ext.div, this]
  rw [filterWindowX_eq] at h
  simp only [List.length_map] at h
  split at h
  · cases h
  split at h
  · cases h
  cases boundary with
  | true =>
    simp only [if_true, Except.ok.injEq] at h
    rw [← h]; exact hcell
  | false =>
    simp only [Bool.false_eq_true, if_false] at h
    split at h
    · cases h
    · simp only [Except.ok.injEq] at h
      rw [← h]
      rcases hfilt with hf | hf
      · simp at hf
      · rw [List.getElem?_map, List.getElem?_range hi]
        simp only [Option.map_some]
        rw [if_neg (by omega), hcell]; rfl

theorem Ext.step_pos (t val : Ext α) (w : α) (hw : 0 < w) (hv : val ≠ .nan) :
    (t = .nan → t + val * Ext.fin w = .nan) ∧
    ((t = .pinf ∨ val = .pinf) → t + val * Ext.fin w = .pinf ∨ t + val * Ext.fin w = .nan) ∧
    ((t = .ninf ∨ val = .ninf) → t + val * Ext.fin w = .ninf ∨ t + val * Ext.fin w = .nan) := by
  cases t <;> cases val <;> simp_all [Ext.add_def, Ext.add, Ext.mul_def, Ext.mul, Ext.mulInf, Ext.sgnInf]

/-- positive finite weights: a NaN sum of products stays NaN, and `+inf` and `-inf` meeting in the sum give NaN -/
theorem inner_temp_nan (s : List (Option (Ext α))) (D i : Nat) (ws : List α) (hpos : ∀ w ∈ ws, 0 < w) :
    ∀ (j : Nat) (t n : Ext α),
      (∀ j', j ≤ j' → j' < j + ws.length → sample s D i j' ≠ some .nan) →
      (t = .nan ∨ ((t = .pinf ∨ ∃ j', j ≤ j' ∧ j' < j + ws.length ∧ sample s D i j' = some .pinf) ∧
                   (t = .ninf ∨ ∃ j', j ≤ j' ∧ j' < j + ws.length ∧ sample s D i j' = some .ninf))) →
      (inner s D i (ws.map Ext.fin) j (t, n)).1 = .nan := by
  induction ws with
  | nil =>
    intro j t n _ h
    rcases h with h | ⟨hA, hB⟩
    · exact h
    · exfalso
      rcases hA with hA | ⟨j', a, b, _⟩
      · rcases hB with hB | ⟨j', a, b, _⟩
        · rw [hA] at hB; cases hB
        · simp at b; omega
      · simp at b; omega
  | cons w ws' ih =>
    intro j t n hs' h
    have hw : 0 < w := hpos w (List.mem_cons_self ..)
    have ih' := ih (fun x hx => hpos x (List.mem_cons_of_mem _ hx))
    simp only [List.length_cons] at hs' h
    have hrange : ∀ j', j + 1 ≤ j' → j' < j + 1 + ws'.length → sample s D i j' ≠ some .nan :=
      fun j' a b => hs' j' (by omega) (by omega)
    have shift : ∀ X : Ext α, (∃ j', j ≤ j' ∧ j' < j + (ws'.length + 1) ∧ sample s D i j' = some X) →
        sample s D i j = some X ∨ ∃ j', j + 1 ≤ j' ∧ j' < j + 1 + ws'.length ∧ sample s D i j' = some X := by
      rintro X ⟨j', a, b, c⟩
      by_cases hj : j' = j
      · left; rw [← hj]; exact c
      · right; exact ⟨j', by omega, by omega, c⟩
    cases hs : sample s D i j with
    | none =>
      simp only [List.map_cons, inner, hs]
      apply ih' (j + 1) t n hrange
      rcases h with h | ⟨hA, hB⟩
      · exact Or.inl h
      · right
        refine ⟨?_, ?_⟩
        · rcases hA with hA | hA
          · exact Or.inl hA
          · rcases shift _ hA with h1 | h1
            · rw [hs] at h1; cases h1
            · exact Or.inr h1
        · rcases hB with hB | hB
          · exact Or.inl hB
          · rcases shift _ hB with h1 | h1
            · rw [hs] at h1; cases h1
            · exact Or.inr h1
    | some val =>
      simp only [List.map_cons, inner, hs]
      have hv : val ≠ .nan := by
        intro hh
        exact hs' j (le_refl _) (by omega) (by rw [hs, hh])
      obtain ⟨s1, s3, s4⟩ := Ext.step_pos t val w hw hv
      apply ih' (j + 1) _ _ hrange
      by_cases hnan : t + val * Ext.fin w = .nan
      · exact Or.inl hnan
      · right
        rcases h with h | ⟨hA, hB⟩
        · exact absurd (s1 h) hnan
        · refine ⟨?_, ?_⟩
          · rcases hA with hA | hA
            · exact Or.inl ((s3 (Or.inl hA)).resolve_right hnan)
            · rcases shift _ hA with h1 | h1
              · rw [hs] at h1
                have : val = .pinf := by simpa using h1
                exact Or.inl ((s3 (Or.inr this)).resolve_right hnan)
              · exact Or.inr h1
          · rcases hB with hB | hB
            · exact Or.inl ((s4 (Or.inl hB)).resolve_right hnan)
            · rcases shift _ hB with h1 | h1
              · rw [hs] at h1
                have : val = .ninf := by simpa using h1
                exact Or.inl ((s4 (Or.inr this)).resolve_right hnan)
              · exact Or.inr h1

/-- **A window holding both a `+inf` and a `-inf` sample, all weights positive**: the output is NaN (`inf + -inf`), and no exception is raised. -/
theorem inf_sample_both_nan (v : List (Ext α)) (ws : List α) (boundary np : Bool) (hpos : ∀ w ∈ ws, 0 < w) (out : List (Ext α))
    (h : filterWindowX v (ws.map .fin) boundary np = .ok out) (i : Nat) (hi : i < v.length)
    (hfilt : boundary = true ∨ (ws.length / 2 ≤ i ∧ i < v.length - ws.length / 2))
    (hp : ∃ j, j < ws.length ∧ sample (toSamples v) (ws.length / 2) i j = some .pinf)
    (hn : ∃ j, j < ws.length ∧ sample (toSamples v) (ws.length / 2) i j = some .ninf) :
    out[i]? = some .nan := by
  obtain ⟨jp, hjp1, hjp2⟩ := hp
  obtain ⟨jn, hjn1, hjn2⟩ := hn
  have hcell : ((cells (toSamples v) (ws.map Ext.fin) (ws.length / 2)).map (fun c => c.1 / c.2))[i]? = some .nan := by
    rw [List.getElem?_map, cells_getElem?, toSamples_length, if_pos hi]
    simp only [Option.map_some]
    have hB := inner_temp_nan (toSamples v) (ws.length / 2) i ws hpos 0 0 0
      (fun j' _ _ => sample_toSamples_ne_nan v _ _ _)
      (Or.inr ⟨Or.inr ⟨jp, Nat.zero_le _, by omega, hjp2⟩, Or.inr ⟨jn, Nat.zero_le _, by omega, hjn2⟩⟩)
    rw [hB]
    rfl
  rw [filterWindowX_eq] at h
  simp only [List.length_map] at h
  split at h
  · cases h
  split at h
  · cases h
  cases boundary with
  | true =>
    simp only [if_true, Except.ok.injEq] at h
    rw [← h]; exact hcell
  | false =>
    simp only [Bool.false_eq_true, if_false] at h
    split at h
    · cases h
    · simp only [Except.ok.injEq] at h
      rw [← h]
      rcases hfilt with hf | hf
      · simp at hf
      · rw [List.getElem?_map, List.getElem?_range hi]
        simp only [Option.map_some]
        rw [if_neg (by omega), hcell]; rfl

example : filterWindowX (α := Int) [.fin 1, .pinf, .fin 3] [.fin 1, .fin 1, .fin 1] true false = .ok [.pinf, .pinf, .pinf] := by rfl

example : filterWindowX (α := Int) [.pinf, .fin 0, .ninf] [.fin 1, .fin 1, .fin 1] true false = .ok [.pinf, .nan, .ninf] := by rfl

end ordered
end TV.C15
