import TracklibVerif.Model.FilterExt
namespace TV.C15
open TV.Filter
set_option linter.unusedSectionVars false

section ops
variable {α : Type} [Add α] [Mul α] [Div α] [OfNat α 0] [LT α] [DecidableLT α]

theorem Ext.add_def (x y : Ext α) : x + y = Ext.add x y := rfl
theorem Ext.mul_def (x y : Ext α) : x * y = Ext.mul x y := rfl
theorem Ext.div_def (x y : Ext α) : x / y = Ext.div x y := rfl
theorem Ext.zero_def : (0 : Ext α) = Ext.fin 0 := rfl

/-- `a * ±inf` is never a number -/
theorem Ext.mulInf_nonfin (a : α) (pos : Bool) : (Ext.mulInf a pos).isFin = false := by
  unfold Ext.mulInf Ext.sgnInf
  by_cases h1 : 0 < a <;> by_cases h2 : a < 0 <;> cases pos <;> simp [h1, h2, Ext.isFin]

/-- adding a non-finite value gives a non-finite value -/
theorem Ext.add_nonfin (x y : Ext α) (hy : y.isFin = false) : (x + y).isFin = false := by
  cases x <;> cases y <;> simp_all [Ext.add_def, Ext.add, Ext.isFin]

/-- adding to a non-finite value gives a non-finite value -/
theorem Ext.nonfin_add (x y : Ext α) (hx : x.isFin = false) : (x + y).isFin = false := by
  cases x <;> cases y <;> simp_all [Ext.add_def, Ext.add, Ext.isFin]

/-- multiplying by a non-finite value gives a non-finite value (`0 * inf` is `nan`) -/
theorem Ext.mul_nonfin (x y : Ext α) (hy : y.isFin = false) : (x * y).isFin = false := by
  cases x <;> cases y <;> first | exact Ext.mulInf_nonfin _ _ | rfl | (simp [Ext.isFin] at hy)

/-- a non-finite value divided by a non-finite value is `nan` -/
theorem Ext.div_nonfin (x y : Ext α) (hx : x.isFin = false) (hy : y.isFin = false) : x / y = .nan := by
  cases x <;> cases y <;> simp_all [Ext.div_def, Ext.div, Ext.isFin]

theorem Ext.isZero_nonfin (x : Ext α) (hx : x.isFin = false) : x.isZero = false := by
  cases x <;> simp_all [Ext.isZero, Ext.isFin]

end ops

section loops
variable {β : Type} [Add β] [Mul β]

/-- a window that reads no sample leaves the state untouched (any weights) -/
theorem inner_noSample (s : List (Option β)) (D i : Nat) (k : List β) :
    ∀ (j : Nat) (st : β × β), anySample s D i k j = false → inner s D i k j st = st := by
  induction k with
  | nil => intro j st _; rfl
  | cons kj ks ih =>
    intro j st h
    obtain ⟨t, n⟩ := st
    simp only [anySample, Bool.or_eq_false_iff] at h
    obtain ⟨h1, h2⟩ := h
    cases hs : sample s D i j with
    | none => simp only [inner, hs]; exact ih _ _ h2
    | some val => rw [hs] at h1; simp at h1

theorem cells_getElem? (s : List (Option β)) (k : List β) (D i : Nat) [OfNat β 0] :
    (cells s k D)[i]? = if i < s.length then some (inner s D i k 0 (0, 0)) else none := by
  unfold cells
  by_cases h : i < s.length
  · simp [h]
  · simp [h]

theorem mem_cells_zipIdx [OfNat β 0] (s : List (Option β)) (k : List β) (D : Nat) (c : (β × β) × Nat) :
    c ∈ (cells s k D).zipIdx ↔ c.2 < s.length ∧ c.1 = inner s D c.2 k 0 (0, 0) := by
  rw [List.mem_zipIdx_iff_getElem?, cells_getElem?]
  by_cases h : c.2 < s.length
  · simp [h, eq_comm]
  · simp [h]

theorem cells_length [OfNat β 0] (s : List (Option β)) (k : List β) (D : Nat) : (cells s k D).length = s.length := by
  simp [cells]

end loops

section filterX
variable {α : Type} [Add α] [Mul α] [Div α] [OfNat α 0] [LT α] [DecidableLT α]

theorem toSamples_length (v : List (Ext α)) : (toSamples v).length = v.length := by simp [toSamples]

/-- the loop with non-finite weights: once a sample was read, or from a non-finite state, both accumulators are non-finite -/
theorem inner_nonfin (s : List (Option (Ext α))) (D i : Nat) (k : List (Ext α)) (hk : ∀ w ∈ k, w.isFin = false) :
    ∀ (j : Nat) (t n : Ext α), (anySample s D i k j = true ∨ (t.isFin = false ∧ n.isFin = false)) →
      (inner s D i k j (t, n)).1.isFin = false ∧ (inner s D i k j (t, n)).2.isFin = false := by
  induction k with
  | nil =>
    intro j t n h
    rcases h with h | h
    · simp [anySample] at h
    · exact h
  | cons kj ks ih =>
    intro j t n h
    have hkj : kj.isFin = false := hk kj (List.mem_cons_self ..)
    have ih' := ih (fun w hw => hk w (List.mem_cons_of_mem _ hw))
    cases hs : sample s D i j with
    | none =>
      simp only [inner, hs]
      apply ih'
      rcases h with h | h
      · left; simpa [anySample, hs] using h
      · right; exact h
    | some val =>
      simp only [inner, hs]
      apply ih'
      right
      exact ⟨Ext.add_nonfin _ _ (Ext.mul_nonfin _ _ hkj), Ext.add_nonfin _ _ hkj⟩

theorem filterWindowX_eq (v k : List (Ext α)) (boundary np : Bool) :
    filterWindowX v k boundary np =
      if k.length % 2 == 0 then .error .evenKernel
      else if (cells (toSamples v) k (k.length / 2)).zipIdx.any
          (fun c => (c.1.2.isZero && !np) || !anySample (toSamples v) (k.length / 2) c.2 k 0) then .error .zeroDiv
      else if boundary then .ok ((cells (toSamples v) k (k.length / 2)).map (fun c => c.1 / c.2))
      else if v.length < k.length / 2 then .error .index
      else .ok ((List.range v.length).map (fun i =>
        if i < k.length / 2 ∨ v.length - k.length / 2 ≤ i then (v[i]?).getD .nan
        else ((((cells (toSamples v) k (k.length / 2)).map (fun c => c.1 / c.2)))[i]?).getD .nan)) := rfl

/-- **Weights that are all `inf` / `-inf` / `nan`** (what `kernel[i] /= norm` leaves when the total is 0 or NaN): every window that reads
at least one sample yields NaN (`±inf·x`, `nan·x` summed, divided by a sum of such weights: `inf/inf`, `nan/…`); a window that reads no
sample divides the untouched ints `0 / 0`: ZeroDivisionError. No law of arithmetic is used. -/
theorem nonfinite_weights_nan (v k : List (Ext α)) (boundary np : Bool) (hodd : k.length % 2 = 1) (hk : ∀ w ∈ k, w.isFin = false) :
    ((∃ i, i < v.length ∧ anySample (toSamples v) (k.length / 2) i k 0 = false) → filterWindowX v k boundary np = .error .zeroDiv) ∧
    ((∀ i, i < v.length → anySample (toSamples v) (k.length / 2) i k 0 = true) →
      (boundary = false → v.length < k.length / 2 → filterWindowX v k boundary np = .error .index) ∧
      ((boundary = true ∨ k.length / 2 ≤ v.length) →
        ∃ out, filterWindowX v k boundary np = .ok out ∧ out.length = v.length ∧
          ∀ i, i < v.length →
            ((boundary = true ∨ (k.length / 2 ≤ i ∧ i < v.length - k.length / 2)) → out[i]? = some .nan) ∧
            (boundary = false → (i < k.length / 2 ∨ v.length - k.length / 2 ≤ i) → out[i]? = v[i]?))) := by
  have hodd' : ¬ ((k.length % 2 == 0) = true) := by simp [hodd]
  refine ⟨?_, ?_⟩
  · rintro ⟨i, hi, hf⟩
    rw [filterWindowX_eq, if_neg hodd', if_pos]
    rw [List.any_eq_true]
    refine ⟨(inner (toSamples v) (k.length / 2) i k 0 (0, 0), i), ?_, ?_⟩
    · rw [mem_cells_zipIdx]; exact ⟨by rw [toSamples_length]; exact hi, rfl⟩
    · simp [hf]
  · intro hall
    have hany : ¬ ((cells (toSamples v) k (k.length / 2)).zipIdx.any
          (fun c => (c.1.2.isZero && !np) || !anySample (toSamples v) (k.length / 2) c.2 k 0) = true) := by
      rw [List.any_eq_true]
      rintro ⟨c, hc, hp⟩
      rw [mem_cells_zipIdx, toSamples_length] at hc
      obtain ⟨hc1, hc2⟩ := hc
      have hnf := inner_nonfin (toSamples v) (k.length / 2) c.2 k hk 0 0 0 (Or.inl (hall _ hc1))
      rw [← hc2] at hnf
      simp [hall _ hc1, Ext.isZero_nonfin _ hnf.2] at hp
    have htemp : ∀ i, i < v.length →
        ((cells (toSamples v) k (k.length / 2)).map (fun c => c.1 / c.2))[i]? = some .nan := by
      intro i hi
      rw [List.getElem?_map, cells_getElem?, toSamples_length, if_pos hi]
      have hnf := inner_nonfin (toSamples v) (k.length / 2) i k hk 0 0 0 (Or.inl (hall _ hi))
      simp only [Option.map_some]
      rw [Ext.div_nonfin _ _ hnf.1 hnf.2]
    refine ⟨?_, ?_⟩
    · intro hb hlt
      rw [filterWindowX_eq, if_neg hodd', if_neg hany, hb, if_neg (by simp), if_pos hlt]
    · intro hor
      cases boundary with
      | true =>
        refine ⟨_, by rw [filterWindowX_eq, if_neg hodd', if_neg hany, if_pos rfl], ?_, ?_⟩
        · simp [cells_length, toSamples_length]
        · intro i hi
          exact ⟨fun _ => htemp i hi, fun h => by simp at h⟩
      | false =>
        have hD : k.length / 2 ≤ v.length := by
          rcases hor with h | h
          · simp at h
          · exact h
        refine ⟨_, by rw [filterWindowX_eq, if_neg hodd', if_neg hany, if_neg (by simp), if_neg (by omega)], ?_, ?_⟩
        · simp
        · intro i hi
          refine ⟨?_, ?_⟩
          · intro h
            rcases h with h | h
            · simp at h
            · rw [List.getElem?_map, List.getElem?_range hi]
              simp only [Option.map_some]
              rw [if_neg (by omega), htemp i hi]; rfl
          · intro _ h
            rw [List.getElem?_map, List.getElem?_range hi]
            simp only [Option.map_some]
            rw [if_pos h]
            simp [hi]

end filterX
end TV.C15
