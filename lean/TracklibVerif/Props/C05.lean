import TracklibVerif.Lemmas.Resample
import Mathlib.Data.Rat.Floor
import Mathlib.Analysis.Real.Sqrt
/-! # C05 — linear resampling returns the piecewise-linear interpolant of the track

Property theorems only (helper lemmas are in `Lemmas/Resample.lean`). The model
(`Model/Resample.lean`) mirrors `prepareTimeSampling`, `__resampleTemporal`, `__resampleSpatial` and
`Track.resample`; a fix is `(x, y, z, t)` with `t = timestamp.toAbsTime()`. All statements are over an
arbitrary linearly ordered field (ℚ, ℝ): for every track, every list of instants, every step.

`sampleT P t` / `sampleS P S s` (Lemmas) are the *specification* samples: the point of the leg
`r = firstGE v V` — the number of abscissas `< v`, i.e. the first index with `v ≤ V[r]` — at fraction
`(v − V[r−1]) / (V[r] − V[r−1])`. Theorems T2/T3 say what that leg is. -/
namespace TV.C05
open TV.Resample

variable {α : Type} [Field α] [LinearOrder α] [IsStrictOrderedRing α]

/-- T1 `temporal_count`. For a non-empty track and a chronological list of requested instants,
`__resampleTemporal` raises nothing and returns exactly one observation per requested instant lying in
`(tini, tfin]` (after the first, not after the last original stamp), in order, stamped with that instant;
each is the specification sample `sampleT` (see T2). -/
theorem temporal_count (trunc : α → Int) (P : List (Fix α)) (hn : 0 < P.length) (ref : List α)
    (href : ref.Pairwise (· ≤ ·)) :
    ∃ out, resampleTemporal trunc P (.instants ref) = .ok out ∧
      out = (ref.filter (inRange (P[0]).t (P[P.length - 1]).t)).map (sampleT P) ∧
      out.length = (ref.filter (inRange (P[0]).t (P[P.length - 1]).t)).length ∧
      out.map (·.t) = ref.filter (inRange (P[0]).t (P[P.length - 1]).t) := by
  refine ⟨_, resampleTemporal_instants trunc P hn ref href, rfl, by simp, ?_⟩
  rw [List.map_map]
  conv_rhs => rw [← List.map_id (ref.filter _)]
  apply List.map_congr_left
  intro t _
  simp [sampleT, lerpFix]

/-- T1' `temporal_count_any_order`. On a track whose stamps never decrease, the requested instants may
come in ANY order (repetitions included): `__resampleTemporal` raises nothing and returns exactly one
observation per requested instant lying in `(tini, tfin]`, in the order of the request, stamped with that
instant, each being the specification sample (T2). (Since the fix commit ee0419b: the scan restarts when the
previous bracket is already past the instant, and an instant after the last fix no longer ends the loop.) -/
theorem temporal_count_any_order (trunc : α → Int) (P : List (Fix α)) (hn : 0 < P.length)
    (hT : (P.map (·.t)).Pairwise (· ≤ ·)) (ref : List α) :
    ∃ out, resampleTemporal trunc P (.instants ref) = .ok out ∧
      out = (ref.filter (inRange (P[0]).t (P[P.length - 1]).t)).map (sampleT P) ∧
      out.length = (ref.filter (inRange (P[0]).t (P[P.length - 1]).t)).length ∧
      out.map (·.t) = ref.filter (inRange (P[0]).t (P[P.length - 1]).t) := by
  refine ⟨_, resampleTemporal_instants_any trunc P hn hT ref, rfl, by simp, ?_⟩
  rw [List.map_map]
  conv_rhs => rw [← List.map_id (ref.filter _)]
  apply List.map_congr_left
  intro t _
  simp [sampleT, lerpFix]

/-- T2 `temporal_bracket`. With strictly increasing stamps, the sample returned for an instant
`t ∈ (tini, tfin]` uses the unique leg `r ≥ 1` with `T[r−1] < t ≤ T[r]` (so the denominator
`T[r] − T[r−1]` is positive) and is `P[r−1] + ((t − T[r−1]) / (T[r] − T[r−1])) · (P[r] − P[r−1])`
in x, y and z, stamped `t`. -/
theorem temporal_bracket (P : List (Fix α)) (hn : 0 < P.length)
    (hT : (P.map (·.t)).Pairwise (· < ·)) (t : α) (h1 : (P[0]).t < t) (h2 : t ≤ (P[P.length - 1]).t) :
    ∃ (r : Nat) (_ : 1 ≤ r) (hr : r < P.length),
      (P[r - 1]'(by omega)).t < t ∧ t ≤ P[r].t ∧ 0 < P[r].t - (P[r - 1]'(by omega)).t ∧
      sampleT P t = lerpFix (P[r - 1]'(by omega)) P[r]
        ((t - (P[r - 1]'(by omega)).t) / (P[r].t - (P[r - 1]'(by omega)).t)) t ∧
      (∀ k, 1 ≤ k → (hk : k < P.length) → (P[k - 1]'(by omega)).t < t → t ≤ P[k].t → k = r) := by
  have hlen : 0 < (P.map (·.t)).length := by simpa using hn
  obtain ⟨hr1, hrlt, hb1, hb2⟩ := firstGE_bracket (P.map (·.t)) t hlen (by simpa using h1) (by simpa using h2)
  have hrP : firstGE t (P.map (·.t)) < P.length := by simpa using hrlt
  simp only [List.getElem_map] at hb1 hb2
  refine ⟨firstGE t (P.map (·.t)), hr1, hrP, hb1, hb2, by linarith, ?_, ?_⟩
  · simp only [sampleT, fixAt_eq P _ hrP, fixAt_eq P (firstGE t (P.map (·.t)) - 1) (by omega)]
  · intro k hk1 hk hlo hhi
    have hV : (P.map (·.t)).Pairwise (· ≤ ·) := hT.imp le_of_lt
    exact (firstGE_unique (P.map (·.t)) hV t k hk1 (by simpa using hk) (by simpa using hlo)
      (by simpa using hhi)).symm

/-- T1/T2 for a numeric step `δ > 0` (`prepareTimeSampling` + `__resampleTemporal`): the result is
exactly the `K` samples at `tini + δ, tini + 2δ, …, tini + Kδ` where `K = int((tfin − tini)/δ)`, i.e.
`tini + Kδ ≤ tfin < tini + (K+1)δ`: every multiple of the step inside the range, the last one included
when the step divides the duration. -/
theorem temporal_number_step (trunc : α → Int) (htr : TruncSpec trunc) (P : List (Fix α))
    (hn : 0 < P.length) (hdur : (P[0]).t ≤ (P[P.length - 1]).t) (δ : α) (hδ : 0 < δ) :
    ∃ K : Nat,
      resampleTemporal trunc P (.number δ)
        = .ok ((List.range K).map (fun (k : Nat) => sampleT P ((P[0]).t + ((k + 1 : Nat) : α) * δ))) ∧
      (P[0]).t + (K : α) * δ ≤ (P[P.length - 1]).t ∧ (P[P.length - 1]).t < (P[0]).t + ((K : α) + 1) * δ := by
  refine ⟨_, resampleTemporal_number trunc htr P hn hdur δ hδ, ?_⟩
  obtain ⟨hK1, hK2⟩ := htr (((P[P.length - 1]).t - (P[0]).t) / δ) (div_nonneg (by linarith) (le_of_lt hδ))
  have hne : δ ≠ 0 := ne_of_gt hδ
  constructor
  · have := mul_le_mul_of_nonneg_right hK1 (le_of_lt hδ)
    rw [div_mul_cancel₀ _ hne] at this
    linarith
  · have := mul_lt_mul_of_pos_right hK2 hδ
    rw [div_mul_cancel₀ _ hne] at this
    linarith

/-- T3a `spatial_samples`. `__resampleSpatial` with step `ds > 0` on a track whose 2D leg lengths are
`legs ≥ 0` raises nothing and returns the first fix followed by the `N` specification samples at
curvilinear abscissas `ds, 2ds, …, N·ds`, where `N = int(L/ds)` is the number of multiples of `ds` not
exceeding the length `L`: `N·ds ≤ L < (N+1)·ds`. -/
theorem spatial_samples (trunc : α → Int) (htr : TruncSpec trunc) (P : List (Fix α)) (legs : List α)
    (hlen : legs.length + 1 = P.length) (hlegs : ∀ x ∈ legs, 0 ≤ x) (ds : α) (hds : 0 < ds) :
    ∃ N : Nat,
      resampleSpatialLegs trunc P legs ds
        = .ok (P[0]'(by omega) :: (List.range N).map
            (fun (j : Nat) => sampleS P (cum legs) (((j + 1 : Nat) : α) * ds))) ∧
      (N : α) * ds ≤ polyLen legs ∧ polyLen legs < ((N : α) + 1) * ds := by
  refine ⟨_, resampleSpatialLegs_eq trunc htr P legs hlen hlegs ds hds, ?_⟩
  obtain ⟨hN1, hN2⟩ := htr (polyLen legs / ds) (div_nonneg (polyLen_nonneg legs hlegs) (le_of_lt hds))
  have hne : ds ≠ 0 := ne_of_gt hds
  constructor
  · have := mul_le_mul_of_nonneg_right hN1 (le_of_lt hds)
    rwa [div_mul_cancel₀ _ hne] at this
  · have := mul_lt_mul_of_pos_right hN2 hds
    rwa [div_mul_cancel₀ _ hne] at this

/-- T3 `spatial_on_polyline`. The sample at abscissa `s ∈ (0, L]` (in particular `s = k·ds`,
`1 ≤ k ≤ N`) lies on the unique leg `r ≥ 1` with `S[r−1] < s ≤ S[r]` (`S` = cumulated leg lengths); that leg
has positive length `S[r] − S[r−1] = legs[r−1]`; the sample is at fraction
`f = (s − S[r−1]) / legs[r−1] ∈ (0, 1]` of it, i.e. at curvilinear abscissa `S[r−1] + f·legs[r−1] = s`,
with x, y, height and time all interpolated with that same fraction. -/
theorem spatial_on_polyline (P : List (Fix α)) (legs : List α) (hlen : legs.length + 1 = P.length)
    (hlegs : ∀ x ∈ legs, 0 ≤ x) (s : α) (h0 : 0 < s) (h1 : s ≤ polyLen legs) :
    ∃ (r : Nat) (_ : 1 ≤ r) (hr : r < P.length),
      (cum legs).getD (r - 1) 0 < s ∧ s ≤ (cum legs).getD r 0 ∧
      (cum legs).getD r 0 - (cum legs).getD (r - 1) 0 = legs[r - 1]'(by omega) ∧
      0 < legs[r - 1]'(by omega) ∧
      0 < (s - (cum legs).getD (r - 1) 0) / legs[r - 1]'(by omega) ∧
      (s - (cum legs).getD (r - 1) 0) / legs[r - 1]'(by omega) ≤ 1 ∧
      (cum legs).getD (r - 1) 0
        + (s - (cum legs).getD (r - 1) 0) / legs[r - 1]'(by omega) * legs[r - 1]'(by omega) = s ∧
      sampleS P (cum legs) s = lerpFix (P[r - 1]'(by omega)) P[r]
        ((s - (cum legs).getD (r - 1) 0) / legs[r - 1]'(by omega))
        ((P[r - 1]'(by omega)).t
          + (s - (cum legs).getD (r - 1) 0) / legs[r - 1]'(by omega) * (P[r].t - (P[r - 1]'(by omega)).t)) ∧
      (∀ k, 1 ≤ k → k < P.length → (cum legs).getD (k - 1) 0 < s → s ≤ (cum legs).getD k 0 → k = r) :=
  sampleS_on_leg P legs hlen hlegs s h0 h1

/-- T4 `spatial_time_monotone`. With non-decreasing original stamps (in particular strictly increasing
ones) the timestamps of the spatially resampled track never decrease. -/
theorem spatial_time_monotone (trunc : α → Int) (htr : TruncSpec trunc) (P : List (Fix α))
    (legs : List α) (hlen : legs.length + 1 = P.length) (hlegs : ∀ x ∈ legs, 0 ≤ x)
    (hT : (P.map (·.t)).Pairwise (· ≤ ·)) (ds : α) (hds : 0 < ds) :
    ∃ out, resampleSpatialLegs trunc P legs ds = .ok out ∧ (out.map (·.t)).Pairwise (· ≤ ·) := by
  obtain ⟨N, heq, hN, _⟩ := spatial_samples trunc htr P legs hlen hlegs ds hds
  refine ⟨_, heq, ?_⟩
  have hSlen := cum_length legs
  have hS0 : (cum legs)[0]'(by omega) = 0 := cumFrom_head 0 legs
  have hin : ∀ j, j < N → (0 : α) < ((j + 1 : Nat) : α) * ds ∧ ((j + 1 : Nat) : α) * ds ≤ polyLen legs := by
    intro j hj
    have h1 : (0 : α) < ((j + 1 : Nat) : α) := by exact_mod_cast Nat.succ_pos j
    have h2 : ((j + 1 : Nat) : α) ≤ (N : α) := by exact_mod_cast hj
    have := mul_le_mul_of_nonneg_right h2 (le_of_lt hds)
    exact ⟨mul_pos h1 hds, by linarith⟩
  simp only [List.map_cons, List.map_map, List.pairwise_cons, List.pairwise_map]
  constructor
  · intro y hy
    obtain ⟨j, hj, rfl⟩ := List.mem_map.mp hy
    have hj : j < N := List.mem_range.mp hj
    obtain ⟨_, hrP, hlow, _⟩ := sampleS_t_bounds P (cum legs) (by omega) (by omega) hT _
      (by rw [hS0]; exact (hin j hj).1) (by rw [← polyLen_eq]; exact (hin j hj).2)
    have := times_mono P hT 0 (firstGE (((j + 1 : Nat) : α) * ds) (cum legs) - 1) (Nat.zero_le _) (by omega)
    simp only [Function.comp]
    linarith
  · refine List.Pairwise.imp_of_mem ?_ List.pairwise_lt_range
    intro a b ha hb hab
    have ha : a < N := List.mem_range.mp ha
    have hb : b < N := List.mem_range.mp hb
    have hle : ((a + 1 : Nat) : α) * ds ≤ ((b + 1 : Nat) : α) * ds := by
      have : ((a + 1 : Nat) : α) ≤ ((b + 1 : Nat) : α) := by exact_mod_cast (show a + 1 ≤ b + 1 by omega)
      exact mul_le_mul_of_nonneg_right this (le_of_lt hds)
    exact sampleS_t_mono P (cum legs) (by omega) (by omega) hT _ _ (by rw [hS0]; exact (hin a ha).1) hle
      (by rw [← polyLen_eq]; exact (hin b hb).2)


/-- T3b `spatial_legs`. The leg lengths `__resampleSpatial` accumulates are the planimetric (2D) distances
between consecutive fixes: one per leg, non-negative, with square `Δx² + Δy²` (height is ignored) —
for any `sqrt` satisfying the contract of `math.sqrt` on non-negative reals. Hence T3a/T3/T4 apply to
`resampleSpatial sqrt trunc P ds = resampleSpatialLegs trunc P (legs2D sqrt P) ds` for every non-empty track. -/
theorem spatial_legs (sqrt : α → α) (hs : SqrtSpec sqrt) (trunc : α → Int) (P : List (Fix α))
    (hn : 0 < P.length) (ds : α) :
    resampleSpatial sqrt trunc P ds = resampleSpatialLegs trunc P (legs2D sqrt P) ds ∧
    (legs2D sqrt P).length + 1 = P.length ∧ (∀ x ∈ legs2D sqrt P, 0 ≤ x) ∧
    (∀ i (hi : i < (legs2D sqrt P).length) (hi' : i + 1 < P.length),
      (legs2D sqrt P)[i] * (legs2D sqrt P)[i]
        = (P[i + 1].x - P[i].x) * (P[i + 1].x - P[i].x) + (P[i + 1].y - P[i].y) * (P[i + 1].y - P[i].y)) := by
  refine ⟨rfl, ?_, ?_, ?_⟩
  · induction P with
    | nil => simp at hn
    | cons a l ih =>
      cases l with
      | nil => simp [legs2D]
      | cons b l => simp only [legs2D, List.length_cons] at ih ⊢; have := ih (by simp); omega
  · induction P with
    | nil => simp [legs2D]
    | cons a l ih =>
      cases l with
      | nil => simp [legs2D]
      | cons b l =>
        intro x hx
        simp only [legs2D, List.mem_cons] at hx
        rcases hx with hx | hx
        · rw [hx]
          exact (hs _ (add_nonneg (mul_self_nonneg _) (mul_self_nonneg _))).1
        · exact ih (by simp) x hx
  · induction P with
    | nil => simp at hn
    | cons a l ih =>
      cases l with
      | nil => intro i hi; simp [legs2D] at hi
      | cons b l =>
        intro i hi hi'
        cases i with
        | zero =>
          simp only [legs2D, List.getElem_cons_zero, List.getElem_cons_succ]
          exact (hs _ (add_nonneg (mul_self_nonneg _) (mul_self_nonneg _))).2
        | succ i =>
          simp only [legs2D, List.getElem_cons_succ]
          exact ih (by simp) i (by simpa [legs2D] using hi) (by simpa using hi')

/-- T3c `spatial_distance_along_leg`. A point at fraction `f ≥ 0` of the leg `a → b` (as produced by T3) is at
planimetric distance `f · |ab|` from `a`: together with T3 (`S[r−1] + f·legs[r−1] = s`) the sample at
`s = k·ds` is at distance `s` from the first fix *measured along the original 2D polyline*. -/
theorem spatial_distance_along_leg (sqrt : α → α) (hs : SqrtSpec sqrt) (a b : Fix α) (f t : α) (hf : 0 ≤ f) :
    sqrt (((lerpFix a b f t).x - a.x) * ((lerpFix a b f t).x - a.x)
        + ((lerpFix a b f t).y - a.y) * ((lerpFix a b f t).y - a.y))
      = f * sqrt ((b.x - a.x) * (b.x - a.x) + (b.y - a.y) * (b.y - a.y)) := by
  have hD : 0 ≤ (b.x - a.x) * (b.x - a.x) + (b.y - a.y) * (b.y - a.y) :=
    add_nonneg (mul_self_nonneg _) (mul_self_nonneg _)
  have hrad : ((lerpFix a b f t).x - a.x) * ((lerpFix a b f t).x - a.x)
        + ((lerpFix a b f t).y - a.y) * ((lerpFix a b f t).y - a.y)
      = f * f * ((b.x - a.x) * (b.x - a.x) + (b.y - a.y) * (b.y - a.y)) := by
    simp only [lerpFix]; ring
  rw [hrad]
  obtain ⟨h1, h2⟩ := hs _ (mul_nonneg (mul_self_nonneg f) hD)
  obtain ⟨h3, h4⟩ := hs _ hD
  apply (mul_self_inj h1 (mul_nonneg hf h3)).mp
  rw [h2]
  calc f * f * ((b.x - a.x) * (b.x - a.x) + (b.y - a.y) * (b.y - a.y))
      = f * f * (sqrt ((b.x - a.x) * (b.x - a.x) + (b.y - a.y) * (b.y - a.y))
          * sqrt ((b.x - a.x) * (b.x - a.x) + (b.y - a.y) * (b.y - a.y))) := by rw [h4]
    _ = _ := by ring

/-- Front end `Track.resample(delta, ALGO_LINEAR, mode, npts, factor)`. (a) whenever it returns, the table
of analytical features is empty; (b) with an explicit `delta` on a non-empty track it is exactly
`__resampleTemporal` (mode 2) / `__resampleSpatial` (mode 1, numeric step); (c) with `delta = None` it is the
same call with the numeric step `(1+1e-8)·D/npts`, `D` the duration (temporal) or the 3D length (spatial) and
`npts` defaulting to `len(track)·factor`. -/
theorem frontend (sqrt : α → α) (trunc : α → Int) (g : α) (P : List (Fix α)) (feat : List String)
    (hn : 0 < P.length) (npts : Option Nat) (factor : Nat) :
    (∀ rq out f, resample sqrt trunc g P feat rq = .ok (out, f) → f = []) ∧
    (∀ d, resample sqrt trunc g P feat ⟨2, some d, npts, factor⟩
        = match resampleTemporal trunc P d with | .ok out => .ok (out, []) | .error e => .error e) ∧
    (∀ ds, resample sqrt trunc g P feat ⟨1, some (.number ds), npts, factor⟩
        = match resampleSpatial sqrt trunc P ds with | .ok out => .ok (out, []) | .error e => .error e) ∧
    (npts.getD (P.length * factor) ≠ 0 →
      resample sqrt trunc g P feat ⟨2, none, npts, factor⟩
        = resample sqrt trunc g P feat ⟨2, some (.number
            (g * ((P[P.length - 1]).t - (P[0]).t) / ((npts.getD (P.length * factor) : Nat) : α))), npts, factor⟩ ∧
      resample sqrt trunc g P feat ⟨1, none, npts, factor⟩
        = resample sqrt trunc g P feat ⟨1, some (.number
            (g * total (legs3D sqrt P) / ((npts.getD (P.length * factor) : Nat) : α))), npts, factor⟩) := by
  have hne : P.isEmpty = false := by cases P with | nil => simp at hn | cons a l => rfl
  refine ⟨?_, ?_, ?_, ?_⟩
  · intro rq out f h
    unfold resample at h
    simp only [hne] at h
    split at h
    · exact absurd h (by simp)
    · rename_i d _
      simp only [Bool.false_eq_true, if_false] at h
      split at h
      · split at h
        · split at h
          · exact absurd h (by simp)
          · simp only [Except.ok.injEq, Prod.mk.injEq] at h; exact h.2.symm
        · exact absurd h (by simp)
      · split at h
        · split at h
          · exact absurd h (by simp)
          · simp only [Except.ok.injEq, Prod.mk.injEq] at h; exact h.2.symm
        · simp only [Except.ok.injEq, Prod.mk.injEq] at h; exact h.2.symm
  · intro d
    simp only [resample, hne, Bool.false_eq_true, if_false]
    simp only [show (2 : Nat) = 1 ↔ False by decide, if_false, if_true]
    cases resampleTemporal trunc P d <;> rfl
  · intro ds
    simp only [resample, hne, Bool.false_eq_true, if_false, if_true]
    cases resampleSpatial sqrt trunc P ds <;> rfl
  · intro hnp
    cases npts with
    | none =>
      simp only [Option.getD_none] at hnp ⊢
      constructor
      · simp only [resample, hne, head?_times P hn, getLast?_times P hn, show (2 : Nat) = 1 ↔ False by decide,
          if_false, if_neg hnp]
      · simp only [resample, hne, if_true, if_neg hnp]
    | some n =>
      simp only [Option.getD_some] at hnp ⊢
      constructor
      · simp only [resample, hne, head?_times P hn, getLast?_times P hn, show (2 : Nat) = 1 ↔ False by decide,
          if_false, if_neg hnp]
      · simp only [resample, hne, if_true, if_neg hnp]

/-! ### non-vacuity -/

/-- the contract of `int()` is met by the floor function on ℚ (what the driver uses on non-negative values) -/
example : TruncSpec (fun x : ℚ => ⌊x⌋) := by
  intro x hx
  have h0 : 0 ≤ ⌊x⌋ := Int.floor_nonneg.mpr hx
  have hc : ((⌊x⌋.toNat : Nat) : ℚ) = ((⌊x⌋ : Int) : ℚ) := by
    have := Int.toNat_of_nonneg h0
    exact_mod_cast congrArg (fun z : Int => (z : ℚ)) this
  simp only [hc]
  exact ⟨Int.floor_le x, Int.lt_floor_add_one x⟩

/-- the contract of `math.sqrt` is met by the real square root -/
example : SqrtSpec Real.sqrt := fun x hx => ⟨Real.sqrt_nonneg x, Real.mul_self_sqrt hx⟩

/-- an irregularly sampled track with a pause: 4 fixes at 10, 20, 25, 40.5 s; legs 5, 0, 5 -/
def demo : List (Fix ℚ) := [⟨0, 0, 0, 10⟩, ⟨3, 4, 10, 20⟩, ⟨3, 4, 10, 25⟩, ⟨6, 8, 0, 81/2⟩]

example : (demo.map (·.t)).Pairwise (· < ·) := by decide +kernel
example : ([5, 10, 11, 20, 81/2, 41] : List ℚ).Pairwise (· ≤ ·) := by decide +kernel
/-- instants before, at and after both ends: 5 and 10 are dropped (not after the first stamp), 41 is after the end -/
example : resampleTemporal (fun x : ℚ => x.floor) demo (.instants [5, 10, 11, 20, 81/2, 41])
    = .ok [⟨3/10, 2/5, 1, 11⟩, ⟨3, 4, 10, 20⟩, ⟨6, 8, 0, 81/2⟩] := by decide +kernel
/-- a step that does not divide the duration: 10 samples at 13, 16, …, 40 s -/
example : (resampleTemporal (fun x : ℚ => x.floor) demo (.number 3)).toOption.map List.length = some 10 := by
  decide +kernel
/-- spatial step 2 on legs 5, 0, 5: first fix + 5 samples, the last one on the last fix -/
example : resampleSpatialLegs (fun x : ℚ => x.floor) demo [5, 0, 5] 2
    = .ok [⟨0, 0, 0, 10⟩, ⟨6/5, 8/5, 4, 14⟩, ⟨12/5, 16/5, 8, 18⟩, ⟨18/5, 24/5, 8, 281/10⟩,
           ⟨24/5, 32/5, 4, 343/10⟩, ⟨6, 8, 0, 81/2⟩] := by decide +kernel


/-- T1' is not vacuous (former finding `unsorted-request-list`, repaired by ee0419b): instants that are not in
chronological order are interpolated on their own legs (`t = 15` at `(5, 0)`), an instant after the end is skipped
without ending the loop, and a repeated instant is answered twice. -/
example : resampleTemporal (fun x : ℚ => x.floor) [⟨0, 0, 0, 10⟩, ⟨10, 0, 0, 20⟩, ⟨10, 10, 0, 30⟩] (.instants [25, 15, 40, 30, 12, 12, 5])
    = .ok [⟨10, 5, 0, 25⟩, ⟨5, 0, 0, 15⟩, ⟨10, 10, 0, 30⟩, ⟨2, 0, 0, 12⟩, ⟨2, 0, 0, 12⟩] := by decide +kernel
example : resampleTemporal (fun x : ℚ => x.floor) [⟨0, 0, 0, 10⟩, ⟨10, 0, 0, 20⟩] (.instants [21, 15])
    = .ok [⟨5, 0, 0, 15⟩] := by decide +kernel

end TV.C05
