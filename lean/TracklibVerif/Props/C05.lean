import TracklibVerif.Lemmas.Resample
import TracklibVerif.Lemmas.ObsTime
import TracklibVerif.Lemmas.ObsTimeG
import Mathlib.Data.Rat.Floor
import Mathlib.Analysis.Real.Sqrt
/-! # C05 — linear resampling returns the piecewise-linear interpolant of the track

Property theorems only (helper lemmas are in `Lemmas/Resample.lean`). The model
(`Model/Resample.lean`) mirrors `prepareTimeSampling`, `__resampleTemporal`, `__resampleSpatial`, the dispatcher
`interpolation.resample`, the front end `Track.resample` and the callers that delegate to linear resampling
(`track // ref`, `track ** n`, `track * k`, `sample`, `synchronize`, `TrackCollection.resample`); a fix is
`(x, y, z, t)` with `t = timestamp.toAbsTime()`; the stamp of an output is `ObsTime.readUnixTime(t)` as C03's
operation-for-operation reader computes it (`stampG` = `readUnixG`), proved equal to the integer C03 model on `⌊1000·t⌋`
(`stampOf`) for every `t ≥ 0` (S3, S2', S1'); in spatial mode the first output is a copy of the first fix and carries its own
`ObsTime` (the same stamp in exact arithmetic: C03 `readUnixG_toAbsG`). All
statements are over an arbitrary linearly ordered field (ℚ, ℝ): for every track, every list of instants, every step.
Sections: T1–T4 (temporal / spatial), D1–D4 (degenerate requests), S1 (millisecond stamps), T3d (pauses),
O1–O5 (callers), T5 (the forms giving a number of points: the property's answer for the step the output exhibits), T4c / T4' (the clamp of the interpolated time, fix 20ed89f: a no-op in exact arithmetic; what it
guarantees in ANY arithmetic), T2' / T3e / S2 (repeated timestamps: the interpolant in the original order of the fixes, legs travelled
in no time, the calendar stamps of a spatially resampled track never decrease).

`sampleT P t` / `sampleS P S s` (Lemmas) are the *specification* samples: the point of the leg
`r = firstGE v V` — the number of abscissas `< v`, i.e. the first index with `v ≤ V[r]` — at fraction
`(v − V[r−1]) / (V[r] − V[r−1])`. Theorems T2/T3 say what that leg is. -/
namespace TV.C05
open TV.Resample

variable {α : Type} [Field α] [LinearOrder α] [IsStrictOrderedRing α]

/-- T1 `temporal_count`. For a non-empty track and a chronological list of requested instants,
`__resampleTemporal` raises nothing and returns exactly one observation per requested instant lying in
`(tini, tfin]` (after the first, not after the last original stamp), in order, stamped with that instant;
each is the specification sample `sampleT` (see T2). -/
theorem temporal_count (trunc : α → Int) (P : List (Fix α)) (hn : 0 < P.length) (ref : List α)
    (href : ref.Pairwise (· ≤ ·)) :
    ∃ out, resampleTemporal trunc P (.instants ref) = .ok out ∧
      out = (ref.filter (inRange (P[0]).t (P[P.length - 1]).t)).map (sampleT P) ∧
      out.length = (ref.filter (inRange (P[0]).t (P[P.length - 1]).t)).length ∧
      out.map (·.t) = ref.filter (inRange (P[0]).t (P[P.length - 1]).t) := by
  refine ⟨_, resampleTemporal_instants trunc P hn ref href, rfl, by simp, ?_⟩
  rw [List.map_map]
  conv_rhs => rw [← List.map_id (ref.filter _)]
  apply List.map_congr_left
  intro t _
  simp [sampleT, lerpFix]

/-- T1' `temporal_count_any_order`. On a track whose stamps never decrease, the requested instants may
come in ANY order (repetitions included): `__resampleTemporal` raises nothing and returns exactly one
observation per requested instant lying in `(tini, tfin]`, in the order of the request, stamped with that
instant, each being the specification sample (T2). (Since the fix commit ee0419b: the scan restarts when the
previous bracket is already past the instant, and an instant after the last fix no longer ends the loop.) -/
theorem temporal_count_any_order (trunc : α → Int) (P : List (Fix α)) (hn : 0 < P.length)
    (hT : (P.map (·.t)).Pairwise (· ≤ ·)) (ref : List α) :
    ∃ out, resampleTemporal trunc P (.instants ref) = .ok out ∧
      out = (ref.filter (inRange (P[0]).t (P[P.length - 1]).t)).map (sampleT P) ∧
      out.length = (ref.filter (inRange (P[0]).t (P[P.length - 1]).t)).length ∧
      out.map (·.t) = ref.filter (inRange (P[0]).t (P[P.length - 1]).t) := by
  refine ⟨_, resampleTemporal_instants_any trunc P hn hT ref, rfl, by simp, ?_⟩
  rw [List.map_map]
  conv_rhs => rw [← List.map_id (ref.filter _)]
  apply List.map_congr_left
  intro t _
  simp [sampleT, lerpFix]

/-- T2 `temporal_bracket`. With strictly increasing stamps, the sample returned for an instant
`t ∈ (tini, tfin]` uses the unique leg `r ≥ 1` with `T[r−1] < t ≤ T[r]` (so the denominator
`T[r] − T[r−1]` is positive) and is `P[r−1] + ((t − T[r−1]) / (T[r] − T[r−1])) · (P[r] − P[r−1])`
in x, y and z, stamped `t`. -/
theorem temporal_bracket (P : List (Fix α)) (hn : 0 < P.length)
    (hT : (P.map (·.t)).Pairwise (· < ·)) (t : α) (h1 : (P[0]).t < t) (h2 : t ≤ (P[P.length - 1]).t) :
    ∃ (r : Nat) (_ : 1 ≤ r) (hr : r < P.length),
      (P[r - 1]'(by omega)).t < t ∧ t ≤ P[r].t ∧ 0 < P[r].t - (P[r - 1]'(by omega)).t ∧
      sampleT P t = lerpFix (P[r - 1]'(by omega)) P[r]
        ((t - (P[r - 1]'(by omega)).t) / (P[r].t - (P[r - 1]'(by omega)).t)) t ∧
      (∀ k, 1 ≤ k → (hk : k < P.length) → (P[k - 1]'(by omega)).t < t → t ≤ P[k].t → k = r) := by
  have hlen : 0 < (P.map (·.t)).length := by simpa using hn
  obtain ⟨hr1, hrlt, hb1, hb2⟩ := firstGE_bracket (P.map (·.t)) t hlen (by simpa using h1) (by simpa using h2)
  have hrP : firstGE t (P.map (·.t)) < P.length := by simpa using hrlt
  simp only [List.getElem_map] at hb1 hb2
  refine ⟨firstGE t (P.map (·.t)), hr1, hrP, hb1, hb2, by linarith, ?_, ?_⟩
  · simp only [sampleT, fixAt_eq P _ hrP, fixAt_eq P (firstGE t (P.map (·.t)) - 1) (by omega)]
  · intro k hk1 hk hlo hhi
    have hV : (P.map (·.t)).Pairwise (· ≤ ·) := hT.imp le_of_lt
    exact (firstGE_unique (P.map (·.t)) hV t k hk1 (by simpa using hk) (by simpa using hlo)
      (by simpa using hhi)).symm

/-- T1/T2 for a numeric step `δ > 0` (`prepareTimeSampling` + `__resampleTemporal`): the result is
exactly the `K` samples at `tini + δ, tini + 2δ, …, tini + Kδ` where `K = int((tfin − tini)/δ)`, i.e.
`tini + Kδ ≤ tfin < tini + (K+1)δ`: every multiple of the step inside the range, the last one included
when the step divides the duration. -/
theorem temporal_number_step (trunc : α → Int) (htr : TruncSpec trunc) (P : List (Fix α))
    (hn : 0 < P.length) (hdur : (P[0]).t ≤ (P[P.length - 1]).t) (δ : α) (hδ : 0 < δ) :
    ∃ K : Nat,
      resampleTemporal trunc P (.number δ)
        = .ok ((List.range K).map (fun (k : Nat) => sampleT P ((P[0]).t + ((k + 1 : Nat) : α) * δ))) ∧
      (P[0]).t + (K : α) * δ ≤ (P[P.length - 1]).t ∧ (P[P.length - 1]).t < (P[0]).t + ((K : α) + 1) * δ := by
  refine ⟨_, resampleTemporal_number trunc htr P hn hdur δ hδ, ?_⟩
  obtain ⟨hK1, hK2⟩ := htr (((P[P.length - 1]).t - (P[0]).t) / δ) (div_nonneg (by linarith) (le_of_lt hδ))
  have hne : δ ≠ 0 := ne_of_gt hδ
  constructor
  · have := mul_le_mul_of_nonneg_right hK1 (le_of_lt hδ)
    rw [div_mul_cancel₀ _ hne] at this
    linarith
  · have := mul_lt_mul_of_pos_right hK2 hδ
    rw [div_mul_cancel₀ _ hne] at this
    linarith

/-- T3a `spatial_samples`. `__resampleSpatial` with step `ds > 0` on a track whose 2D leg lengths are
`legs ≥ 0` and whose stamps never decrease (so that the clamp of the fix commit 20ed89f — the interpolated time kept
between the two stamps of its leg — changes nothing: `clampT_combine`) raises nothing and returns the first fix followed by the `N` specification samples at
curvilinear abscissas `ds, 2ds, …, N·ds`, where `N = int(L/ds)` is the number of multiples of `ds` not
exceeding the length `L`: `N·ds ≤ L < (N+1)·ds`. -/
theorem spatial_samples (trunc : α → Int) (htr : TruncSpec trunc) (P : List (Fix α)) (legs : List α)
    (hlen : legs.length + 1 = P.length) (hlegs : ∀ x ∈ legs, 0 ≤ x)
    (hT : (P.map (·.t)).Pairwise (· ≤ ·)) (ds : α) (hds : 0 < ds) :
    ∃ N : Nat,
      resampleSpatialLegs trunc P legs ds
        = .ok (P[0]'(by omega) :: (List.range N).map
            (fun (j : Nat) => sampleS P (cum legs) (((j + 1 : Nat) : α) * ds))) ∧
      (N : α) * ds ≤ polyLen legs ∧ polyLen legs < ((N : α) + 1) * ds := by
  refine ⟨_, resampleSpatialLegs_eq trunc htr P legs hlen hlegs hT ds hds, ?_⟩
  obtain ⟨hN1, hN2⟩ := htr (polyLen legs / ds) (div_nonneg (polyLen_nonneg legs hlegs) (le_of_lt hds))
  have hne : ds ≠ 0 := ne_of_gt hds
  constructor
  · have := mul_le_mul_of_nonneg_right hN1 (le_of_lt hds)
    rwa [div_mul_cancel₀ _ hne] at this
  · have := mul_lt_mul_of_pos_right hN2 hds
    rwa [div_mul_cancel₀ _ hne] at this

/-- T3 `spatial_on_polyline`. The sample at abscissa `s ∈ (0, L]` (in particular `s = k·ds`,
`1 ≤ k ≤ N`) lies on the unique leg `r ≥ 1` with `S[r−1] < s ≤ S[r]` (`S` = cumulated leg lengths); that leg
has positive length `S[r] − S[r−1] = legs[r−1]`; the sample is at fraction
`f = (s − S[r−1]) / legs[r−1] ∈ (0, 1]` of it, i.e. at curvilinear abscissa `S[r−1] + f·legs[r−1] = s`,
with x, y, height and time all interpolated with that same fraction. -/
theorem spatial_on_polyline (P : List (Fix α)) (legs : List α) (hlen : legs.length + 1 = P.length)
    (hlegs : ∀ x ∈ legs, 0 ≤ x) (s : α) (h0 : 0 < s) (h1 : s ≤ polyLen legs) :
    ∃ (r : Nat) (_ : 1 ≤ r) (hr : r < P.length),
      (cum legs).getD (r - 1) 0 < s ∧ s ≤ (cum legs).getD r 0 ∧
      (cum legs).getD r 0 - (cum legs).getD (r - 1) 0 = legs[r - 1]'(by omega) ∧
      0 < legs[r - 1]'(by omega) ∧
      0 < (s - (cum legs).getD (r - 1) 0) / legs[r - 1]'(by omega) ∧
      (s - (cum legs).getD (r - 1) 0) / legs[r - 1]'(by omega) ≤ 1 ∧
      (cum legs).getD (r - 1) 0
        + (s - (cum legs).getD (r - 1) 0) / legs[r - 1]'(by omega) * legs[r - 1]'(by omega) = s ∧
      sampleS P (cum legs) s = lerpFix (P[r - 1]'(by omega)) P[r]
        ((s - (cum legs).getD (r - 1) 0) / legs[r - 1]'(by omega))
        ((P[r - 1]'(by omega)).t
          + (s - (cum legs).getD (r - 1) 0) / legs[r - 1]'(by omega) * (P[r].t - (P[r - 1]'(by omega)).t)) ∧
      (∀ k, 1 ≤ k → k < P.length → (cum legs).getD (k - 1) 0 < s → s ≤ (cum legs).getD k 0 → k = r) :=
  sampleS_on_leg P legs hlen hlegs s h0 h1

/-- T4 `spatial_time_monotone`. With non-decreasing original stamps (in particular strictly increasing
ones) the timestamps of the spatially resampled track never decrease. -/
theorem spatial_time_monotone (trunc : α → Int) (htr : TruncSpec trunc) (P : List (Fix α))
    (legs : List α) (hlen : legs.length + 1 = P.length) (hlegs : ∀ x ∈ legs, 0 ≤ x)
    (hT : (P.map (·.t)).Pairwise (· ≤ ·)) (ds : α) (hds : 0 < ds) :
    ∃ out, resampleSpatialLegs trunc P legs ds = .ok out ∧ (out.map (·.t)).Pairwise (· ≤ ·) := by
  obtain ⟨N, heq, hN, _⟩ := spatial_samples trunc htr P legs hlen hlegs hT ds hds
  refine ⟨_, heq, ?_⟩
  have hSlen := cum_length legs
  have hS0 : (cum legs)[0]'(by omega) = 0 := cumFrom_head 0 legs
  have hin : ∀ j, j < N → (0 : α) < ((j + 1 : Nat) : α) * ds ∧ ((j + 1 : Nat) : α) * ds ≤ polyLen legs := by
    intro j hj
    have h1 : (0 : α) < ((j + 1 : Nat) : α) := by exact_mod_cast Nat.succ_pos j
    have h2 : ((j + 1 : Nat) : α) ≤ (N : α) := by exact_mod_cast hj
    have := mul_le_mul_of_nonneg_right h2 (le_of_lt hds)
    exact ⟨mul_pos h1 hds, by linarith⟩
  simp only [List.map_cons, List.map_map, List.pairwise_cons, List.pairwise_map]
  constructor
  · intro y hy
    obtain ⟨j, hj, rfl⟩ := List.mem_map.mp hy
    have hj : j < N := List.mem_range.mp hj
    obtain ⟨_, hrP, hlow, _⟩ := sampleS_t_bounds P (cum legs) (by omega) (by omega) hT _
      (by rw [hS0]; exact (hin j hj).1) (by rw [← polyLen_eq]; exact (hin j hj).2)
    have := times_mono P hT 0 (firstGE (((j + 1 : Nat) : α) * ds) (cum legs) - 1) (Nat.zero_le _) (by omega)
    simp only [Function.comp]
    linarith
  · refine List.Pairwise.imp_of_mem ?_ List.pairwise_lt_range
    intro a b ha hb hab
    have ha : a < N := List.mem_range.mp ha
    have hb : b < N := List.mem_range.mp hb
    have hle : ((a + 1 : Nat) : α) * ds ≤ ((b + 1 : Nat) : α) * ds := by
      have : ((a + 1 : Nat) : α) ≤ ((b + 1 : Nat) : α) := by exact_mod_cast (show a + 1 ≤ b + 1 by omega)
      exact mul_le_mul_of_nonneg_right this (le_of_lt hds)
    exact sampleS_t_mono P (cum legs) (by omega) (by omega) hT _ _ (by rw [hS0]; exact (hin a ha).1) hle
      (by rw [← polyLen_eq]; exact (hin b hb).2)


/-- T3b `spatial_legs`. The leg lengths `__resampleSpatial` accumulates are the planimetric (2D) distances
between consecutive fixes: one per leg, non-negative, with square `Δx² + Δy²` (height is ignored) —
for any `sqrt` satisfying the contract of `math.sqrt` on non-negative reals. Hence T3a/T3/T4 apply to
`resampleSpatial sqrt trunc P ds = resampleSpatialLegs trunc P (legs2D sqrt P) ds` for every non-empty track. -/
theorem spatial_legs (sqrt : α → α) (hs : SqrtSpec sqrt) (trunc : α → Int) (P : List (Fix α))
    (hn : 0 < P.length) (ds : α) :
    resampleSpatial sqrt trunc P ds = resampleSpatialLegs trunc P (legs2D sqrt P) ds ∧
    (legs2D sqrt P).length + 1 = P.length ∧ (∀ x ∈ legs2D sqrt P, 0 ≤ x) ∧
    (∀ i (hi : i < (legs2D sqrt P).length) (hi' : i + 1 < P.length),
      (legs2D sqrt P)[i] * (legs2D sqrt P)[i]
        = (P[i + 1].x - P[i].x) * (P[i + 1].x - P[i].x) + (P[i + 1].y - P[i].y) * (P[i + 1].y - P[i].y)) := by
  refine ⟨rfl, ?_, ?_, ?_⟩
  · induction P with
    | nil => simp at hn
    | cons a l ih =>
      cases l with
      | nil => simp [legs2D]
      | cons b l => simp only [legs2D, List.length_cons] at ih ⊢; have := ih (by simp); omega
  · induction P with
    | nil => simp [legs2D]
    | cons a l ih =>
      cases l with
      | nil => simp [legs2D]
      | cons b l =>
        intro x hx
        simp only [legs2D, List.mem_cons] at hx
        rcases hx with hx | hx
        · rw [hx]
          exact (hs _ (add_nonneg (mul_self_nonneg _) (mul_self_nonneg _))).1
        · exact ih (by simp) x hx
  · induction P with
    | nil => simp at hn
    | cons a l ih =>
      cases l with
      | nil => intro i hi; simp [legs2D] at hi
      | cons b l =>
        intro i hi hi'
        cases i with
        | zero =>
          simp only [legs2D, List.getElem_cons_zero, List.getElem_cons_succ]
          exact (hs _ (add_nonneg (mul_self_nonneg _) (mul_self_nonneg _))).2
        | succ i =>
          simp only [legs2D, List.getElem_cons_succ]
          exact ih (by simp) i (by simpa [legs2D] using hi) (by simpa using hi')

/-- T3c `spatial_distance_along_leg`. A point at fraction `f ≥ 0` of the leg `a → b` (as produced by T3) is at
planimetric distance `f · |ab|` from `a`: together with T3 (`S[r−1] + f·legs[r−1] = s`) the sample at
`s = k·ds` is at distance `s` from the first fix *measured along the original 2D polyline*. -/
theorem spatial_distance_along_leg (sqrt : α → α) (hs : SqrtSpec sqrt) (a b : Fix α) (f t : α) (hf : 0 ≤ f) :
    sqrt (((lerpFix a b f t).x - a.x) * ((lerpFix a b f t).x - a.x)
        + ((lerpFix a b f t).y - a.y) * ((lerpFix a b f t).y - a.y))
      = f * sqrt ((b.x - a.x) * (b.x - a.x) + (b.y - a.y) * (b.y - a.y)) := by
  have hD : 0 ≤ (b.x - a.x) * (b.x - a.x) + (b.y - a.y) * (b.y - a.y) :=
    add_nonneg (mul_self_nonneg _) (mul_self_nonneg _)
  have hrad : ((lerpFix a b f t).x - a.x) * ((lerpFix a b f t).x - a.x)
        + ((lerpFix a b f t).y - a.y) * ((lerpFix a b f t).y - a.y)
      = f * f * ((b.x - a.x) * (b.x - a.x) + (b.y - a.y) * (b.y - a.y)) := by
    simp only [lerpFix]; ring
  rw [hrad]
  obtain ⟨h1, h2⟩ := hs _ (mul_nonneg (mul_self_nonneg f) hD)
  obtain ⟨h3, h4⟩ := hs _ hD
  apply (mul_self_inj h1 (mul_nonneg hf h3)).mp
  rw [h2]
  calc f * f * ((b.x - a.x) * (b.x - a.x) + (b.y - a.y) * (b.y - a.y))
      = f * f * (sqrt ((b.x - a.x) * (b.x - a.x) + (b.y - a.y) * (b.y - a.y))
          * sqrt ((b.x - a.x) * (b.x - a.x) + (b.y - a.y) * (b.y - a.y))) := by rw [h4]
    _ = _ := by ring

/-- Front end `Track.resample(delta, ALGO_LINEAR, mode, npts, factor)` and the module-level dispatcher
`interpolation.resample` it calls. (a) whenever `Track.resample` returns, the table of analytical features is empty,
whereas the dispatcher alone leaves the table as it was (its assignment is to an un-mangled attribute); (b) with an
explicit `delta` on a non-empty track it is exactly `__resampleTemporal` (mode 2) / `__resampleSpatial` (mode 1,
numeric step; any other step is a TypeError); (c) with `delta = None` it is the same call with the numeric step
`(1+1e-8)·D/npts`, `D` the duration (temporal) or the 3D length (spatial) and `npts` defaulting to
`len(track)·factor`. -/
theorem frontend (sqrt : α → α) (trunc : α → Int) (g : α) (P : List (Fix α)) (feat : List String)
    (hn : 0 < P.length) (npts : Option Nat) (factor : Nat) :
    (∀ rq out f, resample sqrt trunc g P feat rq = .ok (out, f) → f = []) ∧
    (∀ mode d out f, interpResample sqrt trunc P feat mode d = .ok (out, f) → f = feat) ∧
    (∀ d, resample sqrt trunc g P feat ⟨2, some d, npts, factor⟩
        = match resampleTemporal trunc P d with | .ok out => .ok (out, []) | .error e => .error e) ∧
    (∀ ds, resample sqrt trunc g P feat ⟨1, some (.number ds), npts, factor⟩
        = match resampleSpatial sqrt trunc P ds with | .ok out => .ok (out, []) | .error e => .error e) ∧
    (∀ l, resample sqrt trunc g P feat ⟨1, some (.instants l), npts, factor⟩ = .error .type) ∧
    (npts.getD (P.length * factor) ≠ 0 →
      resample sqrt trunc g P feat ⟨2, none, npts, factor⟩
        = resample sqrt trunc g P feat ⟨2, some (.number
            (g * ((P[P.length - 1]).t - (P[0]).t) / ((npts.getD (P.length * factor) : Nat) : α))), npts, factor⟩ ∧
      resample sqrt trunc g P feat ⟨1, none, npts, factor⟩
        = resample sqrt trunc g P feat ⟨1, some (.number
            (g * total (legs3D sqrt P) / ((npts.getD (P.length * factor) : Nat) : α))), npts, factor⟩) := by
  have hne : P.isEmpty = false := by cases P with | nil => simp at hn | cons a l => rfl
  have h21 : ((2 : Nat) = 1) = False := by simp
  refine ⟨?_, ?_, ?_, ?_, ?_, ?_⟩
  · intro rq out f h
    unfold resample at h
    simp only [hne] at h
    split at h
    · exact absurd h (by simp)
    · simp only [Bool.false_eq_true, if_false] at h
      split at h
      · exact absurd h (by simp)
      · simp only [Except.ok.injEq, Prod.mk.injEq] at h; exact h.2.symm
  · intro mode d out f h
    unfold interpResample at h
    split at h
    · split at h
      · split at h
        · exact absurd h (by simp)
        · simp only [Except.ok.injEq, Prod.mk.injEq] at h; exact h.2.symm
      · exact absurd h (by simp)
    · split at h
      · split at h
        · exact absurd h (by simp)
        · simp only [Except.ok.injEq, Prod.mk.injEq] at h; exact h.2.symm
      · simp only [Except.ok.injEq, Prod.mk.injEq] at h; exact h.2.symm
  · intro d
    simp only [resample, interpResample, hne, Bool.false_eq_true, if_false, h21, if_true]
    cases resampleTemporal trunc P d <;> rfl
  · intro ds
    simp only [resample, interpResample, hne, Bool.false_eq_true, if_false, if_true]
    cases resampleSpatial sqrt trunc P ds <;> rfl
  · intro l
    simp only [resample, interpResample, hne, Bool.false_eq_true, if_false, if_true]
  · intro hnp
    cases npts with
    | none =>
      simp only [Option.getD_none] at hnp ⊢
      constructor
      · simp only [resample, hne, head?_times P hn, getLast?_times P hn, h21, if_false, if_neg hnp]
      · simp only [resample, hne, if_true, if_neg hnp]
    | some n =>
      simp only [Option.getD_some] at hnp ⊢
      constructor
      · simp only [resample, hne, head?_times P hn, getLast?_times P hn, h21, if_false, if_neg hnp]
      · simp only [resample, hne, if_true, if_neg hnp]

/-! ### degenerate requests ("every requested instant", also when there is none) -/

/-- D1 `temporal_outside`. Requested instants that all lie outside `(tini, tfin]` (before or at the first stamp, after
the last one) yield NO observation and no exception — for every non-empty track, whatever the order of its stamps and
of the request. -/
theorem temporal_outside (trunc : α → Int) (P : List (Fix α)) (hn : 0 < P.length) (ref : List α)
    (h : ∀ t ∈ ref, t ≤ (P[0]).t ∨ (P[P.length - 1]).t < t) :
    resampleTemporal trunc P (.instants ref) = .ok [] :=
  resampleTemporal_outside trunc P hn ref h

/-- D2 `temporal_degenerate`. The degenerate requests, for every non-empty track `P`:
(a) an empty list of instants, (b) a reference track without observation, (c) an argument that is neither a number,
a list nor a Track (no `isinstance` branch) all return the empty track; (d) a reference track is read through its
stamps only: `.track Q` is the request `.instants (stamps of Q)` — in particular a reference track with ONE
observation is the one-instant list; (e) a track with a single fix has an empty range `(tini, tfin]`: every list of
instants returns the empty track. -/
theorem temporal_degenerate (trunc : α → Int) (P : List (Fix α)) (hn : 0 < P.length) :
    resampleTemporal trunc P (.instants []) = .ok [] ∧
    resampleTemporal trunc P (.track []) = .ok [] ∧
    resampleTemporal trunc P .other = .ok [] ∧
    (∀ Q : List (Fix α), resampleTemporal trunc P (.track Q) = resampleTemporal trunc P (.instants (Q.map (·.t)))) ∧
    (P.length = 1 → ∀ ref, resampleTemporal trunc P (.instants ref) = .ok []) := by
  have h0 : resampleTemporal trunc P (.instants []) = .ok [] :=
    resampleTemporal_outside trunc P hn [] (fun _ h => absurd h (by simp))
  refine ⟨h0, ?_, ?_, fun Q => resampleTemporal_track trunc P Q, ?_⟩
  · rw [resampleTemporal_track]; exact h0
  · rw [resampleTemporal_other]; exact h0
  · intro h1 ref
    apply resampleTemporal_outside trunc P hn
    intro t _
    have : (P[P.length - 1]'(by omega)) = P[0] := by congr 1; omega
    rw [this]
    exact le_or_gt t _

/-- D3 `temporal_repeated`. An instant requested `n` times (on a track whose stamps never decrease) is answered
`n` times when it lies in `(tini, tfin]` — the same sample each time — and not at all otherwise. -/
theorem temporal_repeated (trunc : α → Int) (P : List (Fix α)) (hn : 0 < P.length)
    (hT : (P.map (·.t)).Pairwise (· ≤ ·)) (t : α) (n : Nat) :
    resampleTemporal trunc P (.instants (List.replicate n t))
      = .ok (if (P[0]).t < t ∧ t ≤ (P[P.length - 1]).t then List.replicate n (sampleT P t) else []) := by
  rw [resampleTemporal_instants_any trunc P hn hT]
  congr 1
  by_cases h : (P[0]).t < t ∧ t ≤ (P[P.length - 1]).t
  · rw [if_pos h, List.filter_eq_self.mpr, List.map_replicate]
    intro a ha
    rw [List.eq_of_mem_replicate ha]
    simp [inRange, h.1, h.2]
  · rw [if_neg h, List.filter_eq_nil_iff.mpr, List.map_nil]
    intro a ha
    rw [List.eq_of_mem_replicate ha]
    simp only [inRange, Bool.and_eq_true, decide_eq_true_eq]
    exact h

/-- D4 `frontend_empty_request`. Through the front end `Track.resample`, an EMPTY request (`delta = []`, or a
reference track without observation) in temporal mode is a request for no instant: the track comes back empty
(and its feature table empty), whatever `npts` and `factor` — it is NOT the case `delta is None` (regular
resampling with `npts` points). -/
theorem frontend_empty_request (sqrt : α → α) (trunc : α → Int) (g : α) (P : List (Fix α)) (feat : List String)
    (hn : 0 < P.length) (npts : Option Nat) (factor : Nat) :
    resample sqrt trunc g P feat ⟨2, some (.instants []), npts, factor⟩ = .ok ([], []) ∧
    resample sqrt trunc g P feat ⟨2, some (.track []), npts, factor⟩ = .ok ([], []) := by
  obtain ⟨_, _, hf, _⟩ := frontend sqrt trunc g P feat hn npts factor
  obtain ⟨h0, h1, _⟩ := temporal_degenerate trunc P hn
  exact ⟨by rw [hf, h0], by rw [hf, h1]⟩

/-- T5 `npts_exhibits_step`. The forms of `Track.resample` that give a NUMBER OF POINTS instead of a step
(`npts=`, `factor=`, `track ** n`, `track * k`: `delta is None`). The statement of the property fixes the result *for a
step*; it does not say which step is derived from a number of points. Whatever the guard constant `g > 0` and whatever
`npts`/`factor` (not zero), on a track whose stamps never decrease the front end returns the property's answer for SOME
positive constant step, the one its output exhibits: spatial mode (a track of positive 3D length) — the first fix
followed by the `N` specification samples at curvilinear abscissas `ds, 2ds, …, N·ds` of the 2D polyline,
`N·ds ≤ L₂D < (N+1)·ds` (T3a; each on the polyline with interpolated height and time by T3/T3d, times never decreasing
by T4); temporal mode (positive duration) — the `K` specification samples at `tini + δ, …, tini + Kδ`,
`tini + Kδ ≤ tfin < tini + (K+1)δ` (T1/T2). The oracle of the harness judges these calls in exactly this way (step
recovered from the output); that the step is `g·D/npts` with `D` the 3D length / the duration is `frontend` (c) and is
checked by the correspondence only. -/
theorem npts_exhibits_step (sqrt : α → α) (hs : SqrtSpec sqrt) (trunc : α → Int) (htr : TruncSpec trunc)
    (g : α) (hg : 0 < g) (P : List (Fix α)) (feat : List String) (hn : 0 < P.length)
    (hT : (P.map (·.t)).Pairwise (· ≤ ·)) (npts : Option Nat) (factor : Nat)
    (hnp : npts.getD (P.length * factor) ≠ 0) :
    (0 < total (legs3D sqrt P) →
      ∃ (ds : α) (N : Nat), 0 < ds ∧
        resample sqrt trunc g P feat ⟨1, none, npts, factor⟩
          = .ok (P[0] :: (List.range N).map
              (fun (j : Nat) => sampleS P (cum (legs2D sqrt P)) (((j + 1 : Nat) : α) * ds)), []) ∧
        (N : α) * ds ≤ polyLen (legs2D sqrt P) ∧ polyLen (legs2D sqrt P) < ((N : α) + 1) * ds) ∧
    ((P[0]).t < (P[P.length - 1]).t →
      ∃ (δ : α) (K : Nat), 0 < δ ∧
        resample sqrt trunc g P feat ⟨2, none, npts, factor⟩
          = .ok ((List.range K).map (fun (k : Nat) => sampleT P ((P[0]).t + ((k + 1 : Nat) : α) * δ)), []) ∧
        (P[0]).t + (K : α) * δ ≤ (P[P.length - 1]).t ∧
        (P[P.length - 1]).t < (P[0]).t + ((K : α) + 1) * δ) := by
  obtain ⟨_, _, hft, hfs, _, hnone⟩ := frontend sqrt trunc g P feat hn npts factor
  obtain ⟨h2, h1⟩ := hnone hnp
  have hnpos : (0 : α) < ((npts.getD (P.length * factor) : Nat) : α) := by
    exact_mod_cast Nat.pos_of_ne_zero hnp
  constructor
  · intro hL
    have hds : 0 < g * total (legs3D sqrt P) / ((npts.getD (P.length * factor) : Nat) : α) :=
      div_pos (mul_pos hg hL) hnpos
    obtain ⟨hrs, hlen, hlegs, _⟩ := spatial_legs sqrt hs trunc P hn
      (g * total (legs3D sqrt P) / ((npts.getD (P.length * factor) : Nat) : α))
    obtain ⟨N, hN, hb1, hb2⟩ := spatial_samples trunc htr P (legs2D sqrt P) hlen hlegs hT _ hds
    refine ⟨_, N, hds, ?_, hb1, hb2⟩
    rw [h1, hfs, hrs, hN]
  · intro hdur
    have hδ : (0 : α) < g * ((P[P.length - 1]).t - (P[0]).t) / ((npts.getD (P.length * factor) : Nat) : α) :=
      div_pos (mul_pos hg (sub_pos.mpr hdur)) hnpos
    obtain ⟨K, hK, hb1, hb2⟩ := temporal_number_step trunc htr P hn (le_of_lt hdur) _ hδ
    refine ⟨_, K, hδ, ?_, hb1, hb2⟩
    rw [h2, hft, hK]

/-! ### millisecond stamps (composition with the C03 model) -/

/-- contract of `⌊1000·t⌋` on an instant that is a whole number of milliseconds -/
def MsSpec (ms : α → Int) : Prop := ∀ m : Nat, ms ((m : α) / 1000) = (m : Int)

/-- S1 `temporal_stamps`. "…stamped with that instant to the millisecond". Instants requested as whole numbers of
milliseconds `m` (what an `ObsTime` holds), in any order, on a track whose stamps never decrease: the observations
returned carry, in order, exactly the stamps `ObsTime.readUnixTime(m/1000)` of the requested instants lying in
`(tini, tfin]` — `readUnixMs m` of the C03 model — and each of these is a well-formed calendar stamp that reads
back (`toAbsTime`) as `m` milliseconds exactly. (Exact arithmetic: in floats `int((t - int(t))·1000)` may truncate
to `m − 1`; that is sampled by the correspondence with a 1 ms tolerance.) -/
theorem temporal_stamps (trunc : α → Int) (ms : α → Int) (hms : MsSpec ms) (P : List (Fix α)) (hn : 0 < P.length)
    (hT : (P.map (·.t)).Pairwise (· ≤ ·)) (req : List Nat) :
    ∃ out, resampleTemporal trunc P (.instants (req.map (fun m : Nat => (m : α) / 1000))) = .ok out ∧
      stamps ms out
        = (req.filter (fun m : Nat => inRange (P[0]).t (P[P.length - 1]).t ((m : α) / 1000))).map
            (fun m => some (TV.ObsTime.readUnixMs m)) ∧
      (∀ m : Nat, TV.ObsTime.WFs (TV.ObsTime.readUnixMs m) ∧ TV.ObsTime.toAbsMs (TV.ObsTime.readUnixMs m) = m) := by
  obtain ⟨out, hout, _, _, hts⟩ := temporal_count_any_order trunc P hn hT (req.map (fun m : Nat => (m : α) / 1000))
  refine ⟨out, hout, ?_, ?_⟩
  · have : stamps ms out = (out.map (·.t)).map (stampOf ms) := by simp [stamps, List.map_map, Function.comp]
    rw [this, hts, List.filter_map, List.map_map]
    apply List.map_congr_left
    intro m _
    simp only [Function.comp, stampOf, hms m]
    simp
  · intro m
    have h := TV.ObsTime.readUnix_spec (m / 1000)
    refine ⟨⟨h.1, Nat.mod_lt _ (by omega)⟩, ?_⟩
    unfold TV.ObsTime.toAbsMs TV.ObsTime.readUnixMs
    simp only [h.2]
    omega

/-! ### pauses (repeated positions) in spatial mode -/

/-- T3d `spatial_pause`. Which leg a spatial sample uses when the track pauses (consecutive fixes at the same 2D
position, i.e. legs of length 0, so that several fixes share one curvilinear abscissa). For the sample at abscissa
`s ∈ (0, L]`, on the leg `r` of T3 (`S[r−1] < s ≤ S[r]`):
(a) every fix before `P[r]` has an abscissa `< s`: the leg ENDS at the FIRST fix at or beyond `s`; a sample falling
exactly on a pause (`s = S[r]`) is the fix at which the pause BEGINS, with its height and its time (arrival);
(b) every fix from `P[r]` on has an abscissa `> S[r−1]`: the leg STARTS at the LAST fix of abscissa `S[r−1]`; a sample
beyond a pause is interpolated, in height and in time, from the fix that ENDS the pause (departure) — never from
an earlier fix of the pause;
(c) no sample is ever interpolated on a leg of length 0 (`0 < legs[r−1]`). -/
theorem spatial_pause (P : List (Fix α)) (legs : List α) (hlen : legs.length + 1 = P.length)
    (hlegs : ∀ x ∈ legs, 0 ≤ x) (s : α) (h0 : 0 < s) (h1 : s ≤ polyLen legs) :
    ∃ (r : Nat) (_ : 1 ≤ r) (hr : r < P.length),
      (cum legs).getD (r - 1) 0 < s ∧ s ≤ (cum legs).getD r 0 ∧ 0 < legs[r - 1]'(by omega) ∧
      (∀ j, j < r → (cum legs).getD j 0 < s) ∧
      (∀ j, r ≤ j → j < P.length → (cum legs).getD (r - 1) 0 < (cum legs).getD j 0) ∧
      (s = (cum legs).getD r 0 → sampleS P (cum legs) s = P[r]) := by
  obtain ⟨r, hr1, hr, hlo, hhi, hleg, hpos, _, _, _, hsmp, huniq⟩ := sampleS_on_leg P legs hlen hlegs s h0 h1
  have hSlen := cum_length legs
  have hS0 : (cum legs)[0]'(by omega) = 0 := cumFrom_head 0 legs
  obtain ⟨hf1, hflt, _, hfhi⟩ := firstGE_bracket (cum legs) s (by omega) (by rw [hS0]; exact h0)
    (by rw [← polyLen_eq]; exact h1)
  have hfr : firstGE s (cum legs) = r := by
    apply huniq _ hf1 (by omega)
    · rw [getD0_eq _ _ (by omega)]; exact lt_of_lt_firstGE s (cum legs) _ (by omega) (by omega)
    · rw [getD0_eq _ _ hflt]; exact hfhi
  have hsorted : (cum legs).Pairwise (· ≤ ·) := cumFrom_pairwise 0 legs hlegs
  refine ⟨r, hr1, hr, hlo, hhi, hpos, ?_, ?_, ?_⟩
  · intro j hj
    rw [getD0_eq _ _ (by omega)]
    exact lt_of_lt_firstGE s (cum legs) j (by omega) (by omega)
  · intro j hrj hj
    rw [getD0_eq _ _ (by omega), getD0_eq _ _ (by omega)] at *
    have h2 : (cum legs)[r]'(by omega) ≤ (cum legs)[j]'(by omega) := by
      rcases Nat.eq_or_lt_of_le hrj with h | h
      · subst h; exact le_refl _
      · exact List.pairwise_iff_getElem.mp hsorted r j (by omega) (by omega) h
    exact lt_of_lt_of_le (lt_of_lt_of_le hlo hhi) h2
  · intro hs
    rw [hsmp]
    have hf : (s - (cum legs).getD (r - 1) 0) / legs[r - 1]'(by omega) = 1 := by
      rw [← hleg, hs]; exact div_self (by rw [hleg]; exact ne_of_gt hpos)
    rw [hf]
    cases hP : P[r] with
    | mk x y z t => simp [lerpFix]

/-! ### callers: operators, `sample`, `synchronize`, `TrackCollection` -/

/-- O1 `operators`. The operators of `Track` that delegate to linear resampling, on a non-empty track whose stamps
never decrease: `track // ref` returns exactly one observation per stamp of `ref` lying in `(tini, tfin]`, in the
order of `ref`, each the specification sample (T2) — the reference may be empty, hold one observation, be unsorted or
lie entirely outside the range; `track ** n` is `Track.resample(npts = n, mode = temporal)`; `track * k` is
`Track.resample(factor = k)` in the default spatial mode; all with an empty feature table. -/
theorem operators (sqrt : α → α) (trunc : α → Int) (g : α) (P : List (Fix α)) (feat : List String)
    (hn : 0 < P.length) (hT : (P.map (·.t)).Pairwise (· ≤ ·)) :
    (∀ Q : List (Fix α), floordiv sqrt trunc g P feat Q
        = .ok (((Q.map (·.t)).filter (inRange (P[0]).t (P[P.length - 1]).t)).map (sampleT P), [])) ∧
    (∀ n, pow sqrt trunc g P feat n = resample sqrt trunc g P feat ⟨2, none, some n, 1⟩) ∧
    (∀ k, mulNumber sqrt trunc g P feat k = resample sqrt trunc g P feat ⟨1, none, none, k⟩) := by
  refine ⟨fun Q => ?_, fun _ => rfl, fun _ => rfl⟩
  obtain ⟨_, _, hf, _⟩ := frontend sqrt trunc g P feat hn none 1
  unfold floordiv
  rw [hf, resampleTemporal_track, resampleTemporal_instants_any trunc P hn hT]

/-- O2 `sample_spec`. `interpolation.sample(track, t)` on a non-empty track whose stamps never decrease returns the
specification sample at `t` (T2) when `t ∈ (tini, tfin]` and raises IndexError otherwise. -/
theorem sample_spec (sqrt : α → α) (trunc : α → Int) (P : List (Fix α)) (hn : 0 < P.length)
    (hT : (P.map (·.t)).Pairwise (· ≤ ·)) (t : α) :
    sample sqrt trunc P t
      = if (P[0]).t < t ∧ t ≤ (P[P.length - 1]).t then .ok (sampleT P t) else .error .index := by
  have h := temporal_repeated trunc P hn hT t 1
  simp only [List.replicate_one] at h
  have h21 : ((2 : Nat) = 1) = False := by simp
  unfold sample interpResample
  simp only [h21, if_false, if_true, h]
  by_cases hc : (P[0]).t < t ∧ t ≤ (P[P.length - 1]).t
  · simp only [if_pos hc]
  · simp only [if_neg hc]

/-- O3 `synchronize_spec`. `synchronize(track1, track2)` on two non-empty tracks whose stamps never decrease
raises nothing and leaves both tracks with exactly the SAME timestamps `req`: in chronological order, precisely the
stamps of either track lying strictly inside the common time range `(max of the first stamps, min of the last
stamps)`, each track holding at every one of them its own specification sample (T2). When no stamp lies strictly
inside the common range both tracks come back empty. (A stamp present in both tracks appears once, except that the
de-duplication loop never tests the first two positions; see `syncDedup`.) -/
theorem synchronize_spec (sqrt : α → α) (trunc : α → Int) (g : α) (P1 P2 : List (Fix α)) (f1 f2 : List String)
    (hn1 : 0 < P1.length) (hn2 : 0 < P2.length)
    (hT1 : (P1.map (·.t)).Pairwise (· ≤ ·)) (hT2 : (P2.map (·.t)).Pairwise (· ≤ ·)) :
    ∃ req : List α,
      synchronize sqrt trunc g P1 P2 f1 f2
        = .ok ((req.map (sampleT P1), []), (req.map (sampleT P2), [])) ∧
      req.Pairwise (· ≤ ·) ∧
      (∀ t, t ∈ req ↔ (t ∈ P1.map (·.t) ∨ t ∈ P2.map (·.t)) ∧
        max (P1[0]).t (P2[0]).t < t ∧ t < min (P1[P1.length - 1]).t (P2[P2.length - 1]).t) ∧
      (req.map (sampleT P1)).map (·.t) = req ∧ (req.map (sampleT P2)).map (·.t) = req := by
  have hh1 : P1.head? = some P1[0] := by cases P1 with | nil => simp at hn1 | cons a l => simp
  have hh2 : P2.head? = some P2[0] := by cases P2 with | nil => simp at hn2 | cons a l => simp
  have hl1 : P1.getLast? = some P1[P1.length - 1] := by
    rw [List.getLast?_eq_getElem?, List.getElem?_eq_getElem (by omega)]
  have hl2 : P2.getLast? = some P2[P2.length - 1] := by
    rw [List.getLast?_eq_getElem?, List.getElem?_eq_getElem (by omega)]
  refine ⟨syncRequest (P1.map (·.t)) (P2.map (·.t)) (pmax (P1[0]).t (P2[0]).t)
      (pmin (P1[P1.length - 1]).t (P2[P2.length - 1]).t), ?_, syncRequest_sorted _ _ _ _, ?_, ?_, ?_⟩
  · have hmem := mem_syncRequest (P1.map (·.t)) (P2.map (·.t)) (pmax (P1[0]).t (P2[0]).t)
      (pmin (P1[P1.length - 1]).t (P2[P2.length - 1]).t)
    rw [pmax_eq, pmin_eq] at hmem
    obtain ⟨_, _, hfr1, _⟩ := frontend sqrt trunc g P1 f1 hn1 none 1
    obtain ⟨_, _, hfr2, _⟩ := frontend sqrt trunc g P2 f2 hn2 none 1
    unfold synchronize
    simp only [hh1, hh2, hl1, hl2, hfr1, hfr2, resampleTemporal_instants_any trunc P1 hn1 hT1,
      resampleTemporal_instants_any trunc P2 hn2 hT2]
    rw [List.filter_eq_self.mpr, List.filter_eq_self.mpr]
    · intro a ha
      rw [pmax_eq, pmin_eq] at ha
      obtain ⟨_, h1, h2⟩ := (hmem a).mp ha
      simp only [inRange, Bool.and_eq_true, decide_eq_true_eq]
      exact ⟨lt_of_le_of_lt (le_max_right _ _) h1, le_of_lt (lt_of_lt_of_le h2 (min_le_right _ _))⟩
    · intro a ha
      rw [pmax_eq, pmin_eq] at ha
      obtain ⟨_, h1, h2⟩ := (hmem a).mp ha
      simp only [inRange, Bool.and_eq_true, decide_eq_true_eq]
      exact ⟨lt_of_le_of_lt (le_max_left _ _) h1, le_of_lt (lt_of_lt_of_le h2 (min_le_left _ _))⟩
  · intro t
    rw [mem_syncRequest, pmax_eq, pmin_eq]
  · rw [List.map_map]
    conv_rhs => rw [← List.map_id (syncRequest _ _ _ _)]
    apply List.map_congr_left
    intro t _
    simp [sampleT, lerpFix]
  · rw [List.map_map]
    conv_rhs => rw [← List.map_id (syncRequest _ _ _ _)]
    apply List.map_congr_left
    intro t _
    simp [sampleT, lerpFix]

omit [IsStrictOrderedRing α] in
/-- O4 `collection_resample`. `TrackCollection.resample(delta, ALGO_LINEAR, mode)` is `Track.resample(delta, mode)`
on every track, in order: it returns (all tracks resampled) exactly when every track's resampling returns, each
track getting its own result. -/
theorem collection_resample (sqrt : α → α) (trunc : α → Int) (g : α)
    (tracks : List (List (Fix α) × List String)) (mode : Nat) (d : Step α)
    (outs : List (List (Fix α) × List String)) :
    collResample sqrt trunc g tracks mode d = .ok outs ↔
      List.Forall₂ (fun tr out => resample sqrt trunc g tr.1 tr.2 ⟨mode, some d, none, 1⟩ = .ok out) tracks outs := by
  unfold collResample
  induction tracks generalizing outs with
  | nil =>
    simp only [List.mapM_nil]
    constructor
    · intro h; cases h; exact List.Forall₂.nil
    · intro h; cases h; rfl
  | cons tr rest ih =>
    rw [List.mapM_cons]
    cases hres : resample sqrt trunc g tr.1 tr.2 ⟨mode, some d, none, 1⟩ with
    | error e =>
      constructor
      · intro h; cases h
      · intro h; cases h with | cons h1 _ => rw [hres] at h1; cases h1
    | ok o =>
      cases hrest : List.mapM (fun tr => resample sqrt trunc g tr.1 tr.2 ⟨mode, some d, none, 1⟩) rest with
      | error e =>
        constructor
        · intro h; cases h
        · intro h
          cases h with
          | cons h1 h2 => rw [(ih _).mpr h2] at hrest; cases hrest
      | ok os =>
        constructor
        · intro h
          cases h
          exact List.Forall₂.cons hres ((ih os).mp hrest)
        · intro h
          cases h with
          | cons h1 h2 =>
            rw [hres] at h1; cases h1
            rw [(ih _).mpr h2] at hrest; cases hrest
            rfl

/-- O5 `collection_floordiv`. `collection // ref` (`TrackCollection.__floordiv__`, fix commit ea8666e) on a
collection of non-empty tracks whose stamps never decrease raises nothing and returns, for every track in order, that
track's own TEMPORAL resampling at the stamps of the reference track: exactly one observation per stamp of `ref` lying
in the track's `(tini, tfin]`, in the order of `ref`, each the specification sample (T2), with an empty feature
table — i.e. `track // ref` for every track (O1). The reference may be empty, unsorted, or outside every range. -/
theorem collection_floordiv (sqrt : α → α) (trunc : α → Int) (g : α)
    (tracks : List (List (Fix α) × List String)) (Q : List (Fix α))
    (hne : ∀ tr ∈ tracks, 0 < tr.1.length) (hT : ∀ tr ∈ tracks, (tr.1.map (·.t)).Pairwise (· ≤ ·)) :
    collFloordiv sqrt trunc g tracks Q
      = .ok (tracks.map (fun tr =>
          (((Q.map (·.t)).filter (inRange (tr.1[0]?.getD zeroFix).t (tr.1[tr.1.length - 1]?.getD zeroFix).t)).map
            (sampleT tr.1), []))) ∧
    collFloordiv sqrt trunc g tracks Q = tracks.mapM (fun tr => floordiv sqrt trunc g tr.1 tr.2 Q) := by
  refine ⟨?_, rfl⟩
  unfold collFloordiv
  induction tracks with
  | nil => rfl
  | cons tr rest ih =>
    have hn : 0 < tr.1.length := hne tr List.mem_cons_self
    have h1 := (operators sqrt trunc g tr.1 tr.2 hn (hT tr List.mem_cons_self)).1 Q
    unfold floordiv at h1
    rw [List.mapM_cons, h1, ih (fun t ht => hne t (List.mem_cons_of_mem _ ht))
      (fun t ht => hT t (List.mem_cons_of_mem _ ht))]
    simp only [List.map_cons]
    have e0 : tr.1[0]?.getD zeroFix = tr.1[0] := by simp [hn]
    have e1 : tr.1[tr.1.length - 1]?.getD zeroFix = tr.1[tr.1.length - 1] := by
      rw [List.getElem?_eq_getElem (by omega)]; rfl
    rw [e0, e1]
    rfl

/-! ### repeated timestamps (stamps that never decrease): the interpolant in the ORIGINAL order of the fixes -/

/-- T2' `temporal_repeated_stamps`. T2 on a track whose stamps never decrease but may REPEAT (a receiver logging faster
than the resolution of its clock, a doubled record), whatever its length. The sample returned for an instant
`t ∈ (tini, tfin]` is interpolated between two fixes that are CONSECUTIVE IN THE ORDER OF THE TRACK, `P[r−1]` and `P[r]`,
with `T[r−1] < t ≤ T[r]` — never on a leg of zero duration (`0 < T[r] − T[r−1]`), and `r` is the only such leg;
(a) every fix before `P[r]` is stamped `< t`: the leg ENDS at the FIRST fix stamped at or after `t`;
(b) every fix from `P[r]` on is stamped `> T[r−1]`: the leg STARTS at the LAST fix carrying the stamp `T[r−1]`
(of several fixes sharing a stamp, the last one is the start of the next leg and the first one the end of the previous
leg: the track is never re-ordered);
(c) an instant that IS a stamp of the track (repeated or not) is answered with the position of the first fix carrying it. -/
theorem temporal_repeated_stamps (P : List (Fix α)) (hn : 0 < P.length)
    (hT : (P.map (·.t)).Pairwise (· ≤ ·)) (t : α) (h1 : (P[0]).t < t) (h2 : t ≤ (P[P.length - 1]).t) :
    ∃ (r : Nat) (_ : 1 ≤ r) (hr : r < P.length),
      (P[r - 1]'(by omega)).t < t ∧ t ≤ P[r].t ∧ 0 < P[r].t - (P[r - 1]'(by omega)).t ∧
      sampleT P t = lerpFix (P[r - 1]'(by omega)) P[r]
        ((t - (P[r - 1]'(by omega)).t) / (P[r].t - (P[r - 1]'(by omega)).t)) t ∧
      (∀ j (hj : j < r), (P[j]'(by omega)).t < t) ∧
      (∀ j (_ : r ≤ j) (hj : j < P.length), (P[r - 1]'(by omega)).t < P[j].t) ∧
      (∀ k, 1 ≤ k → (hk : k < P.length) → (P[k - 1]'(by omega)).t < t → t ≤ P[k].t → k = r) ∧
      (t = P[r].t → sampleT P t = ⟨P[r].x, P[r].y, P[r].z, t⟩) := by
  have hlen : 0 < (P.map (·.t)).length := by simpa using hn
  obtain ⟨hr1, hrlt, hb1, hb2⟩ := firstGE_bracket (P.map (·.t)) t hlen (by simpa using h1) (by simpa using h2)
  have hrP : firstGE t (P.map (·.t)) < P.length := by simpa using hrlt
  simp only [List.getElem_map] at hb1 hb2
  have hsmp : sampleT P t = lerpFix (P[firstGE t (P.map (·.t)) - 1]'(by omega)) P[firstGE t (P.map (·.t))]
      ((t - (P[firstGE t (P.map (·.t)) - 1]'(by omega)).t)
        / (P[firstGE t (P.map (·.t))].t - (P[firstGE t (P.map (·.t)) - 1]'(by omega)).t)) t := by
    simp only [sampleT, fixAt_eq P _ hrP, fixAt_eq P (firstGE t (P.map (·.t)) - 1) (by omega)]
  refine ⟨firstGE t (P.map (·.t)), hr1, hrP, hb1, hb2, by linarith, hsmp, ?_, ?_, ?_, ?_⟩
  · intro j hj
    have := lt_of_lt_firstGE t (P.map (·.t)) j hj (by simp; omega)
    simpa using this
  · intro j hrj hj
    exact lt_of_lt_of_le (lt_of_lt_of_le hb1 hb2) (times_mono P hT _ j hrj hj)
  · intro k hk1 hk hlo hhi
    exact (firstGE_unique (P.map (·.t)) hT t k hk1 (by simpa using hk) (by simpa using hlo)
      (by simpa using hhi)).symm
  · intro ht
    rw [hsmp]
    have hne : P[firstGE t (P.map (·.t))].t - (P[firstGE t (P.map (·.t)) - 1]'(by omega)).t ≠ 0 :=
      ne_of_gt (by linarith)
    have hf : (t - (P[firstGE t (P.map (·.t)) - 1]'(by omega)).t)
        / (P[firstGE t (P.map (·.t))].t - (P[firstGE t (P.map (·.t)) - 1]'(by omega)).t) = 1 := by
      rw [div_eq_one_iff_eq hne]; linarith
    rw [hf]
    simp [lerpFix]

/-- T3e `spatial_equal_stamp_leg`. Spatial mode, a leg of positive 2D length whose two fixes carry the SAME timestamp
(the leg is travelled in no time): the sample taken on it at abscissa `s` is stamped with exactly that timestamp —
`wbwd·t + wfwd·t = t` in exact arithmetic. (In floats `wbwd + wfwd` is not exactly 1 and the weighted mean can be one ulp
below `t`, which `readUnixTime` truncated to the millisecond before — former finding `spatial-equal-stamp-leg-ms-decrease`,
repaired by the fix commit 20ed89f: the clamp returns `t` whatever the arithmetic, see T4'.) -/
theorem spatial_equal_stamp_leg (P : List (Fix α)) (legs : List α) (hlen : legs.length + 1 = P.length)
    (hlegs : ∀ x ∈ legs, 0 ≤ x) (s : α) (h0 : 0 < s) (h1 : s ≤ polyLen legs) :
    ∃ (r : Nat) (_ : 1 ≤ r) (hr : r < P.length),
      (cum legs).getD (r - 1) 0 < s ∧ s ≤ (cum legs).getD r 0 ∧
      ((P[r - 1]'(by omega)).t = P[r].t → (sampleS P (cum legs) s).t = P[r].t) := by
  obtain ⟨r, hr1, hr, hlo, hhi, _, _, _, _, _, hsmp, _⟩ := sampleS_on_leg P legs hlen hlegs s h0 h1
  refine ⟨r, hr1, hr, hlo, hhi, ?_⟩
  intro heq
  rw [hsmp]
  simp [lerpFix, heq]

/-- contract of `⌊1000·t⌋` (the millisecond an instant falls in) -/
def MsFloor (ms : α → Int) : Prop := ∀ t : α, ((ms t : Int) : α) ≤ t * 1000 ∧ t * 1000 < ((ms t : Int) : α) + 1

theorem MsFloor.mono {ms : α → Int} (h : MsFloor ms) {a b : α} (hab : a ≤ b) : ms a ≤ ms b := by
  by_contra hc
  have hlt : ms b + 1 ≤ ms a := by omega
  have h1 : ((ms b : Int) : α) + 1 ≤ ((ms a : Int) : α) := by exact_mod_cast hlt
  have ha := (h a).1
  have hb := (h b).2
  have : a * 1000 ≤ b * 1000 := by nlinarith
  linarith

theorem MsFloor.nonneg {ms : α → Int} (h : MsFloor ms) {a : α} (ha : 0 ≤ a) : 0 ≤ ms a := by
  by_contra hc
  have hlt : ms a + 1 ≤ 0 := by omega
  have h1 : ((ms a : Int) : α) + 1 ≤ 0 := by exact_mod_cast hlt
  have := (h a).2
  nlinarith

/-- S2 `spatial_stamps_monotone`. "…so that timestamps never decrease", on the calendar stamps the output observations
actually carry: spatial resampling (step `ds > 0`) of a track whose stamps never decrease (repeats allowed) and are not
before 1970 returns observations stamped `ObsTime.readUnixTime(t)` = `readUnixMs m` (C03 model) with `m = ⌊1000·t⌋` the
millisecond of the interpolated time `t`; these whole milliseconds never decrease along the output, and every such
stamp is a well-formed calendar stamp reading back (`toAbsTime`) as `m` ms exactly — so the stamps compared as instants
never decrease. (Exact arithmetic; T4' is what remains true of the times in any arithmetic.) -/
theorem spatial_stamps_monotone (trunc : α → Int) (htr : TruncSpec trunc) (ms : α → Int) (hms : MsFloor ms)
    (P : List (Fix α)) (legs : List α) (hlen : legs.length + 1 = P.length) (hlegs : ∀ x ∈ legs, 0 ≤ x)
    (hT : (P.map (·.t)).Pairwise (· ≤ ·)) (h0 : (0 : α) ≤ (P[0]'(by omega)).t) (ds : α) (hds : 0 < ds) :
    ∃ out, resampleSpatialLegs trunc P legs ds = .ok out ∧
      stamps ms out = (out.map (fun p => (ms p.t).toNat)).map (fun m => some (TV.ObsTime.readUnixMs m)) ∧
      (out.map (fun p => (ms p.t).toNat)).Pairwise (· ≤ ·) ∧
      (∀ p ∈ out, (((ms p.t).toNat : Nat) : α) ≤ p.t * 1000 ∧ p.t * 1000 < (((ms p.t).toNat : Nat) : α) + 1) ∧
      (∀ m : Nat, TV.ObsTime.WFs (TV.ObsTime.readUnixMs m) ∧ TV.ObsTime.toAbsMs (TV.ObsTime.readUnixMs m) = m) := by
  obtain ⟨N, heq, _, _⟩ := spatial_samples trunc htr P legs hlen hlegs hT ds hds
  obtain ⟨out, hout, hmono⟩ := spatial_time_monotone trunc htr P legs hlen hlegs hT ds hds
  have hfirst : ∀ p ∈ out, (P[0]'(by omega)).t ≤ p.t := by
    rw [heq] at hout
    cases hout
    intro p hp
    rcases List.mem_cons.mp hp with h | h
    · rw [h]
    · simp only [List.map_cons, List.pairwise_cons] at hmono
      exact hmono.1 p.t (List.mem_map.mpr ⟨p, h, rfl⟩)
  have hnn : ∀ p ∈ out, 0 ≤ ms p.t := fun p hp => hms.nonneg (le_trans h0 (hfirst p hp))
  refine ⟨out, hout, ?_, ?_, ?_, ?_⟩
  · simp only [stamps, List.map_map]
    apply List.map_congr_left
    intro p hp
    have := hnn p hp
    simp only [Function.comp, stampOf]
    rw [if_neg (by omega)]
  · rw [List.pairwise_map] at hmono ⊢
    refine hmono.imp ?_
    intro a b hab
    exact Int.toNat_le_toNat (hms.mono hab)
  · intro p hp
    have h := hnn p hp
    have hc : (((ms p.t).toNat : Nat) : α) = ((ms p.t : Int) : α) := by
      have := Int.toNat_of_nonneg h
      exact_mod_cast congrArg (fun z : Int => (z : α)) this
    rw [hc]
    exact hms p.t
  · intro m
    have h := TV.ObsTime.readUnix_spec (m / 1000)
    refine ⟨⟨h.1, Nat.mod_lt _ (by omega)⟩, ?_⟩
    unfold TV.ObsTime.toAbsMs TV.ObsTime.readUnixMs
    simp only [h.2]
    omega

/-! ### the stamp is `ObsTime.readUnixTime` of the interpolated time (composition with C03's float-path reader) -/

omit [IsStrictOrderedRing α] in
/-- the contract of `int()` used by C03's reader implies the one used by the resampling model -/
theorem truncSpec_of_truncZ {trunc : α → Int} (h : TV.ObsTime.TruncZ trunc) : TruncSpec trunc := by
  intro x hx
  obtain ⟨h0, h1, h2⟩ := h x hx
  have e : (((trunc x).toNat : Nat) : α) = ((trunc x : Int) : α) := by
    rw [← Int.cast_natCast, Int.toNat_of_nonneg h0]
  rw [e]
  exact ⟨h1, h2⟩

/-- S3 `stamp_is_readUnixTime`. What `stampOf` was by definition is a theorem about the mirrored code: for EVERY instant
`t ≥ 0` (1970 or later) — a whole number of milliseconds or not, e.g. the interpolated time of a spatial sample —
`ObsTime.readUnixTime(t)` run operation for operation on the fractional seconds (`stampG` = C03's `readUnixG`: year loop with
its fuel, month loop, the three truncated divisions, `ms = int((t − int(t))·1000)`) ends and returns exactly the calendar
fields of the integer reader on the millisecond `⌊1000·t⌋`: `stampG trunc t = (stampOf ms t).map toZ`, with
`stampOf ms t = some (readUnixMs ⌊1000·t⌋)`. (Exact arithmetic and an exact `int()`; at IEEE doubles `stampG` itself is what the
driver emits and the harness compares field for field with the real code.) -/
theorem stamp_is_readUnixTime (trunc : α → Int) (htz : TV.ObsTime.TruncZ trunc) (ms : α → Int) (hms : MsFloor ms)
    (t : α) (ht : 0 ≤ t) :
    stampG trunc t = (stampOf ms t).map TV.ObsTime.Stamp.toZ ∧
    stampOf ms t = some (TV.ObsTime.readUnixMs (ms t).toNat) := by
  have hnn := hms.nonneg ht
  have h2 : stampOf ms t = some (TV.ObsTime.readUnixMs (ms t).toNat) := by
    simp only [stampOf]
    rw [if_neg (by omega)]
  refine ⟨?_, h2⟩
  rw [h2]
  obtain ⟨hf0, hf1⟩ := TV.ObsTime.frac_bounds trunc htz t ht
  obtain ⟨hk, hk1, hk2⟩ := TV.ObsTime.ms_bounds trunc htz _ hf0 hf1
  have hM : (((ms t).toNat : Nat) : α) = ((ms t : Int) : α) := by
    rw [← Int.cast_natCast, Int.toNat_of_nonneg hnn]
  obtain ⟨hm1, hm2⟩ := hms t
  rw [← hM] at hm1 hm2
  have a1 : (((ms t).toNat : Nat) : α)
      < ((1000 * (trunc t).toNat + (trunc ((t - ((trunc t).toNat : α)) * 1000)).toNat + 1 : Nat) : α) := by
    push_cast; linarith
  have a2 : ((1000 * (trunc t).toNat + (trunc ((t - ((trunc t).toNat : α)) * 1000)).toNat : Nat) : α)
      < (((ms t).toNat + 1 : Nat) : α) := by
    push_cast; linarith
  have b1 : (ms t).toNat < 1000 * (trunc t).toNat + (trunc ((t - ((trunc t).toNat : α)) * 1000)).toNat + 1 := by
    exact_mod_cast a1
  have b2 : 1000 * (trunc t).toNat + (trunc ((t - ((trunc t).toNat : α)) * 1000)).toNat < (ms t).toNat + 1 := by
    exact_mod_cast a2
  have hMeq : (ms t).toNat = 1000 * (trunc t).toNat + (trunc ((t - ((trunc t).toNat : α)) * 1000)).toNat := by omega
  have e : t = ((trunc t).toNat : α) + (t - ((trunc t).toNat : α)) := by ring
  unfold stampG
  conv_lhs => rw [e]
  rw [TV.ObsTime.readUnixG_nat_add_frac trunc htz _ _ hf0 hf1]
  simp only [Option.map_some, TV.ObsTime.readUnixMs]
  rw [hMeq]
  have e1 : (1000 * (trunc t).toNat + (trunc ((t - ((trunc t).toNat : α)) * 1000)).toNat) / 1000 = (trunc t).toNat := by
    omega
  have e2 : (1000 * (trunc t).toNat + (trunc ((t - ((trunc t).toNat : α)) * 1000)).toNat) % 1000
      = (trunc ((t - ((trunc t).toNat : α)) * 1000)).toNat := by omega
  rw [e1, e2]

/-- S2' `spatial_stamps_readUnixTime`. S2 about the stamps the mirrored code computes: spatial resampling (step `ds > 0`) of a
track whose stamps never decrease and are not before 1970 returns observations whose timestamps — `ObsTime.readUnixTime` run
operation for operation on each interpolated, generally non-integral time (`stampG`) — are exactly the model's `stampOf`, i.e.
the calendar stamps `readUnixMs m` of the milliseconds `m = ⌊1000·t⌋`, and these `m` never decrease along the output: the
timestamps `__resampleSpatial` actually attaches never decrease. (Exact arithmetic.) -/
theorem spatial_stamps_readUnixTime (trunc : α → Int) (htz : TV.ObsTime.TruncZ trunc) (ms : α → Int) (hms : MsFloor ms)
    (P : List (Fix α)) (legs : List α) (hlen : legs.length + 1 = P.length) (hlegs : ∀ x ∈ legs, 0 ≤ x)
    (hT : (P.map (·.t)).Pairwise (· ≤ ·)) (h0 : (0 : α) ≤ (P[0]'(by omega)).t) (ds : α) (hds : 0 < ds) :
    ∃ out, resampleSpatialLegs trunc P legs ds = .ok out ∧
      out.map (fun p => stampG trunc p.t) = (stamps ms out).map (Option.map TV.ObsTime.Stamp.toZ) ∧
      out.map (fun p => stampG trunc p.t)
        = (out.map (fun p => (ms p.t).toNat)).map (fun m => some (TV.ObsTime.readUnixMs m).toZ) ∧
      (out.map (fun p => (ms p.t).toNat)).Pairwise (· ≤ ·) := by
  obtain ⟨out, hout, _, hmono, hfl, _⟩ :=
    spatial_stamps_monotone trunc (truncSpec_of_truncZ htz) ms hms P legs hlen hlegs hT h0 ds hds
  have hnn : ∀ p ∈ out, (0 : α) ≤ p.t := by
    intro p hp
    have h := (hfl p hp).1
    have hc : (0 : α) ≤ (((ms p.t).toNat : Nat) : α) := Nat.cast_nonneg _
    nlinarith
  refine ⟨out, hout, ?_, ?_, hmono⟩
  · simp only [stamps, List.map_map]
    apply List.map_congr_left
    intro p hp
    exact (stamp_is_readUnixTime trunc htz ms hms p.t (hnn p hp)).1
  · rw [List.map_map]
    apply List.map_congr_left
    intro p hp
    obtain ⟨h1, h2⟩ := stamp_is_readUnixTime trunc htz ms hms p.t (hnn p hp)
    simp only [Function.comp, h1, h2, Option.map_some]

/-- S1' `temporal_stamps_readUnixTime`. S1 for instants that are NOT whole milliseconds, and about the stamps the mirrored code
computes: on a track whose stamps never decrease, first fix not before 1970, instants requested in any order (any scalars):
the observation returned for each instant `t ∈ (tini, tfin]` carries `ObsTime.readUnixTime(t)` (`stampG`) = the calendar stamp
of the millisecond `⌊1000·t⌋` the instant falls in — "stamped with that instant to the millisecond". (Exact arithmetic.) -/
theorem temporal_stamps_readUnixTime (trunc : α → Int) (htz : TV.ObsTime.TruncZ trunc) (ms : α → Int) (hms : MsFloor ms)
    (P : List (Fix α)) (hn : 0 < P.length) (hT : (P.map (·.t)).Pairwise (· ≤ ·)) (h0 : (0 : α) ≤ (P[0]).t)
    (ref : List α) :
    ∃ out, resampleTemporal trunc P (.instants ref) = .ok out ∧
      out.map (fun p => stampG trunc p.t)
        = (ref.filter (inRange (P[0]).t (P[P.length - 1]).t)).map
            (fun t => some (TV.ObsTime.readUnixMs (ms t).toNat).toZ) ∧
      out.map (fun p => stampG trunc p.t) = (stamps ms out).map (Option.map TV.ObsTime.Stamp.toZ) := by
  obtain ⟨out, hout, _, _, hts⟩ := temporal_count_any_order trunc P hn hT ref
  have hnn : ∀ p ∈ out, (0 : α) ≤ p.t := by
    intro p hp
    have hm : p.t ∈ out.map (·.t) := List.mem_map.mpr ⟨p, hp, rfl⟩
    rw [hts] at hm
    have hr := (List.mem_filter.mp hm).2
    simp only [inRange, Bool.and_eq_true, decide_eq_true_eq] at hr
    linarith [hr.1]
  refine ⟨out, hout, ?_, ?_⟩
  · have : out.map (fun p => stampG trunc p.t)
        = (out.map (·.t)).map (fun t => some (TV.ObsTime.readUnixMs (ms t).toNat).toZ) := by
      rw [List.map_map]
      apply List.map_congr_left
      intro p hp
      obtain ⟨h1, h2⟩ := stamp_is_readUnixTime trunc htz ms hms p.t (hnn p hp)
      simp only [Function.comp, h1, h2, Option.map_some]
    rw [this, hts]
  · simp only [stamps, List.map_map]
    apply List.map_congr_left
    intro p hp
    exact (stamp_is_readUnixTime trunc htz ms hms p.t (hnn p hp)).1

/-- S2'' `spatial_first_stamp_carried`. The first output of `__resampleSpatial` is `track.getFirstObs().copy()`: it carries the
first fix's own `ObsTime` `s` instead of `readUnixTime` of its time (`spatialStampsG`). When that stamp is a well-formed calendar
stamp (`t₀ = s.toAbsTime()`), this is the same list of timestamps as re-reading every output's time (`stampG`), so S2' describes
the stamps the track really holds. (Exact arithmetic: C03's round trip `readUnixTime(toAbsTime()) = id`; in doubles the carried
stamp may be one millisecond later than the re-read one — the harness compares output 0 with the first fix's own stamp.) -/
theorem spatial_first_stamp_carried (trunc : α → Int) (htz : TV.ObsTime.TruncZ trunc)
    (P : List (Fix α)) (legs : List α) (hlen : legs.length + 1 = P.length) (hlegs : ∀ x ∈ legs, 0 ≤ x)
    (hT : (P.map (·.t)).Pairwise (· ≤ ·)) (ds : α) (hds : 0 < ds)
    (s : TV.ObsTime.Stamp) (hs : TV.ObsTime.WFs s) (h0 : (P[0]'(by omega)).t = TV.ObsTime.toAbsG s.toZ) :
    ∃ out, resampleSpatialLegs trunc P legs ds = .ok out ∧
      spatialStampsG trunc s.toZ out = out.map (fun p => stampG trunc p.t) := by
  obtain ⟨N, heq, _, _⟩ := spatial_samples trunc (truncSpec_of_truncZ htz) P legs hlen hlegs hT ds hds
  refine ⟨_, heq, ?_⟩
  have hrt : stampG trunc (P[0]'(by omega)).t = some s.toZ := by
    obtain ⟨hd, hms⟩ := hs
    have e : (TV.ObsTime.toAbsG s.toZ : α) = ((TV.ObsTime.toAbsSec s.d : Nat) : α) + (s.ms : α) / 1000 := by
      rw [TV.ObsTime.toAbsG_toZ s hd.2.2.2.1]
      simp only [TV.ObsTime.toAbsMs, Nat.cast_add, Nat.cast_mul, Nat.cast_ofNat]; ring
    have hf0 : (0 : α) ≤ (s.ms : α) / 1000 := by positivity
    have hf1 : (s.ms : α) / 1000 < 1 := by
      rw [div_lt_one (by norm_num)]; exact_mod_cast hms
    unfold stampG
    rw [h0, e, TV.ObsTime.readUnixG_nat_add_frac trunc htz _ _ hf0 hf1, TV.ObsTime.ms_exact trunc htz,
      TV.ObsTime.readUnix_toAbs s.d hd]
  simp only [spatialStampsG, List.map_cons, hrt]

/-! ### the clamp of the interpolated time (fix commit 20ed89f) -/

/-- T4c `spatial_clamp_exact`. In exact arithmetic the clamp `T = min(max(T, t_bwd), t_fwd)` added to `__resampleSpatial`
by the fix commit 20ed89f is a no-op: for a sample at abscissa `v` of a leg `vb < v ≤ vf` whose stamps satisfy
`tb ≤ tf`, the weighted mean `wbwd·tb + wfwd·tf` already lies in `[tb, tf]` and the clamped value is the linear
interpolation `tb + ((v − vb)/(vf − vb))·(tf − tb)` — so T3a, T3, T3d, T3e, T4, S2 describe the repaired code. -/
theorem spatial_clamp_exact (vb vf v tb tf : α) (h1 : vb < v) (h2 : v ≤ vf) (ht : tb ≤ tf) :
    clampT ((vf - v) / (vf - vb) * tb + (v - vb) / (vf - vb) * tf) tb tf
      = tb + (v - vb) / (vf - vb) * (tf - tb) ∧
    tb ≤ tb + (v - vb) / (vf - vb) * (tf - tb) ∧ tb + (v - vb) / (vf - vb) * (tf - tb) ≤ tf := by
  obtain ⟨f0, f1⟩ := frac_bounds vb vf v h1 h2
  exact ⟨clampT_combine vb vf v tb tf h1 h2 ht, lerp_bounds tb tf _ ht (le_of_lt f0) f1⟩

/-- T4' `spatial_time_clamped`. What the clamp guarantees WITHOUT exact arithmetic. `β` is any linearly ordered type
with four ARBITRARY operations `+ − × ÷` (no law is assumed: they may round as IEEE doubles do; the doubles other than
NaN are linearly ordered). On a track whose stamps never decrease (repeats allowed), whenever the loop of
`__resampleSpatial` returns, there is for every output `out[i]` the leg `legs[i]` (the value of `running_id`) such that
(a) the legs never go backwards;
(b) the time handed to `readUnixTime` lies between the stamps of the two fixes of its leg, `P[r−1].t ≤ t ≤ P[r].t`;
(c) hence two outputs on different legs are in chronological order, `out[i].t ≤ out[j].t`;
(d) an output on a leg travelled in no time (both fixes stamped `t`) is stamped exactly `t`, so two outputs of such a leg
are in order too (the repaired defect: they were `t` and `t − 1 ulp`);
(e) no output is earlier than the first fix, which `__resampleSpatial` puts in front.
The only pairs NOT ordered by the clamp alone are two samples of one leg of positive duration: their order is that of the
two weighted means, which needs the arithmetic (T4, exact). -/
theorem spatial_time_clamped {β : Type} [LinearOrder β] [Add β] [Sub β] [Mul β] [Div β] [OfNat β 0] [NatCast β]
    (P : List (Fix β)) (hT : (P.map (·.t)).Pairwise (· ≤ ·)) (S : List β) (sini sfin ds : β) (n k rid : Nat)
    (out : List (Fix β)) (h : spatialLoop P S sini sfin ds n k rid = .ok out) :
    ∃ (legs : List Nat) (hl : legs.length = out.length), legs.Pairwise (· ≤ ·) ∧
      (∀ i (hi : i < out.length), ∃ pb pf, P[legs[i] - 1]? = some pb ∧ P[legs[i]]? = some pf ∧
        pb.t ≤ out[i].t ∧ out[i].t ≤ pf.t) ∧
      (∀ i j (_ : i < j) (hj : j < out.length), legs[i]'(by omega) < legs[j] → (out[i]'(by omega)).t ≤ out[j].t) ∧
      (∀ i (hi : i < out.length) pb pf, P[legs[i] - 1]? = some pb → P[legs[i]]? = some pf → pb.t = pf.t →
        out[i].t = pf.t) ∧
      (∀ o ∈ out, ∀ p0, P[0]? = some p0 → p0.t ≤ o.t) := by
  obtain ⟨legs, hF, _, hpw⟩ := spatialLoop_any P hT S sini sfin ds n k rid out h
  have hl : legs.length = out.length := hF.length_eq
  have hget : ∀ i (hi : i < out.length), OnLeg P (legs[i]'(by omega)) out[i] := by
    intro i hi
    have := (List.forall₂_iff_get.mp hF).2 i (by omega) hi
    simpa using this
  refine ⟨legs, hl, hpw, fun i hi => hget i hi, ?_, ?_, ?_⟩
  · intro i j hij hj hlt
    exact onLeg_le P hT (hget i (by omega)) (hget j hj) hlt
  · intro i hi pb pf e1 e2 heq
    refine onLeg_eq P (hget i hi) ?_ pf e2
    intro pb' pf' e1' e2'
    rw [e1] at e1'; rw [e2] at e2'
    cases e1'; cases e2'
    exact heq
  · intro o ho p0 hp0
    obtain ⟨i, hi, rfl⟩ := List.getElem_of_mem ho
    obtain ⟨pb, _, e1, _, c1, _⟩ := hget i hi
    exact le_trans (times_le P hT hp0 e1 (Nat.zero_le _)) c1

/-! ### non-vacuity -/

/-- the contract of `int()` is met by the floor function on ℚ (what the driver uses on non-negative values) -/
example : TruncSpec (fun x : ℚ => ⌊x⌋) := by
  intro x hx
  have h0 : 0 ≤ ⌊x⌋ := Int.floor_nonneg.mpr hx
  have hc : ((⌊x⌋.toNat : Nat) : ℚ) = ((⌊x⌋ : Int) : ℚ) := by
    have := Int.toNat_of_nonneg h0
    exact_mod_cast congrArg (fun z : Int => (z : ℚ)) this
  simp only [hc]
  exact ⟨Int.floor_le x, Int.lt_floor_add_one x⟩

/-- the contract of `math.sqrt` is met by the real square root -/
example : SqrtSpec Real.sqrt := fun x hx => ⟨Real.sqrt_nonneg x, Real.mul_self_sqrt hx⟩

/-- an irregularly sampled track with a pause: 4 fixes at 10, 20, 25, 40.5 s; legs 5, 0, 5 -/
def demo : List (Fix ℚ) := [⟨0, 0, 0, 10⟩, ⟨3, 4, 10, 20⟩, ⟨3, 4, 10, 25⟩, ⟨6, 8, 0, 81/2⟩]

example : (demo.map (·.t)).Pairwise (· < ·) := by decide +kernel
example : ([5, 10, 11, 20, 81/2, 41] : List ℚ).Pairwise (· ≤ ·) := by decide +kernel
/-- instants before, at and after both ends: 5 and 10 are dropped (not after the first stamp), 41 is after the end -/
example : resampleTemporal (fun x : ℚ => x.floor) demo (.instants [5, 10, 11, 20, 81/2, 41])
    = .ok [⟨3/10, 2/5, 1, 11⟩, ⟨3, 4, 10, 20⟩, ⟨6, 8, 0, 81/2⟩] := by decide +kernel
/-- a step that does not divide the duration: 10 samples at 13, 16, …, 40 s -/
example : (resampleTemporal (fun x : ℚ => x.floor) demo (.number 3)).toOption.map List.length = some 10 := by
  decide +kernel
/-- spatial step 2 on legs 5, 0, 5: first fix + 5 samples, the last one on the last fix -/
example : resampleSpatialLegs (fun x : ℚ => x.floor) demo [5, 0, 5] 2
    = .ok [⟨0, 0, 0, 10⟩, ⟨6/5, 8/5, 4, 14⟩, ⟨12/5, 16/5, 8, 18⟩, ⟨18/5, 24/5, 8, 281/10⟩,
           ⟨24/5, 32/5, 4, 343/10⟩, ⟨6, 8, 0, 81/2⟩] := by decide +kernel


/-- T1' is not vacuous (former finding `unsorted-request-list`, repaired by ee0419b): instants that are not in
chronological order are interpolated on their own legs (`t = 15` at `(5, 0)`), an instant after the end is skipped
without ending the loop, and a repeated instant is answered twice. -/
example : resampleTemporal (fun x : ℚ => x.floor) [⟨0, 0, 0, 10⟩, ⟨10, 0, 0, 20⟩, ⟨10, 10, 0, 30⟩] (.instants [25, 15, 40, 30, 12, 12, 5])
    = .ok [⟨10, 5, 0, 25⟩, ⟨5, 0, 0, 15⟩, ⟨10, 10, 0, 30⟩, ⟨2, 0, 0, 12⟩, ⟨2, 0, 0, 12⟩] := by decide +kernel
example : resampleTemporal (fun x : ℚ => x.floor) [⟨0, 0, 0, 10⟩, ⟨10, 0, 0, 20⟩] (.instants [21, 15])
    = .ok [⟨5, 0, 0, 15⟩] := by decide +kernel


/-! #### degenerate requests, stamps, pauses, callers -/

/-- `demo` has stamps 10, 20, 25, 40.5 s: every instant of this request is outside `(10, 40.5]` -/
example : resampleTemporal (fun x : ℚ => x.floor) demo (.instants [41, 10, 5, 100, 10]) = .ok [] := by decide +kernel
example : resampleTemporal (fun x : ℚ => x.floor) demo (.instants []) = .ok [] := by decide +kernel
example : resampleTemporal (fun x : ℚ => x.floor) demo (.track []) = .ok [] := by decide +kernel
/-- a reference track with one observation (only its stamp is read) -/
example : resampleTemporal (fun x : ℚ => x.floor) demo (.track [⟨100, 100, 100, 15⟩]) = .ok [⟨3/2, 2, 5, 15⟩] := by
  decide +kernel
/-- a one-fix track has an empty range -/
example : resampleTemporal (fun x : ℚ => x.floor) [(⟨1, 2, 3, 10⟩ : Fix ℚ)] (.instants [5, 10, 11]) = .ok [] := by
  decide +kernel
/-- a repeated instant is answered as many times as it is requested -/
example : resampleTemporal (fun x : ℚ => x.floor) demo (.instants [15, 15, 15])
    = .ok [⟨3/2, 2, 5, 15⟩, ⟨3/2, 2, 5, 15⟩, ⟨3/2, 2, 5, 15⟩] := by decide +kernel
/-- an empty request through the front end is NOT `delta = None`: nothing comes out although `npts = 5` is given;
`delta = None` with the same `npts` resamples regularly -/
example : resample (fun x : ℚ => x) (fun x : ℚ => x.floor) 1 demo ["speed"] ⟨2, some (.instants []), some 5, 1⟩
    = .ok ([], []) := by decide +kernel
example : (resample (fun x : ℚ => x) (fun x : ℚ => x.floor) 1 demo ["speed"] ⟨2, none, some 5, 1⟩).toOption.map
    (fun r => r.1.length) = some 5 := by decide +kernel
/-- T5 on a concrete input, spatial mode: with the stand-in `sqrt = id` the 2D legs of `demo` are 25, 0, 25 and the 3D legs
125, 0, 125; `npts = 10` derives the step 250/10 = 25 and the output is the first fix and the samples at abscissas 25 and 50
(3 observations, not 10: the step comes from the 3D length, the samples are laid along the 2D polyline) -/
example : (resample (fun x : ℚ => x) (fun x : ℚ => x.floor) 1 demo ["speed"] ⟨1, none, some 10, 1⟩).toOption.map
    (fun r => r.1.map (·.x)) = some [0, 3, 6] := by decide +kernel
example : (0 : ℚ) < total (legs3D (fun x : ℚ => x) demo) ∧ (demo[0]).t < (demo[demo.length - 1]).t := by decide +kernel

/-- the contract of `⌊1000·t⌋` is met on ℚ -/
example : MsSpec (fun t : ℚ => (t * 1000).floor) := by
  intro m
  have : ((m : ℚ) / 1000 * 1000) = ((m : Int) : ℚ) := by
    rw [div_mul_cancel₀ _ (by norm_num : (1000 : ℚ) ≠ 0)]; simp
  simp only [this]
  exact Rat.floor_intCast _
/-- stamps to the millisecond: 10.999 s is not after the first fix… 11.001 s, 20 s, 40.5 s are stamped
00:00:11.001, 00:00:20.000, 00:00:40.500 of 1970-01-01; 40.501 s is after the last fix -/
example : (resampleTemporal (fun x : ℚ => x.floor) demo
      (.instants (([9999, 11001, 20000, 40500, 40501] : List Nat).map (fun m : Nat => (m : ℚ) / 1000)))).toOption.map
      (stamps (fun t : ℚ => (t * 1000).floor))
    = some [some ⟨⟨1970, 1, 1, 0, 0, 11⟩, 1⟩, some ⟨⟨1970, 1, 1, 0, 0, 20⟩, 0⟩, some ⟨⟨1970, 1, 1, 0, 0, 40⟩, 500⟩] := by
  decide +kernel

/-- pauses: on `demo` (legs 5, 0, 5: the track pauses at (3,4) from 20 s to 25 s, its height unchanged) the sample at
abscissa 5 is the fix where the pause BEGINS (20 s); the sample at abscissa 6 is interpolated from the fix that ENDS
the pause: `t = 25 + (1/5)·15.5 = 28.1 s` (not `20 + …`), `z = 10 + (1/5)·(0 − 10) = 8` -/
example : sampleS demo (cum [5, 0, 5]) 5 = ⟨3, 4, 10, 20⟩ := by decide +kernel
example : sampleS demo (cum [5, 0, 5]) 6 = ⟨18/5, 24/5, 8, 281/10⟩ := by decide +kernel

/-- `track // ref`: a reference with stamps before, inside (unsorted, repeated) and after the range -/
example : floordiv (fun x : ℚ => x) (fun x : ℚ => x.floor) 1 demo ["speed"]
      [⟨0, 0, 0, 30⟩, ⟨0, 0, 0, 5⟩, ⟨0, 0, 0, 15⟩, ⟨0, 0, 0, 15⟩, ⟨0, 0, 0, 50⟩]
    = .ok ([⟨123/31, 164/31, 210/31, 30⟩, ⟨3/2, 2, 5, 15⟩, ⟨3/2, 2, 5, 15⟩], []) := by decide +kernel
example : floordiv (fun x : ℚ => x) (fun x : ℚ => x.floor) 1 demo [] [] = .ok ([], []) := by decide +kernel
example : sample (fun x : ℚ => x) (fun x : ℚ => x.floor) demo 15 = .ok ⟨3/2, 2, 5, 15⟩ := by decide +kernel
example : sample (fun x : ℚ => x) (fun x : ℚ => x.floor) demo 10 = .error .index := by decide +kernel

/-- `synchronize`: tracks over [0, 25] and [5, 47] s; the stamps strictly inside (5, 25) are 12 (both tracks), 14, 20 -/
def syncA : List (Fix ℚ) := [⟨0, 0, 0, 0⟩, ⟨5, 0, 0, 12⟩, ⟨5, 0, 0, 14⟩, ⟨9, 0, 0, 25⟩]
def syncB : List (Fix ℚ) := [⟨0, 1, 0, 5⟩, ⟨7, 1, 0, 12⟩, ⟨8, 1, 0, 20⟩, ⟨9, 1, 0, 47⟩]
example : synchronize (fun x : ℚ => x) (fun x : ℚ => x.floor) 1 syncA syncB [] ["f"]
    = .ok (([⟨5, 0, 0, 12⟩, ⟨5, 0, 0, 12⟩, ⟨5, 0, 0, 14⟩, ⟨5 + 24/11, 0, 0, 20⟩], []),
           ([⟨7, 1, 0, 12⟩, ⟨7, 1, 0, 12⟩, ⟨7 + 1/4, 1, 0, 14⟩, ⟨8, 1, 0, 20⟩], [])) := by decide +kernel
/-- tracks that overlap on (20, 25) only, where neither has a fix: no instant is requested, both come back empty -/
example : synchronize (fun x : ℚ => x) (fun x : ℚ => x.floor) 1
      [⟨0, 0, 0, 0⟩, ⟨5, 0, 0, 12⟩, ⟨9, 0, 0, 25⟩] [⟨0, 1, 0, 20⟩, ⟨5, 1, 0, 33⟩, ⟨9, 1, 0, 47⟩] [] []
    = .ok (([], []), ([], [])) := by decide +kernel

/-- a collection of two tracks resampled every 10 s -/
example : (collResample (fun x : ℚ => x) (fun x : ℚ => x.floor) 1 [(syncA, []), (syncB, ["f"])] 2 (.number 10)).toOption.map
    (fun l => l.map (fun r => (r.1.map (·.t), r.2))) = some [([10, 20], []), ([15, 25, 35, 45], [])] := by decide +kernel
/-- `collection // ref` (fix commit ea8666e): every track is resampled IN TIME at the stamps of the reference — here
`syncB`'s stamps 5, 12, 20, 47 s, of which 5, 12, 20 lie in `syncA`'s range (0, 25] and 12, 20, 47 in `syncB`'s (5, 47] -/
example : (collFloordiv (fun x : ℚ => x) (fun x : ℚ => x.floor) 1 [(syncA, ["f"]), (syncB, [])] syncB).toOption.map
    (fun l => l.map (fun r => (r.1.map (·.t), r.2))) = some [([5, 12, 20], []), ([12, 20, 47], [])] := by decide +kernel
example : collFloordiv (fun x : ℚ => x) (fun x : ℚ => x.floor) 1 [(syncA, [])] syncB
    = .ok [([⟨25/12, 0, 0, 5⟩, ⟨5, 0, 0, 12⟩, ⟨5 + 24/11, 0, 0, 20⟩], [])] := by decide +kernel

/-! #### repeated timestamps -/

/-- fixes 1 and 2 share the stamp 20 s at different positions (3,4) and (6,0); legs 5, 5, 5 -/
def demoRep : List (Fix ℚ) := [⟨0, 0, 0, 10⟩, ⟨3, 4, 1, 20⟩, ⟨6, 0, 2, 20⟩, ⟨9, 4, 3, 30⟩]

example : (demoRep.map (·.t)).Pairwise (· ≤ ·) := by decide +kernel
/-- 15 s lies between fixes 0 and 1, 25 s between fixes 2 and 3 (the LAST fix stamped 20 s starts that leg); the repeated
stamp itself is answered with the FIRST fix carrying it -/
example : resampleTemporal (fun x : ℚ => x.floor) demoRep (.instants [15, 20, 25])
    = .ok [⟨3/2, 2, 1/2, 15⟩, ⟨3, 4, 1, 20⟩, ⟨15/2, 2, 5/2, 25⟩] := by decide +kernel
/-- a long track: 18 fixes of a 2 Hz receiver with a 1 s clock (fix `i` at x = 10·i, stamped `⌊i/2⌋` s); the instant 3.5 s
lies between fix 7 (the last one stamped 3 s) and fix 8 (the first one stamped 4 s) -/
def demo2Hz : List (Fix ℚ) := (List.range 18).map (fun (i : Nat) => ⟨10 * (i : ℚ), 0, 0, ((Nat.div i 2 : Nat) : ℚ)⟩)
example : (demo2Hz.map (·.t)).Pairwise (· ≤ ·) := by decide +kernel
example : resampleTemporal (fun x : ℚ => x.floor) demo2Hz (.instants [7/2, 4, 1/2])
    = .ok [⟨75, 0, 0, 7/2⟩, ⟨80, 0, 0, 4⟩, ⟨15, 0, 0, 1/2⟩] := by decide +kernel
/-- spatial mode: the sample at abscissa 6 lies on the leg travelled in no time (20 s → 20 s) and is stamped 20 s -/
example : sampleS demoRep (cum [5, 5, 5]) 6 = ⟨18/5, 16/5, 6/5, 20⟩ := by decide +kernel
/-- the contract of `⌊1000·t⌋` is met on ℚ -/
example : MsFloor (fun t : ℚ => (t * 1000).floor) := fun _ => ⟨Int.floor_le _, Int.lt_floor_add_one _⟩
/-- the stamps of `demoRep` resampled every 2 m: 10 s, then 14, 18, 20, 20 (both on the no-time leg), 20, 24, 28 s -/
example : (resampleSpatialLegs (fun x : ℚ => x.floor) demoRep [5, 5, 5] 2).toOption.map
      (fun out => out.map (fun p => ((p.t * 1000).floor).toNat))
    = some [10000, 14000, 18000, 20000, 20000, 20000, 24000, 28000] := by decide +kernel

/-- the contract of `int()` of C03's reader is met on ℚ -/
example : TV.ObsTime.TruncZ (fun x : ℚ => x.floor) :=
  fun x hx => ⟨Int.floor_nonneg.mpr hx, Int.floor_le x, Int.lt_floor_add_one x⟩
/-- S3 on an instant that is not a whole millisecond: 38.5 s + 1/3 ms reads as 1970-01-01 00:00:38.500 by the mirrored
float-path reader, which is `stampOf` (⌊1000·t⌋ = 38500) seen as an `ObsTime` -/
example : stampG (fun x : ℚ => x.floor) (77/2 + 1/3000) = some ⟨1970, 1, 1, 0, 0, 38, 500⟩ := by decide +kernel
example : (stampOf (fun t : ℚ => (t * 1000).floor) (77/2 + 1/3000)).map TV.ObsTime.Stamp.toZ
    = some ⟨1970, 1, 1, 0, 0, 38, 500⟩ := by decide +kernel

/-! #### the clamp -/
/-- the clamp acts on a value outside the two stamps (what a rounded weighted mean may be) and leaves one inside alone -/
example : clampT (77/2 - 1/1000000 : ℚ) (77/2) (77/2) = 77/2 := by decide +kernel
example : clampT (12 : ℚ) 10 20 = 12 ∧ clampT (9 : ℚ) 10 20 = 10 ∧ clampT (21 : ℚ) 10 20 = 20 := by decide +kernel

end TV.C05
