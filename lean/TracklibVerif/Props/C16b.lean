import TracklibVerif.Props.C16
import TracklibVerif.Lemmas.SimplifyVwNum
import TracklibVerif.Lemmas.SimplifyVwComplete
import TracklibVerif.Lemmas.SimplifyDepth
import TracklibVerif.Lemmas.SimplifyDepthGeom
/-! # C16, continued — Visvalingam on columns without NaN / of NaN only (T6 at full strength, T6' for the whole run) and the
**depth of Douglas–Peucker's recursion** (the finding `dp-recursion-depth` as theorems about the model).

Property theorems only; helper lemmas in `Lemmas/SimplifyVwNum.lean`, `Lemmas/SimplifyDepth.lean` (scalar-independent) and
`Lemmas/SimplifyDepthGeom.lean` (ordered field). Same conventions as `Props/C16.lean`. -/
namespace TV.C16
open TV.Simplify

section anyScalar
variable {α : Type} [Add α] [Sub α] [Mul α] [Div α] [Neg α] [LT α] [DecidableLT α] [BEq α]
  [OfNat α 0] [OfNat α 1] [OfNat α 2]

/-- T6 at full strength (**every column without NaN**): Visvalingam on a track of ≥ 2 fixes all of whose triangle areas are numbers
below ARGMIN's start value **or equal to it** (`big = float('inf')`: on doubles, areas in `[-inf, +inf]`, i.e. *not NaN* — an infinite area,
e.g. from coordinates of about 1e154, is found since b728412), for **every** tolerance: the result is a sub-sequence of the input
observations in their original order, it keeps the **first** and the last observation and at least two, every pass of the loop finds a
minimum, and the loop stops by itself within `len(track)` passes. `vw_sublist_ends` (areas strictly below `big`) is the special case;
what remains outside is exactly a NaN area (T14 pass by pass, `vw_all_nan` for a column of NaN). Any scalar type. -/
theorem vw_sublist_ends_no_nan (big eps : α) (L : List (Fix α)) (h2 : 2 ≤ L.length)
    (hnum : ∀ a b c, a ∈ L → b ∈ L → c ∈ L → areaFix a b c < big ∨ (areaFix a b c == big) = true) :
    (visvalingam big eps L).Sublist L ∧
    (visvalingam big eps L).head? = L.head? ∧
    (visvalingam big eps L).getLast? = L.getLast? ∧
    2 ≤ (visvalingam big eps L).length ∧
    AllHit big (eps * eps) L.length (vwInit L) ∧
    vwStep big (eps * eps) (vwLoop big (eps * eps) L.length (vwInit L)) = none := by
  obtain ⟨a, b, c, d⟩ := vw_any big eps L
  have hi := vwInit_invP (fun v => v < big ∨ (v == big) = true) L hnum h2
  have hall := allHit_of_inv big (eps * eps) _ L hnum (fun _ h => h) L.length (vwInit L) hi
  have hk := vwLoop_first_kept big (eps * eps) L.length (vwInit L) hi.first hi.last hall
  rw [vwInit_map_fst] at hk
  exact ⟨a, hk, b, c h2, hall, d⟩

/-- T13 on columns without NaN: under the hypothesis of `vw_sublist_ends_no_nan` (infinite areas allowed) **every** run with another
choice among equally small triangles keeps the first and the last observation and at least two. Any scalar type, any tolerance. -/
theorem vw_any_tiebreak_no_nan (big eps : α) (L out : List (Fix α)) (h2 : 2 ≤ L.length)
    (hnum : ∀ a b c, a ∈ L → b ∈ L → c ∈ L → areaFix a b c < big ∨ (areaFix a b c == big) = true)
    (h : VwAnyResult big eps L out) :
    out.Sublist L ∧ out.head? = L.head? ∧ out.getLast? = L.getLast? ∧ 2 ≤ out.length := by
  refine ⟨vw_any_tiebreak_sublist big eps L out h, ?_⟩
  obtain ⟨S', r, _, e⟩ := h
  obtain ⟨r1, r3, r4⟩ := r.specP (fun v => v < big ∨ (v == big) = true) L hnum (fun _ h => h)
    (vwInit_invP _ L hnum h2)
  rw [vwInit_map_fst] at r3 r4
  subst e
  exact ⟨r3, r4, by rw [List.length_map]; exact r1.len⟩

/-- T9 (ends) on columns without NaN: Visvalingam on a `Track` with a well-formed feature table without `'@aire'`, of ≥ 2 fixes none of
whose triangle areas is NaN (infinite areas allowed), keeps the first and the last **observation** (feature rows included), for every
tolerance. `vw_track_ends` is the special case of areas strictly below the start value. Any scalar type. -/
theorem vw_track_ends_no_nan (big eps : α) (T O : Trk α) (hf : FreshTable T) (h2 : 2 ≤ T.pts.length)
    (hnum : ∀ a b c, a ∈ fixes T.pts → b ∈ fixes T.pts → c ∈ fixes T.pts →
      areaFix a b c < big ∨ (areaFix a b c == big) = true)
    (h : vwTrk big eps T = .ok O) :
    O.pts.head? = T.pts.head? ∧ O.pts.getLast? = T.pts.getLast? :=
  vwTrk_ends_no_nan big eps T O hf h2 hnum h

/-- the statement of C16 for Visvalingam **on the `Track`, in one piece, on every column without NaN**: for every track of ≥ 2 fixes with a
well-formed feature table without `'@aire'` none of whose triangle areas is NaN, and every tolerance, the call succeeds, the
observations returned (feature rows included) are a sub-sequence of the input's with the **first and the last** observation, at least
two of them; feature dict and `uid`/`tid`/`base` are the input's. -/
theorem vw_track_correct_no_nan (big eps : α) (T : Trk α) (hf : FreshTable T) (h2 : 2 ≤ T.pts.length)
    (hnum : ∀ a b c, a ∈ fixes T.pts → b ∈ fixes T.pts → c ∈ fixes T.pts →
      areaFix a b c < big ∨ (areaFix a b c == big) = true) :
    ∃ O, vwTrk big eps T = .ok O ∧ O.pts.Sublist T.pts ∧ O.pts.head? = T.pts.head? ∧ O.pts.getLast? = T.pts.getLast? ∧
      2 ≤ O.pts.length ∧ O.dico = T.dico ∧ O.info = T.info := by
  have hne : T.pts ≠ [] := by intro e; rw [e] at h2; simp at h2
  obtain ⟨O, h, _, hs, hd, hi⟩ := vw_track big eps T hf hne
  obtain ⟨O', h', _, _, hl2⟩ := vw_track_any big eps T hf hne
  rw [h] at h'; cases h'
  obtain ⟨e1, e2⟩ := vwTrk_ends_no_nan big eps T O hf h2 hnum h
  exact ⟨O, h, hs, e1, e2, hl2 h2, hd, hi⟩

/-- T6' for the **whole run** (what exactly happens with NaN areas, extreme case): when **no** triangle area of the track is a number
below ARGMIN's start value, equal to it, or above the squared tolerance — on doubles: every area, of repeated fixes too, is NaN
(`inf − inf`: coordinates that are infinite or whose every difference overflows) — every pass records no index, ARGMIN answers its
default 0, `NaN > eps` is False, and the observations are removed **from the front**: Visvalingam returns exactly the **last two**
observations (the whole track if it has at most two). Mixed columns: T14. Any scalar type, any tolerance. -/
theorem vw_all_nan (big eps : α) (L : List (Fix α))
    (hn : ∀ a b c, a ∈ L → b ∈ L → c ∈ L →
      ¬ areaFix a b c < big ∧ ¬ (areaFix a b c == big) = true ∧ ¬ areaFix a b c > eps * eps) :
    visvalingam big eps L = L.drop (L.length - 2) := by
  have hlen : (vwInit L).length = L.length := by
    have := congrArg List.length (vwInit_map_fst L)
    rwa [List.length_map] at this
  have := vwLoop_all_nan big (eps * eps) L hn L.length (vwInit L) (vwInit_nanInv big (eps * eps) L hn) (by omega)
  rw [vwInit_map_fst, hlen] at this
  exact this

/-- T13 (**completeness** of the enumeration the correspondence check uses, on columns without NaN): on a track of ≥ 2 observations
identified by their tags (as the driver's and the harness' tracks are: the tag is the index) all of whose triangle areas are numbers
`<=` ARGMIN's start value (T6's hypothesis at full strength: no NaN), whenever `visvalingamAll` does not give up (`some R`: no level
held more than `cap` states) its result is **exactly** the set of results of the runs with some choice among equally small triangles:
sound (`vw_all_levels_sound`) **and complete** — every such run ends in a member of `R`. Merging the states of a level that hold the
same observations loses nothing there, because a state is a function of its observations (NaN at both ends, every interior entry
the area of the triangle with the current neighbours). So a run of the implementation that the correspondence check does not find
in `R` is not a run of T13 at all. Outside the hypothesis (a NaN area: the first observation can go and the column keeps stale
entries) completeness is not claimed. Any scalar type, any tolerance. -/
theorem vw_all_levels_complete (big eps : α) (cap : Nat) (L : List (Fix α)) (R : List (List (Fix α))) (h2 : 2 ≤ L.length)
    (hnum : ∀ a b c, a ∈ L → b ∈ L → c ∈ L → areaFix a b c < big ∨ (areaFix a b c == big) = true)
    (htag : ∀ x ∈ L, ∀ y ∈ L, x.tag = y.tag → x = y)
    (h : visvalingamAll big eps cap L = some R) : ∀ out, out ∈ R ↔ VwAnyResult big eps L out := by
  intro out
  refine ⟨fun ho => vw_all_levels_sound big eps cap L R h out ho, fun ho => ?_⟩
  unfold visvalingamAll at h
  cases hR : vwAllLevels big (eps * eps) cap (L.length + 1) [vwInit L] [] with
  | none => rw [hR] at h; cases h
  | some R0 =>
    rw [hR] at h
    simp only [Option.map_some, Option.some.injEq] at h
    subst h
    obtain ⟨S', r, hn, e⟩ := ho
    obtain ⟨j, rj⟩ := r.toN
    have hc := (vwAllLevels_complete big (eps * eps) cap L hnum htag (vwInit L)
      ⟨vwInit_invP _ L hnum h2, vwInit_cons L⟩ (L.length + 1) 0 [vwInit L] [] R0
      (fun S r0 => by cases r0; exact List.mem_cons_self)
      (fun S hS => by rw [List.mem_singleton.mp hS]; exact VReachN.zero _) hR).2 j S' (Nat.zero_le _) rj hn
    exact List.mem_map.mpr ⟨S', hc, e.symm⟩

/-! #### the depth of Douglas–Peucker's recursion (`dpDepth`, `Model/Simplify.lean`) -/

/-- T16 (the depth is the depth of the same recursion): `dpDepth` is defined exactly when `douglas_peucker` returns. -/
theorem dp_depth_defined_iff (sqrt : α → α) (eps : α) (L : List (Fix α)) :
    (∃ d, dpDepth sqrt eps L = some d) ↔ ∃ out, douglasPeucker sqrt eps L = some out := by
  have h := dpDepthFuel_isSome sqrt eps L.length L
  unfold dpDepth douglasPeucker
  rw [← Option.isSome_iff_exists, ← Option.isSome_iff_exists, h]

/-- T16 (**bound**, the finding `dp-recursion-depth` seen from the model): under the hypotheses of T3 — `eps > 0`, and a chord's first end is
never at a strictly positive computed distance from it (a theorem over a field, `dp_depth_bound`; from the zero laws of rounded
arithmetic, `dp_depth_bound_zero_laws`; checked bit-exactly on the implementation by the `dist` stream) — the recursion of
`douglas_peucker` on a track of `n` fixes is defined and is **at most `n − 2` levels deep** (`0` for `n <= 2`): CPython needs at most
`n − 1` frames of `douglas_peucker`. With `dp_depth_attained` (the bound is reached by a track of every length), "RecursionError on
some track of `n` fixes iff `n − 1` frames exceed what the interpreter has left" is a statement whose only assumption outside the
model is CPython's recursion limit. Any scalar type. -/
theorem dp_depth_le (sqrt : α → α) (eps : α) (heps : (0 : α) < eps)
    (hd0 : ∀ a b : Fix α, ¬ (distFix sqrt a b a > 0)) (L : List (Fix α)) :
    ∃ d, dpDepth sqrt eps L = some d ∧ d ≤ L.length - 2 := by
  obtain ⟨d, hd⟩ := (dp_depth_defined_iff sqrt eps L).mpr (dp_total_of_self_distance sqrt eps heps hd0 L)
  exact ⟨d, hd, dpDepthFuel_le sqrt eps heps hd0 L.length L d hd⟩

/-- T16 (when the bound is reached): on a track on which every split peels exactly one fix (`PeelOne`: at every level the farthest fix
from the chord is `L[1]` and is not below the tolerance) the recursion is exactly `len(L) − 2` levels deep. Any scalar type. -/
theorem dp_depth_peel (sqrt : α → α) (eps : α) (L : List (Fix α)) (h : PeelOne sqrt eps L) :
    dpDepth sqrt eps L = some (L.length - 2) :=
  dpDepthFuel_peel sqrt eps L.length L h (by omega)

end anyScalar

section totalOrderAnyArithmetic
variable {α : Type} [Add α] [Sub α] [Mul α] [Div α] [Neg α] [BEq α] [OfNat α 0] [OfNat α 1] [OfNat α 2] [LinearOrder α]

/-- T16 under rounded arithmetic: with the six zero laws of T3' the depth is defined and at most `n − 2` for every `eps > 0` -/
theorem dp_depth_bound_zero_laws (sqrt : α → α) (hz : ZeroLaws sqrt) (eps : α) (heps : (0 : α) < eps) (L : List (Fix α)) :
    ∃ d, dpDepth sqrt eps L = some d ∧ d ≤ L.length - 2 :=
  dp_depth_le sqrt eps heps (fun a b => by rw [distFix_self_ord sqrt hz a b]; exact lt_irrefl _) L

end totalOrderAnyArithmetic

section orderedField
variable {α : Type} [Field α] [LinearOrder α] [IsStrictOrderedRing α]

/-- T16 over an ordered field with an exact sqrt: for every track and every `eps > 0` the depth is defined and at most `n − 2` -/
theorem dp_depth_bound (sqrt : α → α) (hs : SqrtOK sqrt) (eps : α) (heps : 0 < eps) (L : List (Fix α)) :
    ∃ d, dpDepth sqrt eps L = some d ∧ d ≤ L.length - 2 :=
  dp_depth_le sqrt eps heps (fun a b => by rw [distFix_self sqrt hs a b]; exact lt_irrefl 0) L

/-- T16 (**the bound is attained**, the witness of the finding as a family): for every `n` the track of `n` fixes on the y-axis with
ordinates `n, −(n−1), n−2, …, ±1` (`osc 1 n 0`: `pts = [(0, (-1)**i * (n - i)) for i in range(n)]`, a collinear oscillation of linearly
decreasing amplitude) and every tolerance `0 < eps <= 1` (the finding uses 0.5) makes `douglas_peucker` recurse exactly `n − 2` levels
deep — at every level the farthest fix from the chord is `L[1]` and the split `L[0:1] / L[1:n]` peels one fix — while the result keeps
all `n` fixes. With CPython's limit of 1000 frames: `n = 1100` raises RecursionError, `n = 900` passes (findings/C16.json). Ordered
field, exact sqrt. -/
theorem dp_depth_attained (sqrt : α → α) (hs : SqrtOK sqrt) (eps : α) (heps1 : eps ≤ 1) (n : Nat) :
    (osc (1 : α) n 0).length = n ∧ dpDepth sqrt eps (osc (1 : α) n 0) = some (n - 2) := by
  refine ⟨osc_length 1 n 0, ?_⟩
  have := dp_depth_peel sqrt eps (osc (1 : α) n 0) (osc_peel sqrt hs eps heps1 n 1 0 (one_mul 1))
  rwa [osc_length] at this

end orderedField

/-! ### the hypotheses are satisfiable; the theorems at work -/

/-- `vw_sublist_ends_no_nan` at work with an area EQUAL to the start value (`big = 8`, "infinite"): hypothesis and conclusion -/
example : ∀ a ∈ [(⟨0, 0, 0⟩ : Fix Rat), ⟨1, 2, 4⟩, ⟨2, 4, 0⟩], ∀ b ∈ [(⟨0, 0, 0⟩ : Fix Rat), ⟨1, 2, 4⟩, ⟨2, 4, 0⟩],
    ∀ c ∈ [(⟨0, 0, 0⟩ : Fix Rat), ⟨1, 2, 4⟩, ⟨2, 4, 0⟩], areaFix a b c < (8 : Rat) ∨ (areaFix a b c == (8 : Rat)) = true := by
  decide +kernel

example : (visvalingam (8 : Rat) 3 [⟨0, 0, 0⟩, ⟨1, 2, 4⟩, ⟨2, 4, 0⟩]).head? = some ⟨0, 0, 0⟩ := by decide +kernel

/-- `vw_all_nan` at work (`big = −1`: no area — all are ≥ 0 over ℚ — is below it or equal to it; tolerance 3: no area exceeds 9): the last
two observations come back -/
example : ∀ a ∈ [(⟨0, 0, 0⟩ : Fix Rat), ⟨1, 2, 4⟩, ⟨2, 4, 0⟩, ⟨3, 5, 1⟩], ∀ b ∈ [(⟨0, 0, 0⟩ : Fix Rat), ⟨1, 2, 4⟩, ⟨2, 4, 0⟩, ⟨3, 5, 1⟩],
    ∀ c ∈ [(⟨0, 0, 0⟩ : Fix Rat), ⟨1, 2, 4⟩, ⟨2, 4, 0⟩, ⟨3, 5, 1⟩],
      ¬ areaFix a b c < (-1 : Rat) ∧ ¬ (areaFix a b c == (-1 : Rat)) = true ∧ ¬ areaFix a b c > (3 : Rat) * 3 := by
  decide +kernel

example : visvalingam (-1 : Rat) 3 [⟨0, 0, 0⟩, ⟨1, 2, 4⟩, ⟨2, 4, 0⟩, ⟨3, 5, 1⟩] = [⟨2, 4, 0⟩, ⟨3, 5, 1⟩] := by decide +kernel

/-- the hypotheses of `vw_all_levels_complete` hold on the track of T13's example (`tieTrack`: three equal areas), whose three
results `visvalingamAll` lists: they are all the results any tie-break can produce -/
example : (∀ a ∈ tieTrack, ∀ b ∈ tieTrack, ∀ c ∈ tieTrack, areaFix a b c < (10 ^ 300 : Rat) ∨ (areaFix a b c == (10 ^ 300 : Rat)) = true) ∧
    (∀ x ∈ tieTrack, ∀ y ∈ tieTrack, x.tag = y.tag → x = y) ∧ (visvalingamAll (10 ^ 300 : Rat) 1 8 tieTrack).isSome = true := by
  decide +kernel

/-- the depth at work on integers with the integer square root (coordinates doubled, tolerance 1): the oscillation of 6 fixes is
4 levels deep and keeps every fix -/
example : dpDepth isqrt 1 [(⟨0, 0, 12⟩ : Fix Int), ⟨1, 0, -10⟩, ⟨2, 0, 8⟩, ⟨3, 0, -6⟩, ⟨4, 0, 4⟩, ⟨5, 0, -2⟩] = some 4 := by
  decide +kernel

example : (douglasPeucker isqrt 1 [(⟨0, 0, 12⟩ : Fix Int), ⟨1, 0, -10⟩, ⟨2, 0, 8⟩, ⟨3, 0, -6⟩, ⟨4, 0, 4⟩, ⟨5, 0, -2⟩]).map List.length
    = some 6 := by decide +kernel

/-- a track that is simplified to its chord is 0 levels deep; one split in the middle: 1 level (ℚ, the 3-4-5 triangle of `sqrtTab`) -/
example : dpDepth sqrtTab 4 [⟨0, 0, 0⟩, ⟨1, 4, 3⟩, ⟨2, 4, 0⟩] = some 0 := by decide +kernel

example : dpDepth sqrtTab 1 [⟨0, 0, 0⟩, ⟨1, 4, 0⟩, ⟨2, 4, 3⟩, ⟨3, 0, 0⟩] = some 1 := by decide +kernel

/-- over ℝ with `Real.sqrt`: a track of 1100 fixes that is 1098 levels deep (the finding's witness), and no track of 1100 fixes is deeper -/
example : dpDepth Real.sqrt (1 / 2) (osc (1 : ℝ) 1100 0) = some 1098 :=
  (dp_depth_attained Real.sqrt (fun x hx => ⟨Real.sqrt_nonneg x, Real.mul_self_sqrt hx⟩) (1 / 2) (by norm_num) 1100).2

example (L : List (Fix ℝ)) (h : L.length = 1100) : ∃ d, dpDepth Real.sqrt (1 / 2) L = some d ∧ d ≤ 1098 := by
  obtain ⟨d, a, b⟩ := dp_depth_bound Real.sqrt (fun x hx => ⟨Real.sqrt_nonneg x, Real.mul_self_sqrt hx⟩) (1 / 2) (by norm_num) L
  exact ⟨d, a, by omega⟩

end TV.C16
