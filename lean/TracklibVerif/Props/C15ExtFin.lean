import TracklibVerif.Props.C15Ext
import TracklibVerif.Lemmas.Filter
import TracklibVerif.Lemmas.FilterNp
/-! # C15 — `Filter.execute` over Python's numbers and over a field: finite weights of any sign

`Props/C15Ext.lean` says what `Model/FilterExt.lean` (the loops of `Filter.execute` run over `Ext α`: an exact scalar extended with
`inf`, `-inf`, `nan`) returns when the weights are not finite (a weight list whose total is 0 or NaN) and when a window holds infinite samples.
This file ties that model to the model over a field (`Model/Filter.lean`) on finite inputs:

* `finite_weights_any_sign` — finite weights of any sign: the output is `Σ k·v / Σ k` over the window *as numpy divides* (`fin_div_fin`):
  the renormalised mean when the norm is not 0, `±inf` / NaN when it cancels. This is the strongest statement there is for negative
  weights: the mean formula survives, the bounds (`filter_bounds`) do not, and a cancelling norm yields an infinity, not an exception;
* `ext_model_agrees`, `list_ext_model_agrees` — without a zero norm both models return the same signal (`meanSignal`), so every theorem of
  `Props/C15.lean` about `filterWindow` / `execute` in the domain is a theorem about the model over Python's numbers as well.

No law of arithmetic is used by the transfer lemmas (`inner_lift`: `fin` commutes with `+`, `*` by definition); the field is needed to
name the sums (`wsum`, `wtot`) and to split `fin t / fin n` by the sign of `t`. Rounding stays outside, as everywhere in C15. -/
set_option linter.unusedSectionVars false
namespace TV.C15
open TV.Filter

section hom
variable {α : Type} [Add α] [Mul α] [Div α] [OfNat α 0] [LT α] [DecidableLT α]

/-- a signal of finite values and NaN (`none`), seen as Python's numbers -/
def liftSig (v : List (Option α)) : List (Ext α) :=
  v.map (fun o => match o with | none => Ext.nan | some a => Ext.fin a)

theorem liftSig_length (v : List (Option α)) : (liftSig v).length = v.length := by simp [liftSig]

theorem toSamples_liftSig (v : List (Option α)) : toSamples (liftSig v) = v.map (Option.map Ext.fin) := by
  unfold toSamples liftSig
  rw [List.map_map]
  apply List.map_congr_left
  intro o _
  cases o <;> rfl

theorem sample_lift (v : List (Option α)) (D i j : Nat) :
    sample (v.map (Option.map Ext.fin)) D i j = (sample v D i j).map Ext.fin := by
  unfold sample
  simp only [List.length_map, List.getElem?_map]
  split
  · rfl
  · split
    · rfl
    · cases h : v[((i : Int) - (j : Int) + (D : Int)).toNat]? with
      | none => rfl
      | some o => cases o <;> rfl

theorem inner_lift (v : List (Option α)) (D i : Nat) (ks : List α) :
    ∀ (j : Nat) (t n : α), inner (v.map (Option.map Ext.fin)) D i (ks.map Ext.fin) j (Ext.fin t, Ext.fin n) =
      (Ext.fin (inner v D i ks j (t, n)).1, Ext.fin (inner v D i ks j (t, n)).2) := by
  induction ks with
  | nil => intro j t n; rfl
  | cons kj ks ih =>
    intro j t n
    simp only [List.map_cons]
    unfold inner
    rw [sample_lift]
    cases h : sample v D i j with
    | none => simp only [Option.map_none]; exact ih (j + 1) t n
    | some x => simp only [Option.map_some]; exact ih (j + 1) (t + x * kj) (n + kj)

theorem anySample_lift (v : List (Option α)) (D i : Nat) (ks : List α) :
    ∀ j, anySample (v.map (Option.map Ext.fin)) D i (ks.map Ext.fin) j = anySample v D i ks j := by
  induction ks with
  | nil => intro j; rfl
  | cons kj ks ih =>
    intro j
    simp only [List.map_cons]
    unfold anySample
    rw [sample_lift, ih (j + 1)]
    cases sample v D i j <;> rfl
end hom

/-! ## Finite weights of any sign -/
section finite
variable {α : Type} [Field α] [LinearOrder α] [IsStrictOrderedRing α]

/-- `temp[i] / norm` as numpy computes it from finite accumulators: the quotient when the norm is not 0, else `inf` / `-inf` by the
sign of the sum of products, `nan` for `0 / 0` -/
theorem fin_div_fin (t n : α) : (Ext.fin t / Ext.fin n : Ext α) =
    if n ≠ 0 then Ext.fin (t / n) else if 0 < t then Ext.pinf else if t < 0 then Ext.ninf else Ext.nan := by
  show Ext.div (Ext.fin t) (Ext.fin n) = _
  unfold Ext.div
  by_cases hn : n = 0
  · subst hn
    simp only [lt_irrefl, or_self, if_false, ne_eq, not_true_eq_false]
    unfold Ext.mulInf Ext.sgnInf
    by_cases h1 : 0 < t
    · simp [h1]
    · by_cases h2 : t < 0
      · simp [h1, h2]
      · simp [h1, h2]
  · have : 0 < n ∨ n < 0 := (lt_or_gt_of_ne hn).symm
    simp [this, hn]

theorem temp_lift_get (v : List (Option α)) (k : List α) (i : Nat) (hi : i < v.length) :
    ((cells (toSamples (liftSig v)) (k.map Ext.fin) (k.length / 2)).map (fun c => c.1 / c.2))[i]? =
      some (Ext.fin (wsum (window v k (k.length / 2) i)) / Ext.fin (wtot (window v k (k.length / 2) i))) := by
  rw [List.getElem?_map, cells_getElem?, toSamples_liftSig, List.length_map, if_pos hi]
  show Option.map _ (some (inner _ _ _ _ _ (Ext.fin 0, Ext.fin 0))) = _
  rw [inner_lift, inner_eq]
  simp only [Option.map_some, zero_add]
  rfl

/-- **Finite weights of any sign** (negative ones included; the window of a Kernel object with `np = false`, a weight list already normalised
with `np = true`), finite or NaN samples, every window reading at least one sample. The loops compute exactly `Σ k·v` and `Σ k` over the
window; the output is their quotient *as numpy computes it* (`fin_div_fin`): the renormalised weighted mean whenever the collected norm is
not 0 — with negative weights it need not lie between the samples —, and when the norm cancels (possible only with weights of both signs
or all zero) `inf` / `-inf` by the sign of `Σ k·v`, NaN when that is 0 too: never an exception with numpy weights, a ZeroDivisionError
with Python floats (excluded here by `hnp`). -/
theorem finite_weights_any_sign (v : List (Option α)) (k : List α) (boundary np : Bool) (hodd : k.length % 2 = 1)
    (hsample : ∀ i, i < v.length → window v k (k.length / 2) i ≠ [])
    (hnp : np = false → ∀ i, i < v.length → wtot (window v k (k.length / 2) i) ≠ 0)
    (hlen : boundary = false → k.length / 2 ≤ v.length) :
    ∃ out, filterWindowX (liftSig v) (k.map Ext.fin) boundary np = .ok out ∧ out.length = v.length ∧
      ∀ i, i < v.length →
        ((boundary = true ∨ (k.length / 2 ≤ i ∧ i < v.length - k.length / 2)) →
          out[i]? = some (Ext.fin (wsum (window v k (k.length / 2) i)) / Ext.fin (wtot (window v k (k.length / 2) i)))) ∧
        (boundary = false → (i < k.length / 2 ∨ v.length - k.length / 2 ≤ i) → out[i]? = (liftSig v)[i]?) := by
  rw [filterWindowX_eq]
  simp only [List.length_map, liftSig_length]
  have h1 : ¬ (k.length % 2 == 0) = true := by simp [hodd]
  rw [if_neg h1]
  have h2 : (cells (toSamples (liftSig v)) (k.map Ext.fin) (k.length / 2)).zipIdx.any
      (fun c => (c.1.2.isZero && !np) || !anySample (toSamples (liftSig v)) (k.length / 2) c.2 (k.map Ext.fin) 0) = false := by
    rw [List.any_eq_false]
    intro c hc
    rw [mem_cells_zipIdx, toSamples_liftSig, List.length_map] at hc
    obtain ⟨hci, hce⟩ := hc
    have hce' : c.1 = (Ext.fin (wsum (window v k (k.length / 2) c.2)), Ext.fin (wtot (window v k (k.length / 2) c.2))) := by
      rw [hce]
      show inner _ _ _ _ _ (Ext.fin 0, Ext.fin 0) = _
      rw [inner_lift, inner_eq]
      simp only [zero_add]
      rfl
    rw [toSamples_liftSig, anySample_lift, anySample_eq, hce']
    have hw : (windowFrom v (k.length / 2) c.2 k 0).isEmpty = false := by
      have := hsample c.2 hci
      unfold window at this
      cases hW : windowFrom v (k.length / 2) c.2 k 0 with
      | nil => exact absurd hW this
      | cons _ _ => rfl
    rw [hw]
    cases np with
    | true => simp
    | false =>
      have hne := hnp rfl c.2 hci
      have : 0 < wtot (window v k (k.length / 2) c.2) ∨ wtot (window v k (k.length / 2) c.2) < 0 := (lt_or_gt_of_ne hne).symm
      rcases this with h | h <;> simp [Ext.isZero, h]
  rw [h2]
  simp only [Bool.false_eq_true, if_false]
  cases boundary with
  | true =>
    refine ⟨_, rfl, ?_, ?_⟩
    · simp [cells, toSamples, liftSig]
    · intro i hi
      refine ⟨fun _ => temp_lift_get v k i hi, fun h => absurd h (by simp)⟩
  | false =>
    have h3 : ¬ v.length < k.length / 2 := by have := hlen rfl; omega
    simp only [Bool.false_eq_true, if_false, h3]
    refine ⟨_, rfl, by simp, ?_⟩
    intro i hi
    refine ⟨?_, ?_⟩
    · intro h
      rcases h with h | h
      · exact absurd h (by simp)
      · have hb : ¬ (i < k.length / 2 ∨ v.length - k.length / 2 ≤ i) := by omega
        rw [List.getElem?_map, List.getElem?_range hi]
        simp only [Option.map_some, if_neg hb, temp_lift_get v k i hi, Option.getD_some]
    · intro _ hb
      rw [List.getElem?_map, List.getElem?_range hi]
      simp only [Option.map_some, if_pos hb]
      have : i < (liftSig v).length := by rw [liftSig_length]; exact hi
      rw [List.getElem?_eq_getElem this]
      rfl
end finite

/-! ## In the domain the model over Python's numbers IS the model over a field -/
section agree
variable {α : Type} [Field α] [LinearOrder α] [IsStrictOrderedRing α]

theorem liftSig_getElem? (v : List (Option α)) (i : Nat) :
    (liftSig v)[i]? = (v[i]?).map (fun o => match o with | none => Ext.nan | some a => Ext.fin a) := by
  unfold liftSig; rw [List.getElem?_map]

/-- **No zero norm: the two models agree.** Finite weights of any sign, finite / NaN samples, no collected norm equal to 0 (in particular
everywhere in the property's domain `InDomain`): the model over Python's numbers returns the signal of the model over a field —
`meanSignal`, about which `filter_is_mean`, `filter_bounds`, `filter_const`, `boundary_copy`, … speak — with no `inf` and no NaN other
than a copied boundary NaN. -/
theorem ext_model_agrees (v : List (Option α)) (k : List α) (boundary np : Bool) (hodd : k.length % 2 = 1)
    (hden : ∀ i, i < v.length → wtot (window v k (k.length / 2) i) ≠ 0)
    (hlen : boundary = false → k.length / 2 ≤ v.length) :
    filterWindowX (liftSig v) (k.map Ext.fin) boundary np = .ok (liftSig (meanSignal v k boundary)) := by
  have hsample : ∀ i, i < v.length → window v k (k.length / 2) i ≠ [] := by
    intro i hi h
    exact hden i hi (by rw [h, wtot_nil])
  obtain ⟨out, hout, hl, hget⟩ := finite_weights_any_sign v k boundary np hodd hsample (fun _ => hden) hlen
  rw [hout]
  congr 1
  apply List.ext_getElem?
  intro i
  by_cases hi : i < v.length
  · rw [liftSig_getElem?, meanSignal_get v k boundary i hi]
    obtain ⟨h1, h2⟩ := hget i hi
    by_cases hc : boundary = false ∧ (i < k.length / 2 ∨ v.length - k.length / 2 ≤ i)
    · rw [if_pos hc, h2 hc.1 hc.2, liftSig_getElem?, List.getElem?_eq_getElem hi]
      rfl
    · rw [if_neg hc]
      have hf : boundary = true ∨ (k.length / 2 ≤ i ∧ i < v.length - k.length / 2) := by
        cases boundary with
        | true => exact Or.inl rfl
        | false =>
          right
          have : ¬ (i < k.length / 2 ∨ v.length - k.length / 2 ≤ i) := fun h => hc ⟨rfl, h⟩
          omega
      rw [h1 hf, fin_div_fin, if_pos (hden i hi)]
      rfl
  · have h1 : out[i]? = none := by rw [List.getElem?_eq_none_iff]; omega
    have h2 : (liftSig (meanSignal v k boundary))[i]? = none := by
      rw [List.getElem?_eq_none_iff, liftSig_length]
      unfold meanSignal
      simp only [List.length_map, List.length_range]
      omega
    rw [h1, h2]

theorem foldl_fin (k : List α) : ∀ a : α, (k.map Ext.fin).foldl (· + ·) (Ext.fin a) = Ext.fin (k.foldl (· + ·) a) := by
  induction k with
  | nil => intro a; rfl
  | cons x k ih => intro a; simp only [List.map_cons, List.foldl_cons]; exact ih (a + x)

theorem normalise_fin (k : List α) (hs : k.sum ≠ 0) : normalise (k.map Ext.fin) = (normalise k).map Ext.fin := by
  unfold normalise
  show (k.map Ext.fin).map (fun x => x / (k.map Ext.fin).foldl (· + ·) (Ext.fin 0)) = _
  rw [foldl_fin, TV.Filter.foldl_add, zero_add, List.map_map, List.map_map]
  apply List.map_congr_left
  intro a _
  simp only [Function.comp]
  rw [fin_div_fin, if_pos hs]

/-- **A weight list with a non-zero total and no zero norm** (negative weights allowed): `Filter.execute` over Python's numbers leaves the
caller's list divided by its total and returns the mean signal of the caller's weights, exactly what `execute_is_mean` says of the model
over a field (`execute v (.list k)`, theorem `execute_list_eq`). -/
theorem list_ext_model_agrees (v : List (Option α)) (k : List α) (hodd : k.length % 2 = 1) (hs : k.sum ≠ 0)
    (hden : ∀ i, i < v.length → wtot (window v k (k.length / 2) i) ≠ 0) (hlen : k.length / 2 ≤ v.length) :
    executeListX (liftSig v) (k.map Ext.fin) = .ok ((k.map (· / k.sum)).map Ext.fin, liftSig (meanSignal v k false)) ∧
    execute v (.list k) = .ok (some (k.map (· / k.sum)), meanSignal v k false) := by
  refine ⟨?_, ?_⟩
  · unfold executeListX
    simp only [normalise_fin k hs]
    rw [ext_model_agrees v (normalise k) false true (by rw [TV.Filter.normalise_length]; exact hodd)
      (by
        intro i hi
        rw [TV.Filter.normalise_length, wtot_window_normalise]
        exact div_ne_zero (hden i hi) hs)
      (by intro _; rw [TV.Filter.normalise_length]; exact hlen)]
    rw [meanSignal_normalise v k false hs, TV.Filter.normalise_eq]
  · rw [execute_list_eq v k hodd hden hlen hs, TV.Filter.normalise_eq]
end agree

/-! ## The statements are not vacuous (the model evaluated on the corpus inputs `ext-negative-norm-cancels`, `ext-inf-sample-zero-weight`) -/

/-- weights `[1,-2,2]`: at index 1 the sample under the weight 1 is NaN, the valid weights -2 and 2 cancel, `Σ k·v = -4`: `-inf` -/
example : filterWindowX (α := Int) [.fin 1, .fin 3, .nan, .fin 1, .fin 3, .fin 1] [.fin 1, .fin (-2), .fin 2] false true =
    .ok [.fin 1, .ninf, .fin 2, .fin (-1), .fin (-3), .fin 1] := by rfl

/-- a zero weight on an infinite sample is `0 * inf = nan` (window `[0,1,1,1,0]`, boundaries filtered, Python floats) -/
example : filterWindowX (α := Int) [.fin 1, .pinf, .ninf, .fin 4, .fin 5, .fin 6, .fin 9] [.fin 0, .fin 1, .fin 1, .fin 1, .fin 0] true false =
    .ok [.nan, .nan, .nan, .nan, .nan, .fin 6, .fin 7] := by rfl

/-- the hypotheses of `finite_weights_any_sign` hold for `[1,-2,2]` on `[1, 3, NaN, 1]` over `ℚ`-like fields: stated for any ordered field -/
example {α : Type} [Field α] [LinearOrder α] [IsStrictOrderedRing α] :
    ∃ out, filterWindowX (liftSig [some (1 : α), some 3, none, some 1]) ([1, -2, 2].map Ext.fin) true true = .ok out ∧ out.length = 4 := by
  obtain ⟨out, h, hl, _⟩ := finite_weights_any_sign [some (1 : α), some 3, none, some 1] [1, -2, 2] true true (by simp)
    (by
      intro i hi
      have : i = 0 ∨ i = 1 ∨ i = 2 ∨ i = 3 := by simp at hi; omega
      rcases this with rfl | rfl | rfl | rfl <;> simp [window, windowFrom, val?, List.zipIdx])
    (by intro h; cases h) (by intro h; cases h)
  exact ⟨out, h, hl⟩
end TV.C15
