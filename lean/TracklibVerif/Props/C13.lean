import TracklibVerif.Lemmas.TextIOGpx
import TracklibVerif.Lemmas.TextIOAll3
import TracklibVerif.Lemmas.TextIOGpxAF
import TracklibVerif.Lemmas.TextIOWktFile
import TracklibVerif.Lemmas.TextIOSession
import TracklibVerif.Lemmas.TextIOStrFmt
/-! # C13 — tracks and networks written to file are read back unchanged

Theorems about the model `TV.TextIO` (`Model/TextIO.lean`), which mirrors
`TrackWriter.writeToFile` (also with every argument at its default) / `writeToCsv` / `TrackReader.__readFromCsv` (including
`read_all` and the directory branch of `readFromFile`), `ObsTime.__str__` / `readTimestamp`,
`NetworkWriter.writeToCsv` / `NetworkReader.readFromFile`, `Track.toWKT` / `TrackReader.parseWkt` / `TrackReader.readFromWkt`,
`TrackWriter.writeToGpx` (with and without `af=True`, a track or a collection in one file) / `TrackReader.__readFromGpx`.
Numbers are decimals in sign–magnitude form: `v : SNum` at `d` decimals stands for the float `±mag / 10^d`. The fixed-point
formats of the CSV / GPX writers print it exactly on that lattice; `str(float)` (WKT, network geometries, feature values) prints
the shortest round-trip decimal of ANY finite double — positionally or, below `1e-4` and from `1e16`, in exponent notation
(`reprFloat`) — and `float()` reads both (`parseDec?`, with an exponent part). That contract (`format`'s rounding of off-lattice
values, `repr`'s choice of the shortest digits, `float()`'s correctly rounded conversion) is exercised by the correspondence
check, not proved. Every file-level theorem is over lists of ANY length; `csv_file_lines` and the `…_same_number_same_order`
theorems say so in the words of the statement (one physical line per observation; same number, same order), with examples at 5000
observations / vertices. -/
namespace TV.C13
open TV.TextIO TV.ObsTime

/-- **T1 `fixed_roundtrip`** — "coordinates equal to the written precision": for every scaled integer
(of either sign, including the `-0.000` Python prints for a negative value that rounds to zero), every
width `w` and number of decimals `d`, `float("{:w.df}".format(x).strip())` is exactly the printed decimal:
mantissa `v.toInt`, `d` decimals. Instances: `{:10.3f}` (ENU/ECEF, 1 mm), `{:20.10f}` (GEO, 1e-10°). -/
theorem fixed_roundtrip (w d : Nat) (v : SNum) : parseDec? (renderFixedS w d v) = some (v.toInt, d) := by
  rw [renderFixedS_eq, parseDec_fixedCoreS]

theorem toInt_ofInt (n : Int) : (SNum.ofInt n).toInt = n := by
  unfold SNum.toInt SNum.ofInt
  by_cases h : n < 0
  · simp [h]; omega
  · simp [h]; omega

/-- T1 for a plain integer `n` (the value `n / 10^d`). -/
theorem fixed_roundtrip_int (w d : Nat) (n : Int) : parseDec? (renderFixed w d n) = some (n, d) := by
  unfold renderFixed
  rw [fixed_roundtrip, toInt_ofInt]

/-- T1 without the `strip()` (the GPX writer prints `{:3.8f}` inside attributes and `float()` reads it). -/
theorem fixed_padded_roundtrip (w d : Nat) (v : SNum) : parseDec? (fixedWS w d v) = some (v.toInt, d) :=
  parseDec_fixedWS w d v

/-- **T2 `columns_roundtrip`** (layout): when the column ids in use are a bijection onto `0..k-1`
(`ValidIds`), `__printInOrder` with the sorted `O` list writes in column `j` the datum whose id is `j`
(`cols`), followed by the feature columns; and the reader's look-ups `fields[id_E]`, `fields[id_N]`,
`fields[id_U]`, `fields[id_T]` in such a list of fields find E, N, U, T, whatever follows. -/
theorem columns_roundtrip (f : CsvFmt) (hv : ValidIds f) (naf : Nat) (E N : Str) (U T : Option Str) (afs : Str)
    (hU : U.isSome = decide (f.idU ≠ -1)) (hT : T.isSome = decide (f.idT ≠ -1)) (more : List Str) :
    printInOrder E N U T afs (orderList f naf) f.sep
        = .ok (joinChar f.sep (cols f (strip E) (strip N) (U.map strip) (T.map strip)) ++ afs)
    ∧ nth (cols f (strip E) (strip N) (U.map strip) (T.map strip) ++ more) (idx f.idE) = .ok (strip E)
    ∧ nth (cols f (strip E) (strip N) (U.map strip) (T.map strip) ++ more) (idx f.idN) = .ok (strip N)
    ∧ (∀ u, U = some u → nth (cols f (strip E) (strip N) (U.map strip) (T.map strip) ++ more) (idx f.idU) = .ok (strip u))
    ∧ (∀ t, T = some t → nth (cols f (strip E) (strip N) (U.map strip) (T.map strip) ++ more) (idx f.idT) = .ok (strip t)) := by
  have hl := cols_lookup f hv (strip E) (strip N) (U.map strip) (T.map strip) more
  refine ⟨printInOrder_layout f hv naf E N U T afs hU hT, hl.1, hl.2.1, ?_, ?_⟩
  · intro u hu
    subst hu
    have : f.idU ≠ -1 := by simpa using hU.symm
    simpa using hl.2.2.1 this
  · intro t ht
    subst ht
    have : f.idT ≠ -1 := by simpa using hT.symm
    simpa using hl.2.2.2 this

/-- the valid id assignments are exactly the 2 + 6 + 6 + 24 permutation layouts -/
theorem validIds_iff (e n u t : Int) : validB e n u t = true ↔ (e, n, u, t) ∈ layouts :=
  ⟨validB_mem_layouts, fun h => layouts_valid _ h⟩

/-- **T2 (data line)** `row_roundtrip`: for a bijective layout, a separator that is neither a digit, `-`,
`.` nor the newline, a time format of distinct full-width codes whose literals avoid the separator, the
quote, `#` and the newline (and that does not start or end with a blank), and coordinates that do not
collide with the reader's no-data sentinel, the line `writeToFile` writes for an observation — with any
number of feature columns — is read back by `__readFromCsv` as exactly that observation: coordinates with
the printed decimals, third coordinate 0 when no U column is written, timestamp with the fields the format
names (`project`; `ObsTime()` when no T column is written). The line contains no newline, is its own
`strip()`, is not empty and is not a comment line. -/
theorem row_roundtrip (f : CsvFmt) (geo : Bool) (pf : List Tok) (naf : Nat) (r : Row) (afs : List AFVal)
    (hv : ValidIds f) (hsep : numChar f.sep = false) (hnl : f.sep ≠ '\n')
    (htime : f.idT ≠ -1 → TimeOK pf f.sep ∧ Fits r.t)
    (hnd : decTrunc (r.x.toInt, (floatFmt geo).2) ≠ noData ∧ decTrunc (r.y.toInt, (floatFmt geo).2) ≠ noData)
    (hafs : ∀ v ∈ afs, AFOK f.sep v) :
    ∃ line, writeRow f geo pf (orderList f naf) r afs = .ok line ∧
      '\n' ∉ line ∧ strip line = line ∧ (∃ c cs, line = c :: cs ∧ c ≠ '#') ∧
      readRow f pf line = .ok ⟨(r.x.toInt, (floatFmt geo).2), (r.y.toInt, (floatFmt geo).2),
        if f.idU = -1 then (0, 0) else (r.z.toInt, (floatFmt geo).2),
        if f.idT = -1 then epoch else project pf r.t⟩ :=
  TV.TextIO.row_roundtrip f geo pf naf r afs hv hsep hnl htime hnd hafs

/-- **T2 (file)** `csv_file_roundtrip`: under the hypotheses of `row_roundtrip` for every observation
(`RowOK`), for every value of the writer's `h` argument, every coordinate system name and feature names free of
end-of-line characters (`HdrOK`), the text `writeToFile` produces — the data lines, preceded when `h > 0` by
the three comment lines `#srid: …`, `#ref point: …`, `#<column names>` — is read back by
`readFromCsv(..., h=hr)` as the same number of observations in the same order, each equal to what was written
(`expRow`), for every reader header count `hr` up to the number of header lines written (0 when `h = 0`, 3
otherwise). In particular the matching call `hr = h` reads everything back for `h` = 0, 1, 2, 3, and `hr = 0`
always does (the header lines are comment lines). -/
theorem csv_file_roundtrip (f : CsvFmt) (geo : Bool) (pf : List Tok) (h naf : Nat) (rows : List (Row × List AFVal))
    (srid : Str) (names : List Str)
    (hv : ValidIds f) (hsep : numChar f.sep = false) (hnl : f.sep ≠ '\n') (htime : f.idT ≠ -1 → TimeOK pf f.sep)
    (hrows : ∀ ra ∈ rows, RowOK f geo pf ra.1) (hafs : ∀ ra ∈ rows, ∀ v ∈ ra.2, AFOK f.sep v) (hh : HdrOK srid names) :
    ∃ text, writeToFile f geo pf h naf rows srid names = .ok text ∧
      ∀ hr, hr ≤ (if h = 0 then 0 else 3) → readCsv f pf hr text = .ok (rows.map (fun ra => expRow f geo pf ra.1)) :=
  TV.TextIO.csv_file_roundtrip f geo pf h naf rows srid names hv hsep hnl htime hrows hafs hh

/-- the matching call: written with the flag `h` (0 or 1), read with `h` -/
theorem csv_file_roundtrip_matching (f : CsvFmt) (geo : Bool) (pf : List Tok) (h naf : Nat) (hh01 : h ≤ 1)
    (rows : List (Row × List AFVal)) (srid : Str) (names : List Str)
    (hv : ValidIds f) (hsep : numChar f.sep = false) (hnl : f.sep ≠ '\n') (htime : f.idT ≠ -1 → TimeOK pf f.sep)
    (hrows : ∀ ra ∈ rows, RowOK f geo pf ra.1) (hafs : ∀ ra ∈ rows, ∀ v ∈ ra.2, AFOK f.sep v) (hh : HdrOK srid names) :
    ∃ text, writeToFile f geo pf h naf rows srid names = .ok text ∧
      readCsv f pf h text = .ok (rows.map (fun ra => expRow f geo pf ra.1)) := by
  obtain ⟨text, hw, hr⟩ := csv_file_roundtrip f geo pf h naf rows srid names hv hsep hnl htime hrows hafs hh
  exact ⟨text, hw, hr h (by split <;> omega)⟩

/-- **T2 (file, text level, any length)** `csv_file_lines`: under the hypotheses of `csv_file_roundtrip` the text
`writeToFile` produces for a track of ANY number of observations is made of physical lines, each terminated by its own
end-of-line character — the header block `hdr` (none for `h = 0`, three comment lines otherwise) followed by exactly one
line per observation, in order (`rowLine`), none of which contains an end-of-line character. Read line by line
(`readline()`, `fileLines`) the file gives these lines back: `header lines + number of observations` of them. (This is
what a writer that gathers its lines by blocks and forgets the line break between two blocks violates from the first
full block on: two observations on one physical line.) -/
theorem csv_file_lines (f : CsvFmt) (geo : Bool) (pf : List Tok) (h naf : Nat) (rows : List (Row × List AFVal))
    (srid : Str) (names : List Str)
    (hv : ValidIds f) (hsep : numChar f.sep = false) (hnl : f.sep ≠ '\n') (htime : f.idT ≠ -1 → TimeOK pf f.sep)
    (hrows : ∀ ra ∈ rows, RowOK f geo pf ra.1) (hafs : ∀ ra ∈ rows, ∀ v ∈ ra.2, AFOK f.sep v) (hh : HdrOK srid names) :
    ∃ text hdr, writeToFile f geo pf h naf rows srid names = .ok text ∧
      hdr.length = (if h = 0 then 0 else 3) ∧
      text = ((hdr ++ rows.map (fun ra => rowLine f geo pf ra.1 ra.2)).map (· ++ ['\n'])).flatten ∧
      (∀ l ∈ hdr ++ rows.map (fun ra => rowLine f geo pf ra.1 ra.2), '\n' ∉ l) ∧
      fileLines text = hdr ++ rows.map (fun ra => rowLine f geo pf ra.1 ra.2) ∧
      (fileLines text).length = (if h = 0 then 0 else 3) + rows.length := by
  obtain ⟨hdr, hlen, hl, hw⟩ := TV.TextIO.writeToFile_eq f geo pf h naf rows srid names hv hsep hnl htime hrows hafs hh
  have hno : ∀ l ∈ hdr ++ rows.map (fun ra => rowLine f geo pf ra.1 ra.2), '\n' ∉ l := by
    intro l hm
    simp only [List.mem_append, List.mem_map] at hm
    rcases hm with hm | ⟨ra, hra, rfl⟩
    · exact (hl l hm).1
    · have hr := hrows ra hra
      exact (row_roundtrip_line f geo pf naf ra.1 ra.2 hv hsep hnl (fun ht => ⟨htime ht, hr.1 ht⟩) hr.2 (hafs ra hra)).2.1
  have hfl := fileLines_flatten _ hno
  refine ⟨_, hdr, hw, hlen, rfl, hno, hfl, ?_⟩
  rw [hfl, List.length_append, List.length_map, hlen]

/-- **T2 (file, any length)** `csv_file_same_number_same_order`: the statement of the property in its own words — "the same
number of observations in the same order" — for a track of ANY number of observations: the track read back has as many
observations as the track written, and its `i`-th observation is the `i`-th observation written (`expRow`), for every
`i`, with every reader header count up to the number of header lines written. -/
theorem csv_file_same_number_same_order (f : CsvFmt) (geo : Bool) (pf : List Tok) (h naf : Nat) (rows : List (Row × List AFVal))
    (srid : Str) (names : List Str)
    (hv : ValidIds f) (hsep : numChar f.sep = false) (hnl : f.sep ≠ '\n') (htime : f.idT ≠ -1 → TimeOK pf f.sep)
    (hrows : ∀ ra ∈ rows, RowOK f geo pf ra.1) (hafs : ∀ ra ∈ rows, ∀ v ∈ ra.2, AFOK f.sep v) (hh : HdrOK srid names) :
    ∃ text, writeToFile f geo pf h naf rows srid names = .ok text ∧
      ∀ hr, hr ≤ (if h = 0 then 0 else 3) → ∃ back, readCsv f pf hr text = .ok back ∧ back.length = rows.length ∧
        ∀ i (hi : i < rows.length), back[i]? = some (expRow f geo pf rows[i].1) := by
  obtain ⟨text, hw, hr⟩ := csv_file_roundtrip f geo pf h naf rows srid names hv hsep hnl htime hrows hafs hh
  refine ⟨text, hw, fun k hk => ⟨_, hr k hk, by simp, ?_⟩⟩
  intro i hi
  simp [List.getElem?_map, List.getElem?_eq_getElem hi]

/-- the hypotheses are satisfiable by a long track: 5000 observations (more than two blocks of 2048 lines) with a negative
coordinate, a coordinate beyond 1e6 and a leap-day timestamp one second before midnight; the file has 5000 lines and 5000
observations are read back, the last one being the observation written -/
example : ∃ text, writeToFile ⟨0, 1, 2, 3, ','⟩ false (tokenize "2D/2M/4Y 2h:2m:2s".toList) 0 0
      (List.replicate 5000 (⟨⟨true, 1500⟩, ⟨false, 1000000123⟩, ⟨false, 0⟩, ⟨⟨2024, 2, 29, 23, 59, 59⟩, 0⟩⟩, [])) = .ok text ∧
    (fileLines text).length = 5000 ∧
    ∃ back, readCsv ⟨0, 1, 2, 3, ','⟩ (tokenize "2D/2M/4Y 2h:2m:2s".toList) 0 text = .ok back ∧ back.length = 5000 ∧
      back[4999]? = some ⟨(-1500, 3), (1000000123, 3), (0, 3), ⟨⟨2024, 2, 29, 23, 59, 59⟩, 0⟩⟩ := by
  have hv : ValidIds ⟨0, 1, 2, 3, ','⟩ := by decide
  have ht : TimeOK (tokenize "2D/2M/4Y 2h:2m:2s".toList) ',' := timeOK_of_b _ _ (by decide)
  have hrow : RowOK ⟨0, 1, 2, 3, ','⟩ false (tokenize "2D/2M/4Y 2h:2m:2s".toList)
      ⟨⟨true, 1500⟩, ⟨false, 1000000123⟩, ⟨false, 0⟩, ⟨⟨2024, 2, 29, 23, 59, 59⟩, 0⟩⟩ :=
    ⟨fun _ => by unfold Fits; decide, by decide +kernel, by decide +kernel⟩
  have hrows : ∀ ra ∈ List.replicate 5000 ((⟨⟨true, 1500⟩, ⟨false, 1000000123⟩, ⟨false, 0⟩, ⟨⟨2024, 2, 29, 23, 59, 59⟩, 0⟩⟩ : Row), ([] : List AFVal)),
      RowOK ⟨0, 1, 2, 3, ','⟩ false (tokenize "2D/2M/4Y 2h:2m:2s".toList) ra.1 := by
    intro ra hra; rw [List.eq_of_mem_replicate hra]; exact hrow
  have hafs : ∀ ra ∈ List.replicate 5000 ((⟨⟨true, 1500⟩, ⟨false, 1000000123⟩, ⟨false, 0⟩, ⟨⟨2024, 2, 29, 23, 59, 59⟩, 0⟩⟩ : Row), ([] : List AFVal)),
      ∀ v ∈ ra.2, AFOK ',' v := by
    intro ra hra v hv'; rw [List.eq_of_mem_replicate hra] at hv'; simp at hv'
  have hh : HdrOK "ENU".toList [] := by unfold HdrOK; decide
  obtain ⟨text, hdr, hw, hlen, _, _, _, hn⟩ := csv_file_lines ⟨0, 1, 2, 3, ','⟩ false _ 0 0 _ "ENU".toList [] hv (by decide) (by decide)
    (fun _ => ht) hrows hafs hh
  obtain ⟨text', hw', hb⟩ := csv_file_same_number_same_order ⟨0, 1, 2, 3, ','⟩ false _ 0 0 _ "ENU".toList [] hv (by decide) (by decide)
    (fun _ => ht) hrows hafs hh
  obtain ⟨back, hr, hl, hi⟩ := hb 0 (Nat.le_refl 0)
  have htt : text' = text := by rw [hw] at hw'; exact (Except.ok.inj hw').symm
  subst htt
  rw [List.length_replicate] at hn hl
  refine ⟨text', hw, hn, back, hr, hl, ?_⟩
  have h49 : 4999 < (List.replicate 5000 ((⟨⟨true, 1500⟩, ⟨false, 1000000123⟩, ⟨false, 0⟩, ⟨⟨2024, 2, 29, 23, 59, 59⟩, 0⟩⟩ : Row), ([] : List AFVal))).length := by
    rw [List.length_replicate]; omega
  rw [hi 4999 h49, List.getElem_replicate]
  decide +kernel

/-- reader side of the header option: a file made of `header` first lines of any content, any number of comment
lines (`#…`) and then the data lines is read with `h=header` as exactly the observations. The header block of
`writeToFile` (`#srid: …`, `#ref point: …`, `#E;N;…`) has this shape for every split of its three lines. -/
theorem csv_header_block_roundtrip (f : CsvFmt) (geo : Bool) (pf : List Tok) (naf : Nat) (rows : List (Row × List AFVal))
    (hv : ValidIds f) (hsep : numChar f.sep = false) (hnl : f.sep ≠ '\n') (htime : f.idT ≠ -1 → TimeOK pf f.sep)
    (hrows : ∀ ra ∈ rows, RowOK f geo pf ra.1) (hafs : ∀ ra ∈ rows, ∀ v ∈ ra.2, AFOK f.sep v)
    (pre : List Str) (cm : List Str) (hpre : ∀ l ∈ pre, '\n' ∉ l) (hcm : ∀ l ∈ cm, '\n' ∉ l ∧ ∃ cs, strip l = '#' :: cs) :
    readCsv f pf pre.length (((pre ++ (cm ++ rows.map (fun ra => rowLine f geo pf ra.1 ra.2))).map (· ++ ['\n'])).flatten)
      = .ok (rows.map (fun ra => expRow f geo pf ra.1)) :=
  TV.TextIO.csv_header_block_roundtrip f geo pf naf rows hv hsep hnl htime hrows hafs pre cm hpre hcm

/-- **front end** `writeToCsv_roundtrip`: `TrackWriter.writeToCsv(track, path, track_format)` writes what `writeToFile` writes
with the column ids, separator and `header` of the TrackFormat (no feature column: `track_format.af_names` is always empty),
so the file is read back by `readFromCsv` with any header count up to the number of header lines written, under the
hypotheses of `csv_file_roundtrip`. -/
theorem writeToCsv_roundtrip (f : CsvFmt) (geo : Bool) (pf : List Tok) (h : Nat) (rows : List Row) (srid : Str)
    (hv : ValidIds f) (hsep : numChar f.sep = false) (hnl : f.sep ≠ '\n') (htime : f.idT ≠ -1 → TimeOK pf f.sep)
    (hrows : ∀ r ∈ rows, RowOK f geo pf r) (hsrid : '\n' ∉ srid) :
    ∃ text, writeToCsv f geo pf h rows srid = .ok text ∧
      ∀ hr, hr ≤ (if h = 0 then 0 else 3) → readCsv f pf hr text = .ok (rows.map (expRow f geo pf)) := by
  obtain ⟨text, hw, hr⟩ := csv_file_roundtrip f geo pf h 0 (rows.map (fun r => (r, []))) srid [] hv hsep hnl htime
    (by intro ra hra; obtain ⟨r, hr', rfl⟩ := List.mem_map.1 hra; exact hrows r hr')
    (by intro ra hra v hv'; obtain ⟨r, _, rfl⟩ := List.mem_map.1 hra; simp at hv')
    ⟨hsrid, by simp⟩
  refine ⟨text, hw, fun k hk => ?_⟩
  rw [hr k hk, List.map_map]
  rfl

/-- `writeToCsv(collection, dir, track_format)` (= `writeToFiles`): one file per track, each of which is read back as its
track. -/
theorem writeToCsv_collection_roundtrip (f : CsvFmt) (geo : Bool) (pf : List Tok) (h : Nat) (tracks : List (List Row)) (srid : Str)
    (hv : ValidIds f) (hsep : numChar f.sep = false) (hnl : f.sep ≠ '\n') (htime : f.idT ≠ -1 → TimeOK pf f.sep)
    (hrows : ∀ rows ∈ tracks, ∀ r ∈ rows, RowOK f geo pf r) (hsrid : '\n' ∉ srid) :
    ∃ texts, writeToCsvColl f geo pf h tracks srid = .ok texts ∧ texts.length = tracks.length ∧
      ∀ i (h1 : i < texts.length) (h2 : i < tracks.length), ∀ hr, hr ≤ (if h = 0 then 0 else 3) →
        readCsv f pf hr texts[i] = .ok (tracks[i].map (expRow f geo pf)) := by
  induction tracks with
  | nil => exact ⟨[], rfl, rfl, fun i h1 => absurd h1 (by simp)⟩
  | cons rows rest ih =>
    obtain ⟨text, hw, hr⟩ := writeToCsv_roundtrip f geo pf h rows srid hv hsep hnl htime (hrows rows (by simp)) hsrid
    obtain ⟨texts, hws, hlen, hrs⟩ := ih (fun rs hrs' => hrows rs (by simp [hrs']))
    refine ⟨text :: texts, ?_, by simp [hlen], ?_⟩
    · unfold writeToCsvColl at hws ⊢
      rw [List.mapM_cons, hw, hws]
      rfl
    · intro i h1 h2 k hk
      cases i with
      | zero => exact hr k hk
      | succ j => exact hrs j (by simpa using h1) (by simpa using h2) k hk

/-- **default arguments** `writeToFile_default_roundtrip`: `TrackWriter.writeToFile(track, path)` — every other argument left at its
default, the branch that builds its own format (E in column 0, N in column 1, separator `,`, no header) — writes a file that the
matching call `readFromCsv(path, 0, 1)` reads back as the same observations (planimetric coordinates; no U and no time column
is written: third coordinate 0, `ObsTime()`). -/
theorem writeToFile_default_roundtrip (geo : Bool) (pf : List Tok) (rows : List Row) (srid : Str)
    (hrows : ∀ r ∈ rows, RowOK ⟨0, 1, -1, -1, ','⟩ geo pf r) (hsrid : '\n' ∉ srid) :
    ∃ text, writeToFileDefault geo pf rows srid = .ok text ∧
      readCsv ⟨0, 1, -1, -1, ','⟩ pf 0 text = .ok (rows.map (expRow ⟨0, 1, -1, -1, ','⟩ geo pf)) := by
  obtain ⟨text, hw, hr⟩ := writeToCsv_roundtrip ⟨0, 1, -1, -1, ','⟩ geo pf 0 rows srid (by decide) (by decide) (by decide)
    (fun h => absurd rfl h) hrows hsrid
  exact ⟨text, hw, hr 0 (by simp)⟩

/-- **directory read-back** `readFromCsv_dir_roundtrip`: after `writeToCsv(collection, dir, format)`, `readFromCsv(dir, …)` (the
directory branch of `readFromFile`) — whatever the order in which `os.listdir` delivers the files (`listing`: any sequence of
written files, each paired with the track it was written from) — returns those tracks in listing order, each with all its
observations in order; a file whose track is empty is skipped. -/
theorem readFromCsv_dir_roundtrip (f : CsvFmt) (geo : Bool) (pf : List Tok) (h : Nat) (tracks : List (List Row)) (srid : Str)
    (hv : ValidIds f) (hsep : numChar f.sep = false) (hnl : f.sep ≠ '\n') (htime : f.idT ≠ -1 → TimeOK pf f.sep)
    (hrows : ∀ rows ∈ tracks, ∀ r ∈ rows, RowOK f geo pf r) (hsrid : '\n' ∉ srid) :
    ∃ texts, writeToCsvColl f geo pf h tracks srid = .ok texts ∧ texts.length = tracks.length ∧
      ∀ listing : List (Str × List Row), (∀ x ∈ listing, x ∈ texts.zip tracks) → ∀ hr, hr ≤ (if h = 0 then 0 else 3) →
        readCsvDir f pf hr (listing.map (·.1))
          = .ok ((listing.map (fun x => x.2.map (expRow f geo pf))).filter (fun t => !t.isEmpty)) := by
  obtain ⟨texts, hw, hlen, hrd⟩ := writeToCsv_collection_roundtrip f geo pf h tracks srid hv hsep hnl htime hrows hsrid
  refine ⟨texts, hw, hlen, fun listing hl hr hle => ?_⟩
  unfold readCsvDir
  have hm : (listing.map (·.1)).mapM (readCsv f pf hr) = .ok (listing.map (fun x => x.2.map (expRow f geo pf))) := by
    rw [List.mapM_map]
    apply mapM_ok
    intro x hx
    obtain ⟨i, hi, hxi⟩ := List.mem_iff_getElem.1 (hl x hx)
    rw [List.getElem_zip] at hxi
    have h1 : i < texts.length := by simp at hi; omega
    have h2 : i < tracks.length := by simp at hi; omega
    have := hrd i h1 h2 hr hle
    rw [← hxi]
    exact this
  rw [hm]
  rfl

/-- **T2 (feature columns)** `csv_read_all_roundtrip`: a track written by `writeToFile` with its header block (`h > 0`)
and the feature columns `af_names = names` — values of any kind (`AFVal`: int, float on a decimal lattice, str, nan, ±inf)
whose text is one field of the line (`AFOK`), names that are good fields, distinct and not refused by the track (`NameOK`),
a separator that is not one of the letters of the column names `E N U X Y Z lon lat h time` — is read back by
`readFromCsv(..., h=hr, read_all=True)`, for EVERY reader header count `hr` up to the three header lines written — `hr` = 0, 1,
2, 3, in particular the matching calls `h = hr` — as the same observations, the same feature names in the same order, and for
every observation the values `expAF name v` (`read_all_values` says what they are). For `hr ≤ 2` the names are those of the
last header line (`#E;N;U;time;af0;…`), which the first pass reads as a comment line (stripped); the second pass reads the
first line raw and the others stripped. For `hr = 3` the names line is consumed by the header loop RAW
(`line[1:].split(sep)`: the last name carries the newline until the names are stripped), no comment line is left, and the
second pass meets the first data line raw (its last field carries the newline until the value is stripped).
(`h = 0` writes no names: the reader raises UnboundLocalError; `hr > 3` eats data lines.) -/
theorem csv_read_all_roundtrip (f : CsvFmt) (geo : Bool) (pf : List Tok) (h naf : Nat) (rows : List (Row × List AFVal))
    (srid : Str) (names : List Str)
    (hv : ValidIds f) (hsep : numChar f.sep = false) (hnl : f.sep ≠ '\n') (hcol : f.sep ∉ colChars)
    (htime : f.idT ≠ -1 → TimeOK pf f.sep)
    (hrows : ∀ ra ∈ rows, RowOK f geo pf ra.1) (hafs : ∀ ra ∈ rows, ∀ v ∈ ra.2, AFOK f.sep v) (hsrid : '\n' ∉ srid)
    (hpos : 0 < h) (hne : rows ≠ [])
    (hnames : ∀ n ∈ names, NameOK f.sep n) (hnd : names.Nodup) (hrl : ∀ ra ∈ rows, ra.2.length = names.length) :
    ∃ text, writeToFile f geo pf h naf rows srid names = .ok text ∧
      ∀ hr, hr ≤ 3 → readCsvAll f pf hr text
        = .ok (rows.map (fun ra => expRow f geo pf ra.1), names,
               rows.map (fun ra => (names.zip ra.2).map (fun nv => expAF nv.1 nv.2))) :=
  TV.TextIO.csv_read_all_roundtrip3 f geo pf h naf rows srid names hv hsep hnl hcol htime hrows hafs hsrid hpos hne hnames hnd hrl

/-- the hypotheses are satisfiable, and `hr = 3` is not vacuous: two observations, a time column, two feature columns
(`speed`, and `k&` whose values stay texts), written with `h = 1` and read with `h = 3, read_all=True` -/
example : ∃ text, writeToFile ⟨0, 1, -1, 2, ';'⟩ false (tokenize "2D/2M/4Y 2h:2m:2s".toList) 1 2
      [(⟨⟨true, 1500⟩, ⟨false, 2250⟩, ⟨false, 0⟩, ⟨⟨2024, 2, 29, 23, 59, 59⟩, 0⟩⟩, [.dec 1 25, .int 7]),
       (⟨⟨false, 0⟩, ⟨false, 1⟩, ⟨false, 0⟩, ⟨⟨2000, 1, 1, 0, 0, 0⟩, 0⟩⟩, [.nan, .str "a b".toList])]
      "ENU".toList ["speed".toList, "k&".toList] = .ok text ∧
    text = "#srid: ENU\n#ref point: None\n#E;N;time;speed;k&\n-1.500;2.250;29/02/2024 23:59:59;2.5;7\n0.000;0.001;01/01/2000 00:00:00;nan;a b\n".toList ∧
    (readCsvAll ⟨0, 1, -1, 2, ';'⟩ (tokenize "2D/2M/4Y 2h:2m:2s".toList) 3 text).toOption
      = some ([⟨(-1500, 3), (2250, 3), (0, 0), ⟨⟨2024, 2, 29, 23, 59, 59⟩, 0⟩⟩, ⟨(0, 3), (1, 3), (0, 0), ⟨⟨2000, 1, 1, 0, 0, 0⟩, 0⟩⟩],
              ["speed".toList, "k&".toList], [[.num (25, 1), .str "7".toList], [.nan, .str "a b".toList]]) := by
  refine ⟨_, rfl, ?_, ?_⟩ <;> decide +kernel

/-- `read_all_values`: what `expAF` is. In a column whose name does not end in `&`: an `int` comes back as the float of the
same value; a float `n / 10^d` of ANY magnitude as the decimal `str()` printed — positionally or, below `1e-4` and from `1e16`,
in exponent notation (`5e-09`, `1.5e+22`) — whose value is `n / 10^d` (`repr_value`); `nan`, `inf`, `-inf` as themselves; a
string that `float()` refuses and that holds no double quote as itself. In a column whose name ends in `&` every value comes
back as its text. Feature values that are ints always satisfy `AFOK` when the separator is not a number character; floats
when it is, besides, neither the exponent marker `e` nor `+`. -/
theorem read_all_values (name : Str) :
    (name.getLast? ≠ some '&' →
      (∀ i, expAF name (.int i) = .num (i, 0)) ∧
      (∀ d n, expAF name (.dec d n) = .num (reprValF d (SNum.ofInt n)) ∧
        (reprValF d (SNum.ofInt n)).1 * 10 ^ d = n * 10 ^ (reprValF d (SNum.ofInt n)).2) ∧
      expAF name .nan = .nan ∧ (∀ b, expAF name (.inf b) = .inf b) ∧
      (∀ s, floatLit? s = none → '"' ∉ s → expAF name (.str s) = .str s)) ∧
    (name.getLast? = some '&' → ∀ v, expAF name v = .str (afText v)) ∧
    (∀ sep, numChar sep = false → (∀ i, AFOK sep (.int i)) ∧ (sep ≠ 'e' → sep ≠ '+' → ∀ d n, AFOK sep (.dec d n))) := by
  refine ⟨fun h => ?_, fun h v => expAF_amp name h v, fun sep hs => ⟨afOK_int sep hs, fun he hp => afOK_dec sep hs he hp⟩⟩
  obtain ⟨h1, h2, h3, h4, h5⟩ := expAF_values name h
  refine ⟨h1, fun d n => ⟨h2 d n, ?_⟩, h3, h4, h5⟩
  have := reprValF_value d (SNum.ofInt n)
  rwa [toInt_ofInt] at this

/-- **T3 `time_roundtrip`**: for a format made of distinct full-width codes (`2D 2M 4Y 2h 2m 2s 3z`,
`Lossless`) and arbitrary literal characters, and a stamp whose fields fit their widths (`Fits`: four-digit
year, …, which every well-formed `ObsTime` before year 10000 satisfies), reading what `__str__` printed
gives back the fields the format names; the others keep the values of `ObsTime()`. -/
theorem time_roundtrip (f : List Tok) (h : Lossless f) (t : Stamp) (ht : Fits t) :
    readTimestamp f (printTime f t) = some (project f t) := by
  rw [readTimestamp_printTime f h t ht, applyCodes_epoch f t h.1]

/-- **reading under another format** `reread_roundtrip`: a text is read under a lossless read format `f2` as the stamp whose
text under `f2` it is (`printTime f2 t2`), whatever format `f1` and stamp `t1` it was printed from — `03/04/2021` printed
from 3 April under `2D/2M/4Y` is 4 March under `2M/2D/4Y`. The result depends on the text and on the read format in force
only: this is what the `reread` stream and the twin-format sessions demand of the real code (state left by earlier reads
must not matter). -/
theorem reread_roundtrip (f1 f2 : List Tok) (h2 : Lossless f2) (t1 t2 : Stamp) (ht2 : Fits t2)
    (htext : printTime f1 t1 = printTime f2 t2) : readTimestamp f2 (printTime f1 t1) = some (project f2 t2) := by
  rw [htext]
  exact time_roundtrip f2 h2 t2 ht2

/-- 3 April 2021 under day/month is the text of 4 March 2021 under month/day -/
example : printTime (tokenize "2D/2M/4Y 2h:2m:2s".toList) ⟨⟨2021, 4, 3, 10, 0, 0⟩, 0⟩
    = printTime (tokenize "2M/2D/4Y 2h:2m:2s".toList) ⟨⟨2021, 3, 4, 10, 0, 0⟩, 0⟩ := by decide +kernel

/-- with the six calendar codes present the calendar part is read back identically ("timestamps
identical to the second") -/
theorem time_roundtrip_full (f : List Tok) (h : Lossless f) (hfull : FullDate f) (t : Stamp) (ht : Fits t) :
    ∃ t', readTimestamp f (printTime f t) = some t' ∧ t'.d = t.d :=
  ⟨_, time_roundtrip f h t ht, project_full f t hfull⟩

/-- T3 with trailing text: what follows the printed stamp (the zone letter `Z` of a GPX `<time>`) is ignored -/
theorem time_roundtrip_suffix (f : List Tok) (h : Lossless f) (t : Stamp) (ht : Fits t) (suf : Str) :
    readTimestamp f (printTime f t ++ suf) = some (project f t) := by
  rw [readTimestamp_printTime_suffix f h t ht suf, applyCodes_epoch f t h.1]

/-- **GPX** `gpx_file_roundtrip`: the text `writeToGpx` writes for a track (from the `<trk>` line on; the
metadata block above it lies outside any `<trk>` and is skipped by the scanner) is read by the `trk` scanner of
`__readFromGpx`, with a read format that reads ISO stamps (`ReadsIso`: `4Y-2M-2DT2h:2m:2s`, with or without
the trailing `Z` — the format the caller has to set), as exactly one track with the same points in the same
order: longitude, latitude with the eight printed decimals, the timestamp to the second, and the elevation
when the coordinates are geographic. For `srid` ENU / ECEF the elevation comes back as 0 (`geo = false`): the
scanner stores it in an attribute those coordinate classes do not use — the defect listed as
`gpx-elevation-non-geo`. The track name must not contain `<` or a newline. -/
theorem gpx_file_roundtrip (rf : List Tok) (hrf : ReadsIso rf) (geo : Bool) (name : Str)
    (hname : '<' ∉ name ∧ '\n' ∉ name) (rows : List GRow) (hrows : ∀ r ∈ rows, Fits r.t) :
    readGpx rf geo (gpxBody name rows) = .ok [rows.map (expG rf geo)] :=
  TV.TextIO.gpx_file_roundtrip rf hrf geo name hname rows hrows

/-- **GPX collection** `gpx_collection_roundtrip`: `writeToGpx(collection, path)` with `oneFile=True` (the default) writes one
`<trk>` element per track, in the order of the collection; the file is read back as the same number of tracks in the same
order, each with the same points in order (track names free of `<` and newline; a track without points comes back empty). -/
theorem gpx_collection_roundtrip (rf : List Tok) (hrf : ReadsIso rf) (geo : Bool) (tracks : List (Str × List GRow))
    (hok : ∀ t ∈ tracks, ('<' ∉ t.1 ∧ '\n' ∉ t.1) ∧ ∀ r ∈ t.2, Fits r.t) :
    readGpx rf geo (gpxBodyColl tracks) = .ok (tracks.map (fun t => t.2.map (expG rf geo))) :=
  TV.TextIO.gpx_collection_roundtrip rf hrf geo tracks hok

/-- two tracks in one file, the second one empty -/
example : (readGpx isoFmt true (gpxBodyColl [("a".toList, [⟨⟨false, 100000000⟩, ⟨true, 200000000⟩, ⟨false, 0⟩, ⟨⟨2020, 1, 2, 3, 4, 5⟩, 0⟩⟩]),
      ("b".toList, [])])).toOption
    = some [[⟨(100000000, 8), (-200000000, 8), (0, 8), ⟨⟨2020, 1, 2, 3, 4, 5⟩, 0⟩⟩], []] := by decide +kernel

/-- **GPX with extensions** `gpx_af_file_roundtrip`: the text `writeToGpx(track, path, af=True)` writes — every point followed
by an `<extensions>` block with one line `<name>str(value)</name>` per analytical feature — is read by the `trk` scanner as the
same single track with the same points in order (the reader does not read the feature values: `read_all` is ignored for GPX).
The scanner skips the lines from `<extensions>` to `</extensions>`, so the names of the features do not matter: a feature
called `time`, `ele`, `trk` or `trkpt` is no longer taken for the point's own tag. Hypothesis on every extension line
(`ExtOK`): it is one line and does not itself contain `</extensions>` (which would end the block early);
`gpx_af_names_ok` gives a simple sufficient condition on names and values. -/
theorem gpx_af_file_roundtrip (rf : List Tok) (hrf : ReadsIso rf) (geo : Bool) (name : Str)
    (hname : '<' ∉ name ∧ '\n' ∉ name) (rows : List (GRow × List (Str × AFVal)))
    (hrows : ∀ ra ∈ rows, Fits ra.1.t ∧ ∀ a ∈ ra.2, ExtOK a.1 a.2) :
    readGpx rf geo (gpxBodyAF name rows) = .ok [rows.map (fun ra => expG rf geo ra.1)] :=
  TV.TextIO.gpx_af_file_roundtrip rf hrf geo name hname rows hrows

/-- `gpx_af_names_ok`: every feature whose name holds no `<`, `>`, newline, does not start with `/` and is not `extensions`
itself, and whose value text holds no `<` and no newline, satisfies `ExtOK` — whatever the name otherwise is (`time`, `ele`,
`trk`, `trkpt` included). -/
theorem gpx_af_names_ok (n : Str) (v : AFVal) (h1 : '<' ∉ n) (h2 : '>' ∉ n) (h3 : '\n' ∉ n) (h4 : '<' ∉ afText v)
    (h5 : '\n' ∉ afText v) (h6 : n.head? ≠ some '/') (h7 : n ≠ "extensions".toList) : ExtOK n v :=
  extOK_of n v h1 h2 h3 h4 h5 h6 h7

/-- the two read formats the callers use for GPX files read ISO stamps; with them the calendar part of the
timestamp comes back unchanged -/
theorem gpx_read_formats : ReadsIso isoFmt ∧ ReadsIso (tokenize "4Y-2M-2DT2h:2m:2sZ".toList)
    ∧ (∀ t, (project isoFmt t).d = t.d) ∧ (∀ t, (project (tokenize "4Y-2M-2DT2h:2m:2sZ".toList) t).d = t.d) :=
  ⟨readsIso_iso, readsIso_isoZ, fun t => project_full _ t (by decide), fun t => project_full _ t (by decide)⟩

/-- **written precision, partial** `written_precision_partial`: the written precision is the precision of the TEXT. For the
CSV and GPX writers (fixed-point formats) what is printed for a coordinate `±m / 10^d` and what `float()` reads from it denote
the same number; for WKT, which writes `str(float)`, the text read back denotes exactly the number printed, whatever its
magnitude (positional or exponent notation, either marker). MISSING: Python's `format` applied to an arbitrary double (the
correctly rounded choice of `m`, hence "within half a unit of the last printed decimal"), the choice of the shortest
round-trip digits by `repr`, and `float()`'s correctly rounded conversion are library behaviour; they are exercised by the
`fix` stream, by the byte-for-byte comparison of every written file and by the off-lattice / full-range streams, not proved. -/
theorem written_precision_partial (w d : Nat) (v : SNum) (ec : Char) (hec : ec = 'e' ∨ ec = 'E') :
    parseDec? (renderFixedS w d v) = some (v.toInt, d) ∧
    (parseDec? (reprFloat ec d v) = some (reprValF d v) ∧ (reprValF d v).1 * 10 ^ d = v.toInt * 10 ^ (reprValF d v).2) :=
  ⟨fixed_roundtrip w d v, parseDec_reprFloat ec (by rcases hec with rfl | rfl <;> decide) d v, reprValF_value d v⟩

/-- well-formed stamps before year 10000 fit -/
theorem fits_of_wf (t : Stamp) (h : WFs t) (hy : t.d.year < 10000) : Fits t := by
  obtain ⟨⟨_, _, hm, _, hd, hh, hmi, hs⟩, hms⟩ := h
  have : monthDays t.d.year (t.d.month - 1) ≤ 31 := by
    unfold monthDays; split <;> (try split) <;> omega
  exact ⟨hy, by omega, by omega, by omega, by omega, by omega, hms⟩

/-- **T4 `wkt_roundtrip`**: for a non-empty ENU, Geo or ECEF track whose first two coordinates (E N / lon lat / X Y) are ANY
finite floats — `±mag / 10^d` their shortest round-trip decimals: negative zero, integer-valued (`5.0`), many digits, below
`1e-4` or from `1e16` where `str(float)` switches to the exponent notation (`1.9290316747799796e-05`, `-4.26e-12`, `1.5e+22`) —
`TrackReader.parseWkt(track.toWKT())` returns the same number of vertices in the same order, each with the coordinates written
(`expVertex`: `float()` of the printed text, third coordinate 0; `wkt_vertex_value`: its value is the value written). The text
reaches the vertex loop upper-cased (`wkt_upper`): an exponent marker is read as `E`. -/
theorem wkt_roundtrip (d : Nat) (pts : List Pt) (hne : pts ≠ []) :
    parseWkt (toWKT d pts) = .ok (pts.map (expVertex d)) :=
  TV.TextIO.wkt_roundtrip d pts hne

/-- the vertex parsed back has the planimetric coordinates written: `mantissa / 10^decimals = ±mag / 10^d` for both ordinates
(cross-multiplied, exact), and the third coordinate 0 -/
theorem wkt_vertex_value (d : Nat) (p : Pt) :
    (expVertex d p).1.1 * 10 ^ d = p.1.toInt * 10 ^ (expVertex d p).1.2 ∧
    (expVertex d p).2.1.1 * 10 ^ d = p.2.toInt * 10 ^ (expVertex d p).2.1.2 ∧ (expVertex d p).2.2 = (0, 0) :=
  ⟨reprValF_value d p.1, reprValF_value d p.2, rfl⟩

/-- what `parseWkt` works on: `wkt.upper()` of the exported text is the same text with the exponent marker `E` -/
theorem wkt_upper (d : Nat) (pts : List Pt) : toUpper (toWKT d pts) = toWKTE 'E' d pts := toUpper_toWKT d pts

/-- **`polygon_parse`**: a one-ring polygon text in the canonical layout `POLYGON((x y,x y,…))` — which tracklib never writes but
other tools do — whose ordinates are printed as `str(float)` prints them (any magnitude) is parsed by `TrackReader.parseWkt` as
the vertices of its ring, in order, each with the coordinates written. -/
theorem polygon_parse (d : Nat) (pts : List Pt) (hne : pts ≠ []) :
    parseWkt (toPolyWKT 'e' d pts) = .ok (pts.map (expVertex d)) :=
  TV.TextIO.polygon_parse d pts hne

example : toPolyWKT 'e' 5 [(0, 0), (150000, 0), (150000, 1), (0, 0)] = "POLYGON((0.0 0.0,1.5 0.0,1.5 1e-05,0.0 0.0))".toList := by
  decide +kernel

/-- **WKT file** `wkt_file_roundtrip`: tracks exported with `toWKT` and stored one per line in a csv file — `uid sep tid sep
"LINESTRING(…)"`, the layout `TrackReader.readFromWkt(path, 2, 0, 1, sep, h, doublequote=…)` reads; with or without a header line,
with or without an empty line after every track, either value of `doublequote` — come back as the same number of tracks in the
same order, each with its user id, its track id and every vertex with the planimetric coordinates written (`wkt_vertex_value`).
tracklib has no writer for this layout: the file is the one a user writes with `sep.join`. Identifiers free of the separator, the
quote and end-of-line characters; at least one vertex per track; the separator is not the quote or an end-of-line character (it
MAY be the comma or the blank: the WKT text is quoted). -/
theorem wkt_file_roundtrip (dq : Bool) (sep : Char) (hsep : sep ≠ '"') (hs : sep ≠ '\n' ∧ sep ≠ '\r') (hdr blank : Bool) (d : Nat)
    (tracks : List (Str × Str × List Pt)) (hok : ∀ t ∈ tracks, WTrackOK sep t) :
    readWktFile ⟨2, 0, 1, sep, if hdr then 1 else 0, dq⟩ (wktFile sep hdr true blank 2 0 1 d tracks)
      = .ok (tracks.map (expWTrack d)) :=
  TV.TextIO.wkt_file_roundtrip dq sep hsep hs hdr blank d tracks hok

/-- a two-track file with a header line and blank lines, separator `,` (the WKT text is quoted), one ordinate in exponent notation -/
example : wktFile ',' true true true 2 0 1 5 [("u1".toList, "t0".toList, [(150000, -225000), (1, 0)]), ("u2".toList, "t1".toList, [(0, 500000)])]
      = "user,track,wkt\nu1,t0,\"LINESTRING(1.5 -2.25,1e-05 0.0)\"\n\nu2,t1,\"LINESTRING(0.0 5.0)\"\n\n".toList
    ∧ (readWktFile ⟨2, 0, 1, ',', 1, false⟩ (wktFile ',' true true true 2 0 1 5
        [("u1".toList, "t0".toList, [(150000, -225000), (1, 0)]), ("u2".toList, "t1".toList, [(0, 500000)])])).toOption
      = some [⟨some "u1".toList, some "t0".toList, [((15, 1), (-225, 2), (0, 0)), ((1, 5), (0, 1), (0, 0))]⟩,
              ⟨some "u2".toList, some "t1".toList, [((0, 1), (50, 1), (0, 0))]⟩] := by decide +kernel
example : WTrackOK ',' ("u1".toList, "t0".toList, [(150000, -225000)]) := by unfold WTrackOK IdOK; decide

/-- **`repr_value`**: `float(str(x))` for `x = ±mag / 10^d` of any magnitude: the text — positional, or in exponent notation
with the marker `e` (as written) or `E` (after `str.upper()`) — is accepted by `float()` and the decimal read back has the
value written, `mantissa · 10^d = ±mag · 10^decimals` (exact; that this decimal is the double itself is `repr`'s
shortest-round-trip contract, see `written_precision_partial`). -/
theorem repr_value (ec : Char) (hec : ec = 'e' ∨ ec = 'E') (d : Nat) (v : SNum) :
    parseDec? (reprFloat ec d v) = some (reprValF d v) ∧ (reprValF d v).1 * 10 ^ d = v.toInt * 10 ^ (reprValF d v).2 :=
  ⟨parseDec_reprFloat ec (by rcases hec with rfl | rfl <;> decide) d v, reprValF_value d v⟩

/-- **`float_exponent_form`**: `float()` of a literal in exponent notation `[-]d[.ddd](e|E)(+|-)xx` — the digits `a`, the
exponent `x` — is the decimal `a / 10^(digits-1) · 10^x`, for every `a` and `x` (reader side of `repr_value`: also texts
`str(float)` would not print, e.g. with trailing zeros in the mantissa). -/
theorem float_exponent_form (ec : Char) (hec : ec = 'e' ∨ ec = 'E') (neg : Bool) (a : Nat) (x : Int) :
    parseDec? ((if neg then ['-'] else []) ++ sciMant a ++ expText ec x)
      = some (scaleDec (if neg then -(a : Int) else (a : Int)) (numDigits a - 1) x) :=
  parseDec_sci ec (by rcases hec with rfl | rfl <;> decide) neg a x

/-- the texts `str(float)` prints around the two switches, and what is read back: 0.0001 is positional, 0.00001 is `1e-05`;
9999999999999998.0 is positional, 1e16 is `1e+16`; the ordinate of the seeded defect; the smallest double; negative zero -/
example : reprFloat 'e' 4 ⟨false, 1⟩ = "0.0001".toList ∧ reprFloat 'e' 5 ⟨false, 1⟩ = "1e-05".toList
    ∧ reprFloat 'e' 0 ⟨false, 9999999999999998⟩ = "9999999999999998.0".toList ∧ reprFloat 'e' 0 ⟨false, 10 ^ 16⟩ = "1e+16".toList
    ∧ reprFloat 'e' 21 ⟨false, 19290316747799796⟩ = "1.9290316747799796e-05".toList
    ∧ reprFloat 'E' 27 ⟨true, 4262146191535976⟩ = "-4.262146191535976E-12".toList
    ∧ reprFloat 'e' 324 ⟨false, 5⟩ = "5e-324".toList ∧ reprFloat 'e' 3 ⟨true, 0⟩ = "-0.0".toList
    ∧ reprFloat 'e' 0 ⟨false, 5⟩ = "5.0".toList ∧ reprFloat 'e' 3 ⟨false, 15 * 10 ^ 24⟩ = "1.5e+22".toList := by decide +kernel
example : reprValF 21 ⟨false, 19290316747799796⟩ = (19290316747799796, 21) ∧ reprValF 3 ⟨false, 15 * 10 ^ 24⟩ = (15 * 10 ^ 21, 0)
    ∧ reprValF 3 ⟨true, 0⟩ = (0, 1) ∧ reprValF 5 ⟨true, 100⟩ = (-1, 3) := by decide +kernel
/-- the track of the seeded defect: a point due east of the base, one due north of it -/
example : toWKT 27 [(⟨false, 14678254238078335 * 10 ^ 12⟩, ⟨false, 19290316747799796 * 10 ^ 6⟩), (⟨true, 4262146191535976⟩, ⟨false, 22241366549883587 * 10 ^ 12⟩)]
      = "LINESTRING(14.678254238078335 1.9290316747799796e-05,-4.262146191535976e-12 22.241366549883587)".toList
    ∧ (parseWkt (toWKT 27 [(⟨false, 14678254238078335 * 10 ^ 12⟩, ⟨false, 19290316747799796 * 10 ^ 6⟩),
        (⟨true, 4262146191535976⟩, ⟨false, 22241366549883587 * 10 ^ 12⟩)])).toOption
      = some [((14678254238078335, 15), (19290316747799796, 21), (0, 0)), ((-4262146191535976, 27), (22241366549883587, 15), (0, 0))] := by
  decide +kernel

/-- **T4 `network_row_roundtrip`**: the line `NetworkWriter.writeToCsv` writes for an edge
(`id,source,target,orientation,"LINESTRING(...)"`), split by `csv.reader` with the same delimiter, gives the five
fields, and `readLineAndAddToNetwork` rebuilds the edge: same identifiers, same end nodes, same orientation,
same vertices (`expEdge`). Requires identifiers free of the delimiter, quote and end-of-line characters, an
orientation among 0, 1, −1, at least two vertices, and a delimiter that is not a number character (`SepOK`). -/
theorem network_row_roundtrip (sep : Char) (hs : SepOK sep) (hdr d : Nat) (e : NEdge) (he : EdgeOK sep e) :
    netRow sep d e = edgeBody sep d e ++ ['\n'] ∧
    csvRecord sep ((edgeBody sep d e).filter (fun c => c ≠ '\n' ∧ c ≠ '\r')) = [e.id, e.src, e.tgt, intStr e.orient, toWKT d e.geom] ∧
    netReadRow ⟨0, 1, 2, 3, 4, sep, hdr⟩ [e.id, e.src, e.tgt, intStr e.orient, toWKT d e.geom] = .ok (expEdge d e) :=
  ⟨netRow_eq sep d e, csvRecord_edgeBody sep hs d e he, netReadRow_record sep hdr d e he⟩

/-- **T4 (network file)** `net_file_roundtrip`: a network written with its header line (`h=1`) and read with
`header=1`, or written without header (`h=0`) and read with `header=0`, gives back all edges in order, each
equal to what was written — every vertex of every geometry, whether or not the network is topologically exact (edges that
share a node id may end beside the position the node was registered with: the geometry is not touched). The node table of
the result is `nodesOf` of these edges: identifiers in order of first appearance, each at the end vertex of the first edge
that mentions it (`Network.addNode` ignores a later node with the same id). -/
theorem net_file_roundtrip (sep : Char) (hs : SepOK sep) (d : Nat) (es : List NEdge) (he : ∀ e ∈ es, EdgeOK sep e) :
    netRead ⟨0, 1, 2, 3, 4, sep, 1⟩ (netWrite sep 1 d es) = .ok (es.map (expEdge d))
    ∧ netRead ⟨0, 1, 2, 3, 4, sep, 0⟩ (netWrite sep 0 d es) = .ok (es.map (expEdge d)) :=
  TV.TextIO.net_file_roundtrip sep hs d es he

/-! ### the other formats, in the words of the statement: same number, same order, for any length -/

/-- a list read back as `l.map g` has the length of `l` and `g (l[i])` at every rank `i` -/
theorem map_same_number_same_order {α β : Type} (g : α → β) (l : List α) :
    (l.map g).length = l.length ∧ ∀ i (hi : i < l.length), (l.map g)[i]? = some (g l[i]) :=
  ⟨List.length_map .., fun i hi => by simp [List.getElem?_map, List.getElem?_eq_getElem hi]⟩

/-- **GPX, any length** `gpx_same_number_same_order`: a GPX track of ANY number of points is read back as one track with
the same number of points, the `i`-th point read being the `i`-th point written (`expG`). -/
theorem gpx_same_number_same_order (rf : List Tok) (hrf : ReadsIso rf) (geo : Bool) (name : Str)
    (hname : '<' ∉ name ∧ '\n' ∉ name) (rows : List GRow) (hrows : ∀ r ∈ rows, Fits r.t) :
    ∃ back, readGpx rf geo (gpxBody name rows) = .ok [back] ∧ back.length = rows.length ∧
      ∀ i (hi : i < rows.length), back[i]? = some (expG rf geo rows[i]) :=
  ⟨_, gpx_file_roundtrip rf hrf geo name hname rows hrows, map_same_number_same_order _ rows⟩

/-- **network, any size** `net_same_number_same_order`: a network of ANY number of edges, each with ANY number of vertices,
written with / without its header line and read with the matching header count: the same number of edges, the `i`-th edge
read being the `i`-th edge written (`expEdge`: ids, end nodes, orientation, every vertex). -/
theorem net_same_number_same_order (sep : Char) (hs : SepOK sep) (d : Nat) (es : List NEdge) (he : ∀ e ∈ es, EdgeOK sep e) :
    ∃ back, netRead ⟨0, 1, 2, 3, 4, sep, 1⟩ (netWrite sep 1 d es) = .ok back ∧
      netRead ⟨0, 1, 2, 3, 4, sep, 0⟩ (netWrite sep 0 d es) = .ok back ∧ back.length = es.length ∧
      ∀ i (hi : i < es.length), back[i]? = some (expEdge d es[i]) :=
  ⟨_, (net_file_roundtrip sep hs d es he).1, (net_file_roundtrip sep hs d es he).2, map_same_number_same_order _ es⟩

/-- **WKT, any length** `wkt_same_number_same_order`: a track of ANY (non-zero) number of vertices exported by `toWKT` is
parsed back as the same number of vertices, the `i`-th vertex parsed being the `i`-th vertex exported (`expVertex`). -/
theorem wkt_same_number_same_order (d : Nat) (pts : List Pt) (hne : pts ≠ []) :
    ∃ back, parseWkt (toWKT d pts) = .ok back ∧ back.length = pts.length ∧
      ∀ i (hi : i < pts.length), back[i]? = some (expVertex d pts[i]) :=
  ⟨_, wkt_roundtrip d pts hne, map_same_number_same_order _ pts⟩

/-- non-vacuity at size: a chain of 3000 vertices / a WKT text of 5000 vertices satisfy the hypotheses -/
example : ∃ back, parseWkt (toWKT 3 (List.replicate 5000 (⟨true, 1500⟩, ⟨false, 1000000123⟩))) = .ok back ∧ back.length = 5000 := by
  obtain ⟨back, h, hl, _⟩ := wkt_same_number_same_order 3 (List.replicate 5000 (⟨true, 1500⟩, ⟨false, 1000000123⟩))
    (by intro h; have := congrArg List.length h; rw [List.length_replicate] at this; exact absurd this (by decide))
  exact ⟨back, h, by rw [hl, List.length_replicate]⟩

/-! ### non-vacuity and the documented preconditions -/

/-- the default format, the ISO format of the GPX writer and a format without separators are lossless and full -/
example : Lossless (tokenize "2D/2M/4Y 2h:2m:2s".toList) ∧ FullDate (tokenize "2D/2M/4Y 2h:2m:2s".toList) := by decide
example : Lossless (tokenize "4Y-2M-2DT2h:2m:2s".toList) ∧ FullDate (tokenize "4Y-2M-2DT2h:2m:2s".toList) := by decide
example : Lossless (tokenize "4Y2M2D2h2m2s.3z".toList) := by decide
example : Fits ⟨⟨2024, 2, 29, 23, 59, 59⟩, 999⟩ := by unfold Fits; decide
example : ValidIds ⟨3, 1, 0, 2, ';'⟩ := by decide
/-- the default format can be used with `,` and `;` but not with the blank separator -/
example : TimeOK (tokenize "2D/2M/4Y 2h:2m:2s".toList) ';' := timeOK_of_b _ _ (by decide)
example : ¬ TimeOK (tokenize "2D/2M/4Y 2h:2m:2s".toList) ' ' := fun h => absurd (h.lits ' ' (by decide)).1 (by decide)

/-- a concrete line: E in column 3, N in 1, U in 0, T in 2 -/
example : (writeRow ⟨3, 1, 0, 2, ';'⟩ false (tokenize "2D/2M/4Y 2h:2m:2s".toList) (orderList ⟨3, 1, 0, 2, ';'⟩ 0)
    ⟨⟨true, 1500⟩, ⟨false, 1000000123⟩, ⟨false, 0⟩, ⟨⟨2024, 2, 29, 23, 59, 59⟩, 0⟩⟩ []).toOption
    = some "0.000;1000000.123;29/02/2024 23:59:59;-1.500".toList := by decide +kernel

/-- counter-example documenting the bijection precondition of T2: with ids E=0, N=2 (column 1 unused)
the writer still writes two columns (rank order) and the reader looks for a third one: IndexError. -/
example : (writeToFile ⟨0, 2, -1, -1, ','⟩ false [] 0 0 [(⟨⟨false, 1000⟩, ⟨false, 2000⟩, ⟨false, 0⟩, epoch⟩, [])]).toOption
      = some "1.000,2.000\n".toList
    ∧ (readCsv ⟨0, 2, -1, -1, ','⟩ [] 0 "1.000,2.000\n".toList).toOption = none := by decide +kernel

/-- the header block `writeToFile(..., h=1)` writes: E in column 1, N in 0, time in 2, one feature column; and the
file is read back whole with `h=1` and with `h=0` -/
example : (writeToFile ⟨1, 0, -1, 2, ';'⟩ true (tokenize "2D/2M/4Y 2h:2m:2s".toList) 1 1
      [(⟨⟨false, 15000000000⟩, ⟨true, 25000000000⟩, ⟨false, 0⟩, ⟨⟨2020, 1, 1, 10, 0, 0⟩, 0⟩⟩, [.int (-7)])] "GEO".toList ["af0".toList]).toOption
    = some "#srid: Geo\n#ref point: None\n#lat;lon;time;af0\n-2.5000000000;1.5000000000;01/01/2020 10:00:00;-7\n".toList := by
  decide +kernel
example : (readCsv ⟨1, 0, -1, 2, ';'⟩ (tokenize "2D/2M/4Y 2h:2m:2s".toList) 1
      "#srid: Geo\n#ref point: None\n#lat;lon;time;af0\n-2.5000000000;1.5000000000;01/01/2020 10:00:00;-7\n".toList).toOption
      = some [⟨(15000000000, 10), (-25000000000, 10), (0, 0), ⟨⟨2020, 1, 1, 10, 0, 0⟩, 0⟩⟩]
    ∧ (readCsv ⟨1, 0, -1, 2, ';'⟩ (tokenize "2D/2M/4Y 2h:2m:2s".toList) 0
      "#srid: Geo\n#ref point: None\n#lat;lon;time;af0\n-2.5000000000;1.5000000000;01/01/2020 10:00:00;-7\n".toList).toOption
      = some [⟨(15000000000, 10), (-25000000000, 10), (0, 0), ⟨⟨2020, 1, 1, 10, 0, 0⟩, 0⟩⟩] := by decide +kernel
example : HdrOK "ECEF".toList ["af0".toList, "speed".toList] := by unfold HdrOK; decide
/-- a file with three feature columns (float, string-typed `k&`, string) read back with `read_all` -/
example : (readCsvAll ⟨0, 1, -1, 2, ';'⟩ (tokenize "2D/2M/4Y 2h:2m:2s".toList) 1
      "#srid: ENU\n#ref point: None\n#E;N;time;speed;k&;mode\n1.500;2.500;02/01/2020 03:04:05;1.25;12;walk\n4.500;5.500;02/01/2020 03:04:06;nan;13;\"q\"\n".toList).toOption
    = some ([⟨(1500, 3), (2500, 3), (0, 0), ⟨⟨2020, 1, 2, 3, 4, 5⟩, 0⟩⟩, ⟨(4500, 3), (5500, 3), (0, 0), ⟨⟨2020, 1, 2, 3, 4, 6⟩, 0⟩⟩],
        ["speed".toList, "k&".toList, "mode".toList],
        [[.num (125, 2), .str "12".toList, .str "walk".toList], [.nan, .str "13".toList, .str "q".toList]]) := by decide +kernel
/-- without the header block there are no names: UnboundLocalError -/
example : (match readCsvAll ⟨0, 1, -1, -1, ';'⟩ [] 0 "1.500;2.500;7\n".toList with | .error e => e | .ok _ => "") = "unbound" := by
  decide +kernel
example : NameOK ';' "speed".toList ∧ NameOK ';' "k&".toList ∧ ¬ NameOK ';' "x".toList := by
  unfold NameOK FieldOK reserved
  refine ⟨⟨⟨⟨by decide, ?_, ?_⟩, by decide, by decide⟩, by decide⟩, ⟨⟨⟨by decide, ?_, ?_⟩, by decide, by decide⟩, by decide⟩, fun h => h.2 (by decide)⟩ <;>
    (intro c hc; simp at hc; subst hc; decide)
example : AFOK ';' (.str "walk".toList) ∧ ';' ∉ colChars := by
  unfold AFOK FieldOK
  refine ⟨⟨⟨by decide, ?_, ?_⟩, by decide, by decide⟩, by decide⟩ <;> (intro c hc; simp [afText] at hc; subst hc; decide)
/-- the network reader with `header=0` keeps the first record -/
example : (netRead ⟨0, 1, 2, 3, 4, ',', 0⟩ "e1,a,b,-1,\"LINESTRING(0.0 0.0,1.5 -2.25)\"\n".toList).toOption
    = some [⟨"e1".toList, "a".toList, "b".toList, -1, [((0, 1), (0, 1), (0, 0)), ((15, 1), (-225, 2), (0, 0))]⟩] := by decide +kernel

/-- a network that is not topologically exact: `e2` starts 25 cm beside node `b`. Its geometry comes back as written and `b`
keeps the position `e1` registered -/
example : (netRead ⟨0, 1, 2, 3, 4, ',', 1⟩ (netWrite ',' 1 3 [⟨"e1".toList, "a".toList, "b".toList, 1, [(0, 0), (10000, 0)]⟩,
      ⟨"e2".toList, "b".toList, "c".toList, 0, [(10250, 500), (20000, 5000)]⟩])).toOption
    = some [⟨"e1".toList, "a".toList, "b".toList, 1, [((0, 1), (0, 1), (0, 0)), ((100, 1), (0, 1), (0, 0))]⟩,
            ⟨"e2".toList, "b".toList, "c".toList, 0, [((1025, 2), (5, 1), (0, 0)), ((200, 1), (50, 1), (0, 0))]⟩]
    ∧ (nodesOf [⟨"e1".toList, "a".toList, "b".toList, 1, [((0, 1), (0, 1), (0, 0)), ((100, 1), (0, 1), (0, 0))]⟩,
            ⟨"e2".toList, "b".toList, "c".toList, 0, [((1025, 2), (5, 1), (0, 0)), ((200, 1), (50, 1), (0, 0))]⟩]).map (fun n => n.2)
      = [((0, 1), (0, 1), (0, 0)), ((100, 1), (0, 1), (0, 0)), ((200, 1), (50, 1), (0, 0))] := by
  decide +kernel

/-- counter-example documenting the separator precondition: with the blank separator the default
time format is split, and the timestamp written last reads back as `ObsTime()` (the defect listed as
`csv-separator-in-timestamp`). -/
example : (readCsv ⟨0, 1, -1, 2, ' '⟩ (tokenize "2D/2M/4Y 2h:2m:2s".toList) 0 "1.000 2.000 31/01/2020 23:59:59\n".toList).toOption
    = some [⟨(1000, 3), (2000, 3), (0, 0), epoch⟩] := by decide +kernel

/-- feature names and values of every ordinary kind - the names of the point's own tags included - give extension lines the
scanner skips -/
example : ExtOK "speed".toList (.dec 2 125) ∧ ExtOK "time".toList (.int 12) ∧ ExtOK "ele".toList (.str "walk".toList) :=
  ⟨gpx_af_names_ok _ _ (by decide) (by decide) (by decide) (by decide +kernel) (by decide +kernel) (by decide) (by decide),
   gpx_af_names_ok _ _ (by decide) (by decide) (by decide) (by decide +kernel) (by decide +kernel) (by decide) (by decide),
   gpx_af_names_ok _ _ (by decide) (by decide) (by decide) (by decide) (by decide) (by decide) (by decide)⟩
/-- a point whose features are called `time` and `ele` reads back with its own timestamp and elevation -/
example : (readGpx isoFmt true (gpxBodyAF "0".toList [(⟨⟨false, 100000000⟩, ⟨false, 200000000⟩, ⟨false, 350000000⟩, ⟨⟨2020, 1, 2, 3, 4, 5⟩, 0⟩⟩,
      [("time".toList, .int 12), ("ele".toList, .int 7)])])).toOption
    = some [[⟨(100000000, 8), (200000000, 8), (350000000, 8), ⟨⟨2020, 1, 2, 3, 4, 5⟩, 0⟩⟩]] := by decide +kernel
/-- the one name that is excluded: a feature called `extensions` closes the block on its own line -/
example : ¬ ExtOK "extensions".toList (.int 1) := fun h => absurd h.1 (by decide +kernel)

/-- a network line and a WKT text -/
example : netRow ',' 3 ⟨"e1".toList, "a".toList, "b".toList, -1, [(0, 0), (1500, -2250)]⟩
    = "e1,a,b,-1,\"LINESTRING(0.0 0.0,1.5 -2.25)\"\n".toList := by decide +kernel
example : SepOK ';' ∧ SepOK ' ' ∧ ¬ SepOK '-' := by unfold SepOK; decide
example : EdgeOK ',' ⟨"e1".toList, "a".toList, "b".toList, -1, [(0, 0), (1500, -2250)]⟩ := by
  unfold EdgeOK IdOK; decide

/-! ### sessions: the hidden class-level state of `ObsTime` as part of the model state (`Model/TextIOSession.lean`)

`TState` = (`__READ_FMT`, `__PRINT_FMT`, the memo table `__PRECOMPILED_READ_FMT`); `step` = one operation of a session on it
(`setReadFormat` / `setPrintFormat` by the user, `str`, `readTimestamp`, `timeWithZone`, `writeToGpx`, `writeToFile` +
`readFromCsv`); `readTimestampS` reads through the memo table of the state, `Reachable` = any history from the class body. -/

/-- **`session_state_invariant`**: in every state a session can reach from the class body — any history of format changes by
the user and of library calls — the memo table `__PRECOMPILED_READ_FMT` is the precompiled form of the CURRENT read format
(the literal list of the class body is the precompiled default format), so `readTimestamp` in that state is `readTimestamp`
with the read format in force: what was read or set earlier does not matter. -/
theorem session_state_invariant (st : TState) (h : Reachable st) :
    st.pre = precompile (tokenize st.readFmt) ∧ ∀ s, readTimestampS st s = readTimestamp (tokenize st.readFmt) s :=
  ⟨reachable_inv st h, readTimestampS_eq st (reachable_inv st h)⟩

/-- **`session_no_state_left`**: no library call of a session leaves the class-level state changed — `str`, `readTimestamp`,
`timeWithZone` and `writeToGpx` (print format set to ISO and put back), `writeToFile` + `readFromCsv` (read format saved, set to
the TrackFormat's copy of it, put back; when the reader raises before putting it back, the format left in force is the same
one) — and any sequence of them leaves it as found. Only the user's `setReadFormat` / `setPrintFormat` move it. -/
theorem session_no_state_left (st : TState) (h : Reachable st) (last : Str) :
    (∀ op, isUser op = false → (step st last op).1 = st) ∧
    (∀ ops, (∀ op ∈ ops, isUser op = false) → run st last ops = st) :=
  ⟨fun op hop => library_call_leaves_no_state st last op (reachable_inv st h) hop,
   fun ops hops => run_library_calls st last ops (reachable_inv st h) hops⟩

/-- **`session_time_roundtrip`**: under ANY history of earlier format changes and library calls that leaves the read and the
print format equal (and lossless) at the time of the pair, `str(t)` followed — after any further library calls `mid` — by
`readTimestamp` of that text gives back the fields the format names. -/
theorem session_time_roundtrip (st : TState) (hst : Reachable st) (heq : st.readFmt = st.printFmt)
    (hl : Lossless (tokenize st.readFmt)) (t : Stamp) (ht : Fits t)
    (mid : List SOp) (hmid : ∀ op ∈ mid, isUser op = false) (last : Str) :
    (step st last (.print t)).2 = .text (printTime (tokenize st.readFmt) t) ∧
    (step (run st (printTime (tokenize st.readFmt) t) mid) last (.read (printTime (tokenize st.readFmt) t))).2
      = .stamp (some (project (tokenize st.readFmt) t)) :=
  TV.TextIO.session_time_roundtrip st hst heq hl t ht mid hmid last

/-- **`session_csv_roundtrip`**: `writeToFile` then `readFromCsv` as one operation of a session: in every reachable state whose
two formats are equal, under the hypotheses of `csv_file_roundtrip` for that format, every observation comes back (the reader
going through the memo table of the state) and the state is left as found. -/
theorem session_csv_roundtrip (st : TState) (hst : Reachable st) (heq : st.readFmt = st.printFmt)
    (f : CsvFmt) (geo : Bool) (h hr : Nat) (srid : Str) (rows : List Row)
    (hv : ValidIds f) (hsep : numChar f.sep = false) (hnl : f.sep ≠ '\n')
    (htime : f.idT ≠ -1 → TimeOK (tokenize st.printFmt) f.sep)
    (hrows : ∀ r ∈ rows, RowOK f geo (tokenize st.printFmt) r) (hsrid : '\n' ∉ srid)
    (hhr : hr ≤ (if h = 0 then 0 else 3)) (last : Str) :
    ∃ text, step st last (.csv f geo h hr srid rows)
      = (st, .csv (.ok text) (.ok (rows.map (expRow f geo (tokenize st.printFmt))))) :=
  TV.TextIO.session_csv_roundtrip st hst heq f geo h hr srid rows hv hsep hnl htime hrows hsrid hhr last

/-- a history: the user reads a text under day/month, switches both formats to month/day (a twin format), calls `timeWithZone`
and `writeToGpx`; the state reached has equal formats, its memo table is the one of month/day, and the pair `str` /
`readTimestamp` round-trips there: 3 April stays 3 April, while the text read FIRST under day/month meant 4 March -/
example :
    let hist : List SOp := [.read "03/04/2021 10:00:00".toList, .setRead "2M/2D/4Y 2h:2m:2s".toList, .setPrint "2M/2D/4Y 2h:2m:2s".toList,
      .tz ⟨⟨2021, 4, 3, 10, 0, 0⟩, 0⟩, .gpxw "t".toList []]
    let st := run TState.init [] hist
    st.readFmt = st.printFmt ∧ st.pre = [((2, 'M'), 0), ((2, 'D'), 3), ((4, 'Y'), 6), ((2, 'h'), 11), ((2, 'm'), 14), ((2, 's'), 17)] ∧
    (runOuts TState.init [] hist).map (·.1) ≠ [] ∧
    (runOuts st [] [.print ⟨⟨2021, 4, 3, 10, 0, 0⟩, 0⟩, .readLast]).map (fun x => match x.1 with | .stamp t => t | _ => none)
      = [none, some ⟨⟨2021, 4, 3, 10, 0, 0⟩, 0⟩] := by
  decide +kernel

/-! ### the string-level algorithms of `ObsTime.__str__` / `__precompileReadFmt` (`Lemmas/TextIOStrFmt.lean`) -/

/-- **`str_string_level`**: `ObsTime.__str__` works on the format STRING — for every code of `__codes` in turn, `find` the code
and splice the zero-padded field over its two characters until it is found no more (`strAlgo`: `find2` = `str.find` of a
two-character string, `splice2` = `chaine[:id] + new + chaine[id+2:]`). For every format whose literal characters are not code
letters (`LitsOK`: no `D M Y h m s z` outside the codes; digits, punctuation, blanks, `T`, `Z`, … are fine; no backslash, for
which `__str__` has a further loop) this gives exactly the text of the token-level model `printTime (tokenize fmt)` — the
inserted digits never make up a new code with what follows. All theorems about `printTime` therefore speak of the string
algorithm. -/
theorem str_string_level (fmt : Str) (h : LitsOK fmt) (t : Stamp) : strAlgo fmt t = printTime (tokenize fmt) t :=
  strAlgo_eq fmt h t

/-- **`precompile_string_level`**: the same for `__precompileReadFmt` (formats without `*`): `format.find(code)` for every code,
sorted by position and shifted, is the token-level `precompile`. -/
theorem precompile_string_level (fmt : Str) (h : LitsOK fmt) : precompileStr fmt = precompile (tokenize fmt) :=
  precompileStr_eq fmt h

/-- the formats of the streams satisfy the hypothesis; and it is needed: with the literal `D` after the code, the digits `12`
printed for day 12 make up a new `2D` with it — the string algorithm prints `112`, the tokens say `12D` -/
example : LitsOK "2D/2M/4Y 2h:2m:2s".toList ∧ LitsOK "4Y-2M-2DT2h:2m:2s.3zZ".toList ∧ LitsOK "4Y2M2D2h2m2s".toList
    ∧ LitsOK "[4Y] (2M) {2D}".toList ∧ LitsOK "1D/1M/4Y 1h:1m:1s".toList :=
  ⟨litsOK_of_b _ (by decide), litsOK_of_b _ (by decide), litsOK_of_b _ (by decide), litsOK_of_b _ (by decide), litsOK_of_b _ (by decide)⟩
example : strAlgo "2D/2M/4Y 2h:2m:2s".toList ⟨⟨2024, 2, 29, 23, 59, 59⟩, 0⟩ = "29/02/2024 23:59:59".toList := by decide +kernel
example : strAlgo "2DD".toList ⟨⟨2024, 2, 12, 0, 0, 0⟩, 0⟩ = "112".toList
    ∧ printTime (tokenize "2DD".toList) ⟨⟨2024, 2, 12, 0, 0, 0⟩, 0⟩ = "12D".toList := by decide +kernel

end TV.C13
