import TracklibVerif.Lemmas.FeaturesCall
import TracklibVerif.Lemmas.FeaturesKeep
import TracklibVerif.Lemmas.FeaturesKeepX
import TracklibVerif.Props.C01World
/-! # C01 — the list forms of `Track.operate`

Property theorems only. `Model/FeaturesCall.lean`: the list form of a void operator family is one `execute` per position
(`stepList`), the list form of a value-returning unary / binary operator raises TypeError before touching anything
(`Call.refused`). `call` is one call of the API in any of these forms. L5 (`call_keeps_listed`, lemmas in
`Lemmas/FeaturesKeep.lean`): no call but the deleting ones unlists a feature. -/
set_option linter.unusedSectionVars false
namespace TV.C01
open TV.Features
variable {V : Type} [Inhabited V] {n : Nat}


/-- L1: every call of the API in any form — single, list form of a void family (stopped by the first exception or not),
refused list form — keeps the table aligned and does on it exactly what it does on the name ↦ column specification. -/
theorem call_refines (o : Ops V) (c : Call V) (st : St V) (h : Inv n st) :
    Inv n (call o c st).2 ∧ call o c (abs st) = ((call o c st).1, abs (call o c st).2) := by
  obtain ⟨h1, h2, _⟩ := gsim_call (I := Inv n) (ab := abs) o c st h
  exact ⟨h1, h2⟩

/-- L2: the same on a heap of `Obs` objects, for a track of pairwise distinct objects: the call does what it does on the
table the track shows, the track stays such a track, objects outside it are untouched. -/
theorem heap_call_refines (o : Ops V) (c : Call V) (w : Wd V) (h : GoodTrack n w) :
    GoodTrack n (call o c w).2 ∧ call o c (view w) = ((call o c w).1, view (call o c w).2) ∧
    (call o c w).2.ids = w.ids ∧ ∀ id, id ∉ w.ids → (call o c w).2.heap[id]? = w.heap[id]? := by
  obtain ⟨hg, he, _⟩ := gsim_call (I := WGood n w.heap w.ids) (ab := view) o c w h.wgood
  exact ⟨⟨hg.nodup, hg.valid, hg.inv⟩, he, hg.ids, hg.other⟩

/-- the names a call designates -/
def touchedC : Call V → String → Prop
  | .one op, m => touched op m
  | .list ops, m => ∃ op ∈ ops, touched op m
  | .refused, _ => False

/-- L3 (no side effects): for a call in any form, returning or raising, a name that none of its positions designates
reads as before — feature, coordinate, `t`, `idx` — and is listed afterwards iff it was listed before. -/
theorem call_frame (o : Ops V) (c : Call V) (st : St V) (h : Inv n st) (m : String) (hm : ¬ touchedC c m) :
    read o (call o c st).2 m = read o st m ∧ (m ∈ names (call o c st).2 ↔ m ∈ names st) := by
  obtain ⟨hi, href⟩ := call_refines o c st h
  have hsame : Same (touchedC c) (abs st) (call o c (abs st)).2 := by
    cases c with
    | one op => exact (frame_step o op (abs st)).1
    | list ops => exact (frame_stepList o ops (abs st)).1
    | refused => exact Same.refl _ _
  rw [href] at hsame
  simp only at hsame
  refine ⟨?_, ?_⟩
  · rw [read_abs o hi, read_abs o h]
    exact aread_same o hsame m hm
  · rw [← names_abs, ← names_abs]
    unfold anames
    rw [← lookup_isSome_iff, ← lookup_isSome_iff, hsame.cols m hm]

/-- L4: the list form IS the history of its single calls, cut after the first one that raises: it returns nothing when
all return, else it raises what that call raises; the state is the state of that history. -/
theorem list_form_is_history {σ : Type} [Tbl σ V] (o : Ops V) (ops : List (Op V)) (s : σ) :
    ∃ k, k ≤ ops.length ∧ (stepList o ops s).2 = runOps o (ops.take k) s ∧
      (((stepList o ops s).1 = .ok .none ∧ k = ops.length ∧ ∀ r ∈ trace o ops s, ∃ x, r.1 = .ok x) ∨
       (∃ e op, (stepList o ops s).1 = .error e ∧ ops[k - 1]? = some op ∧ 0 < k ∧
          (step o op (runOps o (ops.take (k - 1)) s)).1 = .error e)) := by
  induction ops generalizing s with
  | nil => exact ⟨0, Nat.le_refl _, rfl, .inl ⟨rfl, rfl, fun r hr => by simp [trace] at hr⟩⟩
  | cons op rest ih =>
    cases hst : step o op s with
    | mk r s1 =>
      have hrun : ∀ l : List (Op V), runOps o (op :: l) s = runOps o l s1 := by
        intro l; simp only [runOps, List.foldl_cons, hst]
      cases r with
      | error e =>
        refine ⟨1, by simp, ?_, .inr ⟨e, op, ?_, by simp, by omega, ?_⟩⟩
        · show (M.bind (step o op) (fun _ => stepList o rest) s).2 = _
          unfold M.bind
          rw [hst]
          simp [runOps, hst]
        · show (M.bind (step o op) (fun _ => stepList o rest) s).1 = _
          unfold M.bind
          rw [hst]
        · simp [runOps, hst]
      | ok x =>
        have hbind : stepList o (op :: rest) s = stepList o rest s1 := by
          show M.bind (step o op) (fun _ => stepList o rest) s = _
          unfold M.bind
          rw [hst]
        obtain ⟨k, hk, hs, hcase⟩ := ih s1
        refine ⟨k + 1, by simpa using hk, by rw [hbind, hs, List.take_succ_cons, hrun], ?_⟩
        rcases hcase with ⟨h1, h2, h3⟩ | ⟨e, op', h1, h2, h3, h4⟩
        · refine .inl ⟨by rw [hbind, h1], by simp [h2], ?_⟩
          intro r hr
          simp only [trace, List.mem_cons] at hr
          rcases hr with rfl | hr
          · exact ⟨x, by rw [hst]⟩
          · rw [hst] at hr; exact h3 r hr
        · refine .inr ⟨e, op', by rw [hbind, h1], ?_, by omega, ?_⟩
          · rw [Nat.add_sub_cancel]
            have : k = (k - 1) + 1 := by omega
            rw [this, List.getElem?_cons_succ]; exact h2
          · rw [Nat.add_sub_cancel]
            have : k = (k - 1) + 1 := by omega
            rw [this, List.take_succ_cons, hrun]; exact h4

/-- a list form of two positions, the second of which raises (unknown input): the first position's output stays, the
second's output was created and holds zeros, the call raises -/
example : ((call iops (.list [.unaryVoid .integrator "a" (some "c"), .unaryVoid .integrator "zz" (some "d")])
      (runOps iops [.create "a" (.list [1, 2, 3])] t0)).1.toOption.isSome,
    (call iops (.list [.unaryVoid .integrator "a" (some "c"), .unaryVoid .integrator "zz" (some "d")])
      (runOps iops [.create "a" (.list [1, 2, 3])] t0)).2.rows) = (false, [[1, 0, 0], [2, 2, 0], [3, 5, 0]]) := by decide +kernel

/-- L5 (nothing disappears behind the caller's back): a call in any form none of whose positions is a deleting call —
`removeAnalyticalFeature` / `'#DELETE'`, `computeAbsCurv` (which drops its intermediate `ds`), `operate(str)` (re-assignment is
get / remove / create, and the `#` names are purged) — unlists NOTHING, whether it returns or raises: create, update, bracket
assignment, cell writes, addAnalyticalFeature, every operator object (an operator whose arithmetic fails mid-way — `sqrt` of a
negative, `1/0` — with an output feature that already exists included), `estimate_speed`, `segmentation`, the list forms. Every
feature listed before the call is listed after it (and, the table being aligned by L1, reads as a full column). This is the
statement the seeded change C01-9 broke (`Apply.execute` removing its output column when the cell function raises). For the three
deleting calls see L6 (`call_unlists_only_designated`). -/
theorem call_keeps_listed (o : Ops V) (c : Call V) (st : St V) (h : Inv n st) (hc : c.deletes = false) (m : String)
    (hm : m ∈ names st) : m ∈ names (call o c st).2 := by
  obtain ⟨_, href⟩ := call_refines o c st h
  have hk := keeps_call o c hc (abs st) m
  rw [href] at hk
  simp only at hk
  rw [← names_abs] at hm ⊢
  unfold anames at hm ⊢
  rw [← lookup_isSome_iff] at hm ⊢
  exact hk hm

/-- `operate(Operator.SQRT, "a", "b")` with `b` listed and a negative value in `a`: the call raises (the hypothesis of L5 holds:
it is not a deleting call), `b` stays listed, the table stays aligned and `b` still reads what was last written -/
example : Call.deletes (.one (.fnVoid "SQRT" "a" (some "b")) : Call Int) = false := rfl
example : ((call iops (.one (.fnVoid "SQRT" "a" (some "b")))
      (runOps iops [.create "a" (.list [4, -1, 9]), .create "b" (.list [1, 2, 3])] t0)).1.toOption.isSome,
    (call iops (.one (.fnVoid "SQRT" "a" (some "b")))
      (runOps iops [.create "a" (.list [4, -1, 9]), .create "b" (.list [1, 2, 3])] t0)).2.dico,
    (call iops (.one (.fnVoid "SQRT" "a" (some "b")))
      (runOps iops [.create "a" (.list [4, -1, 9]), .create "b" (.list [1, 2, 3])] t0)).2.rows) =
    (false, [("a", 0), ("b", 1)], [[4, 1], [-1, 2], [9, 3]]) := by decide +kernel

/-- L6 (the deleting calls delete only what they are meant to delete; completes L5 to EVERY call form): on a track with at
least one observation, a call in any form — single, list form, refused; returning or raising — unlists no name outside
`Call.mayUnlist`: the argument of `removeAnalyticalFeature` / `'#DELETE'`; `ds` for `computeAbsCurv` (so a user's `abs_curv`,
and every other name, stays); for `operate(str)` only names starting with `#` (the evaluator's temporaries and `#output`) —
in particular the left-hand side of a re-assignment `a = <expr>`, which `__applyOperation` removes and re-creates, IS listed
afterwards, also when a later operator of the expression or the purge raises; nothing at all for any other call. The reserved
names (`x y z t timestamp idx`) are excepted for `operate(str)`: the API never lists them (`__controlName`), the alignment
invariant alone does not say so. `n ≠ 0` is the property's quantifier (tracks of every size ≥ 1): on a track emptied of its
observations whose dict still lists features, `a=b` does unlist `a` (remove succeeds, create refuses an empty track). -/
theorem call_unlists_only_designated (o : Ops V) (c : Call V) (st : St V) (h : Inv n st) (hn : n ≠ 0) (m : String)
    (hm : m ∈ names st) (hx : ¬ c.mayUnlist m) : m ∈ names (call o c st).2 := by
  obtain ⟨hs, hk⟩ := kx_call hn o c
  obtain ⟨_, href, _⟩ := hs st h
  rw [← names_abs] at hm ⊢
  unfold anames at hm ⊢
  rw [← lookup_isSome_iff] at hm ⊢
  have := hk st h m hm hx
  rw [href] at this
  exact this

/-- L6 for `operate(str)`: every listed name that does not start with `#` (and is not a reserved word) is listed after the
call, returning or raising — re-assigned left-hand sides included -/
theorem expr_unlists_only_hash (o : Ops V) (rpn : List String) (st : St V) (h : Inv n st) (hn : n ≠ 0) (m : String)
    (hm : m ∈ names st) (hh : isHash m = false) (hr : reserved m = false) :
    m ∈ names (step o (.expr rpn) st).2 :=
  call_unlists_only_designated o (.one (.expr rpn)) st h hn m hm (by
    intro hx
    rcases hx with hx | hx
    · rw [hh] at hx; cases hx
    · rw [hr] at hx; cases hx)

/-- L6 for `computeAbsCurv`: every listed name but `ds` is listed after the call, returning or raising -/
theorem absCurv_unlists_only_ds (o : Ops V) (st : St V) (h : Inv n st) (hn : n ≠ 0) (m : String)
    (hm : m ∈ names st) (hne : m ≠ "ds") : m ∈ names (step o .absCurv st).2 :=
  call_unlists_only_designated o (.one .absCurv) st h hn m hm hne

/-- `operate("a=b+zz")` with `a`, `b` listed and `zz` unknown: the call raises after nothing was written, `a` and `b` stay;
`operate("a=b+b")`: `a` is removed and re-created (it moves to the last column) and reads the sum, no `#` name remains -/
example : ((call iops (.one (.expr ["a", "b", "b", "+", "="]))
      (runOps iops [.create "a" (.list [1, 2, 3]), .create "b" (.list [4, 5, 6])] t0)).1.toOption.isSome,
    (call iops (.one (.expr ["a", "b", "b", "+", "="]))
      (runOps iops [.create "a" (.list [1, 2, 3]), .create "b" (.list [4, 5, 6])] t0)).2.dico,
    (call iops (.one (.expr ["a", "b", "b", "+", "="]))
      (runOps iops [.create "a" (.list [1, 2, 3]), .create "b" (.list [4, 5, 6])] t0)).2.rows) =
    (true, [("b", 0), ("a", 1)], [[4, 8], [5, 10], [6, 12]]) := by decide +kernel
example : ¬ Call.mayUnlist (.one (.expr ["a", "b", "b", "+", "="]) : Call Int) "a" := by
  intro h; rcases h with h | h <;> revert h <;> decide +kernel

example : ((call iops (.one (.expr ["a", "b", "zz", "+", "="]))
      (runOps iops [.create "a" (.list [1, 2, 3]), .create "b" (.list [4, 5, 6])] t0)).1.toOption.isSome,
    (call iops (.one (.expr ["a", "b", "zz", "+", "="]))
      (runOps iops [.create "a" (.list [1, 2, 3]), .create "b" (.list [4, 5, 6])] t0)).2.dico,
    (call iops (.one (.expr ["a", "b", "zz", "+", "="]))
      (runOps iops [.create "a" (.list [1, 2, 3]), .create "b" (.list [4, 5, 6])] t0)).2.rows) =
    (false, [("a", 0), ("b", 1)], [[1, 4], [2, 5], [3, 6]]) := by decide +kernel
example : ¬ Call.mayUnlist (.one .absCurv : Call Int) "abs_curv" := by
  show ¬ ("abs_curv" = "ds"); decide

end TV.C01
