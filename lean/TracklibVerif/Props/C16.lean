import TracklibVerif.Lemmas.SimplifyGeom
import TracklibVerif.Lemmas.SimplifyTrack
import TracklibVerif.Lemmas.SimplifyVwOrd
import TracklibVerif.Lemmas.SimplifyVwAll
import TracklibVerif.Lemmas.SimplifyVwAny
import TracklibVerif.Lemmas.SimplifyVwTie
import TracklibVerif.Lemmas.SimplifyVwFirst
import TracklibVerif.Lemmas.SimplifyOrd
import TracklibVerif.Lemmas.SimplifyColl
import Mathlib.Tactic.Ring
import Mathlib.Analysis.Real.Sqrt
/-! # C16 — simplification keeps the end points, only drops fixes, and honours its tolerance

Property theorems only (helper lemmas: `Lemmas/Simplify.lean`, `Lemmas/SimplifyVw.lean`, `Lemmas/SimplifyVwAll.lean`,
`Lemmas/SimplifyVwAny.lean`, `Lemmas/SimplifyTrack.lean`, scalar-independent; `Lemmas/SimplifyOrd.lean`, `Lemmas/SimplifyVwOrd.lean`,
total order with arbitrary arithmetic; `Lemmas/SimplifyGeom.lean`, ordered field). Two models:
`Model/Simplify.lean` — `douglas_peucker`, `visvalingam` (algo/simplification.py) on the list of positions,
`distance_to_segment`, `triangle_area`, `aire_visval` (util/geometry.py), `Operator.ARGMIN`, as the code is after ec611a5,
1a5eeec, 68863c7, b704eae and b728412 — and `Model/SimplifyTrack.lean` — the same two functions and the dispatcher `simplify(track, tolerance, mode)`
on the `Track` **object**: feature rows of the observations, feature dict, `uid`/`tid`/`base`, the temporary `'@aire'`
column, `Track.__add__` and `removeObs` of C04. T8/T9 tie the second to the first. The same file models the attribute
`no_data_value` that the readers set (`simplifyN`: never read; `None` on a Douglas–Peucker result, copied by Visvalingam) and
`Network.simplify` (`netSimplify`: `simplify` on every edge geometry) and `TrackCollection.simplify` (`collSimplify`: `simplify` on a
copy of every track, default mode 1; the entry point repaired by 039f340 — T15 states the property for every track of a collection). T12 (`vw_any`) is Visvalingam with **no** hypothesis on
the areas. A third model file, `Model/SimplifyTie.lean`, is the freedom the statement leaves to Visvalingam — which of several equally
small triangles goes first (`VwAnyResult`, `visvalingamAll`): T13 proves the property for **every** such run, that the code's run is
one of them and that the enumeration the correspondence check accepts is sound (`Lemmas/SimplifyVwTie.lean`). T14
(`Lemmas/SimplifyVwFirst.lean`) characterises, pass by pass, when the first observation survives a mixed column.
`Props/C16b.lean` continues this file: T6 for every column without NaN, the whole run on a column of NaN, completeness of the enumeration of
T13, and T16 — the depth of Douglas–Peucker's recursion (`dpDepth`).

A fix is `⟨tag, x, y⟩`; *sublist* is about fixes (tag included), i.e. about observations.
`douglasPeucker … = some out` means "the call returns `out`"; `none` is Python's unbounded recursion.

The theorems of the first section assume **nothing** about the scalar type: they hold for every
instantiation of `+ − × ÷ <  ==`, the driver's IEEE `Float` model included. The second section (`totalOrderAnyArithmetic`)
assumes only that `<` is a **linear order** — the arithmetic is arbitrary (rounded, …): T5' (robust tolerance), T10. The
third is over a linearly ordered field with a square root satisfying `SqrtOK` (`Real.sqrt` does, see the examples). -/
namespace TV.C16
open TV.Simplify

section anyScalar
variable {α : Type} [Add α] [Sub α] [Mul α] [Div α] [Neg α] [LT α] [DecidableLT α] [BEq α]
  [OfNat α 0] [OfNat α 1] [OfNat α 2]

/-- T1: Douglas–Peucker only drops fixes — the returned observations are a sub-sequence of the input
observations, in their original order (any scalar type, any tolerance). -/
theorem dp_sublist (sqrt : α → α) (eps : α) (L out : List (Fix α))
    (h : douglasPeucker sqrt eps L = some out) : out.Sublist L :=
  dpFuel_sublist sqrt eps L.length L out h

/-- T2: the first and the last observation are always kept (first = last position, i.e. closed loops,
duplicates and collinear runs included; any scalar type), and a track of ≥ 2 fixes keeps ≥ 2 fixes. -/
theorem dp_ends (sqrt : α → α) (eps : α) (L out : List (Fix α))
    (h : douglasPeucker sqrt eps L = some out) :
    out.head? = L.head? ∧ out.getLast? = L.getLast? ∧ (2 ≤ L.length → 2 ≤ out.length) :=
  ⟨(dpFuel_ends sqrt eps L.length L out h).1, (dpFuel_ends sqrt eps L.length L out h).2,
   dpFuel_two_le sqrt eps L.length L out h⟩

/-- T3 (scalar-independent form): the recursion terminates for **every** track and every tolerance `eps > 0`
as soon as `distance_to_segment(A; A, B)` is never strictly positive (true in a field, `dp_total` below, and
checked bit-exactly on the implementation by the harness). The unusual split `L[0:imax] / L[imax:n]` is
harmless here: `1 ≤ imax ≤ n−1`, so both parts are strictly shorter. -/
theorem dp_total_of_self_distance (sqrt : α → α) (eps : α) (heps : (0 : α) < eps)
    (hd0 : ∀ a b : Fix α, ¬ (distFix sqrt a b a > 0)) (L : List (Fix α)) :
    ∃ out, douglasPeucker sqrt eps L = some out :=
  dpFuel_total_gen sqrt eps heps hd0 L.length L (by omega)

/-- T6: Visvalingam, for every track of ≥ 2 fixes whose triangle areas stay below ARGMIN's sentinel
(`big`: `float('inf')` since 68863c7, `1e300` before — i.e. areas that are finite numbers, not `inf`, not NaN) and **every** tolerance: the result is a sub-sequence of the input
observations in their original order, it keeps the first and the last observation, and the `while` loop has
stopped by itself within `len(track)` passes (`size ≤ 2` or the smallest area exceeds `eps²`): no
`IndexError`, no end point removed. Any scalar type. -/
theorem vw_sublist_ends (big eps : α) (L : List (Fix α)) (h2 : 2 ≤ L.length)
    (hbig : ∀ a b c, a ∈ L → b ∈ L → c ∈ L → areaFix a b c < big) :
    (visvalingam big eps L).Sublist L ∧
    (visvalingam big eps L).head? = L.head? ∧
    (visvalingam big eps L).getLast? = L.getLast? ∧
    vwStep big (eps * eps) (vwLoop big (eps * eps) L.length (vwInit L)) = none := by
  have hi := vwInit_inv big L hbig h2
  obtain ⟨_, r2, r3, r4⟩ := vwLoop_spec big (eps * eps) L hbig L.length (vwInit L) hi
  rw [vwInit_map_fst] at r2 r3 r4
  refine ⟨r2, r3, r4, vwLoop_stops big (eps * eps) L hbig L.length (vwInit L) hi ?_⟩
  have := congrArg List.length (vwInit_map_fst L)
  rw [List.length_map] at this
  omega

/-- T7 (the freedom left by ties): **whichever** of several equally far fixes is taken as the split point
(`dpAllFuel` enumerates all such runs; the correspondence check accepts exactly these), the result is a
sub-sequence of the input that keeps both ends. Any scalar type. -/
theorem dp_any_tiebreak (sqrt : α → α) (eps : α) (L out : List (Fix α))
    (h : out ∈ dpAllFuel sqrt eps L.length L) :
    out.Sublist L ∧ out.head? = L.head? ∧ out.getLast? = L.getLast? :=
  ⟨dpAllFuel_sublist sqrt eps L.length L out h, (dpAllFuel_ends sqrt eps L.length L out h).1,
   (dpAllFuel_ends sqrt eps L.length L out h).2⟩

/-- T11 (tolerances far above the track's extent, up to the largest double): when **no** triangle of the track has an area
`> eps * eps` — in particular when `eps * eps` is `+inf`, i.e. for every tolerance from 1.3407807929942597e154 on, now that
b704eae computes `eps = eps * eps` (`eps **= 2` raised OverflowError there) — the `break` never fires and Visvalingam
returns **exactly the first and the last observation**. Under T6's hypothesis; any scalar type. -/
theorem vw_all_below (big eps : α) (L : List (Fix α)) (h2 : 2 ≤ L.length)
    (hbig : ∀ a b c, a ∈ L → b ∈ L → c ∈ L → areaFix a b c < big)
    (hle : ∀ a b c, a ∈ L → b ∈ L → c ∈ L → ¬ areaFix a b c > eps * eps) :
    ∃ a b, L.head? = some a ∧ L.getLast? = some b ∧ visvalingam big eps L = [a, b] := by
  have hi := vwInit_inv big L hbig h2
  have hlen : (vwInit L).length ≤ L.length + 2 := by
    have := congrArg List.length (vwInit_map_fst L)
    rw [List.length_map] at this
    omega
  obtain ⟨r1, _, r3, r4⟩ := vwLoop_spec big (eps * eps) L hbig L.length (vwInit L) hi
  have l2 := vwStop_len_two big (eps * eps) L _ r1
    (vwLoop_cons big (eps * eps) L hbig L.length (vwInit L) hi (vwInit_cons L)) hle
    (vwLoop_stops big (eps * eps) L hbig L.length (vwInit L) hi hlen)
  rw [vwInit_map_fst] at r3 r4
  obtain ⟨a, b, e, ha, hb⟩ := eq_pair_of_ends (visvalingam big eps L) (by unfold visvalingam; rw [List.length_map]; exact l2)
  refine ⟨a, b, ?_, ?_, e⟩
  · rw [← ha]; exact r3.symm
  · rw [← hb]; exact r4.symm

/-- T6', the complement of T6 (round 1's second open statement), in the form it has since b728412: on a track of ≥ 3 fixes **none** of
whose interior fixes has an initial triangle area below ARGMIN's initial minimum **or equal to it** (`big = +inf` since 68863c7: every
area is NaN — e.g. `inf − inf` from coordinates of about 1e154 and more, not an ENU frame; an *infinite* area no longer qualifies, it equals
the start value and is found: T6'' below), the first pass of the loop records no index, ARGMIN answers 0, the NaN stored there does not trigger
the `break`, and the **first** observation is removed. Any scalar type, any tolerance. The harness' `wild` stream compares the code with
the model on such inputs. -/
theorem vw_sentinel_first_pass (big eps2 : α) (L : List (Fix α)) (h3 : 3 ≤ L.length)
    (h : ∀ (j : Nat) (v : α), 0 < j → aireVisval L j = some v → ¬ v < big ∧ ¬ (v == big) = true) :
    ∃ S', vwStep big eps2 (vwInit L) = some S' ∧ S'.map (·.1) = L.eraseIdx 0 := by
  have hlen : (vwInit L).length = L.length := by
    have := congrArg List.length (vwInit_map_fst L)
    rwa [List.length_map] at this
  have h0 : (vwInit L)[0]? = some (L[0], none) := by
    rw [vwInit_getElem?, List.getElem?_eq_getElem (by omega)]; rfl
  obtain ⟨S', e1, e2⟩ := vwStep_sentinel big eps2 (vwInit L) (by omega) L[0] h0 (by
    intro j v hj
    rw [List.getElem?_map, vwInit_getElem?] at hj
    cases hL : L[j]? with
    | none => rw [hL] at hj; simp at hj
    | some p =>
      rw [hL] at hj
      simp only [Option.map_some, Option.some.injEq] at hj
      by_cases hj0 : j = 0
      · simp [hj0] at hj
      · simp only [hj0, ↓reduceIte] at hj
        exact h j v (by omega) hj)
  exact ⟨S', e1, by rw [e2, vwInit_map_fst]⟩

/-- T6'' (what b728412 repaired, seen from Visvalingam): as soon as **one** interior fix has an initial triangle area that is a number
below ARGMIN's initial minimum **or equal to it** — `+inf` itself: an infinite area, which the scan started from `(inf, index 0)` never
found before b728412 — the first pass, if the loop makes one, removes an observation **other than the first**. (T14 is the same
statement for every pass of the run.) Any scalar type, any tolerance. -/
theorem vw_first_pass_found (big eps2 : α) (L : List (Fix α)) (h1 : 1 ≤ L.length) (S' : VState α)
    (h : ∃ (j : Nat) (v : α), 0 < j ∧ aireVisval L j = some v ∧ (v < big ∨ (v == big) = true))
    (hs : vwStep big eps2 (vwInit L) = some S') : (S'.map (·.1)).head? = L.head? := by
  have hf : FirstNaN (vwInit L) := ⟨L[0], by rw [vwInit_getElem?, List.getElem?_eq_getElem (by omega)]; rfl⟩
  have hh : Hit big (vwInit L) := by
    obtain ⟨j, v, hj0, hv, hb⟩ := h
    refine ⟨j, v, ?_, hb⟩
    rw [List.getElem?_map, vwInit_getElem?]
    cases hL : L[j]? with
    | none =>
      unfold aireVisval at hv
      rw [hL] at hv
      split at hv <;> simp_all
    | some p =>
      have hj0' : ¬ j = 0 := by omega
      simp only [Option.map_some, hj0', ↓reduceIte, hv]
  have := (vwStep_hit big eps2 (vwInit L) S' hf (vwInit_lastNaN L h1) hh hs).2.2.1
  rw [vwInit_map_fst] at this
  exact this

/-! #### the `Track` object (`Model/SimplifyTrack.lean`): feature rows, feature dict, `uid`/`tid`/`base`, `simplify` -/

/-- T8: the positions of the `Track` returned by `douglas_peucker(track, eps)` are exactly those of the list-level model
`douglasPeucker` (and the call recurses for ever exactly when the list-level model does): T1–T5, T7 are statements about
the `Track` that `simplify(track, eps, MODE_SIMPLIFY_DOUGLAS_PEUCKER)` returns. Any scalar type. -/
theorem dp_track_points (sqrt : α → α) (eps : α) (T : Trk α) :
    (dpTrk sqrt eps T).map (fun O => fixes O.pts) = douglasPeucker sqrt eps (fixes T.pts) := by
  unfold dpTrk douglasPeucker
  rw [dpTrkFuel_fixes, List.length_map]

/-- T8: Douglas–Peucker returns the input's **observations** — position, timestamp tag *and feature row* — as a
sub-sequence in the original order, first and last observation included (closed loops, duplicates included). The `Track`
object around them is new: its feature dict is **empty** (the rows keep their values, the names are not transmitted) and
its `uid`, `tid`, `base` are the input's or — when the left-most piece of the recursion has at most two fixes — the
constructor's defaults `0, 0, None`; a track of at most two fixes comes back as `Track(L)` with the defaults. -/
theorem dp_track_obs (sqrt : α → α) (eps : α) (T O : Trk α) (h : dpTrk sqrt eps T = some O) :
    O.pts.Sublist T.pts ∧ O.pts.head? = T.pts.head? ∧ O.pts.getLast? = T.pts.getLast? ∧ O.dico = [] ∧
    (O.info = T.info ∨ O.info = Info.default) ∧
    (T.pts.length ≤ 2 → O = ⟨T.pts, Info.default, []⟩) := by
  obtain ⟨a, b, c, d, e⟩ := dpTrkFuel_obs sqrt eps T.pts.length T O h
  refine ⟨a, b, c, d, e, fun hl => ?_⟩
  unfold dpTrk at h
  rw [dpTrkFuel_short sqrt eps _ T hl] at h
  exact (Option.some.inj h).symm

/-- T9: Visvalingam on a `Track` whose feature table is well formed and has no `'@aire'` column (`FreshTable`), **any**
tolerance, any areas: the call succeeds; the positions returned are those of the list-level model `visvalingam` (so T6
is about the `Track` returned); the **observations** returned — position, tag and feature row — are a sub-sequence of the
input's; the feature dict and `uid`, `tid`, `base` of the result are the input's. The temporary `'@aire'` column is
created as the last column, read by ARGMIN, updated, and removed without a trace (no entry left in any row, no index
of the dict shifted). The input track is not written at all: the function works on `track.copy()` (a deep copy); the
model is a function of the input. -/
theorem vw_track (big eps : α) (T : Trk α) (hf : FreshTable T) (hne : T.pts ≠ []) :
    ∃ O, vwTrk big eps T = .ok O ∧ fixes O.pts = visvalingam big eps (fixes T.pts) ∧ O.pts.Sublist T.pts ∧
      O.dico = T.dico ∧ O.info = T.info :=
  vwTrk_spec big eps T hf hne

/-- T9 (ends): with T6's hypothesis the first and the last **observation** (feature rows included) are kept. -/
theorem vw_track_ends (big eps : α) (T O : Trk α) (hf : FreshTable T) (h2 : 2 ≤ T.pts.length)
    (hbig : ∀ a b c, a ∈ fixes T.pts → b ∈ fixes T.pts → c ∈ fixes T.pts → areaFix a b c < big)
    (h : vwTrk big eps T = .ok O) :
    O.pts.head? = T.pts.head? ∧ O.pts.getLast? = T.pts.getLast? :=
  vwTrk_ends big eps T O hf h2 hbig h

/-- composition with C04: `output.removeObs(id)` — `removeObsList([id])`, modelled for C04 by `TV.Seq.removeObs`, which the
`Track`-level loop calls — is the `eraseIdx` of the list-level loop, for every index ARGMIN can return. (The `+` of
Douglas–Peucker is C04's `Track.__add__`: `trkAdd` uses C04's `TV.Seq.sameNames` rule for the feature dict as it is.) -/
theorem vw_removeObs_is_C04 {β : Type} (S : List β) (id : Nat) :
    (TV.Seq.removeObs S (id : Int)).1 = S.eraseIdx id :=
  removeObs_eq_eraseIdx S id

/-- the dispatcher: `simplify(track, tol, 1)` (also the default mode) is `douglas_peucker(track, tol)`, mode `2` is
`visvalingam(track, tol)`; modes 3 … 8 call other functions (squaring moves positions; 4 … 8 are
`optimalSimplification`, the dynamic programme of C12) — the statement of C16 is about modes 1 and 2 only; any other
mode raises (`NameError`: `NotYetImplementedError` is not imported by simplification.py). -/
theorem simplify_dispatch (sqrt : α → α) (big tol : α) (T : Trk α) :
    simplify sqrt big T tol 1 = (match dpTrk sqrt tol T with | some O => .ok O | none => .error "RecursionError") ∧
    simplify sqrt big T tol 2 = vwTrk big tol T ∧
    (∀ m : Int, m < 1 ∨ 8 < m → simplify sqrt big T tol m = .error "NameError") := by
  refine ⟨rfl, rfl, fun m hm => ?_⟩
  have : dispatch m = .nameError := by
    unfold dispatch
    have h1 : (m == 1) = false := by simp; omega
    have h2 : (m == 2) = false := by simp; omega
    have h3 : (m == 3) = false := by simp; omega
    have h4 : (m == 4) = false := by simp; omega
    have h5 : (m == 5) = false := by simp; omega
    have h6 : (m == 6) = false := by simp; omega
    have h7 : (m == 7) = false := by simp; omega
    have h8 : (m == 8) = false := by simp; omega
    simp [h1, h2, h3, h4, h5, h6, h7, h8]
  unfold simplify
  rw [this]

/-- T12 (Visvalingam with **no hypothesis on the areas** — infinite, NaN, mixed columns, every pass; closes the part of round 1's
open statement that can hold): on every track, for every tolerance and every scalar type (the driver's IEEE `Float` model
included), the result is a sub-sequence of the input observations in their original order, the **last** observation is
kept, a track of two or more observations keeps at least two, and the `while` loop stops by itself within `len(track)`
passes. (The entry of the last observation is NaN from the start and is never rewritten, so ARGMIN cannot designate it
while more than two observations remain.) What can fail outside T6's hypothesis is only the **first** observation: T6'. -/
theorem vw_any (big eps : α) (L : List (Fix α)) :
    (visvalingam big eps L).Sublist L ∧
    (visvalingam big eps L).getLast? = L.getLast? ∧
    (2 ≤ L.length → 2 ≤ (visvalingam big eps L).length) ∧
    vwStep big (eps * eps) (vwLoop big (eps * eps) L.length (vwInit L)) = none := by
  cases hL : L with
  | nil => simp [visvalingam, vwInit, vwLoop, vwStep]
  | cons a l =>
    rw [← hL]
    have h1 : 1 ≤ L.length := by rw [hL]; simp
    have hi := vwInit_lastNaN L h1
    have hlen : (vwInit L).length = L.length := by
      have := congrArg List.length (vwInit_map_fst L)
      rwa [List.length_map] at this
    obtain ⟨_, r2, r3, r4⟩ := vwLoop_any big (eps * eps) L.length (vwInit L) hi
    rw [vwInit_map_fst] at r2 r3
    refine ⟨r2, r3, fun h2 => ?_, vwLoop_stops_any big (eps * eps) L.length (vwInit L) hi (by omega)⟩
    unfold visvalingam
    rw [List.length_map]
    exact r4 (by omega)

/-- T12 on the `Track` object (well-formed feature table without `'@aire'`, non-empty track, **any** areas, any tolerance): the
call succeeds, the observations returned (feature rows included) are a sub-sequence of the input's, the last observation is
kept, and a track of two or more observations keeps at least two. -/
theorem vw_track_any (big eps : α) (T : Trk α) (hf : FreshTable T) (hne : T.pts ≠ []) :
    ∃ O, vwTrk big eps T = .ok O ∧ O.pts.Sublist T.pts ∧ O.pts.getLast? = T.pts.getLast? ∧
      (2 ≤ T.pts.length → 2 ≤ O.pts.length) := by
  obtain ⟨O, h, hfx, hs, _, _⟩ := vwTrk_spec big eps T hf hne
  refine ⟨O, h, hs, vwTrk_last_any big eps T O hf hne h, fun h2 => ?_⟩
  have := (vw_any big eps (fixes T.pts)).2.2.1 (by simpa [fixes] using h2)
  rw [← hfx] at this
  simpa [fixes] using this

/-! #### attributes of the `Track` that the readers set (`no_data_value`), and `Network.simplify` -/

/-- `simplify()` never reads `track.no_data_value`: on a track that carries the attribute (a track read with
`TrackReader.readFromFile`, whose blank / `NA` lines are fixes placed at that value) the observations returned are exactly
those returned for the same track without the attribute — the placeholder fixes are observations like the others, none is
left out before simplifying —; the result's own attribute is `None` after Douglas–Peucker (a new `Track`) and the input's
after Visvalingam (the copy). Any scalar type. -/
theorem simplify_nodata (sqrt : α → α) (big tol : α) (T : TrkN α) (mode : Int) :
    (∀ O, simplifyN sqrt big T tol mode = .ok O → simplify sqrt big T.trk tol mode = .ok O.trk) ∧
    (∀ O, simplify sqrt big T.trk tol mode = .ok O → ∃ O', simplifyN sqrt big T tol mode = .ok O' ∧ O'.trk = O) ∧
    (∀ e, simplifyN sqrt big T tol mode = .error e ↔ simplify sqrt big T.trk tol mode = .error e) ∧
    (∀ O, simplifyN sqrt big T tol 1 = .ok O → O.nodata = none) ∧
    (∀ O, simplifyN sqrt big T tol 2 = .ok O → O.nodata = T.nodata) := by
  refine ⟨fun O h => ?_, fun O h => ?_, fun e => ?_, fun O h => ?_, fun O h => ?_⟩
  · unfold simplifyN at h
    cases hs : simplify sqrt big T.trk tol mode with
    | error e => rw [hs] at h; cases h
    | ok O1 => rw [hs] at h; cases h; rfl
  · unfold simplifyN; rw [h]; exact ⟨_, rfl, rfl⟩
  · unfold simplifyN
    cases hs : simplify sqrt big T.trk tol mode with
    | error e1 => simp
    | ok O1 => simp
  · unfold simplifyN at h
    cases hs : simplify sqrt big T.trk tol 1 with
    | error e => rw [hs] at h; cases h
    | ok O1 =>
      rw [hs] at h; cases h
      have : dispatch 1 ≠ Algo.visvalingam := by decide
      simp [this]
  · unfold simplifyN at h
    cases hs : simplify sqrt big T.trk tol 2 with
    | error e => rw [hs] at h; cases h
    | ok O1 =>
      rw [hs] at h; cases h
      have : dispatch 2 = Algo.visvalingam := by decide
      simp [this]

/-- `Network.simplify(tolerance, mode)` is `simplify` on every edge geometry, in the edges' order: when it succeeds the
i-th geometry of the result is what `simplify` returns for the i-th geometry. Any scalar type. -/
theorem net_simplify_each (sqrt : α → α) (big tol : α) (mode : Int) (G O : List (TrkN α))
    (h : netSimplify sqrt big G tol mode = .ok O) :
    List.Forall₂ (fun g o => simplifyN sqrt big g tol mode = .ok o) G O :=
  mapM_ok_each _ G O h

/-! #### T15: `TrackCollection.simplify(tolerance, mode=1)` (`collSimplify`; the entry point repaired by 039f340) -/

/-- T15 (what the entry point is): `collection.simplify(tolerance, mode)` returns, in the collection's order, what
`simplify(track, tolerance, mode)` returns for (a deep copy of) every track — as many tracks as the collection has; when it fails,
it fails with the exception of one of these calls; an empty collection comes back empty whatever the mode; and the default of
`mode` is `1`, Douglas–Peucker. The model is a function: the caller's collection and tracks are not written. Any scalar type. -/
theorem coll_simplify_each (sqrt : α → α) (big tol : α) (mode : Int) (C : List (TrkN α)) :
    (∀ O, collSimplify sqrt big C tol mode = .ok O →
      List.Forall₂ (fun t o => simplifyN sqrt big t tol mode = .ok o) C O ∧ O.length = C.length) ∧
    (∀ e, collSimplify sqrt big C tol mode = .error e → ∃ t ∈ C, simplifyN sqrt big t tol mode = .error e) ∧
    collSimplify sqrt big ([] : List (TrkN α)) tol mode = .ok [] ∧
    collSimplify sqrt big C tol = collSimplify sqrt big C tol 1 := by
  refine ⟨fun O h => ?_, fun e h => mapM_error_mem _ C e h, rfl, rfl⟩
  have := mapM_ok_each _ C O h
  exact ⟨this, this.length_eq.symm⟩

/-- T15 (modes the dispatcher refuses): on a non-empty collection a mode outside 1 … 8 raises (`NameError`, from the first track). -/
theorem coll_simplify_invalid_mode (sqrt : α → α) (big tol : α) (m : Int) (hm : m < 1 ∨ 8 < m) (t : TrkN α) (C : List (TrkN α)) :
    collSimplify sqrt big (t :: C) tol m = .error "NameError" := by
  have h1 : simplifyN sqrt big t tol m = .error "NameError" := by
    unfold simplifyN
    rw [(simplify_dispatch sqrt big tol t.trk).2.2 m hm]
  unfold collSimplify
  rw [List.mapM_cons, h1]; rfl

/-- T15, the statement of C16 for **Visvalingam on every track of a collection** (`collection.simplify(tolerance, 2)`; any scalar type,
any tolerance, any areas): if every track is non-empty and has a well-formed feature table without `'@aire'`, the call succeeds and,
track by track, the observations returned (feature rows included) are a sub-sequence of the track's, the **last** observation is
kept, a track of two or more observations keeps at least two, feature dict, `uid`/`tid`/`base` and `no_data_value` are the track's;
and for every track of ≥ 2 fixes whose triangle areas are below ARGMIN's start value (T6's hypothesis: finite areas) the **first**
observation is kept too. -/
theorem coll_simplify_vw (big eps : α) (sqrt : α → α) (C : List (TrkN α))
    (hC : ∀ t ∈ C, FreshTable t.trk ∧ t.trk.pts ≠ []) :
    ∃ O, collSimplify sqrt big C eps 2 = .ok O ∧ O.length = C.length ∧
      List.Forall₂ (fun t o =>
        o.trk.pts.Sublist t.trk.pts ∧ o.trk.pts.getLast? = t.trk.pts.getLast? ∧
        (2 ≤ t.trk.pts.length → 2 ≤ o.trk.pts.length) ∧
        o.trk.dico = t.trk.dico ∧ o.trk.info = t.trk.info ∧ o.nodata = t.nodata ∧
        (2 ≤ t.trk.pts.length →
          (∀ a b c, a ∈ fixes t.trk.pts → b ∈ fixes t.trk.pts → c ∈ fixes t.trk.pts → areaFix a b c < big) →
          o.trk.pts.head? = t.trk.pts.head?)) C O := by
  obtain ⟨O, hO, hF⟩ := mapM_ok_of_forall (fun t => simplifyN sqrt big t eps 2)
    (fun t o => o.trk.pts.Sublist t.trk.pts ∧ o.trk.pts.getLast? = t.trk.pts.getLast? ∧
        (2 ≤ t.trk.pts.length → 2 ≤ o.trk.pts.length) ∧
        o.trk.dico = t.trk.dico ∧ o.trk.info = t.trk.info ∧ o.nodata = t.nodata ∧
        (2 ≤ t.trk.pts.length →
          (∀ a b c, a ∈ fixes t.trk.pts → b ∈ fixes t.trk.pts → c ∈ fixes t.trk.pts → areaFix a b c < big) →
          o.trk.pts.head? = t.trk.pts.head?)) C (by
    intro t ht
    obtain ⟨hf, hne⟩ := hC t ht
    obtain ⟨T', h, hs, hl, h2⟩ := vw_track_any big eps t.trk hf hne
    obtain ⟨T'', h', _, _, hd, hi⟩ := vw_track big eps t.trk hf hne
    rw [h] at h'; cases h'
    have hs2 : simplify sqrt big t.trk eps 2 = .ok T' := by rw [(simplify_dispatch sqrt big eps t.trk).2.1, h]
    obtain ⟨o, e1, e2⟩ := (simplify_nodata sqrt big eps t 2).2.1 T' hs2
    refine ⟨o, e1, ?_⟩
    rw [e2]
    exact ⟨hs, hl, h2, hd, hi, (simplify_nodata sqrt big eps t 2).2.2.2.2 o e1,
      fun h2' hbig => (vw_track_ends big eps t.trk T' hf h2' hbig h).1⟩)
  refine ⟨O, hO, hF.length_eq.symm, ?_⟩
  exact hF.imp (fun _ _ h => h.2)

/-! #### T13: the freedom left by ties in Visvalingam (`Model/SimplifyTie.lean`) -/

/-- T13 (sub-sequence, **no hypothesis at all**): whichever of several equally small triangles is eliminated at each pass
(`VwAnyResult`: the results of all such runs; the statement of C16 leaves the choice free, the code takes the first), the result
is a sub-sequence of the input observations in their original order. Any scalar type, any areas, any tolerance. -/
theorem vw_any_tiebreak_sublist (big eps : α) (L out : List (Fix α)) (h : VwAnyResult big eps L out) : out.Sublist L := by
  obtain ⟨S', r, _, e⟩ := h
  have := r.sublist
  rw [vwInit_map_fst] at this
  rw [e]; exact this

/-- T13 (ends): under T6's hypothesis (areas below ARGMIN's initial minimum `+inf`: finite areas) **every** such run keeps the
first and the last observation, and at least two observations. Any scalar type, any tolerance; closed loops, repeated positions
(many equal areas: the case where the runs differ most) included. -/
theorem vw_any_tiebreak (big eps : α) (L out : List (Fix α)) (h2 : 2 ≤ L.length)
    (hbig : ∀ a b c, a ∈ L → b ∈ L → c ∈ L → areaFix a b c < big) (h : VwAnyResult big eps L out) :
    out.Sublist L ∧ out.head? = L.head? ∧ out.getLast? = L.getLast? ∧ 2 ≤ out.length := by
  refine ⟨vw_any_tiebreak_sublist big eps L out h, ?_⟩
  obtain ⟨S', r, _, e⟩ := h
  obtain ⟨r1, _, r3, r4⟩ := r.spec L hbig (vwInit_inv big L hbig h2) (vwInit_cons L)
  rw [vwInit_map_fst] at r3 r4
  subst e
  exact ⟨r3, r4, by rw [List.length_map]; exact r1.len⟩

/-- T13 without hypothesis (T12 for **every** run): whatever the areas (infinite, NaN, mixed) and whichever of the equally small
triangles goes first at each pass, the result is a sub-sequence of the input observations, the **last** observation is kept and a
track of two or more observations keeps at least two. (A run is a finite sequence of passes by construction: each removes one
observation.) Any scalar type. -/
theorem vw_any_tiebreak_any_areas (big eps : α) (L out : List (Fix α)) (h1 : 1 ≤ L.length) (h : VwAnyResult big eps L out) :
    out.Sublist L ∧ out.getLast? = L.getLast? ∧ (2 ≤ L.length → 2 ≤ out.length) := by
  refine ⟨vw_any_tiebreak_sublist big eps L out h, ?_⟩
  obtain ⟨S', r, _, e⟩ := h
  obtain ⟨_, r2, r3⟩ := r.any (vwInit_lastNaN L h1)
  have hlen : (vwInit L).length = L.length := by
    have := congrArg List.length (vwInit_map_fst L)
    rwa [List.length_map] at this
  rw [vwInit_map_fst] at r2
  subst e
  exact ⟨r2, fun h2 => by rw [List.length_map]; exact r3 (by omega)⟩

/-- T13 (the code's own run is one of them): what `visvalingam` returns — ARGMIN's first minimum at every pass — is a
`VwAnyResult`. No hypothesis; any scalar type. -/
theorem vw_own_run_is_tiebreak_run (big eps : α) (L : List (Fix α)) : VwAnyResult big eps L (visvalingam big eps L) := by
  refine ⟨vwLoop big (eps * eps) L.length (vwInit L), vwLoop_reach _ _ _ _, ?_, rfl⟩
  rw [vwNext_nil_iff]
  exact (vw_any big eps L).2.2.2

/-- T13 (the enumeration the correspondence check uses is sound): every result that `visvalingamAll` returns — the driver's
level-by-level enumeration, states holding the same observations merged, given up (`none`) beyond `cap` states per level — is a
`VwAnyResult`: the check accepts a different result of the implementation only if it is one of the runs T13 is about. -/
theorem vw_all_levels_sound (big eps : α) (cap : Nat) (L : List (Fix α)) (R : List (List (Fix α)))
    (h : visvalingamAll big eps cap L = some R) : ∀ out ∈ R, VwAnyResult big eps L out := by
  unfold visvalingamAll at h
  cases hR : vwAllLevels big (eps * eps) cap (L.length + 1) [vwInit L] [] with
  | none => rw [hR] at h; cases h
  | some R0 =>
    rw [hR] at h
    simp only [Option.map_some, Option.some.injEq] at h
    subst h
    intro out ho
    obtain ⟨S, hS, e⟩ := List.mem_map.mp ho
    obtain ⟨a, b⟩ := vwAllLevels_sound big (eps * eps) cap (vwInit L) (L.length + 1) [vwInit L] [] R0
      (fun S hS => by rw [List.mem_singleton.mp hS]; exact VReach.refl _) (fun S hS => by cases hS) hR S hS
    exact ⟨S, a, b, e.symm⟩

/-- T14 (mixed columns — some triangle areas finite, some infinite or NaN; the characterisation that round 1 left open, at the level
of the passes): on a track of pairwise different observations (tagged fixes are), for any areas, any tolerance, any scalar type,
**the first observation is kept if and only if every pass of the loop finds a minimum** — `AllHit`: at every pass some entry of the
`'@aire'` column is a number below ARGMIN's initial minimum `+inf` or — since b728412 — equal to it. (Then ARGMIN answers an index `>= 1` and the NaN entry of the
first observation is never rewritten; otherwise it answers its default `0`, `NaN > eps` is `False`, and the first observation goes.)
T6 is the case where all areas are below `big` or equal to it (every pass then finds a minimum: `vw_sublist_ends_no_nan`, `Props/C16b.lean`), T6' the case
where none is (`vw_all_nan`, same file, for the whole run). -/
theorem vw_first_kept_iff (big eps : α) (L : List (Fix α)) (h1 : 1 ≤ L.length) (hn : L.Nodup) :
    (visvalingam big eps L).head? = L.head? ↔ AllHit big (eps * eps) L.length (vwInit L) := by
  have hf : FirstNaN (vwInit L) := ⟨L[0], by rw [vwInit_getElem?, List.getElem?_eq_getElem (by omega)]; rfl⟩
  have hl := vwInit_lastNaN L h1
  have hn' : ((vwInit L).map (·.1)).Nodup := by rw [vwInit_map_fst]; exact hn
  constructor
  · intro h
    by_contra hna
    have := vwLoop_first_lost big (eps * eps) L.length (vwInit L) hf hl hn' hna
    rw [vwInit_map_fst] at this
    exact this h
  · intro h
    have := vwLoop_first_kept big (eps * eps) L.length (vwInit L) hf hl h
    rw [vwInit_map_fst] at this
    exact this

/-- a one-fix track is returned unchanged by both algorithms -/
theorem single_fix (sqrt : α → α) (big eps : α) (p : Fix α) :
    douglasPeucker sqrt eps [p] = some [p] ∧ visvalingam big eps [p] = [p] := by
  constructor
  · rfl
  · simp [visvalingam, vwInit, vwLoop, vwStep, List.zipIdx]

end anyScalar

section totalOrderAnyArithmetic
/-! Theorems that use **only the order**: the scalar type is linearly ordered, its arithmetic (`+ − × ÷`, `sqrt`, `==`) is
arbitrary — rounded, saturating, anything. They are statements about the *computed* distances and areas, hence about the
floating-point run as long as no NaN arises (IEEE `<` is a linear order on the other doubles, infinities included). -/
variable {α : Type} [Add α] [Sub α] [Mul α] [Div α] [Neg α] [BEq α] [OfNat α 0] [OfNat α 1] [OfNat α 2] [LinearOrder α]

/-- T5' (tolerance, robust form — the part of T5 that survives rounding): let `W p a b` be any acceptance predicate ("`p` is
near enough to the segment `[a, b]`") such that (`hbase`) a fix whose **computed** distance to a chord is `< eps` is accepted
for that chord, and (`hself`) a vertex is accepted for every segment it ends. Then every input fix is accepted for a segment
between two **consecutive vertices of the output** polyline. With exact arithmetic `W` = "true distance ≤ eps" gives T5 (see the
example below); on doubles `W` = "true distance ≤ eps·(1+1e-9) + 1e-13·M" is what the transfer check samples, and `hbase` is
then a pointwise rounding bound on `distance_to_segment` alone (sampled by the `dist` stream) — the recursion, the split and
the concatenation add no error. -/
theorem dp_tolerance_any_arithmetic (sqrt : α → α) (eps : α) (W : Fix α → Fix α → Fix α → Prop)
    (hbase : ∀ a b p, distFix sqrt a b p < eps → W p a b) (hself : ∀ p q, W p p q ∧ W p q p)
    (L out : List (Fix α)) (h : douglasPeucker sqrt eps L = some out) (h2 : 2 ≤ L.length) :
    ∀ p ∈ L, ∃ a b, [a, b] <:+: out ∧ W p a b :=
  dpFuel_tolerance_ord sqrt eps W hbase hself L.length L out h h2

/-- T5' for every run the correspondence check accepts (any choice among equally far fixes) -/
theorem dp_any_tiebreak_tolerance_any_arithmetic (sqrt : α → α) (eps : α) (W : Fix α → Fix α → Fix α → Prop)
    (hbase : ∀ a b p, distFix sqrt a b p < eps → W p a b) (hself : ∀ p q, W p p q ∧ W p q p)
    (L : List (Fix α)) (h2 : 2 ≤ L.length) :
    ∀ out ∈ dpAllFuel sqrt eps L.length L, ∀ p ∈ L, ∃ a b, [a, b] <:+: out ∧ W p a b :=
  fun out h => dpAllFuel_tolerance_ord sqrt eps W hbase hself L.length L out h h2

/-- T3' (termination under rounded arithmetic): the hypothesis of T3 — `distance_to_segment(A; A, B)` is never `> 0` — follows from six
zero laws of the arithmetic (`ZeroLaws`: `x − x = 0`, `0·x = 0`, `0 + 0 = 0`, `0/x = 0`, `x + 0 = x`, `sqrt 0 = 0`; IEEE doubles
satisfy them on finite values) and the order: in either branch of `l == 0` the computed distance is `0`. Hence Douglas–Peucker
returns on every track for every `eps > 0`. -/
theorem dp_total_zero_laws (sqrt : α → α) (hz : ZeroLaws sqrt) (eps : α) (heps : (0 : α) < eps) (L : List (Fix α)) :
    ∃ out, douglasPeucker sqrt eps L = some out :=
  dp_total_of_self_distance sqrt eps heps (fun a b => by rw [distFix_self_ord sqrt hz a b]; exact lt_irrefl _) L

/-- the statement of C16 for Douglas–Peucker under **any arithmetic on a total order**: if a chord's first end is never at a
strictly positive computed distance from it (`hd0`; checked bit-exactly on the implementation by the `dist` stream) the call
returns; the result is a sub-sequence with both ends; every input fix is accepted (T5'). -/
theorem dp_correct_any_arithmetic (sqrt : α → α) (eps : α) (heps : (0 : α) < eps)
    (hd0 : ∀ a b : Fix α, ¬ (distFix sqrt a b a > 0)) (W : Fix α → Fix α → Fix α → Prop)
    (hbase : ∀ a b p, distFix sqrt a b p < eps → W p a b) (hself : ∀ p q, W p p q ∧ W p q p)
    (L : List (Fix α)) (h2 : 2 ≤ L.length) :
    ∃ out, douglasPeucker sqrt eps L = some out ∧ out.Sublist L ∧ out.head? = L.head? ∧ out.getLast? = L.getLast? ∧
      ∀ p ∈ L, ∃ a b, [a, b] <:+: out ∧ W p a b := by
  obtain ⟨out, h⟩ := dp_total_of_self_distance sqrt eps heps hd0 L
  exact ⟨out, h, dp_sublist sqrt eps L out h, (dp_ends sqrt eps L out h).1, (dp_ends sqrt eps L out h).2.1,
    dp_tolerance_any_arithmetic sqrt eps W hbase hself L out h h2⟩

/-- T10 (threshold semantics of Visvalingam; **any arithmetic**: nothing is assumed about `+ − × ÷` — they may round as IEEE
doubles do —, only that `<` is a linear order, as it is on doubles away from NaN; the areas below are the *computed* ones): under
T6's hypothesis, **every interior fix of the result spans with its two neighbours *in the result* a triangle of area
`> eps²`** (`eps = eps * eps`: the tolerance is a length, compared squared with areas). ARGMIN designates a smallest entry of the
`'@aire'` column, the column holds, for every interior fix, the area of the triangle with its *current* neighbours
(consistency is an invariant of the loop: the two guarded updates after each removal are exactly the two entries that
the removal invalidates), and the loop only stops when two fixes remain or that smallest area exceeds `eps²`. -/
theorem vw_threshold (big eps : α) (L : List (Fix α)) (h2 : 2 ≤ L.length)
    (hbig : ∀ a b c, a ∈ L → b ∈ L → c ∈ L → areaFix a b c < big) (i : Nat) (p0 p1 p2 : Fix α) (h0 : 0 < i)
    (e0 : (visvalingam big eps L)[i - 1]? = some p0) (e1 : (visvalingam big eps L)[i]? = some p1)
    (e2 : (visvalingam big eps L)[i + 1]? = some p2) :
    eps * eps < areaFix p0 p1 p2 := by
  have hi := vwInit_inv big L hbig h2
  have hlen : (vwInit L).length ≤ L.length + 2 := by
    have := congrArg List.length (vwInit_map_fst L)
    rw [List.length_map] at this
    omega
  exact vwStop_above big (eps * eps) L _ (vwLoop_spec big (eps * eps) L hbig L.length (vwInit L) hi).1
    (vwLoop_cons big (eps * eps) L hbig L.length (vwInit L) hi (vwInit_cons L))
    (vwLoop_stops big (eps * eps) L hbig L.length (vwInit L) hi hlen) i p0 p1 p2 h0 e0 e1 e2

/-- T10 for **every** run (T13): whichever of several equally small triangles is eliminated at each pass, every interior fix of the
result spans with its two neighbours in the result a triangle of (computed) area `> eps²`. Any arithmetic on a linear order; T6's
hypothesis. So all the results the correspondence check accepts honour the tolerance in Visvalingam's sense. -/
theorem vw_any_tiebreak_threshold (big eps : α) (L out : List (Fix α)) (h2 : 2 ≤ L.length)
    (hbig : ∀ a b c, a ∈ L → b ∈ L → c ∈ L → areaFix a b c < big) (h : VwAnyResult big eps L out)
    (i : Nat) (p0 p1 p2 : Fix α) (h0 : 0 < i)
    (e0 : out[i - 1]? = some p0) (e1 : out[i]? = some p1) (e2 : out[i + 1]? = some p2) :
    eps * eps < areaFix p0 p1 p2 := by
  obtain ⟨S', r, hn, e⟩ := h
  obtain ⟨r1, r2, _, _⟩ := r.spec L hbig (vwInit_inv big L hbig h2) (vwInit_cons L)
  subst e
  exact vwStop_above big (eps * eps) L S' r1 r2 ((vwNext_nil_iff _ _ _).mp hn) i p0 p1 p2 h0 e0 e1 e2

end totalOrderAnyArithmetic

section orderedField
variable {α : Type} [Field α] [LinearOrder α] [IsStrictOrderedRing α]

/-- T4: `distance_to_segment` (normalised scalar product, projection, clamp of the projected point to the
segment's bounding box, `l == 0` branch) is the distance to the **closed segment**: `d ≥ 0`,
`d² = |P − (A + t(B−A))|²` for some `t ∈ [0,1]`, and `d² ≤ |P − (A + t(B−A))|²` for all `t ∈ [0,1]`. -/
theorem dist_seg_spec (sqrt : α → α) (hs : SqrtOK sqrt) (x0 y0 x1 y1 x2 y2 : α) :
    0 ≤ distanceToSegment sqrt x0 y0 x1 y1 x2 y2 ∧
    (∃ t, 0 ≤ t ∧ t ≤ 1 ∧ distanceToSegment sqrt x0 y0 x1 y1 x2 y2 * distanceToSegment sqrt x0 y0 x1 y1 x2 y2 =
        q2 x0 y0 x1 y1 x2 y2 t) ∧
    (∀ t, 0 ≤ t → t ≤ 1 → distanceToSegment sqrt x0 y0 x1 y1 x2 y2 * distanceToSegment sqrt x0 y0 x1 y1 x2 y2 ≤
        q2 x0 y0 x1 y1 x2 y2 t) :=
  TV.Simplify.dist_seg_spec sqrt hs x0 y0 x1 y1 x2 y2

/-- T4 (executable form): `distance_to_segment² = distSegSq`, the square-root-free closed form that the driver
evaluates exactly on rationals to cross-check the harness' oracle. -/
theorem dist_sq_eq (sqrt : α → α) (hs : SqrtOK sqrt) (x0 y0 x1 y1 x2 y2 : α) :
    distanceToSegment sqrt x0 y0 x1 y1 x2 y2 * distanceToSegment sqrt x0 y0 x1 y1 x2 y2 =
      distSegSq x0 y0 x1 y1 x2 y2 :=
  TV.Simplify.dist_sq_eq sqrt hs x0 y0 x1 y1 x2 y2

/-- T3: Douglas–Peucker is defined (terminates) for every track — empty, one fix, closed loops, repeated
positions — and every tolerance `eps > 0`. -/
theorem dp_total (sqrt : α → α) (hs : SqrtOK sqrt) (eps : α) (heps : 0 < eps) (L : List (Fix α)) :
    ∃ out, douglasPeucker sqrt eps L = some out :=
  dp_total_of_self_distance sqrt eps heps (fun a b => by rw [distFix_self sqrt hs a b]; exact lt_irrefl 0) L

/-- T5: every input fix lies within the tolerance of the simplified polyline: for each `p` of the input there
are two **consecutive** vertices `a, b` of the output and `t ∈ [0,1]` with `|p − (a + t(b−a))|² ≤ eps²`.
This is about the *output* polyline, not only about the chord the fix was tested against; the code's split
keeps `L[imax−1]` and `L[imax]` as adjacent vertices, which only adds a segment. -/
theorem dp_tolerance (sqrt : α → α) (hs : SqrtOK sqrt) (eps : α) (L out : List (Fix α))
    (h : douglasPeucker sqrt eps L = some out) (h2 : 2 ≤ L.length) :
    ∀ p ∈ L, ∃ a b, [a, b] <:+: out ∧ ∃ t, 0 ≤ t ∧ t ≤ 1 ∧ q2 p.x p.y a.x a.y b.x b.y t ≤ eps * eps :=
  dpFuel_tolerance sqrt hs eps L.length L out h h2

/-- T7 (continued): the tolerance also holds whichever farthest fix is taken, and the code's own result
(first farthest fix) is one of the enumerated runs. -/
theorem dp_any_tiebreak_tolerance (sqrt : α → α) (hs : SqrtOK sqrt) (eps : α) (heps : 0 < eps) (L : List (Fix α))
    (h2 : 2 ≤ L.length) :
    (∀ out ∈ dpAllFuel sqrt eps L.length L, ∀ p ∈ L,
      ∃ a b, [a, b] <:+: out ∧ ∃ t, 0 ≤ t ∧ t ≤ 1 ∧ q2 p.x p.y a.x a.y b.x b.y t ≤ eps * eps) ∧
    (∀ out, douglasPeucker sqrt eps L = some out → out ∈ dpAllFuel sqrt eps L.length L) :=
  ⟨fun out h => dpAllFuel_tolerance sqrt hs eps L.length L out h h2,
   fun out h => dpFuel_mem_all sqrt eps heps
     (fun a b => by rw [distFix_self sqrt hs a b]; exact lt_irrefl 0) L.length L out h⟩

/-- the statement of C16 for Douglas–Peucker in one piece -/
theorem dp_correct (sqrt : α → α) (hs : SqrtOK sqrt) (eps : α) (heps : 0 < eps) (L : List (Fix α))
    (h2 : 2 ≤ L.length) :
    ∃ out, douglasPeucker sqrt eps L = some out ∧ out.Sublist L ∧
      out.head? = L.head? ∧ out.getLast? = L.getLast? ∧
      ∀ p ∈ L, ∃ a b, [a, b] <:+: out ∧ ∃ t, 0 ≤ t ∧ t ≤ 1 ∧ q2 p.x p.y a.x a.y b.x b.y t ≤ eps * eps := by
  obtain ⟨out, h⟩ := dp_total sqrt hs eps heps L
  exact ⟨out, h, dp_sublist sqrt eps L out h, (dp_ends sqrt eps L out h).1, (dp_ends sqrt eps L out h).2.1,
    dp_tolerance sqrt hs eps L out h h2⟩

/-- the statement of C16 for Douglas–Peucker **on the `Track`**: for every track of ≥ 2 fixes (any features, any
`uid/tid/base`) and every `eps > 0` the call returns a `Track` whose observations — feature rows included — are a
sub-sequence of the input's with both ends, and every input fix is within `eps` of a segment between two consecutive
vertices of the returned polyline. -/
theorem dp_track_correct (sqrt : α → α) (hs : SqrtOK sqrt) (eps : α) (heps : 0 < eps) (T : Trk α)
    (h2 : 2 ≤ T.pts.length) :
    ∃ O, dpTrk sqrt eps T = some O ∧ O.pts.Sublist T.pts ∧ O.pts.head? = T.pts.head? ∧
      O.pts.getLast? = T.pts.getLast? ∧
      ∀ p ∈ T.pts, ∃ a b, [a, b] <:+: fixes O.pts ∧
        ∃ t, 0 ≤ t ∧ t ≤ 1 ∧ q2 p.fix.x p.fix.y a.x a.y b.x b.y t ≤ eps * eps := by
  obtain ⟨out, h⟩ := dp_total sqrt hs eps heps (fixes T.pts)
  have hp := dp_track_points sqrt eps T
  rw [h] at hp
  cases hO : dpTrk sqrt eps T with
  | none => rw [hO] at hp; cases hp
  | some O =>
    rw [hO] at hp
    simp only [Option.map_some, Option.some.injEq] at hp
    obtain ⟨a, b, c, _⟩ := dp_track_obs sqrt eps T O hO
    refine ⟨O, rfl, a, b, c, fun p hpm => ?_⟩
    rw [hp]
    exact dp_tolerance sqrt hs eps (fixes T.pts) out h (by simpa [fixes] using h2) p.fix (List.mem_map.mpr ⟨p, hpm, rfl⟩)

/-- the statement of C16 for Douglas–Peucker **through `simplify()` on a track made by a reader** (any `no_data_value`, any
number of placeholder fixes anywhere — first and last included): a result exists, the observations returned are a sub-sequence
of **all** the input's observations with both ends, and **every** input observation, placeholder or not, is within `eps` of
the returned polyline. -/
theorem simplify_nodata_dp_correct (sqrt : α → α) (hs : SqrtOK sqrt) (big eps : α) (heps : 0 < eps) (T : TrkN α)
    (h2 : 2 ≤ T.trk.pts.length) :
    ∃ O, simplifyN sqrt big T eps 1 = .ok O ∧ O.nodata = none ∧ O.trk.pts.Sublist T.trk.pts ∧
      O.trk.pts.head? = T.trk.pts.head? ∧ O.trk.pts.getLast? = T.trk.pts.getLast? ∧
      ∀ p ∈ T.trk.pts, ∃ a b, [a, b] <:+: fixes O.trk.pts ∧
        ∃ t, 0 ≤ t ∧ t ≤ 1 ∧ q2 p.fix.x p.fix.y a.x a.y b.x b.y t ≤ eps * eps := by
  obtain ⟨O, h, a, b, c, d⟩ := dp_track_correct sqrt hs eps heps T.trk h2
  have hs1 : simplify sqrt big T.trk eps 1 = .ok O := by
    rw [(simplify_dispatch sqrt big eps T.trk).1, h]
  obtain ⟨O', e1, e2⟩ := (simplify_nodata sqrt big eps T 1).2.1 O hs1
  refine ⟨O', e1, (simplify_nodata sqrt big eps T 1).2.2.2.1 O' e1, ?_⟩
  rw [e2]
  exact ⟨a, b, c, d⟩

/-- T15, the statement of C16 for **Douglas–Peucker on every track of a collection** — `collection.simplify(tolerance)`, the default
mode, or `collection.simplify(tolerance, 1)` — over an ordered field with an exact sqrt: for **every** collection (empty, tracks of 0, 1, 2
fixes, reader-made tracks with placeholder fixes, closed loops, repeated positions) and every `eps > 0` the call returns as many tracks
as the collection has and, track by track in the collection's order: the observations returned (feature rows included) are a
sub-sequence of the track's, the first and the last observation are kept, `no_data_value` of the new `Track` is `None`, and for a
track of ≥ 2 fixes every input fix is within `eps` of a segment between two consecutive vertices of the returned polyline. -/
theorem coll_simplify_dp_correct (sqrt : α → α) (hs : SqrtOK sqrt) (big eps : α) (heps : 0 < eps) (C : List (TrkN α)) :
    ∃ O, collSimplify sqrt big C eps = .ok O ∧ O.length = C.length ∧
      List.Forall₂ (fun t o =>
        o.nodata = none ∧ o.trk.pts.Sublist t.trk.pts ∧ o.trk.pts.head? = t.trk.pts.head? ∧
        o.trk.pts.getLast? = t.trk.pts.getLast? ∧
        (2 ≤ t.trk.pts.length → ∀ p ∈ t.trk.pts, ∃ a b, [a, b] <:+: fixes o.trk.pts ∧
          ∃ u, 0 ≤ u ∧ u ≤ 1 ∧ q2 p.fix.x p.fix.y a.x a.y b.x b.y u ≤ eps * eps)) C O := by
  obtain ⟨O, hO, hF⟩ := mapM_ok_of_forall (fun t => simplifyN sqrt big t eps 1)
    (fun t o => o.nodata = none ∧ o.trk.pts.Sublist t.trk.pts ∧ o.trk.pts.head? = t.trk.pts.head? ∧
        o.trk.pts.getLast? = t.trk.pts.getLast? ∧
        (2 ≤ t.trk.pts.length → ∀ p ∈ t.trk.pts, ∃ a b, [a, b] <:+: fixes o.trk.pts ∧
          ∃ u, 0 ≤ u ∧ u ≤ 1 ∧ q2 p.fix.x p.fix.y a.x a.y b.x b.y u ≤ eps * eps)) C (by
    intro t _
    obtain ⟨out, h⟩ := dp_total sqrt hs eps heps (fixes t.trk.pts)
    have hp := dp_track_points sqrt eps t.trk
    rw [h] at hp
    cases hT : dpTrk sqrt eps t.trk with
    | none => rw [hT] at hp; cases hp
    | some T' =>
      rw [hT] at hp
      simp only [Option.map_some, Option.some.injEq] at hp
      obtain ⟨a, b, c, _⟩ := dp_track_obs sqrt eps t.trk T' hT
      have hs1 : simplify sqrt big t.trk eps 1 = .ok T' := by rw [(simplify_dispatch sqrt big eps t.trk).1, hT]
      obtain ⟨o, e1, e2⟩ := (simplify_nodata sqrt big eps t 1).2.1 T' hs1
      refine ⟨o, e1, (simplify_nodata sqrt big eps t 1).2.2.2.1 o e1, ?_⟩
      rw [e2]
      refine ⟨a, b, c, fun h2 p hpm => ?_⟩
      rw [hp]
      exact dp_tolerance sqrt hs eps (fixes t.trk.pts) out h (by simpa [fixes] using h2) p.fix (List.mem_map.mpr ⟨p, hpm, rfl⟩))
  refine ⟨O, hO, hF.length_eq.symm, ?_⟩
  exact hF.imp (fun _ _ h => h.2)

end orderedField

/-! ### the hypotheses are satisfiable -/

/-- T5 is the instance of T5' with `W` = "within `eps` of the closed segment" (exact arithmetic: ordered field, correct sqrt) -/
example {α : Type} [Field α] [LinearOrder α] [IsStrictOrderedRing α] (sqrt : α → α) (hs : SqrtOK sqrt) (eps : α)
    (L out : List (Fix α)) (h : douglasPeucker sqrt eps L = some out) (h2 : 2 ≤ L.length) :
    ∀ p ∈ L, ∃ a b, [a, b] <:+: out ∧ ∃ t, 0 ≤ t ∧ t ≤ 1 ∧ q2 p.x p.y a.x a.y b.x b.y t ≤ eps * eps :=
  dp_tolerance_any_arithmetic sqrt eps (fun p a b => ∃ t, 0 ≤ t ∧ t ≤ 1 ∧ q2 p.x p.y a.x a.y b.x b.y t ≤ eps * eps)
    (fun a b p hlt => by
      obtain ⟨h0, ⟨t, ht0, ht1, hq⟩, _⟩ := dist_seg_spec sqrt hs p.x p.y a.x a.y b.x b.y
      exact ⟨t, ht0, ht1, by rw [← hq]; exact mul_self_le_mul_self h0 (le_of_lt hlt)⟩)
    (fun p q => ⟨⟨0, le_refl _, zero_le_one, by
        have : q2 p.x p.y p.x p.y q.x q.y 0 = 0 := by unfold q2; ring
        rw [this]; exact mul_self_nonneg eps⟩,
      ⟨1, zero_le_one, le_refl _, by
        have : q2 p.x p.y q.x q.y p.x p.y 1 = 0 := by unfold q2; ring
        rw [this]; exact mul_self_nonneg eps⟩⟩)
    L out h h2

/-- an arithmetic that is *not* exact — integers with truncating division and an integer square root — is a legitimate scalar
type for T5', T10 and T12: Douglas–Peucker run on it (the computed distance of `(2,3)` to the chord is `sqrt 9 = 3`) -/
def isqrt (x : Int) : Int := Int.ofNat (Nat.sqrt x.toNat)

example : ZeroLaws isqrt :=
  ⟨Int.sub_self, Int.zero_mul, rfl, Int.zero_ediv, Int.add_zero, by decide⟩

example : douglasPeucker isqrt 4 [(⟨0, 0, 0⟩ : Fix Int), ⟨1, 2, 3⟩, ⟨2, 4, 0⟩] = some [⟨0, 0, 0⟩, ⟨2, 4, 0⟩] := by decide +kernel

/-- the real square root satisfies the contract -/
example : SqrtOK Real.sqrt := fun x hx => ⟨Real.sqrt_nonneg x, Real.mul_self_sqrt hx⟩

/-- hence over ℝ with `Real.sqrt` the whole statement holds for every track and every positive tolerance -/
example (eps : ℝ) (heps : 0 < eps) (L : List (Fix ℝ)) (h2 : 2 ≤ L.length) :
    ∃ out, douglasPeucker Real.sqrt eps L = some out ∧ out.Sublist L ∧
      out.head? = L.head? ∧ out.getLast? = L.getLast? ∧
      ∀ p ∈ L, ∃ a b, [a, b] <:+: out ∧ ∃ t, 0 ≤ t ∧ t ≤ 1 ∧ q2 p.x p.y a.x a.y b.x b.y t ≤ eps * eps :=
  dp_correct Real.sqrt (fun x hx => ⟨Real.sqrt_nonneg x, Real.mul_self_sqrt hx⟩) eps heps L h2

/-- a closed loop over ℚ with rational chord lengths (`sqrt` only has to be right on the values it meets in
this run: the 3-4-5 triangle). Regression witness for ec611a5: first = last, the chord has length 0. -/
def sqrtTab (x : Rat) : Rat := if x = 25 then 5 else if x = 16 then 4 else if x = 9 then 3 else if x = 0 then 0 else x

example : douglasPeucker sqrtTab 1 [⟨0, 0, 0⟩, ⟨1, 4, 0⟩, ⟨2, 4, 3⟩, ⟨3, 0, 0⟩]
    = some [⟨0, 0, 0⟩, ⟨1, 4, 0⟩, ⟨2, 4, 3⟩, ⟨3, 0, 0⟩] := by decide +kernel

/-- the odd split at work: `imax = 2`, both `L[1]` and `L[2]` survive although `L[1]` is on the chord -/
example : douglasPeucker sqrtTab 1 [⟨0, 0, 0⟩, ⟨1, 2, 0⟩, ⟨2, 4, 3⟩, ⟨3, 4, 0⟩]
    = some [⟨0, 0, 0⟩, ⟨1, 2, 0⟩, ⟨2, 4, 3⟩, ⟨3, 4, 0⟩] := by decide +kernel

/-- Visvalingam on the witness of 1a5eeec (`(0,0),(1,1),(2,0),(0,0)`, tolerance 1): the first fix stays -/
example : visvalingam (10 ^ 300 : Rat) 1 [⟨0, 0, 0⟩, ⟨1, 1, 1⟩, ⟨2, 2, 0⟩, ⟨3, 0, 0⟩] = [⟨0, 0, 0⟩, ⟨3, 0, 0⟩] := by
  decide +kernel

example : ∀ a ∈ [(⟨0, 0, 0⟩ : Fix Rat), ⟨1, 1, 1⟩, ⟨2, 2, 0⟩, ⟨3, 0, 0⟩], ∀ b ∈ [(⟨0, 0, 0⟩ : Fix Rat), ⟨1, 1, 1⟩, ⟨2, 2, 0⟩, ⟨3, 0, 0⟩],
    ∀ c ∈ [(⟨0, 0, 0⟩ : Fix Rat), ⟨1, 1, 1⟩, ⟨2, 2, 0⟩, ⟨3, 0, 0⟩], areaFix a b c < (10 ^ 300 : Rat) := by
  decide +kernel

/-- the hypothesis `hbig` of T6 cannot be dropped: with an area above ARGMIN's sentinel (here `big = 1`,
area 8) ARGMIN answers its default index 0 and the first fix is removed — on the real code, where the sentinel is `+inf`, this
needs an area that is NaN (coordinates of about 1e154 and more; class `vw-area-reaches-argmin-sentinel` of the harness). -/
example : visvalingam (1 : Rat) 1 [⟨0, 0, 0⟩, ⟨1, 2, 4⟩, ⟨2, 4, 0⟩] = [⟨1, 2, 4⟩, ⟨2, 4, 0⟩] := by decide +kernel

/-- T10 at work over ℚ: tolerance 1 (threshold 1 on areas) drops the fix whose triangle has area 1 (`1 > 1` is false) and
keeps the two others, whose triangles with their neighbours *in the result* have areas 2 and 4 -/
example : visvalingam (10 ^ 300 : Rat) 1 [⟨0, 0, 0⟩, ⟨1, 1, 1⟩, ⟨2, 2, 0⟩, ⟨3, 4, 2⟩, ⟨4, 6, 0⟩] =
    [⟨0, 0, 0⟩, ⟨2, 2, 0⟩, ⟨3, 4, 2⟩, ⟨4, 6, 0⟩] := by decide +kernel

/-- T11 at work over ℚ: tolerance 1000 on a five-fix track (every area is far below 10⁶): the two ends -/
example : visvalingam (10 ^ 300 : Rat) 1000 [⟨0, 0, 0⟩, ⟨1, 1, 1⟩, ⟨2, 2, 0⟩, ⟨3, 4, 2⟩, ⟨4, 6, 0⟩] =
    [⟨0, 0, 0⟩, ⟨4, 6, 0⟩] := by decide +kernel

/-- T6' at work (`big = 1`; the only interior fix has area 8): its hypothesis holds, the first pass removes the first fix -/
example : ∀ j ∈ [1, 2, 3], ∀ v, aireVisval [(⟨0, 0, 0⟩ : Fix Rat), ⟨1, 2, 4⟩, ⟨2, 4, 0⟩] j = some v →
    ¬ v < (1 : Rat) ∧ ¬ (v == (1 : Rat)) = true := by
  decide +kernel

/-- T6'' at work (`big = 8`, the only interior fix has area 8 = the start value, "infinite"): since b728412 it is found, `8 > 1` breaks
the loop at once and all three observations come back; before b728412 ARGMIN answered 0 and the first fix went -/
example : visvalingam (8 : Rat) 1 [⟨0, 0, 0⟩, ⟨1, 2, 4⟩, ⟨2, 4, 0⟩] = [⟨0, 0, 0⟩, ⟨1, 2, 4⟩, ⟨2, 4, 0⟩] := by decide +kernel

/-- … and with a tolerance whose square is not below the area (`8 > 9` is false) the fix found goes, the two ends stay -/
example : visvalingam (8 : Rat) 3 [⟨0, 0, 0⟩, ⟨1, 2, 4⟩, ⟨2, 4, 0⟩] = [⟨0, 0, 0⟩, ⟨2, 4, 0⟩] := by decide +kernel

/-! ### the `Track` object: the hypotheses of T8/T9 are satisfiable, and what happens outside them -/

/-- a track with two features (`tag` in column 0, `w` in column 1), `uid = 7`, `tid = 9`, `base = 5` -/
def demoTrk : Trk Rat :=
  ⟨[⟨⟨0, 0, 0⟩, [some 0, some 5]⟩, ⟨⟨1, 1, 1⟩, [some 1, some 5]⟩, ⟨⟨2, 2, 0⟩, [some 2, none]⟩, ⟨⟨3, 0, 0⟩, [some 3, some 5]⟩],
   ⟨7, 9, some 5⟩, [("tag", 0), ("w", 1)]⟩

example : FreshTable demoTrk := ⟨by decide +kernel, by decide +kernel, by decide +kernel⟩

/-- Visvalingam on it (tolerance 1): the two ends with their own rows, the dict and `uid/tid/base` of the input -/
example : vwTrk (10 ^ 300 : Rat) 1 demoTrk =
    .ok ⟨[⟨⟨0, 0, 0⟩, [some 0, some 5]⟩, ⟨⟨3, 0, 0⟩, [some 3, some 5]⟩], ⟨7, 9, some 5⟩, [("tag", 0), ("w", 1)]⟩ := by
  decide +kernel

/-- outside `FreshTable`: a track that already has a feature called `'@aire'` (here in column 0, before `w`). The column is
overwritten with triangle areas and then **deleted** from the result — the user's feature is lost and `w` moves to column
0 (class `vw-user-feature-named-aire` of the harness). -/
example : vwTrk (10 ^ 300 : Rat) (1 / 2)
      ⟨[⟨⟨0, 0, 0⟩, [some 8, some 5]⟩, ⟨⟨1, 1, 1⟩, [some 8, some 6]⟩, ⟨⟨2, 2, 0⟩, [some 8, some 7]⟩], ⟨0, 0, none⟩,
        [("@aire", 0), ("w", 1)]⟩ =
    .ok ⟨[⟨⟨0, 0, 0⟩, [some 5]⟩, ⟨⟨1, 1, 1⟩, [some 6]⟩, ⟨⟨2, 2, 0⟩, [some 7]⟩], ⟨0, 0, none⟩, [("w", 0)]⟩ := by
  decide +kernel

/-- outside `FreshTable` (2): observations that carry more feature values than the dict names — `Track(other.getObsList())`, in
particular **every Douglas–Peucker result of a track with features** (T8: the rows travel, the dict is empty). `createAnalyticalFeature`
gives `'@aire'` the column `len(dico) = 0` but appends its slot at the end of the rows, so the areas overwrite the first value and
`removeAnalyticalFeature` deletes it: every observation comes back without its first value and with a trailing `0.0`
(class `vw-feature-values-without-dict-entry` of the harness; the input's own observations are untouched, deep copy). -/
example : vwTrk (10 ^ 300 : Rat) (1 / 2)
      ⟨[⟨⟨0, 0, 0⟩, [some 10, some 5]⟩, ⟨⟨1, 1, 1⟩, [some 11, some 5]⟩, ⟨⟨2, 2, 0⟩, [some 12, some 5]⟩], ⟨0, 0, none⟩, []⟩ =
    .ok ⟨[⟨⟨0, 0, 0⟩, [some 5, some 0]⟩, ⟨⟨1, 1, 1⟩, [some 5, some 0]⟩, ⟨⟨2, 2, 0⟩, [some 5, some 0]⟩], ⟨0, 0, none⟩, []⟩ := by
  decide +kernel

/-- Douglas–Peucker on a track `(0,0), (2,3), (4,0)` with two features (`sqrtTab` is right on the values met: 0, 9, 16).
Tolerance 4 (> 3, the distance of the middle fix to the chord): the two ends — the rows travel, the dict is empty,
`uid/tid/base` are the input's … -/
def demoTrk2 : Trk Rat :=
  ⟨[⟨⟨0, 0, 0⟩, [some 0, some 5]⟩, ⟨⟨1, 2, 3⟩, [some 1, none]⟩, ⟨⟨2, 4, 0⟩, [some 2, some 5]⟩], ⟨7, 9, some 5⟩, [("tag", 0), ("w", 1)]⟩

example : dpTrk sqrtTab 4 demoTrk2 =
    some ⟨[⟨⟨0, 0, 0⟩, [some 0, some 5]⟩, ⟨⟨2, 4, 0⟩, [some 2, some 5]⟩], ⟨7, 9, some 5⟩, []⟩ := by
  decide +kernel

/-- … tolerance 3 (`dmax < eps` is false): split at `imax = 1`, the left piece `L[0:1]` has one fix and comes back as
`Track(L)`, whose defaults `uid = 0, tid = 0, base = None` the sum inherits -/
example : dpTrk sqrtTab 3 demoTrk2 =
    some ⟨[⟨⟨0, 0, 0⟩, [some 0, some 5]⟩, ⟨⟨1, 2, 3⟩, [some 1, none]⟩, ⟨⟨2, 4, 0⟩, [some 2, some 5]⟩], ⟨0, 0, none⟩, []⟩ := by
  decide +kernel

/-- … and a track of two fixes comes back with the defaults too -/
example : dpTrk sqrtTab 3 ⟨[⟨⟨0, 0, 0⟩, [some 0]⟩, ⟨⟨1, 4, 3⟩, [some 1]⟩], ⟨7, 9, some 5⟩, [("tag", 0)]⟩ =
    some ⟨[⟨⟨0, 0, 0⟩, [some 0]⟩, ⟨⟨1, 4, 3⟩, [some 1]⟩], ⟨0, 0, none⟩, []⟩ := by
  decide +kernel

/-! ### a track made by a reader: `no_data_value` and placeholder fixes -/

/-- `sqrt` on the values met below: the chord `(-4,-4) … (0,-1)` has length 5, the middle fix `(-4,-1)` is at distance 12/5 -/
def sqrtTab2 (x : Rat) : Rat := if x = 25 then 5 else if x = 144 / 25 then 12 / 5 else if x = 0 then 0 else x

/-- a three-fix track whose first fix is a reader's placeholder at `no_data_value = -4` (`tid = 7`) -/
def demoTrkN : TrkN Rat :=
  ⟨⟨[⟨⟨0, -4, -4⟩, []⟩, ⟨⟨1, -4, -1⟩, []⟩, ⟨⟨2, 0, -1⟩, []⟩], ⟨0, 7, none⟩, []⟩, some (-4)⟩

/-- `simplify(track, 3, MODE_SIMPLIFY_DOUGLAS_PEUCKER)`: the placeholder is the first observation and stays; the result is a new
`Track`, its `no_data_value` is `None` … -/
example : simplifyN sqrtTab2 (10 ^ 300) demoTrkN 3 1 =
    .ok ⟨⟨[⟨⟨0, -4, -4⟩, []⟩, ⟨⟨2, 0, -1⟩, []⟩], ⟨0, 7, none⟩, []⟩, none⟩ := by decide +kernel

/-- … with tolerance 2 (< 12/5) the middle fix is kept as well … -/
example : (simplifyN sqrtTab2 (10 ^ 300) demoTrkN 2 1).map (fun O => O.trk.pts.length) = .ok 3 := by decide +kernel

/-- … and Visvalingam (area of the middle fix 6 ≤ 3²) returns the copy's attribute -/
example : simplifyN sqrtTab2 (10 ^ 300) demoTrkN 3 2 =
    .ok ⟨⟨[⟨⟨0, -4, -4⟩, []⟩, ⟨⟨2, 0, -1⟩, []⟩], ⟨0, 7, none⟩, []⟩, some (-4)⟩ := by decide +kernel

/-- `Network.simplify` on two edges -/
example : (netSimplify sqrtTab2 (10 ^ 300) [demoTrkN, demoTrkN] 3 2).map List.length = .ok 2 := by decide +kernel

/-- `TrackCollection.simplify` on two tracks, default mode (Douglas–Peucker, tolerance 3): two new tracks, the placeholder first fix
kept, `no_data_value` None … -/
example : collSimplify sqrtTab2 (10 ^ 300) [demoTrkN, demoTrkN] 3 =
    .ok [⟨⟨[⟨⟨0, -4, -4⟩, []⟩, ⟨⟨2, 0, -1⟩, []⟩], ⟨0, 7, none⟩, []⟩, none⟩,
         ⟨⟨[⟨⟨0, -4, -4⟩, []⟩, ⟨⟨2, 0, -1⟩, []⟩], ⟨0, 7, none⟩, []⟩, none⟩] := by decide +kernel

/-- … Visvalingam keeps the copies' attribute; a one-fix track and a two-fix track in the collection come back as they are
(the hypotheses of `coll_simplify_vw` hold for them) … -/
example : collSimplify sqrtTab2 (10 ^ 300) [demoTrkN, ⟨⟨[⟨⟨0, 1, 1⟩, []⟩], ⟨1, 2, none⟩, []⟩, none⟩,
      ⟨⟨[⟨⟨0, 1, 1⟩, []⟩, ⟨⟨1, 2, 1⟩, []⟩], ⟨3, 4, none⟩, []⟩, some 5⟩] 3 2 =
    .ok [⟨⟨[⟨⟨0, -4, -4⟩, []⟩, ⟨⟨2, 0, -1⟩, []⟩], ⟨0, 7, none⟩, []⟩, some (-4)⟩, ⟨⟨[⟨⟨0, 1, 1⟩, []⟩], ⟨1, 2, none⟩, []⟩, none⟩,
         ⟨⟨[⟨⟨0, 1, 1⟩, []⟩, ⟨⟨1, 2, 1⟩, []⟩], ⟨3, 4, none⟩, []⟩, some 5⟩] := by decide +kernel

example : ∀ t ∈ [demoTrkN, ⟨⟨[⟨⟨0, 1, 1⟩, []⟩], ⟨1, 2, none⟩, []⟩, none⟩], FreshTable t.trk ∧ t.trk.pts ≠ [] := by
  intro t ht
  simp only [List.mem_cons, List.not_mem_nil, or_false] at ht
  rcases ht with rfl | rfl <;> exact ⟨⟨by decide +kernel, by decide +kernel, by decide +kernel⟩, by decide +kernel⟩

/-- … an empty track stops Visvalingam (`AnalyticalFeatureError` from `addAnalyticalFeature`), and with it the whole call — the
hypothesis `t.trk.pts ≠ []` of `coll_simplify_vw` cannot be dropped —; Douglas–Peucker returns it … -/
example : collSimplify sqrtTab2 (10 ^ 300) [demoTrkN, ⟨⟨[], ⟨0, 0, none⟩, []⟩, none⟩] 3 2 = .error "AnalyticalFeatureError" := by
  decide +kernel

example : (collSimplify sqrtTab2 (10 ^ 300) [demoTrkN, ⟨⟨[], ⟨0, 0, none⟩, []⟩, none⟩] 3).map List.length = .ok 2 := by
  decide +kernel

/-- … an invalid mode raises on a non-empty collection and goes unnoticed on an empty one -/
example : collSimplify sqrtTab2 (10 ^ 300) [demoTrkN] 3 0 = .error "NameError" ∧
    collSimplify sqrtTab2 (10 ^ 300) ([] : List (TrkN Rat)) 3 0 = .ok [] := by decide +kernel

/-- T12 at work outside T6's hypothesis (`big = 1`, the only area is 8): the first observation is lost (T6'), the last one and two
observations are kept -/
example : (visvalingam (1 : Rat) 1 [⟨0, 0, 0⟩, ⟨1, 2, 4⟩, ⟨2, 4, 0⟩]).getLast? = some ⟨2, 4, 0⟩ := by decide +kernel

/-! ### T13: ties in Visvalingam -/

/-- a zig-zag: the three interior fixes span triangles of area 1 each (tolerance 1, threshold 1 on areas). The code eliminates
fix 1 (ARGMIN's first minimum), then fix 2 (area 1 with its new neighbours), and stops at fix 3, whose triangle now has area 2 … -/
def tieTrack : List (Fix Rat) := [⟨0, 0, 0⟩, ⟨1, 1, 1⟩, ⟨2, 2, 0⟩, ⟨3, 3, 1⟩, ⟨4, 4, 0⟩]

example : visvalingam (10 ^ 300 : Rat) 1 tieTrack = [⟨0, 0, 0⟩, ⟨3, 3, 1⟩, ⟨4, 4, 0⟩] := by decide +kernel

/-- … with another choice among the equal areas the run ends elsewhere: three different results, each a sub-sequence with both ends
whose interior fixes span an area > 1 (T13) -/
example : visvalingamAll (10 ^ 300 : Rat) 1 8 tieTrack =
    some [[⟨0, 0, 0⟩, ⟨3, 3, 1⟩, ⟨4, 4, 0⟩], [⟨0, 0, 0⟩, ⟨1, 1, 1⟩, ⟨4, 4, 0⟩], [⟨0, 0, 0⟩, ⟨4, 4, 0⟩]] := by decide +kernel

/-- a dwell: fixes 1 and 2 are at the same place, both triangles have area 0 (tolerance 1/2, threshold 1/4). Whichever goes first, the
other one then spans a triangle of area 1/2 with the ends and stays: two different results, both sub-sequences with both ends -/
def tieTrack2 : List (Fix Rat) := [⟨0, 0, 0⟩, ⟨1, 0, 1⟩, ⟨2, 0, 1⟩, ⟨3, 1, 0⟩]

example : visvalingamAll (10 ^ 300 : Rat) (1 / 2) 8 tieTrack2 =
    some [[⟨0, 0, 0⟩, ⟨2, 0, 1⟩, ⟨3, 1, 0⟩], [⟨0, 0, 0⟩, ⟨1, 0, 1⟩, ⟨3, 1, 0⟩]] := by decide +kernel

/-- the code's own run (ARGMIN: the first minimum) is the first of them -/
example : visvalingam (10 ^ 300 : Rat) (1 / 2) tieTrack2 = [⟨0, 0, 0⟩, ⟨2, 0, 1⟩, ⟨3, 1, 0⟩] := by decide +kernel

/-- `cap` at work: a level with more states than `cap` gives up -/
example : visvalingamAll (10 ^ 300 : Rat) (1 / 2) 1 tieTrack2 = none := by decide +kernel

/-! ### T14: a mixed column -/

/-- `big = 5`: fix 1 spans an area 8 (not below `big`: "infinite"), fixes 2 and 3 areas 3 and 1; tolerance² = 4. First pass: a minimum is
found (fix 3, area 1), fix 3 goes; second pass: fix 2 (recomputed: area 4 ≤ 4) goes, fix 1 is recomputed (area 12, not below `big`); third
pass: no minimum — ARGMIN answers 0 and the **first** observation is removed, although the column was mixed at the start -/
example : visvalingam (5 : Rat) 2 [⟨0, 0, 0⟩, ⟨1, 2, 4⟩, ⟨2, 4, 0⟩, ⟨3, 5, 1⟩, ⟨4, 6, 0⟩] = [⟨1, 2, 4⟩, ⟨4, 6, 0⟩] := by decide +kernel

/-- … and with tolerance² = 1/4 the smallest number of the column (1) exceeds it at the first pass: `break`, every pass (none was made) found
a minimum, the first observation is kept -/
example : visvalingam (5 : Rat) (1 / 2) [⟨0, 0, 0⟩, ⟨1, 2, 4⟩, ⟨2, 4, 0⟩, ⟨3, 5, 1⟩, ⟨4, 6, 0⟩] =
    [⟨0, 0, 0⟩, ⟨1, 2, 4⟩, ⟨2, 4, 0⟩, ⟨3, 5, 1⟩, ⟨4, 6, 0⟩] := by decide +kernel

end TV.C16
