import TracklibVerif.Lemmas.SplitSeg
import TracklibVerif.Lemmas.SplitUid
import TracklibVerif.Lemmas.SplitVal
import TracklibVerif.Lemmas.SplitTrack
import TracklibVerif.Lemmas.SplitIdx
import TracklibVerif.Lemmas.SplitNum
/-! # C11 — splitting on a marker partitions the track; markers reflect the thresholds

Property theorems only (helper lemmas are in `Lemmas/Split*.lean`). The models are in `Model/Split.lean`:
`split` mirrors `split(track, <feature name>)` of algo/segmentation.py on a list of
(observation, marker = 1?) pairs; `splitL` / `splitLimit` the same call with a `limit`; `splitIdx` / `extract` the
index-list form and `Track.extract`; `splitColl` `TrackCollection.split_segmentation`; `marker`/`markers` mirror the
loops of `segmentation()` on exact scalars with NaN = `none`, `segTrack` the whole call on a feature table.
`Model/SplitVal.lean`: the same loops with `isnan(v)` and `v <= threshold` as the Python operator calls they are
(`foldCmpG` … `segTrackG`), and the values a track hands over: numbers or `ObsTime` objects (`Val`; the built-in
feature `timestamp`), compared with the `ObsTime` operators of `Model/ObsTime.lean`.
`Model/SplitTrack.lean`: the front end of `split(track, <feature name>)` — the marker read from the feature table BY
NAME (`FTrack.get`: built-in names, then the dictionary, by the exact string; `== 1` on the cell), `splitTrack` /
`splitTrackU`, and `segmentation()` followed by `split()` on its output feature (`segSplitTrackG`).
`Model/SplitNum.lean`: numbers as Python holds them — Python int, Python float, `numpy.int64`, `numpy.float64` (`PNum`) —
and what `<=` does on each pairing: exact, except that numpy converts the integer operand of an integer/float pair to
the nearest double (`roundInt`). `segmentation()` itself converts nothing (no `float(threshold)`): `marker_and_num` /
`marker_or_num` state the property for integers of any size (beyond 2^53, beyond int64) against integer or float thresholds.
Index lists: `extract_any` / `split_indices_any` cover every list of integers (negative, descending, out of range).
All statements hold for every track length, every marker vector, every number of tested features; the
observations are abstract, so nothing depends on coordinates (NaN, infinite, repeated), timestamps or other features. -/
namespace TV.C11
open TV.Split
variable {β : Type}

/-- T1: as soon as one observation is marked, the pieces taken in order are the track: every
observation exactly once, in the original order. -/
theorem split_partition (obs : List (β × Bool)) (h : obs.any Prod.snd = true) :
    (split obs).flatten = obs.map Prod.fst :=
  Split.split_partition obs h

/-- T3: with no marked observation the returned collection is empty (as documented). -/
theorem split_none (obs : List (β × Bool)) (h : obs.any Prod.snd = false) : split obs = [] :=
  Split.split_none obs h

/-- T2 (a): every piece except the last one ends at a marked observation and contains no other
marked observation. (`mk o` = "the marker feature of observation `o` equals 1".) -/
theorem split_ends_marked (mk : β → Bool) (l : List β) :
    ∀ p ∈ (split (tag mk l)).dropLast, EndsMarked mk p := by
  cases h : l.any mk with
  | false =>
    rw [Split.split_none _ (by rw [any_tag]; exact h)]
    intro p hp; cases hp
  | true =>
    rw [split_shape _ (by rw [any_tag]; exact h), List.dropLast_concat]
    exact (go_marked mk l [] [] false (by intro p hp; cases hp) (by intro q hq; cases hq)).1

/-- T2 (b): the last piece (what follows the last marked observation) contains no marked observation. -/
theorem split_tail_unmarked (mk : β → Bool) (l : List β) (t : List β)
    (ht : (split (tag mk l)).getLast? = some t) : ∀ q ∈ t, mk q = false := by
  cases h : l.any mk with
  | false =>
    rw [Split.split_none _ (by rw [any_tag]; exact h)] at ht
    cases ht
  | true =>
    rw [split_shape _ (by rw [any_tag]; exact h), List.getLast?_concat] at ht
    cases ht
    exact (go_marked mk l [] [] false (by intro p hp; cases hp) (by intro q hq; cases hq)).2

/-- T2 (c): the trailing piece is the only piece that can be empty (it is empty exactly when
`extract(size, size-1)` is called, i.e. the last observation is marked). -/
theorem split_only_tail_empty (mk : β → Bool) (l : List β) :
    ∀ p ∈ (split (tag mk l)).dropLast, p ≠ [] := by
  intro p hp
  obtain ⟨init, o, rfl, _, _⟩ := split_ends_marked mk l p hp
  simp

/-- T2 (d): the trailing piece is empty exactly when the last observation of the track is marked -/
theorem split_tail_empty_iff (mk : β → Bool) (l : List β) (h : l.any mk = true) :
    (split (tag mk l)).getLast? = some [] ↔ ∃ o, l.getLast? = some o ∧ mk o = true := by
  rw [split_shape _ (by rw [any_tag]; exact h), List.getLast?_concat]
  have hl : l ≠ [] := by intro hl; subst hl; simp at h
  rw [Option.some.injEq, go_cur_nil]
  simp [hl]

/-- T2 for a track given as (observation, marker) pairs: `split` only looks at the markers, so the
pieces are the images of the pieces of the self-tagged track, which satisfy (a)–(c). -/
theorem split_pairs (obs : List (β × Bool)) :
    split obs = (split (tag Prod.snd obs)).map (List.map Prod.fst) := by
  have h := split_map (Prod.fst : β × Bool → β) (tag Prod.snd obs)
  have e : (tag Prod.snd obs).map (fun p => (p.1.1, p.2)) = obs := by
    simp [tag, Function.comp_def]
  rw [e] at h
  exact h

/-! ## `split` with a limit, index lists, collections -/

/-- T5: `split(track, name, limit)` returns, in order, the pieces of `split(track, name)` that pass the filter of
their position: the pieces that end at a marked observation unless `short` (`limit > 0 and length < limit`), then the
closing piece if `keepTail` (`limit == 0 or (limit > 0 and length >= limit)`). Nothing else is dropped, nothing is
added, no piece is altered. Holds with or without a marked observation (then both sides are empty). -/
theorem split_limit_filter (short keepTail : List β → Bool) (obs : List (β × Bool)) :
    splitL short keepTail obs =
      (split obs).dropLast.filter (fun p => !short p) ++ ((split obs).getLast?.toList).filter keepTail :=
  splitL_eq_filter short keepTail obs

/-- T5 (partition property of the kept pieces): the kept pieces are a sub-sequence of the pieces of the plain split
(same order, none twice), and their observations, taken in order, are a sub-sequence of the track: original order,
no observation twice. -/
theorem split_limit_sublist (short keepTail : List β → Bool) (obs : List (β × Bool)) :
    (splitL short keepTail obs).Sublist (split obs) ∧
    (splitL short keepTail obs).flatten.Sublist (obs.map Prod.fst) :=
  ⟨splitL_sublist short keepTail obs,
   (sublist_flatten (splitL_sublist short keepTail obs)).trans (split_flatten_sublist obs)⟩

/-- T5 (`limit = 0`, the property's case): whatever `Track.length` returns for the pieces — a NaN included, since
nothing is assumed about `length` — `split(track, name, 0)` is `split(track, name)`. The two facts about the scalar
type (`0 < 0` is false, `0 == 0` is true) hold for Python numbers. -/
theorem split_limit_zero {α : Type} [LT α] [LE α] [DecidableLT α] [DecidableLE α] [BEq α] [OfNat α 0]
    (h0 : ¬ (0 : α) < 0) (hz : ((0 : α) == 0) = true) (length : List β → α) (obs : List (β × Bool)) :
    splitLimit length 0 obs = split obs := by
  unfold splitLimit
  rw [splitL_eq_filter]
  have hs : (fun p : List β => !limitShort (0 : α) (length p)) = fun _ => true := by
    funext p; simp [limitShort, h0]
  have hk : (fun p : List β => limitKeepTail (0 : α) (length p)) = fun _ => true := by
    funext p; simp [limitKeepTail, hz]
  rw [hs, hk]
  simp only [List.filter_eq_self.mpr (fun _ _ => rfl)]
  exact dropLast_append_getLast? _

/-- T5 (`limit > 0`, lengths comparable with the limit — i.e. not NaN): the two filters are the same test, and the
result is exactly the pieces of the plain split whose length is at least `limit`. -/
theorem split_limit_pos {α : Type} [LT α] [LE α] [DecidableLT α] [DecidableLE α] [BEq α] [OfNat α 0]
    (limit : α) (hpos : (0 : α) < limit) (hne : (limit == 0) = false) (length : List β → α)
    (htot : ∀ p, ¬ length p < limit ↔ limit ≤ length p) (obs : List (β × Bool)) :
    splitLimit length limit obs = (split obs).filter (fun p => decide (limit ≤ length p)) := by
  unfold splitLimit
  rw [splitL_eq_filter]
  have hs : (fun p : List β => !limitShort limit (length p)) = fun p => decide (limit ≤ length p) := by
    funext p
    have := htot p
    by_cases hl : length p < limit <;> simp_all [limitShort]
  have hk : (fun p : List β => limitKeepTail limit (length p)) = fun p => decide (limit ≤ length p) := by
    funext p; simp [limitKeepTail, hne, hpos]
  rw [hs, hk, ← List.filter_append, dropLast_append_getLast?]

/-- T5 (uids): the loop written with the code's `i`, `begin`, `count` (`splitU`, which also yields the three numbers of
each piece's uid `<uid>.<count>.<begin>.<end>`) returns the pieces of `splitL`. -/
theorem split_uid_pieces (short keepTail : List β → Bool) (obs : List (β × Bool)) :
    (splitU short keepTail obs).map Prod.snd = splitL short keepTail obs :=
  splitU_pieces short keepTail obs

/-- T5 (uids): the numbers written into the uid of a returned piece are right: the piece is the run of observations
`begin..end` (both included) of the track — what `findStopsLocal` reads back as `id_ini` / `id_end` — and `count`
numbers the returned pieces 0, 1, 2, … without a gap, whatever was dropped by the limit. -/
theorem split_uid_numbers (short keepTail : List β → Bool) (obs : List (β × Bool)) :
    (∀ (count b e : Nat) (p : List β), ((count, b, e), p) ∈ splitU short keepTail obs →
      p = ((obs.map Prod.fst).take (e + 1)).drop b ∧ b ≤ e + 1 ∧ e + 1 ≤ obs.length) ∧
    (splitU short keepTail obs).map (fun x => x.1.1) = List.range (splitU short keepTail obs).length :=
  ⟨fun count b e p h => by
      have := (splitU_ids short keepTail obs).1 ((count, b, e), p) h
      simpa [IdOk] using this,
   (splitU_ids short keepTail obs).2⟩

/-- T5/T6 (the loop and `Track.extract` agree): every returned piece is what `Track.extract(begin, end)` returns on the
track for the `begin` / `end` of its uid — `split` calls `track.extract(begin, i)`; the closing piece after a marked last
observation is `extract(size, size - 1)`, the empty track. -/
theorem split_uid_extract (short keepTail : List β → Bool) (obs : List (β × Bool)) :
    ∀ (count b e : Nat) (p : List β), ((count, b, e), p) ∈ splitU short keepTail obs →
      extract (obs.map Prod.fst) (b : Int) (e : Int) = some p :=
  fun count b e p h => ((splitU_ids short keepTail obs).1 ((count, b, e), p) h).extract

/-- T6: `Track.extract(a, b)` with `0 ≤ a ≤ b < size` is the run of observations `a..b`, both ends included. -/
theorem extract_inclusive (l : List β) (a b : Nat) (hab : a ≤ b) (hb : b < l.length) :
    extract l (a : Int) (b : Int) = some ((l.drop a).take (b + 1 - a)) ∧ ((l.drop a).take (b + 1 - a)).length = b + 1 - a := by
  refine ⟨extract_range l a b hab hb, ?_⟩
  simp only [List.length_take, List.length_drop]; omega

/-- T6: `Track.extract(a, b)` with `a > b` is the empty track, never an error (the closing `extract(size, size - 1)`
of `split` when the last observation is marked). -/
theorem extract_reversed_empty (l : List β) (a b : Int) (h : b < a) : extract l a b = some [] :=
  extract_empty l a b h

/-- T6: `split(track, [i0 ≤ i1 ≤ … ], limit)` with indices inside the track returns, in order, the runs
`i_k .. i_{k+1}` (both ends included, so consecutive pieces share their boundary observation) that are not `short`;
with `limit = 0` there are `len(indices) - 1` of them. -/
theorem split_indices (short : List β → Bool) (l : List β) (src : List Nat)
    (hs : src.Pairwise (· ≤ ·)) (hb : ∀ a ∈ src, a < l.length) :
    splitIdx short l (src.map (fun (k : Nat) => (k : Int))) = some ((idxPieces l src).filter (fun p => !short p)) ∧
    (idxPieces l src).length = src.length - 1 :=
  ⟨splitIdx_sorted short l src hs hb, idxPieces_length l src⟩

/-- T6 (any integers): `Track.extract(a, b)` raises `IndexError` exactly when some index of `a..b` lies outside
`[-size, size)` (Python list indexing: a negative index counts from the end); otherwise it returns `b - a + 1`
observations (none when `a > b`), the `j`-th being `track[a + j]` — so a range that crosses 0 from the negative side
wraps around from the end of the track to its beginning. -/
theorem extract_any (l : List β) (a b : Int) :
    ((extract l a b).isSome = true ↔ ∀ k, a ≤ k → k ≤ b → -(l.length : Int) ≤ k ∧ k < (l.length : Int)) ∧
    ∀ p, extract l a b = some p →
      p.length = (b + 1 - a).toNat ∧ ∀ (j : Nat), j < p.length → (p[j]?).map some = some (pyIndex l (a + (j : Int))) :=
  ⟨extract_isSome l a b, extract_some l a b⟩

/-- T6 (any index list — unsorted, negative, out of range): `split(track, source, limit)` raises `IndexError` exactly
when one of the ranges `source[i] .. source[i+1]` reaches outside `[-size, size)`; otherwise it returns, in the order of
the list, the tracks `extract(source[i], source[i+1])` (characterised by `extract_any`; empty for a descending pair)
that are not `short`. -/
theorem split_indices_any (short : List β → Bool) (l : List β) (src : List Int) :
    ((splitIdx short l src).isSome = true ↔
      ∀ ab ∈ pairs src, ∀ k, ab.1 ≤ k → k ≤ ab.2 → -(l.length : Int) ≤ k ∧ k < (l.length : Int)) ∧
    ∀ r, splitIdx short l src = some r →
      ∃ ps, (pairs src).mapM (fun ab => extract l ab.1 ab.2) = some ps ∧ r = ps.filter (fun p => !short p) := by
  refine ⟨?_, splitIdx_some short l src⟩
  rw [splitIdx_isSome]
  constructor
  · intro h ab hab; exact (extract_isSome l ab.1 ab.2).mp (h ab hab)
  · intro h ab hab; exact (extract_isSome l ab.1 ab.2).mpr (h ab hab)

/-- T7: `TrackCollection.split_segmentation`: the pieces, taken in order, are the observations of the tracks that
have at least one marked observation, track after track, each exactly once and in the original order (a track
without any marked observation contributes no piece). -/
theorem split_collection (tracks : List (List (β × Bool))) :
    (splitColl tracks).flatten = ((tracks.filter (fun t => t.any Prod.snd)).map (List.map Prod.fst)).flatten :=
  splitColl_flatten tracks

/-! ## the marker of `segmentation()` -/
section marker
variable {α : Type} [LE α] [LT α] [DecidableLE α]

/-- T4 (AND mode), for any scalar type where `¬ a ≤ b ↔ b < a` (rationals, rationals with ±∞: the doubles without
NaN): with at least as many thresholds as tested features the call succeeds and the marker is 1 exactly when SOME
tested non-NaN value exceeds the threshold of its position. (The library's mode names are inverted with respect to
the quantifier: AND is the conjunction of `value <= threshold`, so its negation — the marker — is "some exceeds".) -/
theorem marker_and_ord (hnot : ∀ a b : α, ¬ a ≤ b ↔ b < a) (fmax : α) (ths : List α) (vals : List (Option α))
    (h : vals.length ≤ ths.length) :
    ∃ b, marker fmax true ths vals = some b ∧
      (b = true ↔ ∃ (i : Nat) (v th : α), vals[i]? = some (some v) ∧ ths[i]? = some th ∧ th < v) := by
  obtain ⟨r, hr, hiff⟩ := foldCmp_and fmax ths vals 0 true (by omega)
  refine ⟨!r, by simp [marker, hr], ?_⟩
  simp only [Nat.zero_add, true_and] at hiff
  constructor
  · intro hb
    have hrf : ¬ r = true := by intro hh; rw [hh] at hb; cases hb
    apply Classical.byContradiction
    intro hne
    apply hrf
    rw [hiff]
    intro i w hw v th hv hth
    subst hv
    apply Classical.byContradiction
    intro hnle
    exact hne ⟨i, v, th, hw, hth, (hnot v th).mp hnle⟩
  · rintro ⟨i, v, th, hw, hth, hlt⟩
    cases hrr : r with
    | false => rfl
    | true =>
      have := (hiff.mp hrr) i (some v) hw v th rfl hth
      exact absurd this ((hnot v th).mpr hlt)

/-- T4 (OR mode): the marker is 1 exactly when EVERY tested non-NaN value exceeds the threshold of
its position (vacuously 1 when all tested values are NaN). -/
theorem marker_or_ord (hnot : ∀ a b : α, ¬ a ≤ b ↔ b < a) (fmax : α) (ths : List α) (vals : List (Option α))
    (h : vals.length ≤ ths.length) :
    ∃ b, marker fmax false ths vals = some b ∧
      (b = true ↔ ∀ (i : Nat) (v th : α), vals[i]? = some (some v) → ths[i]? = some th → th < v) := by
  obtain ⟨r, hr, hiff⟩ := foldCmp_or hnot fmax ths vals 0 false (by omega)
  refine ⟨!r, by simp [marker, hr], ?_⟩
  simp only [Nat.zero_add, true_and] at hiff
  constructor
  · intro hb i v th hw hth
    have hrf : r = false := by cases r <;> simp_all
    exact (hiff.mp hrf) i (some v) hw v th rfl hth
  · intro hall
    have hrf : r = false := hiff.mpr (fun i w hw v th hv hth => by subst hv; exact hall i v th hw hth)
    simp [hrf]

omit [LT α] in
/-- T4 (whole track): `segmentation()` succeeds on every observation and produces one marker per
observation, each being the marker of that observation's row (`marker_and` / `marker_or`). -/
theorem markers_each_ord (fmax : α) (andMode : Bool) (ths : List α) (rows : List (List (Option α)))
    (h : ∀ r ∈ rows, r.length ≤ ths.length) :
    ∃ bs, markers fmax andMode ths rows = some bs ∧ rows.map (marker fmax andMode ths) = bs.map some := by
  induction rows with
  | nil => exact ⟨[], rfl, rfl⟩
  | cons r rs ih =>
    obtain ⟨bs, hbs, hall⟩ := ih (fun x hx => h x (List.mem_cons_of_mem _ hx))
    obtain ⟨b, hb⟩ := marker_isSome fmax andMode ths r (h r List.mem_cons_self)
    exact ⟨b :: bs, by simp [markers, hb, hbs], by simp [hb, hall]⟩
end marker

section thresholds
variable {α : Type} [LE α] [DecidableLE α]

/-- T4 (more thresholds than tested features): the extra thresholds are never read. -/
theorem marker_extra_thresholds (fmax : α) (andMode : Bool) (ths extra : List α) (vals : List (Option α))
    (h : vals.length ≤ ths.length) :
    marker fmax andMode (ths ++ extra) vals = marker fmax andMode ths vals := by
  simp only [marker, foldCmp_extra fmax andMode ths extra vals 0 andMode (by omega)]

/-- What the code does with FEWER thresholds than tested features (outside the property's domain): as soon as an
observation has a non-NaN value for the feature at position `len(thresholds_max)`, the call raises `IndexError`
(the guard `len(thresholds_max) >= index` lets `index == len` through; the `sys.float_info.max` default is only
reached for later positions, when that value is NaN). -/
theorem marker_index_error (fmax : α) (andMode : Bool) (ths : List α) (vals : List (Option α)) (v : α)
    (h : vals[ths.length]? = some (some v)) : marker fmax andMode ths vals = none := by
  simp only [marker, foldCmp_index_error fmax andMode ths vals 0 andMode v (Nat.zero_le _) (by simpa using h),
    Option.map_none]
end thresholds

/-- T4 (AND mode) on exact rationals (every finite double is one, and `<=` on finite doubles is exact) -/
theorem marker_and (fmax : Rat) (ths : List Rat) (vals : List (Option Rat)) (h : vals.length ≤ ths.length) :
    ∃ b, marker fmax true ths vals = some b ∧
      (b = true ↔ ∃ (i : Nat) (v th : Rat), vals[i]? = some (some v) ∧ ths[i]? = some th ∧ th < v) :=
  marker_and_ord (fun _ _ => Rat.not_le) fmax ths vals h

/-- T4 (OR mode) on exact rationals -/
theorem marker_or (fmax : Rat) (ths : List Rat) (vals : List (Option Rat)) (h : vals.length ≤ ths.length) :
    ∃ b, marker fmax false ths vals = some b ∧
      (b = true ↔ ∀ (i : Nat) (v th : Rat), vals[i]? = some (some v) → ths[i]? = some th → th < v) :=
  marker_or_ord (fun _ _ => Rat.not_le) fmax ths vals h

/-- T4 (whole track) on exact rationals -/
theorem markers_each (fmax : Rat) (andMode : Bool) (ths : List Rat) (rows : List (List (Option Rat)))
    (h : ∀ r ∈ rows, r.length ≤ ths.length) :
    ∃ bs, markers fmax andMode ths rows = some bs ∧ rows.map (marker fmax andMode ths) = bs.map some :=
  markers_each_ord fmax andMode ths rows h

/-- T4 with infinite values and thresholds (`Ext` = rationals and ±∞, the scalar type the driver runs): +∞ exceeds
every threshold but +∞, nothing exceeds +∞, −∞ exceeds nothing. -/
theorem marker_and_ext (ths : List Ext) (vals : List (Option Ext)) (h : vals.length ≤ ths.length) :
    ∃ b, marker Ext.fmax true ths vals = some b ∧
      (b = true ↔ ∃ (i : Nat) (v th : Ext), vals[i]? = some (some v) ∧ ths[i]? = some th ∧ th < v) :=
  marker_and_ord Ext.not_le Ext.fmax ths vals h

theorem marker_or_ext (ths : List Ext) (vals : List (Option Ext)) (h : vals.length ≤ ths.length) :
    ∃ b, marker Ext.fmax false ths vals = some b ∧
      (b = true ↔ ∀ (i : Nat) (v th : Ext), vals[i]? = some (some v) → ths[i]? = some th → th < v) :=
  marker_or_ord Ext.not_le Ext.fmax ths vals h

/-! ## `segmentation()` as a whole: argument forms, feature table, output feature -/
section track
variable {α : Type} [LE α] [DecidableLE α] [OfNat α 0] [OfNat α 1]

/-- the value written for a marker: the integers 1 / 0 -/
def markVal (b : Bool) : Option α := some (if b then 1 else 0)

/-- T8: a call in the property's domain — output name not reserved (and therefore not virtual), track not empty,
every tested feature known once the output feature exists, at least as many thresholds as tested features —
succeeds; the output feature then holds, for every observation, the marker of the row of tested values read at
that observation (`rows` lists them in the order of `afs_input`; each marker is characterised by `marker_and_ord` /
`marker_or_ord`); every other feature — virtual or analytical — reads as before; the table keeps its names and
their order (the output name is appended only if it was new); size unchanged. This covers an output feature
that already exists (whatever it holds) and an output feature that is one of the tested features. -/
theorem segmentation_track (fmax : α) (andMode : Bool) (t : FTrack α) (afs : Arg String) (out : String) (ths : Arg α)
    (hres : reserved.contains out = false) (hsize : t.size ≠ 0) (hvirt : t.virt.lookup out = none)
    (hknown : ∀ a ∈ afs.listify, ((t.create out).get a).isSome = true)
    (hlen : afs.listify.length ≤ ths.listify.length) :
    ∃ rows bs t', (t.create out).rows afs.listify = some rows ∧ rows.length = t.size ∧
      markers fmax andMode ths.listify rows = some bs ∧
      rows.map (marker fmax andMode ths.listify) = bs.map some ∧
      segTrack fmax andMode t afs out ths = .ok t' ∧
      t'.get out = some (bs.map markVal) ∧
      (∀ name, name ≠ out → t'.get name = t.get name) ∧
      t'.feats.map Prod.fst = (t.create out).feats.map Prod.fst ∧
      t'.size = t.size ∧ t'.virt = t.virt := by
  obtain ⟨cols, hcols⟩ := mapM_isSome _ _ hknown
  have hrows : (t.create out).rows afs.listify = some
      ((List.range (t.create out).size).map (fun i => cols.map (fun c => (c[i]?).getD none))) := by
    simp [FTrack.rows, hcols]
  obtain ⟨hrl, hrw⟩ := rows_length _ _ _ hrows
  obtain ⟨bs, hbs, hall⟩ := markers_each_ord fmax andMode ths.listify _ (fun r hr => by rw [hrw r hr]; exact hlen)
  refine ⟨_, bs, (t.create out).setCol out (bs.map markVal), hrows, by rw [hrl, create_size], hbs, hall, ?_, ?_, ?_, ?_, ?_, ?_⟩
  · simp only [segTrack, hres, Bool.false_eq_true, if_false, hsize, hrows, hbs]
    rfl
  · exact setCol_get_eq _ _ _ (create_has t out) (by rw [create_virt]; exact hvirt)
  · intro name hne
    rw [setCol_get_ne _ _ _ _ hne, create_get_ne _ _ _ hne]
  · rw [setCol_feats, names_setF]
  · exact create_size t out
  · exact create_virt t out

/-- T8 (no memory): when the output feature already exists and is not one of the tested features, what it held
before the call has no influence on the result — a second `segmentation()` into the same output name gives what a
first one would have given. -/
theorem segmentation_history (fmax : α) (andMode : Bool) (t : FTrack α) (afs : Arg String) (out : String) (ths : Arg α)
    (c : Col α) (hhas : t.has out = true) (hout : out ∉ afs.listify) :
    segTrack fmax andMode (t.setCol out c) afs out ths = segTrack fmax andMode t afs out ths := by
  have h1 : (t.setCol out c).create out = t.setCol out c := create_of_has _ _ (by rw [setCol_has]; exact hhas)
  have h2 : t.create out = t := create_of_has _ _ hhas
  have hr : (t.setCol out c).rows afs.listify = t.rows afs.listify :=
    rows_congr _ _ _ rfl (fun a ha => setCol_get_ne _ _ _ _ (fun e => hout (e ▸ ha)))
  simp only [segTrack, h1, h2, hr, setCol_setCol]
  rfl

/-- T8 (collections): `TrackCollection.segmentation` is `segmentation()` on every track in turn: when each call
succeeds, the collection holds the segmented tracks in the same order. -/
theorem segmentation_collection (fmax : α) (andMode : Bool) (ts : List (FTrack α)) (afs : Arg String) (out : String)
    (ths : Arg α) (f : FTrack α → FTrack α) (h : ∀ t ∈ ts, segTrack fmax andMode t afs out ths = .ok (f t)) :
    segColl fmax andMode ts afs out ths = .ok (ts.map f) := by
  unfold segColl
  induction ts with
  | nil => rfl
  | cons t rest ih =>
    rw [List.mapM_cons, h t List.mem_cons_self, ih (fun x hx => h x (List.mem_cons_of_mem _ hx))]
    rfl

omit [LE α] [DecidableLE α] [OfNat α 0] [OfNat α 1] in
/-- T8 (argument forms): a bare feature name / a bare threshold is the one-element list. -/
theorem listify_one {γ : Type} (a : γ) : (Arg.one a).listify = (Arg.many [a]).listify := rfl
end track

/-! ## tested values that are not all numbers: `isnan` and `<=` as operator calls, `ObsTime` values -/
section typed
variable {α : Type}

/-- T9 (AND mode, any kind of value): let `isnan` and `le?` be what Python's `v != v` and `v <= th` do on the values
at hand, and `gt` "v exceeds th". If, wherever a non-NaN tested value meets the threshold of its position, `<=` answers
and answers `not (v exceeds th)` (numbers; `ObsTime` against `ObsTime`; any class whose `__le__` is the negation of
its `__gt__`), then the call raises nothing and the marker is 1 exactly when SOME tested value that is not NaN
exceeds its threshold. A value is skipped only if `isnan` says so: a tested `ObsTime` counts. -/
theorem marker_and_typed (isnan : α → Bool) (le? : α → α → Except String Bool) (gt : α → α → Bool) (fmax : α)
    (ths : List α) (vals : List (Option α)) (h : vals.length ≤ ths.length) (hty : Typed isnan le? gt ths 0 vals) :
    ∃ b, markerG isnan le? fmax true ths vals = .ok b ∧
      (b = true ↔ ∃ (i : Nat) (v th : α), vals[i]? = some (some v) ∧ isnan v = false ∧ ths[i]? = some th ∧ gt v th = true) := by
  obtain ⟨r, hr, hiff⟩ := foldCmpG_and isnan le? gt fmax ths vals 0 true (by omega) hty
  refine ⟨!r, by simp [markerG, hr], ?_⟩
  simp only [Nat.zero_add, true_and] at hiff
  constructor
  · intro hb
    have hrf : ¬ r = true := by intro hh; rw [hh] at hb; cases hb
    apply Classical.byContradiction
    intro hne
    apply hrf
    rw [hiff]
    intro i w hw v th hv hn hth
    subst hv
    cases hg : gt v th with
    | false => rfl
    | true => exact absurd ⟨i, v, th, hw, hn, hth, hg⟩ hne
  · rintro ⟨i, v, th, hw, hn, hth, hg⟩
    cases hrr : r with
    | false => rfl
    | true =>
      have := (hiff.mp hrr) i (some v) hw v th rfl hn hth
      rw [hg] at this; cases this

/-- T9 (OR mode, any kind of value): the marker is 1 exactly when EVERY tested value that is not NaN exceeds its
threshold. -/
theorem marker_or_typed (isnan : α → Bool) (le? : α → α → Except String Bool) (gt : α → α → Bool) (fmax : α)
    (ths : List α) (vals : List (Option α)) (h : vals.length ≤ ths.length) (hty : Typed isnan le? gt ths 0 vals) :
    ∃ b, markerG isnan le? fmax false ths vals = .ok b ∧
      (b = true ↔ ∀ (i : Nat) (v th : α), vals[i]? = some (some v) → isnan v = false → ths[i]? = some th → gt v th = true) := by
  obtain ⟨r, hr, hiff⟩ := foldCmpG_or isnan le? gt fmax ths vals 0 false (by omega) hty
  refine ⟨!r, by simp [markerG, hr], ?_⟩
  simp only [Nat.zero_add, true_and] at hiff
  constructor
  · intro hb i v th hw hn hth
    have hrf : r = false := by cases r <;> simp_all
    exact (hiff.mp hrf) i (some v) hw v th rfl hn hth
  · intro hall
    have hrf : r = false := hiff.mpr (fun i w hw v th hv hn hth => by subst hv; exact hall i v th hw hn hth)
    simp [hrf]

/-- T9 (whole track): with typed rows `segmentation()` raises nothing and yields one marker per observation, each
the marker of its row. -/
theorem markers_each_typed (isnan : α → Bool) (le? : α → α → Except String Bool) (gt : α → α → Bool) (fmax : α)
    (andMode : Bool) (ths : List α) (rows : List (List (Option α)))
    (h : ∀ r ∈ rows, r.length ≤ ths.length ∧ Typed isnan le? gt ths 0 r) :
    ∃ bs, markersG isnan le? fmax andMode ths rows = .ok bs ∧
      rows.map (markerG isnan le? fmax andMode ths) = bs.map Except.ok := by
  induction rows with
  | nil => exact ⟨[], rfl, rfl⟩
  | cons r rs ih =>
    obtain ⟨bs, hbs, hall⟩ := ih (fun x hx => h x (List.mem_cons_of_mem _ hx))
    obtain ⟨hl, hty⟩ := h r List.mem_cons_self
    have hb : ∃ b, markerG isnan le? fmax andMode ths r = .ok b := by
      cases andMode with
      | true => obtain ⟨b, hb, _⟩ := marker_and_typed isnan le? gt fmax ths r hl hty; exact ⟨b, hb⟩
      | false => obtain ⟨b, hb, _⟩ := marker_or_typed isnan le? gt fmax ths r hl hty; exact ⟨b, hb⟩
    obtain ⟨b, hb⟩ := hb
    exact ⟨b :: bs, by simp [markersG, hb, hbs], by simp [hb, hall]⟩

/-- T9 (the numeric model is a special case): when nothing but NaN is NaN and `<=` always answers — numbers —
the operator-call loops are the loops `marker_and_ord` … `segmentation_track` are about. -/
theorem segmentation_total [LE α] [DecidableLE α] [OfNat α 0] [OfNat α 1] (fmax : α) (andMode : Bool) (t : FTrack α)
    (afs : Arg String) (out : String) (ths : Arg α) :
    segTrackG (fun _ => false) (fun a b => .ok (decide (a ≤ b))) fmax andMode t afs out ths
      = segTrack fmax andMode t afs out ths := by
  unfold segTrackG segTrack
  simp only [markersG_total]
  split
  · rfl
  · split
    · rfl
    · cases (t.create out).rows afs.listify with
      | none => rfl
      | some rows =>
        simp only
        cases markers fmax andMode ths.listify rows <;> rfl

/-- T9 (evaluation order, outside the domain): a value that cannot be compared with its threshold (a number against
an `ObsTime`) raises only if Python gets to compare it. The first tested value that is not NaN is always compared:
if `<=` raises there, the call raises. -/
theorem marker_first_raises (isnan : α → Bool) (le? : α → α → Except String Bool) (fmax : α) (andMode : Bool)
    (v th : α) (ths : List α) (vals : List (Option α)) (e : String) (hn : isnan v = false) (he : le? v th = .error e) :
    markerG isnan le? fmax andMode (th :: ths) (some v :: vals) = .error e := by
  cases andMode <;> simp [markerG, foldCmpG, hn, threshold, he]

/-- T9 (evaluation order): once a tested value has decided the marker — it exceeds its threshold in AND mode, it
does not in OR mode — the remaining values are not compared (`False and …`, `True or …`): no exception, whatever
they are. Stated for the first tested value. -/
theorem marker_decided_first (isnan : α → Bool) (le? : α → α → Except String Bool) (fmax : α) (andMode : Bool)
    (v th : α) (ths : List α) (vals : List (Option α)) (hn : isnan v = false) (hle : le? v th = .ok (!andMode))
    (hlen : vals.length ≤ ths.length) :
    markerG isnan le? fmax andMode (th :: ths) (some v :: vals) = .ok andMode := by
  have hd := foldCmpG_decided isnan le? fmax andMode (th :: ths) vals 1 (by simp; omega)
  cases andMode <;> simp_all [markerG, foldCmpG, threshold]
end typed

/-! ### numbers and `ObsTime` objects -/
open TV.ObsTime in
/-- T10 (`isnan`): no value but the float NaN is "NaN" for `segmentation()`: `utils.isnan(v)` is `v != v`, which is
False for every number and — `ObsTime.__ne__` being `not (time == self)` on the seven fields — for every `ObsTime`.
So the timestamps of the built-in feature `timestamp` are never skipped. -/
theorem val_never_nan (v : Val) : Val.isnan v = false := Val.isnan_false v

/-- T10 (AND mode on numbers and timestamps): every tested value being of the kind of its threshold (number against
number, `ObsTime` against `ObsTime`; the kinds may differ from one tested feature to the next), the call raises
nothing and the marker is 1 exactly when some tested non-NaN value exceeds its threshold (`Val.gt`: `>` on numbers,
`ObsTime.__gt__` on timestamps). -/
theorem marker_and_val (ths : List Val) (vals : List (Option Val)) (h : vals.length ≤ ths.length)
    (hk : ∀ (i : Nat) (v th : Val), vals[i]? = some (some v) → ths[i]? = some th → Val.sameKind v th = true) :
    ∃ b, markerG Val.isnan Val.le? Val.fmax true ths vals = .ok b ∧
      (b = true ↔ ∃ (i : Nat) (v th : Val), vals[i]? = some (some v) ∧ ths[i]? = some th ∧ Val.gt v th = true) := by
  obtain ⟨b, hb, hiff⟩ := marker_and_typed Val.isnan Val.le? Val.gt Val.fmax ths vals h (Val.typed ths vals hk)
  refine ⟨b, hb, hiff.trans ⟨?_, ?_⟩⟩
  · rintro ⟨i, v, th, hv, _, hth, hg⟩; exact ⟨i, v, th, hv, hth, hg⟩
  · rintro ⟨i, v, th, hv, hth, hg⟩; exact ⟨i, v, th, hv, Val.isnan_false v, hth, hg⟩

/-- T10 (OR mode on numbers and timestamps): the marker is 1 exactly when every tested non-NaN value exceeds its
threshold. -/
theorem marker_or_val (ths : List Val) (vals : List (Option Val)) (h : vals.length ≤ ths.length)
    (hk : ∀ (i : Nat) (v th : Val), vals[i]? = some (some v) → ths[i]? = some th → Val.sameKind v th = true) :
    ∃ b, markerG Val.isnan Val.le? Val.fmax false ths vals = .ok b ∧
      (b = true ↔ ∀ (i : Nat) (v th : Val), vals[i]? = some (some v) → ths[i]? = some th → Val.gt v th = true) := by
  obtain ⟨b, hb, hiff⟩ := marker_or_typed Val.isnan Val.le? Val.gt Val.fmax ths vals h (Val.typed ths vals hk)
  refine ⟨b, hb, hiff.trans ⟨?_, ?_⟩⟩
  · intro hall i v th hv hth; exact hall i v th hv (Val.isnan_false v) hth
  · intro hall i v th hv _ hth; exact hall i v th hv hth

open TV.ObsTime in
/-- T10 ("exceeds" between timestamps is "strictly later"): for well-formed dates (`WFs`: fields in their calendar
ranges, year ≥ 1970) `ObsTime.__gt__` holds exactly when the instant, counted in milliseconds, is larger (C03). -/
theorem val_gt_time (a b : Stamp) (ha : WFs a) (hb : WFs b) :
    Val.gt (.time a) (.time b) = true ↔ toAbsMs b < toAbsMs a := by
  show gtS a b = true ↔ _
  rw [gtS_eq_ltS]
  exact ltS_iff b a hb ha

/-- T10 ("exceeds" between numbers) -/
theorem val_gt_num (a b : Ext) : Val.gt (.num a) (.num b) = true ↔ b < a := by
  simp [Val.gt]

/-- T10 (outside the domain): a number against an `ObsTime` threshold, or the reverse, is an `AttributeError` of
`ObsTime.__gt__` / `__lt__` (they read `time.year`) as soon as the pair is compared. -/
theorem val_mixed_raises (v th : Val) (h : Val.sameKind v th = false) : Val.le? v th = .error "attr" :=
  Val.le?_mixed v th h

/-- T10 (`getObsAnalyticalFeature` on the built-in names): on a track given by its coordinates (`xyz`: columns named
`x`, `y`, `z`), its timestamps and its feature table, the name `timestamp` reads the `ObsTime` objects themselves,
`idx` the indices 0, 1, 2, …, `t` `toAbsTime()` of every timestamp — whatever the feature table holds. -/
theorem builtin_features (absTime : TV.ObsTime.Stamp → Option Val) (xyz feats : List (String × Col Val))
    (stamps : List TV.ObsTime.Stamp) (hx : ∀ p ∈ xyz, p.1 = "x" ∨ p.1 = "y" ∨ p.1 = "z") :
    (FTrack.ofObs absTime xyz stamps feats).size = stamps.length ∧
    (FTrack.ofObs absTime xyz stamps feats).get "timestamp" = some (stamps.map (fun s => some (Val.time s))) ∧
    (FTrack.ofObs absTime xyz stamps feats).get "idx"
      = some ((List.range stamps.length).map (fun (i : Nat) => some (Val.num (.fin (i : Rat))))) ∧
    (FTrack.ofObs absTime xyz stamps feats).get "t" = some (stamps.map absTime) := by
  have hk : ∀ k : String, k ≠ "x" → k ≠ "y" → k ≠ "z" → ∀ p ∈ xyz, p.1 ≠ k := by
    intro k h1 h2 h3 p hp e
    rcases hx p hp with h | h | h <;> rw [h] at e <;> simp_all
  refine ⟨rfl, ?_, ?_, ?_⟩
  · simp only [FTrack.get, FTrack.ofObs, builtinCols]
    rw [lookup_append_skip _ _ _ (hk "timestamp" (by decide) (by decide) (by decide))]
    rfl
  · simp only [FTrack.get, FTrack.ofObs, builtinCols]
    rw [lookup_append_skip _ _ _ (hk "idx" (by decide) (by decide) (by decide))]
    rfl
  · simp only [FTrack.get, FTrack.ofObs, builtinCols]
    rw [lookup_append_skip _ _ _ (hk "t" (by decide) (by decide) (by decide))]
    rfl

section trackG
variable {α : Type} [OfNat α 0] [OfNat α 1]

/-- T11 (`segmentation()` as a whole, any kind of value): `segmentation_track` for the operator-call model. A call
in the domain — output name not reserved, track not empty, tested features known, at least as many thresholds as
tested features, and the rows read from the track typed against the thresholds (at `Val`: every tested feature holds
values of the kind of its threshold, NaN apart — `Val.typed`) — succeeds; the output feature holds the markers of the
rows (characterised by `marker_and_typed` / `marker_or_typed`); every other feature reads as before; names, their
order and the size are unchanged. The tested features may be the built-in ones (`virt`: `x y z t idx timestamp`). -/
theorem segmentation_track_typed (isnan : α → Bool) (le? : α → α → Except String Bool) (gt : α → α → Bool) (fmax : α)
    (andMode : Bool) (t : FTrack α) (afs : Arg String) (out : String) (ths : Arg α)
    (hres : reserved.contains out = false) (hsize : t.size ≠ 0) (hvirt : t.virt.lookup out = none)
    (hknown : ∀ a ∈ afs.listify, ((t.create out).get a).isSome = true)
    (hlen : afs.listify.length ≤ ths.listify.length)
    (hty : ∀ rows, (t.create out).rows afs.listify = some rows → ∀ r ∈ rows, Typed isnan le? gt ths.listify 0 r) :
    ∃ rows bs t', (t.create out).rows afs.listify = some rows ∧ rows.length = t.size ∧
      markersG isnan le? fmax andMode ths.listify rows = .ok bs ∧
      rows.map (markerG isnan le? fmax andMode ths.listify) = bs.map Except.ok ∧
      segTrackG isnan le? fmax andMode t afs out ths = .ok t' ∧
      t'.get out = some (bs.map markVal) ∧
      (∀ name, name ≠ out → t'.get name = t.get name) ∧
      t'.feats.map Prod.fst = (t.create out).feats.map Prod.fst ∧
      t'.size = t.size ∧ t'.virt = t.virt := by
  obtain ⟨cols, hcols⟩ := mapM_isSome _ _ hknown
  have hrows : (t.create out).rows afs.listify = some
      ((List.range (t.create out).size).map (fun i => cols.map (fun c => (c[i]?).getD none))) := by
    simp [FTrack.rows, hcols]
  obtain ⟨hrl, hrw⟩ := rows_length _ _ _ hrows
  obtain ⟨bs, hbs, hall⟩ := markers_each_typed isnan le? gt fmax andMode ths.listify _
    (fun r hr => ⟨by rw [hrw r hr]; exact hlen, hty _ hrows r hr⟩)
  refine ⟨_, bs, (t.create out).setCol out (bs.map markVal), hrows, by rw [hrl, create_size], hbs, hall, ?_, ?_, ?_, ?_, ?_, ?_⟩
  · simp only [segTrackG, hres, Bool.false_eq_true, if_false, hsize, hrows, hbs]
    rfl
  · exact setCol_get_eq _ _ _ (create_has t out) (by rw [create_virt]; exact hvirt)
  · intro name hne
    rw [setCol_get_ne _ _ _ _ hne, create_get_ne _ _ _ hne]
  · rw [setCol_feats, names_setF]
  · exact create_size t out
  · exact create_virt t out

/-- T11 (numbers and `ObsTime` objects): the same for the values a track actually hands over, the hypothesis being
that in every row read from the track each non-NaN tested value is of the kind of the threshold of its position
(e.g. `afs_input = ["speed", "timestamp"]`, `thresholds_max = [5.0, ObsTime(…)]`). -/
theorem segmentation_track_val (andMode : Bool) (t : FTrack Val) (afs : Arg String) (out : String) (ths : Arg Val)
    (hres : reserved.contains out = false) (hsize : t.size ≠ 0) (hvirt : t.virt.lookup out = none)
    (hknown : ∀ a ∈ afs.listify, ((t.create out).get a).isSome = true)
    (hlen : afs.listify.length ≤ ths.listify.length)
    (hk : ∀ rows, (t.create out).rows afs.listify = some rows → ∀ r ∈ rows, ∀ (i : Nat) (v th : Val),
      r[i]? = some (some v) → ths.listify[i]? = some th → Val.sameKind v th = true) :
    ∃ rows bs t', (t.create out).rows afs.listify = some rows ∧ rows.length = t.size ∧
      markersG Val.isnan Val.le? Val.fmax andMode ths.listify rows = .ok bs ∧
      rows.map (markerG Val.isnan Val.le? Val.fmax andMode ths.listify) = bs.map Except.ok ∧
      segTrackG Val.isnan Val.le? Val.fmax andMode t afs out ths = .ok t' ∧
      t'.get out = some (bs.map markVal) ∧
      (∀ name, name ≠ out → t'.get name = t.get name) ∧
      t'.feats.map Prod.fst = (t.create out).feats.map Prod.fst ∧
      t'.size = t.size ∧ t'.virt = t.virt :=
  segmentation_track_typed Val.isnan Val.le? Val.gt Val.fmax andMode t afs out ths hres hsize hvirt hknown hlen
    (fun rows hr r hmem => Val.typed _ _ (hk rows hr r hmem))

/-- T11 (no memory, any kind of value): what an already existing output feature held before the call has no
influence on the result, exceptions included. -/
theorem segmentation_history_typed (isnan : α → Bool) (le? : α → α → Except String Bool) (fmax : α) (andMode : Bool)
    (t : FTrack α) (afs : Arg String) (out : String) (ths : Arg α)
    (c : Col α) (hhas : t.has out = true) (hout : out ∉ afs.listify) :
    segTrackG isnan le? fmax andMode (t.setCol out c) afs out ths = segTrackG isnan le? fmax andMode t afs out ths := by
  have h1 : (t.setCol out c).create out = t.setCol out c := create_of_has _ _ (by rw [setCol_has]; exact hhas)
  have h2 : t.create out = t := create_of_has _ _ hhas
  have hr : (t.setCol out c).rows afs.listify = t.rows afs.listify :=
    rows_congr _ _ _ rfl (fun a ha => setCol_get_ne _ _ _ _ (fun e => hout (e ▸ ha)))
  simp only [segTrackG, h1, h2, hr, setCol_setCol]
  rfl
end trackG

/-! ## the front end of `split(track, <feature name>)`: the marker is read from the track by NAME -/
section byname
variable {α : Type}

/-- T12 (what `split` reads): `getObsAnalyticalFeature(source, i)` finds the column stored under the key `source` —
the whole string, neither stripped nor parsed — whatever other features the track carries and whatever THEIR names
are: a marker called `speed-limit` is found as such when features `speed` and `limit` exist too, `" mark"` is not
`"mark"`. (Hypotheses: `source` is not one of the six built-in names, and no earlier entry of the table has that
very name — the table is a dictionary.) -/
theorem split_reads_named_column (t : FTrack α) (source : String) (col : Col α)
    (before after : List (String × Col α)) (hv : t.virt.lookup source = none)
    (hf : t.feats = before ++ (source, col) :: after) (hb : ∀ p ∈ before, p.1 ≠ source) :
    t.get source = some col := by
  simp only [FTrack.get, hv, hf]
  rw [lookup_append_skip source before _ hb, lookup_cons_self]

/-- T12 (frame): the pieces (and the uid numbers, and the outcome when the name is unknown) depend on the track only
through its size and the column read under the name `source`: two tracks that agree there are split alike, whatever
their other features hold. -/
theorem split_track_frame (isOne : Option α → Bool) (t t' : FTrack α) (source : String)
    (hs : t'.size = t.size) (hg : t'.get source = t.get source) :
    splitTrack isOne t' source = splitTrack isOne t source ∧
    ∀ short keepTail, splitTrackU isOne short keepTail t' source = splitTrackU isOne short keepTail t source := by
  constructor
  · simp only [splitTrack, FTrack.marked, hs, hg]
  · intro short keepTail
    simp only [splitTrackU, FTrack.marked, hs, hg]

/-- T12 (the split half of the property, for a track and a feature NAME): when the track has a feature `source`
holding `col`, `split(track, source)` succeeds and its pieces — lists of observation indices — are: nothing when no
cell of `col` equals 1; otherwise the observations 0 … size−1 exactly once and in order, every piece but the last
ending at an observation whose cell equals 1 and containing no other such observation, the last piece containing
none. `isOne` is `== 1` on a cell (any function: nothing is assumed about it). -/
theorem split_track_property (isOne : Option α → Bool) (t : FTrack α) (source : String) (col : Col α)
    (hg : t.get source = some col) :
    ∃ pieces, splitTrack isOne t source = .ok pieces ∧
      ((List.range t.size).any (colMark isOne col) = true → pieces.flatten = List.range t.size) ∧
      ((List.range t.size).any (colMark isOne col) = false → pieces = []) ∧
      (∀ p ∈ pieces.dropLast, EndsMarked (colMark isOne col) p) ∧
      (∀ tl, pieces.getLast? = some tl → ∀ q ∈ tl, colMark isOne col q = false) := by
  refine ⟨_, splitTrack_of_get isOne t source col hg, ?_, ?_, ?_, ?_⟩
  · intro h
    have := split_partition (tag (colMark isOne col) (List.range t.size)) (by rw [any_tag]; exact h)
    simpa [tag, Function.comp_def] using this
  · intro h
    exact split_none _ (by rw [any_tag]; exact h)
  · exact split_ends_marked _ _
  · exact fun tl h => split_tail_unmarked _ _ tl h

/-- T12 (limit, uids): the same front end with a `limit` returns the pieces of `split_limit_filter` with the uid
numbers of `split_uid_numbers`, on the markers read under the name `source`. -/
theorem split_track_uid (isOne : Option α → Bool) (short keepTail : List Nat → Bool) (t : FTrack α) (source : String)
    (col : Col α) (hg : t.get source = some col) :
    ∃ r, splitTrackU isOne short keepTail t source = .ok r ∧
      r.map Prod.snd = splitL short keepTail (tag (colMark isOne col) (List.range t.size)) :=
  ⟨_, splitTrackU_of_get isOne short keepTail t source col hg, splitU_pieces _ _ _⟩

/-- T12 (unknown name, outside the domain): `AnalyticalFeatureError` on a non-empty track, the empty collection on an
empty one (the loop does not run). -/
theorem split_track_unknown (isOne : Option α → Bool) (t : FTrack α) (source : String) (hg : t.get source = none) :
    splitTrack isOne t source = if t.size = 0 then .ok [] else .error "af" := by
  simp [splitTrack, FTrack.marked, hg]

variable [OfNat α 0] [OfNat α 1]

/-- T13 (`segmentation()` then `split()` on its output feature, any kind of tested value): under the hypotheses of
`segmentation_track_typed`, the two calls in a row succeed and return the split of the track on the markers `bs` of
its rows (each characterised by `marker_and_typed` / `marker_or_typed`): the column written by `segmentation()` as
1 / 0 is read back by `split()` under the same name with `== 1`. Whatever the output name is (not reserved), and
whether or not the feature existed before. The three facts about `isOne` are those of Python's `== 1` on 1, 0, NaN. -/
theorem segmentation_then_split (isnan : α → Bool) (le? : α → α → Except String Bool) (gt : α → α → Bool)
    (isOne : Option α → Bool) (h1 : isOne (some 1) = true) (h0 : isOne (some 0) = false) (hn : isOne none = false)
    (fmax : α) (andMode : Bool) (t : FTrack α) (afs : Arg String) (out : String) (ths : Arg α)
    (hres : reserved.contains out = false) (hsize : t.size ≠ 0) (hvirt : t.virt.lookup out = none)
    (hknown : ∀ a ∈ afs.listify, ((t.create out).get a).isSome = true)
    (hlen : afs.listify.length ≤ ths.listify.length)
    (hty : ∀ rows, (t.create out).rows afs.listify = some rows → ∀ r ∈ rows, Typed isnan le? gt ths.listify 0 r) :
    ∃ (rows : List (List (Option _))) (bs : List Bool), (t.create out).rows afs.listify = some rows ∧ rows.length = t.size ∧
      bs.length = t.size ∧
      rows.map (markerG isnan le? fmax andMode ths.listify) = bs.map Except.ok ∧
      segSplitTrackG isnan le? isOne fmax andMode t afs out ths =
        .ok (split (tag (fun i => (bs[i]?).getD false) (List.range t.size))) := by
  obtain ⟨rows, bs, t', hrows, hrl, _, hall, hseg, hget, _, _, hsz, _⟩ :=
    segmentation_track_typed isnan le? gt fmax andMode t afs out ths hres hsize hvirt hknown hlen hty
  refine ⟨rows, bs, hrows, hrl, by rw [map_ok_length _ _ _ hall, hrl], hall, ?_⟩
  simp only [segSplitTrackG, hseg]
  rw [splitTrack_of_get isOne t' out _ hget, hsz]
  unfold markVal
  rw [colMark_markers isOne h1 h0 hn bs]

/-- T13 on numbers and `ObsTime` objects, with Python's `== 1` -/
theorem segmentation_then_split_val (andMode : Bool) (t : FTrack Val) (afs : Arg String) (out : String) (ths : Arg Val)
    (hres : reserved.contains out = false) (hsize : t.size ≠ 0) (hvirt : t.virt.lookup out = none)
    (hknown : ∀ a ∈ afs.listify, ((t.create out).get a).isSome = true)
    (hlen : afs.listify.length ≤ ths.listify.length)
    (hk : ∀ rows, (t.create out).rows afs.listify = some rows → ∀ r ∈ rows, ∀ (i : Nat) (v th : Val),
      r[i]? = some (some v) → ths.listify[i]? = some th → Val.sameKind v th = true) :
    ∃ (rows : List (List (Option _))) (bs : List Bool), (t.create out).rows afs.listify = some rows ∧ rows.length = t.size ∧
      bs.length = t.size ∧
      rows.map (markerG Val.isnan Val.le? Val.fmax andMode ths.listify) = bs.map Except.ok ∧
      segSplitTrackG Val.isnan Val.le? Val.isOne Val.fmax andMode t afs out ths =
        .ok (split (tag (fun i => (bs[i]?).getD false) (List.range t.size))) :=
  segmentation_then_split Val.isnan Val.le? Val.gt Val.isOne (by decide) (by decide) rfl Val.fmax andMode t afs out ths
    hres hsize hvirt hknown hlen (fun rows hr r hmem => Val.typed _ _ (hk rows hr r hmem))
end byname

/-! ## the hypotheses are satisfiable by non-trivial inputs (and the model computes what Python does) -/

-- markers 0 1 0 1 on tags 10..13: pieces [10,11] [12,13] and the empty tail of `extract(4, 3)`
example : split [(10, false), (11, true), (12, false), (13, true)] = [[10, 11], [12, 13], []] := by decide
-- adjacent markers, marker on the first observation
example : split [(0, true), (1, true), (2, false)] = [[0], [1], [2]] := by decide
example : ([(10, false), (11, true), (12, false), (13, true)] : List (Nat × Bool)).any Prod.snd = true := by decide
-- AND mode, thresholds [2, 5]: (1, NaN) → 0 ; (3, 4) → 1 ; (NaN, NaN) → 0.  OR mode: (3, 4) → 0 ; (3, 6) → 1 ; (NaN, NaN) → 1
example : markers (10 : Rat) true [2, 5] [[some 1, none], [some 3, some 4], [none, none]] = some [false, true, false] := by decide +kernel
example : markers (10 : Rat) false [2, 5] [[some 3, some 4], [some 3, some 6], [none, none]] = some [false, true, true] := by decide +kernel
-- a value equal to its threshold does not exceed it
example : marker (10 : Rat) true [2] [some 2] = some false := by decide +kernel
-- outside the hypothesis of T4 (fewer thresholds than features): the call raises IndexError
example : marker (10 : Rat) true [2] [some 1, some 1] = none := by decide +kernel

-- limit: the piece [0] (one observation) is short, [1,2] is kept, the closing piece [3] fails its own test
example : splitL (fun p => decide (p.length < 2)) (fun p => decide (p.length ≥ 2))
    [(0, true), (1, false), (2, true), (3, false)] = [[1, 2]] := by decide
-- uid numbers: marker vector 0 1 1 0 0, the one-observation piece [2] is short: count stays 1 for the closing piece
example : splitU (fun p => decide (p.length < 2)) (fun _ => true)
    [(10, false), (11, true), (12, true), (13, false), (14, false)] = [((0, 0, 1), [10, 11]), ((1, 3, 4), [13, 14])] := by decide
-- the two facts `split_limit_zero` asks of the scalar type, on the rationals; `split_limit_pos` on a length function
example : ¬ (0 : Rat) < 0 := by decide
example : ((0 : Rat) == 0) = true := by decide
example : splitLimit (fun p : List Nat => ((p.length - 1 : Nat) : Rat)) 1 [(0, true), (1, false), (2, true), (3, false), (4, false)]
    = [[1, 2], [3, 4]] := by decide +kernel
example : ∀ p : List Nat, ¬ ((p.length : Nat) : Rat) < 1 ↔ (1 : Rat) ≤ ((p.length : Nat) : Rat) := fun _ => Rat.not_lt
-- extract: inclusive bounds, reversed bounds, Python's negative indices, IndexError
example : extract [10, 11, 12, 13] 1 2 = some [11, 12] := by decide
example : extract [10, 11] 2 1 = some [] := by decide
example : extract [10, 11, 12] (-2) (-1) = some [11, 12] := by decide
example : extract [10] 0 1 = none := by decide
-- index list: consecutive pieces share their boundary observation
example : splitIdx (fun _ => false) [10, 11, 12, 13, 14] [0, 2, 4] = some [[10, 11, 12], [12, 13, 14]] := by decide
example : ([0, 2, 4] : List Nat).Pairwise (· ≤ ·) := by decide
-- collection: the track without a marker contributes nothing
example : splitColl [[(0, false), (1, true), (2, false)], [(3, false)], [(4, true)]] = [[0, 1], [2], [4], []] := by decide
-- infinite values and thresholds: +inf exceeds 5, nothing exceeds +inf, -inf exceeds nothing
example : markers Ext.fmax true [.fin 5, .pinf] [[some .pinf, none], [some (.fin 1), some .pinf], [some .ninf, some (.fin 7)]]
    = some [true, false, false] := by decide +kernel
-- segmentation() on a feature table: two tested features, the second given through a virtual name; the output
-- feature already exists and holds stale values; AND mode, thresholds [2, 5]
example : ((segTrack Ext.fmax true
      { size := 3, virt := [("z", [some (.fin 9), none, some (.fin 5)])],
        feats := [("speed", [some (.fin 1), some (.fin 3), some (.fin 2)]), ("cut", [some (.fin 1), some (.fin 1), none])] }
      (.many ["speed", "z"]) "cut" (.many [.fin 2, .fin 5])).toOption.map (·.feats))
    = some [("speed", [some (.fin 1), some (.fin 3), some (.fin 2)]), ("cut", [some (.fin 1), some (.fin 1), some (.fin 0)])] := by
  decide +kernel
-- a bare name and a bare threshold; the output feature is new and is appended
example : ((segTrack Ext.fmax true { size := 2, virt := [], feats := [("speed", [some (.fin 1), some (.fin 3)])] }
      (.one "speed") "cut" (.one (.fin 2))).toOption.map (·.feats))
    = some [("speed", [some (.fin 1), some (.fin 3)]), ("cut", [some (.fin 0), some (.fin 1)])] := by decide +kernel
-- outside the domain: reserved output name, empty track
example : (segTrack Ext.fmax true { size := 2, virt := [], feats := [("speed", [some (.fin 1), some (.fin 3)])] }
      (.one "speed") "x" (.one (.fin 2))).toOption.isNone = true := by decide +kernel

-- timestamps: 2020-02-29 23:59:59.500, 2020-03-01 00:00:00.000 and .500; thresholds: a number for `speed`, an ObsTime for `timestamp`
section
open TV.ObsTime
private def s1 : Stamp := ⟨⟨2020, 2, 29, 23, 59, 59⟩, 500⟩
private def s2 : Stamp := ⟨⟨2020, 3, 1, 0, 0, 0⟩, 0⟩
private def s3 : Stamp := ⟨⟨2020, 3, 1, 0, 0, 0⟩, 500⟩
/-- (result, "") or (none, exception) -/
private def res {γ : Type} : Except String γ → Option γ × String
  | .ok b => (some b, "")
  | .error e => (none, e)
-- a single tested feature, the timestamp, against the instant of the second observation: equal does not exceed
example : res (markersG Val.isnan Val.le? Val.fmax true [.time s2] [[some (.time s1)], [some (.time s2)], [some (.time s3)]])
    = (some [false, false, true], "") := by decide +kernel
-- mixed: speed > 5 or later than s2 (AND mode); speed > 5 and later than s2 (OR mode); a missing speed is skipped
example : res (markersG Val.isnan Val.le? Val.fmax true [.num (.fin 5), .time s2]
    [[some (.num (.fin 9)), some (.time s1)], [none, some (.time s2)], [some (.num (.fin 1)), some (.time s3)]])
    = (some [true, false, true], "") := by decide +kernel
example : res (markersG Val.isnan Val.le? Val.fmax false [.num (.fin 5), .time s2]
    [[some (.num (.fin 9)), some (.time s1)], [none, some (.time s3)], [some (.num (.fin 9)), some (.time s3)]])
    = (some [false, true, true], "") := by decide +kernel
-- the hypothesis of `marker_and_val` on such a row, and well-formed dates for `val_gt_time`
example : Val.sameKind (.num (.fin 9)) (.num (.fin 5)) = true ∧ Val.sameKind (.time s1) (.time s2) = true := by decide
example : WFs s1 ∧ WFs s3 := by unfold WFs WF; decide
example : Val.gt (.time s3) (.time s1) = true := by decide
-- outside the domain: a number against an ObsTime threshold raises when it is compared (first position, or AND mode
-- with nothing exceeding before it) and not when the marker is already decided
example : res (markerG Val.isnan Val.le? Val.fmax true [.time s2] [some (.num (.fin 9))]) = (none, "attr") := by decide +kernel
example : res (markerG Val.isnan Val.le? Val.fmax true [.num (.fin 5), .time s2] [some (.num (.fin 9)), some (.num (.fin 9))])
    = (some true, "") := by decide +kernel
example : res (markerG Val.isnan Val.le? Val.fmax true [.num (.fin 5), .time s2] [some (.num (.fin 1)), some (.num (.fin 9))])
    = (none, "attr") := by decide +kernel
-- the whole call on the built-in feature `timestamp` (a virtual column) mixed with a feature of the table
example : ((segTrackG Val.isnan Val.le? Val.fmax true
      { size := 3, virt := [("timestamp", [some (.time s1), some (.time s2), some (.time s3)])],
        feats := [("speed", [some (.num (.fin 9)), none, some (.num (.fin 1))])] }
      (.many ["speed", "timestamp"]) "cut" (.many [.num (.fin 5), .time s2])).toOption.map (·.feats))
    = some [("speed", [some (.num (.fin 9)), none, some (.num (.fin 1))]), ("cut", [some 1, some 0, some 1])] := by
  decide +kernel
-- index lists with Python indexing: negative indices, a descending pair (empty piece), a range wrapping around 0, IndexError
example : extract [10, 11, 12, 13] (-2) (-1) = some [12, 13] := by decide +kernel
example : extract [10, 11, 12, 13] (-1) 1 = some [13, 10, 11] := by decide +kernel
example : extract [10, 11, 12, 13] 2 4 = none := by decide +kernel
example : splitIdx (fun _ => false) [10, 11, 12, 13] [3, 1, 2, -1] = some [[], [11, 12], []] := by decide +kernel
example : splitIdx (fun _ => false) [10, 11, 12, 13] [0, 1, 5] = none := by decide +kernel
example : pairs [3, 1, 2, -1] = [(3, 1), (1, 2), (2, -1)] := by decide
-- the marker read by NAME: features `speed`, `limit` and a marker called `speed-limit` (speed - limit equals 1 at the
-- observations 0 and 2, the marker is 1 at 1 only); ` cut` is not `cut`; cells 1.0 / True are 1 by value, 2 and NaN are not
private def tk : FTrack Val :=
  { size := 4, virt := [("idx", [some (.num (.fin 0)), some (.num (.fin 1)), some (.num (.fin 2)), some (.num (.fin 3))])],
    feats := [("speed", [some (.num (.fin 3)), some (.num (.fin 2)), some (.num (.fin 5)), some (.num (.fin 1))]),
              ("limit", [some (.num (.fin 2)), some (.num (.fin 2)), some (.num (.fin 4)), some (.num (.fin 1))]),
              ("speed-limit", [some 0, some 1, some 0, some 0]),
              ("cut", [some 1, some 0, some 0, some 0]),
              (" cut", [some (.num (.fin 2)), none, some 1, some 0])] }
example : (splitTrack Val.isOne tk "speed-limit").toOption = some [[0, 1], [2, 3]] := by decide +kernel
example : (splitTrack Val.isOne tk " cut").toOption = some [[0, 1, 2], [3]] := by decide +kernel
example : (splitTrack Val.isOne tk "cut").toOption = some [[0], [1, 2, 3]] := by decide +kernel
example : (splitTrack Val.isOne tk "idx").toOption = some [[0, 1], [2, 3]] := by decide +kernel
example : (splitTrack Val.isOne tk "speed - limit").toOption = none := by decide +kernel
example : tk.get "speed-limit" = some [some 0, some 1, some 0, some 0] := by decide +kernel
example : (List.range tk.size).any (colMark Val.isOne [some 0, some 1, some 0, some 0]) = true := by decide +kernel
-- segmentation() into an output feature called `speed>2` (speed > 2 at 0 and 2), then split() on it
example : (segSplitTrackG Val.isnan Val.le? Val.isOne Val.fmax true tk (.one "speed") "speed>2" (.one (.num (.fin 2)))).toOption
    = some [[0], [1, 2], [3]] := by decide +kernel
end
/-! ## numbers of different Python types: ints of any size, floats, numpy scalars (`Model/SplitNum.lean`) -/
section num

/-- T14 (`<=` between two Python numbers is exact): for a Python int or float against a Python int or float, in any
pairing and at any magnitude, `a <= b` answers, and answers exactly "not (a exceeds b)" on the VALUES — Python does not
convert the int to a float (`2**53 + 1 <= 2.0**53` is False). Exact arithmetic: the values are rationals. -/
theorem num_le_python (a b : PNum) (ha : a.kind.isNumpy = false) (hb : b.kind.isNumpy = false) :
    PNum.le? a b = .ok (decide (a.val ≤ b.val)) := by
  unfold PNum.le?
  rw [PNum.converts_python a b ha hb, PNum.image_false, PNum.image_false]

/-- T14 (numpy scalars): two integers (`numpy.int64` / Python int) or two floats are compared exactly as well
(`PNum.converts_same`); when numpy does convert — an integer operand `n` of any of the four types against a float `x`
of either flavour — an integer below 2^53 in magnitude is unchanged by the conversion, so the comparison is still the
exact one, both ways round. -/
theorem num_le_small (ka kb : NumKind) (n : Int) (x : Rat) (h : n.natAbs < 2 ^ 53) (hkb : kb.isInt = false) :
    PNum.le? ⟨ka, .fin (n : Rat)⟩ ⟨kb, .fin x⟩ = .ok (decide ((n : Rat) ≤ x)) ∧
    PNum.le? ⟨kb, .fin x⟩ ⟨ka, .fin (n : Rat)⟩ = .ok (decide (x ≤ (n : Rat))) := by
  have hx : ∀ (c : Bool), PNum.image c ⟨kb, .fin x⟩ = .fin x := by
    intro c; unfold PNum.image; simp [hkb]
  constructor
  · unfold PNum.le?
    rw [PNum.image_small _ ka n h, hx]; congr 1; exact decide_eq_decide.mpr (Ext.fin_le _ _)
  · unfold PNum.le?
    rw [PNum.image_small _ ka n h, hx]; congr 1; exact decide_eq_decide.mpr (Ext.fin_le _ _)

/-- T14 (AND mode on numbers of any Python type and size): thresholds paired with the tested values so that no compared
pair makes numpy convert (Python ints and floats in any pairing — e.g. an integer feature beyond 2^53 against an integer
threshold that is not a double; `numpy.int64` against integers; floats against floats): the call raises nothing and the
marker is 1 exactly when some tested non-NaN value EXACTLY exceeds its threshold. No threshold is rounded. -/
theorem marker_and_num (ths : List PNum) (vals : List (Option PNum)) (h : vals.length ≤ ths.length)
    (hk : ∀ (i : Nat) (v th : PNum), vals[i]? = some (some v) → ths[i]? = some th → v.converts th = false) :
    ∃ b, markerG PNum.isnan PNum.le? PNum.fmax true ths vals = .ok b ∧
      (b = true ↔ ∃ (i : Nat) (v th : PNum), vals[i]? = some (some v) ∧ ths[i]? = some th ∧ th.val < v.val) := by
  obtain ⟨b, hb, hiff⟩ := marker_and_typed PNum.isnan PNum.le? PNum.gt PNum.fmax ths vals h (PNum.typed ths vals hk)
  refine ⟨b, hb, hiff.trans ⟨?_, ?_⟩⟩
  · rintro ⟨i, v, th, hv, _, hth, hg⟩; exact ⟨i, v, th, hv, hth, by simpa [PNum.gt] using hg⟩
  · rintro ⟨i, v, th, hv, hth, hg⟩; exact ⟨i, v, th, hv, rfl, hth, by simpa [PNum.gt] using hg⟩

/-- T14 (OR mode): the marker is 1 exactly when every tested non-NaN value exactly exceeds its threshold. -/
theorem marker_or_num (ths : List PNum) (vals : List (Option PNum)) (h : vals.length ≤ ths.length)
    (hk : ∀ (i : Nat) (v th : PNum), vals[i]? = some (some v) → ths[i]? = some th → v.converts th = false) :
    ∃ b, markerG PNum.isnan PNum.le? PNum.fmax false ths vals = .ok b ∧
      (b = true ↔ ∀ (i : Nat) (v th : PNum), vals[i]? = some (some v) → ths[i]? = some th → th.val < v.val) := by
  obtain ⟨b, hb, hiff⟩ := marker_or_typed PNum.isnan PNum.le? PNum.gt PNum.fmax ths vals h (PNum.typed ths vals hk)
  refine ⟨b, hb, hiff.trans ⟨?_, ?_⟩⟩
  · intro hall i v th hv hth; simpa [PNum.gt] using hall i v th hv rfl hth
  · intro hall i v th hv _ hth; simpa [PNum.gt] using hall i v th hv hth

-- non-vacuity / regression witnesses: an integer threshold beyond 2^53 that is not a double (2^53 + 3), integer values
-- around it; rounding the threshold to its double (2^53 + 4) would move the marker of the values 2^53 + 4: the model,
-- like the code, does not
example : (markersG PNum.isnan PNum.le? PNum.fmax true [⟨.pyInt, .fin (2 ^ 53 + 3)⟩]
    [[some ⟨.pyInt, .fin (2 ^ 53 + 2)⟩], [some ⟨.pyInt, .fin (2 ^ 53 + 3)⟩], [some ⟨.pyInt, .fin (2 ^ 53 + 4)⟩], [none]]).toOption
    = some [false, false, true, false] := by decide +kernel
example : roundInt (2 ^ 53 + 3) = 2 ^ 53 + 4 := by decide +kernel
example : roundInt 1700000000000000300 = 1700000000000000256 := by decide +kernel
example : (markersG PNum.isnan PNum.le? PNum.fmax true [⟨.pyFloat, .fin (2 ^ 53 + 4)⟩] [[some ⟨.pyInt, .fin (2 ^ 53 + 4)⟩]]).toOption
    = some [false] := by decide +kernel
-- a Python int against a float: exact; the same integer as a numpy.int64 against the same float: converted first
example : (PNum.le? ⟨.pyInt, .fin (2 ^ 53 + 1)⟩ ⟨.pyFloat, .fin (2 ^ 53)⟩).toOption = some false := by decide +kernel
example : (PNum.le? ⟨.npInt, .fin (2 ^ 53 + 1)⟩ ⟨.pyFloat, .fin (2 ^ 53)⟩).toOption = some true := by decide +kernel
example : (PNum.le? ⟨.npFloat, .fin (2 ^ 53 + 4)⟩ ⟨.pyInt, .fin (2 ^ 53 + 3)⟩).toOption = some true := by decide +kernel
end num
end TV.C11
