import TracklibVerif.Lemmas.Split
/-! # C11 — splitting on a marker partitions the track; markers reflect the thresholds

Property theorems only (helper lemmas are in `Lemmas/Split.lean`). The models are in `Model/Split.lean`:
`split` mirrors `split(track, <feature name>)` of algo/segmentation.py on a list of
(observation, marker = 1?) pairs, `marker`/`markers` mirror `segmentation()` on exact rationals with
NaN = `none`. All statements hold for every track length, every marker vector, every number of
tested features. -/
namespace TV.C11
open TV.Split
variable {β : Type}

/-- T1: as soon as one observation is marked, the pieces taken in order are the track: every
observation exactly once, in the original order. -/
theorem split_partition (obs : List (β × Bool)) (h : obs.any Prod.snd = true) :
    (split obs).flatten = obs.map Prod.fst :=
  Split.split_partition obs h

/-- T3: with no marked observation the returned collection is empty (as documented). -/
theorem split_none (obs : List (β × Bool)) (h : obs.any Prod.snd = false) : split obs = [] :=
  Split.split_none obs h

/-- T2 (a): every piece except the last one ends at a marked observation and contains no other
marked observation. (`mk o` = "the marker feature of observation `o` equals 1".) -/
theorem split_ends_marked (mk : β → Bool) (l : List β) :
    ∀ p ∈ (split (tag mk l)).dropLast, EndsMarked mk p := by
  cases h : l.any mk with
  | false =>
    rw [Split.split_none _ (by rw [any_tag]; exact h)]
    intro p hp; cases hp
  | true =>
    rw [split_shape _ (by rw [any_tag]; exact h), List.dropLast_concat]
    exact (go_marked mk l [] [] false (by intro p hp; cases hp) (by intro q hq; cases hq)).1

/-- T2 (b): the last piece (what follows the last marked observation) contains no marked observation. -/
theorem split_tail_unmarked (mk : β → Bool) (l : List β) (t : List β)
    (ht : (split (tag mk l)).getLast? = some t) : ∀ q ∈ t, mk q = false := by
  cases h : l.any mk with
  | false =>
    rw [Split.split_none _ (by rw [any_tag]; exact h)] at ht
    cases ht
  | true =>
    rw [split_shape _ (by rw [any_tag]; exact h), List.getLast?_concat] at ht
    cases ht
    exact (go_marked mk l [] [] false (by intro p hp; cases hp) (by intro q hq; cases hq)).2

/-- T2 (c): the trailing piece is the only piece that can be empty (it is empty exactly when
`extract(size, size-1)` is called, i.e. the last observation is marked). -/
theorem split_only_tail_empty (mk : β → Bool) (l : List β) :
    ∀ p ∈ (split (tag mk l)).dropLast, p ≠ [] := by
  intro p hp
  obtain ⟨init, o, rfl, _, _⟩ := split_ends_marked mk l p hp
  simp

/-- T2 (d): the trailing piece is empty exactly when the last observation of the track is marked -/
theorem split_tail_empty_iff (mk : β → Bool) (l : List β) (h : l.any mk = true) :
    (split (tag mk l)).getLast? = some [] ↔ ∃ o, l.getLast? = some o ∧ mk o = true := by
  rw [split_shape _ (by rw [any_tag]; exact h), List.getLast?_concat]
  have hl : l ≠ [] := by intro hl; subst hl; simp at h
  rw [Option.some.injEq, go_cur_nil]
  simp [hl]

/-- T2 for a track given as (observation, marker) pairs: `split` only looks at the markers, so the
pieces are the images of the pieces of the self-tagged track, which satisfy (a)–(c). -/
theorem split_pairs (obs : List (β × Bool)) :
    split obs = (split (tag Prod.snd obs)).map (List.map Prod.fst) := by
  have h := split_map (Prod.fst : β × Bool → β) (tag Prod.snd obs)
  have e : (tag Prod.snd obs).map (fun p => (p.1.1, p.2)) = obs := by
    simp [tag, Function.comp_def]
  rw [e] at h
  exact h

/-- T4 (AND mode): with at least as many thresholds as tested features the call succeeds and the
marker is 1 exactly when SOME tested non-NaN value exceeds the threshold of its position. -/
theorem marker_and (ths : List Rat) (vals : List (Option Rat)) (h : vals.length ≤ ths.length) :
    ∃ b, marker true ths vals = some b ∧
      (b = true ↔ ∃ (i : Nat) (v th : Rat), vals[i]? = some (some v) ∧ ths[i]? = some th ∧ th < v) := by
  obtain ⟨r, hr, hiff⟩ := foldCmp_and ths vals 0 true (by omega)
  refine ⟨!r, by simp [marker, hr], ?_⟩
  simp only [Nat.zero_add, true_and] at hiff
  constructor
  · intro hb
    have hrf : ¬ r = true := by intro hh; rw [hh] at hb; cases hb
    apply Classical.byContradiction
    intro hne
    apply hrf
    rw [hiff]
    intro i w hw v th hv hth
    subst hv
    cases Rat.le_total (a := v) (b := th) with
    | inl hle => exact hle
    | inr hge =>
      apply Classical.byContradiction
      intro hnle
      exact hne ⟨i, v, th, hw, hth, Rat.not_le.mp hnle⟩
  · rintro ⟨i, v, th, hw, hth, hlt⟩
    cases hrr : r with
    | false => rfl
    | true =>
      have := (hiff.mp hrr) i (some v) hw v th rfl hth
      exact absurd this (Rat.not_le.mpr hlt)

/-- T4 (OR mode): the marker is 1 exactly when EVERY tested non-NaN value exceeds the threshold of
its position (vacuously 1 when all tested values are NaN). -/
theorem marker_or (ths : List Rat) (vals : List (Option Rat)) (h : vals.length ≤ ths.length) :
    ∃ b, marker false ths vals = some b ∧
      (b = true ↔ ∀ (i : Nat) (v th : Rat), vals[i]? = some (some v) → ths[i]? = some th → th < v) := by
  obtain ⟨r, hr, hiff⟩ := foldCmp_or ths vals 0 false (by omega)
  refine ⟨!r, by simp [marker, hr], ?_⟩
  simp only [Nat.zero_add, true_and] at hiff
  constructor
  · intro hb i v th hw hth
    have hrf : r = false := by cases r <;> simp_all
    exact (hiff.mp hrf) i (some v) hw v th rfl hth
  · intro hall
    have hrf : r = false := hiff.mpr (fun i w hw v th hv hth => by subst hv; exact hall i v th hw hth)
    simp [hrf]

/-- T4 (whole track): `segmentation()` succeeds on every observation and produces one marker per
observation, each given by `marker_and` / `marker_or`. -/
theorem markers_each (andMode : Bool) (ths : List Rat) (rows : List (List (Option Rat)))
    (h : ∀ r ∈ rows, r.length ≤ ths.length) :
    ∃ bs, markers andMode ths rows = some bs ∧ rows.map (marker andMode ths) = bs.map some := by
  induction rows with
  | nil => exact ⟨[], rfl, rfl⟩
  | cons r rs ih =>
    obtain ⟨bs, hbs, hall⟩ := ih (fun x hx => h x (List.mem_cons_of_mem _ hx))
    have hr := h r List.mem_cons_self
    obtain ⟨b, hb⟩ : ∃ b, marker andMode ths r = some b := by
      cases andMode with
      | true => obtain ⟨b, hb, _⟩ := marker_and ths r hr; exact ⟨b, hb⟩
      | false => obtain ⟨b, hb, _⟩ := marker_or ths r hr; exact ⟨b, hb⟩
    exact ⟨b :: bs, by simp [markers, hb, hbs], by simp [hb, hall]⟩

/-! ## the hypotheses are satisfiable by non-trivial inputs (and the model computes what Python does) -/

-- markers 0 1 0 1 on tags 10..13: pieces [10,11] [12,13] and the empty tail of `extract(4, 3)`
example : split [(10, false), (11, true), (12, false), (13, true)] = [[10, 11], [12, 13], []] := by decide
-- adjacent markers, marker on the first observation
example : split [(0, true), (1, true), (2, false)] = [[0], [1], [2]] := by decide
example : ([(10, false), (11, true), (12, false), (13, true)] : List (Nat × Bool)).any Prod.snd = true := by decide
-- AND mode, thresholds [2, 5]: (1, NaN) → 0 ; (3, 4) → 1 ; (NaN, NaN) → 0.  OR mode: (3, 4) → 0 ; (3, 6) → 1 ; (NaN, NaN) → 1
example : markers true [2, 5] [[some 1, none], [some 3, some 4], [none, none]] = some [false, true, false] := by decide +kernel
example : markers false [2, 5] [[some 3, some 4], [some 3, some 6], [none, none]] = some [false, true, true] := by decide +kernel
-- a value equal to its threshold does not exceed it
example : marker true [2] [some 2] = some false := by decide +kernel
-- outside the hypothesis of T4 (fewer thresholds than features): the call raises IndexError
example : marker true [2] [some 1, some 1] = none := by decide +kernel
end TV.C11
