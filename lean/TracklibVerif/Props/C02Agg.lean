import TracklibVerif.Lemmas.ExprAggField
import TracklibVerif.Lemmas.ExprAggFieldEx
import TracklibVerif.Props.C02
/-! # C02 — the aggregate functions as coded are their documented closed forms (T13, T14)

`denoteM` / `denote` take the definitions of the functions as coded (`aggFn` of `Model/Expr.lean`, the loops of
core/operators.py). T8–T10 (`Props/C02.lean`) relate `MIN MAX ARGMIN ARGMAX D I D2` to their documented formulas; here the
remaining aggregates: `SUM AVG VAR STD MSE RMSE` (T13) and the order statistics `MEDIAN MAD` (T14), over an ordered field.

The statements need *exact arithmetic*: `M : FieldModel α K` reads the scalars as elements of an ordered field `K` or NaN
and says that `+ - * /`, `x ** 2`, `abs`, `<`, `float(count)` and `0.5` are the field's (`Option Rat` is such a model:
`exactQ_model`). For IEEE doubles the formulas hold up to rounding; that distance is judged by the Python oracle's running
error bound, which evaluates exactly these formulas. `nums M c` = the numbers of the vector, NaN skipped. -/
namespace TV.C02
open TV.Expr

variable {α : Type} [Scalar α] {K : Type} [Field K] [LinearOrder K] [IsStrictOrderedRing K]

/-- **T13 (`SUM`, `AVG` as coded are Σ x and Σ x / count over the non-NaN observations)** — `Sum` / `Averager` skip NaN
(`if isnan(val): continue`); on a vector without any number `AVG` is `0 / 0` on Python integers: ZeroDivisionError.
Needs exact arithmetic (`M`). -/
theorem aggregate_sum_avg (M : FieldModel α K) (c : List α) :
    (∃ r, aggFn ['S', 'U', 'M'] c = .ok r ∧ M.val r = some (nums M c).sum) ∧
    (nums M c ≠ [] → ∃ r, aggFn ['A', 'V', 'G'] c = .ok r ∧ M.val r = some ((nums M c).sum / ((nums M c).length : K))) ∧
    (nums M c = [] → aggFn ['A', 'V', 'G'] c = .error "err:zerodiv") :=
  ⟨⟨sumL c, rfl, sumL_formula M c⟩, fun h => avgL_formula M c h, fun h => avgL_none M c h⟩

/-- **T13' (`VAR`, `MSE` as coded are Σ (x − mean)² / count and Σ x² / count over the non-NaN observations; `STD`, `RMSE`
are `math.sqrt` of them)** — the population variance (divisor `count`, not `count − 1`), the mean being `AVG`'s.
Needs exact arithmetic (`M`); `math.sqrt` stays a parameter (`Scalar.sqrt`). -/
theorem aggregate_var_mse (M : FieldModel α K) (c : List α) (h : nums M c ≠ []) :
    (∃ r, aggFn ['V', 'A', 'R'] c = .ok r ∧ aggFn ['S', 'T', 'D'] c = Scalar.sqrt r ∧
      M.val r = some (((nums M c).map (fun x => (x - (nums M c).sum / ((nums M c).length : K)) ^ 2)).sum
                        / ((nums M c).length : K))) ∧
    (∃ r, aggFn ['M', 'S', 'E'] c = .ok r ∧ aggFn ['R', 'M', 'S', 'E'] c = Scalar.sqrt r ∧
      M.val r = some (((nums M c).map (fun x => x ^ 2)).sum / ((nums M c).length : K))) := by
  obtain ⟨r, h1, h2⟩ := varL_formula M c h
  obtain ⟨s, h3, h4⟩ := mseL_formula M c h
  exact ⟨⟨r, h1, stdL_eq c r h1, h2⟩, ⟨s, h3, rmseL_eq c s h3, h4⟩⟩

/-- **T14 (`MEDIAN` as coded is the documented median)**: `Median` sorts with `np.argsort` (ascending, NaN last — NaN is
*not* skipped: the number `N` of observations counts them) and takes `vals[sort_index[N//2]]` for odd `N`,
`0.5 * (vals[sort_index[(int)(N/2 - 1)]] + vals[sort_index[(int)(N/2)]])` for even `N`. Whenever rank `N/2` falls on a number
(always, on a vector without NaN: `median_rank_of_noNaN`) the result is: for odd `N` the value of rank `N/2` among the
numbers of the vector, for even `N` the mean of the values of ranks `N/2 − 1` and `N/2` — "the value of rank `k`" (`IsOS`)
being stated without any sorting: at most `k` numbers are below it, more than `k` are below or equal to it; it is unique
(`order_statistic_unique`). A shift of one of the two ranks, or their rounding (seeded change C02-11), makes this false.
Needs exact arithmetic for the mean of the even case only. -/
theorem aggregate_median (M : FieldModel α K) (c : List α) (hnum : c.length / 2 < (nums M c).length) :
    (c.length % 2 = 1 → ∃ r x, aggFn ['M', 'E', 'D', 'I', 'A', 'N'] c = .ok r ∧ M.val r = some x
        ∧ IsOS (nums M c) (c.length / 2) x) ∧
    (c.length % 2 = 0 → ∃ r lo hi, aggFn ['M', 'E', 'D', 'I', 'A', 'N'] c = .ok r ∧ M.val r = some ((lo + hi) / 2)
        ∧ IsOS (nums M c) (c.length / 2 - 1) lo ∧ IsOS (nums M c) (c.length / 2) hi) :=
  middle_formula M c hnum

/-- **T14 (NaN side)**: `np.argsort` puts NaN last, so when the central rank of an odd number of observations does not fall on
a number (half of the observations or more are NaN) `MEDIAN` returns a NaN — `Median` does not skip NaN, unlike the other
aggregates (the oracle does not judge `MEDIAN` of a vector holding a NaN: the documentation gives no value). -/
theorem aggregate_median_nan (M : FieldModel α K) (c : List α) (hodd : c.length % 2 = 1)
    (hnum : (nums M c).length ≤ c.length / 2) :
    ∃ r, aggFn ['M', 'E', 'D', 'I', 'A', 'N'] c = .ok r ∧ Scalar.isNaN r = true :=
  middle_nan M c hodd hnum

/-- the hypothesis of T14 on a non-empty vector without NaN -/
theorem median_rank_of_noNaN (M : FieldModel α K) (c : List α) (hne : c ≠ []) (h : ∀ a ∈ c, Scalar.isNaN a = false) :
    c.length / 2 < (nums M c).length := by
  rw [nums_length_of_noNaN M c h]
  have : c.length ≠ 0 := fun h0 => hne (List.eq_nil_of_length_eq_zero h0)
  omega

omit [Field K] [IsStrictOrderedRing K] in
/-- "the value of rank `k`" determines the value -/
theorem order_statistic_unique (v : List K) (k : Nat) (m m' : K) (h : IsOS v k m) (h' : IsOS v k m') : m = m' :=
  h.unique h'

/-- **T14' (`MAD` as coded is the median of `|x|` over the non-NaN observations)**: `Mad` skips NaN, takes absolute values,
and picks the central rank(s) `N // 2` (odd `N`; fix 56ef03e — it used to be the rank below) or `N/2 − 1`, `N/2` (even `N`)
of the `N` numbers. -/
theorem aggregate_mad (M : FieldModel α K) (c : List α) (h : nums M c ≠ []) :
    (((nums M c).length % 2 = 1 → ∃ r x, aggFn ['M', 'A', 'D'] c = .ok r ∧ M.val r = some x
        ∧ IsOS ((nums M c).map (fun x => |x|)) ((nums M c).length / 2) x) ∧
     ((nums M c).length % 2 = 0 → ∃ r lo hi, aggFn ['M', 'A', 'D'] c = .ok r ∧ M.val r = some ((lo + hi) / 2)
        ∧ IsOS ((nums M c).map (fun x => |x|)) ((nums M c).length / 2 - 1) lo
        ∧ IsOS ((nums M c).map (fun x => |x|)) ((nums M c).length / 2) hi)) :=
  madL_formula M c h

/-- **T14'' (the index arithmetic of `Median`)**: for an even `N ≥ 2`, Python's `(int)(N / 2 - 1)` and `(int)(N / 2)` — true
division, then truncation toward zero — are the integer ranks `N/2 − 1` and `N/2` the model (and T14) use. (Exact quotients;
`N / 2` is exact in doubles for every `N < 2^53`.) -/
theorem median_index_arithmetic (N : Nat) (hev : N % 2 = 0) (h2 : 2 ≤ N) :
    pyInt ((N : Rat) / 2 - 1) = ((N / 2 - 1 : Nat) : Int) ∧ pyInt ((N : Rat) / 2) = ((N / 2 : Nat) : Int) :=
  median_ranks_even N hev h2

/-- **T13/T14 inside an expression**: the tree semantics of `f{a}` for an aggregate `f` is the constant vector of the value
`aggFn f` returns on the column of `a` — the value T8, T9, T13, T14 characterise — … -/
theorem expression_aggregate_value (tr : Tr α) (f a : Str) (ca : List α) (r : α) (ga : getAF tr a = .ok ca)
    (hf : isVoidFn f = false) (hg : isAggFn f = true) (hr : aggFn f ca = .ok r) :
    denoteM tr (.call f (.var a)) = .ok (.vec (List.replicate tr.n r)) := by
  rw [← opAgg_denote tr f a ca ga hf hg]
  simp only [opAgg, ga, hr, Except.map, bind, Except.bind]

/-- … and `Track.operate("f{a}")`, from the source string, returns that value at every observation and leaves the track as it
was: with T13 for `f = SUM`, `operate("SUM{a}")` is Σ of the non-NaN values of `a` at every observation. -/
theorem operate_aggregate_value (tr : Tr α) (f a : Str) (ca : List α) (r : α)
    (h : SrcOK (.call f (.var a))) (hq : NoQuote (desugar (.call f (.var a)))) (hw : WFx (desugar (.call f (.var a))))
    (hn : tr.n ≠ 0) (hnt : NoTemps tr) (hl : NoLitNames tr)
    (ga : getAF tr a = .ok ca) (hf : isVoidFn f = false) (hg : isAggFn f = true) (hr : aggFn f ca = .ok r) :
    operate tr (src (.call f (.var a))) = (.ok (some (List.replicate tr.n r)), tr) := by
  have hd : denoteM tr (desugar (.call f (.var a))) = .ok (.vec (List.replicate tr.n r)) :=
    expression_aggregate_value tr f a ca r ga hf hg hr
  exact operate_source_value tr (.call f (.var a)) _ h hq hw hn hnt hl hd

/-! ## non-vacuity: exact rationals with a NaN element -/

/-- the hypotheses are those of exact arithmetic -/
example : FieldModel (Option Rat) Rat := exactQ_model

def cEx : List (Option Rat) := [some 3, none, some (-1), some 4, some 2]
example : nums exactQ_model cEx = [3, -1, 4, 2] := rfl
/-- `SUM = 8`, `AVG = 2`, `VAR = ((1)² + (−3)² + 2² + 0²)/4 = 7/2`, `MSE = 30/4` on `[3, NaN, −1, 4, 2]` -/
example : aggFn ['S', 'U', 'M'] cEx = .ok (some 8) ∧ aggFn ['A', 'V', 'G'] cEx = .ok (some 2)
    ∧ aggFn ['V', 'A', 'R'] cEx = .ok (some (7 / 2)) ∧ aggFn ['M', 'S', 'E'] cEx = .ok (some (15 / 2)) := by
  decide +kernel
/-- `MEDIAN` of `[3, NaN, −1, 4, 2]`: `N = 5`, rank 2 of `−1, 2, 3, 4, NaN` is `3` (the NaN is counted in `N`);
`MAD`: 4 numbers, the mean of ranks 1 and 2 of `1, 2, 3, 4` -/
example : 5 / 2 < (nums exactQ_model cEx).length := by decide
example : aggFn ['M', 'E', 'D', 'I', 'A', 'N'] cEx = .ok (some 3) := by
  obtain ⟨r, x, h1, h2, h3⟩ := (aggregate_median exactQ_model cEx (by decide)).1 (by decide)
  have hos : IsOS (nums exactQ_model cEx) (cEx.length / 2) 3 := by unfold IsOS; decide +kernel
  have hx : x = 3 := h3.unique hos
  subst hx; rw [h1]; exact congrArg _ h2
/-- T14' determines the value: 4 numbers, the mean of the values of ranks 1 and 2 of `|x|` = `3, 1, 4, 2` -/
example : aggFn ['M', 'A', 'D'] cEx = .ok (some (5 / 2)) := by
  obtain ⟨r, lo, hi, h1, h2, h3, h4⟩ := (aggregate_mad exactQ_model cEx (by decide)).2 (by decide)
  have o1 : IsOS ((nums exactQ_model cEx).map (fun x => |x|)) ((nums exactQ_model cEx).length / 2 - 1) 2 := by
    unfold IsOS; decide +kernel
  have o2 : IsOS ((nums exactQ_model cEx).map (fun x => |x|)) ((nums exactQ_model cEx).length / 2) 3 := by
    unfold IsOS; decide +kernel
  have e1 : lo = 2 := h3.unique o1
  have e2 : hi = 3 := h4.unique o2
  subst e1 e2; rw [h1]
  have : ((2 : Rat) + 3) / 2 = 5 / 2 := by norm_num
  rw [this] at h2; exact congrArg _ h2
/-- an even vector without NaN: `MEDIAN{[4, 1, 3, 2]} = (2 + 3)/2` -/
example : aggFn ['M', 'E', 'D', 'I', 'A', 'N'] ([some 4, some 1, some 3, some 2] : List (Option Rat)) = .ok (some (5 / 2)) := by
  obtain ⟨r, lo, hi, h1, h2, h3, h4⟩ := (aggregate_median exactQ_model [some 4, some 1, some 3, some 2]
    (median_rank_of_noNaN exactQ_model _ (by decide) (by decide))).2 (by decide)
  have o1 : IsOS (nums exactQ_model [some 4, some 1, some 3, some 2]) (4 / 2 - 1) 2 := by unfold IsOS; decide +kernel
  have o2 : IsOS (nums exactQ_model [some 4, some 1, some 3, some 2]) (4 / 2) 3 := by unfold IsOS; decide +kernel
  have e1 : lo = 2 := h3.unique o1
  have e2 : hi = 3 := h4.unique o2
  subst e1 e2; rw [h1]
  have : ((2 : Rat) + 3) / 2 = 5 / 2 := by norm_num
  rw [this] at h2; exact congrArg _ h2
/-- `(int)(4 / 2 - 1) = 1`, `(int)(4 / 2) = 2` -/
example : pyInt ((4 : Nat) / 2 - 1 : Rat) = 1 ∧ pyInt ((4 : Nat) / 2 : Rat) = 2 := by
  have := median_index_arithmetic 4 (by decide) (by decide)
  simpa using this

/-- `MEDIAN{[NaN, 1, NaN]}` is NaN -/
example : ∃ r, aggFn ['M', 'E', 'D', 'I', 'A', 'N'] ([none, some 1, none] : List (Option Rat)) = .ok r ∧ Scalar.isNaN r = true :=
  aggregate_median_nan exactQ_model _ (by decide) (by decide)

/-- `operate("SUM{a}")` on the toy track of `Props/C02.lean` (`a = [1, -2, 4]`) -/
example : operate trEx "SUM{a}".toList = (.ok (some [3, 3, 3]), trEx) := by
  have h := operate_aggregate_value trEx ['S', 'U', 'M'] ['a'] [1, -2, 4] 3
    (by simp only [SrcOK, NameOK]; decide) (by simp only [desugar, NoQuote, GoodTok]; decide) (by simp only [desugar, WFx]; decide)
    (by decide) trEx_noTemps trEx_noLit (by rfl) (by decide) (by decide) (by rfl)
  have hs : src (.call ['S', 'U', 'M'] (.var ['a'])) = "SUM{a}".toList := by decide +kernel
  rw [hs] at h
  exact h

end TV.C02
